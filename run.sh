#!/bin/bash
# usage: run.sh <property|all> <quick|thorough>   or   run.sh -replay <file> | -dump <fn> | -selftest
# Builds the checker if needed (offline, vendored) and runs it against /repo's current tree.
#
# thorough = quick obligations + the same obligations on the GOARCH=386 build + a sensitivity
# replay: every seeded regression recorded for the property under seeded/ is applied to a scratch
# copy of the CURRENT working tree (outside /repo and /verif, removed afterwards) and the check must
# report it. The replay only measures the checker; the exit status is the property's verdict on /repo.
set -u
HERE=$(cd "$(dirname "$0")" && pwd)
REPO=${ZV_REPO:-/repo}
export PATH=/opt/veriftools/go1.26.8/bin:$PATH
export GOTOOLCHAIN=local GOPROXY=off GOSUMDB=off GOWORK=off
unset GOFLAGS
BIN=$HERE/bin/zverif
if [ ! -x "$BIN" ] || [ -n "$(find "$HERE/zverif" -name '*.go' -newer "$BIN" -not -path '*/vendor/*' -print -quit)" ]; then
  (cd "$HERE/zverif" && GOFLAGS=-mod=vendor go build -o "$BIN" .) || { echo "ERROR: cannot build zverif"; exit 2; }
fi

sensitivity() { # $1 = property id; prints a JSON array
  local prop=$1 scratch out first=1
  scratch=$(mktemp -d /tmp/zv-scratch.XXXXXX) || return
  mkdir -p "$scratch/verif" && cp "$HERE/known_findings.json" "$scratch/verif/"
  echo "["
  for meta in "$HERE"/seeded/*/meta.json; do
    [ -f "$meta" ] || continue
    local dir id
    dir=$(dirname "$meta"); id=$(basename "$dir")
    python3 - "$meta" "$prop" <<'PY' || continue
import json,sys,re
m=json.load(open(sys.argv[1])); p=sys.argv[2]
caught=re.findall(r'(?i)caught by (C\d\d)', m.get('checker_result',''))
sys.exit(0 if (p in caught or (not caught and m.get('property')==p)) else 1)
PY
    rm -rf "$scratch/tree"; mkdir -p "$scratch/tree"
    (cd "$REPO" && tar --exclude=.git -cf - .) | (cd "$scratch/tree" && tar -xf -)
    local result detail=""
    if (cd "$scratch/tree" && git apply --unsafe-paths "$dir/patch.diff" >/dev/null 2>&1) || (cd "$scratch/tree" && patch -p1 -s -f < "$dir/patch.diff" >/dev/null 2>&1); then
      out=$("$BIN" -verif "$scratch/verif" -repo "$scratch/tree" -property "$prop" -tier quick 2>&1); rc=$?
      if [ $rc = 1 ] && echo "$out" | grep -q "^VIOLATION property=$prop"; then
        result=caught; detail=$(echo "$out" | grep -m1 "violated:" | sed 's/^ *//' | cut -c1-240)
      else
        result=missed; detail="exit status $rc"
      fi
    else
      result=skipped; detail="patch does not apply to the current tree"
    fi
    [ $first = 1 ] || echo ","
    first=0
    python3 -c 'import json,sys; print(json.dumps({"seed":sys.argv[1],"result":sys.argv[2],"detail":sys.argv[3]}))' "$id" "$result" "$detail"
  done
  echo "]"
  rm -rf "$scratch"
}

case "${1:-}" in
  -*) exec "$BIN" -verif "$HERE" -repo "$REPO" "$@";;
  *)
    tier=${2:-quick}
    if [ "$tier" = thorough ] && [ "$1" != all ]; then
      rep=$(mktemp /tmp/zv-sens.XXXXXX)
      mkdir -p "$HERE/evidence"
      sensitivity "$1" > "$rep"
      # the scratch runs write their evidence under the scratch dir (-verif), needing known_findings there
      ZV_SENSITIVITY=$rep "$BIN" -verif "$HERE" -repo "$REPO" -property "$1" -tier thorough; rc=$?
      python3 - "$rep" <<'PY'
import json,sys
try:
    for e in json.load(open(sys.argv[1])):
        print("SENSITIVITY seed=%s %s %s" % (e["seed"], e["result"], e["detail"]))
except Exception as ex:
    print("SENSITIVITY report unreadable:", ex)
PY
      rm -f "$rep"
      exit $rc
    fi
    exec "$BIN" -verif "$HERE" -repo "$REPO" -property "$1" -tier "$tier";;
esac
