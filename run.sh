#!/bin/bash
# usage: run.sh <property|all> <quick|thorough>   or   run.sh -replay <file> | -dump <fn> | -selftest
# Builds the checker if needed (offline, vendored) and runs it against /repo's current tree.
set -u
HERE=$(cd "$(dirname "$0")" && pwd)
export PATH=/opt/veriftools/go1.26.8/bin:$PATH
export GOTOOLCHAIN=local GOPROXY=off GOSUMDB=off GOWORK=off
unset GOFLAGS
BIN=$HERE/bin/zverif
if [ ! -x "$BIN" ] || [ -n "$(find "$HERE/zverif" -name '*.go' -newer "$BIN" -not -path '*/vendor/*' -print -quit)" ]; then
  (cd "$HERE/zverif" && GOFLAGS=-mod=vendor go build -o "$BIN" .) || { echo "ERROR: cannot build zverif"; exit 2; }
fi
case "${1:-}" in
  -*) exec "$BIN" -verif "$HERE" "$@";;
  *)  exec "$BIN" -verif "$HERE" -property "$1" -tier "${2:-quick}";;
esac
