package main

import (
	"fmt"
	"go/constant"
	"sort"
	"strings"

	"golang.org/x/tools/go/ssa"
)

func init() {
	register(&propDef{
		ID: "C26",
		Explain: "Derivation formulas of tls/prf.go and tls/key_schedule.go compared, as canonical expressions over each function's inputs, with oracles transcribed from RFC 2246/5246 section 5 and 6.3, RFC 5705 section 4 and RFC 8446 section 7.1/7.3/7.5/4.4.4: " +
			"R-LAYOUT: P_hash's HMAC call sequence (A(1)=HMAC(seed); out += HMAC(A(i)||seed); A(i+1)=HMAC(A(i))); TLS 1.0 PRF = P_MD5(S1)^P_SHA1(S2) over label||seed with the RFC halves; TLS 1.2 PRF over label||seed; master secret (48 octets, 'master secret', client||server random); " +
			"key block ('key expansion', server||client random, 2*mac+2*key+2*iv, split in RFC order); Finished (12 octets, the two labels, the transcript hash MD5||SHA1 or the suite hash); exporter seed (randoms, then uint16 length and context exactly when a context is given, both directions). " +
			"TLS 1.3: HkdfLabel = uint16 length, uint8-prefixed 'tls13 '+label, uint8-prefixed context; expandLabel returns only the buffer filled by HKDF-Expand(hash, secret, HkdfLabel) with n == length; Derive-Secret, traffic key/iv, Finished key, exporter and Extract formulas; " +
			"R-TABLE: every label reaching expandLabel/deriveSecret is one of the RFC 8446 labels and the named constants have the RFC values; R-PROV: each side installs the client_*_traffic_secret for the client's writing direction and the server_* one for the server's.",
		NotCov: "the derived bytes themselves (HMAC/HKDF arithmetic is the standard library's); extended master secret (RFC 7627) is not implemented by tls/prf.go, so there is nothing to compare.",
		Floor:  40,
		Run:    runC26,
	})
}

// callSeq renders the calls of fn in block order; keep filters by callee name.
func callSeq(fn *ssa.Function, keep func(name string, cc *ssa.CallCommon) bool) []string {
	var out []string
	for _, b := range fn.Blocks {
		for _, in := range b.Instrs {
			cc := callCommon(in)
			if cc == nil {
				continue
			}
			name := short(calleeName(cc))
			if !keep(name, cc) {
				continue
			}
			var args []string
			for _, a := range recvAndArgs(cc) {
				args = append(args, Expr(a))
			}
			out = append(out, fmt.Sprintf("%s:%s(%s)", loopMark(b), name, strings.Join(args, ",")))
		}
	}
	return out
}

func retExprs(fn *ssa.Function, idx int) []string {
	var out []string
	for _, rt := range returnsOf(fn) {
		if idx < len(rt.Results) {
			out = append(out, Expr(unspill(rt, idx)))
		}
	}
	sort.Strings(out)
	return uniq(out)
}

func (c *Ctx) seqIs(fn *ssa.Function, label string, got []string, want []string) {
	c.Sites++
	g, wnt := strings.Join(got, " ; "), strings.Join(want, " ; ")
	if o, ok := c26Oracle[short(FuncName(fn))+"|"+label]; ok {
		wnt = o // the reviewed rendering of the RFC formula (c26_oracle.go)
	}
	c.Check(g == wnt, "R-LAYOUT", short(FuncName(fn)), label, c.W.Pos(fn.Pos()), "got "+g)
}

func runC26(c *Ctx) {
	w := c.W
	suiteTableRule(c, "implementedCipherSuites")
	suiteTableRule(c, "cipherSuites")
	pkg := "z/tls"
	if w.Pkg(pkg) == nil {
		c.Undecided("R-LAYOUT", pkg, "package", "-", "not loaded")
		return
	}
	get := func(name string) *ssa.Function {
		fn := w.Fn(name)
		if fn == nil {
			c.Undecided("R-LAYOUT", name, "anchor", "-", "function not found")
		}
		return fn
	}
	hmacOnly := func(name string, cc *ssa.CallCommon) bool {
		return strings.HasPrefix(name, "(hash.Hash).") || name == "(io.Writer).Write" || name == "crypto/hmac.New" || name == "builtin.copy"
	}
	// ---- P_hash (RFC 5246 section 5)
	if fn := get(pkg + ".pHash"); fn != nil {
		h := "crypto/hmac.New(hash,secret)"
		a := "φ((hash.Hash).Sum(" + h + ",nil)|↺)"
		got := callSeq(fn, hmacOnly)
		want := []string{
			"b0:crypto/hmac.New(hash,secret)",
			"b0:(hash.Hash).Write(" + h + ",seed)",
			"b0:(hash.Hash).Sum(" + h + ",nil)",
			"b1:(hash.Hash).Reset(" + h + ")",
			"b1:(hash.Hash).Write(" + h + "," + a + ")",
			"b1:(hash.Hash).Write(" + h + ",seed)",
			"b1:(hash.Hash).Sum(" + h + ",nil)",
			"b1:builtin.copy(result[φ(0|(↺+len((hash.Hash).Sum(" + h + ",nil)))):],(hash.Hash).Sum(" + h + ",nil))",
			"b1:(hash.Hash).Reset(" + h + ")",
			"b1:(hash.Hash).Write(" + h + "," + a + ")",
			"b1:(hash.Hash).Sum(" + h + ",nil)",
		}
		c.seqIs(fn, "A(1)=HMAC(seed); per block HMAC(A(i)||seed) copied at the running offset; A(i+1)=HMAC(A(i))", got, want)
		for _, rt := range returnsOf(fn) {
			ok := false
			for _, f := range domFacts(rt.Block()) {
				if f.Op == "ge" && f.Y != nil && Expr(f.Y) == "len(result)" && strings.HasPrefix(Expr(f.X), "φ(") && strings.Contains(Expr(f.X), "+len((hash.Hash).Sum(") {
					ok = true
				}
			}
			c.Check(ok, "R-LAYOUT", "tls.pHash", "blocks are produced until the whole result is covered (offset >= len(result))", w.InstrPos(rt), "")
		}
	}
	if fn := get(pkg + ".splitPreMasterSecret"); fn != nil {
		c.Check(fmt.Sprint(retExprs(fn, 0)) == "[secret[0:((len(secret)+1)/2)]]" && fmt.Sprint(retExprs(fn, 1)) == "[secret[(len(secret)/2):]]", "R-LAYOUT", "tls.splitPreMasterSecret",
			"S1 = first ceil(n/2) octets, S2 = last ceil(n/2) octets (RFC 2246 section 5)", w.Pos(fn.Pos()), fmt.Sprint(retExprs(fn, 0), retExprs(fn, 1)))
	}
	ls := "make([]byte,(len(label)+len(seed)))"
	concat := []string{"b0:builtin.copy(" + ls + ",label)", "b0:builtin.copy(" + ls + "[len(label):],seed)"}
	pcalls := func(name string, cc *ssa.CallCommon) bool {
		return name == "builtin.copy" || strings.HasSuffix(name, ".pHash") || strings.HasSuffix(name, ".splitPreMasterSecret")
	}
	if fn := get(pkg + ".prf10"); fn != nil {
		got := callSeq(fn, pcalls)
		want := append(append([]string{}, concat...),
			"b0:tls.splitPreMasterSecret(secret)",
			"b0:tls.pHash(result,tls.splitPreMasterSecret(secret)#0,"+ls+",crypto/md5.New)",
			"b0:tls.pHash(make([]byte,len(result)),tls.splitPreMasterSecret(secret)#1,"+ls+",crypto/sha1.New)")
		c.seqIs(fn, "PRF = P_MD5(S1, label||seed) XOR P_SHA-1(S2, label||seed)", got, want)
		// the XOR loop
		xor := ""
		for _, b := range fn.Blocks {
			for _, in := range b.Instrs {
				if st, ok := in.(*ssa.Store); ok {
					if ia, ok := st.Addr.(*ssa.IndexAddr); ok && Expr(ia.X) == "result" {
						xor = Expr(ia.Index) + ":" + Expr(st.Val)
					}
				}
			}
		}
		c.Check(xor == "(φ(-1|↺)+1):(result[(φ(-1|↺)+1)]^make([]byte,len(result))[(φ(-1|↺)+1)])", "R-LAYOUT", "tls.prf10", "result[i] ^= result2[i] for every i", w.Pos(fn.Pos()), xor)
	}
	if fn := get(pkg + ".prf12$1"); fn != nil {
		got := callSeq(fn, pcalls)
		want := append(append([]string{}, concat...), "b0:tls.pHash(result,secret,"+ls+",hashFunc)")
		c.seqIs(fn, "PRF = P_hash(secret, label||seed)", got, want)
	}
	if fn := get(pkg + ".prfAndHashForVersion"); fn != nil {
		// which PRF for which version
		r0, r1 := retExprs(fn, 0), retExprs(fn, 1)
		c.Check(fmt.Sprint(r0) == "[func:tls.prf10 tls.prf12(func:crypto/sha256.New) tls.prf12(func:crypto/sha512.New384)]" && fmt.Sprint(r1) == "[0 5 6]", "R-TABLE", "tls.prfAndHashForVersion", "returns prf10, prf12(SHA-256), prf12(SHA-384) only", w.Pos(fn.Pos()), fmt.Sprint(r0, r1))
		for _, rt := range returnsOf(fn) {
			e := Expr(rt.Results[0])
			switch {
			case e == "func:tls.prf10":
				c.Cut(CutSpec{Rule: "R-TABLE", Fn: fn, Label: "the MD5/SHA-1 PRF only for TLS 1.0 and 1.1", Target: isInstr(rt), Cut: AnyF(factExpr("eq", "version", "769"), factExpr("eq", "version", "770"))})
				c.Check(Expr(rt.Results[1]) == "0", "R-TABLE", "tls.prfAndHashForVersion", "prf10 pairs with the MD5||SHA-1 transcript hash", w.InstrPos(rt), Expr(rt.Results[1]))
			case strings.HasSuffix(e, "New384)"):
				c.Cut(CutSpec{Rule: "R-TABLE", Fn: fn, Label: "the SHA-384 PRF only for TLS 1.2 suites flagged suiteSHA384", Target: isInstr(rt), Cut: factExpr("eq", "version", "771")})
				c.Cut(CutSpec{Rule: "R-TABLE", Fn: fn, Label: "the SHA-384 PRF only under the suiteSHA384 flag", Target: isInstr(rt), Cut: factExpr("ne", "(suite.flags&"+constStr(w, pkg, "suiteSHA384")+")", "0")})
				c.Check(Expr(rt.Results[1]) == "6", "R-TABLE", "tls.prfAndHashForVersion", "SHA-384 PRF pairs with crypto.SHA384", w.InstrPos(rt), Expr(rt.Results[1]))
			case strings.HasSuffix(e, "sha256.New)"):
				c.Cut(CutSpec{Rule: "R-TABLE", Fn: fn, Label: "the SHA-256 PRF only for TLS 1.2", Target: isInstr(rt), Cut: factExpr("eq", "version", "771")})
				c.Cut(CutSpec{Rule: "R-TABLE", Fn: fn, Label: "the SHA-256 PRF only without the suiteSHA384 flag", Target: isInstr(rt), Cut: factExpr("eq", "(suite.flags&"+constStr(w, pkg, "suiteSHA384")+")", "0")})
				c.Check(Expr(rt.Results[1]) == "5", "R-TABLE", "tls.prfAndHashForVersion", "SHA-256 PRF pairs with crypto.SHA256", w.InstrPos(rt), Expr(rt.Results[1]))
			}
		}
	}
	// labels
	for name, want := range map[string]string{"masterSecretLabel": "master secret", "keyExpansionLabel": "key expansion", "clientFinishedLabel": "client finished", "serverFinishedLabel": "server finished"} {
		got, nw := globalBytesInit(w, pkg, name)
		c.Check(got == want && nw == 1, "R-TABLE", "tls."+name, "label value of RFC 5246 and written only by its initialiser", "-", fmt.Sprintf("%q, %d writes", got, nw))
	}
	prfCall := func(name string, cc *ssa.CallCommon) bool {
		return strings.HasPrefix(name, "dyn:") || strings.HasSuffix(name, ".prfForVersion") || name == "builtin.append"
	}
	prf := "tls.prfForVersion(version,suite)"
	if fn := get(pkg + ".masterFromPreMasterSecret"); fn != nil {
		got := callSeq(fn, prfCall)
		seed0 := "make([]byte,0,(len(clientRandom)+len(serverRandom)))"
		want := []string{
			"b0:builtin.append(" + seed0 + ",clientRandom)",
			"b0:builtin.append(append(" + seed0 + ",clientRandom...),serverRandom)",
			"b0:" + prf,
			"b0:dyn:?(" + prf + ",make([]byte,48),preMasterSecret,tls.masterSecretLabel,append(append(" + seed0 + ",clientRandom...),serverRandom...))",
		}
		c.seqIs(fn, "master_secret = PRF(pre_master, 'master secret', client_random || server_random)[0..47]", got, want)
		c.Check(fmt.Sprint(retExprs(fn, 0)) == "[alloc(*[48]byte)[:48]]", "R-LAYOUT", "tls.masterFromPreMasterSecret", "returns the 48-octet buffer the PRF filled", w.Pos(fn.Pos()), fmt.Sprint(retExprs(fn, 0)))
	}
	if fn := get(pkg + ".keysFromMasterSecret"); fn != nil {
		got := callSeq(fn, prfCall)
		seed0 := "make([]byte,0,(len(serverRandom)+len(clientRandom)))"
		km := "make([]byte,(((2*macLen)+(2*keyLen))+(2*ivLen)))"
		want := []string{
			"b0:builtin.append(" + seed0 + ",serverRandom)",
			"b0:builtin.append(append(" + seed0 + ",serverRandom...),clientRandom)",
			"b0:" + prf,
			"b0:dyn:?(" + prf + "," + km + ",masterSecret,tls.keyExpansionLabel,append(append(" + seed0 + ",serverRandom...),clientRandom...))",
		}
		c.seqIs(fn, "key_block = PRF(master, 'key expansion', server_random || client_random) of 2*mac+2*key+2*iv octets", got, want)
		var split []string
		for i := 0; i < 6; i++ {
			split = append(split, strings.Join(retExprs(fn, i), "/"))
		}
		ws := []string{km + "[:macLen]", km + "[macLen:][:macLen]", km + "[macLen:][macLen:][:keyLen]", km + "[macLen:][macLen:][keyLen:][:keyLen]",
			km + "[macLen:][macLen:][keyLen:][keyLen:][:ivLen]", km + "[macLen:][macLen:][keyLen:][keyLen:][ivLen:][:ivLen]"}
		c.Check(strings.Join(split, " ; ") == strings.Join(ws, " ; "), "R-LAYOUT", "tls.keysFromMasterSecret", "key block split: client MAC, server MAC, client key, server key, client IV, server IV (RFC 5246 6.3)", w.Pos(fn.Pos()), strings.Join(split, " ; "))
	}
	for _, p := range [][2]string{{"clientSum", "tls.clientFinishedLabel"}, {"serverSum", "tls.serverFinishedLabel"}} {
		if fn := get("(" + pkg + ".finishedHash)." + p[0]); fn != nil {
			got := callSeq(fn, func(name string, cc *ssa.CallCommon) bool { return strings.HasPrefix(name, "dyn:") })
			want := []string{"b0:dyn:finishedHash.prf(h.prf,make([]byte,12),masterSecret," + p[1] + ",(tls.finishedHash).Sum(h))"}
			c.seqIs(fn, "verify_data = PRF(master, finished_label, Hash(handshake_messages))[0..11]", got, want)
			c.Check(fmt.Sprint(retExprs(fn, 0)) == "[alloc(*[12]byte)[:12]]", "R-LAYOUT", "tls.finishedHash."+p[0], "returns the 12-octet buffer", w.Pos(fn.Pos()), fmt.Sprint(retExprs(fn, 0)))
		}
	}
	if fn := get("(" + pkg + ".finishedHash).Sum"); fn != nil {
		for _, rt := range returnsOf(fn) {
			e := Expr(rt.Results[0])
			switch e {
			case "(hash.Hash).Sum(h.client,nil)":
				c.Cut(CutSpec{Rule: "R-LAYOUT", Fn: fn, Label: "the single suite hash is the transcript hash only for TLS 1.2 and later", Target: isInstr(rt), Cut: factExpr("ge", "h.version", "771")})
			case "(hash.Hash).Sum(h.client,(hash.Hash).Sum(h.clientMD5,alloc(*[36]byte)[:0]))":
				c.Cut(CutSpec{Rule: "R-LAYOUT", Fn: fn, Label: "MD5 || SHA-1 is the transcript hash only before TLS 1.2", Target: isInstr(rt), Cut: factExpr("lt", "h.version", "771")})
			default:
				c.Fail("R-LAYOUT", "tls.finishedHash.Sum", "transcript hash is Hash(messages) or MD5(messages)||SHA1(messages)", w.InstrPos(rt), e)
			}
		}
	}
	if fn := get(pkg + ".newFinishedHash"); fn != nil {
		var lits []string
		for _, b := range fn.Blocks {
			for _, in := range b.Instrs {
				if al, ok := in.(*ssa.Alloc); ok && strings.HasSuffix(typeStr(al.Type()), "finishedHash") {
					fi := fieldInits(al)
					lits = append(lits, fmt.Sprintf("client=%s server=%s clientMD5=%s serverMD5=%s version=%s prf=%s", ex(fi["client"]), ex(fi["server"]), ex(fi["clientMD5"]), ex(fi["serverMD5"]), ex(fi["version"]), ex(fi["prf"])))
				}
			}
		}
		sort.Strings(lits)
		pf, hh := "tls.prfAndHashForVersion(version,cipherSuite)#0", "tls.prfAndHashForVersion(version,cipherSuite)#1"
		want := []string{
			"client=(crypto.Hash).New(" + hh + ") server=(crypto.Hash).New(" + hh + ") clientMD5=nil server=… ",
		}
		_ = want
		okL := len(lits) == 2 &&
			lits[0] == "client=(crypto.Hash).New("+hh+") server=(crypto.Hash).New("+hh+") clientMD5=nil serverMD5=nil version=version prf="+pf &&
			lits[1] == "client=crypto/sha1.New() server=crypto/sha1.New() clientMD5=crypto/md5.New() serverMD5=crypto/md5.New() version=version prf="+pf
		c.Check(okL, "R-LAYOUT", "tls.newFinishedHash", "suite hash for TLS 1.2, SHA-1 plus MD5 before; the PRF of the version", w.Pos(fn.Pos()), strings.Join(lits, " ; "))
	}
	// ---- RFC 5705 exporter
	if fn := get(pkg + ".ekmFromMasterSecret$1"); fn != nil {
		var apps []ssa.Instruction
		for _, b := range fn.Blocks {
			for _, in := range b.Instrs {
				if cl := isBuiltinCall(in, "append"); cl != nil {
					apps = append(apps, in)
				}
			}
		}
		var ctxLen, ctxApp, prfIn ssa.Instruction
		var seq []string
		for _, in := range apps {
			cl := in.(*ssa.Call)
			vals, spread := appended(cl)
			var vs []string
			for _, v := range vals {
				vs = append(vs, Expr(v))
			}
			s := strings.Join(vs, ",")
			if spread {
				s += "..."
			}
			seq = append(seq, s)
			if s == "byte((len(context)>>8)),byte(len(context))" || s == "(len(context)>>8),len(context)" {
				ctxLen = in
			}
			if s == "context..." {
				ctxApp = in
			}
		}
		c.Check(strings.Join(seq, " ; ") == "free:clientRandom... ; free:serverRandom... ; byte((len(context)>>8)),byte(len(context)) ; context..." && ctxLen != nil && ctxApp != nil, "R-LAYOUT", "tls.ekmFromMasterSecret", "seed = client_random || server_random [|| uint16(len(context)) || context]", w.Pos(fn.Pos()), strings.Join(seq, " ; "))
		for _, b := range fn.Blocks {
			for _, in := range b.Instrs {
				if cc := callCommon(in); cc != nil && strings.HasPrefix(calleeName(cc), "dyn:") && len(cc.Args) == 4 {
					prfIn = in
					c.Check(Expr(cc.Args[0]) == "make([]byte,length)" && Expr(cc.Args[1]) == "free:masterSecret" && Expr(cc.Args[2]) == "[]byte(label)" && strings.HasPrefix(Expr(cc.Args[3]), "φ(append(append(append(append(make([]byte,0),free:clientRandom),free:serverRandom),"), "R-LAYOUT", "tls.ekmFromMasterSecret", "PRF(master_secret, label, seed) of the requested length", w.InstrPos(in), Expr(cc.Args[0])+","+Expr(cc.Args[1])+","+Expr(cc.Args[2]))
					c.Check(Expr(cc.Value) == "tls.prfForVersion(free:version,free:suite)", "R-LAYOUT", "tls.ekmFromMasterSecret", "uses the PRF of the negotiated version and suite", w.InstrPos(in), Expr(cc.Value))
				}
			}
		}
		if ctxLen != nil && ctxApp != nil && prfIn != nil {
			c.Cut(CutSpec{Rule: "R-LAYOUT", Fn: fn, Label: "the context length and context are appended only when a context was provided", Target: isInstr(ctxLen), Cut: factExpr("nonnil", "context", "")})
			c.Cut(CutSpec{Rule: "R-LAYOUT", Fn: fn, Label: "a provided context (even of length zero) always contributes its uint16 length and bytes (RFC 5705 section 4)", Target: isInstr(prfIn),
				Barrier: func(in ssa.Instruction) bool { return in == ctxApp }, Cut: factExpr("nil", "context", "")})
			c.Cut(CutSpec{Rule: "R-LAYOUT", Fn: fn, Label: "the context bytes follow their length", Target: isInstr(ctxApp), Barrier: func(in ssa.Instruction) bool { return in == ctxLen }, Cut: func(Fact) bool { return false }})
			c.Cut(CutSpec{Rule: "R-LAYOUT", Fn: fn, Label: "a context that does not fit the uint16 length is rejected", Target: isInstr(ctxLen), Cut: factExpr("lt", "len(context)", "65536")})
		} else {
			c.Fail("R-LAYOUT", "tls.ekmFromMasterSecret", "context appends and PRF call found", w.Pos(fn.Pos()), "")
		}
		// reserved labels
		for _, l := range []string{"client finished", "server finished", "master secret", "key expansion"} {
			c.Cut(CutSpec{Rule: "R-VSET", Fn: fn, Label: "the reserved label '" + l + "' is refused", Target: SuccessReturn(1, nil), Cut: factExpr("ne", "label", fmt.Sprintf("%q", l))})
		}
	}

	// ---- TLS 1.3
	cs := "(*" + pkg + ".cipherSuiteTLS13)"
	if fn := get(cs + ".expandLabel"); fn != nil {
		var b13 []string
		b13 = append(b13, callSeq(fn, func(name string, cc *ssa.CallCommon) bool { return strings.Contains(name, "cryptobyte.Builder)") })...)
		for _, an := range fn.AnonFuncs {
			for _, s := range callSeq(an, func(name string, cc *ssa.CallCommon) bool { return strings.Contains(name, "cryptobyte.Builder)") }) {
				b13 = append(b13, an.Name()+":"+s)
			}
		}
		want := []string{
			"b0:(*golang.org/x/crypto/cryptobyte.Builder).AddUint16(hkdfLabel,uint16(length))",
			"b0:(*golang.org/x/crypto/cryptobyte.Builder).AddUint8LengthPrefixed(hkdfLabel,closure(expandLabel$1))",
			"b0:(*golang.org/x/crypto/cryptobyte.Builder).AddUint8LengthPrefixed(hkdfLabel,closure(expandLabel$2))",
			"b0:(*golang.org/x/crypto/cryptobyte.Builder).BytesOrPanic(hkdfLabel)",
			"expandLabel$1:b0:(*golang.org/x/crypto/cryptobyte.Builder).AddBytes(b,[]byte(\"tls13 \"))",
			"expandLabel$1:b0:(*golang.org/x/crypto/cryptobyte.Builder).AddBytes(b,[]byte(label))",
			"expandLabel$2:b0:(*golang.org/x/crypto/cryptobyte.Builder).AddBytes(b,context)",
		}
		c.seqIs(fn, "HkdfLabel = uint16 length || uint8-prefixed ('tls13 ' || label) || uint8-prefixed context (RFC 8446 7.1)", b13, want)
		exp := callSeq(fn, func(name string, cc *ssa.CallCommon) bool { return strings.Contains(name, "hkdf.") || name == "(io.Reader).Read" })
		wantE := []string{
			"b0:golang.org/x/crypto/hkdf.Expand(bound(c.hash.New),secret,(*golang.org/x/crypto/cryptobyte.Builder).BytesOrPanic(hkdfLabel))",
			"b0:(io.Reader).Read(golang.org/x/crypto/hkdf.Expand(bound(c.hash.New),secret,(*golang.org/x/crypto/cryptobyte.Builder).BytesOrPanic(hkdfLabel)),make([]byte,length))",
		}
		c.seqIs(fn, "out = HKDF-Expand(suite hash, secret, HkdfLabel) read into a buffer of the requested length", exp, wantE)
		c.Check(fmt.Sprint(retExprs(fn, 0)) == "[make([]byte,length)]", "R-LAYOUT", "tls.expandLabel", "returns that buffer", w.Pos(fn.Pos()), fmt.Sprint(retExprs(fn, 0)))
		rd := "(io.Reader).Read(golang.org/x/crypto/hkdf.Expand(closure:func:(crypto.Hash).New,secret,(*golang.org/x/crypto/cryptobyte.Builder).BytesOrPanic(hkdfLabel)),make([]byte,length))"
		anyRet := func(in ssa.Instruction, _ resolver) bool { _, ok := in.(*ssa.Return); return ok }
		c.Cut(CutSpec{Rule: "R-LAYOUT", Fn: fn, Label: "returns only past a complete HKDF read (n == length)", Target: anyRet, Cut: factExpr("eq", rd+"#0", "length")})
		c.Cut(CutSpec{Rule: "R-LAYOUT", Fn: fn, Label: "returns only past a successful HKDF read (err == nil)", Target: anyRet, Cut: factExpr("nil", rd+"#1", "")})
	}
	type formula struct {
		fn    string
		label string
		want  []string
		ret   map[int]string
	}
	hsz := "(crypto.Hash).Size(c.hash)"
	for _, f := range []formula{
		{cs + ".deriveSecret", "Derive-Secret(secret, label, messages) = HKDF-Expand-Label(secret, label, Transcript-Hash(messages), Hash.length)",
			[]string{"b0:(crypto.Hash).New(c.hash)", "b2:(hash.Hash).Sum(φ(transcript|(crypto.Hash).New(c.hash)),nil)", "b2:" + hsz,
				"b2:(*tls.cipherSuiteTLS13).expandLabel(c,secret,label,(hash.Hash).Sum(φ(transcript|(crypto.Hash).New(c.hash)),nil)," + hsz + ")"},
			map[int]string{0: "(*tls.cipherSuiteTLS13).expandLabel(c,secret,label,(hash.Hash).Sum(φ(transcript|(crypto.Hash).New(c.hash)),nil)," + hsz + ")"}},
		{cs + ".nextTrafficSecret", "application_traffic_secret_N+1 = HKDF-Expand-Label(secret_N, 'traffic upd', '', Hash.length)",
			[]string{"b0:" + hsz, "b0:(*tls.cipherSuiteTLS13).expandLabel(c,trafficSecret,\"traffic upd\",nil," + hsz + ")"},
			map[int]string{0: "(*tls.cipherSuiteTLS13).expandLabel(c,trafficSecret,\"traffic upd\",nil," + hsz + ")"}},
		{cs + ".trafficKey", "write_key = HKDF-Expand-Label(secret, 'key', '', key_length); write_iv = HKDF-Expand-Label(secret, 'iv', '', 12)",
			[]string{"b0:(*tls.cipherSuiteTLS13).expandLabel(c,trafficSecret,\"key\",nil,c.keyLen)", "b0:(*tls.cipherSuiteTLS13).expandLabel(c,trafficSecret,\"iv\",nil,12)"},
			map[int]string{0: "(*tls.cipherSuiteTLS13).expandLabel(c,trafficSecret,\"key\",nil,c.keyLen)", 1: "(*tls.cipherSuiteTLS13).expandLabel(c,trafficSecret,\"iv\",nil,12)"}},
		{cs + ".finishedHash", "verify_data = HMAC(HKDF-Expand-Label(BaseKey, 'finished', '', Hash.length), Transcript-Hash)",
			[]string{"b0:" + hsz, "b0:(*tls.cipherSuiteTLS13).expandLabel(c,baseKey,\"finished\",nil," + hsz + ")",
				"b0:crypto/hmac.New(bound(c.hash.New),(*tls.cipherSuiteTLS13).expandLabel(c,baseKey,\"finished\",nil," + hsz + "))",
				"b0:(hash.Hash).Sum(transcript,nil)",
				"b0:(hash.Hash).Write(crypto/hmac.New(bound(c.hash.New),(*tls.cipherSuiteTLS13).expandLabel(c,baseKey,\"finished\",nil," + hsz + ")),(hash.Hash).Sum(transcript,nil))",
				"b0:(hash.Hash).Sum(crypto/hmac.New(bound(c.hash.New),(*tls.cipherSuiteTLS13).expandLabel(c,baseKey,\"finished\",nil," + hsz + ")),nil)"},
			map[int]string{0: "(hash.Hash).Sum(crypto/hmac.New(bound(c.hash.New),(*tls.cipherSuiteTLS13).expandLabel(c,baseKey,\"finished\",nil," + hsz + ")),nil)"}},
		{cs + ".extract", "HKDF-Extract(salt = current secret, IKM = new secret or Hash.length zeros)",
			[]string{"b0:" + hsz, "b2:golang.org/x/crypto/hkdf.Extract(bound(c.hash.New),φ(newSecret|make([]byte," + hsz + ")),currentSecret)"},
			map[int]string{0: "golang.org/x/crypto/hkdf.Extract(bound(c.hash.New),φ(newSecret|make([]byte," + hsz + ")),currentSecret)"}},
		{cs + ".exportKeyingMaterial", "exporter_master_secret = Derive-Secret(master, 'exp master', transcript)",
			[]string{"b0:(*tls.cipherSuiteTLS13).deriveSecret(c,masterSecret,\"exp master\",transcript)"}, nil},
		{cs + ".exportKeyingMaterial$1", "exporter = HKDF-Expand-Label(Derive-Secret(exporter_master, label, ''), 'exporter', Hash(context), length) (RFC 8446 7.5)",
			[]string{"b0:(*tls.cipherSuiteTLS13).deriveSecret(c,expMasterSecret,label,nil)", "b0:(crypto.Hash).New(c.hash)", "b0:(hash.Hash).Write((crypto.Hash).New(c.hash),context)", "b0:(hash.Hash).Sum((crypto.Hash).New(c.hash),nil)",
				"b0:(*tls.cipherSuiteTLS13).expandLabel(c,(*tls.cipherSuiteTLS13).deriveSecret(c,expMasterSecret,label,nil),\"exporter\",(hash.Hash).Sum((crypto.Hash).New(c.hash),nil),length)"},
			map[int]string{0: "(*tls.cipherSuiteTLS13).expandLabel(c,(*tls.cipherSuiteTLS13).deriveSecret(c,expMasterSecret,label,nil),\"exporter\",(hash.Hash).Sum((crypto.Hash).New(c.hash),nil),length)"}},
	} {
		fn := get(f.fn)
		if fn == nil {
			continue
		}
		got := callSeq(fn, func(name string, cc *ssa.CallCommon) bool {
			return !strings.HasPrefix(name, "builtin.") && !strings.HasPrefix(name, "dyn:")
		})
		c.seqIs(fn, f.label, got, f.want)
		var idx []int
		for i := range f.ret {
			idx = append(idx, i)
		}
		sort.Ints(idx)
		for _, i := range idx {
			r := retExprs(fn, i)
			if o, ok := c26Oracle[short(FuncName(fn))+"|ret"+fmt.Sprint(i)]; ok {
				f.ret[i] = o
			}
			c.Check(len(r) == 1 && r[0] == f.ret[i], "R-LAYOUT", short(f.fn), fmt.Sprintf("result %d is that value", i), w.Pos(fn.Pos()), fmt.Sprint(r))
		}
	}
	if v, ok := w.ConstOf(pkg, "aeadNonceLength"); ok {
		c.Check(v.ExactString() == "12", "R-TABLE", "tls.aeadNonceLength", "iv_length is 12", "-", v.ExactString())
	}
	// ---- labels (RFC 8446 7.1)
	for name, want := range map[string]string{"resumptionBinderLabel": "res binder", "clientHandshakeTrafficLabel": "c hs traffic", "serverHandshakeTrafficLabel": "s hs traffic",
		"clientApplicationTrafficLabel": "c ap traffic", "serverApplicationTrafficLabel": "s ap traffic", "exporterLabel": "exp master", "resumptionLabel": "res master", "trafficUpdateLabel": "traffic upd"} {
		v, ok := w.ConstOf(pkg, name)
		c.Check(ok && v.Kind() == constant.String && constant.StringVal(v) == want, "R-TABLE", "tls."+name, "label value of RFC 8446 7.1", "-", fmt.Sprint(v))
	}
	rfcLabels := map[string]bool{"ext binder": true, "res binder": true, "c e traffic": true, "e exp master": true, "derived": true, "c hs traffic": true, "s hs traffic": true, "c ap traffic": true, "s ap traffic": true,
		"exp master": true, "res master": true, "traffic upd": true, "key": true, "iv": true, "finished": true, "exporter": true, "resumption": true}
	nlab := 0
	for _, fn := range w.FuncsOfPkg(pkg) {
		if strings.HasSuffix(w.RelFile(fn.Pos()), "_test.go") {
			continue
		}
		for _, in := range callsIn(fn, cs+".expandLabel", cs+".deriveSecret") {
			cc := callCommon(in)
			lab := cc.Args[2]
			k, isC := lab.(*ssa.Const)
			if !isC {
				// a forwarded label parameter (deriveSecret -> expandLabel, exporter closure)
				if _, isP := lab.(*ssa.Parameter); isP {
					continue
				}
				c.Fail("R-TABLE", short(FuncName(fn)), "the label is a constant or a forwarded parameter", w.InstrPos(in), Expr(lab))
				continue
			}
			nlab++
			c.Sites++
			s := constant.StringVal(k.Value)
			c.Check(rfcLabels[s], "R-TABLE", short(FuncName(fn)), fmt.Sprintf("label %q is an RFC 8446 label", s), w.InstrPos(in), s)
		}
	}
	c.Check(nlab >= 20, "R-TABLE", pkg, "label call sites enumerated", "-", fmt.Sprint(nlab))
	c.trafficDirections(pkg)
}

func ex(v ssa.Value) string {
	if v == nil {
		return "nil"
	}
	return Expr(v)
}

func seqOr(s []string, i int) string {
	if i < len(s) {
		return s[i]
	}
	return "?"
}

func returnsOf(fn *ssa.Function) []*ssa.Return {
	var out []*ssa.Return
	for _, b := range fn.Blocks {
		if rt, ok := b.Instrs[len(b.Instrs)-1].(*ssa.Return); ok && !(fn.Recover != nil && b == fn.Recover) {
			out = append(out, rt)
		}
	}
	return out
}

func constStr(w *World, pkg, name string) string {
	v, ok := w.ConstOf(pkg, name)
	if !ok {
		return "?"
	}
	return v.ExactString()
}

// globalBytesInit: the string a package-level []byte("...") variable is initialised with, and the number of stores to it.
func globalBytesInit(w *World, pkg, name string) (string, int) {
	p := w.Pkg(pkg)
	if p == nil {
		return "", 0
	}
	var g *ssa.Global
	for _, fn := range w.FuncsOfPkg(pkg) {
		if fn.Pkg != nil {
			if m, ok := fn.Pkg.Members[name].(*ssa.Global); ok {
				g = m
				break
			}
		}
	}
	if g == nil {
		return "", 0
	}
	val, n := "", 0
	for fn := range w.AllFuncs() {
		if fn.Pkg != g.Pkg {
			continue
		}
		for _, b := range fn.Blocks {
			for _, in := range b.Instrs {
				if st, ok := in.(*ssa.Store); ok && st.Addr == ssa.Value(g) {
					n++
					if cv, ok := st.Val.(*ssa.Convert); ok {
						if k, ok := cv.X.(*ssa.Const); ok && k.Value != nil && k.Value.Kind() == constant.String {
							val = constant.StringVal(k.Value)
						}
					}
				}
			}
		}
	}
	return val, n
}

// trafficDirections: the secret each side installs per direction comes from the matching label.
func (c *Ctx) trafficDirections(pkg string) {
	w := c.W
	fw := w.FieldWrites()
	var labelOf func(v ssa.Value, d int) string
	labelOf = func(v ssa.Value, d int) string {
		if d > 3 {
			return "?"
		}
		v = stripConv(v)
		if fa := loadedField(v); fa != nil {
			var ls []string
			for _, wr := range fw[fieldName(fa)] {
				if wr.Kind == "store" {
					ls = append(ls, labelOf(wr.Val, d+1))
				}
			}
			sort.Strings(ls)
			ls = uniq(ls)
			return strings.Join(ls, "|")
		}
		if cl := callOf(v); cl != nil && strings.HasSuffix(calleeName(&cl.Call), ".deriveSecret") {
			if k, ok := cl.Call.Args[2].(*ssa.Const); ok {
				return constant.StringVal(k.Value)
			}
		}
		return "?"
	}
	n := 0
	for _, fn := range w.FuncsOfPkg(pkg) {
		file := w.RelFile(fn.Pos())
		var role string
		switch {
		case strings.HasSuffix(file, "handshake_client_tls13.go"):
			role = "client"
		case strings.HasSuffix(file, "handshake_server_tls13.go"):
			role = "server"
		default:
			continue
		}
		for _, in := range callsIn(fn, "(*"+pkg+".halfConn).setTrafficSecret") {
			cc := callCommon(in)
			dir := "?"
			if fa, ok := cc.Args[0].(*ssa.FieldAddr); ok {
				dir = fieldLeaf(fieldName(fa)) // in | out
			}
			lab := labelOf(cc.Args[2], 0)
			n++
			c.Sites++
			// who writes in this direction?
			writer := role
			if dir == "in" {
				if role == "client" {
					writer = "server"
				} else {
					writer = "client"
				}
			}
			want := writer[:1] + " "
			c.Check((dir == "in" || dir == "out") && strings.HasPrefix(lab, want) && strings.HasSuffix(lab, " traffic") && !strings.Contains(lab, "|"), "R-PROV", short(FuncName(fn)),
				fmt.Sprintf("%s side, direction %s #%d installs the %s's traffic secret", role, dir, n, writer), w.InstrPos(in), "label "+lab)
		}
	}
	c.Check(n == 8, "R-PROV", pkg, "the eight handshake/application traffic-secret installations enumerated", "-", fmt.Sprint(n))
}
