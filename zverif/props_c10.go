package main

import (
	"fmt"
	"strings"

	"golang.org/x/tools/go/ssa"
)

const (
	fnGAddCert   = "(*z/verifier.Graph).AddCert"
	fnGAddRoot   = "(*z/verifier.Graph).AddRoot"
	fnCSFK       = "z/x509.CheckSignatureFromKey"
	fnESAdd      = "(*z/verifier.GraphEdgeSet).addOrPanic"
	fnESRemove   = "(*z/verifier.GraphEdgeSet).removeEdge"
	fnESContains = "(*z/verifier.GraphEdgeSet).ContainsCertificate"
	fnESSize     = "(*z/verifier.GraphEdgeSet).Size"
	fnNewES      = "z/verifier.NewGraphEdgeSet"
)

func init() {
	register(&propDef{
		ID: "C10",
		Explain: "R-OWN over every write (in package verifier) to the fields of Graph, GraphNode, GraphEdge and GraphEdgeSet, with R-CUT/R-PROV writer obligations: " +
			"an issuer is stored on an edge only behind CheckSignatureFromKey(==nil) of that node's key over that edge's certificate, with the node drawn from nodesBySubject[RawIssuer] " +
			"(or the edge drawn from missingIssuerNode[RawSubject] of the new node); exits with a nil issuer pass the registration in missingIssuerNode[RawIssuer]; " +
			"entries of missingIssuerNode are deleted only when their set is empty and edges are removed only from those sets; nodes and edges are created only on the lookup-miss edge; " +
			"root is only ever set to the constant true.",
		NotCov: "Confluence over insertion orders as such (the obligations are the per-insertion invariants it follows from); which issuer is chosen when several nodes verify the same certificate.",
		Floor:  30,
		Run:    runC10,
	})
}

func (c *Ctx) writesIn(pkg string, fields ...string) []FieldWrite {
	var out []FieldWrite
	for _, f := range fields {
		for _, wr := range c.W.FieldWrites()[f] {
			if inPkg(wr.Fn, pkg) {
				out = append(out, wr)
			}
		}
	}
	return out
}

// certOfEdge: does cert value x denote the certificate of edge value e in fn?
// Either x is a load of e.Certificate, or fn stores x into e.Certificate.
func certOfEdge(fn *ssa.Function, e, x ssa.Value) bool {
	if fa := loadedField(x); fa != nil && fieldName(fa) == "GraphEdge.Certificate" && sameVal(fa.X, e) {
		return true
	}
	for _, b := range fn.Blocks {
		for _, in := range b.Instrs {
			if st, ok := in.(*ssa.Store); ok {
				if fa, ok := st.Addr.(*ssa.FieldAddr); ok && fieldName(fa) == "GraphEdge.Certificate" && fa.X == e && st.Val == x {
					return true
				}
			}
		}
	}
	return false
}

// sigCheckOf matches the error result of CheckSignatureFromKey(node.SubjectAndKey.PublicKey,
// x.SignatureAlgorithm, x.RawTBSCertificate, x.Signature) and returns x.
func sigCheckOf(v ssa.Value, node ssa.Value) (cert ssa.Value, ok bool) {
	if !ResultOf(-1, fnCSFK)(v) {
		return nil, false
	}
	cl := callOf(v)
	a := cl.Call.Args
	pk := loadedField(a[0])
	if pk == nil || fieldName(pk) != "SubjectAndKey.PublicKey" {
		return nil, false
	}
	sk := loadedField(pk.X)
	if sk == nil || fieldName(sk) != "GraphNode.SubjectAndKey" || !sameVal(sk.X, node) {
		return nil, false
	}
	want := []string{"Certificate.SignatureAlgorithm", "Certificate.RawTBSCertificate", "Certificate.Signature"}
	for i, wn := range want {
		fa := loadedField(a[i+1])
		if fa == nil || fieldName(fa) != wn {
			return nil, false
		}
		if cert == nil {
			cert = fa.X
		} else if !sameVal(cert, fa.X) {
			return nil, false
		}
	}
	return cert, true
}

func runC10(c *Ctx) {
	w := c.W
	c10Extras(c)
	pkg := "z/verifier"
	add := w.Fn(fnGAddCert)
	if add == nil {
		c.Undecided("R-OWN", fnGAddCert, "anchor", "-", "not found")
		return
	}

	// ---- GraphEdge.issuer
	nIss := 0
	for _, wr := range c.writesIn(pkg, "GraphEdge.issuer") {
		nIss++
		c.Sites++
		name := FuncName(wr.Fn)
		pos := w.InstrPos(wr.In)
		if wr.Kind != "store" {
			c.Fail("R-OWN", name, "write to GraphEdge.issuer is not a plain store", pos, wr.Kind)
			continue
		}
		if isNilConst(wr.Val) {
			c.Fail("R-OWN", name, "issuer of an edge is cleared", pos, "")
			continue
		}
		e, n := wr.Base, wr.Val
		fn := wr.Fn
		guard := func(v ssa.Value) bool {
			x, ok := sigCheckOf(v, n)
			return ok && certOfEdge(fn, e, x)
		}
		c.Cut(CutSpec{Rule: "R-OWN", Fn: fn, Label: "edge.issuer = n behind CheckSignatureFromKey(n.key, edge cert) == nil [" + Expr(e) + "]", Target: isInstr(wr.In), Cut: IsNil(guard)})
		// name agreement
		// (a block moved into a single-use helper is read in the context of its only call site)
		var dn, de map[string]bool
		isNewInCtx := false
		w.inCallerContext(fn, func() {
			dn, de = Deps(n), Deps(e)
			for v := range backClosure(n, nil) {
				if al, ok := v.(*ssa.Alloc); ok && strings.Contains(typeStr(al.Type()), "GraphNode") {
					isNewInCtx = true
				}
			}
		})
		viaSubject := hasAll(dn, "field:Graph.nodesBySubject", "field:Certificate.RawIssuer") && hasNone(dn, "field:Certificate.RawSubject")
		viaMissing := hasAll(de, "field:Graph.missingIssuerNode", "field:Certificate.RawSubject") && hasNone(de, "field:Certificate.RawIssuer")
		c.Check(viaSubject || viaMissing, "R-PROV", name, "issuer node and edge agree on the name (nodesBySubject[RawIssuer] or missingIssuerNode[RawSubject]) ["+Expr(e)+"]", pos,
			"node: "+depList(dn)+" ; edge: "+depList(de))
		if viaMissing {
			// the node must be the one created for c in this call (has c's subject)
			isNew := isNewInCtx
			for v := range backClosure(n, nil) {
				if al, ok := v.(*ssa.Alloc); ok && strings.Contains(typeStr(al.Type()), "GraphNode") {
					isNew = true
				}
			}
			c.Check(isNew, "R-PROV", name, "fix-up issuer is the node created for c in this call", pos, Expr(n))
			// the fixed-up edge leaves the dangling set: it is recorded for removal on every path
			c.Cut(CutSpec{Rule: "R-OWN", Fn: fn, Label: "a fixed-up edge is queued for removal from the dangling set before the next iteration/exit", StartAfter: wr.In,
				Target: func(in ssa.Instruction, _ resolver) bool {
					if _, ok := in.(*ssa.Return); ok {
						return true
					}
					return in.Block() != wr.In.Block() && in.Block().Comment == "rangeindex.loop" && in == in.Block().Instrs[0] && in.Block().Dominates(wr.In.Block())
				},
				Barrier: func(in ssa.Instruction) bool {
					ap := isBuiltinCall(in, "append")
					if ap == nil {
						return false
					}
					vals, sp := appended(ap)
					return !sp && len(vals) == 1 && vals[0] == e
				}})
		}
	}
	c.Check(nIss >= 2, "R-OWN", pkg, "stores to GraphEdge.issuer enumerated", "-", fmt.Sprint(nIss))

	// removal loop: every queued edge is removed from the set it was drawn from
	nRem := 0
	for fn := range w.AllFuncs() {
		if !inPkg(fn, pkg) || fn.Blocks == nil {
			continue
		}
		for _, in := range callsIn(fn, fnESRemove) {
			nRem++
			c.Sites++
			cc := callCommon(in)
			d := Deps(cc.Args[0])
			c.Check(hasAll(d, "field:Graph.missingIssuerNode") && hasNone(d, "field:Graph.edges", "field:GraphNode.childrenBySubjectAndKey", "field:GraphNode.parentsBySubjectAndKey"),
				"R-OWN", FuncName(fn), "removeEdge is applied only to a dangling-edge set", w.InstrPos(in), depList(d))
			kd := Deps(cc.Args[1])
			c.Check(hasAll(kd, "field:Certificate.FingerprintSHA256", "field:GraphEdge.Certificate"), "R-PROV", FuncName(fn), "removeEdge key is the queued edge's certificate fingerprint", w.InstrPos(in), Expr(cc.Args[1]))
		}
	}
	c.Check(nRem >= 1, "R-OWN", pkg, "removeEdge call sites enumerated", "-", fmt.Sprint(nRem))

	// ---- Graph.missingIssuerNode
	for _, wr := range c.writesIn(pkg, "Graph.missingIssuerNode") {
		c.Sites++
		name := FuncName(wr.Fn)
		pos := w.InstrPos(wr.In)
		switch wr.Kind {
		case "store":
			_, fresh := wr.Val.(*ssa.MakeMap)
			c.Check(fresh, "R-OWN", name, "store to Graph.missingIssuerNode is a fresh map", pos, Expr(wr.Val))
		case "mapupdate":
			c.Check(Expr(wr.Key) == "string(c.RawIssuer)" && ResultOf(-1, fnNewES)(wr.Val), "R-OWN", name, "missingIssuerNode[string(c.RawIssuer)] = fresh edge set", pos, Expr(wr.Key)+" = "+Expr(wr.Val))
			c.Cut(CutSpec{Rule: "R-OWN", Fn: wr.Fn, Label: "dangling set created only when absent", Target: isInstr(wr.In),
				Cut: IsNil(func(v ssa.Value) bool {
					lk, ok := v.(*ssa.Lookup)
					return ok && sameVal(lk.Index, wr.Key) && hasAll(Deps(lk.X), "field:Graph.missingIssuerNode")
				})})
		case "delete":
			// only when the set stored under that key is empty
			c.Cut(CutSpec{Rule: "R-OWN", Fn: wr.Fn, Label: "dangling-set entry deleted only when the set is empty", Target: isInstr(wr.In),
				Cut: Cmp(func(v ssa.Value) bool {
					if !ResultOf(-1, fnESSize)(v) {
						return false
					}
					set := callOf(v).Call.Args[0]
					for s := range backClosure(set, nil) {
						if lk, ok := s.(*ssa.Lookup); ok && sameVal(lk.Index, wr.Key) && hasAll(Deps(lk.X), "field:Graph.missingIssuerNode") {
							return true
						}
					}
					return false
				}, "eq le", ConstInt(0))})
		default:
			c.Fail("R-OWN", name, wr.Kind+" on Graph.missingIssuerNode", pos, "")
		}
	}
	// nil-issuer exits are registered
	regBarrier := func(in ssa.Instruction) bool {
		cc := callCommon(in)
		if cc == nil || !nameIn(calleeName(cc), []string{fnESAdd}) {
			return false
		}
		d := Deps(cc.Args[0])
		return (d["field:Graph.missingIssuerNode"] || d["call:verifier.NewGraphEdgeSet"]) && isNewEdge(cc.Args[1])
	}
	c.Cut(CutSpec{Rule: "R-OWN", Fn: add, Label: "an exit with edge.issuer == nil passed the registration in missingIssuerNode", Start: IsNil(LoadOfField("GraphEdge.issuer")),
		Target: func(in ssa.Instruction, _ resolver) bool { _, ok := in.(*ssa.Return); return ok }, Barrier: regBarrier})
	// every path on which no issuer was stored tests edge.issuer == nil
	c.Cut(CutSpec{Rule: "R-OWN", Fn: add, Label: "every exit after the edge is created passes the edge.issuer nil-test", StartAfter: firstCall(add, fnESAdd),
		Target: func(in ssa.Instruction, _ resolver) bool { _, ok := in.(*ssa.Return); return ok },
		Cut:    AnyF(IsNil(LoadOfField("GraphEdge.issuer")), NonNil(LoadOfField("GraphEdge.issuer")))})

	// ---- GraphEdge.root
	nRoot := 0
	for _, wr := range c.writesIn(pkg, "GraphEdge.root") {
		nRoot++
		c.Sites++
		b, isC := boolConst(wr.Val)
		c.Check(wr.Kind == "store" && isC && b, "R-OWN", FuncName(wr.Fn), "GraphEdge.root is only ever set to the constant true (roots are never demoted)", w.InstrPos(wr.In), Expr(wr.Val))
		// the edge is the one of the certificate being added as root
		e := Expr(wr.Base)
		c.Check(strings.Contains(e, "FindEdge(") && strings.Contains(e, "c.FingerprintSHA256"), "R-PROV", FuncName(wr.Fn), "root flag goes to the edge found by the certificate's fingerprint", w.InstrPos(wr.In), e)
	}
	c.Check(nRoot >= 1, "R-OWN", pkg, "stores to GraphEdge.root enumerated", "-", fmt.Sprint(nRoot))
	if ar := w.Fn(fnGAddRoot); ar != nil {
		n := len(callsIn(ar, fnGAddCert))
		c.Check(n == 1, "R-PRE", fnGAddRoot, "AddRoot inserts the certificate (AddCert) before marking it", w.Pos(ar.Pos()), fmt.Sprint(n))
	} else {
		c.Undecided("R-OWN", fnGAddRoot, "anchor", "-", "not found")
	}

	// ---- node creation
	for _, wr := range c.writesIn(pkg, "Graph.nodes", "Graph.nodesBySubjectAndKey", "Graph.nodesBySubject") {
		c.Sites++
		name := FuncName(wr.Fn)
		pos := w.InstrPos(wr.In)
		if wr.Kind == "store" {
			if _, fresh := wr.Val.(*ssa.MakeMap); fresh {
				c.OK("R-OWN", name, "store to "+wr.Field+" is a fresh map", pos, "")
				continue
			}
		}
		if wr.Kind == "delete" || wr.Kind == "elem" {
			c.Fail("R-OWN", name, wr.Kind+" on "+wr.Field+" (nodes are never removed)", pos, "")
			continue
		}
		miss := IsNil(func(v ssa.Value) bool {
			lk, ok := v.(*ssa.Lookup)
			return ok && hasAll(Deps(lk.X), "field:Graph.nodesBySubjectAndKey") && Expr(lk.Index) == skfpExpr
		})
		c.Cut(CutSpec{Rule: "R-OWN", Fn: wr.Fn, Label: "write to " + wr.Field + " behind the miss edge of nodesBySubjectAndKey[fingerprint of c's subject+key]", Target: isInstr(wr.In), Cut: miss})
		switch wr.Field {
		case "Graph.nodesBySubjectAndKey":
			c.Check(Expr(wr.Key) == skfpExpr && isNewNode(wr.Val), "R-PROV", name, "nodesBySubjectAndKey[skfp(c)] = new node", pos, Expr(wr.Key))
		case "Graph.nodesBySubject":
			c.Check(Expr(wr.Key) == "string(c.RawSubject)", "R-PROV", name, "nodesBySubject keyed by string(c.RawSubject)", pos, Expr(wr.Key))
		}
	}
	for _, wr := range c.writesIn(pkg, "GraphNode.SubjectAndKey") {
		c.Sites++
		c.Check(Expr(wr.Val) == "(*x509.Certificate).SubjectAndKey(c)" && isNewNode(wr.Base), "R-PROV", FuncName(wr.Fn), "new node carries c's subject and key", w.InstrPos(wr.In), Expr(wr.Val))
	}
	for _, wr := range c.writesIn(pkg, "GraphEdge.child") {
		c.Sites++
		d := Deps(wr.Val)
		c.Check(isNewEdge(wr.Base) && hasAll(d, "field:Graph.nodesBySubjectAndKey"), "R-PROV", FuncName(wr.Fn), "edge.child is the node looked up/created for c", w.InstrPos(wr.In), Expr(wr.Val))
	}
	for _, wr := range c.writesIn(pkg, "GraphEdge.Certificate") {
		c.Sites++
		c.Check(isNewEdge(wr.Base) && Param("c")(wr.Val), "R-PROV", FuncName(wr.Fn), "new edge carries c", w.InstrPos(wr.In), Expr(wr.Val))
	}

	// ---- edge creation: g.edges.addOrPanic(new edge) behind !ContainsCertificate(c)
	for _, in := range callsIn(add, fnESAdd) {
		cc := callCommon(in)
		if Expr(cc.Args[0]) != "g.edges" {
			continue
		}
		c.Sites++
		c.Cut(CutSpec{Rule: "R-OWN", Fn: add, Label: "edge inserted into g.edges only when its certificate is absent", Target: isInstr(in),
			Cut: IsFalse(func(v ssa.Value) bool {
				if !ResultOf(-1, fnESContains)(v) {
					return false
				}
				cl := callOf(v)
				return Expr(cl.Call.Args[0]) == "g.edges" && Param("c")(cl.Call.Args[1])
			})})
		c.Check(isNewEdge(cc.Args[1]), "R-PROV", fnGAddCert, "the inserted edge is the fresh one", w.InstrPos(in), Expr(cc.Args[1]))
	}

	// ---- GraphEdgeSet.edges writers
	for _, wr := range c.writesIn(pkg, "GraphEdgeSet.edges") {
		c.Sites++
		name := FuncName(wr.Fn)
		pos := w.InstrPos(wr.In)
		switch wr.Kind {
		case "store":
			_, fresh := wr.Val.(*ssa.MakeMap)
			c.Check(fresh, "R-OWN", name, "store to GraphEdgeSet.edges is a fresh map", pos, Expr(wr.Val))
		case "mapupdate":
			c.Check(Expr(wr.Key) == "string(edge.Certificate.FingerprintSHA256)" && Param("edge")(wr.Val), "R-OWN", name, "edges[string(edge.Certificate.FingerprintSHA256)] = edge", pos, Expr(wr.Key))
			c.Cut(CutSpec{Rule: "R-OWN", Fn: wr.Fn, Label: "edge stored only on the miss edge of the same key", Target: isInstr(wr.In),
				Cut: IsFalse(func(v ssa.Value) bool {
					ex, ok := v.(*ssa.Extract)
					if !ok || ex.Index != 1 {
						return false
					}
					lk, ok := ex.Tuple.(*ssa.Lookup)
					return ok && sameVal(lk.Index, wr.Key)
				})})
		case "delete":
			c.Check(wr.Fn == w.Fn(fnESRemove), "R-OWN", name, "delete on GraphEdgeSet.edges only in removeEdge", pos, "")
		default:
			c.Fail("R-OWN", name, wr.Kind+" on GraphEdgeSet.edges", pos, "")
		}
	}
	// child/parent sets: keyed by the fingerprints of the two nodes the edge joins
	for _, wr := range c.writesIn(pkg, "GraphNode.childrenBySubjectAndKey", "GraphNode.parentsBySubjectAndKey") {
		c.Sites++
		name := FuncName(wr.Fn)
		pos := w.InstrPos(wr.In)
		if wr.Kind == "store" {
			_, fresh := wr.Val.(*ssa.MakeMap)
			c.Check(fresh && isNewNode(wr.Base), "R-OWN", name, "store to "+wr.Field+" is a fresh map on a new node", pos, Expr(wr.Val))
			continue
		}
		if wr.Kind != "mapupdate" {
			c.Fail("R-OWN", name, wr.Kind+" on "+wr.Field, pos, "")
			continue
		}
		c.Check(ResultOf(-1, fnNewES)(wr.Val), "R-OWN", name, wr.Field+"[k] = fresh edge set", pos, Expr(wr.Val))
		c.Cut(CutSpec{Rule: "R-OWN", Fn: wr.Fn, Label: wr.Field + " entry created only when absent [" + Expr(wr.Key) + "]", Target: isInstr(wr.In),
			Cut: IsNil(func(v ssa.Value) bool {
				lk, ok := v.(*ssa.Lookup)
				return ok && sameVal(lk.Index, wr.Key) && Expr(lk.X) == Expr(mapOf(wr.In))
			})})
	}
}

const skfpExpr = "verifier.subjectAndKeyFingerprint((*x509.Certificate).SubjectAndKey(c).Fingerprint)"

func mapOf(in ssa.Instruction) ssa.Value {
	if mu, ok := in.(*ssa.MapUpdate); ok {
		return mu.Map
	}
	return nil
}

func firstCall(fn *ssa.Function, name string) ssa.Instruction {
	cs := callsIn(fn, name)
	if len(cs) == 0 {
		return nil
	}
	return cs[0]
}

func isNewEdge(v ssa.Value) bool {
	al, ok := v.(*ssa.Alloc)
	return ok && strings.HasSuffix(typeStr(al.Type()), "GraphEdge")
}

func isNewNode(v ssa.Value) bool {
	al, ok := v.(*ssa.Alloc)
	return ok && strings.HasSuffix(typeStr(al.Type()), "GraphNode")
}
