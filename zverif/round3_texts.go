package main

// Texts and floors for the obligations added in the third round (extras_round3.go, deadstore.go, sign.go, fm.go and
// the interprocedural part of loops.go). Applied after round2Texts.

var round3Texts = map[string]round2Text{
	"C01": {Explain: "Round 3: R-LOOP is interprocedural for cursors — a loop whose cursor is re-assigned from the result of an in-module call is reported if the callee (followed through pass-through returns) can hand its argument back unchanged under the error outcome the back edge allows (for len(rest) > 0 { rest, err = f(rest) ... continue }). R-BOUNDS has a further discharge method, linear entailment from the dominating facts (Fourier-Motzkin over the canonical terms with lengths, unsigned values and hash sizes non-negative, known lengths and interval bounds of counters as hypotheses); the covered list grew from 68 to 81 functions.",
		NotCov: "emsaPSSVerify and the other functions still outside the covered list (relational preconditions from call sites, case splits on merged values) — seed C01f is a recorded miss.", Floor: 570},
	"C02": {Explain: "Round 3: the covered list grew from 35 to 42 functions through linear entailment (among them rsa.pkcs1v15ConstructEM, reached from CheckSignature with an oversized 'digest').", Floor: 310},
	"C03": {Explain: "Round 3: ParseRevocationList returns a list only past bytes.Equal of the outer and the signed AlgorithmIdentifier; VerifyPSS re-slices the RSAVP1 output only past a test that the dropped octet is zero; R-UNITS — asn1.NullBytes (a whole TLV) is compared only with FullBytes, never with content octets.", Floor: 70},
	"C04": {Explain: "Round 3: subjectBytes returns a non-empty RawSubject as it is (issuer octets are the parent's subject octets); R-SIGN — every argument of the decimal digit writers of the time encoder is provably non-negative (interval analysis with branch refinement).", Floor: 46},
	"C05": {Explain: "Round 3: on the requested-algorithm branch of signingParamsForPublicKey the returned digest is the hash of the table row whose OID was written; R-UNITS for asn1.NullBytes.", Floor: 31},
	"C06": {Explain: "Round 3: SelfSigned is CheckSignature's verdict, so C03's obligations on CheckSignatureFromKey (algorithm/primitive selection, PSS exactly for the PSS algorithms) are adopted.", Floor: 60},
	"C07": {Explain: "Round 3: R-DEAD over package x509 — no update of a non-escaping local struct is lost, no guard tests a field that was just set to a constant (ValidateWithStupidDetail blanks opts.DNSName and must test the saved name), no comparison has the same expression on both sides, no list field is rebuilt from a sibling field.", Floor: 50},
	"C08": {Explain: "Round 3: C03's obligations on CheckSignatureFrom / CheckSignatureFromKey are adopted (findVerifiedParents returns the members for which it succeeds: nil only through a real verification).", Floor: 57},
	"C10": {Explain: "Round 3: both issuer searches of AddCert (the scan over known nodes and the fix-up of dangling edges) pass over a candidate only past a failed CheckSignatureFromKey, so they apply the same test and the graph does not depend on insertion order.", Floor: 43},
	"C11": {Explain: "Round 3: AddCert returns before the dangling-edge fix-up only if the certificate is already in the graph or its node already existed; SubjectAndKeyInChain and CertificateSubjectAndKeyInChain report a revisit only if both RawSubject and RawSubjectPublicKeyInfo are equal.", Floor: 37},
	"C12": {Explain: "Round 3: R-DEAD over package verifier (VerificationOptions.clean must reach the caller's options: a value receiver loses the default VerifyTime); C15's scan rules for OneCRL.Check and CRLSet.Check are adopted (InRevocationSet is their verdict).", Floor: 52},
	"C13": {Explain: "Round 3: on the requested-algorithm branch of ocsp.signingParamsForPublicKey the returned digest is the hash of the table row whose OID was written.", Floor: 41},
	"C14": {Explain: "Round 3: Name.FillFromRDNSequence passes over an attribute before the dispatch on its type only if its value is not a string (RevocationData.Issuer is a faithful copy).", Floor: 21},
	"C16": {Explain: "Round 3: every Put*/copy into the output of serializeV1SCTHere lies on every successful path (the caller's buffer may hold anything).", Floor: 30},
	"C17": {Explain: "Round 3: Scan sends on a channel it made only after a goroutine that was handed the channel has been started, and never before (a bounded channel filled before its consumers exist blocks for good).", Floor: 25},
	"C18": {Explain: "Round 3: parseField reports 'nothing consumed, no error' only past setDefaultValue(v, params) == true at all three absent-element sites; R-SIGN for the time encoder's digit writers.", Floor: 46},
	"C19": {Explain: "Round 3: the long-form length accumulator of parseTagAndLength is shifted only past a test that it is below 2^23; R-INIT of C21 is adopted (a decoder that accumulates into *out is only handed zeroed locals).", Floor: 35},
	"C21": {Explain: "Round 3: no big.Int is copied by struct assignment in package cryptobyte (*dst = *src shares the word slice).", NotCov: "Length formulas of the base-128 writer (seed C21e is a recorded miss).", Floor: 71},
	"C22": {Explain: "Round 3: the FillFromRDNSequence skip rule of C14.", NotCov: "base128IntLength arithmetic and the element offsets of a hand-written fast path in setEncoder.Encode (seeds C22e, C22f are recorded misses).", Floor: 62},
	"C23": {Explain: "Round 3: SignPSS uses one crypto.Hash value (the argument merged with opts.Hash) for salt length, digest check and encoding; DecryptPKCS1v15SessionKey copies into the key only under ConstantTimeEq(len(em)-index, len(key)).", Floor: 55},
	"C24": {Explain: "Round 3: every PSK binder is computed over a hash of its own (hash.New or cloneHash), never over the running transcript.", Floor: 78},
	"C25": {Explain: "Round 3: atLeastReader.Read returns io.ErrUnexpectedEOF only after N was reduced by the bytes just read.", Floor: 36},
	"C26": {Explain: "Round 3: R-TABLE — every row of implementedCipherSuites and cipherSuites carries the parameters its IANA name specifies (suiteSHA384 iff _SHA384, key length, AEAD constructor).", Floor: 140},
	"C27": {Explain: "Round 3: R-OWN — Config.ServerName is written only where it was empty (ClientHello templates and fingerprints never replace the name the certificate is verified against); a verifying client offers a cached session only past the expiry test of the stored leaf; R-DEAD over package tls.", Floor: 33},
	"C28": {Explain: "Round 3: verifyServerCertificate passes over no element of the certificate list (parsed certificates stay in the positions of the raw ones); nistParameters coordinates are produced by crypto/elliptic (Unmarshal, GenerateKey, scalar multiplication).", Floor: 94},
	"C29": {Explain: "Round 3: the SNI extension that SNIExtension.WriteToConfig writes back into a shared fingerprint keeps Autopopulate set.", Floor: 20},
	"C30": {Explain: "Round 3: nothing is added to the ClientHello extensions block after pre_shared_key; in the two-pass encoder certificateRequestMsg.marshal every optional part is guarded by the same condition when sizing and when writing.", Floor: 60},
	"C31": {Explain: "Round 3: the version sealed into a TLS <= 1.2 ticket is Conn.vers.", Floor: 34},
	"C32": {Explain: "Round 3: R-DEAD over package tls (a self-comparison in illegalClientHelloChange lets the element-wise loop index a shorter list).", Floor: 60},
	"C33": {Explain: "Round 3: R-DEAD (cross-field appends, self-comparisons, lost writes) over x509, pkix, json and the ct packages; cryptoParameter.UnmarshalJSON never installs nil.", Floor: 99},
	"C34": {Explain: "Round 3: R-OWN — Conn.rawInput is only inspected, filled by readFromUntil and emptied record-wise by readRecordOrCCS (a read interrupted by a deadline resumes from it).", Floor: 132},
	"C35": {Explain: "Round 3: NewLRUClientSessionCache replaces the requested capacity only if it is below 1.", Floor: 30},
}

func applyRound3Texts() {
	for id, t := range round3Texts {
		p := props[id]
		if p == nil {
			continue
		}
		if t.Explain != "" {
			p.Explain += " " + t.Explain
		}
		if t.NotCov != "" {
			p.NotCov += " " + t.NotCov
		}
		if t.Floor > p.Floor {
			p.Floor = t.Floor
		}
	}
}
