package main

import (
	"go/constant"
	"go/token"
	"go/types"
	"strings"

	"golang.org/x/tools/go/ssa"
)

// Fact is a relation known to hold on one CFG edge.
//
//	Op in {"nil","nonnil","true","false","eq","ne","lt","le","gt","ge"}
type Fact struct {
	Op string
	X  ssa.Value
	Y  ssa.Value
}

type resolver func(ssa.Value) ssa.Value

func idRes(v ssa.Value) ssa.Value { return v }

func isNilConst(v ssa.Value) bool {
	c, ok := v.(*ssa.Const)
	return ok && c.IsNil()
}

func boolConst(v ssa.Value) (bool, bool) {
	c, ok := v.(*ssa.Const)
	if !ok || c.Value == nil || c.Value.Kind() != constant.Bool {
		return false, false
	}
	return constant.BoolVal(c.Value), true
}

func intConst(v ssa.Value) (int64, bool) {
	c, ok := v.(*ssa.Const)
	if !ok || c.Value == nil || c.Value.Kind() != constant.Int {
		return 0, false
	}
	n, ok := constant.Int64Val(c.Value)
	return n, ok
}

var negOp = map[string]string{"eq": "ne", "ne": "eq", "lt": "ge", "ge": "lt", "gt": "le", "le": "gt",
	"nil": "nonnil", "nonnil": "nil", "true": "false", "false": "true"}
var swapOp = map[string]string{"eq": "eq", "ne": "ne", "lt": "gt", "gt": "lt", "le": "ge", "ge": "le"}

func tokOp(t token.Token) string {
	switch t {
	case token.EQL:
		return "eq"
	case token.NEQ:
		return "ne"
	case token.LSS:
		return "lt"
	case token.LEQ:
		return "le"
	case token.GTR:
		return "gt"
	case token.GEQ:
		return "ge"
	}
	return ""
}

// condFacts returns the facts that hold when cond evaluates to branch.
func condFacts(cond ssa.Value, branch bool, res resolver) []Fact {
	cond = res(cond)
	switch c := cond.(type) {
	case *ssa.UnOp:
		if c.Op == token.NOT {
			return condFacts(c.X, !branch, res)
		}
	case *ssa.BinOp:
		op := tokOp(c.Op)
		if op == "" {
			break
		}
		if !branch {
			op = negOp[op]
		}
		x, y := res(c.X), res(c.Y)
		if op == "eq" || op == "ne" {
			nilop := "nil"
			if op == "ne" {
				nilop = "nonnil"
			}
			if isNilConst(y) {
				return []Fact{{Op: nilop, X: x}}
			}
			if isNilConst(x) {
				return []Fact{{Op: nilop, X: y}}
			}
			// comparison of a boolean with a boolean constant
			if b, ok := boolConst(y); ok {
				return condFacts(x, b == (op == "eq"), res)
			}
			if b, ok := boolConst(x); ok {
				return condFacts(y, b == (op == "eq"), res)
			}
		}
		return []Fact{{Op: op, X: x, Y: y}}
	}
	if branch {
		return []Fact{{Op: "true", X: cond}}
	}
	return []Fact{{Op: "false", X: cond}}
}

// definitelyNonNil: value forms that can never be a nil interface/pointer.
func definitelyNonNil(v ssa.Value) bool {
	switch x := v.(type) {
	case *ssa.MakeInterface, *ssa.Alloc, *ssa.MakeSlice, *ssa.MakeMap, *ssa.MakeChan, *ssa.MakeClosure, *ssa.Function, *ssa.FieldAddr, *ssa.IndexAddr:
		return true
	case *ssa.ChangeInterface:
		return definitelyNonNil(x.X)
	case *ssa.Call:
		switch calleeName(&x.Call) {
		case "errors.New", "fmt.Errorf":
			return true
		}
		if extraNonNil != nil && extraNonNil(x) {
			return true
		}
		if f := x.Call.StaticCallee(); f != nil && InModule(f) && alwaysNonNilError(f) {
			return true
		}
	case *ssa.Const:
		return !x.IsNil() && x.Value != nil
	case *ssa.UnOp:
		if g, ok := x.X.(*ssa.Global); ok && x.Op == token.MUL {
			return globalNonNil(g)
		}
	}
	return false
}

var globalStores map[*ssa.Global][]*ssa.Store

// globalNonNil: a package-level variable that is assigned only in its
// package initialiser, with a value that cannot be nil (errors.New ...).
func globalNonNil(g *ssa.Global) bool {
	if g.Pkg == nil {
		return false
	}
	if globalStores == nil {
		globalStores = map[*ssa.Global][]*ssa.Store{}
	}
	sts, ok := globalStores[g]
	if !ok {
		for _, m := range g.Pkg.Members {
			fn, ok := m.(*ssa.Function)
			if !ok {
				continue
			}
			var scan func(f *ssa.Function)
			scan = func(f *ssa.Function) {
				for _, b := range f.Blocks {
					for _, in := range b.Instrs {
						if st, ok := in.(*ssa.Store); ok && st.Addr == g {
							sts = append(sts, st)
						}
					}
				}
				for _, a := range f.AnonFuncs {
					scan(a)
				}
			}
			scan(fn)
		}
		// methods
		for _, m := range g.Pkg.Members {
			if t, ok := m.(*ssa.Type); ok {
				for _, ms := range []*types.MethodSet{g.Pkg.Prog.MethodSets.MethodSet(t.Type()), g.Pkg.Prog.MethodSets.MethodSet(types.NewPointer(t.Type()))} {
					for i := 0; i < ms.Len(); i++ {
						if f := g.Pkg.Prog.MethodValue(ms.At(i)); f != nil && f.Pkg == g.Pkg {
							for _, b := range f.Blocks {
								for _, in := range b.Instrs {
									if st, ok := in.(*ssa.Store); ok && st.Addr == g {
										sts = append(sts, st)
									}
								}
							}
						}
					}
				}
			}
		}
		globalStores[g] = sts
	}
	if len(sts) == 0 {
		return false
	}
	for _, st := range sts {
		if st.Parent().Name() != "init" || !definitelyNonNil(st.Val) {
			return false
		}
	}
	return true
}

// evalCond evaluates a branch condition under a phi environment when all
// its leaves are constants (or definitely non-nil values compared to nil).
func evalCond(cond ssa.Value, res resolver) (val bool, known bool) {
	cond = res(cond)
	if b, ok := boolConst(cond); ok {
		return b, true
	}
	switch c := cond.(type) {
	case *ssa.UnOp:
		if c.Op == token.NOT {
			v, k := evalCond(c.X, res)
			return !v, k
		}
	case *ssa.BinOp:
		op := tokOp(c.Op)
		if op == "" {
			return false, false
		}
		x, y := res(c.X), res(c.Y)
		if op == "eq" || op == "ne" {
			if isNilConst(x) && isNilConst(y) {
				return op == "eq", true
			}
			if (isNilConst(y) && definitelyNonNil(x)) || (isNilConst(x) && definitelyNonNil(y)) {
				return op == "ne", true
			}
			if bx, ok := evalCondOpt(x, res); ok {
				if by, ok2 := evalCondOpt(y, res); ok2 {
					return (bx == by) == (op == "eq"), true
				}
			}
		}
		cx, okx := x.(*ssa.Const)
		cy, oky := y.(*ssa.Const)
		if okx && oky && cx.Value != nil && cy.Value != nil && cx.Value.Kind() == cy.Value.Kind() && cx.Value.Kind() != constant.Bool {
			return constant.Compare(cx.Value, c.Op, cy.Value), true
		}
	}
	return false, false
}

func evalCondOpt(v ssa.Value, res resolver) (bool, bool) {
	if _, ok := types.Unalias(v.Type()).Underlying().(*types.Basic); !ok {
		return false, false
	}
	if b, ok := v.Type().Underlying().(*types.Basic); !ok || b.Info()&types.IsBoolean == 0 {
		return false, false
	}
	return evalCond(v, res)
}

// ---------------------------------------------------------------------
// callee naming

// calleeName gives the canonical name of what a call site invokes:
// static callee full name, "(iface).Method" for interface calls,
// "builtin.len", or "dyn:<field>" for calls through a function-valued field.
func calleeName(c *ssa.CallCommon) string {
	if c.IsInvoke() {
		return c.Method.FullName()
	}
	if f := c.StaticCallee(); f != nil {
		// bound-method closures and thunks keep the method object
		if o, ok := f.Object().(*types.Func); ok && o != nil {
			return o.FullName()
		}
		return FuncName(f)
	}
	switch v := c.Value.(type) {
	case *ssa.Builtin:
		return "builtin." + v.Name()
	case *ssa.UnOp:
		if fa, ok := v.X.(*ssa.FieldAddr); ok {
			return "dyn:" + fieldName(fa)
		}
	case *ssa.Field:
		return "dyn:" + structField(v.X.Type(), v.Field)
	case *ssa.MakeClosure:
		if f, ok := v.Fn.(*ssa.Function); ok {
			return FuncName(f)
		}
	}
	return "dyn:?"
}

func structField(t types.Type, i int) string {
	t = types.Unalias(t)
	if p, ok := t.Underlying().(*types.Pointer); ok {
		t = p.Elem()
	}
	st, ok := types.Unalias(t).Underlying().(*types.Struct)
	if !ok || i >= st.NumFields() {
		return "?"
	}
	name := st.Field(i).Name()
	if n, ok := types.Unalias(t).(*types.Named); ok {
		return n.Obj().Name() + "." + name
	}
	return name
}

// fieldName renders a FieldAddr as "T.f".
func fieldName(fa *ssa.FieldAddr) string { return structField(fa.X.Type(), fa.Field) }

func callCommon(in ssa.Instruction) *ssa.CallCommon {
	switch x := in.(type) {
	case *ssa.Call:
		return &x.Call
	case *ssa.Go:
		return &x.Call
	case *ssa.Defer:
		return &x.Call
	}
	return nil
}

func nameIn(name string, names []string) bool {
	for _, n := range names {
		if expand(n) == name {
			return true
		}
	}
	return false
}

// ---------------------------------------------------------------------
// value predicates

type VP func(ssa.Value) bool

func stripConv(v ssa.Value) ssa.Value {
	for {
		v = deparam(v)
		switch x := v.(type) {
		case *ssa.ChangeType:
			v = x.X
		case *ssa.ChangeInterface:
			v = x.X
		case *ssa.Convert:
			v = x.X
		default:
			return v
		}
	}
}

// ResultOf matches result idx (or the only result when idx < 0) of a call
// to any of the named callees.
func ResultOf(idx int, names ...string) VP {
	return func(v ssa.Value) bool {
		v = stripConv(v)
		switch x := v.(type) {
		case *ssa.Call:
			return (idx <= 0 || idx == -1) && nameIn(calleeName(&x.Call), names) && x.Type() != nil && !isTuple(x.Type())
		case *ssa.Extract:
			if c, ok := x.Tuple.(*ssa.Call); ok {
				return (idx < 0 || x.Index == idx) && nameIn(calleeName(&c.Call), names)
			}
		}
		return false
	}
}

// ResultOfWith is ResultOf restricted to calls whose receiver-first
// argument argIdx is (the same SSA value or the same pure field path as) arg.
func ResultOfWith(idx int, argIdx int, arg ssa.Value, names ...string) VP {
	base := ResultOf(idx, names...)
	return func(v ssa.Value) bool {
		if !base(v) {
			return false
		}
		c := callOf(v)
		if c == nil {
			return false
		}
		as := recvAndArgs(&c.Call)
		return argIdx < len(as) && sameVal(as[argIdx], arg)
	}
}

func isTuple(t types.Type) bool { _, ok := t.(*types.Tuple); return ok }

// callOf returns the call instruction producing v (directly or via Extract).
func callOf(v ssa.Value) *ssa.Call {
	v = stripConv(v)
	switch x := v.(type) {
	case *ssa.Call:
		return x
	case *ssa.Extract:
		if c, ok := x.Tuple.(*ssa.Call); ok {
			return c
		}
	}
	return nil
}

// LoadOfField matches a load of a struct field named "T.f" (through
// FieldAddr+load or Field).
func LoadOfField(names ...string) VP {
	return func(v ssa.Value) bool {
		v = stripConv(v)
		switch x := v.(type) {
		case *ssa.UnOp:
			if x.Op == token.MUL {
				if fa, ok := x.X.(*ssa.FieldAddr); ok {
					return nameIn(fieldName(fa), names)
				}
			}
		case *ssa.Field:
			return nameIn(structField(x.X.Type(), x.Field), names)
		}
		return false
	}
}

// LenOf matches len(x) where x satisfies p.
func LenOf(p VP) VP {
	return func(v ssa.Value) bool {
		c, ok := v.(*ssa.Call)
		if !ok {
			return false
		}
		if b, ok := c.Call.Value.(*ssa.Builtin); !ok || b.Name() != "len" {
			return false
		}
		return p(c.Call.Args[0])
	}
}

func Param(name string) VP {
	return func(v ssa.Value) bool {
		p, ok := v.(*ssa.Parameter)
		if !ok {
			return false
		}
		// inside a helper whose outcome is being expanded, a parameter stands for the caller's argument;
		// a renamed parameter keeps the name it had on the pinned tree
		return paramName(p) == name
	}
}

func AnyV(ps ...VP) VP {
	return func(v ssa.Value) bool {
		for _, p := range ps {
			if p(v) {
				return true
			}
		}
		return false
	}
}

// fact predicates
type FP func(Fact) bool

func IsNil(p VP) FP    { return func(f Fact) bool { return f.Op == "nil" && p(f.X) } }
func NonNil(p VP) FP   { return func(f Fact) bool { return f.Op == "nonnil" && p(f.X) } }
func IsTrue(p VP) FP   { return func(f Fact) bool { return f.Op == "true" && p(f.X) } }
func IsFalse(p VP) FP  { return func(f Fact) bool { return f.Op == "false" && p(f.X) } }
func AnyF(ps ...FP) FP {
	return func(f Fact) bool {
		for _, p := range ps {
			if p(f) {
				return true
			}
		}
		return false
	}
}

// Cmp matches a comparison fact "X op const" (either operand order),
// normalised so that X is the matched value: ops is a set like "eq","ne",
// "lt","le","gt","ge"; cval filters the constant (nil = any value, incl.
// non-constant).
func Cmp(p VP, ops string, cval func(ssa.Value) bool) FP {
	return func(f Fact) bool {
		if f.Y == nil {
			return false
		}
		if p(f.X) && strings.Contains(ops, f.Op) && (cval == nil || cval(f.Y)) {
			return true
		}
		if p(f.Y) && strings.Contains(ops, swapOp[f.Op]) && (cval == nil || cval(f.X)) {
			return true
		}
		return false
	}
}

func ConstInt(n int64) func(ssa.Value) bool {
	return func(v ssa.Value) bool { c, ok := intConst(v); return ok && c == n }
}

func ConstStr(s string) func(ssa.Value) bool {
	return func(v ssa.Value) bool {
		c, ok := v.(*ssa.Const)
		return ok && c.Value != nil && c.Value.Kind() == constant.String && constant.StringVal(c.Value) == s
	}
}

// domFacts collects the facts of all edges that dominate block b (edges
// into single-predecessor blocks on b's dominator chain).
func domFacts(b *ssa.BasicBlock) []Fact {
	var out []Fact
	for d := b; d != nil; d = d.Idom() {
		if len(d.Preds) != 1 {
			continue
		}
		p := d.Preds[0]
		ifi, ok := p.Instrs[len(p.Instrs)-1].(*ssa.If)
		if !ok {
			continue
		}
		if p.Succs[0] == d && p.Succs[1] != d {
			out = append(out, condFacts(ifi.Cond, true, idRes)...)
		} else if p.Succs[1] == d && p.Succs[0] != d {
			out = append(out, condFacts(ifi.Cond, false, idRes)...)
		}
	}
	return out
}

func anyFact(fs []Fact, p FP) bool {
	for _, f := range fs {
		if p(f) {
			return true
		}
	}
	return false
}

// instrDominates: a executes before b on every path reaching b.
func instrDominates(a, b ssa.Instruction) bool {
	ba, bb := a.Block(), b.Block()
	if ba == bb {
		for _, in := range ba.Instrs {
			if in == a {
				return true
			}
			if in == b {
				return false
			}
		}
		return false
	}
	return ba.Dominates(bb)
}
