package main

import (
	"fmt"
	"go/types"
	"sort"
	"strings"

	"golang.org/x/tools/go/ssa"
)

func init() {
	register(&propDef{
		ID: "C28",
		Explain: "Handshake log of package tls. R-OWN: every writer of a ServerHandshake field stores nil or the MakeLog() of the message type that field names (table), and the logged message is the one received (a readHandshake result) or the one sent (the value whose marshal() goes to WriteRecord in the same function), or the handshake state; " +
			"R-STATE: between sending a message and taking its log snapshot (either order) no field of that message is written, so the log describes the bytes that went out. R-PROV: in every MakeLog/log helper each copy() fills a buffer made with len(source) (complete byte strings), each element-wise loop covers the whole source, " +
			"and each log field is computed from the message field the oracle table (c28_oracle.go, read against the struct definitions) names. Foreign-enum rule: the SignatureAndHashAlgorithm recorded for a ServerKeyExchange (signedKeyAgreement.sh) is written only from octets of the received message, never from crypto.Hash values, internal signature-type constants or the suite's expected type.",
		NotCov: "equality with an independent parse of a captured transcript; TLS 1.3 messages that have no MakeLog; correctness of the parsed forms (certificates, SCTs) attached to the raw bytes.",
		Floor:  60,
		Run:    runC28,
	})
}

func runC28(c *Ctx) {
	w := c.W
	pkg := "z/tls"
	c28Extras(c)
	c28Extras3(c)
	if w.Pkg(pkg) == nil {
		c.Undecided("R-OWN", pkg, "package", "-", "not loaded")
		return
	}
	fw := w.FieldWrites()
	inTests := func(fn *ssa.Function) bool { return strings.HasSuffix(w.RelFile(fn.Pos()), "_test.go") }

	// ---------------- population table
	table := map[string][]string{
		"ClientHello":        {"(*tls.clientHelloMsg).MakeLog"},
		"ServerHello":        {"(*tls.serverHelloMsg).MakeLog"},
		"ServerCertificates": {"(*tls.certificateMsg).MakeLog", "(*tls.certificateMsgTLS13).MakeLog"},
		"ServerKeyExchange":  {"(*tls.serverKeyExchangeMsg).MakeLog"},
		"ClientKeyExchange":  {"(*tls.clientKeyExchangeMsg).MakeLog"},
		"ClientFinished":     {"(*tls.finishedMsg).MakeLog"},
		"ServerFinished":     {"(*tls.finishedMsg).MakeLog"},
		"SessionTicket":      {"(*tls.ClientSessionState).MakeLog"},
		"KeyMaterial":        {"(*tls.clientHandshakeState).MakeLog", "(*tls.serverHandshakeState).MakeLog"},
	}
	var fields []string
	for f := range table {
		fields = append(fields, f)
	}
	sort.Strings(fields)
	nw := 0
	for _, f := range fields {
		n := 0
		for _, wr := range fw["ServerHandshake."+f] {
			if inTests(wr.Fn) || wr.Kind != "store" {
				continue
			}
			n++
			nw++
			c.Sites++
			lab := fmt.Sprintf("write of ServerHandshake.%s #%d", f, n)
			fnName := short(FuncName(wr.Fn))
			if isNilConst(wr.Val) {
				c.OK("R-OWN", fnName, lab+" stores nil", w.InstrPos(wr.In), "")
				continue
			}
			cl := callOf(wr.Val)
			if cl == nil || cl.Call.StaticCallee() == nil || !nameIn(short(FuncName(cl.Call.StaticCallee())), prefixAll(table[f])) {
				c.Fail("R-OWN", fnName, lab+" stores the MakeLog() of the matching message type", w.InstrPos(wr.In), Expr(wr.Val))
				continue
			}
			c.OK("R-OWN", fnName, lab+" stores the MakeLog() of the matching message type", w.InstrPos(wr.In), short(FuncName(cl.Call.StaticCallee())))
			msg := cl.Call.Args[0]
			c.loggedMessageIsWireMessage(wr.Fn, cl, msg, f, lab)
		}
		c.Check(n >= 1, "R-OWN", "ServerHandshake."+f, "writers enumerated", "-", fmt.Sprint(n))
	}
	c.Check(nw >= 20, "R-OWN", "ServerHandshake", "log population sites enumerated", "-", fmt.Sprint(nw))
	// client/server Finished are not swapped: the client logs its own message as ClientFinished
	// (covered above: sent-vs-received classification is reported per site)

	// ---------------- builders
	var builders []*ssa.Function
	for _, fn := range w.FuncsOfPkg(pkg) {
		if inTests(fn) || len(fn.Blocks) == 0 || fn.Parent() != nil {
			continue
		}
		file := w.RelFile(fn.Pos())
		if !(strings.HasSuffix(file, "tls_handshake.go") || strings.HasSuffix(file, "tls_ka.go")) {
			continue
		}
		n := fn.Name()
		if n == "MakeLog" || n == "Signature" || strings.HasSuffix(n, "Params") || n == "addParsed" {
			builders = append(builders, fn)
		}
	}
	c.Check(len(builders) >= 15, "R-PROV", pkg, "log builders enumerated", "-", fmt.Sprint(len(builders)))
	for _, fn := range builders {
		c.Saw(FuncName(fn))
		c.copiesComplete(fn)
		c.logFieldTable(fn)
	}

	// ---------------- wire provenance of the logged SignatureAndHashAlgorithm
	nsh := 0
	for _, f := range []string{"SigAndHash.Signature", "SigAndHash.Hash", "signedKeyAgreement.sh"} {
		for _, wr := range fw[f] {
			if inTests(wr.Fn) || wr.Kind != "store" {
				continue
			}
			// the client's view: functions that process a received ServerKeyExchange
			if n := wr.Fn.Name(); n != "verifyParameters" && n != "processServerKeyExchange" {
				continue
			}
			// only writes that reach a signedKeyAgreement's sh
			if f != "signedKeyAgreement.sh" {
				fa, ok := wr.Base.(*ssa.FieldAddr)
				if !ok || fieldName(fa) != "signedKeyAgreement.sh" {
					continue
				}
			}
			nsh++
			c.Sites++
			bad := ""
			for v := range valueSources(wr.Val) {
				if named, ok := v.Type().(*types.Named); ok && named.Obj().Pkg() != nil && named.Obj().Pkg().Path() == "crypto" && named.Obj().Name() == "Hash" {
					bad = "a crypto.Hash value (" + Expr(v) + ")"
				}
				if cl := callOf(v); cl != nil {
					n := calleeName(&cl.Call)
					if strings.HasSuffix(n, ".typeAndHashFromSignatureScheme") || strings.HasSuffix(n, ".legacyTypeAndHashFromPublicKey") {
						bad = "an internal signature type / hash from " + short(n)
					}
				}
				if fa := loadedField(v); fa != nil && fieldName(fa) == "signedKeyAgreement.sigType" {
					bad = "the suite's expected signature type (signedKeyAgreement.sigType)"
				}
			}
			// positive form: an octet of a byte slice (wire data)
			wire := false
			for v := range valueSources(wr.Val) {
				if u, ok := v.(*ssa.UnOp); ok {
					if ia, ok := u.X.(*ssa.IndexAddr); ok {
						if sl, ok := ia.X.Type().Underlying().(*types.Slice); ok {
							if b, ok := sl.Elem().Underlying().(*types.Basic); ok && b.Kind() == types.Uint8 {
								wire = true
							}
						}
					}
				}
			}
			c.Check(bad == "" && wire, "R-PROV", short(FuncName(wr.Fn)), fmt.Sprintf("write of %s #%d records octets named on the wire", f, nsh), w.InstrPos(wr.In), strings.TrimSpace(bad+" "+Expr(wr.Val)))
		}
	}
	c.Check(nsh >= 2, "R-PROV", "signedKeyAgreement.sh", "writers enumerated", "-", fmt.Sprint(nsh))
}

func prefixAll(names []string) []string { return names }

// loggedMessageIsWireMessage classifies the logged object and checks the snapshot ordering.
func (c *Ctx) loggedMessageIsWireMessage(fn *ssa.Function, logCall *ssa.Call, msg ssa.Value, field, lab string) {
	w := c.W
	fnName := short(FuncName(fn))
	// (a) received
	for v := range backClosure(msg, flowThrough) {
		if cl := callOf(v); cl != nil && strings.HasSuffix(calleeName(&cl.Call), ".readHandshake") {
			c.OK("R-PROV", fnName, lab+" logs the message that was received", w.InstrPos(logCall), Expr(msg))
			c.noStoreBetween(fn, msg, nil, logCall, lab+": no field of the received message is written before the snapshot")
			return
		}
	}
	// (b) sent: same value is the receiver of marshal() passed to WriteRecord / writeRecord
	for _, b := range fn.Blocks {
		for _, in := range b.Instrs {
			cc := callCommon(in)
			if cc == nil || !(strings.HasSuffix(calleeName(cc), ").WriteRecord") || strings.HasSuffix(calleeName(cc), ").writeRecord") || strings.HasSuffix(calleeName(cc), ").writeHandshakeRecord")) {
				continue
			}
			for _, a := range cc.Args {
				for v := range backClosure(a, flowThrough) {
					if mc := callOf(v); mc != nil && strings.HasSuffix(calleeName(&mc.Call), ").marshal") && sameVal(mc.Call.Args[0], msg) {
						c.OK("R-PROV", fnName, lab+" logs the message that was sent", w.InstrPos(logCall), Expr(msg))
						c.noStoreBetween(fn, msg, mc, logCall, lab+": no field of the sent message is written between marshalling and the snapshot")
						return
					}
				}
			}
		}
	}
	// (c) handshake state
	e := Expr(msg)
	if (field == "KeyMaterial" && (e == "hs" || strings.HasSuffix(typeStr(msg.Type()), "HandshakeState"))) || (field == "SessionTicket" && strings.HasSuffix(e, ".session")) || (field == "ClientHello" && strings.HasSuffix(FuncName(fn), "readClientHello")) {
		c.OK("R-PROV", fnName, lab+" logs the handshake state object", w.InstrPos(logCall), e)
		return
	}
	c.Fail("R-PROV", fnName, lab+" logs a message that was received or sent in this function", w.InstrPos(logCall), e)
}

// noStoreBetween: with a and b in dominance order (either way), no store to a field of *msg lies on a path between them.
func (c *Ctx) noStoreBetween(fn *ssa.Function, msg ssa.Value, a, b ssa.Instruction, label string) {
	first, second := a, b
	switch {
	case a == nil: // from the function entry
	case instrDominates(a, b):
	case instrDominates(b, a):
		first, second = b, a
	default:
		c.Undecided("R-STATE", short(FuncName(fn)), label, c.W.InstrPos(b), "send and snapshot are not ordered by dominance")
		return
	}
	target := func(in ssa.Instruction, _ resolver) bool {
		st, ok := in.(*ssa.Store)
		if !ok {
			return false
		}
		addr := st.Addr
		for i := 0; i < 4; i++ {
			switch x := addr.(type) {
			case *ssa.FieldAddr:
				if sameVal(x.X, msg) {
					return true
				}
				addr = x.X
				continue
			case *ssa.IndexAddr:
				addr = x.X
				continue
			}
			break
		}
		return false
	}
	c.Cut(CutSpec{Rule: "R-STATE", Fn: fn, Label: label, StartAfter: first, Target: target, Barrier: func(in ssa.Instruction) bool { return in == second }, Cut: func(Fact) bool { return false }, MinTargets: -1})
}

// copiesComplete: every copy() in a log builder fills a buffer made with len(source), and
// element-wise conversion loops cover the whole source.
func (c *Ctx) copiesComplete(fn *ssa.Function) {
	w := c.W
	n := 0
	for _, b := range fn.Blocks {
		for _, in := range b.Instrs {
			cl := isBuiltinCall(in, "copy")
			if cl == nil {
				continue
			}
			n++
			c.Sites++
			dst, src := cl.Call.Args[0], cl.Call.Args[1]
			ok, det := madeWithLenOf(dst, src)
			c.Check(ok, "R-PROV", short(FuncName(fn)), fmt.Sprintf("copy #%d fills a buffer allocated with the length of its source", n), w.InstrPos(in), det)
		}
	}
	// element-wise loops: dst[i] = conv(src[i])
	m := 0
	for _, b := range fn.Blocks {
		for _, in := range b.Instrs {
			st, ok := in.(*ssa.Store)
			if !ok {
				continue
			}
			ia, ok := st.Addr.(*ssa.IndexAddr)
			if !ok {
				continue
			}
			if _, isPhiIdx := stripIdx(ia.Index).(*ssa.Phi); !isPhiIdx {
				continue
			}
			mk := makeOf(ia.X)
			if mk == nil {
				continue
			}
			// source element
			var srcSlice ssa.Value
			seeds := []ssa.Value{st.Val}
			if mk2 := makeOf(st.Val); mk2 != nil {
				seeds = []ssa.Value{mk2.Len} // a per-element buffer: make([]byte, len(src[i]))
				if li, isInstr := mk2.Len.(ssa.Instruction); isInstr {
					if lc := isBuiltinCall(li, "len"); lc != nil {
						seeds = []ssa.Value{lc.Call.Args[0]}
					}
				}
			}
			for _, sd := range seeds {
				for v := range backClosure(sd, flowThrough) {
					if u, ok := v.(*ssa.UnOp); ok {
						if sia, ok := u.X.(*ssa.IndexAddr); ok && Expr(sia.Index) == Expr(ia.Index) {
							srcSlice = sia.X
						}
					}
				}
			}
			m++
			c.Sites++
			okLoop := srcSlice != nil && Expr(mk.Len) == "len("+Expr(srcSlice)+")"
			// the loop ranges over the same source
			if okLoop {
				_, hdrs := loopBodyEdges(fn, Expr(srcSlice))
				okLoop = len(hdrs) >= 1
			}
			det := Expr(ia.X) + "[" + Expr(ia.Index) + "]=" + Expr(st.Val)
			c.Check(okLoop, "R-PROV", short(FuncName(fn)), fmt.Sprintf("element loop #%d converts every element of its source into a buffer of the same length", m), w.InstrPos(in), det)
		}
	}
}

func makeOf(v ssa.Value) *ssa.MakeSlice {
	for i := 0; i < 4; i++ {
		switch x := v.(type) {
		case *ssa.MakeSlice:
			return x
		case *ssa.Slice:
			v = x.X
		case *ssa.UnOp:
			// load of a local spilled to memory (captured by a closure): its unique store
			if al, ok := x.X.(*ssa.Alloc); ok {
				var cand ssa.Value
				nst := 0
				for _, r := range *al.Referrers() {
					if st, ok := r.(*ssa.Store); ok && st.Addr == ssa.Value(al) {
						cand = st.Val
						nst++
					}
				}
				if nst == 1 {
					v = cand
					continue
				}
				return nil
			}
			// load of a field/local that was stored a make: follow a unique dominating store
			if fa, ok := x.X.(*ssa.FieldAddr); ok {
				var cand ssa.Value
				nst := 0
				for _, b := range x.Parent().Blocks {
					for _, in := range b.Instrs {
						if st, ok := in.(*ssa.Store); ok {
							if fb, ok := st.Addr.(*ssa.FieldAddr); ok && fb.Field == fa.Field && (sameVal(fb.X, fa.X) || Expr(fb.X) == Expr(fa.X)) && instrDominates(in, x) {
								cand = st.Val
								nst++
							}
						}
					}
				}
				if nst == 1 {
					v = cand
					continue
				}
			}
			return nil
		default:
			return nil
		}
	}
	return nil
}

func madeWithLenOf(dst, src ssa.Value) (bool, string) {
	mk := makeOf(dst)
	if mk == nil {
		return false, "destination " + Expr(dst) + " is not a freshly made buffer"
	}
	want := "len(" + Expr(src) + ")"
	got := Expr(mk.Len)
	if got == want {
		return true, got
	}
	// length kept in a log field assigned len(src) just before
	if u, ok := mk.Len.(*ssa.UnOp); ok {
		if fa, ok := u.X.(*ssa.FieldAddr); ok {
			for _, b := range u.Parent().Blocks {
				for _, in := range b.Instrs {
					if st, ok := in.(*ssa.Store); ok {
						if fb, ok := st.Addr.(*ssa.FieldAddr); ok && fb.Field == fa.Field && (sameVal(fb.X, fa.X) || Expr(fb.X) == Expr(fa.X)) && instrDominates(in, u) && Expr(st.Val) == want {
							return true, got + " = " + want
						}
					}
				}
			}
		}
	}
	// a tail of the source: make(len(s)-k) filled from s[k:]
	if sl, ok := src.(*ssa.Slice); ok && sl.Low != nil && sl.High == nil {
		if got == "(len("+Expr(sl.X)+")-"+Expr(sl.Low)+")" {
			return true, got
		}
	}
	return false, "made with " + got + ", source length is " + want
}

// logFieldTable renders every store into a field of the log object and compares with the oracle.
func (c *Ctx) logFieldTable(fn *ssa.Function) {
	w := c.W
	var rows []string
	for _, b := range fn.Blocks {
		for _, in := range b.Instrs {
			st, ok := in.(*ssa.Store)
			if !ok {
				continue
			}
			fa, ok := st.Addr.(*ssa.FieldAddr)
			if !ok {
				continue
			}
			// only fields of objects allocated here (the log), not of the receiver
			if _, isParam := rootOf(fa.X).(*ssa.Parameter); isParam && fn.Name() != "addParsed" {
				continue
			}
			val := Expr(st.Val)
			if mk := makeOf(st.Val); mk != nil {
				// describe by what fills it
				val = "buffer[" + Expr(mk.Len) + "]"
				for _, r := range *mk.Referrers() {
					_ = r
				}
			}
			rows = append(rows, fieldName(fa)+"="+val)
		}
	}
	sort.Strings(rows)
	rows = uniq(rows)
	key := short(FuncName(fn))
	got := strings.Join(rows, " ; ")
	want, ok := c28Oracle[key]
	c.Sites++
	if !ok {
		c.Fail("R-PROV", key, "log fields are computed from the message fields the oracle names", w.Pos(fn.Pos()), "no oracle entry; got "+got)
		return
	}
	c.Check(got == want, "R-PROV", key, "log fields are computed from the message fields the oracle names", w.Pos(fn.Pos()), "got "+got)
}

func rootOf(v ssa.Value) ssa.Value {
	for i := 0; i < 8; i++ {
		switch x := v.(type) {
		case *ssa.FieldAddr:
			v = x.X
		case *ssa.IndexAddr:
			v = x.X
		case *ssa.UnOp:
			v = x.X
		default:
			return v
		}
	}
	return v
}
