package main

import (
	"fmt"
	"go/token"
	"go/types"
	"sort"
	"strings"

	"golang.org/x/tools/go/ssa"
)

func init() {
	register(&propDef{
		ID: "C20",
		Explain: "R-MONO: every branch on asn1.AllowPermissiveParsing (all non-test reads are enumerated; the flag may only be used as a branch condition) has one of two shapes: " +
			"(A) strict arm must-fail: no success return is reachable from the flag-false edge, so the permissive arm only turns a strict failure into something else; or " +
			"(B) strict arm pure-check: the flag-true edge goes straight to the join block and the blocks only the flag-false edge reaches contain no stores to non-local memory, no map updates, no sends, " +
			"no calls outside the pure allowlist, no success return, and feed the join's phis the same values. " +
			"R-SWALLOW: in the call-graph closure of asn1.Unmarshal*/x509.Parse*Certificate*, the error of a call to a mode-sensitive function (one that can reach a flag read) is never dropped while a value result is used, " +
			"and from its failure edge no success return is reachable except through the permissive edge of a flag branch.",
		NotCov: "time.Parse/Format differences are outside the flag. The obligations give monotonicity by induction on the execution; equality of the bytes consumed is implied only in as far as both modes run the same pure checks.",
		Floor:  45,
		Run:    runC20,
	})
}

var c20PureCalls = map[string]string{
	"builtin.len": "", "builtin.cap": "", "builtin.append": "fresh local value only", "builtin.copy": "",
	"errors.New": "", "fmt.Errorf": "", "fmt.Sprintf": "", "strconv.Itoa": "",
	"(*math/big.Int).Sign": "", "(*math/big.Int).Cmp": "", "(*math/big.Int).BitLen": "",
	"bytes.Equal": "", "(time.Time).Format": "", "(time.Time).Year": "", "(time.Time).Equal": "",
	"(github.com/zmap/zcrypto/encoding/asn1.ObjectIdentifier).Equal": "",
	"github.com/zmap/zcrypto/encoding/asn1.checkInteger":             "pure length/octet test",
	"github.com/zmap/zcrypto/encoding/asn1.isPrintable":              "",
	"github.com/zmap/zcrypto/encoding/asn1.isIA5String":              "",
	"github.com/zmap/zcrypto/encoding/asn1.isNumeric":                "",
	"unicode/utf8.Valid": "", "unicode/utf8.ValidString": "",
}

func flagGlobal(w *World) *ssa.Global {
	p := w.Pkg("z/encoding/asn1")
	if p == nil {
		return nil
	}
	sp := w.Prog.Package(p.Types)
	if sp == nil {
		return nil
	}
	g, _ := sp.Members["AllowPermissiveParsing"].(*ssa.Global)
	return g
}

type flagIf struct {
	fn           *ssa.Function
	b            *ssa.BasicBlock
	strict, perm int
}

func errResultIdx(fn *ssa.Function) int {
	rs := fn.Signature.Results()
	for i := rs.Len() - 1; i >= 0; i-- {
		if types.Identical(rs.At(i).Type(), types.Universe.Lookup("error").Type()) {
			return i
		}
	}
	return -1
}

// successExit: a return that does not definitely report failure.
func successExit(fn *ssa.Function) func(ssa.Instruction, resolver) bool {
	idx := errResultIdx(fn)
	if idx >= 0 {
		return SuccessReturn(idx, nil)
	}
	// (value, ok bool) style: failure is a constant false in the last bool result
	rs := fn.Signature.Results()
	bi := -1
	for i := rs.Len() - 1; i >= 0; i-- {
		if b, ok := rs.At(i).Type().Underlying().(*types.Basic); ok && b.Kind() == types.Bool {
			bi = i
			break
		}
	}
	return func(in ssa.Instruction, res resolver) bool {
		rt, ok := in.(*ssa.Return)
		if !ok {
			return false
		}
		if bi < 0 {
			return true
		}
		b, isC := boolConst(res(unspill(rt, bi)))
		return !isC || b
	}
}

func runC20(c *Ctx) {
	w := c.W
	g := flagGlobal(w)
	if g == nil {
		c.Undecided("R-MONO", "z/encoding/asn1", "AllowPermissiveParsing", "-", "global not found")
		return
	}
	isFlag := func(v ssa.Value) bool {
		u, ok := v.(*ssa.UnOp)
		return ok && u.Op == token.MUL && u.X == ssa.Value(g)
	}
	var fns []*ssa.Function
	for fn := range w.AllFuncs() {
		if InModule(fn) && fn.Blocks != nil {
			fns = append(fns, fn)
		}
	}
	sort.Slice(fns, func(i, j int) bool { return FuncName(fns[i]) < FuncName(fns[j]) })
	var flagIfs []flagIf
	readers := map[*ssa.Function]bool{}
	nReads := 0
	for _, fn := range fns {
		for _, b := range fn.Blocks {
			for _, in := range b.Instrs {
				if st, ok := in.(*ssa.Store); ok && st.Addr == ssa.Value(g) && fn.Name() != "init" {
					// writers are test helpers / the user; not part of the parse paths
					c.Infof("flag written in %s at %s", short(FuncName(fn)), w.InstrPos(in))
				}
				ld, ok := in.(*ssa.UnOp)
				if !ok || !isFlag(ld) {
					continue
				}
				nReads++
				readers[fn] = true
				// every use must be a branch condition (directly or negated)
				for _, ref := range *ld.Referrers() {
					okUse := false
					switch r := ref.(type) {
					case *ssa.If:
						okUse = true
					case *ssa.UnOp:
						if r.Op == token.NOT {
							okUse = true
							for _, r2 := range *r.Referrers() {
								if _, isIf := r2.(*ssa.If); !isIf {
									okUse = false
								}
							}
						}
					}
					if !okUse {
						c.Undecided("R-MONO", FuncName(fn), "flag value used other than as a branch condition", w.InstrPos(in), ref.String())
					}
				}
			}
			ifi, ok := b.Instrs[len(b.Instrs)-1].(*ssa.If)
			if !ok {
				continue
			}
			for si := 0; si < 2; si++ {
				for _, f := range condFacts(ifi.Cond, si == 0, idRes) {
					if f.Op == "false" && isFlag(f.X) {
						flagIfs = append(flagIfs, flagIf{fn: fn, b: b, strict: si, perm: 1 - si})
					}
				}
			}
		}
	}
	c.Check(nReads >= 40, "R-MONO", "module", "reads of AllowPermissiveParsing enumerated", "-", fmt.Sprintf("%d reads, %d branches, %d functions", nReads, len(flagIfs), len(readers)))
	c.Check(len(flagIfs) == nReads, "R-MONO", "module", "every read of the flag is a branch condition", "-", fmt.Sprintf("%d reads vs %d branches", nReads, len(flagIfs)))

	perFn := map[string]int{}
	for _, fi := range flagIfs {
		c.Sites++
		name := FuncName(fi.fn)
		perFn[name]++
		label := fmt.Sprintf("flag branch #%d", perFn[name])
		ifi := fi.b.Instrs[len(fi.b.Instrs)-1]
		pos := w.InstrPos(ifi)
		// shape A
		ra := RunCut(&CutSpec{Fn: fi.fn, StartEdges: []EdgeRef{{B: fi.b, Succ: fi.strict, Known: domFacts(fi.b)}}, Target: successExit(fi.fn)})
		if !ra.Violated && !ra.Capped {
			c.add("discharged", "R-MONO", name, label+": strict arm must-fail", pos, "no success return reachable from the flag-false edge", ra.States)
			continue
		}
		// shape B
		why := shapeB(fi)
		if why == "" {
			c.add("discharged", "R-MONO", name, label+": strict arm is a pure check and the permissive arm is empty", pos, "", 0)
			continue
		}
		det := "neither shape holds. strict arm can succeed: " + w.pathString(ra.Path, ra.At) + " ; not a pure check: " + why
		c.add("violated", "R-MONO", name, label+": permissive switch changes more than failure exits", pos, det, ra.States)
	}

	// ---- R-SWALLOW
	modeSensitive := map[*ssa.Function]bool{}
	cg := w.CG()
	var work []*ssa.Function
	for fn := range readers {
		modeSensitive[fn] = true
		work = append(work, fn)
	}
	for len(work) > 0 {
		f := work[len(work)-1]
		work = work[:len(work)-1]
		if n := cg.Nodes[f]; n != nil {
			for _, e := range n.In {
				cf := e.Caller.Func
				if cf != nil && InModule(cf) && !modeSensitive[cf] {
					modeSensitive[cf] = true
					work = append(work, cf)
				}
			}
		}
	}
	var roots []*ssa.Function
	for _, nm := range []string{"z/encoding/asn1.Unmarshal", "z/encoding/asn1.UnmarshalWithParams", "z/x509.ParseCertificate", "z/x509.ParseTBSCertificate", "z/x509.ParseCertificates"} {
		if f := w.Fn(nm); f != nil {
			roots = append(roots, f)
		} else {
			c.Undecided("R-SWALLOW", nm, "root", "-", "not found")
		}
	}
	scope := w.Reachable(roots, func(f *ssa.Function) bool { return !InModule(f) })
	var scoped []*ssa.Function
	for f := range scope {
		if InModule(f) && f.Blocks != nil {
			scoped = append(scoped, f)
		}
	}
	sort.Slice(scoped, func(i, j int) bool { return FuncName(scoped[i]) < FuncName(scoped[j]) })
	permEdge := func(f Fact) bool { return f.Op == "true" && isFlag(f.X) }
	nSw, nNoErr := 0, 0
	perKey := map[string]int{}
	for _, fn := range scoped {
		for _, b := range fn.Blocks {
			for _, in := range b.Instrs {
				cl, ok := in.(*ssa.Call)
				if !ok {
					continue
				}
				callee := cl.Call.StaticCallee()
				if callee == nil || !modeSensitive[callee] {
					continue
				}
				ei := errResultIdx(callee)
				if ei < 0 {
					continue
				}
				if errResultIdx(fn) < 0 {
					// the caller cannot report failure by shape; not decided, listed only
					nNoErr++
					continue
				}
				nSw++
				c.Sites++
				name := FuncName(fn)
				k := name + "->" + short(FuncName(callee))
				perKey[k]++
				label := fmt.Sprintf("error of %s #%d", short(FuncName(callee)), perKey[k])
				pos := w.InstrPos(in)
				// locate the error value and the value results
				var ev ssa.Value
				valueUsed := false
				if callee.Signature.Results().Len() == 1 {
					ev = cl
				} else {
					for _, ref := range *cl.Referrers() {
						if ex, ok := ref.(*ssa.Extract); ok {
							if ex.Index == ei {
								ev = ex
							} else if len(*ex.Referrers()) > 0 {
								valueUsed = true
							}
						}
					}
				}
				// out-parameters count as used values: pointer arguments filled by the callee
				for _, a := range cl.Call.Args {
					if _, isPtr := a.Type().Underlying().(*types.Pointer); isPtr {
						valueUsed = true
					}
					if mi, ok := a.(*ssa.MakeInterface); ok {
						if _, isPtr := mi.X.Type().Underlying().(*types.Pointer); isPtr {
							valueUsed = true
						}
					}
				}
				if ev == nil || len(*ev.(ssa.Instruction).(interface{ Referrers() *[]ssa.Instruction }).Referrers()) == 0 {
					if valueUsed {
						c.Fail("R-SWALLOW", name, label+" is dropped while the decoded value is used", pos, "")
					} else {
						c.OK("R-SWALLOW", name, label+" dropped together with its value", pos, "")
					}
					continue
				}
				tested := false
				for _, b2 := range fn.Blocks {
					if ifi, ok := b2.Instrs[len(b2.Instrs)-1].(*ssa.If); ok {
						for _, f := range condFacts(ifi.Cond, true, idRes) {
							if f.X == ev && (f.Op == "nil" || f.Op == "nonnil") {
								tested = true
							}
						}
					}
				}
				// start right after the call, assuming it failed
				var after ssa.Instruction = cl
				if ex, ok := ev.(*ssa.Extract); ok {
					after = ex
				}
				// recognised idiom "alternative decode": after A(input) failed, the same input is
				// decoded as another shape B(input) and B's own error is propagated; the two shapes are
				// assumed type-disjoint (stated in the evidence), so A's failure only selects B.
				altOK := func(f Fact) bool {
					if f.Op != "nil" {
						return false
					}
					c2 := callOf(f.X)
					if c2 == nil || c2 == cl || len(c2.Call.Args) == 0 || len(cl.Call.Args) == 0 {
						return false
					}
					cal2 := c2.Call.StaticCallee()
					return cal2 != nil && modeSensitive[cal2] && c2.Call.Args[0] == cl.Call.Args[0] && instrDominates(cl, c2)
				}
				r := RunCut(&CutSpec{Fn: fn, StartAfter: after, Assume: []Fact{{Op: "nonnil", X: ev}}, Target: successExit(fn), Cut: AnyF(permEdge, altOK)})
				switch {
				case !tested:
					// never tested: it must be returned / passed on as the function's own error
					if flowsToReturn(fn, ev) {
						c.OK("R-SWALLOW", name, label+" is returned to the caller", pos, "")
					} else {
						c.Fail("R-SWALLOW", name, label+" is neither tested nor returned", pos, Expr(ev))
					}
				case r.Capped:
					c.Undecided("R-SWALLOW", name, label, pos, "state cap")
				case r.Violated:
					c.add("violated", "R-SWALLOW", name, label+" is swallowed: a success return is reachable from its failure edge outside the permissive arm", pos, w.pathString(r.Path, r.At), r.States)
				default:
					c.add("discharged", "R-SWALLOW", name, label+" is propagated (or tolerated only on the permissive edge)", pos, "", r.States)
				}
			}
		}
	}
	c.assume = append(c.assume, "R-SWALLOW accepts the 'alternative decode' idiom (after A(input) fails the same input is decoded as B(input) whose error is propagated) assuming the two ASN.1 shapes are type-disjoint; one instance today: (*QCStatements).Parse, monetary value with string vs integer currency",
		"the pure-call allowlist of R-MONO shape B names functions without side effects on parser-visible state")
	c.Infof("%d call sites of mode-sensitive functions lie in functions without an error result (e.g. GetSignatureAlgorithmFromAI, stripTagAndLength); failure cannot be read off their shape, so they are not decided", nNoErr)
	c.Check(nSw >= 20, "R-SWALLOW", "module", "call sites of mode-sensitive functions in the parse closure enumerated", "-", fmt.Sprintf("%d sites, %d mode-sensitive functions, %d functions in scope", nSw, len(modeSensitive), len(scoped)))
}

func flowsToReturn(fn *ssa.Function, v ssa.Value) bool {
	idx := errResultIdx(fn)
	if idx < 0 {
		return false
	}
	return returnClosure(fn, idx)[v]
}

// shapeB returns "" if the flag branch is a pure strict-only check.
func shapeB(fi flagIf) string {
	J := fi.b.Succs[fi.perm]
	S := fi.b.Succs[fi.strict]
	if S == J {
		return ""
	}
	region := map[*ssa.BasicBlock]bool{}
	var walk func(b *ssa.BasicBlock)
	walk = func(b *ssa.BasicBlock) {
		if b == J || region[b] {
			return
		}
		region[b] = true
		for _, s := range b.Succs {
			walk(s)
		}
	}
	walk(S)
	if region[fi.b] {
		return "the strict arm loops back to the branch without passing the join"
	}
	succ := successExit(fi.fn)
	reachesJ := false
	for b := range region {
		for _, s := range b.Succs {
			if s == J {
				reachesJ = true
			}
		}
		for _, in := range b.Instrs {
			switch x := in.(type) {
			case *ssa.Return:
				if succ(in, idRes) {
					return "the strict arm returns success on its own at " + in.Parent().Prog.Fset.Position(in.Pos()).String()
				}
			case *ssa.Store:
				if !localAddr(x.Addr) {
					return "store to non-local memory in the strict arm: " + x.String()
				}
			case *ssa.MapUpdate, *ssa.Send, *ssa.Go, *ssa.Defer:
				return "side effect in the strict arm: " + in.String()
			case *ssa.Call:
				n := calleeName(&x.Call)
				if _, ok := c20PureCalls[n]; !ok {
					return "call outside the pure allowlist in the strict arm: " + short(n)
				}
			}
		}
	}
	if !reachesJ {
		// the strict arm never rejoins: then it must fail on all paths, which shape A would have shown
		return "the strict arm does not rejoin the permissive path"
	}
	// join phis
	for _, in := range J.Instrs {
		phi, ok := in.(*ssa.Phi)
		if !ok {
			break
		}
		var permVal ssa.Value
		for i, p := range J.Preds {
			if p == fi.b {
				permVal = phi.Edges[i]
			}
		}
		for i, p := range J.Preds {
			if region[p] && permVal != nil && phi.Edges[i] != permVal {
				// a strict-only value may reach the join only as a failure marker: a definitely
				// non-nil error that the join returns at once
				_, joinReturns := J.Instrs[len(J.Instrs)-1].(*ssa.Return)
				isErr := types.Identical(phi.Type(), types.Universe.Lookup("error").Type())
				if !(joinReturns && isErr && definitelyNonNil(phi.Edges[i])) {
					return "the join merges a value computed only in the strict arm: " + phi.Comment
				}
			}
		}
	}
	return ""
}

func localAddr(a ssa.Value) bool {
	switch x := a.(type) {
	case *ssa.Alloc:
		// stack locals, and the temporaries the compiler builds for call arguments / literals
		return !x.Heap || x.Comment == "varargs" || x.Comment == "complit"
	case *ssa.FieldAddr:
		return localAddr(x.X)
	case *ssa.IndexAddr:
		return localAddr(x.X)
	}
	return false
}

var _ = strings.Contains
