package main

import (
	"go/token"

	"golang.org/x/tools/go/ssa"
)

// SharedParams computes, for the code reachable from goroutine roots, which
// parameters may denote an object that another goroutine can also reach:
// every parameter and free variable of a root is shared (the spawner keeps
// its copies), and sharedness flows into callees through arguments whose
// address expression is rooted at a shared parameter. Freshly allocated
// objects, call results and values received from channels are not shared.
type SharedParams struct {
	w      *World
	shared map[ssa.Value]bool // *ssa.Parameter / *ssa.FreeVar
}

func (sp *SharedParams) isShared(v ssa.Value) bool { return sp.isSharedV(v, map[ssa.Value]bool{}) }

func (sp *SharedParams) isSharedV(v ssa.Value, seen map[ssa.Value]bool) bool {
	for i := 0; i < 32; i++ {
		if seen[v] {
			return false
		}
		seen[v] = true
		switch x := v.(type) {
		case *ssa.Parameter:
			return sp.shared[x]
		case *ssa.FreeVar:
			return sp.shared[x]
		case *ssa.Global:
			return true
		case *ssa.FieldAddr:
			v = x.X
		case *ssa.IndexAddr:
			v = x.X
		case *ssa.Field:
			v = x.X
		case *ssa.UnOp:
			if x.Op != token.MUL {
				return false
			}
			v = x.X
		case *ssa.ChangeType:
			v = x.X
		case *ssa.ChangeInterface:
			v = x.X
		case *ssa.MakeInterface:
			v = x.X
		case *ssa.Slice:
			v = x.X
		case *ssa.Phi:
			for _, e := range x.Edges {
				if e != ssa.Value(x) && sp.isSharedV(e, seen) {
					return true
				}
			}
			return false
		default:
			return false
		}
	}
	return false
}

func NewSharedParams(w *World, roots []*ssa.Function) *SharedParams {
	sp := &SharedParams{w: w, shared: map[ssa.Value]bool{}}
	visitedShared = map[*ssa.Function]bool{}
	var work []*ssa.Function
	inWork := map[*ssa.Function]bool{}
	push := func(f *ssa.Function) {
		if f != nil && f.Blocks != nil && InModule(f) && !inWork[f] {
			inWork[f] = true
			work = append(work, f)
		}
	}
	for _, r := range roots {
		for _, p := range r.Params {
			sp.shared[p] = true
		}
		for _, fv := range r.FreeVars {
			sp.shared[fv] = true
		}
		push(r)
	}
	cg := w.CG()
	for len(work) > 0 {
		f := work[len(work)-1]
		work = work[:len(work)-1]
		inWork[f] = false
		for _, b := range f.Blocks {
			for _, in := range b.Instrs {
				cc := callCommon(in)
				if cc == nil {
					continue
				}
				var callees []*ssa.Function
				if sc := cc.StaticCallee(); sc != nil {
					callees = []*ssa.Function{sc}
				} else if n := cg.Nodes[f]; n != nil {
					for _, e := range n.Out {
						if e.Site == in.(ssa.CallInstruction) && e.Callee.Func != nil {
							callees = append(callees, e.Callee.Func)
						}
					}
				}
				args := cc.Args
				if cc.IsInvoke() {
					args = append([]ssa.Value{cc.Value}, cc.Args...)
				}
				for _, callee := range callees {
					if callee.Blocks == nil || !InModule(callee) {
						continue
					}
					changed := false
					for i, a := range args {
						if i >= len(callee.Params) {
							break
						}
						if !sp.shared[callee.Params[i]] && sp.isShared(a) {
							sp.shared[callee.Params[i]] = true
							changed = true
						}
					}
					// closures: free variables bound to shared values
					if mc, ok := cc.Value.(*ssa.MakeClosure); ok {
						for i, bnd := range mc.Bindings {
							if i < len(callee.FreeVars) && !sp.shared[callee.FreeVars[i]] && sp.isShared(bnd) {
								sp.shared[callee.FreeVars[i]] = true
								changed = true
							}
						}
					}
					if changed || !visitedShared[callee] {
						visitedShared[callee] = true
						push(callee)
					}
				}
			}
		}
	}
	return sp
}

var visitedShared = map[*ssa.Function]bool{}
