package main

import (
	"fmt"
	"go/token"
	"go/types"
	"sort"
	"strings"

	"golang.org/x/tools/go/ssa"
)

func init() {
	register(&propDef{
		ID: "C02",
		Explain: "Scope: the in-module call-graph closure of (*x509.Certificate).MarshalJSON and JsonifyExtensions, every MarshalJSON method of packages x509, x509/pkix, x509/ct, ct, json, encoding/asn1 and util (encoding/json reaches them by reflection), CheckSignature*, VerifyHostname, CollectAllNames, CertPool.AddCert and verifier Graph.AddCert. " +
			"R-ORDER: a slice that is filled while ranging over a map and then returned or stored passes through a sort with a total order on its elements on every path (sort.Strings/Ints/Float64s, slices.Sort, or sort.Slice/SliceStable whose less function is exactly s[i] < s[j]); no clock or random source is reachable from the JSON closure. " +
			"R-PURE: none of the roots writes through a reference parameter (receiver included), directly or through in-module callees, so serialising or checking a certificate does not change it (AddCert excepted). R-FRESH: no loop of the scope lets a value built in a buffer or decode target that outlives the iteration escape the iteration. R-BOUNDS: for the functions listed in c02_covered.go (discharged completely by the bounds prover when frozen) every index and slice bound, including indexes driven by the range variable of a different slice, is covered on every path. R-LOOP: every loop of the scope makes progress. R-PANIC: no function of the scope ends in panic on all paths; " +
			"each GraphEdgeSet.addOrPanic call in Graph.AddCert is reached only with an edge that was created in the call or tested absent.",
		NotCov: "totality beyond these shapes (nil dereferences, bounds in functions outside the covered list), and byte-identical output other than through map order, clocks and random sources.",
		Floor:  120,
		Run:    runC02,
	})
}

func c02Scope(w *World) (roots, scope, jsonScope []*ssa.Function) {
	add := func(name string) {
		if fn := w.Fn(name); fn != nil {
			roots = append(roots, fn)
		}
	}
	for _, n := range []string{"(*z/x509.Certificate).MarshalJSON", "(*z/x509.Certificate).JsonifyExtensions", "(*z/x509.Certificate).CheckSignatureFrom", "(*z/x509.Certificate).CheckSignature",
		"z/x509.CheckSignatureFromKey", "(*z/x509.Certificate).VerifyHostname", "(*z/x509.Certificate).CollectAllNames", "(*z/x509.CertPool).AddCert", "(*z/verifier.Graph).AddCert"} {
		add(n)
	}
	var jsonRoots []*ssa.Function
	for _, p := range []string{"z/x509", "z/x509/pkix", "z/x509/ct", "z/ct", "z/json", "z/encoding/asn1", "z/util"} {
		for _, fn := range w.FuncsOfPkg(p) {
			if fn.Name() == "MarshalJSON" && fn.Parent() == nil && !strings.HasSuffix(w.RelFile(fn.Pos()), "_test.go") {
				jsonRoots = append(jsonRoots, fn)
			}
		}
	}
	if fn := w.Fn("(*z/x509.Certificate).JsonifyExtensions"); fn != nil {
		jsonRoots = append(jsonRoots, fn)
	}
	roots = append(roots, jsonRoots...)
	collect := func(rs []*ssa.Function) []*ssa.Function {
		var out []*ssa.Function
		for fn := range w.Reachable(rs, func(fn *ssa.Function) bool { return !InModule(fn) }) {
			if InModule(fn) && len(fn.Blocks) > 0 && !strings.HasSuffix(w.RelFile(fn.Pos()), "_test.go") {
				out = append(out, fn)
			}
		}
		sort.Slice(out, func(i, j int) bool { return FuncName(out[i]) < FuncName(out[j]) })
		return out
	}
	return roots, collect(roots), collect(jsonRoots)
}

func runC02(c *Ctx) {
	w := c.W
	roots, scope, jsonScope := c02Scope(w)
	c.Infof("scope: %d roots, %d functions (%d in the JSON closure)", len(roots), len(scope), len(jsonScope))
	c.Check(len(roots) >= 40 && len(scope) >= 150, "R-SCOPE", "certificate operations", "roots and closure enumerated", "-", fmt.Sprintf("%d roots, %d functions", len(roots), len(scope)))
	for _, fn := range scope {
		c.Saw(FuncName(fn))
	}

	// ---------------- R-ORDER
	nmap := 0
	for _, fn := range jsonScope {
		for _, b := range fn.Blocks {
			for _, in := range b.Instrs {
				rg, ok := in.(*ssa.Range)
				if !ok {
					continue
				}
				if _, isMap := rg.X.Type().Underlying().(*types.Map); !isMap {
					continue
				}
				nmap++
				c.Sites++
				c.mapRangeSorted(fn, rg, nmap)
			}
		}
	}
	c.Check(nmap >= 1, "R-ORDER", "JSON closure", "map iterations enumerated", "-", fmt.Sprint(nmap))
	// no clock / randomness in the JSON closure
	for _, fn := range jsonScope {
		for _, b := range fn.Blocks {
			for _, in := range b.Instrs {
				cc := callCommon(in)
				if cc == nil {
					continue
				}
				n := calleeName(cc)
				if n == "time.Now" || strings.HasPrefix(n, "math/rand.") || strings.HasPrefix(n, "crypto/rand.") || n == "time.Since" {
					c.Fail("R-ORDER", short(FuncName(fn)), "no clock or random source in the JSON closure: "+n, w.InstrPos(in), "")
				}
			}
		}
	}
	c.OK("R-ORDER", "JSON closure", "clock and random sources searched", "-", fmt.Sprintf("%d functions", len(jsonScope)))

	// ---------------- R-PURE: serialising does not modify the certificate
	sum := NewParamWriteSummary(w, scope)
	npure := 0
	for _, fn := range roots {
		if len(fn.Blocks) == 0 {
			continue
		}
		for _, p := range fn.Params {
			if !isRefType(p.Type()) {
				continue
			}
			npure++
			c.Sites++
			wit, written := sum.writes[p]
			if fn.Name() == "AddCert" {
				continue // inserting into a pool/graph writes its receiver by definition
			}
			c.Check(!written, "R-PURE", short(FuncName(fn)), "does not write through its parameter "+p.Name()+" (directly or through callees)", w.Pos(fn.Pos()), wit)
		}
	}
	c.Check(npure >= 30, "R-PURE", "certificate operations", "reference parameters of the roots enumerated", "-", fmt.Sprint(npure))

	// ---------------- R-FRESH
	for _, fn := range scope {
		for i, r := range loopFreshness(fn) {
			c.Fail("R-FRESH", short(FuncName(fn)), fmt.Sprintf("no value that leaves a loop iteration is built in storage that outlives it (#%d)", i+1), w.InstrPos(r.In), r.What)
		}
	}
	c.OK("R-FRESH", "certificate operations", "loops searched for reused buffers and decode targets", "-", fmt.Sprintf("%d functions", len(scope)))

	// ---------------- R-LOOP
	nl := 0
	for _, fn := range scope {
		k := 0
		for _, l := range natLoops(fn) {
			k++
			nl++
			c.Sites++
			v := checkLoopProgress(l)
			c.Check(v.ok, "R-LOOP", short(FuncName(fn)), fmt.Sprintf("loop #%d makes progress on every cycle", k), w.InstrPos(l.header.Instrs[len(l.header.Instrs)-1]), v.kind+": "+v.detail)
		}
	}
	c.Infof("R-LOOP: %d loops", nl)

	// ---------------- R-PANIC
	for _, fn := range scope {
		hasRet := false
		for _, b := range fn.Blocks {
			if _, ok := b.Instrs[len(b.Instrs)-1].(*ssa.Return); ok && !(fn.Recover != nil && b == fn.Recover) {
				hasRet = true
			}
		}
		if fn.Name() == "addOrPanic" {
			continue
		}
		c.Check(hasRet, "R-PANIC", short(FuncName(fn)), "the function can return (is not a panicking stub)", w.Pos(fn.Pos()), "")
	}
	c.addOrPanicSites()
	c02Extras4(c)

	// ---------------- R-BOUNDS on the covered list
	inScope := map[string]*ssa.Function{}
	for _, fn := range scope {
		inScope[short(FuncName(fn))] = fn
	}
	// lemma for CertificatePoliciesData: the per-policy slices have one entry per policy identifier
	c.policyArraysLemma()
	lenAtLeast = map[string]string{"len(cp.CPSUri)": "len(cp.PolicyIdentifiers)"}
	defer func() { lenAtLeast = map[string]string{} }()
	nb, vanished := 0, 0
	for _, name := range c02Covered {
		fn := inScope[name]
		if fn == nil {
			if !c.W.moduleHasFunc(name) && vanished < 2 {
				// deleted (inlined into its callers): there is no code left to bound; at most two such
				// functions are tolerated before the list counts as eroded
				vanished++
				c.OK("R-BOUNDS", name, "covered function is still part of the scope", "-", "the function no longer exists in the module (nothing to bound; its callers are judged under their own names)")
				continue
			}
			c.Undecided("R-BOUNDS", name, "covered function is still part of the scope", "-", "not found in the closure of the roots")
			continue
		}
		nb += c.BoundsObligations(fn, "R-BOUNDS", nil)
	}
	c.Infof("R-BOUNDS: %d covered functions, %d index/slice sites", len(c02Covered), nb)
}

// mapRangeSorted: values appended inside a map range reach a return or a field store only through an accepted sort.
func (c *Ctx) mapRangeSorted(fn *ssa.Function, rg *ssa.Range, n int) {
	w := c.W
	// the loop of this range: blocks dominated by the block holding the Next
	var next *ssa.Next
	for _, r := range *rg.Referrers() {
		if nx, ok := r.(*ssa.Next); ok {
			next = nx
		}
	}
	if next == nil {
		c.Undecided("R-ORDER", short(FuncName(fn)), fmt.Sprintf("map range #%d has an iteration step", n), w.InstrPos(rg), "")
		return
	}
	hdr := next.Block()
	// slices appended to inside the loop with values derived from the iteration
	var webs []map[ssa.Value]bool
	for _, b := range fn.Blocks {
		if !hdr.Dominates(b) || !blockReaches(b, hdr) {
			continue
		}
		for _, in := range b.Instrs {
			cl := isBuiltinCall(in, "append")
			if cl == nil {
				continue
			}
			vals, _ := appended(cl)
			fromIter := false
			for _, v := range vals {
				for x := range valueSources(v) {
					if x == ssa.Value(next) {
						fromIter = true
					}
				}
			}
			if !fromIter {
				continue
			}
			webs = append(webs, sliceWeb(cl))
		}
	}
	if len(webs) == 0 {
		c.OK("R-ORDER", short(FuncName(fn)), fmt.Sprintf("map range #%d does not build an ordered sequence", n), w.InstrPos(rg), "")
		return
	}
	for wi, web := range webs {
		inWeb := func(v ssa.Value) bool {
			for x := range backClosure(v, nil) {
				if web[x] {
					return true
				}
			}
			return false
		}
		sorted := func(in ssa.Instruction) bool {
			cc := callCommon(in)
			if cc == nil || len(cc.Args) == 0 || !inWeb(cc.Args[0]) {
				return false
			}
			switch calleeName(cc) {
			case "sort.Strings", "sort.Ints", "sort.Float64s", "slices.Sort":
				return true
			case "sort.Slice", "sort.SliceStable":
				return lessIsElementOrder(cc.Args[1], web)
			}
			return strings.HasPrefix(calleeName(cc), "slices.Sort[")
		}
		// exits of the loop
		var starts []EdgeRef
		for _, b := range fn.Blocks {
			if !(hdr.Dominates(b) && blockReaches(b, hdr)) {
				continue
			}
			for si, s := range b.Succs {
				if !(hdr.Dominates(s) && blockReaches(s, hdr)) {
					starts = append(starts, EdgeRef{B: b, Succ: si})
				}
			}
		}
		leak := func(in ssa.Instruction, _ resolver) bool {
			switch x := in.(type) {
			case *ssa.Return:
				for _, r := range x.Results {
					if inWeb(r) {
						return true
					}
				}
			case *ssa.Store:
				if _, isField := x.Addr.(*ssa.FieldAddr); isField && inWeb(x.Val) {
					return true
				}
			}
			return false
		}
		c.Cut(CutSpec{Rule: "R-ORDER", Fn: fn, Label: fmt.Sprintf("the sequence #%d built from map range #%d is sorted by a total order before it leaves the function", wi+1, n), StartEdges: starts, Target: leak, Barrier: sorted, Cut: func(Fact) bool { return false }, MinTargets: -1})
	}
}

// sliceWeb: the phi web of a slice variable around an append.
func sliceWeb(cl *ssa.Call) map[ssa.Value]bool {
	web := map[ssa.Value]bool{cl: true}
	changed := true
	for changed {
		changed = false
		for v := range web {
			// forward: phis and appends that use v
			if refs := v.Referrers(); refs != nil {
				for _, r := range *refs {
					switch x := r.(type) {
					case *ssa.Phi:
						if !web[x] {
							web[x] = true
							changed = true
						}
					case *ssa.Call:
						if b, ok := x.Call.Value.(*ssa.Builtin); ok && b.Name() == "append" && len(x.Call.Args) > 0 && x.Call.Args[0] == v && !web[x] {
							web[x] = true
							changed = true
						}
					}
				}
			}
			// backward through phis
			// variables spilled to memory (named results captured by a closure)
			if refs := v.Referrers(); refs != nil {
				for _, r := range *refs {
					if st, ok := r.(*ssa.Store); ok && st.Val == v {
						if al, ok := st.Addr.(*ssa.Alloc); ok {
							for _, r2 := range *al.Referrers() {
								if ld, ok := r2.(*ssa.UnOp); ok && ld.Op == token.MUL && !web[ld] {
									web[ld] = true
									changed = true
								}
							}
						}
					}
				}
			}
			if ld, ok := v.(*ssa.UnOp); ok && ld.Op == token.MUL {
				if al, ok := ld.X.(*ssa.Alloc); ok {
					for _, r2 := range *al.Referrers() {
						if st, ok := r2.(*ssa.Store); ok && st.Addr == ssa.Value(al) {
							if _, isC := st.Val.(*ssa.Const); !isC && !web[st.Val] {
								web[st.Val] = true
								changed = true
							}
						}
					}
				}
			}
			if p, ok := v.(*ssa.Phi); ok {
				for _, e := range p.Edges {
					if _, isC := e.(*ssa.Const); isC {
						continue
					}
					if !web[e] {
						web[e] = true
						changed = true
					}
				}
			}
			if c2, ok := v.(*ssa.Call); ok {
				if b, ok := c2.Call.Value.(*ssa.Builtin); ok && b.Name() == "append" {
					if a := c2.Call.Args[0]; !web[a] {
						if _, isC := a.(*ssa.Const); !isC {
							web[a] = true
							changed = true
						}
					}
				}
			}
		}
	}
	return web
}

// lessIsElementOrder: the less closure is exactly `return s[i] < s[j]` on the sorted slice.
func lessIsElementOrder(v ssa.Value, web map[ssa.Value]bool) bool {
	mc, ok := v.(*ssa.MakeClosure)
	if !ok {
		return false
	}
	fn, ok := mc.Fn.(*ssa.Function)
	if !ok || len(fn.Blocks) != 1 || len(fn.Params) != 2 {
		return false
	}
	rt, ok := fn.Blocks[0].Instrs[len(fn.Blocks[0].Instrs)-1].(*ssa.Return)
	if !ok || len(rt.Results) != 1 {
		return false
	}
	bo, ok := rt.Results[0].(*ssa.BinOp)
	if !ok || bo.Op != token.LSS {
		return false
	}
	elem := func(x ssa.Value, p *ssa.Parameter) bool {
		u, ok := x.(*ssa.UnOp)
		if !ok {
			return false
		}
		ia, ok := u.X.(*ssa.IndexAddr)
		if !ok || ia.Index != ssa.Value(p) {
			return false
		}
		// the indexed slice is the captured one
		base := ia.X
		if ld, ok := base.(*ssa.UnOp); ok {
			base = ld.X
		}
		_, isFree := base.(*ssa.FreeVar)
		return isFree
	}
	return elem(bo.X, fn.Params[0]) && elem(bo.Y, fn.Params[1])
}

// addOrPanicSites: in Graph.AddCert each addOrPanic(e) is reached with an edge created in this call or tested absent.
func (c *Ctx) addOrPanicSites() {
	w := c.W
	fn := w.Fn("(*z/verifier.Graph).AddCert")
	if fn == nil {
		c.Undecided("R-PANIC", "verifier.Graph.AddCert", "anchor", "-", "not found")
		return
	}
	n := 0
	for _, b := range fn.Blocks {
		for _, in := range b.Instrs {
			cc := callCommon(in)
			if cc == nil || cc.StaticCallee() == nil || cc.StaticCallee().Name() != "addOrPanic" {
				continue
			}
			n++
			c.Sites++
			set, edge := cc.Args[0], cc.Args[1]
			fresh := false
			for v := range backClosure(edge, nil) {
				if al, ok := v.(*ssa.Alloc); ok && al.Heap {
					fresh = true
				}
			}
			freshSet := false
			// (the get-or-create of the set may sit in a helper: its results are followed)
			through := func(x ssa.Value) []ssa.Value {
				out := flowThrough(x)
				if cl, ok := x.(*ssa.Call); ok {
					if h := cl.Call.StaticCallee(); h != nil && InModule(h) && len(h.Blocks) > 0 && !strings.HasPrefix(h.Name(), "NewGraphEdgeSet") {
						for r := range returnClosure(h, 0) {
							out = append(out, r)
						}
					}
				}
				return out
			}
			for v := range backClosure(set, through) {
				if cl := callOf(v); cl != nil && cl.Call.StaticCallee() != nil && strings.HasPrefix(cl.Call.StaticCallee().Name(), "NewGraphEdgeSet") {
					freshSet = true
				}
			}
			if fresh || freshSet {
				c.OK("R-PANIC", "verifier.Graph.AddCert", fmt.Sprintf("addOrPanic #%d receives an edge (or a set) created in this call", n), w.InstrPos(in), Expr(edge))
				continue
			}
			e := edge
			c.Cut(CutSpec{Rule: "R-PANIC", Fn: fn, Label: fmt.Sprintf("addOrPanic #%d is reached only with an edge tested absent from the set", n), Target: isInstr(in), Cut: func(f Fact) bool {
				if f.Op != "false" && f.Op != "nil" {
					return false
				}
				cl := callOf(f.X)
				if cl == nil || cl.Call.StaticCallee() == nil {
					return false
				}
				nm := cl.Call.StaticCallee().Name()
				if !(strings.HasPrefix(nm, "Contains") || strings.HasPrefix(nm, "contains") || strings.HasPrefix(nm, "Find") || strings.HasPrefix(nm, "find")) {
					return false
				}
				for _, a := range cl.Call.Args {
					if a == e || Expr(a) == Expr(e) {
						return true
					}
				}
				return false
			}})
		}
	}
	c.Check(n >= 1, "R-PANIC", "verifier.Graph.AddCert", "addOrPanic sites enumerated", "-", fmt.Sprint(n))
}

// policyArraysLemma: parseCertificate allocates PolicyIdentifiers and CPSuri with the same length
// and JsonifyExtensions hands exactly these to CertificatePoliciesData.
func (c *Ctx) policyArraysLemma() {
	w := c.W
	fw := w.FieldWrites()
	lens := map[string][]string{}
	for _, f := range []string{"Certificate.PolicyIdentifiers", "Certificate.CPSuri"} {
		for _, wr := range fw[f] {
			if wr.Kind != "store" || strings.HasSuffix(w.RelFile(wr.Fn.Pos()), "_test.go") || FuncName(wr.Fn) != expand("z/x509.parseCertificate") {
				continue
			}
			if mk, ok := wr.Val.(*ssa.MakeSlice); ok {
				lens[f] = append(lens[f], Expr(mk.Len))
			} else {
				lens[f] = append(lens[f], "not a make: "+Expr(wr.Val))
			}
		}
	}
	a, b := lens["Certificate.PolicyIdentifiers"], lens["Certificate.CPSuri"]
	c.Check(len(a) == 1 && len(b) == 1 && a[0] == b[0] && strings.HasPrefix(a[0], "len("), "R-OWN", "x509.parseCertificate", "PolicyIdentifiers and CPSuri are allocated with the same length (one entry per policy)", "-", fmt.Sprint(a, b))
	fn := w.Fn("(*z/x509.Certificate).JsonifyExtensions")
	if fn == nil {
		c.Undecided("R-OWN", "x509.JsonifyExtensions", "anchor", "-", "not found")
		return
	}
	got := map[string]string{}
	for _, f := range []string{"CertificatePoliciesData.PolicyIdentifiers", "CertificatePoliciesData.CPSUri"} {
		for _, wr := range fw[f] {
			if wr.Fn == fn && wr.Kind == "store" {
				got[f] = Expr(wr.Val)
			}
		}
	}
	c.Check(got["CertificatePoliciesData.PolicyIdentifiers"] == "c.PolicyIdentifiers" && got["CertificatePoliciesData.CPSUri"] == "c.CPSuri", "R-OWN", "x509.JsonifyExtensions", "CertificatePoliciesData receives the certificate's PolicyIdentifiers and CPSuri", w.Pos(fn.Pos()), fmt.Sprint(got))
}
