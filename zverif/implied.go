package main

// Facts implied by the outcome of a call to an in-module helper. When a block of checks is moved into a helper
// (`if err := validate(x); err != nil { return err }`, `if !inRange(s, q) { return false }`, `return verify(...)`),
// the branch fact in the caller is only "the helper returned nil / true / false". The facts that hold on every way
// the helper can produce that outcome are implied by it; they are presented to a rule's Cut predicate with the
// helper's parameters rendered as the caller's arguments, so that rules written over canonical expressions keep
// working across the extraction. Soundness: only facts common to ALL ways of producing the outcome are used.

import (
	"go/ast"
	"go/types"
	"strings"

	"golang.org/x/tools/go/ssa"
)

// exprParamSubst renders parameters of helpers as caller expressions while implied facts are being matched.
var exprParamSubst map[*ssa.Parameter]string

// valueParamSubst: the same map on values (helper parameter -> caller argument).
var valueParamSubst map[*ssa.Parameter]ssa.Value

// deparam replaces a helper parameter by the caller's argument while implied facts are being matched.
func deparam(v ssa.Value) ssa.Value {
	for i := 0; i < 4; i++ {
		p, ok := v.(*ssa.Parameter)
		if !ok {
			return v
		}
		a, has := valueParamSubst[p]
		if !has {
			return v
		}
		v = a
	}
	return v
}

// activeCut: the (expanded) cut predicate of the search in progress, for pass-through returns.
var activeCut FP

// activeBase: the same predicate before expansion.
var activeBase FP

type way struct{ facts []Fact }

func factKey(f Fact) string {
	k := f.Op + "|" + Expr(f.X)
	if f.Y != nil {
		k += "|" + Expr(f.Y)
	}
	return k
}

var mustFactsCache = map[string][][]Fact{}
var mustFactsBusy = map[string]bool{}

// mustFacts: the ways fn can return with result idx having the outcome ("nil", "true", "false"), each as the
// list of facts that hold on it. An outcome implies a property if every way carries a fact with that property.
func mustFacts(fn *ssa.Function, idx int, outcome string) [][]Fact {
	key := FuncName(fn) + "|" + outcome + "|" + string(rune('0'+idx))
	if r, ok := mustFactsCache[key]; ok {
		return r
	}
	if mustFactsBusy[key] {
		return nil
	}
	mustFactsBusy[key] = true
	defer delete(mustFactsBusy, key)
	var ways [][]Fact
	for _, b := range fn.Blocks {
		rt, ok := b.Instrs[len(b.Instrs)-1].(*ssa.Return)
		if !ok || b == fn.Recover || idx >= len(rt.Results) {
			continue
		}
		v := unspill(rt, idx)
		type cand struct {
			val   ssa.Value
			facts []Fact
		}
		var cands []cand
		if p, ok := v.(*ssa.Phi); ok && p.Block() == b {
			for i, e := range p.Edges {
				cands = append(cands, cand{e, edgeFacts(b.Preds[i], b)})
			}
		} else {
			cands = append(cands, cand{v, domFacts(b)})
		}
		for _, cd := range cands {
			fs := cd.facts
			switch outcome {
			case "nil":
				if definitelyNonNil(cd.val) {
					continue
				}
				if !isNilConst(cd.val) {
					if anyFact(fs, func(f Fact) bool { return f.Op == "nonnil" && f.X == cd.val }) {
						continue
					}
					// a result handed through from another helper carries that helper's implied facts
					fs = append(append([]Fact{}, fs...), Fact{Op: "nil", X: cd.val})
				}
			case "true", "false":
				if k, isK := boolConst(cd.val); isK {
					if k != (outcome == "true") {
						continue
					}
				} else {
					fs = append(append([]Fact{}, fs...), condFacts(cd.val, outcome == "true", idRes)...)
				}
			}
			ways = append(ways, fs)
		}
	}
	mustFactsCache[key] = ways
	return ways
}

// callOutcome: f is a fact about the result of a call to an in-module function with a body.
func callOutcome(f Fact) (*ssa.Call, int, string) {
	if f.Y != nil {
		return nil, 0, ""
	}
	var outcome string
	switch f.Op {
	case "true", "false", "nil":
		outcome = f.Op
	default:
		return nil, 0, ""
	}
	v := stripConv(f.X)
	idx := 0
	var cl *ssa.Call
	switch x := v.(type) {
	case *ssa.Call:
		cl = x
	case *ssa.Extract:
		c2, ok := x.Tuple.(*ssa.Call)
		if !ok {
			return nil, 0, ""
		}
		cl, idx = c2, x.Index
	default:
		return nil, 0, ""
	}
	callee := cl.Call.StaticCallee()
	if callee == nil || !InModule(callee) || len(callee.Blocks) == 0 {
		return nil, 0, ""
	}
	// the outcome must fit the result type
	rs := callee.Signature.Results()
	if idx >= rs.Len() {
		return nil, 0, ""
	}
	rt := rs.At(idx).Type()
	if outcome == "nil" && !isErrorType(rt) {
		return nil, 0, ""
	}
	if outcome != "nil" {
		if b, ok := rt.Underlying().(*types.Basic); !ok || b.Kind() != types.Bool {
			return nil, 0, ""
		}
	}
	return cl, idx, outcome
}

var expandDepth int

// expandFP: cut accepts the fact itself or a fact implied by it through a helper's outcome.
func expandFP(cut FP) FP { return expandFP2(cut, true) }

// expandFP2 with direct=false accepts only facts implied through a helper, not the fact itself.
func expandFP2(cut FP, direct bool) FP {
	if cut == nil {
		return nil
	}
	var self FP
	first := true
	self = func(f Fact) bool {
		top := first
		first = false
		defer func() {
			if top {
				first = true
			}
		}()
		if (direct || !top) && cut(f) {
			return true
		}
		cl, idx, outcome := callOutcome(f)
		if cl == nil || expandDepth >= 3 {
			return false
		}
		callee := cl.Call.StaticCallee()
		ways := mustFacts(callee, idx, outcome)
		if len(ways) == 0 {
			return false
		}
		// render the callee's parameters as the caller's arguments (themselves rendered under the current map)
		saved, savedV := exprParamSubst, valueParamSubst
		next := map[*ssa.Parameter]string{}
		nextV := map[*ssa.Parameter]ssa.Value{}
		for k, v := range saved {
			next[k] = v
		}
		for k, v := range savedV {
			nextV[k] = v
		}
		for i, p := range callee.Params {
			if i < len(cl.Call.Args) {
				next[p] = Expr(cl.Call.Args[i])
				nextV[p] = deparam(cl.Call.Args[i])
			}
		}
		exprParamSubst, valueParamSubst = next, nextV
		expandDepth++
		ok := true
		for _, way := range ways {
			hit := false
			for _, g := range way {
				if self(g) {
					hit = true
					break
				}
			}
			if !hit {
				ok = false
				break
			}
		}
		expandDepth--
		exprParamSubst, valueParamSubst = saved, savedV
		return ok
	}
	return self
}

// passThroughCut: a return that hands on the result of a helper is a success / true return only if the helper's
// outcome is; if that outcome implies a fact the active cut accepts, the return is behind the cut.
func passThroughCut(v ssa.Value, outcome string, guard FP) bool {
	if staticCount {
		return false
	}
	g := guard
	if g == nil {
		g = activeBase
	}
	if g == nil {
		return false
	}
	g = expandFP2(g, false)
	f := Fact{Op: outcome, X: v}
	if cl, _, _ := callOutcome(f); cl == nil {
		return false
	}
	return g(f)
}

// okOutcome: the result index and outcome that mean "the helper accepted" (nil error, or true for a bool result).
func okOutcome(fn *ssa.Function) (int, string) {
	rs := fn.Signature.Results()
	for i := rs.Len() - 1; i >= 0; i-- {
		if isErrorType(rs.At(i).Type()) {
			return i, "nil"
		}
	}
	if rs.Len() > 0 {
		if b, ok := rs.At(rs.Len() - 1).Type().Underlying().(*types.Basic); ok && b.Kind() == types.Bool {
			return rs.Len() - 1, "true"
		}
	}
	return -1, ""
}

// cutThroughHelper: the branch structure a rule is anchored on was moved into a helper the function calls. The rule
// holds if (a) it holds inside the helper with "the helper accepts" as the target (parameters read as the caller's
// arguments) and (b) the function reaches its own targets only past the helper having accepted. Only for rules whose
// targets are returns of the function.
func cutThroughHelper(sp CutSpec) (string, bool) {
	fn := sp.Fn
	if sp.Target == nil {
		return "", false
	}
	nt := 0
	for _, b := range fn.Blocks {
		for _, in := range b.Instrs {
			if sp.Target(in, idRes) {
				nt++
			}
		}
	}
	if nt == 0 {
		return "", false
	}
	for _, b := range fn.Blocks {
		for _, in := range b.Instrs {
			cl, ok := in.(*ssa.Call)
			if !ok {
				continue
			}
			h := cl.Call.StaticCallee()
			if h == nil || !InModule(h) || len(h.Blocks) == 0 || h == fn {
				continue
			}
			idx, outcome := okOutcome(h)
			if idx < 0 {
				continue
			}
			// a bool helper may report acceptance (isValid) or refusal (hasInvalid): both readings are tried
			outcomes := []string{outcome}
			if outcome == "true" {
				outcomes = append(outcomes, "false")
			}
			for _, oc := range outcomes {
				if cutThroughHelperAt(sp, cl, h, idx, oc) {
					return short(FuncName(h)), true
				}
			}
		}
	}
	return "", false
}

func cutThroughHelperAt(sp CutSpec, cl *ssa.Call, h *ssa.Function, idx int, outcome string) bool {
	fn := sp.Fn
	// (a) inside the helper
	saved, savedV := exprParamSubst, valueParamSubst
	next, nextV := map[*ssa.Parameter]string{}, map[*ssa.Parameter]ssa.Value{}
	for i, p := range h.Params {
		if i < len(cl.Call.Args) {
			next[p] = Expr(cl.Call.Args[i])
			nextV[p] = cl.Call.Args[i]
		}
	}
	exprParamSubst, valueParamSubst = next, nextV
	sp2 := sp
	sp2.Fn = h
	sp2.StartAfter, sp2.StartEdges, sp2.Track = nil, nil, nil
	sp2.Target = acceptTarget(idx, outcome)
	r2 := RunCut(&sp2)
	exprParamSubst, valueParamSubst = saved, savedV
	min := sp.MinTargets
	if min <= 0 {
		min = 1
	}
	if r2.Capped || r2.Violated || r2.Targets < min || (sp.Start != nil && r2.Starts == 0) {
		return false
	}
	// (b) in the function: its targets lie behind the helper's acceptance
	var res ssa.Value = cl
	if h.Signature.Results().Len() > 1 {
		res = nil
		for _, r := range *cl.Referrers() {
			if ex, ok := r.(*ssa.Extract); ok && ex.Index == idx {
				res = ex
			}
		}
	}
	if res == nil {
		return false
	}
	want := res
	sp3 := CutSpec{Fn: fn, Target: sp.Target, MinTargets: sp.MinTargets, Cut: func(f Fact) bool {
		return f.Op == outcome && f.Y == nil && (f.X == want || stripConv(f.X) == want)
	}}
	r3 := RunCut(&sp3)
	return !r3.Capped && !r3.Violated && r3.Targets > 0
}

// provWrite: a store into a field of an object built by fn, made by fn itself or by a helper fn hands the object to;
// ValExpr is the stored value in fn's terms (a helper's parameters rendered as the arguments of the call).
type provWrite struct {
	In      ssa.Instruction
	Fn      *ssa.Function
	Val     ssa.Value
	ValExpr string
}

// fieldWritesOn: stores to fields "T.f" (T = typePrefix) of the object obj of fn, through one level of helpers.
func (w *World) fieldWritesOn(fn *ssa.Function, obj ssa.Value, typePrefix string) map[string][]provWrite {
	out := map[string][]provWrite{}
	// helpers that receive obj
	type bind struct {
		call *ssa.Call
		idx  int
	}
	binds := map[*ssa.Function][]bind{}
	for _, b := range fn.Blocks {
		for _, in := range b.Instrs {
			cl, ok := in.(*ssa.Call)
			if !ok {
				continue
			}
			h := cl.Call.StaticCallee()
			if h == nil || !InModule(h) || len(h.Blocks) == 0 || h == fn {
				continue
			}
			for i, a := range cl.Call.Args {
				if a == obj && i < len(h.Params) {
					binds[h] = append(binds[h], bind{cl, i})
				}
			}
		}
	}
	for f, ws := range w.FieldWrites() {
		if !strings.HasPrefix(f, typePrefix+".") {
			continue
		}
		name := strings.TrimPrefix(f, typePrefix+".")
		for _, wr := range ws {
			if wr.Fn == fn && wr.Base == obj {
				out[name] = append(out[name], provWrite{wr.In, wr.Fn, wr.Val, Expr(wr.Val)})
				continue
			}
			for _, bd := range binds[wr.Fn] {
				if p, ok := wr.Base.(*ssa.Parameter); ok && wr.Fn.Params[bd.idx] == p {
					saved := exprParamSubst
					next := map[*ssa.Parameter]string{}
					for i, q := range wr.Fn.Params {
						if i < len(bd.call.Call.Args) {
							next[q] = Expr(bd.call.Call.Args[i])
						}
					}
					exprParamSubst = next
					out[name] = append(out[name], provWrite{wr.In, wr.Fn, wr.Val, Expr(wr.Val)})
					exprParamSubst = saved
				}
			}
		}
	}
	return out
}

// forEachInstrWithHelpers visits the instructions of fn and, one level down, those of every in-module helper it calls
// directly; while a helper's body is visited its parameters render as the arguments of that call.
func forEachInstrWithHelpers(fn *ssa.Function, visit func(in ssa.Instruction)) {
	for _, b := range fn.Blocks {
		for _, in := range b.Instrs {
			visit(in)
			cl, ok := in.(*ssa.Call)
			if !ok {
				continue
			}
			h := cl.Call.StaticCallee()
			if h == nil || !InModule(h) || len(h.Blocks) == 0 || h == fn {
				continue
			}
			saved, savedV := exprParamSubst, valueParamSubst
			next, nextV := map[*ssa.Parameter]string{}, map[*ssa.Parameter]ssa.Value{}
			for i, p := range h.Params {
				if i < len(cl.Call.Args) {
					next[p] = Expr(cl.Call.Args[i])
					nextV[p] = cl.Call.Args[i]
				}
			}
			exprParamSubst, valueParamSubst = next, nextV
			for _, b2 := range h.Blocks {
				for _, i2 := range b2.Instrs {
					visit(i2)
				}
			}
			exprParamSubst, valueParamSubst = saved, savedV
		}
	}
}

var staticCallersCache map[*ssa.Function][]*ssa.Call

// staticCallers: the static call sites of f in the module.
func (w *World) staticCallers(f *ssa.Function) []*ssa.Call {
	if staticCallersCache == nil {
		staticCallersCache = map[*ssa.Function][]*ssa.Call{}
		for fn := range w.AllFuncs() {
			if fn.Blocks == nil || !InModule(fn) {
				continue
			}
			for _, b := range fn.Blocks {
				for _, in := range b.Instrs {
					if cl, ok := in.(*ssa.Call); ok {
						if g := cl.Call.StaticCallee(); g != nil && InModule(g) {
							staticCallersCache[g] = append(staticCallersCache[g], cl)
						}
					}
				}
			}
		}
	}
	return staticCallersCache[f]
}

// inCallerContext runs body with the parameters of fn standing for the arguments of its call site when fn is an
// unexported function with exactly one static call site (a block that was moved out of its only user).
func (w *World) inCallerContext(fn *ssa.Function, body func()) {
	cs := w.staticCallers(fn)
	if len(cs) != 1 || ast.IsExported(fn.Name()) || cs[0].Parent() == fn {
		body()
		return
	}
	cl := cs[0]
	saved, savedV := exprParamSubst, valueParamSubst
	next, nextV := map[*ssa.Parameter]string{}, map[*ssa.Parameter]ssa.Value{}
	for i, p := range fn.Params {
		if i < len(cl.Call.Args) {
			next[p] = Expr(cl.Call.Args[i])
			nextV[p] = cl.Call.Args[i]
		}
	}
	exprParamSubst, valueParamSubst = next, nextV
	body()
	exprParamSubst, valueParamSubst = saved, savedV
}

// familyOf: fn and the unexported in-module functions it calls directly that have no other caller (blocks moved out
// of fn); rules that look for a construct "in fn" look in the family.
func (w *World) familyOf(fn *ssa.Function) []*ssa.Function {
	out := []*ssa.Function{fn}
	seen := map[*ssa.Function]bool{fn: true}
	for _, b := range fn.Blocks {
		for _, in := range b.Instrs {
			cl, ok := in.(*ssa.Call)
			if !ok {
				continue
			}
			h := cl.Call.StaticCallee()
			if h == nil || seen[h] || !InModule(h) || len(h.Blocks) == 0 || ast.IsExported(h.Name()) || len(w.staticCallers(h)) != 1 {
				continue
			}
			seen[h] = true
			out = append(out, h)
		}
	}
	return out
}

// callsInto: in is a call whose (unexported, single-caller) callee contains an instruction satisfying p.
func (w *World) callsInto(in ssa.Instruction, p func(ssa.Instruction) bool) bool {
	cl, ok := in.(*ssa.Call)
	if !ok {
		return false
	}
	h := cl.Call.StaticCallee()
	if h == nil || !InModule(h) || len(h.Blocks) == 0 || ast.IsExported(h.Name()) || len(w.staticCallers(h)) != 1 {
		return false
	}
	for _, b := range h.Blocks {
		for _, i2 := range b.Instrs {
			if p(i2) {
				return true
			}
		}
	}
	return false
}

// rejectsThroughHelper: the rejecting condition conj is tested in a single-use helper of fn. It still rejects if
// (a) from the helper's edge carrying it (helper parameters read as the call's arguments) no accepting return of the
// helper is reachable, and (b) from the edges of fn on which the helper has refused no success exit of fn is reachable.
func (c *Ctx) rejectsThroughHelper(fn *ssa.Function, succ func(*ssa.Function) func(ssa.Instruction, resolver) bool, conj []FP) (string, bool) {
	w := c.W
	for _, h := range w.familyOf(fn)[1:] {
		idx, outcome := okOutcome(h)
		if idx < 0 {
			continue
		}
		cs := w.staticCallers(h)
		if len(cs) != 1 {
			continue
		}
		// a bool helper may report acceptance (isValid) or refusal (hasInvalid): both readings are tried
		accepts := []string{outcome}
		if outcome == "true" {
			accepts = append(accepts, "false")
		}
		for _, acc := range accepts {
			if c.rejectsVia(fn, h, cs[0], idx, acc, succ, conj) {
				return short(FuncName(h)), true
			}
		}
	}
	return "", false
}

// rejectsVia: (a) inside helper h, wherever the rejecting condition is established the helper cannot report acceptance
// (acc: "nil", "true" or "false" on result idx); (b) in fn, the edges on which the helper's result is a refusal never
// reach a success target.
func (c *Ctx) rejectsVia(fn, h *ssa.Function, cl *ssa.Call, idx int, acc string, succ func(*ssa.Function) func(ssa.Instruction, resolver) bool, conj []FP) bool {
	w := c.W
	okA := false
	w.inCallerContext(h, func() {
		others := func(b *ssa.BasicBlock) bool {
			// the other conjuncts may hold in the helper or already at the call
			dom := append(domFacts(b), domFacts(cl.Block())...)
			for _, p := range conj[:len(conj)-1] {
				if !anyFact(dom, p) {
					return false
				}
			}
			return true
		}
		var edges []EdgeRef
		for _, b := range h.Blocks {
			ifi, ok := b.Instrs[len(b.Instrs)-1].(*ssa.If)
			if !ok {
				continue
			}
			for si := 0; si < 2; si++ {
				if anyFact(condFacts(ifi.Cond, si == 0, idRes), conj[len(conj)-1]) && others(b) {
					edges = append(edges, EdgeRef{B: b, Succ: si, Known: domFacts(b)})
				}
			}
		}
		// the helper may return the value of the test itself (`return a || b`): the result is a refusal exactly when
		// the condition holds
		returned := false
		if acc != "nil" {
			for _, b := range h.Blocks {
				rt, ok := b.Instrs[len(b.Instrs)-1].(*ssa.Return)
				if !ok || idx >= len(rt.Results) {
					continue
				}
				v := unspill(rt, idx)
				type src struct {
					v ssa.Value
					b *ssa.BasicBlock
				}
				var srcs []src
				var expand func(v ssa.Value, b *ssa.BasicBlock, d int)
				expand = func(v ssa.Value, b *ssa.BasicBlock, d int) {
					if phi, ok := v.(*ssa.Phi); ok && d < 5 { // `a || b && c` nests the phis
						for i, e := range phi.Edges {
							expand(e, phi.Block().Preds[i], d+1)
						}
						return
					}
					srcs = append(srcs, src{v, b})
				}
				expand(v, b, 0)
				for _, s := range srcs {
					if _, isC := s.v.(*ssa.Const); isC {
						continue
					}
					// the condition holds <=> the value is the refusal outcome
					if anyFact(condFacts(s.v, acc == "false", idRes), conj[len(conj)-1]) && others(s.b) {
						returned = true
					}
				}
			}
		}
		if len(edges) == 0 {
			okA = returned
			return
		}
		r := RunCut(&CutSpec{Fn: h, StartEdges: edges, Target: acceptTarget(idx, acc)})
		okA = !r.Capped && !r.Violated
	})
	if !okA {
		return false
	}
	return refusedNeverSucceeds(fn, h, cl, idx, acc, succ(fn))
}

// acceptTarget: the returns of a helper that report the outcome acc on result idx.
func acceptTarget(idx int, acc string) func(ssa.Instruction, resolver) bool {
	switch acc {
	case "nil":
		return SuccessReturn(idx, nil)
	case "true":
		return TrueReturn(idx, nil)
	}
	return FalseReturn(idx)
}

// helperPolarity: which outcome of helper h (called at cl in fn) fn treats as acceptance: the one whose opposite
// never reaches a success target of fn. "" if neither reading holds.
func helperPolarity(fn, h *ssa.Function, cl *ssa.Call, succ func(ssa.Instruction, resolver) bool) (int, string) {
	idx, outcome := okOutcome(h)
	if idx < 0 {
		return -1, ""
	}
	accepts := []string{outcome}
	if outcome == "true" {
		accepts = append(accepts, "false")
	}
	for _, acc := range accepts {
		if refusedNeverSucceeds(fn, h, cl, idx, acc, succ) {
			return idx, acc
		}
	}
	return -1, ""
}

// refusedNeverSucceeds: in fn, the edges on which the result idx of the call cl to helper h is not the outcome acc exist
// and never reach a success target.
func refusedNeverSucceeds(fn, h *ssa.Function, cl *ssa.Call, idx int, acc string, succ func(ssa.Instruction, resolver) bool) bool {
	var res ssa.Value = cl
	if h.Signature.Results().Len() > 1 {
		res = nil
		for _, r := range *cl.Referrers() {
			if ex, ok := r.(*ssa.Extract); ok && ex.Index == idx {
				res = ex
			}
		}
	}
	if res == nil {
		return false
	}
	refused := map[string]string{"nil": "nonnil", "true": "false", "false": "true"}[acc]
	var edges []EdgeRef
	for _, b := range fn.Blocks {
		ifi, ok := b.Instrs[len(b.Instrs)-1].(*ssa.If)
		if !ok {
			continue
		}
		for si := 0; si < 2; si++ {
			if anyFact(condFacts(ifi.Cond, si == 0, idRes), func(f Fact) bool { return f.Op == refused && f.Y == nil && stripConv(f.X) == res }) {
				edges = append(edges, EdgeRef{B: b, Succ: si, Known: domFacts(b)})
			}
		}
	}
	if len(edges) == 0 {
		return false
	}
	r := RunCut(&CutSpec{Fn: fn, StartEdges: edges, Target: succ})
	return !r.Capped && !r.Violated
}

// withHelperContexts runs body on fn and, one level down, on every in-module helper fn calls directly; while a helper is
// visited its parameters stand for (and render as) the arguments of that call.
func withHelperContexts(fn *ssa.Function, body func(h *ssa.Function, cl *ssa.Call)) {
	body(fn, nil)
	seen := map[*ssa.Call]bool{}
	for _, b := range fn.Blocks {
		for _, in := range b.Instrs {
			cl, ok := in.(*ssa.Call)
			if !ok || seen[cl] {
				continue
			}
			seen[cl] = true
			h := cl.Call.StaticCallee()
			if h == nil || !InModule(h) || len(h.Blocks) == 0 || h == fn {
				continue
			}
			saved, savedV := exprParamSubst, valueParamSubst
			next, nextV := map[*ssa.Parameter]string{}, map[*ssa.Parameter]ssa.Value{}
			for i, p := range h.Params {
				if i < len(cl.Call.Args) {
					next[p] = Expr(cl.Call.Args[i])
					nextV[p] = cl.Call.Args[i]
				}
			}
			exprParamSubst, valueParamSubst = next, nextV
			body(h, cl)
			exprParamSubst, valueParamSubst = saved, savedV
		}
	}
}
