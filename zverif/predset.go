package main

// Accept sets of byte predicates (R-CHARSET). A function whose result depends on one byte-sized
// parameter only through comparisons with constants partitions the 256 byte values into finitely
// many classes; the analysis pushes the set of values that can reach each CFG edge forward through
// the (acyclic) flow graph, splitting it at every comparison, and collects the values for which a
// true result is returned. The domain is the powerset of byte values, so the result is exact. Other
// parameters are bound to the constants of one call site (one instance per call site).

import (
	"fmt"
	"go/constant"
	"go/token"
	"go/types"
	"sort"
	"strings"

	"golang.org/x/tools/go/ssa"
)

type byteSet [256]bool

func (s byteSet) subsetOf(o byteSet) (bool, []int) {
	var miss []int
	for i := range s {
		if s[i] && !o[i] {
			miss = append(miss, i)
		}
	}
	return len(miss) == 0, miss
}

func (s byteSet) String() string {
	var parts []string
	for i := 0; i < 256; {
		if !s[i] {
			i++
			continue
		}
		j := i
		for j+1 < 256 && s[j+1] {
			j++
		}
		show := func(k int) string {
			if k > 32 && k < 127 {
				return fmt.Sprintf("%q", rune(k))
			}
			return fmt.Sprintf("0x%02x", k)
		}
		if j == i {
			parts = append(parts, show(i))
		} else {
			parts = append(parts, show(i)+"-"+show(j))
		}
		i = j + 1
	}
	return "{" + strings.Join(parts, " ") + "}"
}

type predEval struct {
	fn    *ssa.Function
	v     *ssa.Parameter
	bind  map[*ssa.Parameter]constant.Value
	edge  map[[2]int]byteSet // (pred block, succ block) -> values taking that edge
	in    map[int]byteSet
	fail  string
	depth int
}

func (pe *predEval) isVar(x ssa.Value) bool {
	for {
		switch t := x.(type) {
		case *ssa.Parameter:
			return t == pe.v
		case *ssa.Convert:
			// widening of the byte to a larger integer keeps its value
			if b, ok := t.Type().Underlying().(*types.Basic); ok && b.Info()&types.IsInteger != 0 {
				x = t.X
				continue
			}
			return false
		case *ssa.ChangeType:
			x = t.X
			continue
		}
		return false
	}
}

func (pe *predEval) constOf(x ssa.Value) (constant.Value, bool) {
	switch t := x.(type) {
	case *ssa.Const:
		if t.Value == nil {
			return nil, false
		}
		return t.Value, true
	case *ssa.Parameter:
		c, ok := pe.bind[t]
		return c, ok
	case *ssa.ChangeType:
		return pe.constOf(t.X)
	case *ssa.Convert:
		return pe.constOf(t.X)
	}
	return nil, false
}

func full() byteSet {
	var s byteSet
	for i := range s {
		s[i] = true
	}
	return s
}

// truth: the values (among those reaching the definition) for which boolean x is true.
func (pe *predEval) truth(x ssa.Value) byteSet {
	var none byteSet
	pe.depth++
	defer func() { pe.depth-- }()
	if pe.depth > 64 {
		pe.fail = "expression too deep"
		return none
	}
	if c, ok := pe.constOf(x); ok && c.Kind() == constant.Bool {
		if constant.BoolVal(c) {
			return full()
		}
		return none
	}
	switch t := x.(type) {
	case *ssa.ChangeType:
		return pe.truth(t.X)
	case *ssa.UnOp:
		if t.Op == token.NOT {
			s := pe.truth(t.X)
			for i := range s {
				s[i] = !s[i]
			}
			return s
		}
	case *ssa.BinOp:
		cmp := func(a, b int64) bool {
			switch t.Op {
			case token.EQL:
				return a == b
			case token.NEQ:
				return a != b
			case token.LSS:
				return a < b
			case token.LEQ:
				return a <= b
			case token.GTR:
				return a > b
			case token.GEQ:
				return a >= b
			}
			pe.fail = "operator " + t.Op.String()
			return false
		}
		cx, okx := pe.constOf(t.X)
		cy, oky := pe.constOf(t.Y)
		var s byteSet
		switch {
		case pe.isVar(t.X) && oky && cy.Kind() == constant.Int:
			k, _ := constant.Int64Val(cy)
			for i := range s {
				s[i] = cmp(int64(i), k)
			}
			return s
		case pe.isVar(t.Y) && okx && cx.Kind() == constant.Int:
			k, _ := constant.Int64Val(cx)
			for i := range s {
				s[i] = cmp(k, int64(i))
			}
			return s
		case okx && oky && cx.Kind() == constant.Int && cy.Kind() == constant.Int:
			a, _ := constant.Int64Val(cx)
			b, _ := constant.Int64Val(cy)
			if cmp(a, b) {
				return full()
			}
			return none
		case okx && oky && cx.Kind() == constant.Bool && cy.Kind() == constant.Bool && (t.Op == token.EQL || t.Op == token.NEQ):
			if (constant.BoolVal(cx) == constant.BoolVal(cy)) == (t.Op == token.EQL) {
				return full()
			}
			return none
		}
	case *ssa.Phi:
		var s byteSet
		for i, e := range t.Edges {
			p := t.Block().Preds[i]
			es := pe.edge[[2]int{p.Index, t.Block().Index}]
			ts := pe.truth(e)
			for k := range s {
				if es[k] && ts[k] {
					s[k] = true
				}
			}
		}
		return s
	}
	if pe.fail == "" {
		pe.fail = fmt.Sprintf("value %s (%T) is not a comparison of the byte with a constant", Expr(x), x)
	}
	return none
}

// acceptSet: the byte values of parameter varIdx for which fn returns true, with the other parameters
// bound to consts (by index). ok=false with a reason when fn is outside the fragment.
func acceptSet(fn *ssa.Function, varIdx int, consts map[int]constant.Value) (byteSet, string) {
	var none byteSet
	if fn == nil || len(fn.Blocks) == 0 || varIdx >= len(fn.Params) {
		return none, "no body"
	}
	pe := &predEval{fn: fn, v: fn.Params[varIdx], bind: map[*ssa.Parameter]constant.Value{}, edge: map[[2]int]byteSet{}, in: map[int]byteSet{}}
	for i, c := range consts {
		if i < len(fn.Params) {
			pe.bind[fn.Params[i]] = c
		}
	}
	// topological order; a cycle is outside the fragment
	order, ok := topoBlocks(fn)
	if !ok {
		return none, "the flow graph has a loop"
	}
	pe.in[0] = full()
	var acc byteSet
	for _, b := range order {
		if b.Index != 0 {
			var s byteSet
			for _, p := range b.Preds {
				es := pe.edge[[2]int{p.Index, b.Index}]
				for k := range s {
					s[k] = s[k] || es[k]
				}
			}
			pe.in[b.Index] = s
		}
		in := pe.in[b.Index]
		for _, ins := range b.Instrs {
			switch ins.(type) {
			case *ssa.BinOp, *ssa.UnOp, *ssa.Phi, *ssa.ChangeType, *ssa.Convert, *ssa.DebugRef, *ssa.If, *ssa.Jump, *ssa.Return:
			default:
				return none, fmt.Sprintf("instruction %T outside the comparison fragment", ins)
			}
		}
		switch last := b.Instrs[len(b.Instrs)-1].(type) {
		case *ssa.If:
			ts := pe.truth(last.Cond)
			var t, f byteSet
			for k := range in {
				t[k] = in[k] && ts[k]
				f[k] = in[k] && !ts[k]
			}
			// both successors may be the same block
			for si, set := range []byteSet{t, f} {
				key := [2]int{b.Index, b.Succs[si].Index}
				old := pe.edge[key]
				for k := range set {
					old[k] = old[k] || set[k]
				}
				pe.edge[key] = old
			}
		case *ssa.Jump:
			pe.edge[[2]int{b.Index, b.Succs[0].Index}] = in
		case *ssa.Return:
			if len(last.Results) != 1 {
				return none, "not a single boolean result"
			}
			ts := pe.truth(last.Results[0])
			for k := range in {
				if in[k] && ts[k] {
					acc[k] = true
				}
			}
		default:
			return none, fmt.Sprintf("terminator %T", last)
		}
		if pe.fail != "" {
			return none, pe.fail
		}
	}
	return acc, ""
}

func topoBlocks(fn *ssa.Function) ([]*ssa.BasicBlock, bool) {
	indeg := map[int]int{}
	for _, b := range fn.Blocks {
		for range b.Preds {
			indeg[b.Index]++
		}
	}
	var order, q []*ssa.BasicBlock
	q = append(q, fn.Blocks[0])
	if indeg[0] != 0 {
		return nil, false
	}
	for len(q) > 0 {
		sort.Slice(q, func(i, j int) bool { return q[i].Index < q[j].Index })
		b := q[0]
		q = q[1:]
		order = append(order, b)
		for _, s := range b.Succs {
			indeg[s.Index]--
			if indeg[s.Index] == 0 {
				q = append(q, s)
			}
		}
	}
	reach := 0
	for _, b := range fn.Blocks {
		if b.Index == 0 || len(b.Preds) > 0 {
			reach++
		}
	}
	return order, len(order) == reach
}

// callSiteConsts: constant arguments (by index) of a call.
func callSiteConsts(cc *ssa.CallCommon) map[int]constant.Value {
	m := map[int]constant.Value{}
	for i, a := range cc.Args {
		if k, ok := a.(*ssa.Const); ok && k.Value != nil {
			m[i] = k.Value
		}
	}
	return m
}

// printableRules: every character the string encoder classifies as PrintableString is accepted by every
// PrintableString reader in scope (the encoder's own decoder and the CRL name parser).
func printableRules(c *Ctx, readers []string) {
	w := c.W
	enc := w.Fn("z/encoding/asn1.isPrintable")
	if enc == nil {
		c.Undecided("R-CHARSET", "asn1.isPrintable", "anchor", "-", "not found")
		return
	}
	// encoder instances: calls from the marshal side
	type inst struct {
		where string
		pos   string
		set   byteSet
	}
	var encs []inst
	for _, fn := range w.FuncsInFile("encoding/asn1/marshal.go") {
		for _, b := range fn.Blocks {
			for _, in := range b.Instrs {
				cc := callCommon(in)
				if cc == nil || cc.StaticCallee() != enc {
					continue
				}
				set, why := acceptSet(enc, 0, callSiteConsts(cc))
				c.Sites++
				if why != "" {
					c.Undecided("R-CHARSET", short(FuncName(fn)), "PrintableString classification by the encoder", w.InstrPos(in), why)
					continue
				}
				encs = append(encs, inst{short(FuncName(fn)), w.InstrPos(in), set})
			}
		}
	}
	c.Check(len(encs) >= 2, "R-CHARSET", "encoding/asn1", "encoder-side PrintableString classifications found", "-", fmt.Sprint(len(encs)))
	for _, rn := range readers {
		rf := w.Fn(rn)
		if rf == nil {
			c.Undecided("R-CHARSET", rn, "anchor", "-", "not found")
			continue
		}
		// the reader: either a one-parameter predicate, or call sites of the three-parameter one in a parse function
		var rsets []inst
		if b, isB := rf.Params[0].Type().Underlying().(*types.Basic); len(rf.Params) == 1 && isB && b.Kind() == types.Uint8 {
			set, why := acceptSet(rf, 0, nil)
			if why != "" {
				c.Undecided("R-CHARSET", short(rn), "PrintableString character test of the reader", w.Pos(rf.Pos()), why)
				continue
			}
			rsets = append(rsets, inst{short(rn), w.Pos(rf.Pos()), set})
		} else {
			for _, b := range rf.Blocks {
				for _, in := range b.Instrs {
					cc := callCommon(in)
					if cc == nil || cc.StaticCallee() == nil || !strings.HasSuffix(FuncName(cc.StaticCallee()), ".isPrintable") {
						continue
					}
					set, why := acceptSet(cc.StaticCallee(), 0, callSiteConsts(cc))
					if why != "" {
						c.Undecided("R-CHARSET", short(rn), "PrintableString character test of the reader", w.InstrPos(in), why)
						continue
					}
					rsets = append(rsets, inst{short(rn), w.InstrPos(in), set})
				}
			}
		}
		c.Check(len(rsets) >= 1, "R-CHARSET", short(rn), "reader-side PrintableString test found", w.Pos(rf.Pos()), fmt.Sprint(len(rsets)))
		for _, r := range rsets {
			for i, e := range encs {
				ok, miss := e.set.subsetOf(r.set)
				var ms byteSet
				for _, k := range miss {
					ms[k] = true
				}
				d := "encoder " + e.set.String()
				if !ok {
					d = "emitted as PrintableString but rejected by the reader: " + ms.String()
				}
				c.Sites++
				c.Check(ok, "R-CHARSET", r.where, fmt.Sprintf("accepts every character that %s (classification #%d) emits in a PrintableString", e.where, i+1), r.pos, d)
			}
		}
	}
}

// ---------------------------------------------------------------------------------------------
// R-CURVES: in a function that chooses signing parameters by elliptic curve, every standard curve
// (P-224, P-256, P-384, P-521) is routed to an arm that does not raise an error. The curve is the
// only varying quantity: the four curves are pushed through the branch structure that follows the
// load of the key's Curve, splitting at comparisons of the curve with elliptic.Pnnn() (identity
// form) or of its Params().BitSize with constants (size form); a test the analysis cannot decide
// sends the whole set both ways. A curve that may reach the construction of an error before the
// arms join again is reported.

var stdCurves = []struct {
	ctor string
	bits int64
}{{"crypto/elliptic.P224", 224}, {"crypto/elliptic.P256", 256}, {"crypto/elliptic.P384", 384}, {"crypto/elliptic.P521", 521}}

func curveTableRule(c *Ctx, fnName, what string) {
	w := c.W
	fn := w.Fn(fnName)
	if fn == nil {
		c.Undecided("R-CURVES", short(fnName), "anchor", "-", "not found")
		return
	}
	isCurve := func(v ssa.Value) bool {
		e := Expr(v)
		return strings.HasSuffix(e, ".Curve")
	}
	isSize := func(v ssa.Value) bool {
		for {
			if cv, ok := v.(*ssa.Convert); ok {
				v = cv.X
				continue
			}
			break
		}
		e := Expr(v)
		return strings.Contains(e, ".Curve") && strings.HasSuffix(e, "BitSize")
	}
	ctorIdx := func(v ssa.Value) int {
		cl := callOf(v)
		if cl == nil {
			return -1
		}
		for i, sc := range stdCurves {
			if calleeName(&cl.Call) == sc.ctor {
				return i
			}
		}
		return -2 // some other call: no standard curve equals it
	}
	type set [4]bool
	all := set{true, true, true, true}
	// decide cond for each curve; ok=false when undecidable
	var truth func(v ssa.Value) (set, bool)
	truth = func(v ssa.Value) (set, bool) {
		var s set
		switch t := v.(type) {
		case *ssa.UnOp:
			if t.Op == token.NOT {
				x, ok := truth(t.X)
				for i := range x {
					x[i] = !x[i]
				}
				return x, ok
			}
		case *ssa.BinOp:
			if t.Op == token.EQL || t.Op == token.NEQ {
				var other ssa.Value
				if isCurve(t.X) {
					other = t.Y
				} else if isCurve(t.Y) {
					other = t.X
				}
				if other != nil {
					k := ctorIdx(other)
					if k == -1 {
						return s, false
					}
					for i := range s {
						s[i] = (i == k) == (t.Op == token.EQL)
					}
					return s, true
				}
			}
			var k *ssa.Const
			flip := false
			if isSize(t.X) {
				k, _ = t.Y.(*ssa.Const)
			} else if isSize(t.Y) {
				k, _ = t.X.(*ssa.Const)
				flip = true
			}
			if k != nil && k.Value != nil && k.Value.Kind() == constant.Int {
				kv, _ := constant.Int64Val(k.Value)
				for i, sc := range stdCurves {
					a, b := sc.bits, kv
					if flip {
						a, b = b, a
					}
					switch t.Op {
					case token.EQL:
						s[i] = a == b
					case token.NEQ:
						s[i] = a != b
					case token.LSS:
						s[i] = a < b
					case token.LEQ:
						s[i] = a <= b
					case token.GTR:
						s[i] = a > b
					case token.GEQ:
						s[i] = a >= b
					default:
						return s, false
					}
				}
				return s, true
			}
		}
		return s, false
	}
	// start: blocks that test the curve
	var start *ssa.BasicBlock
	tests := 0
	for _, b := range fn.Blocks {
		iff, ok := b.Instrs[len(b.Instrs)-1].(*ssa.If)
		if !ok {
			continue
		}
		if _, ok := truth(iff.Cond); ok {
			tests++
			if start == nil || b.Dominates(start) {
				start = b
			}
		}
	}
	c.Sites++
	if start == nil {
		c.Undecided("R-CURVES", short(fnName), "curve selection of "+what, w.Pos(fn.Pos()), "no test of the key's curve (identity or bit size) recognised")
		return
	}
	in := map[*ssa.BasicBlock]set{start: all}
	work := []*ssa.BasicBlock{start}
	push := func(b *ssa.BasicBlock, s set) {
		old := in[b]
		nw := old
		for i := range s {
			nw[i] = nw[i] || s[i]
		}
		if nw != old {
			in[b] = nw
			work = append(work, b)
		}
	}
	for len(work) > 0 {
		b := work[0]
		work = work[1:]
		s := in[b]
		switch last := b.Instrs[len(b.Instrs)-1].(type) {
		case *ssa.If:
			ts, ok := truth(last.Cond)
			if !ok {
				push(b.Succs[0], s)
				push(b.Succs[1], s)
				break
			}
			var t, f set
			for i := range s {
				t[i] = s[i] && ts[i]
				f[i] = s[i] && !ts[i]
			}
			push(b.Succs[0], t)
			push(b.Succs[1], f)
		case *ssa.Jump:
			push(b.Succs[0], s)
		}
	}
	// report: error constructions inside the split region
	bad := map[int]string{}
	for b, s := range in {
		if b == start || s == all || s == (set{}) {
			continue
		}
		for _, ins := range b.Instrs {
			cl, ok := ins.(*ssa.Call)
			if !ok || !definitelyNonNil(cl) || !isErrorType(cl.Type()) {
				continue
			}
			for i := range s {
				if s[i] {
					bad[i] = w.InstrPos(ins)
				}
			}
		}
	}
	for i, sc := range stdCurves {
		name := strings.TrimPrefix(sc.ctor, "crypto/elliptic.")
		pos, isBad := bad[i]
		if !isBad {
			pos = w.Pos(fn.Pos())
		}
		c.Check(!isBad, "R-CURVES", short(fnName), fmt.Sprintf("curve %s is routed to signing parameters, not to an error (%s)", name, what), pos, fmt.Sprintf("%d curve tests", tests))
	}
}

func isErrorType(t types.Type) bool {
	n, ok := t.(*types.Named)
	return ok && n.Obj().Pkg() == nil && n.Obj().Name() == "error"
}
