// zverif decides structural obligations of the zcrypto properties from the
// type-checked SSA form of /repo's current source. Nothing in /repo is run.
package main

import (
	"encoding/json"
	"flag"
	"fmt"
	"os"
	"path/filepath"
	"runtime/debug"
	"sort"
	"strconv"
	"time"

	"golang.org/x/tools/go/ssa"
)

type propDef struct {
	ID      string
	Explain string
	NotCov  string
	Floor   int
	Tech    string
	Run     func(c *Ctx)
}

var props = map[string]*propDef{}

func register(p *propDef) { props[p.ID] = p }

func main() {
	var (
		prop     = flag.String("property", "", "property id (C01..C35) or 'all'")
		tier     = flag.String("tier", "quick", "quick|thorough")
		repo     = flag.String("repo", "/repo", "repository root")
		verif    = flag.String("verif", "", "verif dir (default: parent of the binary's dir)")
		replay   = flag.String("replay", "", "replay file written by a failing run")
		dump     = flag.String("dump", "", "dump SSA of a function (canonical name)")
		selftest = flag.Bool("selftest", false, "run every rule on its fixtures")
		list     = flag.Bool("list", false, "list properties")
	)
	flag.Parse()
	applyRound2Texts()
	applyRound3Texts()
	applyRound4Texts()
	applyRound5Texts()
	if *verif == "" {
		exe, _ := os.Executable()
		*verif = filepath.Dir(filepath.Dir(exe))
	}
	if e := os.Getenv("VERIF_TIER"); e != "" && *tier == "" {
		*tier = e
	}
	seed := 0
	if s := os.Getenv("VERIF_SEED"); s != "" {
		seed, _ = strconv.Atoi(s)
	}
	if *list {
		var ids []string
		for id := range props {
			ids = append(ids, id)
		}
		sort.Strings(ids)
		for _, id := range ids {
			b, _ := json.Marshal(map[string]any{"id": id, "explain": props[id].Explain, "not_covered": props[id].NotCov, "technique": props[id].Tech, "floor": props[id].Floor})
			fmt.Println(string(b))
		}
		return
	}
	if *selftest {
		os.Exit(runSelftest(*verif))
	}
	if *replay != "" {
		b, err := os.ReadFile(*replay)
		if err != nil {
			fmt.Println("ERROR", err)
			os.Exit(2)
		}
		var rp struct {
			Property string `json:"property"`
			Key      string `json:"key"`
		}
		json.Unmarshal(b, &rp)
		*prop = rp.Property
		fmt.Printf("replaying property %s, obligation %s\n", rp.Property, rp.Key)
	}
	start := time.Now()
	w, err := Load(*repo, nil, nil)
	if err != nil {
		fmt.Printf("ERROR %v\n", err)
		if *prop != "" {
			fmt.Printf("VIOLATION property=%s replay=%s\n", *prop, "load-failure")
		}
		os.Exit(2)
	}
	if s := os.Getenv("ZV_SURVEY"); s != "" {
		runSurvey(w, s) // development aid: prints what a rule would cover; no verdict
		return
	}
	if *dump == "PARAMS" {
		dumpParams(w) // writes frozen_params.go in the current directory (run on the pinned tree only)
		return
	}
	if *dump != "" {
		fn := w.Fn(*dump)
		if fn == nil {
			fmt.Println("no such function; candidates:")
			for f := range w.AllFuncs() {
				if InModule(f) && len(*dump) > 2 && containsFold(FuncName(f), *dump) {
					fmt.Println("  ", short(FuncName(f)))
				}
			}
			os.Exit(2)
		}
		if os.Getenv("ZV_FACTS") != "" {
			for _, b := range fn.Blocks {
				if ifi, ok := b.Instrs[len(b.Instrs)-1].(*ssa.If); ok {
					for _, f := range condFacts(ifi.Cond, true, idRes) {
						y := ""
						if f.Y != nil {
							y = Expr(f.Y)
						}
						fmt.Printf("b%d %s: true-edge fact %s %s %s\n", b.Index, w.InstrPos(ifi), f.Op, Expr(f.X), y)
					}
				}
			}
			return
		}
		dumpFn(w, fn)
		return
	}
	ids := []string{*prop}
	if *prop == "all" {
		ids = nil
		for id := range props {
			ids = append(ids, id)
		}
		sort.Strings(ids)
	}
	rc := 0
	for _, id := range ids {
		p := props[id]
		if p == nil {
			fmt.Printf("ERROR unknown property %q\n", id)
			os.Exit(2)
		}
		r := runProp(w, p, *tier, *verif, seed, start)
		if r > rc {
			rc = r
		}
		start = time.Now()
	}
	os.Exit(rc)
}

func runProp(w *World, p *propDef, tier, verif string, seed int, start time.Time) (rc int) {
	c := &Ctx{W: w, Prop: p.ID, Tier: tier, FnsSeen: map[string]bool{}, notCov: p.NotCov, explain: p.Explain, floor: p.Floor,
		configs: []string{"linux/amd64, no build tags"}, extra: map[string]any{}}
	defer func() {
		if r := recover(); r != nil {
			// a crash of the checker is a failure of the check, never a pass
			fmt.Printf("ERROR checker panic in %s: %v\n%s\n", p.ID, r, debug.Stack())
			fmt.Printf("VIOLATION property=%s replay=checker-panic\n", p.ID)
			rc = 2
		}
	}()
	extraNonNil = nil
	nonNilSummary = map[*ssa.Function]int{}
	p.Run(c)
	if f := round5Extras[p.ID]; f != nil {
		f(c)
	}
	extraNonNil = nil
	nonNilSummary = map[*ssa.Function]int{}
	if tier == "thorough" {
		thoroughExtras(c, p)
	}
	return c.Finish(verif, start, seed)
}

func containsFold(s, sub string) bool {
	return len(sub) > 0 && (stringsIndexFold(s, sub) >= 0)
}

func stringsIndexFold(s, sub string) int {
	ls, lsub := []rune(s), []rune(sub)
	lower := func(r rune) rune {
		if r >= 'A' && r <= 'Z' {
			return r + 32
		}
		return r
	}
	for i := 0; i+len(lsub) <= len(ls); i++ {
		ok := true
		for j := range lsub {
			if lower(ls[i+j]) != lower(lsub[j]) {
				ok = false
				break
			}
		}
		if ok {
			return i
		}
	}
	return -1
}

func dumpFn(w *World, fn *ssa.Function) {
	fmt.Printf("func %s  (%s)\n", FuncName(fn), w.Pos(fn.Pos()))
	for _, b := range fn.Blocks {
		fmt.Printf("b%d: preds=%v succs=%v idom=%v  %s\n", b.Index, idxs(b.Preds), idxs(b.Succs), idomIdx(b), b.Comment)
		for _, in := range b.Instrs {
			name := ""
			if v, ok := in.(ssa.Value); ok {
				name = v.Name() + " = "
			}
			extra := ""
			if cc := callCommon(in); cc != nil {
				extra = "   ; callee=" + short(calleeName(cc))
			}
			fmt.Printf("    %-60s %s%s\n", name+in.String(), w.InstrPos(in), extra)
		}
	}
	for _, a := range fn.AnonFuncs {
		fmt.Println()
		dumpFn(w, a)
	}
}

func idxs(bs []*ssa.BasicBlock) []int {
	var out []int
	for _, b := range bs {
		out = append(out, b.Index)
	}
	return out
}

func idomIdx(b *ssa.BasicBlock) int {
	if b.Idom() == nil {
		return -1
	}
	return b.Idom().Index
}

func runSelftest(verif string) int {
	return selftest(verif)
}
