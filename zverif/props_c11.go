package main

import (
	"fmt"
	"go/token"

	"golang.org/x/tools/go/ssa"
)

const (
	fnWalkAsync = "(*z/verifier.Graph).WalkChainsAsync"
	fnWalk      = "(*z/verifier.Graph).WalkChains"
	fnWalkEdge  = "(*z/verifier.Graph).walkFromEdgeToRoot"
	fnContinue  = "(*z/verifier.Graph).continueWalking"
	fnCanAdd    = "z/verifier.canAddToChain"
	fnSKIn      = "(z/x509.CertificateChain).SubjectAndKeyInChain"
)

func init() {
	register(&propDef{
		ID: "C11",
		Explain: "R-CUT/R-PROV/R-PRE on the graph walk: a chain is sent only behind lastEdge.root and the walk does not recurse after sending; recursion is behind current!=nil, " +
			"len(soFar)<maxIntermediateCount, !SubjectAndKeyInChain(target) (or unknown target) and canAddToChain(edge.Certificate, type, soFar)==nil with the Root type chosen only under edge.root; " +
			"the recursive call extends soFar by the same edge's certificate and continues from that edge's issuer; canAddToChain's CA and path-length tests guard every nil return; " +
			"walkFromEdgeToRoot closes the channel on every exit after walking; WalkChainsAsync starts exactly one goroutine on every path and returns its channel; WalkChains drains until close.",
		NotCov: "Completeness (no permitted path is missed) and absence of duplicates are not decided; channel capacity independence is implied only by the single producer/close structure.",
		Floor:  20,
		Run:    runC11,
	})
}

func isReturn(in ssa.Instruction, _ resolver) bool { _, ok := in.(*ssa.Return); return ok }

func runC11(c *Ctx) {
	w := c.W
	c11Extras(c)
	c11Extras3(c)
	cw := w.Fn(fnContinue)
	if cw == nil {
		c.Undecided("R-CUT", fnContinue, "anchor", "-", "not found")
		return
	}
	// sends
	var sends []ssa.Instruction
	for _, b := range cw.Blocks {
		for _, in := range b.Instrs {
			if s, ok := in.(*ssa.Send); ok {
				sends = append(sends, in)
				c.Sites++
				c.Check(Param("found")(s.Chan) && Param("soFar")(s.X), "R-PROV", fnContinue, "the chain sent is soFar, on the found channel", w.InstrPos(in), Expr(s.X))
				c.Cut(CutSpec{Fn: cw, Label: "chain sent only when the last edge is a root edge", Target: isInstr(in),
					Cut: IsTrue(func(v ssa.Value) bool { return Expr(v) == "lastEdge.root" })})
			}
		}
	}
	c.Check(len(sends) == 1, "R-OWN", fnContinue, "exactly one send site", w.Pos(cw.Pos()), fmt.Sprint(len(sends)))
	recs := callsIn(cw, fnContinue)
	c.Check(len(recs) >= 1, "R-OWN", fnContinue, "recursive call present", w.Pos(cw.Pos()), fmt.Sprint(len(recs)))
	isRoot := w.IsConstNamed("z/x509", "CertificateTypeRoot")
	isInterm := w.IsConstNamed("z/x509", "CertificateTypeIntermediate")
	for _, rec := range recs {
		c.Sites++
		cc := callCommon(rec)
		// args: g, found, start, current', soFar', lastEdge'
		a := cc.Args
		edge := a[5]
		for _, s := range sends {
			c.Cut(CutSpec{Fn: cw, Label: "walk stops at the first root edge (no recursion after a send)", StartAfter: s, Target: isInstr(rec), MinTargets: 1})
		}
		c.Cut(CutSpec{Fn: cw, Label: "recursion only from a known issuer node (current != nil)", Target: isInstr(rec), Cut: NonNil(Param("current"))})
		c.Cut(CutSpec{Fn: cw, Label: "recursion only below the maximum chain length", Target: isInstr(rec),
			Cut: Cmp(LenOf(Param("soFar")), "lt", w.IsConstNamed("z/verifier", "maxIntermediateCount"))})
		target := func(v ssa.Value) bool {
			lk, ok := v.(*ssa.Lookup)
			return ok && Expr(lk.X) == "g.nodesBySubjectAndKey"
		}
		c.Cut(CutSpec{Fn: cw, Label: "recursion only if the target (subject,key) is not already in the chain", Target: isInstr(rec),
			Cut: AnyF(IsNil(target), IsFalse(func(v ssa.Value) bool {
				if !ResultOf(-1, fnSKIn)(v) {
					return false
				}
				cl := callOf(v)
				fa := loadedField(cl.Call.Args[1])
				return Param("soFar")(cl.Call.Args[0]) && fa != nil && fieldName(fa) == "GraphNode.SubjectAndKey" && target(fa.X)
			}))})
		// the target node looked up is the one whose parent set is being iterated (same map key)
		for _, b := range cw.Blocks {
			for _, in := range b.Instrs {
				if lk, ok := in.(*ssa.Lookup); ok && target(lk) {
					d := Deps(lk.Index)
					c.Check(hasAll(d, "field:GraphNode.parentsBySubjectAndKey", "param:current"), "R-PROV", fnContinue, "target node looked up by the key of the parent set being walked", w.InstrPos(in), Expr(lk.Index))
				}
			}
		}
		canAdd := func(v ssa.Value) bool {
			if !ResultOf(-1, fnCanAdd)(v) {
				return false
			}
			cl := callOf(v)
			fa := loadedField(cl.Call.Args[0])
			return fa != nil && fieldName(fa) == "GraphEdge.Certificate" && sameVal(fa.X, edge) && Param("soFar")(cl.Call.Args[2])
		}
		c.Cut(CutSpec{Fn: cw, Label: "recursion only behind canAddToChain(edge.Certificate, type, soFar) == nil", Target: isInstr(rec), Cut: IsNil(canAdd)})
		// Root type only under edge.root
		for _, ca := range callsIn(cw, fnCanAdd) {
			cac := callCommon(ca)
			tgt := func(in ssa.Instruction, res resolver) bool {
				if in != ca {
					return false
				}
				t := res(cac.Args[1])
				return !isInterm(t) // anything but the Intermediate constant needs the root flag
			}
			c.Cut(CutSpec{Fn: cw, Label: "canAddToChain is asked with a non-Intermediate type only for root edges", Target: tgt, MinTargets: -1, Track: []ssa.Value{cac.Args[1]},
				Cut: IsTrue(func(v ssa.Value) bool {
					fa := loadedField(v)
					return fa != nil && fieldName(fa) == "GraphEdge.root" && sameVal(fa.X, edge)
				})})
			ok := false
			for v := range backClosure(cac.Args[1], nil) {
				if isRoot(v) || isInterm(v) {
					ok = true
				} else if _, isPhi := v.(*ssa.Phi); !isPhi {
					ok = false
					break
				}
			}
			c.Check(ok, "R-PROV", fnContinue, "certificate type is one of the constants Intermediate/Root", w.InstrPos(ca), Expr(cac.Args[1]))
		}
		// argument provenance
		ok := Param("found")(a[1]) && Param("start")(a[2])
		if fa := loadedField(a[3]); fa == nil || fieldName(fa) != "GraphEdge.issuer" || !sameVal(fa.X, edge) {
			ok = false
		}
		if cl := callOf(a[4]); cl == nil || !nameIn(calleeName(&cl.Call), []string{fnAppendFresh}) || !Param("soFar")(cl.Call.Args[0]) {
			ok = false
		} else if fa := loadedField(cl.Call.Args[1]); fa == nil || fieldName(fa) != "GraphEdge.Certificate" || !sameVal(fa.X, edge) {
			ok = false
		}
		c.Check(ok, "R-PROV", fnContinue, "recursion continues from edge.issuer with soFar+edge.Certificate and lastEdge=edge", w.InstrPos(rec), Expr(a[3])+" ; "+Expr(a[4]))
		ed := Deps(edge)
		c.Check(hasAll(ed, "field:GraphNode.parentsBySubjectAndKey", "param:current", "field:GraphEdgeSet.edges"), "R-PROV", fnContinue, "edges followed are the current node's parent edges", w.InstrPos(rec), depList(ed))
	}

	// canAddToChain
	if ca := w.Fn(fnCanAdd); ca == nil {
		c.Undecided("R-CUT", fnCanAdd, "anchor", "-", "not found")
	} else {
		startInterm := Cmp(Param("certType"), "eq", isInterm)
		c.Cut(CutSpec{Fn: ca, Label: "intermediate: nil only if IsCA", Start: startInterm, Target: SuccessReturn(0, nil), Cut: IsTrue(LoadOfField("Certificate.IsCA"))})
		c.Cut(CutSpec{Fn: ca, Label: "intermediate: nil only if BasicConstraintsValid", Start: startInterm, Target: SuccessReturn(0, nil), Cut: IsTrue(LoadOfField("Certificate.BasicConstraintsValid"))})
		numInter := func(v ssa.Value) bool { return Expr(v) == "(len(currentChain)-1)" }
		c.Cut(CutSpec{Fn: ca, Label: "nil only if path length respected", Target: SuccessReturn(0, nil),
			Cut: AnyF(IsFalse(LoadOfField("Certificate.BasicConstraintsValid")), Cmp(LoadOfField("Certificate.MaxPathLen"), "lt", ConstInt(0)),
				Cmp(LoadOfField("Certificate.MaxPathLen"), "ge", numInter))})
		// every intermediate-typed call reaches the CA test: the test is on certType == Intermediate exactly
		n := 0
		for _, b := range ca.Blocks {
			if ifi, ok := b.Instrs[len(b.Instrs)-1].(*ssa.If); ok && anyFact(condFacts(ifi.Cond, true, idRes), startInterm) {
				n++
			}
		}
		c.Check(n >= 1, "R-CUT", fnCanAdd, "the CA test is keyed on certType == CertificateTypeIntermediate", w.Pos(ca.Pos()), fmt.Sprint(n))
	}

	// walkFromEdgeToRoot
	if wf := w.Fn(fnWalkEdge); wf == nil {
		c.Undecided("R-PRE", fnWalkEdge, "anchor", "-", "not found")
	} else {
		isClose := func(in ssa.Instruction) bool {
			cl := isBuiltinCall(in, "close")
			return cl != nil && Param("out")(cl.Call.Args[0])
		}
		c.Cut(CutSpec{Rule: "R-PRE", Fn: wf, Label: "close(out) on every exit", Target: isReturn, Barrier: isClose})
		calls := callsIn(wf, fnContinue)
		c.Check(len(calls) == 1, "R-PRE", fnWalkEdge, "one continueWalking call", w.Pos(wf.Pos()), fmt.Sprint(len(calls)))
		for _, cl := range calls {
			cc := callCommon(cl)
			a := cc.Args
			ok := Param("out")(a[1]) && Param("start")(a[2]) && Expr(a[3]) == "start.issuer" && Param("start")(a[5])
			elems := []ssa.Value{}
			if al := sliceLitOf(a[4]); al != nil {
				elems = allocElems(al)
			}
			ok = ok && len(elems) == 1 && Expr(elems[0]) == "start.Certificate"
			c.Check(ok, "R-PROV", fnWalkEdge, "walk starts at (start, start.issuer, {start.Certificate})", w.InstrPos(cl), Expr(a[3]))
			for _, b := range wf.Blocks {
				for _, in := range b.Instrs {
					if isClose(in) {
						c.Cut(CutSpec{Rule: "R-PRE", Fn: wf, Label: "nothing is walked after close(out)", StartAfter: in, Target: isInstr(cl), MinTargets: 1})
					}
				}
			}
		}
	}

	// WalkChainsAsync
	if wa := w.Fn(fnWalkAsync); wa == nil {
		c.Undecided("R-PRE", fnWalkAsync, "anchor", "-", "not found")
	} else {
		var gos []*ssa.Go
		for _, b := range wa.Blocks {
			for _, in := range b.Instrs {
				if g, ok := in.(*ssa.Go); ok {
					gos = append(gos, g)
				}
			}
		}
		c.Check(len(gos) == 1, "R-PRE", fnWalkAsync, "exactly one go statement", w.Pos(wa.Pos()), fmt.Sprint(len(gos)))
		if len(gos) == 1 {
			g := gos[0]
			c.Cut(CutSpec{Rule: "R-PRE", Fn: wa, Label: "the producer goroutine is started on every path to return", Target: isReturn, Barrier: func(in ssa.Instruction) bool { return in == g }})
			c.Cut(CutSpec{Rule: "R-PRE", Fn: wa, Label: "the producer goroutine is started at most once", StartAfter: g, Target: isInstr(g), MinTargets: 1})
			okc := nameIn(calleeName(&g.Call), []string{fnWalkEdge})
			var ch ssa.Value
			if okc {
				ch = g.Call.Args[2]
				_, isMk := ch.(*ssa.MakeChan)
				okc = isMk && Param("g")(g.Call.Args[0])
			}
			c.Check(okc, "R-PROV", fnWalkAsync, "go walkFromEdgeToRoot(start, fresh channel)", w.InstrPos(g), Expr(g.Call.Value))
			okr := true
			for v := range returnClosure(wa, 0) {
				if v != ch {
					okr = false
				}
			}
			c.Check(okr && ch != nil, "R-PROV", fnWalkAsync, "the channel returned is the one handed to the producer", w.Pos(wa.Pos()), "")
			if mk, ok := ch.(*ssa.MakeChan); ok {
				c.Check(hasAll(Deps(mk.Size), "field:WalkOptions.ChannelSize"), "R-PROV", fnWalkAsync, "channel capacity from opt.ChannelSize", w.InstrPos(mk), Expr(mk.Size))
			}
			// start edge: found edge or a fresh one carrying c
			st := g.Call.Args[1]
			ok := true
			for v := range backClosure(st, nil) {
				switch x := v.(type) {
				case *ssa.Phi:
				case *ssa.Alloc:
					ok = ok && isNewEdge(x)
				case *ssa.Call:
					ok = ok && Expr(x) == "(*verifier.Graph).FindEdge(g,c.FingerprintSHA256)"
				default:
					ok = false
				}
			}
			c.Check(ok, "R-PROV", fnWalkAsync, "walk starts at the graph's edge for c or a fresh edge", w.InstrPos(g), Expr(st))
		}
		for _, wr := range c.writesIn("z/verifier", "GraphEdge.Certificate") {
			if wr.Fn == wa {
				c.Check(Param("c")(wr.Val), "R-PROV", fnWalkAsync, "fresh start edge carries c", w.InstrPos(wr.In), Expr(wr.Val))
			}
		}
		// the fresh edge's issuer store is decided by the C10 writer obligation; repeat the cut here
		for _, wr := range c.writesIn("z/verifier", "GraphEdge.issuer") {
			if wr.Fn != wa {
				continue
			}
			e, n := wr.Base, wr.Val
			c.Cut(CutSpec{Fn: wa, Label: "start.issuer = candidate behind CheckSignatureFromKey(candidate key, c) == nil", Target: isInstr(wr.In),
				Cut: IsNil(func(v ssa.Value) bool { x, ok := sigCheckOf(v, n); return ok && certOfEdge(wa, e, x) })})
			c.Check(hasAll(Deps(n), "field:Graph.nodesBySubject", "field:Certificate.RawIssuer"), "R-PROV", fnWalkAsync, "issuer candidates drawn from nodesBySubject[c.RawIssuer]", w.InstrPos(wr.In), Expr(n))
		}
	}

	// WalkChains drains the channel
	if wc := w.Fn(fnWalk); wc == nil {
		c.Undecided("R-PRE", fnWalk, "anchor", "-", "not found")
	} else {
		var recv *ssa.UnOp
		for _, b := range wc.Blocks {
			for _, in := range b.Instrs {
				if u, ok := in.(*ssa.UnOp); ok && u.Op == token.ARROW {
					recv = u
				}
			}
		}
		ok := recv != nil && recv.CommaOk && ResultOf(-1, fnWalkAsync)(recv.X)
		c.Check(ok, "R-PRE", fnWalk, "receives from the channel returned by WalkChainsAsync", w.Pos(wc.Pos()), "")
		if ok {
			c.Cut(CutSpec{Rule: "R-PRE", Fn: wc, Label: "returns only after the channel is closed", Target: isReturn,
				Cut: IsFalse(func(v ssa.Value) bool { ex, ok := v.(*ssa.Extract); return ok && ex.Tuple == recv && ex.Index == 1 })})
			// every received chain is appended to the result
			rc := returnClosure(wc, 0)
			n := 0
			for v := range rc {
				if ap, isCall := v.(*ssa.Call); isCall && isBuiltinCall(ap, "append") != nil {
					vals, sp := appended(ap)
					if !sp && len(vals) == 1 {
						if ex, isEx := vals[0].(*ssa.Extract); isEx && ex.Tuple == recv && ex.Index == 0 {
							n++
							c.Cut(CutSpec{Rule: "R-PRE", Fn: wc, Label: "every received chain is appended before the next receive", StartAfter: recv,
								Target:  func(in ssa.Instruction, _ resolver) bool { return in == recv },
								Barrier: func(in ssa.Instruction) bool { return in == ap },
								Cut: IsFalse(func(v ssa.Value) bool { ex, ok := v.(*ssa.Extract); return ok && ex.Tuple == recv && ex.Index == 1 })})
						}
					}
				}
			}
			c.Check(n == 1, "R-PROV", fnWalk, "result collects the received chains", w.Pos(wc.Pos()), fmt.Sprint(n))
		}
	}
}
