package main

import (
	"golang.org/x/tools/go/ssa"
)

const (
	fnSendAlert       = "(*z/tls.Conn).sendAlert"
	fnSendAlertLocked = "(*z/tls.Conn).sendAlertLocked"
	fnSetErrLocked    = "(*z/tls.halfConn).setErrorLocked"
)

// alertSummary proves, as obligations of the running property, the producer
// summary "sendAlert(a) / sendAlertLocked(a) return a non-nil error unless a is
// AlertCloseNotify", and then lets the path search treat such calls with a
// constant fatal alert as definitely non-nil (`return c.sendAlert(AlertX)` is a
// failure exit).
func (c *Ctx) alertSummary() {
	w := c.W
	sel, sa, sal := w.Fn(fnSetErrLocked), w.Fn(fnSendAlert), w.Fn(fnSendAlertLocked)
	if sel == nil || sa == nil || sal == nil {
		c.Undecided("R-SUMMARY", fnSendAlert, "anchors", "-", "sendAlert/sendAlertLocked/setErrorLocked not found")
		return
	}
	// setErrorLocked: returns hc.err, which every path has just set to a non-nil wrapper or to the argument
	okRet := true
	for v := range returnClosure(sel, 0) {
		if fa := loadedField(v); fa == nil || fieldName(fa) != "halfConn.err" {
			okRet = false
		}
	}
	var stores []ssa.Instruction
	okStores := true
	for _, wr := range w.FieldWrites()["halfConn.err"] {
		if wr.Fn != sel {
			continue
		}
		stores = append(stores, wr.In)
		_, isMI := wr.Val.(*ssa.MakeInterface)
		if !isMI && !Param("err")(wr.Val) {
			okStores = false
		}
	}
	c.Check(okRet && okStores && len(stores) >= 1, "R-SUMMARY", fnSetErrLocked, "returns hc.err, which is only ever set to a fresh wrapper or to the argument", w.Pos(sel.Pos()), "")
	c.Cut(CutSpec{Rule: "R-SUMMARY", Fn: sel, Label: "hc.err is set on every path before it is returned", Target: isReturn, Barrier: func(in ssa.Instruction) bool {
		for _, s := range stores {
			if s == in {
				return true
			}
		}
		return false
	}})
	setNonNil := func(cl *ssa.Call) bool {
		return nameIn(calleeName(&cl.Call), []string{fnSetErrLocked}) && len(cl.Call.Args) == 2 && definitelyNonNil(cl.Call.Args[1])
	}
	old := extraNonNil
	extraNonNil = setNonNil
	// sendAlertLocked: nil only for close_notify
	closeNotify := w.IsConstNamed("z/tls", "AlertCloseNotify")
	c.Cut(CutSpec{Rule: "R-SUMMARY", Fn: sal, Label: "sendAlertLocked returns nil only for AlertCloseNotify", Target: SuccessReturn(0, nil), Cut: Cmp(Param("err"), "eq", closeNotify)})
	// sendAlert: passes its argument through
	okPass := false
	for v := range returnClosure(sa, 0) {
		if cl := callOf(v); cl != nil && nameIn(calleeName(&cl.Call), []string{fnSendAlertLocked}) && Param("err")(cl.Call.Args[1]) {
			okPass = true
		}
	}
	c.Check(okPass, "R-SUMMARY", fnSendAlert, "sendAlert returns sendAlertLocked(err)", w.Pos(sa.Pos()), "")
	_ = old
	extraNonNil = func(cl *ssa.Call) bool {
		if setNonNil(cl) {
			return true
		}
		if !nameIn(calleeName(&cl.Call), []string{fnSendAlert, fnSendAlertLocked}) || len(cl.Call.Args) != 2 {
			return false
		}
		k, isC := cl.Call.Args[1].(*ssa.Const)
		return isC && !closeNotify(k)
	}
}
