package main

import (
	"golang.org/x/tools/go/ssa"
)

const (
	fnSendAlert       = "(*z/tls.Conn).sendAlert"
	fnSendAlertLocked = "(*z/tls.Conn).sendAlertLocked"
	fnSetErrLocked    = "(*z/tls.halfConn).setErrorLocked"
)

// alertSummary proves, as obligations of the running property, the producer
// summary "sendAlert(a) / sendAlertLocked(a) return a non-nil error unless a is
// AlertCloseNotify", and then lets the path search treat such calls with a
// constant fatal alert as definitely non-nil (`return c.sendAlert(AlertX)` is a
// failure exit).
func (c *Ctx) alertSummary() {
	w := c.W
	sel, sa, sal := w.Fn(fnSetErrLocked), w.Fn(fnSendAlert), w.Fn(fnSendAlertLocked)
	if sel == nil || sa == nil || sal == nil {
		c.Undecided("R-SUMMARY", fnSendAlert, "anchors", "-", "sendAlert/sendAlertLocked/setErrorLocked not found")
		return
	}
	// setErrorLocked: returns hc.err, which every path has just set to a non-nil wrapper or to the argument
	okRet := true
	for v := range returnClosure(sel, 0) {
		if fa := loadedField(v); fa == nil || fieldName(fa) != "halfConn.err" {
			okRet = false
		}
	}
	var stores []ssa.Instruction
	okStores := true
	for _, wr := range w.FieldWrites()["halfConn.err"] {
		if wr.Fn != sel {
			continue
		}
		stores = append(stores, wr.In)
		_, isMI := wr.Val.(*ssa.MakeInterface)
		if !isMI && !Param("err")(wr.Val) {
			okStores = false
		}
	}
	c.Check(okRet && okStores && len(stores) >= 1, "R-SUMMARY", fnSetErrLocked, "returns hc.err, which is only ever set to a fresh wrapper or to the argument", w.Pos(sel.Pos()), "")
	c.Cut(CutSpec{Rule: "R-SUMMARY", Fn: sel, Label: "hc.err is set on every path before it is returned", Target: isReturn, Barrier: func(in ssa.Instruction) bool {
		for _, s := range stores {
			if s == in {
				return true
			}
		}
		return false
	}})
	setNonNil := func(cl *ssa.Call) bool {
		return nameIn(calleeName(&cl.Call), []string{fnSetErrLocked}) && len(cl.Call.Args) == 2 && definitelyNonNil(cl.Call.Args[1])
	}
	old := extraNonNil
	extraNonNil = setNonNil
	// sendAlertLocked: nil only for close_notify
	closeNotify := w.IsConstNamed("z/tls", "AlertCloseNotify")
	c.Cut(CutSpec{Rule: "R-SUMMARY", Fn: sal, Label: "sendAlertLocked returns nil only for AlertCloseNotify", Target: SuccessReturn(0, nil), Cut: Cmp(Param("err"), "eq", closeNotify)})
	// sendAlert: passes its argument through
	okPass := false
	for v := range returnClosure(sa, 0) {
		if cl := callOf(v); cl != nil && nameIn(calleeName(&cl.Call), []string{fnSendAlertLocked}) && Param("err")(cl.Call.Args[1]) {
			okPass = true
		}
	}
	c.Check(okPass, "R-SUMMARY", fnSendAlert, "sendAlert returns sendAlertLocked(err)", w.Pos(sa.Pos()), "")
	_ = old
	// producers of Alert-typed errors: every non-nil error they return is a constant Alert other than close_notify
	alertProducers := map[string]bool{}
	for _, nm := range []string{"(*z/tls.halfConn).decrypt", "(*z/tls.halfConn).changeCipherSpec"} {
		f := w.Fn(nm)
		if f == nil {
			continue
		}
		idx := errResultIdx(f)
		ok, n := true, 0
		for v := range returnClosure(f, idx) {
			if isNilConst(v) {
				continue
			}
			if _, isPhi := v.(*ssa.Phi); isPhi {
				continue
			}
			n++
			k, isC := v.(*ssa.Const) // MakeInterface is looked through by the closure
			if _, isMI := v.(*ssa.MakeInterface); isMI {
				continue
			}
			if !isC || closeNotify(k) || typeStr(k.Type()) != "tls.Alert" {
				ok = false
			}
		}
		c.Check(ok && n >= 1, "R-SUMMARY", nm, "every non-nil error returned is a constant Alert other than close_notify", w.Pos(f.Pos()), "")
		if ok && n >= 1 {
			alertProducers[expand(nm)] = true
		}
	}
	extraNonNil = func(cl *ssa.Call) bool {
		if setNonNil(cl) {
			return true
		}
		if !nameIn(calleeName(&cl.Call), []string{fnSendAlert, fnSendAlertLocked}) || len(cl.Call.Args) != 2 {
			return false
		}
		if k, isC := cl.Call.Args[1].(*ssa.Const); isC {
			return !closeNotify(k)
		}
		// sendAlert(err.(Alert)) with err the (non-nil) error of an alert producer
		if ta, ok := cl.Call.Args[1].(*ssa.TypeAssert); ok {
			if pc := callOf(ta.X); pc != nil && alertProducers[calleeName(&pc.Call)] {
				return true
			}
		}
		return false
	}
}
