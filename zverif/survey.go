package main

import (
	"fmt"
	"strings"
)

var surveyFns = map[string]func(*World, string){}

func runSurvey(w *World, what string) {
	if i := strings.Index(what, ":"); i > 0 {
		if f, ok := surveyFns[what[:i]]; ok {
			f(w, what[i+1:])
			return
		}
	}
	switch what {
	case "C01bounds":
		roots, scope := parserScope(w)
		fmt.Printf("roots=%d scope=%d\n", len(roots), len(scope))
		boundsSurvey(w, scope)
	}
}

func init() {
	surveyFns["bounds1"] = func(w *World, arg string) {
		fn := w.Fn(arg)
		if fn == nil {
			fmt.Println("no fn")
			return
		}
		sub := &Ctx{W: w, FnsSeen: map[string]bool{}}
		sub.BoundsObligations(fn, "R-BOUNDS", nil)
		for _, o := range sub.Obls {
			if o.Verdict != "discharged" {
				fmt.Printf("%s %s @%s\n   %s\n", o.Verdict, o.Construct, o.Pos, o.Detail)
			}
		}
	}
}

func init() {
	surveyFns["loops"] = func(w *World, arg string) {
		_, scope := parserScope(w)
		kinds := map[string]int{}
		for _, fn := range scope {
			for _, l := range natLoops(fn) {
				v := checkLoopProgress(l)
				kinds[v.kind]++
				if !v.ok || v.kind == "unanalysed" {
					fmt.Printf("%-60s %s %s ok=%v %s\n", short(FuncName(fn)), w.InstrPos(l.header.Instrs[len(l.header.Instrs)-1]), v.kind, v.ok, v.detail)
				}
			}
		}
		fmt.Println(kinds)
	}
}

func init() {
	surveyFns["C02bounds"] = func(w *World, arg string) {
		_, scope, _ := c02Scope(w)
		lenAtLeast = map[string]string{"len(cp.CPSUri)": "len(cp.PolicyIdentifiers)"}
		boundsSurvey(w, scope)
	}
}
