package main

import (
	"os"
	"fmt"
	"strings"

	"golang.org/x/tools/go/ssa"
)

var surveyFns = map[string]func(*World, string){}

func runSurvey(w *World, what string) {
	if i := strings.Index(what, ":"); i > 0 {
		if f, ok := surveyFns[what[:i]]; ok {
			f(w, what[i+1:])
			return
		}
	}
	switch what {
	case "C01bounds":
		roots, scope := parserScope(w)
		fmt.Printf("roots=%d scope=%d\n", len(roots), len(scope))
		boundsSurvey(w, scope)
	}
}

func init() {
	surveyFns["bounds1"] = func(w *World, arg string) {
		fn := w.Fn(arg)
		if fn == nil {
			fmt.Println("no fn")
			return
		}
		sub := &Ctx{W: w, FnsSeen: map[string]bool{}}
		sub.BoundsObligations(fn, "R-BOUNDS", nil)
		for _, o := range sub.Obls {
			if o.Verdict != "discharged" || (os.Getenv("ZV_FM") != "" && strings.Contains(o.Detail, "Fourier")) {
				fmt.Printf("%s %s @%s\n   %s\n", o.Verdict, o.Construct, o.Pos, o.Detail)
			}
		}
	}
}

func init() {
	surveyFns["dead"] = func(w *World, arg string) {
		n := 0
		for fn := range w.AllFuncs() {
			if fn.Blocks == nil || !InModule(fn) || strings.HasSuffix(w.RelFile(fn.Pos()), "_test.go") {
				continue
			}
			n++
			for _, r := range lostWrites(fn) {
				fmt.Println("LOST", FuncName(fn), w.InstrPos(r.In), r.What)
			}
			for _, r := range decidedBranches(fn) {
				fmt.Println("DECIDED", FuncName(fn), w.InstrPos(r.In), r.What)
			}
			for _, r := range selfComparisons(fn) {
				fmt.Println("SELFCMP", FuncName(fn), w.InstrPos(r.In), r.What)
			}
			for _, r := range crossAppends(fn) {
				fmt.Println("CROSSAPPEND", FuncName(fn), w.InstrPos(r.In), r.What)
			}
		}
		fmt.Println("functions", n)
	}
	surveyFns["loops"] = func(w *World, arg string) {
		_, scope := parserScope(w)
		kinds := map[string]int{}
		for _, fn := range scope {
			for _, l := range natLoops(fn) {
				v := checkLoopProgress(l)
				kinds[v.kind]++
				if !v.ok || v.kind == "unanalysed" {
					fmt.Printf("%-60s %s %s ok=%v %s\n", short(FuncName(fn)), w.InstrPos(l.header.Instrs[len(l.header.Instrs)-1]), v.kind, v.ok, v.detail)
				}
			}
		}
		fmt.Println(kinds)
	}
}

func init() {
	surveyFns["C02bounds"] = func(w *World, arg string) {
		_, scope, _ := c02Scope(w)
		lenAtLeast = map[string]string{"len(cp.CPSUri)": "len(cp.PolicyIdentifiers)"}
		boundsSurvey(w, scope)
	}
}

func init() {
	surveyFns["fresh"] = func(w *World, arg string) {
		n := 0
		for fn := range w.AllFuncs() {
			if !InModule(fn) || len(fn.Blocks) == 0 || strings.HasSuffix(w.RelFile(fn.Pos()), "_test.go") {
				continue
			}
			for _, r := range loopFreshness(fn) {
				n++
				fmt.Printf("%s %s %s: %s\n", short(FuncName(fn)), w.InstrPos(r.In), r.Kind, r.What)
			}
		}
		fmt.Println("reports:", n)
	}
}

func init() {
	surveyFns["pure"] = func(w *World, arg string) {
		_, scope, jsonScope := c02Scope(w)
		sum := NewParamWriteSummary(w, scope)
		n := 0
		for _, fn := range jsonScope {
			for _, p := range fn.Params {
				if wit, ok := sum.writes[p]; ok {
					n++
					fmt.Printf("%s(%s): %s\n", short(FuncName(fn)), p.Name(), wit)
				}
			}
		}
		fmt.Println("params written in the JSON closure:", n, "of", len(jsonScope), "functions")
	}
}

func init() {
	surveyFns["pure07"] = func(w *World, arg string) {
		var roots []*ssa.Function
		for _, n := range []string{"(*z/x509.Certificate).Verify", "(*z/x509.Certificate).ValidateWithStupidDetail"} {
			if fn := w.Fn(n); fn != nil {
				roots = append(roots, fn)
			}
		}
		var scope []*ssa.Function
		for fn := range w.Reachable(roots, func(fn *ssa.Function) bool { return !InModule(fn) }) {
			if InModule(fn) && len(fn.Blocks) > 0 && strings.HasSuffix(w.RelFile(fn.Pos()), "x509/verify.go") {
				scope = append(scope, fn)
			}
		}
		sum := NewParamWriteSummary(w, scope)
		for _, fn := range scope {
			for _, p := range fn.Params {
				if wit, ok := sum.writes[p]; ok {
					fmt.Printf("%s(%s): %s\n", short(FuncName(fn)), p.Name(), wit)
				}
			}
		}
		fmt.Println(len(scope), "functions")
	}
}
