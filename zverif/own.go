package main

import (
	"go/token"
	"sort"

	"golang.org/x/tools/go/ssa"
)

// FieldWrite is one instruction that mutates (the contents of) a struct field.
type FieldWrite struct {
	Field string // "T.f"
	Kind  string // "store" | "mapupdate" | "delete" | "elem"
	In    ssa.Instruction
	Fn    *ssa.Function
	Val   ssa.Value // stored value (store/mapupdate/elem)
	Key   ssa.Value // map key / index
	Base  ssa.Value // the struct pointer the field belongs to
}

func loadedField(v ssa.Value) *ssa.FieldAddr {
	v = stripConv(v)
	if u, ok := v.(*ssa.UnOp); ok && u.Op == token.MUL {
		if fa, ok := u.X.(*ssa.FieldAddr); ok {
			return fa
		}
	}
	return nil
}

// FieldWrites indexes every write to every struct field in module code.
func (w *World) FieldWrites() map[string][]FieldWrite {
	if w.fieldWrites != nil {
		return w.fieldWrites
	}
	out := map[string][]FieldWrite{}
	var fns []*ssa.Function
	for fn := range w.AllFuncs() {
		if InModule(fn) && fn.Blocks != nil {
			fns = append(fns, fn)
		}
	}
	sort.Slice(fns, func(i, j int) bool { return FuncName(fns[i]) < FuncName(fns[j]) })
	for _, fn := range fns {
		for _, b := range fn.Blocks {
			for _, in := range b.Instrs {
				switch x := in.(type) {
				case *ssa.Store:
					switch a := x.Addr.(type) {
					case *ssa.FieldAddr:
						f := fieldName(a)
						out[f] = append(out[f], FieldWrite{Field: f, Kind: "store", In: in, Fn: fn, Val: x.Val, Base: a.X})
					case *ssa.IndexAddr:
						if fa := loadedField(a.X); fa != nil {
							f := fieldName(fa)
							out[f] = append(out[f], FieldWrite{Field: f, Kind: "elem", In: in, Fn: fn, Val: x.Val, Key: a.Index, Base: fa.X})
						}
					}
				case *ssa.MapUpdate:
					if fa := loadedField(x.Map); fa != nil {
						f := fieldName(fa)
						out[f] = append(out[f], FieldWrite{Field: f, Kind: "mapupdate", In: in, Fn: fn, Val: x.Value, Key: x.Key, Base: fa.X})
					}
				case *ssa.Call:
					if bi, ok := x.Call.Value.(*ssa.Builtin); ok && bi.Name() == "delete" {
						if fa := loadedField(x.Call.Args[0]); fa != nil {
							f := fieldName(fa)
							out[f] = append(out[f], FieldWrite{Field: f, Kind: "delete", In: in, Fn: fn, Key: x.Call.Args[1], Base: fa.X})
						}
					}
				}
			}
		}
	}
	w.fieldWrites = out
	return out
}
