package main

// Texts and floors for the obligations added in the second round (extras_round2.go, predset.go). They are appended
// to the property definitions at start-up so that -list, the evidence files and DESIGN.md section 8 describe
// everything a check decides. Floors are about three quarters of the obligation count confirmed on the pinned tree.

type round2Text struct {
	Explain string
	NotCov  string
	Floor   int
}

var round2Texts = map[string]round2Text{
	"C01": {Floor: 500},
	"C02": {Floor: 300},
	"C03": {Floor: 60},
	"C04": {Explain: "Round 2: R-NARROW/R-SIBLING in the asn1 writer (a rune is narrowed to a byte only below 128; a time keeps the UTCTime tag only if outsideUTCRange, the test makeBody uses, was evaluated for it); R-FRESH over the creation scope.", Floor: 36},
	"C05": {Explain: "Round 2: R-CHARSET — the set of bytes the DER string encoder classifies as PrintableString (exact, by pushing the 256 byte values through the comparison structure of isPrintable at each encoder call site, flags bound to that site's constants) is a subset of the set each reader in scope accepts (x509.isPrintable of the CRL name parser, asn1.parsePrintableString). " +
		"R-CURVES — in x509.signingParamsForPublicKey each of P-224/P-256/P-384/P-521 is routed to an arm that sets parameters, not to an error construction (identity tests against elliptic.Pnnn() or BitSize thresholds are both understood). " +
		"R-PROV — on every path from rsaPSSParameters(h) to a return the returned hash is h (the AlgorithmIdentifier and the digest used by the callers agree). R-FRESH over CSR/CRL creation.",
		NotCov: "R-CHARSET covers PrintableString only (the other string types have no sibling predicate); R-CURVES does not decide that the digest chosen for a curve is the intended one.", Floor: 26},
	"C06": {Explain: "Round 2: R-FRESH over ParseCertificate(s) (no decode target or buffer allocated outside a loop escapes an iteration) and a sibling check that ParseCertificates goes through the same per-certificate parser.", Floor: 30},
	"C07": {Explain: "Round 2: R-PURE over the verify.go scope (no function writes through a reference parameter except buildChains' cache, which is its purpose); R-SCAN — FilterByDate leaves its loop only at the header (every chain is examined).", Floor: 48},
	"C08": {Floor: 22},
	"C09": {Explain: "Round 2: hostname rules shared with C12 — an IP-literal host never reaches matchHostnames and is accepted only through IP.Equal on an IP SAN; name matching runs only past a nil ParseIP; the common name is consulted only past a false hasSANExtension.", Floor: 28},
	"C10": {Explain: "Round 2: issuer-search rules — a new GraphNode is reachable only past lookups in nodesBySubject / nodesBySubjectAndKey / nodes (no duplicate node for a known certificate), and issuer candidates are drawn from g.nodesBySubject[string(c.RawIssuer)].", Floor: 40},
	"C11": {Explain: "Round 2: the issuer-search rules of C10, and in the chain walk a root edge is emitted before any other return (cut on lastEdge.root being false).", Floor: 32},
	"C12": {Explain: "Round 2: the hostname rules listed under C09.", Floor: 34},
	"C13": {Explain: "Round 2: R-CURVES on ocsp.signingParamsForPublicKey — each of P-224/P-256/P-384/P-521 reaches an arm that sets the digest and OID, not the error (identity or BitSize form).", Floor: 40},
	"C14": {Explain: "Round 2: gatherListExtensionInfo is passed on every successful path of the CRL parse (must-pass-through).", Floor: 20},
	"C15": {Explain: "Round 2: OneCRL.Check returns nil only after the Blocked scan is exhausted and the issuer lookup missed; microsoft.parse records every certificate entry it decodes.", Floor: 28},
	"C16": {Floor: 26},
	"C17": {Explain: "Round 2: the certsProcessed increment lies on every path through the per-certificate body.", Floor: 23},
	"C18": {Explain: "Round 2: R-CHARSET — every byte the encoder classifies as PrintableString is accepted by parsePrintableString (see C05).", Floor: 36},
	"C19": {Explain: "Round 2: R-SIBLING — the cryptobyte GeneralizedTime writer and reader format the time they were handed / parsed: no (time.Time).UTC/Local/In call lies on the data flow (through captured variables and locals) to a Format receiver, so offsets the reader accepts are written back unchanged.", Floor: 29},
	"C20": {Floor: 110},
	"C21": {Explain: "Round 2: R-INIT — a decoder that accumulates into *out by read-modify-write (discovered structurally, instances frozen in a reviewed table: asn1Unsigned armed, asn1Signed excepted because its shift pair clears the incoming bits) is only ever handed the address of a local that is still zero, along every call chain in cryptobyte/asn1.go; the GeneralizedTime zone rule of C19.",
		NotCov: "Whether AddASN1BigInt / AddASN1Int64 choose the minimal number of content octets is arithmetic on the value and is not decided (seed C21c is a recorded miss).", Floor: 70},
	"C22": {Floor: 60},
	"C23": {Explain: "Round 2: the PKCS#1 v1.5 separator scan starts after the two header octets (the loop cursor is φ(cursor+1 | 2)).", Floor: 52},
	"C24": {Explain: "Round 2: R-STATE — in processHelloRetryRequest every update of a ClientHello field either happens with the cached encoding already dropped (a raw = nil store dominates it with no marshal in between) or is followed by raw = nil before marshal / marshalWithoutBinders. " +
		"R-SIBLING — the two deciders of 'this suite works with this certificate' (the filter closure in ClientHelloInfo.SupportsCertificate and serverHandshakeState.cipherSuiteOk) each accept a suite with suiteECSign set only for an ECDSA/Ed25519 key and with it clear only for an RSA key, reject TLS 1.2-only suites below TLS 1.2, and the former accepts only ECDHE suites.", Floor: 75},
	"C25": {Explain: "Round 2: R-ERR — every return of Conn.Write that follows a record write reports the error through c.out.setErrorLocked (a failed write is permanent); R-PROV — the count returned after the final write adds the octet sent in the split-off first record; readRecordOrCCS latches a transport error only if it is not a temporary net.Error; R-BOUNDS — the MAC offset in halfConn.decrypt is clamped at zero (ConstantTimeSelect, max or an explicit merge with 0) before it is used as a slice bound.", Floor: 35},
	"C26": {Floor: 78},
	"C27": {Explain: "Round 2: verifyHandshakeSignature returns nil only past a successful verification primitive for every signature type; loadSession offers a cached session only if InsecureSkipVerify is set or the session carries verified chains.", Floor: 30},
	"C28": {Explain: "Round 2: R-STATE — after hello.serverName is replaced the cached encoding is dropped on every path before the hello is marshalled.", Floor: 88},
	"C29": {Floor: 20},
	"C30": {Explain: "Round 2: R-FRESH over handshake_messages.go (no unmarshalled slice aliases a buffer reused by a later iteration); the frozen expression of updateBinders' output.", Floor: 58},
	"C31": {Explain: "Round 2: ticket key material is drawn with io.ReadFull on config.rand(); the rotated ticket key list is made with length 0 and filled by append (no zero-valued key that would match an all-zero key name).", Floor: 33},
	"C32": {Explain: "Round 2: the decrypt MAC-offset clamp of C25 is also a no-panic obligation here.", Floor: 60},
	"C33": {Explain: "Round 2: R-FRESH over the JSON methods; pkix.Name attribute/field pairing (each attribute OID is stored to and emitted from its own field).", Floor: 94},
	"C34": {Explain: "Round 2: R-ORDER — handshakeStatus is set to 1 only after the function's last flush at all four sites; the Conn.Write error-latching obligations of C25.", Floor: 124},
	"C35": {Floor: 28},
}

func applyRound2Texts() {
	for id, t := range round2Texts {
		p := props[id]
		if p == nil {
			continue
		}
		if t.Explain != "" {
			p.Explain += " " + t.Explain
		}
		if t.NotCov != "" {
			p.NotCov += " " + t.NotCov
		}
		if t.Floor > p.Floor {
			p.Floor = t.Floor
		}
	}
}
