package main

import (
	"fmt"
	"go/token"
	"go/types"
	"sort"
	"strings"

	"golang.org/x/tools/go/ssa"
)

var _ = token.NoPos
var _ = sort.Strings
var _ = fmt.Sprint

// partialCopy: a struct value built field by field in fn where at least one field is taken from the same field of
// another value of the same type, while other fields of the type are not assigned at all: the rebuilt value silently
// resets them (a "defensive copy" that forgets a field).
type partialCopy struct {
	At      ssa.Instruction
	Type    string
	Source  string
	Missing []string
}

func partialCopies(fn *ssa.Function) []partialCopy {
	var out []partialCopy
	for _, b := range fn.Blocks {
		for _, in := range b.Instrs {
			al, ok := in.(*ssa.Alloc)
			if !ok {
				continue
			}
			pt, ok := al.Type().Underlying().(*types.Pointer)
			if !ok {
				continue
			}
			st, ok := pt.Elem().Underlying().(*types.Struct)
			if !ok || st.NumFields() < 2 {
				continue
			}
			set := map[int]bool{}
			whole := false
			srcs := map[string]int{}
			for _, r := range *al.Referrers() {
				switch x := r.(type) {
				case *ssa.Store:
					if x.Addr == ssa.Value(al) {
						whole = true
					}
				case *ssa.FieldAddr:
					for _, r2 := range *x.Referrers() {
						s2, ok := r2.(*ssa.Store)
						if !ok || s2.Addr != ssa.Value(x) {
							continue
						}
						set[x.Field] = true
						// the stored value is field x.Field of another value of the same type
						var from ssa.Value
						switch v := s2.Val.(type) {
						case *ssa.Field:
							if v.Field == x.Field {
								from = v.X
							}
						case *ssa.UnOp:
							if fa, ok := v.X.(*ssa.FieldAddr); ok && v.Op == token.MUL && fa.Field == x.Field {
								from = fa.X
							}
						}
						if from != nil {
							ft := from.Type()
							if p, ok := ft.Underlying().(*types.Pointer); ok {
								ft = p.Elem()
							}
							if types.Identical(ft, pt.Elem()) {
								srcs[Expr(from)]++
							}
						}
					}
				}
			}
			if whole || len(srcs) == 0 {
				continue
			}
			var missing []string
			for i := 0; i < st.NumFields(); i++ {
				f := st.Field(i)
				if set[i] || f.Name() == "_" || strings.HasPrefix(typeStr(f.Type()), "sync.") {
					continue
				}
				missing = append(missing, f.Name())
			}
			if len(missing) == 0 {
				continue
			}
			var ss []string
			for s := range srcs {
				ss = append(ss, s)
			}
			sort.Strings(ss)
			out = append(out, partialCopy{At: in, Type: typeStr(pt.Elem()), Source: strings.Join(ss, ","), Missing: missing})
		}
	}
	return out
}

func init() {
	surveyFns["partialcopy"] = func(w *World, arg string) {
		for fn := range w.AllFuncs() {
			if !InModule(fn) || len(fn.Blocks) == 0 {
				continue
			}
			for _, pc := range partialCopies(fn) {
				fmt.Printf("%s %s: %s rebuilt from %s without %v\n", w.InstrPos(pc.At), short(FuncName(fn)), pc.Type, pc.Source, pc.Missing)
			}
		}
	}
}

var round5Extras = map[string]func(*Ctx){}

func init() {
	round5Extras["C05"] = c05Extras5
	round5Extras["C01"] = func(c *Ctx) { nonEmptyIntegerRule(c) }
}

// c05Extras5: no creation function of x509 rebuilds a struct from another value of its type with fields left out.
func c05Extras5(c *Ctx) {
	w := c.W
	n := 0
	for _, fn := range w.FuncsOfPkg("z/x509") {
		nm := fn.Name()
		if !(strings.HasPrefix(nm, "Create") || strings.HasPrefix(nm, "build") || strings.HasPrefix(nm, "marshal") || strings.HasPrefix(nm, "Marshal")) || len(fn.Blocks) == 0 {
			continue
		}
		n++
		pcs := partialCopies(fn)
		for _, pc := range pcs {
			c.Fail("R-TABLE", short(FuncName(fn)), "a "+pc.Type+" rebuilt from "+pc.Source+" carries every field", w.InstrPos(pc.At), "not assigned: "+strings.Join(pc.Missing, ", "))
		}
		if len(pcs) == 0 {
			c.Sites++
			c.OK("R-TABLE", short(FuncName(fn)), "no struct is rebuilt from a value of its own type with fields left out", w.Pos(fn.Pos()), "")
		}
	}
	c.Check(n >= 8, "R-TABLE", "z/x509", "creation functions found (Create*, build*, marshal*)", "-", fmt.Sprint(n))
}

// nonEmptyIntegerRule: the minimal-INTEGER checks accept only behind a branch establishing len(bytes) >= 1.
func nonEmptyIntegerRule(c *Ctx) {
	w := c.W
	nonEmpty := func(f Fact) bool {
		if f.Y == nil || !LenOf(Param("bytes"))(stripConv(f.X)) {
			return false
		}
		k, ok := intConst(f.Y)
		if !ok {
			return false
		}
		switch f.Op {
		case "ne":
			return k == 0
		case "gt":
			return k >= 0
		case "ge", "eq":
			return k >= 1
		}
		return false
	}
	for _, x := range []struct {
		fn  string
		tgt func(ssa.Instruction, resolver) bool
	}{{"z/cryptobyte.checkASN1Integer", TrueReturn(0, nil)}, {"z/encoding/asn1.checkInteger", SuccessReturn(0, nil)}} {
		fn := w.Fn(x.fn)
		if fn == nil {
			c.Undecided("R-GUARD", x.fn, "anchor", "-", "not found")
			continue
		}
		c.Sites++
		c.Cut(CutSpec{Rule: "R-GUARD", Fn: fn, Label: "accepts only behind a branch establishing a non-empty octet string (callers index bytes[0])", Target: x.tgt, Cut: nonEmpty})
	}
}

// sigLengthRule: RFC 8017 8.1.2/8.2.2 step 1 — the RSA verifiers accept only a signature of exactly k octets (a
// longer one with leading zero octets is the same integer and would verify).
func sigLengthRule(c *Ctx) {
	w := c.W
	exact := func(f Fact) bool {
		if f.Op != "eq" || f.Y == nil {
			return false
		}
		a, b := stripConv(f.X), stripConv(f.Y)
		isLen := LenOf(Param("sig"))
		isSize := func(v ssa.Value) bool { return strings.HasSuffix(Expr(v), ".Size(pub)") }
		return (isLen(a) && isSize(b)) || (isLen(b) && isSize(a))
	}
	for _, name := range []string{"z/rsa.VerifyPKCS1v15", "z/rsa.VerifyPSS"} {
		fn := w.Fn(name)
		if fn == nil {
			c.Undecided("R-VSET", name, "anchor", "-", "not found")
			continue
		}
		c.Sites++
		c.Cut(CutSpec{Rule: "R-VSET", Fn: fn, Label: "accepts only a signature of exactly pub.Size() octets (RFC 8017 8.1.2/8.2.2 step 1)", Target: SuccessReturn(0, nil), Cut: exact})
	}
}

func init() {
	round5Extras["C03"] = sigLengthRule
	round5Extras["C06"] = sigLengthRule
	round5Extras["C23"] = sigLengthRule
}

// fullScanRule: the membership helpers of CertificateChain compare against every element of the chain: the element
// index runs over 0..len-1 (a range loop, an upward index loop from 0 while i < len, or a downward one from len-1
// while i >= 0). buildChains relies on them to refuse a certificate already in the chain, index 0 included.
func fullScanRule(c *Ctx) {
	w := c.W
	n := 0
	for _, fn := range w.FuncsOfPkg("z/x509") {
		if !strings.HasSuffix(fn.Name(), "InChain") || fn.Signature.Recv() == nil || len(fn.Blocks) == 0 || !strings.Contains(typeStr(fn.Signature.Recv().Type()), "CertificateChain") {
			continue
		}
		n++
		found := false
		for _, b := range fn.Blocks {
			for _, in := range b.Instrs {
				ia, ok := in.(*ssa.IndexAddr)
				if !ok || !Param(fn.Params[0].Name())(stripConv(ia.X)) && stripConv(ia.X) != ssa.Value(fn.Params[0]) {
					continue
				}
				found = true
				c.Sites++
				okScan, how := scansAll(ia)
				c.Check(okScan, "R-SCAN", short(FuncName(fn)), "the membership scan visits every element of the chain (index 0 .. len-1)", w.InstrPos(in), how)
			}
		}
		c.Check(found, "R-SCAN", short(FuncName(fn)), "element access of the chain found", w.Pos(fn.Pos()), "")
	}
	c.Check(n >= 3, "R-SCAN", "z/x509", "CertificateChain membership helpers found", "-", fmt.Sprint(n))
}

// scansAll: does the index of ia run over every element of ia.X?
func scansAll(ia *ssa.IndexAddr) (bool, string) {
	idx := ia.Index
	if bo, ok := idx.(*ssa.BinOp); ok && bo.Op == token.ADD {
		if k, isC := intConst(bo.Y); isC && k == 1 {
			if phi, ok := bo.X.(*ssa.Phi); ok {
				e := Expr(phi)
				if e == "φ(-1|(↺+1))" || e == "φ((↺+1)|-1)" {
					return true, "range loop"
				}
			}
		}
	}
	phi, ok := idx.(*ssa.Phi)
	if !ok {
		return false, "index " + Expr(idx) + " is not a loop counter"
	}
	e := Expr(phi)
	// the loop test sits in the phi's block
	var facts []Fact
	if ifi, ok := phi.Block().Instrs[len(phi.Block().Instrs)-1].(*ssa.If); ok {
		facts = condFacts(ifi.Cond, true, idRes)
	}
	hasFact := func(op string, y func(ssa.Value) bool) bool {
		return anyFact(facts, func(f Fact) bool { return f.Op == op && f.Y != nil && stripConv(f.X) == ssa.Value(phi) && y(stripConv(f.Y)) })
	}
	isLen := func(v ssa.Value) bool { return LenOf(func(x ssa.Value) bool { return sameVal(x, ia.X) })(v) }
	isK := func(k int64) func(ssa.Value) bool {
		return func(v ssa.Value) bool { q, ok := intConst(v); return ok && q == k }
	}
	lenExpr := "len(" + Expr(ia.X) + ")"
	switch e {
	case "φ(0|(↺+1))", "φ((↺+1)|0)":
		if hasFact("lt", isLen) {
			return true, "index loop 0 .. len-1"
		}
		return false, "upward loop " + e + " without the test i < " + lenExpr
	case "φ((" + lenExpr + "-1)|(↺-1))", "φ((↺-1)|(" + lenExpr + "-1))":
		if hasFact("ge", isK(0)) || hasFact("gt", isK(-1)) {
			return true, "index loop len-1 .. 0"
		}
		return false, "downward loop " + e + " does not run down to index 0"
	}
	return false, "unrecognised loop counter " + e
}

func init() {
	round5Extras["C07"] = fullScanRule
}

// leavesThroughHelpers: the values that can flow into v through phis, tuple extracts and the returns of in-module
// helpers (two levels).
func leavesThroughHelpers(v ssa.Value, depth int, out map[ssa.Value]bool) {
	for x := range backClosure(v, nil) {
		x0 := x
		idx := 0
		if ex, ok := x.(*ssa.Extract); ok {
			x0, idx = ex.Tuple, ex.Index
		}
		if cl, ok := x0.(*ssa.Call); ok && depth < 2 {
			if h := cl.Call.StaticCallee(); h != nil && InModule(h) && len(h.Blocks) > 0 {
				for r := range returnClosure(h, idx) {
					leavesThroughHelpers(r, depth+1, out)
				}
				continue
			}
		}
		if _, isPhi := x.(*ssa.Phi); isPhi {
			continue
		}
		out[x] = true
	}
}

// certIDHashRule: the issuerKeyHash and issuerNameHash an OCSP request or response is created with are digests
// (the result of hash.Hash.Sum), never an octet string taken from the certificate (a SubjectKeyId is only by
// convention the SHA-1 of the key).
func certIDHashRule(c *Ctx) {
	w := c.W
	n := 0
	for _, nm := range []string{pkOCSP + ".CreateRequest", pkOCSP + ".CreateResponse"} {
		fn := w.Fn(nm)
		if fn == nil {
			c.Undecided("R-PROV", nm, "anchor", "-", "not found")
			continue
		}
		for _, b := range fn.Blocks {
			for _, in := range b.Instrs {
				st, ok := in.(*ssa.Store)
				if !ok {
					continue
				}
				fa, ok := st.Addr.(*ssa.FieldAddr)
				if !ok {
					continue
				}
				leaf := fieldLeaf(fieldName(fa))
				if leaf != "IssuerKeyHash" && leaf != "IssuerNameHash" && leaf != "HashedPublicKey" && leaf != "NameHash" && leaf != "HashedName" {
					continue
				}
				n++
				c.Sites++
				leaves := map[ssa.Value]bool{}
				leavesThroughHelpers(st.Val, 0, leaves)
				var bad []string
				for l := range leaves {
					if cc := callCommon(valueInstr(l)); cc != nil && cc.IsInvoke() && cc.Method.Name() == "Sum" {
						continue
					}
					if isNilConst(l) {
						continue
					}
					bad = append(bad, Expr(l))
				}
				sort.Strings(bad)
				c.Check(len(bad) == 0, "R-PROV", short(nm), "CertID."+leaf+" is the result of hash.Hash.Sum on every path", w.InstrPos(in), strings.Join(bad, " ; "))
			}
		}
	}
	c.Check(n >= 4, "R-PROV", pkOCSP, "stores of the CertID hashes found in CreateRequest/CreateResponse", "-", fmt.Sprint(n))
}

func valueInstr(v ssa.Value) ssa.Instruction {
	in, _ := v.(ssa.Instruction)
	return in
}

func init() {
	round5Extras["C13"] = certIDHashRule
}

// getOrCreateRule (C15): microsoft.parse files a new per-issuer list in the IssuerLists map only when the lookup of
// that map found none (a list filed unconditionally replaces the entries collected for the issuer so far).
func getOrCreateRule(c *Ctx) {
	w := c.W
	fn := w.Fn("z/x509/revocation/microsoft.parse")
	if fn == nil {
		c.Undecided("R-CUT", "x509/revocation/microsoft.parse", "anchor", "-", "not found")
		return
	}
	n := 0
	withHelperContexts(fn, func(h *ssa.Function, _ *ssa.Call) {
		for _, b := range h.Blocks {
			for _, in := range b.Instrs {
				mu, ok := in.(*ssa.MapUpdate)
				if !ok || !strings.HasSuffix(Expr(mu.Map), ".IssuerLists") {
					continue
				}
				n++
				c.Sites++
				m := Expr(mu.Map)
				c.Cut(CutSpec{Rule: "R-CUT", Fn: h, Label: "a per-issuer list is filed in IssuerLists only when the lookup found none (get-or-create)", Target: isInstr(in),
					Cut: func(f Fact) bool {
						if f.Op != "nil" && !(f.Op == "false" && f.Y == nil) {
							return false
						}
						x := stripConv(f.X)
						if ex, ok := x.(*ssa.Extract); ok { // v, ok := m[k]
							x = ex.Tuple
						}
						lk, ok := x.(*ssa.Lookup)
						return ok && Expr(lk.X) == m
					}})
			}
		}
	})
	c.Check(n >= 1, "R-CUT", "x509/revocation/microsoft.parse", "store into IssuerLists found", w.Pos(fn.Pos()), fmt.Sprint(n))
}

// wrappedEOFRule (C16): the list readers of the ct packages take io.EOF from the element reader as the clean end of
// the list. That is sound while the comparison is by identity, or while no reader wraps io.EOF into its short-read
// error: a consumer using errors.Is(err, io.EOF) together with a producer wrapping the EOF (%w) turns a truncated last
// element into a clean end.
func wrappedEOFRule(c *Ctx) {
	w := c.W
	isEOF := func(v ssa.Value) bool {
		v = stripConv(v)
		if u, ok := v.(*ssa.UnOp); ok && u.Op == token.MUL {
			if g, ok := u.X.(*ssa.Global); ok {
				return g.Name() == "EOF" && g.Pkg.Pkg.Path() == "io"
			}
		}
		return false
	}
	for _, pkg := range []string{"z/ct", "z/x509/ct"} {
		var consumers, wraps []string
		for _, fn := range w.FuncsOfPkg(pkg) {
			for _, b := range fn.Blocks {
				for _, in := range b.Instrs {
					cc := callCommon(in)
					if cc == nil || cc.StaticCallee() == nil {
						continue
					}
					switch FuncName(cc.StaticCallee()) {
					case "errors.Is":
						if len(cc.Args) == 2 && isEOF(cc.Args[1]) {
							consumers = append(consumers, w.InstrPos(in))
						}
					case "fmt.Errorf":
						k, ok := cc.Args[0].(*ssa.Const)
						if !ok || !strings.Contains(k.Value.ExactString(), "%w") {
							continue
						}
						// may the wrapped error be io.EOF here?
						if anyFact(domFacts(b), func(f Fact) bool { return f.Op == "eq" && f.Y != nil && (isEOF(f.Y) || isEOF(f.X)) }) {
							wraps = append(wraps, w.InstrPos(in))
						}
					}
				}
			}
		}
		c.Sites++
		c.Check(len(consumers) == 0 || len(wraps) == 0, "R-ERR", short(pkg), "no reader wraps io.EOF (%w) while a list reader ends its list on errors.Is(err, io.EOF)", "-",
			fmt.Sprintf("errors.Is(_, io.EOF) at %v; io.EOF wrapped at %v", consumers, wraps))
	}
}

// optionalBooleanRule (C19): ReadOptionalASN1Boolean writes only the default through out itself; a BOOLEAN that is
// present is decoded by ReadASN1Boolean (the reader that enforces the DER octets 00/ff).
func optionalBooleanRule(c *Ctx) {
	w := c.W
	fn := w.Fn(cbFn("ReadOptionalASN1Boolean"))
	if fn == nil {
		c.Undecided("R-SIBLING", cbFn("ReadOptionalASN1Boolean"), "anchor", "-", "not found")
		return
	}
	var out, def *ssa.Parameter
	for _, p := range fn.Params {
		switch paramName(p) {
		case "out":
			out = p
		case "defaultValue":
			def = p
		}
	}
	if out == nil || def == nil {
		c.Undecided("R-SIBLING", cbFn("ReadOptionalASN1Boolean"), "parameters out/defaultValue", w.Pos(fn.Pos()), "not found")
		return
	}
	c.Sites++
	var bad []string
	for _, b := range fn.Blocks {
		for _, in := range b.Instrs {
			if st, ok := in.(*ssa.Store); ok && st.Addr == ssa.Value(out) && st.Val != ssa.Value(def) {
				bad = append(bad, w.InstrPos(in)+": *out = "+Expr(st.Val))
			}
		}
	}
	c.Check(len(bad) == 0, "R-SIBLING", short(cbFn("ReadOptionalASN1Boolean")), "stores only the default through out itself (a present BOOLEAN is decoded by ReadASN1Boolean)", w.Pos(fn.Pos()), strings.Join(bad, "; "))
	deleg := false
	for _, in := range callsIn(fn, cbFn("ReadASN1Boolean")) {
		for _, a := range callCommon(in).Args {
			if a == ssa.Value(out) {
				deleg = true
			}
		}
	}
	c.Check(deleg, "R-SIBLING", short(cbFn("ReadOptionalASN1Boolean")), "hands out to ReadASN1Boolean", w.Pos(fn.Pos()), "")
}

func init() {
	round5Extras["C15"] = getOrCreateRule
	round5Extras["C16"] = wrappedEOFRule
	round5Extras["C19"] = func(c *Ctx) { optionalBooleanRule(c); nonEmptyIntegerRule(c) }
}

// decryptErrorRule (C23): PrivateKey.Decrypt (the crypto.Decrypter entry point) reports success after calling one of
// the package's decryption functions only if that function returned a nil error (none of its errors is swallowed).
func decryptErrorRule(c *Ctx) {
	w := c.W
	fn := w.Fn("(*z/rsa.PrivateKey).Decrypt")
	if fn == nil {
		c.Undecided("R-SWALLOW", "(*rsa.PrivateKey).Decrypt", "anchor", "-", "not found")
		return
	}
	n := 0
	idx := errResultIdx(fn)
	for _, b := range fn.Blocks {
		for _, in := range b.Instrs {
			cl, ok := in.(*ssa.Call)
			if !ok || cl.Call.StaticCallee() == nil || !strings.HasPrefix(cl.Call.StaticCallee().Name(), "Decrypt") || !InModule(cl.Call.StaticCallee()) {
				continue
			}
			h := cl.Call.StaticCallee()
			hi := errResultIdx(h)
			if hi < 0 {
				continue
			}
			var res ssa.Value = cl
			if h.Signature.Results().Len() > 1 {
				res = nil
				for _, r := range *cl.Referrers() {
					if ex, ok := r.(*ssa.Extract); ok && ex.Index == hi {
						res = ex
					}
				}
			}
			if res == nil {
				c.Fail("R-SWALLOW", "(*rsa.PrivateKey).Decrypt", "error of "+h.Name()+" is read", w.InstrPos(in), "the error result is discarded")
				continue
			}
			n++
			c.Sites++
			want := res
			c.Cut(CutSpec{Rule: "R-SWALLOW", Fn: fn, Label: "succeeds after " + h.Name() + " only if it returned a nil error", StartAfter: in, MinTargets: -1,
				Target: SuccessReturn(idx, func(f Fact) bool { return f.Op == "nil" && stripConv(f.X) == want }),
				Cut:    func(f Fact) bool { return f.Op == "nil" && stripConv(f.X) == want }})
		}
	}
	c.Check(n >= 2, "R-SWALLOW", "(*rsa.PrivateKey).Decrypt", "calls to the package's decryption functions found", w.Pos(fn.Pos()), fmt.Sprint(n))
}

// keyShareLookupRule (C24): the TLS 1.3 client goes on with a ServerHello only if it holds a key share for the group
// the server selected (a ClientHello may carry several shares: a hybrid group and its classical fallback).
func keyShareLookupRule(c *Ctx) {
	w := c.W
	fn := w.Fn("(*z/tls.clientHandshakeStateTLS13).processServerHello")
	if fn == nil {
		c.Undecided("R-PRE", "tls.clientHandshakeStateTLS13.processServerHello", "anchor", "-", "not found")
		return
	}
	c.Sites++
	held := func(f Fact) bool {
		x := stripConv(f.X)
		ex, ok := x.(*ssa.Extract)
		if !ok {
			return false
		}
		lk, ok := ex.Tuple.(*ssa.Lookup)
		if !ok || !strings.HasSuffix(Expr(lk.X), ".keySharesByGroup") || !strings.HasSuffix(Expr(lk.Index), ".serverHello.serverShare.group") {
			return false
		}
		return (ex.Index == 1 && f.Op == "true") || (ex.Index == 0 && f.Op == "nonnil")
	}
	c.Cut(CutSpec{Rule: "R-PRE", Fn: fn, Label: "accepts the ServerHello only if keySharesByGroup holds a share for the selected group", Target: SuccessReturn(0, nil), Cut: held})
}

// drainHandRule (C25): Conn.Read fetches the next record only once every post-handshake message already buffered
// in c.hand has been handled (several may arrive in one record).
func drainHandRule(c *Ctx) {
	w := c.W
	fn := w.Fn("(*z/tls.Conn).Read")
	if fn == nil {
		c.Undecided("R-STATE", "tls.Conn.Read", "anchor", "-", "not found")
		return
	}
	n := 0
	for _, in := range callsIn(fn, "(*z/tls.Conn).handlePostHandshakeMessage") {
		n++
		c.Sites++
		c.Cut(CutSpec{Rule: "R-STATE", Fn: fn, Label: "after a post-handshake message the next record is read only once c.hand is empty", StartAfter: in, MinTargets: 1,
			Target: func(i2 ssa.Instruction, _ resolver) bool {
				cc := callCommon(i2)
				return cc != nil && cc.StaticCallee() != nil && cc.StaticCallee().Name() == "readRecord"
			},
			Cut: func(f Fact) bool {
				if f.Y == nil || !strings.HasSuffix(Expr(f.X), ".Len(c.hand)") {
					return false
				}
				k, ok := intConst(f.Y)
				return ok && k == 0 && (f.Op == "le" || f.Op == "eq")
			}})
	}
	c.Check(n >= 1, "R-STATE", "tls.Conn.Read", "call of handlePostHandshakeMessage found", w.Pos(fn.Pos()), fmt.Sprint(n))
}

func init() {
	prev23 := round5Extras["C23"]
	round5Extras["C23"] = func(c *Ctx) { prev23(c); decryptErrorRule(c) }
	round5Extras["C24"] = keyShareLookupRule
	round5Extras["C25"] = drainHandRule
}

// resumeClientCertRule (C27): a session is resumed without client certificates in the ticket only if the Config in
// force for this connection (c.config, i.e. what GetConfigForClient returned) does not require them.
func resumeClientCertRule(c *Ctx) {
	w := c.W
	okFact := func(f Fact) bool {
		x := stripConv(f.X)
		// the ticket carries certificates
		if f.Y != nil && (f.Op == "ne" || f.Op == "gt") {
			if k, ok := intConst(f.Y); ok && k == 0 && strings.HasPrefix(Expr(x), "len(") && strings.Contains(strings.ToLower(Expr(x)), "certificate") {
				return true
			}
		}
		// the Config in force does not require them
		if f.Y == nil && f.Op == "false" {
			if cl := callOf(x); cl != nil && cl.Call.StaticCallee() != nil && cl.Call.StaticCallee().Name() == "requiresClientCert" && strings.HasSuffix(Expr(cl.Call.Args[0]), "c.config.ClientAuth") {
				return true
			}
		}
		if f.Y != nil && (f.Op == "lt" || f.Op == "le" || f.Op == "eq") && strings.HasSuffix(Expr(x), "c.config.ClientAuth") {
			if k, ok := intConst(f.Y); ok && (f.Op == "lt" && k <= 2 || f.Op == "le" && k <= 1 || f.Op == "eq" && k <= 1) {
				return true // NoClientCert / RequestClientCert
			}
		}
		return false
	}
	if fn := w.Fn(fnCFR12); fn != nil {
		c.Sites++
		c.Cut(CutSpec{Rule: "R-PRE", Fn: fn, Label: "resumes a ticket without client certificates only if c.config.ClientAuth does not require them", Target: TrueReturn(0, nil), Cut: okFact})
	} else {
		c.Undecided("R-PRE", fnCFR12, "anchor", "-", "not found")
	}
	if fn := w.Fn(fnCFR13); fn != nil {
		c.Sites++
		c.Cut(CutSpec{Rule: "R-PRE", Fn: fn, Label: "resumes a PSK without client certificates only if c.config.ClientAuth does not require them",
			Target: func(in ssa.Instruction, _ resolver) bool { return storeToLeaf(in, "Conn.didResume") }, Cut: okFact})
	} else {
		c.Undecided("R-PRE", fnCFR13, "anchor", "-", "not found")
	}
}

func init() {
	round5Extras["C27"] = resumeClientCertRule
}

// skxLogAfterCheckRule (C28): the client records the ServerKeyExchange in the handshake log only after
// processServerKeyExchange accepted it (the log is built from the key agreement object, which holds the wire's
// signature algorithm only once the message was processed to the end).
func skxLogAfterCheckRule(c *Ctx) {
	w := c.W
	fn := w.Fn("(*z/tls.clientHandshakeState).doFullHandshake")
	if fn == nil {
		c.Undecided("R-PRE", "tls.clientHandshakeState.doFullHandshake", "anchor", "-", "not found")
		return
	}
	n := 0
	for _, b := range fn.Blocks {
		for _, in := range b.Instrs {
			if !storeToLeaf(in, "ServerHandshake.ServerKeyExchange") {
				continue
			}
			n++
			c.Sites++
			c.Cut(CutSpec{Rule: "R-PRE", Fn: fn, Label: "the ServerKeyExchange is logged only after processServerKeyExchange returned nil", Target: isInstr(in),
				Cut: func(f Fact) bool {
					if f.Op != "nil" {
						return false
					}
					cc := callCommon(valueInstr(stripConv(f.X)))
					return cc != nil && cc.IsInvoke() && cc.Method.Name() == "processServerKeyExchange"
				}})
		}
	}
	c.Check(n >= 1, "R-PRE", "tls.clientHandshakeState.doFullHandshake", "store of handshakeLog.ServerKeyExchange found", w.Pos(fn.Pos()), fmt.Sprint(n))
}

func init() {
	round5Extras["C28"] = skxLogAfterCheckRule
}

// fingerprintPureRule (C29): the methods of ClientFingerprintConfiguration that a handshake runs before the
// ClientHello is marshalled (WriteToConfig, CheckImplementedExtensions, marshal) do not write into the slices the
// fingerprint holds: no element store and no append whose destination is a reslice (x[:0], x[:n] without a capacity
// limit) of one of the receiver's fields — the filtered copy would be built in the fingerprint's own backing array.
func fingerprintPureRule(c *Ctx) {
	w := c.W
	n := 0
	for _, fn := range w.FuncsOfPkg("z/tls") {
		if fn.Signature.Recv() == nil || len(fn.Blocks) == 0 || !strings.Contains(typeStr(fn.Signature.Recv().Type()), "ClientFingerprintConfiguration") {
			continue
		}
		n++
		recv := fn.Params[0]
		fromRecvField := func(v ssa.Value) (string, bool) {
			for d := 0; d < 6; d++ {
				switch x := v.(type) {
				case *ssa.Slice:
					if x.Max != nil {
						return "", false // x[:n:n]: an append reallocates
					}
					v = x.X
				case *ssa.UnOp:
					if fa, ok := x.X.(*ssa.FieldAddr); ok && x.Op == token.MUL && fa.X == ssa.Value(recv) {
						return fieldName(fa), true
					}
					return "", false
				case *ssa.Phi:
					for _, e := range x.Edges {
						if s, ok := e.(*ssa.Slice); ok {
							v = s
						}
					}
					if _, still := v.(*ssa.Phi); still {
						return "", false
					}
				default:
					return "", false
				}
			}
			return "", false
		}
		var bad []string
		for _, b := range fn.Blocks {
			for _, in := range b.Instrs {
				switch x := in.(type) {
				case *ssa.Store:
					if ia, ok := x.Addr.(*ssa.IndexAddr); ok {
						if f, ok := fromRecvField(ia.X); ok {
							bad = append(bad, w.InstrPos(in)+": element store into "+f)
						}
					}
				case *ssa.Call:
					if bi, ok := x.Call.Value.(*ssa.Builtin); ok && bi.Name() == "append" && len(x.Call.Args) > 0 {
						if _, isSlice := x.Call.Args[0].(*ssa.Slice); isSlice || isPhi(x.Call.Args[0]) {
							if f, ok := fromRecvField(x.Call.Args[0]); ok {
								bad = append(bad, w.InstrPos(in)+": append into a reslice of "+f)
							}
						}
					}
				}
			}
		}
		c.Sites++
		c.Check(len(bad) == 0, "R-PURE", short(FuncName(fn)), "does not write into the slices held by the fingerprint", w.Pos(fn.Pos()), strings.Join(bad, "; "))
	}
	c.Check(n >= 3, "R-PURE", "z/tls", "methods of ClientFingerprintConfiguration found", "-", fmt.Sprint(n))
}

func isPhi(v ssa.Value) bool { _, ok := v.(*ssa.Phi); return ok }

func init() {
	round5Extras["C29"] = fingerprintPureRule
}

// hashTableRule (C32): every hash identifier in the signature-and-hash lists the TLS 1.2 code can accept from a peer
// (supportedSKXSignatureAlgorithms, defaultSKXSignatureAlgorithms, supportedClientCertSignatureAlgorithms) has an
// entry in supportedHashFunc: the lookup of an accepted identifier that is missing yields crypto.Hash(0), and
// hashing with it panics inside the handshake.
func hashTableRule(c *Ctx) {
	w := c.W
	rows, _, pos := w.VarRows("z/tls", "supportedHashFunc")
	keys := map[string]bool{}
	for _, r := range rows {
		if len(r) >= 1 && r[0].Const != nil {
			keys[r[0].Const.ExactString()] = true
		}
	}
	c.Check(len(keys) >= 5, "R-TABLE", "z/tls", "supportedHashFunc read (hash identifier -> crypto.Hash)", w.Pos(pos), fmt.Sprint(len(keys)))
	for _, tab := range []string{"supportedSKXSignatureAlgorithms", "defaultSKXSignatureAlgorithms", "supportedClientCertSignatureAlgorithms"} {
		rs, _, p2 := w.VarRows("z/tls", tab)
		var missing []string
		for _, r := range rs {
			if len(r) != 2 || r[1].Const == nil {
				missing = append(missing, "unreadable row")
				continue
			}
			if !keys[r[1].Const.ExactString()] {
				missing = append(missing, r[1].String())
			}
		}
		c.Sites++
		c.Check(len(rs) >= 2 && len(missing) == 0, "R-TABLE", "z/tls", "every hash identifier of "+tab+" has an entry in supportedHashFunc", w.Pos(p2), fmt.Sprintf("%d rows; missing: %v", len(rs), missing))
	}
}

// subtreeIPRule (C33): GeneralSubtreeIP.UnmarshalJSON stores the address and the mask as net.ParseCIDR returned them.
func subtreeIPRule(c *Ctx) {
	w := c.W
	fn := w.Fn("(*z/x509.GeneralSubtreeIP).UnmarshalJSON")
	if fn == nil {
		c.Undecided("R-PROV", "(*x509.GeneralSubtreeIP).UnmarshalJSON", "anchor", "-", "not found")
		return
	}
	n := 0
	for _, b := range fn.Blocks {
		for _, in := range b.Instrs {
			st, ok := in.(*ssa.Store)
			if !ok {
				continue
			}
			fa, ok := st.Addr.(*ssa.FieldAddr)
			if !ok {
				continue
			}
			leaf := fieldLeaf(fieldName(fa))
			if leaf != "IP" && leaf != "Mask" || !strings.Contains(Expr(fa.X), "Data") {
				continue
			}
			n++
			c.Sites++
			e := Expr(st.Val)
			want := map[string]string{"IP": "#0", "Mask": "#1.Mask"}[leaf]
			okv := strings.HasPrefix(e, "net.ParseCIDR(") && strings.HasSuffix(e, want)
			c.Check(okv, "R-PROV", "(*x509.GeneralSubtreeIP).UnmarshalJSON", "Data."+leaf+" is what net.ParseCIDR returned", w.InstrPos(in), e)
		}
	}
	c.Check(n == 2, "R-PROV", "(*x509.GeneralSubtreeIP).UnmarshalJSON", "stores of Data.IP and Data.Mask found", w.Pos(fn.Pos()), fmt.Sprint(n))
}

// stateUnderLockRule (C34): the exported methods of Conn call connectionStateLocked only with handshakeMutex held.
func stateUnderLockRule(c *Ctx) {
	w := c.W
	target := w.Fn("(*z/tls.Conn).connectionStateLocked")
	if target == nil {
		c.Undecided("R-LOCK", "(*tls.Conn).connectionStateLocked", "anchor", "-", "not found")
		return
	}
	n := 0
	for _, cl := range w.staticCallers(target) {
		fn := cl.Parent()
		// callers inside the handshake run under the lock Handshake took; the public accessors of Conn take it themselves
		if fn.Signature.Recv() == nil || !strings.HasSuffix(typeStr(fn.Signature.Recv().Type()), "tls.Conn") || !token.IsExported(fn.Name()) {
			continue
		}
		n++
		c.Sites++
		the := cl
		c.Cut(CutSpec{Rule: "R-LOCK", Fn: fn, Label: "connectionStateLocked is called only after handshakeMutex.Lock (exported accessor)", Target: isInstr(the), MinTargets: 1,
			Barrier: func(in ssa.Instruction) bool {
				cc := callCommon(in)
				return cc != nil && cc.StaticCallee() != nil && cc.StaticCallee().Name() == "Lock" && len(cc.Args) > 0 && strings.HasSuffix(Expr(cc.Args[0]), ".handshakeMutex")
			}})
	}
	c.Check(n >= 1, "R-LOCK", "(*tls.Conn).connectionStateLocked", "callers found", w.Pos(target.Pos()), fmt.Sprint(n))
}

func init() {
	round5Extras["C32"] = hashTableRule
	round5Extras["C33"] = subtreeIPRule
	round5Extras["C34"] = stateUnderLockRule
}

// pskAbortRule (C31): the TLS 1.3 server aborts the handshake from checkForResumption only for a ClientHello whose
// PSK offer is malformed as a whole (identity and binder counts differ) or after one of its own tickets decrypted
// (then a wrong binder is an attack); an offer it cannot use (unknown key, other hash, expired) is skipped and the
// handshake falls back to a full one.
func pskAbortRule(c *Ctx) {
	w := c.W
	fn := w.Fn(fnCFR13)
	if fn == nil {
		c.Undecided("R-CUT", fnCFR13, "anchor", "-", "not found")
		return
	}
	c.Sites++
	c.Cut(CutSpec{Rule: "R-CUT", Fn: fn, Label: "returns an error only for differing identity/binder counts or after a ticket decrypted", Target: NonNilReturn(0, nil), MinTargets: 2,
		Cut: func(f Fact) bool {
			if f.Op == "ne" && f.Y != nil {
				a, b := Expr(f.X), Expr(f.Y)
				if strings.HasPrefix(a, "len(") && strings.HasPrefix(b, "len(") && strings.Contains(a+b, "pskIdentities") && strings.Contains(a+b, "pskBinders") {
					return true
				}
			}
			if f.Op == "nonnil" {
				x := stripConv(f.X)
				if ex, ok := x.(*ssa.Extract); ok {
					x = ex.Tuple
				}
				if cl := callOf(x); cl != nil && cl.Call.StaticCallee() != nil && cl.Call.StaticCallee().Name() == "decryptTicket" {
					return true
				}
			}
			return false
		}})
}

func init() {
	round5Extras["C31"] = pskAbortRule
}

var moduleFuncNames map[string]bool

// moduleHasFunc: is there still a function with this short canonical name anywhere in the module?
func (w *World) moduleHasFunc(name string) bool {
	if moduleFuncNames == nil {
		moduleFuncNames = map[string]bool{}
		for fn := range w.AllFuncs() {
			if InModule(fn) {
				moduleFuncNames[short(FuncName(fn))] = true
			}
		}
	}
	return moduleFuncNames[name]
}
