package main

import (
	"fmt"
	"go/token"
	"go/types"
	"sort"
	"strings"

	"golang.org/x/tools/go/ssa"
)

var _ = token.NoPos
var _ = sort.Strings
var _ = fmt.Sprint

// partialCopy: a struct value built field by field in fn where at least one field is taken from the same field of
// another value of the same type, while other fields of the type are not assigned at all: the rebuilt value silently
// resets them (a "defensive copy" that forgets a field).
type partialCopy struct {
	At      ssa.Instruction
	Type    string
	Source  string
	Missing []string
}

func partialCopies(fn *ssa.Function) []partialCopy {
	var out []partialCopy
	for _, b := range fn.Blocks {
		for _, in := range b.Instrs {
			al, ok := in.(*ssa.Alloc)
			if !ok {
				continue
			}
			pt, ok := al.Type().Underlying().(*types.Pointer)
			if !ok {
				continue
			}
			st, ok := pt.Elem().Underlying().(*types.Struct)
			if !ok || st.NumFields() < 2 {
				continue
			}
			set := map[int]bool{}
			whole := false
			srcs := map[string]int{}
			for _, r := range *al.Referrers() {
				switch x := r.(type) {
				case *ssa.Store:
					if x.Addr == ssa.Value(al) {
						whole = true
					}
				case *ssa.FieldAddr:
					for _, r2 := range *x.Referrers() {
						s2, ok := r2.(*ssa.Store)
						if !ok || s2.Addr != ssa.Value(x) {
							continue
						}
						set[x.Field] = true
						// the stored value is field x.Field of another value of the same type
						var from ssa.Value
						switch v := s2.Val.(type) {
						case *ssa.Field:
							if v.Field == x.Field {
								from = v.X
							}
						case *ssa.UnOp:
							if fa, ok := v.X.(*ssa.FieldAddr); ok && v.Op == token.MUL && fa.Field == x.Field {
								from = fa.X
							}
						}
						if from != nil {
							ft := from.Type()
							if p, ok := ft.Underlying().(*types.Pointer); ok {
								ft = p.Elem()
							}
							if types.Identical(ft, pt.Elem()) {
								srcs[Expr(from)]++
							}
						}
					}
				}
			}
			if whole || len(srcs) == 0 {
				continue
			}
			var missing []string
			for i := 0; i < st.NumFields(); i++ {
				f := st.Field(i)
				if set[i] || f.Name() == "_" || strings.HasPrefix(typeStr(f.Type()), "sync.") {
					continue
				}
				missing = append(missing, f.Name())
			}
			if len(missing) == 0 {
				continue
			}
			var ss []string
			for s := range srcs {
				ss = append(ss, s)
			}
			sort.Strings(ss)
			out = append(out, partialCopy{At: in, Type: typeStr(pt.Elem()), Source: strings.Join(ss, ","), Missing: missing})
		}
	}
	return out
}

func init() {
	surveyFns["partialcopy"] = func(w *World, arg string) {
		for fn := range w.AllFuncs() {
			if !InModule(fn) || len(fn.Blocks) == 0 {
				continue
			}
			for _, pc := range partialCopies(fn) {
				fmt.Printf("%s %s: %s rebuilt from %s without %v\n", w.InstrPos(pc.At), short(FuncName(fn)), pc.Type, pc.Source, pc.Missing)
			}
		}
	}
}

var round5Extras = map[string]func(*Ctx){}

func init() {
	round5Extras["C05"] = c05Extras5
	round5Extras["C01"] = func(c *Ctx) { nonEmptyIntegerRule(c) }
}

// c05Extras5: no creation function of x509 rebuilds a struct from another value of its type with fields left out.
func c05Extras5(c *Ctx) {
	w := c.W
	n := 0
	for _, fn := range w.FuncsOfPkg("z/x509") {
		nm := fn.Name()
		if !(strings.HasPrefix(nm, "Create") || strings.HasPrefix(nm, "build") || strings.HasPrefix(nm, "marshal") || strings.HasPrefix(nm, "Marshal")) || len(fn.Blocks) == 0 {
			continue
		}
		n++
		pcs := partialCopies(fn)
		for _, pc := range pcs {
			c.Fail("R-TABLE", short(FuncName(fn)), "a "+pc.Type+" rebuilt from "+pc.Source+" carries every field", w.InstrPos(pc.At), "not assigned: "+strings.Join(pc.Missing, ", "))
		}
		if len(pcs) == 0 {
			c.Sites++
			c.OK("R-TABLE", short(FuncName(fn)), "no struct is rebuilt from a value of its own type with fields left out", w.Pos(fn.Pos()), "")
		}
	}
	c.Check(n >= 8, "R-TABLE", "z/x509", "creation functions found (Create*, build*, marshal*)", "-", fmt.Sprint(n))
}

// nonEmptyIntegerRule: the minimal-INTEGER checks accept only behind a branch establishing len(bytes) >= 1.
func nonEmptyIntegerRule(c *Ctx) {
	w := c.W
	nonEmpty := func(f Fact) bool {
		if f.Y == nil || !LenOf(Param("bytes"))(stripConv(f.X)) {
			return false
		}
		k, ok := intConst(f.Y)
		if !ok {
			return false
		}
		switch f.Op {
		case "ne":
			return k == 0
		case "gt":
			return k >= 0
		case "ge", "eq":
			return k >= 1
		}
		return false
	}
	for _, x := range []struct {
		fn  string
		tgt func(ssa.Instruction, resolver) bool
	}{{"z/cryptobyte.checkASN1Integer", TrueReturn(0, nil)}, {"z/encoding/asn1.checkInteger", SuccessReturn(0, nil)}} {
		fn := w.Fn(x.fn)
		if fn == nil {
			c.Undecided("R-GUARD", x.fn, "anchor", "-", "not found")
			continue
		}
		c.Sites++
		c.Cut(CutSpec{Rule: "R-GUARD", Fn: fn, Label: "accepts only behind a branch establishing a non-empty octet string (callers index bytes[0])", Target: x.tgt, Cut: nonEmpty})
	}
}
