package main

import "golang.org/x/tools/go/ssa"

// loopMark is "loop" for a block that lies on a cycle of its function's CFG and "once" otherwise.
func loopMark(b *ssa.BasicBlock) string {
	seen := map[*ssa.BasicBlock]bool{}
	work := append([]*ssa.BasicBlock{}, b.Succs...)
	for len(work) > 0 {
		x := work[len(work)-1]
		work = work[:len(work)-1]
		if x == b {
			return "loop"
		}
		if seen[x] {
			continue
		}
		seen[x] = true
		work = append(work, x.Succs...)
	}
	return "once"
}
