package main

import (
	"go/ast"
	"fmt"
	"go/token"
	"sort"
	"strings"

	"golang.org/x/tools/go/ssa"
)

const (
	fnRSAPKCS   = "z/rsa.VerifyPKCS1v15"
	fnRSAPSS    = "z/rsa.VerifyPSS"
	fnEMSAPSS   = "z/rsa.emsaPSSVerify"
	fnDSAVerify = "z/dsa.Verify"
	fnECDSAV    = "crypto/ecdsa.Verify"
	fnEDV       = "golang.org/x/crypto/ed25519.Verify"
	fnIsPSS     = "(z/x509.SignatureAlgorithm).isRSAPSS"
	fnSignParms = "z/x509.signingParamsForPublicKey"
	fnSignerSig = "(crypto.Signer).Sign"
)

func init() {
	register(&propDef{
		ID: "C03",
		Explain: "R-TABLE: signatureAlgorithmDetails (algorithm->hash) agrees with the hash switch of CheckSignatureFromKey and every table algorithm has an arm; isRSAPSS's arms are exactly the rows carrying the RSASSA-PSS OID. " +
			"R-CUT: CheckSignatureFromKey returns nil only across the success edge of the verifier that matches the key's dynamic type, fed with hash(hashType, signed) and the caller's signature, PSS chosen exactly on isRSAPSS; " +
			"rsa.VerifyPKCS1v15 returns nil only past bytes.Equal(encrypt(pub,sig), constructed EM) and the length test; emsaPSSVerify only past every RFC 8017 9.1.2 test (lengths, 0xbc trailer, leading-bit mask, zero padding, 0x01 separator, H == H'), " +
			"with M' hashed as prefix||mHash||salt; VerifyPSS returns emsaPSSVerify over encrypt(pub,sig); dsa.Verify returns true only past 0<r<q, 0<s<q (each tested on its own variable) and v==r. " +
			"Sign-site agreement: every crypto.Signer.Sign call in x509 whose algorithm identifier comes from signingParamsForPublicKey with a caller-chosen algorithm selects *rsa.PSSOptions on the isRSAPSS edge.",
		NotCov: "Correctness of the modular arithmetic and of the hash functions; that every mutated signature is rejected (only the listed tests' presence on all paths is decided).",
		Floor:  40,
		Run:    runC03,
	})
}

func runC03(c *Ctx) {
	c03Extras3(c)
	c.sigTables()
	c.checkSigFromKey()
	c.rsaVerifiers()
	c.dsaVerify()
	c.signSites()
}

// ---- tables

func (c *Ctx) sigTables() {
	w := c.W
	rows, p, pos := w.VarRows("z/x509", "signatureAlgorithmDetails")
	if len(rows) < 10 {
		c.Fail("R-TABLE", "z/x509", "signatureAlgorithmDetails rows extracted", w.Pos(pos), fmt.Sprint(len(rows)))
		return
	}
	algoHash := map[string]string{}  // algo const -> hash const
	algoName := map[string]string{}
	pssAlgos := map[string]bool{}
	for _, r := range rows {
		if len(r) == 4 && r[3].Const == nil && r[3].Obj != nil {
			// a package variable initialised once with a constant (cryptoNoDigest)
			if cv, ok := w.VarInitConst(r[3].Obj); ok {
				r[3].Const = cv
			}
		}
		if len(r) != 4 || r[0].Const == nil || r[3].Const == nil {
			c.Fail("R-TABLE", "z/x509", "signatureAlgorithmDetails row shape", w.Pos(pos), fmt.Sprint(r))
			return
		}
		k := r[0].Key()
		if old, ok := algoHash[k]; ok && old != r[3].Key() {
			c.Fail("R-TABLE", "z/x509", "signatureAlgorithmDetails gives one hash per algorithm", w.Pos(pos), r[0].String())
		}
		algoHash[k] = r[3].Key()
		algoName[k] = r[0].String()
		if w.OIDKey(p, r[1]) == "1.2.840.113549.1.1.10" {
			pssAlgos[k] = true
		}
	}
	c.Sites += len(rows)
	fd, fp := w.FuncDecl("z/x509", "CheckSignatureFromKey")
	if fd == nil {
		c.Undecided("R-TABLE", "z/x509.CheckSignatureFromKey", "declaration", "-", "not found")
		return
	}
	sws := SwitchesOn(fp, fd.Body, "algo")
	retStyle := false
	if len(sws) == 0 {
		// the switch may have moved into an unexported helper that is handed algo and returns (hash, error)
		if fn := w.Fn(fnCSFK); fn != nil {
			for _, b := range fn.Blocks {
				for _, in := range b.Instrs {
					cl, ok := in.(*ssa.Call)
					if !ok || cl.Call.StaticCallee() == nil || !InModule(cl.Call.StaticCallee()) || cl.Call.StaticCallee().Pkg != fn.Pkg {
						continue
					}
					h := cl.Call.StaticCallee()
					for i, a := range cl.Call.Args {
						if !Param("algo")(a) || i >= len(h.Params) || h.Signature.Recv() != nil {
							continue
						}
						if hd, hp := w.FuncDecl("z/x509", h.Name()); hd != nil {
							if s2 := SwitchesOn(hp, hd.Body, h.Params[i].Name()); len(s2) == 1 && len(sws) == 0 {
								sws, fd, fp, retStyle = s2, hd, hp, true
							}
						}
					}
				}
			}
		}
	}
	if len(sws) != 1 {
		c.Fail("R-TABLE", "z/x509.CheckSignatureFromKey", "one switch over algo", w.Pos(fd.Pos()), fmt.Sprint(len(sws)))
		return
	}
	armHash := map[string]string{}
	rejected := map[string]bool{}
	for _, arm := range sws[0] {
		if arm.Default {
			continue
		}
		hs := AssignedIn(fp, arm.Body, "hashType")
		if retStyle {
			// `return crypto.SHAxxx, nil` selects the hash; `return 0, err` rejects
			hs = nil
			if rets := ReturnsIn(arm.Body); len(rets) == 1 && len(rets[0].Results) == 2 {
				if id, ok := rets[0].Results[1].(*ast.Ident); ok && id.Name == "nil" {
					hs = []TabVal{evalCell(fp, rets[0].Results[0])}
				}
			}
		}
		for _, cs := range arm.Cases {
			switch {
			case len(hs) == 1 && hs[0].Const != nil:
				armHash[cs.Key()] = hs[0].Key()
			case len(ReturnsIn(arm.Body)) > 0:
				rejected[cs.Key()] = true
			default:
				c.Fail("R-TABLE", "z/x509.CheckSignatureFromKey", "switch arm assigns one constant hash or rejects", w.Pos(arm.Pos), cs.String())
			}
		}
	}
	var keys []string
	for k := range algoHash {
		keys = append(keys, k)
	}
	sort.Strings(keys)
	for _, k := range keys {
		name := algoName[k]
		if rejected[k] {
			c.OK("R-TABLE", "z/x509.CheckSignatureFromKey", "algorithm "+name+" is rejected outright", w.Pos(fd.Pos()), "")
			continue
		}
		h, ok := armHash[k]
		c.Check(ok && h == algoHash[k], "R-TABLE", "z/x509.CheckSignatureFromKey", "verification hash for "+name+" equals the table's", w.Pos(fd.Pos()), fmt.Sprintf("switch:%s table:%s", h, algoHash[k]))
	}
	for k := range armHash {
		if _, ok := algoHash[k]; !ok {
			c.Fail("R-TABLE", "z/x509.CheckSignatureFromKey", "switch arm for an algorithm that is not in signatureAlgorithmDetails", w.Pos(fd.Pos()), k)
		}
	}
	// isRSAPSS
	pd, pp := w.FuncDecl("z/x509", "SignatureAlgorithm.isRSAPSS")
	if pd == nil {
		c.Undecided("R-TABLE", fnIsPSS, "declaration", "-", "not found")
		return
	}
	psw := SwitchesOn(pp, pd.Body, "algo")
	trueSet := map[string]bool{}
	okShape := len(psw) == 1
	if okShape {
		for _, arm := range psw[0] {
			rets := ReturnsIn(arm.Body)
			if len(rets) != 1 || len(rets[0].Results) != 1 {
				okShape = false
				continue
			}
			v := evalCell(pp, rets[0].Results[0])
			if v.Const == nil {
				okShape = false
				continue
			}
			if v.Const.ExactString() == "true" {
				if arm.Default {
					okShape = false
				}
				for _, cs := range arm.Cases {
					trueSet[cs.Key()] = true
				}
			}
		}
	}
	same := okShape && len(trueSet) == len(pssAlgos)
	for k := range pssAlgos {
		if !trueSet[k] {
			same = false
		}
	}
	c.Check(same, "R-TABLE", fnIsPSS, "isRSAPSS is true exactly for the algorithms whose table OID is RSASSA-PSS", w.Pos(pd.Pos()), fmt.Sprintf("switch:%d table:%d", len(trueSet), len(pssAlgos)))
	// ocsp's private table carries no PSS rows (its CreateResponse signs PKCS#1 v1.5 / ECDSA only)
	orows, op, opos := w.VarRows(pkOCSP, "signatureAlgorithmDetails")
	okO := len(orows) > 0
	for _, r := range orows {
		if len(r) >= 2 && w.OIDKey(op, r[1]) == "1.2.840.113549.1.1.10" {
			okO = false
		}
		if len(r) >= 1 && r[0].Const != nil && pssAlgos[r[0].Key()] {
			okO = false
		}
	}
	c.Check(okO, "R-TABLE", pkOCSP, "ocsp's signing table has no RSA-PSS rows (CreateResponse never needs PSSOptions)", w.Pos(opos), fmt.Sprint(len(orows)))
}

// ---- CheckSignatureFromKey

func (c *Ctx) checkSigFromKey() {
	w := c.W
	fn := w.Fn(fnCSFK)
	if fn == nil {
		c.Undecided("R-CUT", fnCSFK, "anchor", "-", "not found")
		return
	}
	keyOf := func(v ssa.Value, typ string) bool { // v derives from publicKey.(typ)
		for x := range backClosure(v, func(y ssa.Value) []ssa.Value {
			switch z := y.(type) {
			case *ssa.Extract:
				return []ssa.Value{z.Tuple}
			case *ssa.UnOp:
				return []ssa.Value{z.X}
			case *ssa.FieldAddr:
				return []ssa.Value{z.X}
			}
			return nil
		}) {
			if ta, ok := x.(*ssa.TypeAssert); ok && Param("publicKey")(ta.X) && strings.HasSuffix(typeStr(ta.AssertedType), typ) {
				return true
			}
		}
		return false
	}
	digestOK := func(v ssa.Value) bool {
		cl := callOf(v)
		if cl == nil || !nameIn(calleeName(&cl.Call), []string{"z/x509.hash"}) || !Param("signed")(cl.Call.Args[1]) {
			return false
		}
		// the hash is chosen per algorithm (constants of the switch, or the result of an in-module helper holding
		// that switch), never computed from the algorithm number itself
		h := stripConv(cl.Call.Args[0])
		if ex, ok := h.(*ssa.Extract); ok {
			h = ex.Tuple
		}
		if hc := callOf(h); hc != nil && hc.Call.StaticCallee() != nil && InModule(hc.Call.StaticCallee()) {
			return true
		}
		return hasAll(Deps(cl.Call.Args[0]), "param:algo") == false
	}
	type ver struct {
		name, keyType string
		isErr         bool
	}
	vers := []ver{{fnRSAPSS, "rsa.PublicKey", true}, {fnRSAPKCS, "rsa.PublicKey", true}, {fnDSAVerify, "dsa.PublicKey", false}, {fnECDSAV, "ecdsa.PublicKey", false}, {fnEDV, "ed25519.PublicKey", false}}
	var guards []FP
	for _, v := range vers {
		calls := callsIn(fn, v.name)
		c.Check(len(calls) >= 1, "R-CUT", fnCSFK, "verifier "+short(expand(v.name))+" is called", w.Pos(fn.Pos()), fmt.Sprint(len(calls)))
		for _, in := range calls {
			c.Sites++
			cl := in.(*ssa.Call)
			a := cl.Call.Args
			okArgs := keyOf(a[0], v.keyType) || (v.name == fnECDSAV && hasAll(Deps(a[0]), "field:AugmentedECDSA.Pub"))
			det := ""
			switch v.name {
			case fnRSAPSS, fnRSAPKCS:
				okArgs = okArgs && digestOK(a[2]) && Param("signature")(a[3]) && sameVal(a[1], callOf(a[2]).Call.Args[0])
				det = Expr(a[2])
			case fnDSAVerify, fnECDSAV:
				okArgs = okArgs && digestOK(a[1]) && sigComponent(fn, a[2], "R") && sigComponent(fn, a[3], "S")
				det = Expr(a[2]) + "," + Expr(a[3])
			case fnEDV:
				okArgs = okArgs && digestOK(a[1]) && Param("signature")(a[2])
			}
			c.Check(okArgs, "R-PROV", fnCSFK, "arguments of "+short(expand(v.name))+": key of the matching dynamic type, hash(hashType, signed), the caller's signature ["+w.InstrPos(in)+"]", w.InstrPos(in), det)
		}
		if v.isErr {
			guards = append(guards, IsNil(ResultOf(-1, v.name)))
		} else {
			guards = append(guards, IsTrue(ResultOf(-1, v.name)))
		}
	}
	all := AnyF(guards...)
	c.Cut(CutSpec{Fn: fn, Label: "nil only across the success edge of a signature verifier", Target: SuccessReturn(0, all), Cut: all})
	// PSS selection
	for _, in := range callsIn(fn, fnRSAPSS) {
		c.Cut(CutSpec{Fn: fn, Label: "VerifyPSS chosen only on algo.isRSAPSS()", Target: isInstr(in), Cut: IsTrue(ResultOfWith(-1, 0, fn.Params[1], fnIsPSS))})
		cl := in.(*ssa.Call)
		opt := Expr(cl.Call.Args[4])
		_ = opt
		// salt length equals hash
		okSalt := false
		if al, ok := cl.Call.Args[4].(*ssa.Alloc); ok {
			for _, ref := range *al.Referrers() {
				if fa, ok := ref.(*ssa.FieldAddr); ok && fieldName(fa) == "PSSOptions.SaltLength" {
					for _, r2 := range *fa.Referrers() {
						if st, ok := r2.(*ssa.Store); ok && w.IsConstNamed("z/rsa", "PSSSaltLengthEqualsHash")(st.Val) {
							okSalt = true
						}
					}
				}
			}
		}
		c.Check(okSalt, "R-PROV", fnCSFK, "PSS verification uses SaltLength = PSSSaltLengthEqualsHash", w.InstrPos(in), "")
	}
	for _, in := range callsIn(fn, fnRSAPKCS) {
		c.Cut(CutSpec{Fn: fn, Label: "VerifyPKCS1v15 chosen only when !algo.isRSAPSS()", Target: isInstr(in), Cut: IsFalse(ResultOfWith(-1, 0, fn.Params[1], fnIsPSS))})
	}
	// DSA / ECDSA: positive components; trailing data rejected for the plain key types
	for _, nm := range []string{fnDSAVerify, fnECDSAV} {
		for _, in := range callsIn(fn, nm) {
			cl := in.(*ssa.Call)
			for i, comp := range []string{"R", "S"} {
				x := cl.Call.Args[2+i]
				c.Cut(CutSpec{Fn: fn, Label: fmt.Sprintf("%s verified only with %s.Sign() > 0 [%s]", short(expand(nm)), comp, w.InstrPos(in)), Target: isInstr(in),
					Cut: Cmp(func(v ssa.Value) bool {
						return ResultOf(-1, "(*math/big.Int).Sign")(v) && Expr(callOf(v).Call.Args[0]) == Expr(x)
					}, "gt", ConstInt(0))})
			}
		}
	}
	// a missing/unsupported hash never verifies
	c.Cut(CutSpec{Fn: fn, Label: "an unavailable hash is rejected before hashing", Target: CallTo("z/x509.hash"),
		Cut: AnyF(IsTrue(ResultOf(-1, "(crypto.Hash).Available")), Cmp(func(v ssa.Value) bool { return true }, "eq", ConstInt(0)))})
	// wrappers return CheckSignatureFromKey's verdict
	wrap := func(name, want string) {
		f := w.Fn(name)
		if f == nil {
			c.Undecided("R-PROV", name, "anchor", "-", "not found")
			return
		}
		idx := f.Signature.Results().Len() - 1
		n := 0
		det := ""
		for v := range returnClosure(f, idx) {
			if Expr(v) == want {
				n++
			} else if cl := callOf(v); cl != nil {
				det = Expr(v)
			}
		}
		c.Check(n == 1, "R-PROV", name, "delegates to "+want, w.Pos(f.Pos()), det)
		g := IsNil(func(v ssa.Value) bool { return Expr(v) == want })
		c.Cut(CutSpec{Fn: f, Label: "nil only through " + want, Target: SuccessReturn(idx, g), Cut: g, MinTargets: -1})
	}
	wrap(fnCertCS, "x509.CheckSignatureFromKey(c.PublicKey,algo,signed,signature)")
	wrap("(*z/x509.Certificate).CheckCRLSignature", "(*x509.Certificate).CheckSignature(c,x509.GetSignatureAlgorithmFromAI(crl.SignatureAlgorithm),crl.TBSCertList.Raw,(encoding/asn1.BitString).RightAlign(crl.SignatureValue))")
	wrap("(*z/x509.RevocationList).CheckSignatureFrom", "(*x509.Certificate).CheckSignature(parent,rl.SignatureAlgorithm,rl.RawTBSRevocationList,rl.Signature)")
	wrap("(*z/x509.CertificateRequest).CheckSignature", "x509.CheckSignatureFromKey(c.PublicKey,c.SignatureAlgorithm,c.RawTBSCertificateRequest,c.Signature)")
	// CheckSignatureFrom: nil only through parent.CheckSignature over c's TBS and signature, after the issuer/subject and CA tests
	if f := w.Fn(fnCSF); f != nil {
		g := IsNil(func(v ssa.Value) bool {
			return Expr(v) == "(*x509.Certificate).CheckSignature(parent,c.SignatureAlgorithm,c.RawTBSCertificate,c.Signature)"
		})
		c.Check(len(callsIn(f, fnCertCS)) == 1, "R-CUT", fnCSF, "one parent.CheckSignature call", w.Pos(f.Pos()), "")
		c.Cut(CutSpec{Fn: f, Label: "nil only through parent.CheckSignature(c.SignatureAlgorithm, c.RawTBSCertificate, c.Signature)", Target: SuccessReturn(0, g), Cut: g, MinTargets: -1})
		c.Cut(CutSpec{Fn: f, Label: "signature checked only if parent.RawSubject equals c.RawIssuer", Target: CallTo(fnCertCS),
			Cut: IsTrue(func(v ssa.Value) bool { return Expr(v) == "bytes.Equal(parent.RawSubject,c.RawIssuer)" })})
		c.Cut(CutSpec{Fn: f, Label: "signature checked only if the parent may sign certificates (KeyUsage)", Target: CallTo(fnCertCS),
			Cut: AnyF(Cmp(LoadOfField("Certificate.KeyUsage"), "eq", ConstInt(0)), Cmp(func(v ssa.Value) bool { return strings.Contains(Expr(v), "parent.KeyUsage&") }, "ne", ConstInt(0)))})
		c.Cut(CutSpec{Fn: f, Label: "signature checked only if the parent is a CA (or the Entrust exception)", Target: CallTo(fnCertCS),
			Cut: AnyF(IsTrue(func(v ssa.Value) bool { return Expr(v) == "parent.IsCA" }), IsTrue(ResultOf(-1, "bytes.Equal")),
				func(f Fact) bool { // version != 3 && !BasicConstraintsValid
					return f.Op == "false" && Expr(f.X) == "parent.BasicConstraintsValid"
				})})
	} else {
		c.Undecided("R-CUT", fnCSF, "anchor", "-", "not found")
	}
}

// sigComponent: v is the load of field comp ("R"/"S") of a struct that was
// filled by asn1.Unmarshal(signature, &struct).
func sigComponent(fn *ssa.Function, v ssa.Value, comp string) bool {
	fa := loadedField(v)
	if fa == nil || !strings.HasSuffix(fieldName(fa), "."+comp) {
		return false
	}
	for _, in := range callsIn(fn, fnASN1Unmarh) {
		cc := callCommon(in)
		if !Param("signature")(cc.Args[0]) {
			continue
		}
		if mi, ok := cc.Args[1].(*ssa.MakeInterface); ok && mi.X == fa.X && instrDominates(in, fa) {
			return true
		}
	}
	return false
}

// ---- rsa

func (c *Ctx) rsaVerifiers() {
	w := c.W
	if f := w.Fn(fnRSAPKCS); f == nil {
		c.Undecided("R-CUT", fnRSAPKCS, "anchor", "-", "not found")
	} else {
		em := func(v ssa.Value) bool { return Expr(v) == "rsa.encrypt(pub,sig)#0" }
		exp := func(v ssa.Value) bool { return Expr(v) == "rsa.pkcs1v15ConstructEM(pub,hash,hashed)#0" }
		c.Cut(CutSpec{Fn: f, Label: "nil only past bytes.Equal(encrypt(pub,sig), pkcs1v15ConstructEM(pub,hash,hashed))", Target: SuccessReturn(0, nil),
			Cut: IsTrue(func(v ssa.Value) bool {
				if !ResultOf(-1, "bytes.Equal")(v) {
					return false
				}
				a := callOf(v).Call.Args
				return (em(a[0]) && exp(a[1])) || (em(a[1]) && exp(a[0]))
			})})
		c.Cut(CutSpec{Fn: f, Label: "nil only if len(sig) equals the modulus size", Target: SuccessReturn(0, nil),
			Cut: Cmp(ResultOf(-1, "(*z/rsa.PublicKey).Size"), "eq", LenOf(Param("sig")))})
		c.Cut(CutSpec{Fn: f, Label: "nil only if the public-key operation succeeded", Target: SuccessReturn(0, nil), Cut: IsNil(ResultOf(1, "z/rsa.encrypt"))})
		c.Cut(CutSpec{Fn: f, Label: "nil only if the expected encoding could be built", Target: SuccessReturn(0, nil), Cut: IsNil(ResultOf(1, "z/rsa.pkcs1v15ConstructEM"))})
	}
	if f := w.Fn(fnRSAPSS); f == nil {
		c.Undecided("R-CUT", fnRSAPSS, "anchor", "-", "not found")
	} else {
		g := IsNil(ResultOf(-1, fnEMSAPSS))
		c.Check(len(callsIn(f, fnEMSAPSS)) == 1, "R-CUT", fnRSAPSS, "one emsaPSSVerify call", w.Pos(f.Pos()), "")
		c.Cut(CutSpec{Fn: f, Label: "nil only through emsaPSSVerify", Target: SuccessReturn(0, g), Cut: g, MinTargets: -1})
		for _, in := range callsIn(f, fnEMSAPSS) {
			a := callCommon(in).Args
			d := Deps(a[1])
			ok := Param("digest")(a[0]) && hasAll(d, "call:rsa.encrypt", "param:sig", "param:pub") && Expr(a[2]) == "((*math/big.Int).BitLen(pub.N)-1)" &&
				Expr(a[3]) == "(*rsa.PSSOptions).saltLength(opts)" && Expr(a[4]) == "(crypto.Hash).New(hash)"
			c.Check(ok, "R-PROV", fnRSAPSS, "emsaPSSVerify(digest, encrypt(pub,sig) stripped, N.BitLen()-1, opts.saltLength(), hash.New())", w.InstrPos(in), Expr(a[2])+" ; "+Expr(a[3]))
		}
		c.Cut(CutSpec{Fn: f, Label: "EM verified only if len(sig) equals the modulus size", Target: CallTo(fnEMSAPSS),
			Cut: Cmp(ResultOf(-1, "(*z/rsa.PublicKey).Size"), "eq", LenOf(Param("sig")))})
		c.Cut(CutSpec{Fn: f, Label: "EM verified only if the public-key operation succeeded", Target: CallTo(fnEMSAPSS), Cut: IsNil(ResultOf(1, "z/rsa.encrypt"))})
		c.Cut(CutSpec{Fn: f, Label: "no constant nil return", Target: SuccessReturn(0, g), MinTargets: -1})
		// stripping: a byte is dropped only if it is zero
		for _, b := range f.Blocks {
			for _, in := range b.Instrs {
				if sl, ok := in.(*ssa.Slice); ok && sl.Low != nil && Expr(sl.Low) == "1" && sl.High == nil {
					c.Cut(CutSpec{Fn: f, Label: "a leading octet of EM is stripped only if it is zero", Target: isInstr(in),
						Cut: Cmp(func(v ssa.Value) bool { ia := loadedIndex(v); return ia != nil && Expr(ia.Index) == "0" }, "eq", ConstInt(0))})
				}
			}
		}
	}
	f := w.Fn(fnEMSAPSS)
	if f == nil {
		c.Undecided("R-CUT", fnEMSAPSS, "anchor", "-", "not found")
		return
	}
	succ := SuccessReturn(0, nil)
	idxLoad := func(base string, idx func(string) bool) VP {
		return func(v ssa.Value) bool {
			ia := loadedIndex(v)
			return ia != nil && Expr(ia.X) == base && idx(Expr(ia.Index))
		}
	}
	hLen := func(v ssa.Value) bool { return Expr(v) == "(hash.Hash).Size(hash)" }
	c.Cut(CutSpec{Fn: f, Label: "step 2: hLen == len(mHash)", Target: succ, Cut: Cmp(hLen, "eq", LenOf(Param("mHash")))})
	c.Cut(CutSpec{Fn: f, Label: "emLen == len(em)", Target: succ, Cut: Cmp(func(v ssa.Value) bool { return Expr(v) == "((emBits+7)/8)" }, "eq", LenOf(Param("em")))})
	c.Cut(CutSpec{Fn: f, Label: "step 3: emLen >= hLen + sLen + 2", Target: succ,
		Cut: Cmp(func(v ssa.Value) bool { return Expr(v) == "((emBits+7)/8)" }, "ge", func(v ssa.Value) bool {
			e := Expr(v)
			return strings.HasSuffix(e, "+2)") && strings.Contains(e, "(hash.Hash).Size(hash)") && strings.Contains(e, "sLen")
		})})
	c.Cut(CutSpec{Fn: f, Label: "step 4: rightmost octet is 0xbc", Target: succ,
		Cut: Cmp(idxLoad("em", func(s string) bool { return s == "(((emBits+7)/8)-1)" }), "eq", ConstInt(0xbc))})
	c.Cut(CutSpec{Fn: f, Label: "step 6: the leftmost 8*emLen-emBits bits of EM are zero", Target: succ,
		Cut: Cmp(func(v ssa.Value) bool {
			b, ok := v.(*ssa.BinOp)
			if !ok || b.Op != token.AND {
				return false
			}
			isEm0 := idxLoad("em", func(s string) bool { return s == "0" })
			isNotMask := func(x ssa.Value) bool {
				u, ok := x.(*ssa.UnOp)
				return ok && u.Op == token.XOR && hasAll(Deps(u.X), "param:emBits")
			}
			return (isEm0(b.X) && isNotMask(b.Y)) || (isEm0(b.Y) && isNotMask(b.X))
		}, "eq", ConstInt(0))})
	c.Cut(CutSpec{Fn: f, Label: "step 10: the padding octets of DB are zero", Target: succ,
		Cut: func(fc Fact) bool {
			// the loop over db[:psLen] is left normally (range exhausted), never with a non-zero octet
			return false
		}, MinTargets: 1, Start: Cmp(func(v ssa.Value) bool {
			ia := loadedIndex(v)
			return ia != nil && strings.HasPrefix(Expr(ia.X), "em[:") && !isConstIndex(ia.Index)
		}, "ne", ConstInt(0))})
	c.Cut(CutSpec{Fn: f, Label: "step 10: the octet after the padding is 0x01", Target: succ,
		Cut: Cmp(func(v ssa.Value) bool {
			ia := loadedIndex(v)
			return ia != nil && strings.HasPrefix(Expr(ia.X), "em[:") && strings.Contains(Expr(ia.Index), "-2)")
		}, "eq", ConstInt(1))})
	c.Cut(CutSpec{Fn: f, Label: "step 14: H == H'", Target: succ,
		Cut: IsTrue(func(v ssa.Value) bool {
			if !ResultOf(-1, "bytes.Equal")(v) {
				return false
			}
			a := callOf(v).Call.Args
			isH0 := func(x ssa.Value) bool {
				cl := callOf(x)
				return cl != nil && calleeName(&cl.Call) == fnHashSum && Param("hash")(cl.Call.Value) && isNilConst(cl.Call.Args[0])
			}
			isH := func(x ssa.Value) bool {
				sl, ok := x.(*ssa.Slice)
				return ok && Param("em")(sl.X) && sl.Low != nil && sl.High != nil && Expr(sl.High) == "(((emBits+7)/8)-1)"
			}
			return (isH0(a[0]) && isH(a[1])) || (isH0(a[1]) && isH(a[0]))
		})})
	// M' = prefix || mHash || salt, hashed before Sum
	var writes []ssa.Instruction
	var sum ssa.Instruction
	for _, b := range f.Blocks {
		for _, in := range b.Instrs {
			cc := callCommon(in)
			if cc == nil || !cc.IsInvoke() || !Param("hash")(cc.Value) {
				continue
			}
			switch cc.Method.Name() {
			case "Write":
				writes = append(writes, in)
			case "Sum":
				sum = in
			}
		}
	}
	okW := len(writes) == 3 && sum != nil
	det := ""
	if okW {
		a0, a1, a2 := callCommon(writes[0]).Args[0], callCommon(writes[1]).Args[0], callCommon(writes[2]).Args[0]
		det = Expr(a0) + " | " + Expr(a1) + " | " + Expr(a2)
		sl0, isSl := a0.(*ssa.Slice)
		okW = isSl && strings.Contains(typeStr(sl0.X.Type()), "[8]byte") && Param("mHash")(a1) && strings.HasPrefix(Expr(a2), "em[:") &&
			instrDominates(writes[0], writes[1]) && instrDominates(writes[1], writes[2]) && instrDominates(writes[2], sum)
		// the 8-byte prefix is never written (stays zero)
		if isSl {
			if al, ok := sl0.X.(*ssa.Alloc); ok {
				for _, ref := range *al.Referrers() {
					if _, isSt := ref.(*ssa.Store); isSt {
						okW = false
					}
					if ia, isIA := ref.(*ssa.IndexAddr); isIA {
						_ = ia
						okW = false
					}
				}
			}
		}
	}
	c.Check(okW, "R-LAYOUT", fnEMSAPSS, "H' = Hash(8 zero octets || mHash || salt)", w.Pos(f.Pos()), det)
}

func isConstIndex(v ssa.Value) bool { _, ok := v.(*ssa.Const); return ok }

// ---- dsa

func (c *Ctx) dsaVerify() {
	w := c.W
	f := w.Fn(fnDSAVerify)
	if f == nil {
		c.Undecided("R-CUT", fnDSAVerify, "anchor", "-", "not found")
		return
	}
	final := func(v ssa.Value) bool { // v.Cmp(r) == 0
		b, ok := v.(*ssa.BinOp)
		if !ok || b.Op != token.EQL {
			return false
		}
		cl := callOf(b.X)
		k, isC := intConst(b.Y)
		return cl != nil && calleeName(&cl.Call) == fnBigCmp && Param("r")(cl.Call.Args[1]) && isC && k == 0
	}
	tgt := TrueReturn(0, nil)
	onVar := func(callee, p string) VP {
		return func(v ssa.Value) bool {
			cl := callOf(v)
			return cl != nil && calleeName(&cl.Call) == callee && Param(p)(cl.Call.Args[0])
		}
	}
	for _, p := range []string{"r", "s"} {
		c.Cut(CutSpec{Fn: f, Label: "true only if " + p + " >= 1", Target: tgt, Cut: Cmp(onVar("(*math/big.Int).Sign", p), "ge", ConstInt(1))})
		c.Cut(CutSpec{Fn: f, Label: "true only if " + p + " < q", Target: tgt,
			Cut: Cmp(func(v ssa.Value) bool { return onVar(fnBigCmp, p)(v) && Expr(callOf(v).Call.Args[1]) == "pub.Parameters.Q" }, "lt", ConstInt(0))})
	}
	c.Cut(CutSpec{Fn: f, Label: "true only if P != 0", Target: tgt, Cut: Cmp(func(v ssa.Value) bool { return Expr(v) == "(*math/big.Int).Sign(pub.Parameters.P)" }, "ne", ConstInt(0))})
	c.Cut(CutSpec{Fn: f, Label: "true only if s is invertible mod q", Target: tgt, Cut: NonNil(ResultOf(-1, "(*math/big.Int).ModInverse"))})
	// every non-constant true return is the final comparison v == r
	ok, n := true, 0
	for _, b := range f.Blocks {
		if rt, isRt := b.Instrs[len(b.Instrs)-1].(*ssa.Return); isRt {
			v := rt.Results[0]
			if _, isC := boolConst(v); isC {
				continue
			}
			n++
			if !final(v) {
				ok = false
			}
		}
	}
	c.Check(ok && n == 1, "R-CUT", fnDSAVerify, "the only non-constant verdict is v.Cmp(r) == 0", w.Pos(f.Pos()), fmt.Sprint(n))
	for _, b := range f.Blocks {
		if rt, isRt := b.Instrs[len(b.Instrs)-1].(*ssa.Return); isRt {
			if bv, isC := boolConst(rt.Results[0]); isC && bv {
				c.Fail("R-CUT", fnDSAVerify, "constant true verdict", w.InstrPos(rt), "")
			}
		}
	}
}

// ---- sign sites

func (c *Ctx) signSites() {
	w := c.W
	n := 0
	for _, fn := range w.FuncsOfPkg("z/x509") {
		signs := callsIn(fn, fnSignerSig)
		if len(signs) == 0 {
			continue
		}
		params := callsIn(fn, fnSignParms)
		if len(params) == 0 {
			continue
		}
		req := callCommon(params[0]).Args[1]
		for _, in := range signs {
			n++
			c.Sites++
			name := FuncName(fn)
			cc := callCommon(in)
			opts := cc.Args[2]
			if _, isC := req.(*ssa.Const); isC {
				c.OK("R-TABLE", name, "sign site uses a constant (non-PSS) requested algorithm", w.InstrPos(in), Expr(req))
				continue
			}
			isPSSOpts := func(v ssa.Value) bool {
				mi, ok := v.(*ssa.MakeInterface)
				return ok && strings.HasSuffix(typeStr(mi.X.Type()), "rsa.PSSOptions")
			}
			tgt := func(i ssa.Instruction, res resolver) bool {
				return i == in && !isPSSOpts(res(opts))
			}
			c.Cut(CutSpec{Rule: "R-TABLE", Fn: fn, Label: "Sign receives *rsa.PSSOptions whenever the requested algorithm is RSA-PSS", Target: tgt, MinTargets: -1, Track: []ssa.Value{opts},
				Cut: AnyF(IsFalse(func(v ssa.Value) bool {
					return ResultOf(-1, fnIsPSS)(v) && Expr(callOf(v).Call.Args[0]) == Expr(req)
				}), Cmp(func(v ssa.Value) bool { return Expr(v) == Expr(req) }, "eq", ConstInt(0)))}) // 0 = "pick the key's default", never PSS
		}
	}
	c.Check(n >= 4, "R-TABLE", "z/x509", "crypto.Signer.Sign call sites enumerated", "-", fmt.Sprint(n))
}
