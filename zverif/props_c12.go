package main

import (
	"fmt"
	"strings"

	"golang.org/x/tools/go/ssa"
)

const (
	fnVWC       = "(*z/verifier.Verifier).VerifyWithContext"
	fnPFC       = "z/verifier.parentsFromChains"
	fnOneCRLChk = "(*z/x509/revocation/mozilla.OneCRL).Check"
	fnCRLSetChk = "(*z/x509/revocation/google.CRLSet).Check"
	fnIsRoot    = "(*z/verifier.Graph).IsRoot"
)

func init() {
	register(&propDef{
		ID: "C12",
		Explain: "R-PROV on every store to a VerificationResult field in VerifyWithContext (which call result, with which arguments, reaches which field) and " +
			"R-CUT on the flag stores: InRevocationSet=true only behind OneCRL.Check(c)!=nil or CRLSet.Check(c, hex(parent.SPKIFingerprint))!=nil and always after such a hit; " +
			"Parents from the list selected by Expired; NameError only under a non-empty name; the certificate-type decision chain; parentsFromChains picks chain[1] of chains with >= 2 elements.",
		NotCov: "The called functions' own behaviour (C07 FilterByDate, C11 WalkChains, C15 Check). Order of Parents (parentsFromChains ranges over a map) is not part of the statement.",
		Floor:  24,
		Run:    runC12,
	})
}

func runC12(c *Ctx) {
	w := c.W
	hostnameRules(c) // NameError/MatchesDomain are VerifyHostname's verdict
	c.DeadObligations(c.W.FuncsOfPkg("z/verifier"), "package verifier")
	c12Extras4(c)
	// InRevocationSet is OneCRL.Check / CRLSet.Check's verdict: the scan rules of C15 apply here too
	c.borrow(runC15, func(o *Obligation) bool { return strings.Contains(o.Func, "OneCRL") || strings.Contains(o.Func, "CRLSet") })
	fn := w.Fn(fnVWC)
	if fn == nil {
		c.Undecided("R-PROV", fnVWC, "anchor", "-", "not found")
		return
	}
	stores := map[string][]FieldWrite{}
	for f, ws := range w.FieldWrites() {
		if !strings.HasPrefix(f, "VerificationResult.") {
			continue
		}
		for _, wr := range ws {
			if wr.Fn == fn {
				stores[strings.TrimPrefix(f, "VerificationResult.")] = append(stores[strings.TrimPrefix(f, "VerificationResult.")], wr)
			}
		}
	}
	pos := func(wr FieldWrite) string { return w.InstrPos(wr.In) }
	one := func(field string) (FieldWrite, bool) {
		ws := stores[field]
		if len(ws) != 1 {
			c.Fail("R-PROV", fnVWC, "exactly one store to "+field, w.Pos(fn.Pos()), fmt.Sprintf("%d stores", len(ws)))
			return FieldWrite{}, false
		}
		c.Sites++
		return ws[0], true
	}
	isVerifyTime := func(v ssa.Value) bool { return Expr(v) == "opts.VerifyTime" }
	// chain lists
	for k, f := range []string{"CurrentChains", "ExpiredChains", "NeverValidChains"} {
		wr, ok := one(f)
		if !ok {
			continue
		}
		good := false
		if ex, isEx := wr.Val.(*ssa.Extract); isEx && ex.Index == k {
			if cl, isCl := ex.Tuple.(*ssa.Call); isCl && nameIn(calleeName(&cl.Call), []string{fnFilterByDate}) {
				a0 := callOf(cl.Call.Args[0])
				good = a0 != nil && nameIn(calleeName(&a0.Call), []string{fnWalk}) && Expr(a0.Call.Args[0]) == "v.PKI" && Param("c")(a0.Call.Args[1]) && isVerifyTime(cl.Call.Args[1])
			}
		}
		c.Check(good, "R-PROV", fnVWC, fmt.Sprintf("%s = FilterByDate(PKI.WalkChains(c), opts.VerifyTime)#%d", f, k), pos(wr), Expr(wr.Val))
	}
	if wr, ok := one("ValidAtExpirationChains"); ok {
		good := false
		det := Expr(wr.Val)
		if ex, isEx := wr.Val.(*ssa.Extract); isEx && ex.Index == 0 {
			if cl, isCl := ex.Tuple.(*ssa.Call); isCl && nameIn(calleeName(&cl.Call), []string{fnFilterByDate}) {
				// allChains = append(append(append(nil, Current...), Expired...), NeverValid...)
				var spreads []string
				v := cl.Call.Args[0]
				for {
					ap, isAp := v.(*ssa.Call)
					if !isAp || isBuiltinCall(ap, "append") == nil {
						break
					}
					vals, sp := appended(ap)
					if !sp {
						spreads = append(spreads, "?")
					} else {
						spreads = append([]string{Expr(vals[0])}, spreads...)
					}
					v = ap.Call.Args[0]
				}
				lists := strings.Join(spreads, ",")
				texp := Expr(cl.Call.Args[1])
				good = isNilConst(v) && lists == "alloc(*verifier.VerificationResult).CurrentChains,alloc(*verifier.VerificationResult).ExpiredChains,alloc(*verifier.VerificationResult).NeverValidChains" &&
					texp == "(time.Time).Add(c.NotAfter,-1000000000)"
				det = lists + " @ " + texp
			}
		}
		c.Check(good, "R-PROV", fnVWC, "ValidAtExpirationChains = FilterByDate(current+expired+never, c.NotAfter-1s)#0", pos(wr), det)
	}
	if wr, ok := one("Expired"); ok {
		c.Check(Expr(wr.Val) == "!(*x509.Certificate).TimeInValidityPeriod(c,opts.VerifyTime)", "R-PROV", fnVWC, "Expired = !c.TimeInValidityPeriod(opts.VerifyTime)", pos(wr), Expr(wr.Val))
	}
	if wr, ok := one("Name"); ok {
		c.Check(Expr(wr.Val) == "opts.Name", "R-PROV", fnVWC, "Name = opts.Name", pos(wr), Expr(wr.Val))
	}
	if wr, ok := one("NameError"); ok {
		c.Check(Expr(wr.Val) == "(*x509.Certificate).VerifyHostname(c,opts.Name)", "R-PROV", fnVWC, "NameError = c.VerifyHostname(opts.Name)", pos(wr), Expr(wr.Val))
		c.Cut(CutSpec{Fn: fn, Label: "NameError only when a name was requested", Target: isInstr(wr.In),
			Cut: Cmp(LenOf(func(v ssa.Value) bool { return Expr(v) == "opts.Name" }), "gt ne", ConstInt(0))})
		c.Cut(CutSpec{Fn: fn, Label: "a requested name is always checked", Start: Cmp(LenOf(func(v ssa.Value) bool { return Expr(v) == "opts.Name" }), "gt ne", ConstInt(0)),
			Target: isReturn, Barrier: func(in ssa.Instruction) bool { return in == wr.In }})
	}
	// Parents
	resExpired := func(v ssa.Value) bool { return Expr(v) == "alloc(*verifier.VerificationResult).Expired" }
	nPar := 0
	for _, wr := range stores["Parents"] {
		c.Sites++
		nPar++
		cl := callOf(wr.Val)
		if cl == nil || !nameIn(calleeName(&cl.Call), []string{fnPFC}) {
			c.Fail("R-PROV", fnVWC, "Parents comes from parentsFromChains", pos(wr), Expr(wr.Val))
			continue
		}
		src := Expr(cl.Call.Args[0])
		switch src {
		case "alloc(*verifier.VerificationResult).ValidAtExpirationChains":
			c.Cut(CutSpec{Fn: fn, Label: "Parents from ValidAtExpirationChains only when expired", Target: isInstr(wr.In), Cut: IsTrue(resExpired)})
		case "alloc(*verifier.VerificationResult).CurrentChains":
			c.Cut(CutSpec{Fn: fn, Label: "Parents from CurrentChains only when not expired", Target: isInstr(wr.In), Cut: IsFalse(resExpired)})
		default:
			c.Fail("R-PROV", fnVWC, "Parents derived from an unexpected chain list", pos(wr), src)
		}
	}
	c.Check(nPar == 2, "R-PROV", fnVWC, "two stores to Parents (expired / not expired)", w.Pos(fn.Pos()), fmt.Sprint(nPar))
	// the chain lists must be stored before they are read back
	for _, f := range []string{"CurrentChains", "ExpiredChains", "NeverValidChains", "ValidAtExpirationChains", "Expired"} {
		if len(stores[f]) != 1 {
			continue
		}
		st := stores[f][0].In
		ok := true
		for _, b := range fn.Blocks {
			for _, in := range b.Instrs {
				if u, isU := in.(*ssa.UnOp); isU {
					if fa, isFA := u.X.(*ssa.FieldAddr); isFA && fieldName(fa) == "VerificationResult."+f && !instrDominates(st, in) {
						ok = false
					}
				}
			}
		}
		c.Check(ok, "R-PRE", fnVWC, "res."+f+" is stored before every read of it", w.InstrPos(st), "")
	}

	// InRevocationSet
	oneCRLHit := NonNil(func(v ssa.Value) bool {
		if !ResultOf(-1, fnOneCRLChk)(v) {
			return false
		}
		cl := callOf(v)
		return Expr(cl.Call.Args[0]) == "opts.OneCRL" && Param("c")(cl.Call.Args[1])
	})
	crlSetHit := NonNil(func(v ssa.Value) bool {
		if !ResultOf(-1, fnCRLSetChk)(v) {
			return false
		}
		cl := callOf(v)
		if Expr(cl.Call.Args[0]) != "opts.CRLSet" || !Param("c")(cl.Call.Args[1]) {
			return false
		}
		hx := callOf(cl.Call.Args[2])
		if hx == nil || calleeName(&hx.Call) != "encoding/hex.EncodeToString" {
			return false
		}
		d := Deps(hx.Call.Args[0])
		return hasAll(d, "field:Certificate.SPKIFingerprint", "field:VerificationResult.Parents")
	})
	nRev := 0
	var revStores []ssa.Instruction
	for _, wr := range stores["InRevocationSet"] {
		c.Sites++
		nRev++
		b, isC := boolConst(wr.Val)
		c.Check(isC && b, "R-OWN", fnVWC, "InRevocationSet is only ever set to true", pos(wr), Expr(wr.Val))
		c.Cut(CutSpec{Fn: fn, Label: "InRevocationSet set only behind a OneCRL or CRLSet hit for c", Target: isInstr(wr.In), Cut: AnyF(oneCRLHit, crlSetHit)})
		revStores = append(revStores, wr.In)
	}
	c.Check(nRev >= 2, "R-OWN", fnVWC, "stores to InRevocationSet enumerated", w.Pos(fn.Pos()), fmt.Sprint(nRev))
	isRevStore := func(in ssa.Instruction) bool {
		for _, s := range revStores {
			if s == in {
				return true
			}
		}
		return false
	}
	c.Cut(CutSpec{Fn: fn, Label: "a OneCRL hit always sets InRevocationSet", Start: oneCRLHit, Target: isReturn, Barrier: isRevStore})
	c.Cut(CutSpec{Fn: fn, Label: "a CRLSet hit always sets InRevocationSet", Start: crlSetHit, Target: isReturn, Barrier: isRevStore})
	// the lists are consulted whenever supplied
	c.Cut(CutSpec{Fn: fn, Label: "a supplied OneCRL is consulted", Start: NonNil(func(v ssa.Value) bool { return Expr(v) == "opts.OneCRL" }), Target: isReturn,
		Barrier: func(in ssa.Instruction) bool { cc := callCommon(in); return cc != nil && nameIn(calleeName(cc), []string{fnOneCRLChk}) }})
	// CRLSet loop covers all parents: the Check call's parent index ranges over res.Parents (checked in crlSetHit via deps)

	// certificate type chain
	isRootC := func(v ssa.Value) bool {
		if !ResultOf(-1, fnIsRoot)(v) {
			return false
		}
		cl := callOf(v)
		return Expr(cl.Call.Args[0]) == "v.PKI" && Param("c")(cl.Call.Args[1])
	}
	isCA := func(v ssa.Value) bool { return Expr(v) == "c.IsCA" }
	parentsLen := LenOf(func(v ssa.Value) bool { return Expr(v) == "alloc(*verifier.VerificationResult).Parents" })
	hasParents := Cmp(parentsLen, "gt ne", ConstInt(0))
	noParents := Cmp(parentsLen, "le eq", ConstInt(0))
	types := map[string][]FP{
		"CertificateTypeRoot":         {IsTrue(isRootC)},
		"CertificateTypeIntermediate": {IsFalse(isRootC), IsTrue(isCA), hasParents},
		"CertificateTypeLeaf":         {IsFalse(isRootC), hasParents, AnyF(IsFalse(isCA), noParents)},
		"CertificateTypeUnknown":      {IsFalse(isRootC), noParents},
	}
	nT := 0
	for _, wr := range stores["CertificateType"] {
		c.Sites++
		matched := false
		for name, guards := range types {
			if w.IsConstNamed("z/x509", name)(wr.Val) {
				matched = true
				nT++
				for i, g := range guards {
					c.Cut(CutSpec{Fn: fn, Label: fmt.Sprintf("%s guard %d", name, i), Target: isInstr(wr.In), Cut: g})
				}
			}
		}
		if !matched {
			c.Fail("R-TABLE", fnVWC, "CertificateType stored is not one of the four constants", pos(wr), Expr(wr.Val))
		}
	}
	c.Check(nT == 4, "R-TABLE", fnVWC, "four certificate-type stores", w.Pos(fn.Pos()), fmt.Sprint(nT))
	var typeStores []ssa.Instruction
	for _, wr := range stores["CertificateType"] {
		typeStores = append(typeStores, wr.In)
	}
	c.Cut(CutSpec{Rule: "R-TABLE", Fn: fn, Label: "some certificate type is stored on every path", Target: isReturn, Barrier: func(in ssa.Instruction) bool {
		for _, s := range typeStores {
			if s == in {
				return true
			}
		}
		return false
	}})

	// parentsFromChains
	if pf := w.Fn(fnPFC); pf == nil {
		c.Undecided("R-PROV", fnPFC, "anchor", "-", "not found")
	} else {
		rc := returnClosure(pf, 0)
		n := 0
		for v := range rc {
			ap, isCall := v.(*ssa.Call)
			if !isCall || isBuiltinCall(ap, "append") == nil {
				continue
			}
			n++
			vals, sp := appended(ap)
			ok := !sp && len(vals) == 1
			if ok {
				ia := loadedIndex(vals[0])
				k, isC := int64(0), false
				if ia != nil {
					k, isC = intConst(ia.Index)
				}
				ok = ia != nil && isC && k == 1 && hasAll(Deps(ia.X), "param:chains")
			}
			c.Check(ok, "R-PROV", fnPFC, "parents collects chains[i][1]", w.InstrPos(ap), Expr(ap))
		}
		c.Check(n == 1, "R-PROV", fnPFC, "one append into parents", w.Pos(pf.Pos()), fmt.Sprint(n))
		// dedup map keyed by the parent's SHA-256 fingerprint, only for chains with a parent
		for _, b := range pf.Blocks {
			for _, in := range b.Instrs {
				if mu, ok := in.(*ssa.MapUpdate); ok {
					c.Sites++
					d := Deps(mu.Key)
					c.Check(hasAll(d, "field:Certificate.FingerprintSHA256", "param:chains") && strings.Contains(Expr(mu.Key), "[1].FingerprintSHA256"), "R-PROV", fnPFC, "parents deduplicated by chain[1].FingerprintSHA256", w.InstrPos(in), Expr(mu.Key))
					c.Cut(CutSpec{Fn: pf, Label: "chain[1] read only when len(chain) >= 2", Target: isInstr(in), Cut: Cmp(LenOf(func(v ssa.Value) bool { return true }), "ge", ConstInt(2))})
				}
			}
		}
	}
}
