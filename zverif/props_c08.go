package main

import (
	"fmt"
	"strings"

	"golang.org/x/tools/go/ssa"
)

const (
	fnAddCert  = "(*z/x509.CertPool).AddCert"
	fnNewPool  = "z/x509.NewCertPool"
	fnPoolSize = "(*z/x509.CertPool).Size"
)

func init() {
	register(&propDef{
		ID: "C08",
		Explain: "R-OWN writer obligations over every instruction in package x509 that writes CertPool.certs/bySHA256/byName/bySubjectKeyId: " +
			"a store to certs is an append of one certificate behind the miss edge of the bySHA256 lookup keyed by that certificate's SHA-256 fingerprint, " +
			"and is followed on every path by the index updates with the pre-append length; other writers must be constructors storing fresh maps. " +
			"R-PROV for the read API (Contains/Size/Certificates/Subjects/Covers/Sum/AppendCertsFromPEM); findVerifiedParents guard as in C07.",
		NotCov: "Nil receivers of Certificates/Subjects are outside the statement. Value-level facts (hash collisions, equality of fingerprints computed elsewhere) are not decided.",
		Floor:  20,
		Run:    runC08,
	})
}

func inPkg(fn *ssa.Function, path string) bool {
	for fn.Parent() != nil {
		fn = fn.Parent()
	}
	return fn.Pkg != nil && fn.Pkg.Pkg.Path() == expand(path)
}

func runC08(c *Ctx) {
	w := c.W
	c08Extras4(c)
	// findVerifiedParents returns the members for which CheckSignatureFrom succeeds: C03's rule for it applies here
	c.borrow(runC03, func(o *Obligation) bool { return strings.Contains(o.Func, "CheckSignatureFrom") })
	fw := w.FieldWrites()
	poolFields := []string{"CertPool.certs", "CertPool.bySHA256", "CertPool.byName", "CertPool.bySubjectKeyId"}
	nWrites := 0
	for _, f := range poolFields {
		for _, wr := range fw[f] {
			if !inPkg(wr.Fn, "z/x509") {
				continue
			}
			nWrites++
			c.Sites++
			c.poolWriter(wr)
		}
	}
	c.Check(nWrites >= 7, "R-OWN", "z/x509", "writers of the pool fields enumerated", "-", fmt.Sprintf("%d writes", nWrites))

	// ---- read API
	if fn := w.Fn(fnContains); fn == nil {
		c.Undecided("R-PROV", fnContains, "anchor", "-", "not found")
	} else {
		ok := true
		det := ""
		n := 0
		for v := range returnClosure(fn, 0) {
			if _, isPhi := v.(*ssa.Phi); isPhi {
				continue
			}
			if b, isC := boolConst(v); isC && !b {
				continue
			}
			n++
			e := Expr(v)
			if e != "s.bySHA256[string(c.FingerprintSHA256)]#1" {
				ok = false
				det = e
			}
		}
		c.Check(ok && n >= 1, "R-PROV", fnContains, "reports presence of string(c.FingerprintSHA256) in bySHA256", w.Pos(fn.Pos()), det)
		c.Cut(CutSpec{Fn: fn, Label: "constant false only for a nil pool", Cut: IsNil(Param("s")),
			Target: func(in ssa.Instruction, res resolver) bool {
				rt, ok := in.(*ssa.Return)
				if !ok {
					return false
				}
				b, isC := boolConst(res(rt.Results[0]))
				return isC && !b
			}})
	}
	if fn := w.Fn(fnPoolSize); fn == nil {
		c.Undecided("R-PROV", fnPoolSize, "anchor", "-", "not found")
	} else {
		ok, n := true, 0
		det := ""
		for v := range returnClosure(fn, 0) {
			if _, isPhi := v.(*ssa.Phi); isPhi {
				continue
			}
			n++
			if e := Expr(v); e != "len(s.certs)" && e != "0" {
				ok, det = false, e
			}
		}
		c.Check(ok && n >= 1, "R-PROV", fnPoolSize, "Size is len(certs) (0 for nil)", w.Pos(fn.Pos()), det)
		c.Cut(CutSpec{Fn: fn, Label: "constant 0 only for a nil pool", Cut: IsNil(Param("s")),
			Target: func(in ssa.Instruction, res resolver) bool {
				rt, ok := in.(*ssa.Return)
				if !ok {
					return false
				}
				_, isC := intConst(res(rt.Results[0]))
				return isC
			}})
	}
	if fn := w.Fn("(*z/x509.CertPool).Certificates"); fn == nil {
		c.Undecided("R-PROV", "(*z/x509.CertPool).Certificates", "anchor", "-", "not found")
	} else {
		ok := false
		det := ""
		for v := range returnClosure(fn, 0) {
			if ap, isCall := v.(*ssa.Call); isCall && isBuiltinCall(ap, "append") != nil {
				vals, spread := appended(ap)
				det = Expr(ap)
				if spread && Expr(vals[0]) == "s.certs" {
					if mk, isMk := ap.Call.Args[0].(*ssa.MakeSlice); isMk {
						if n, isC := intConst(mk.Len); isC && n == 0 {
							ok = true
						}
					}
				}
			}
		}
		c.Check(ok, "R-PROV", "(*z/x509.CertPool).Certificates", "fresh slice holding certs... in order", w.Pos(fn.Pos()), det)
	}
	if fn := w.Fn("(*z/x509.CertPool).Subjects"); fn == nil {
		c.Undecided("R-PROV", "(*z/x509.CertPool).Subjects", "anchor", "-", "not found")
	} else {
		// every element store res[i] = s.certs[i].RawSubject with the same i, res = make(len(s.certs))
		n, ok := 0, true
		det := ""
		for _, b := range fn.Blocks {
			for _, in := range b.Instrs {
				st, isSt := in.(*ssa.Store)
				if !isSt {
					continue
				}
				ia, isIA := st.Addr.(*ssa.IndexAddr)
				if !isIA {
					continue
				}
				n++
				e := Expr(st.Val)
				det = Expr(ia) + " = " + e
				src := loadedFieldOfIndex(st.Val)
				if src == nil || src.idx != ia.Index || Expr(src.base) != "s.certs" || src.field != "Certificate.RawSubject" || Expr(ia.X) != "make([][]byte,len(s.certs))" {
					ok = false
				}
			}
		}
		c.Check(ok && n == 1, "R-PROV", "(*z/x509.CertPool).Subjects", "res[i] = certs[i].RawSubject over make(len(certs))", w.Pos(fn.Pos()), det)
	}
	if fn := w.Fn("(*z/x509.CertPool).Covers"); fn == nil {
		c.Undecided("R-CUT", "(*z/x509.CertPool).Covers", "anchor", "-", "not found")
	} else {
		c.Cut(CutSpec{Fn: fn, Label: "true is unreachable once a member is missing", Start: IsFalse(ResultOf(-1, fnContains)), Target: TrueReturn(0, nil), MinTargets: 1})
		n := 0
		for _, in := range callsIn(fn, fnContains) {
			cc := callCommon(in)
			n++
			src := loadedIndex(cc.Args[1])
			ok := Param("s")(cc.Args[0]) && src != nil && Expr(src.X) == "pool.certs"
			c.Check(ok, "R-PROV", "(*z/x509.CertPool).Covers", "asks s.Contains(pool.certs[i])", w.InstrPos(in), Expr(cc.Args[1]))
		}
		c.Check(n == 1, "R-PROV", "(*z/x509.CertPool).Covers", "one Contains call in the loop", w.Pos(fn.Pos()), fmt.Sprint(n))
		// false only behind !Contains
		c.Cut(CutSpec{Fn: fn, Label: "false only behind !Contains", Cut: IsFalse(ResultOf(-1, fnContains)),
			Target: func(in ssa.Instruction, res resolver) bool {
				rt, ok := in.(*ssa.Return)
				if !ok {
					return false
				}
				b, isC := boolConst(res(rt.Results[0]))
				return !isC || !b
			}})
	}
	if fn := w.Fn("(*z/x509.CertPool).Sum"); fn == nil {
		c.Undecided("R-PROV", "(*z/x509.CertPool).Sum", "anchor", "-", "not found")
	} else {
		var sAdd, oAdd []ssa.Instruction
		okAll := true
		for _, in := range callsIn(fn, fnAddCert) {
			cc := callCommon(in)
			c.Sites++
			if !ResultOf(-1, fnNewPool)(cc.Args[0]) {
				okAll = false
			}
			src := loadedIndex(cc.Args[1])
			switch {
			case src != nil && Expr(src.X) == "s.certs":
				sAdd = append(sAdd, in)
			case src != nil && Expr(src.X) == "other.certs":
				oAdd = append(oAdd, in)
			default:
				okAll = false
			}
		}
		c.Check(okAll && len(sAdd) == 1 && len(oAdd) == 1, "R-PROV", "(*z/x509.CertPool).Sum", "adds s.certs[i] and other.certs[i] to a fresh pool via AddCert", w.Pos(fn.Pos()), fmt.Sprintf("s:%d other:%d", len(sAdd), len(oAdd)))
		if len(sAdd) == 1 && len(oAdd) == 1 {
			c.Cut(CutSpec{Fn: fn, Label: "receiver's certificates are added before other's", StartAfter: oAdd[0], Target: isInstr(sAdd[0])})
		}
		ok := true
		for v := range returnClosure(fn, 0) {
			if _, isPhi := v.(*ssa.Phi); !isPhi && !ResultOf(-1, fnNewPool)(v) {
				ok = false
			}
		}
		c.Check(ok, "R-PROV", "(*z/x509.CertPool).Sum", "returns the fresh pool", w.Pos(fn.Pos()), "")
		// Sum writes nothing itself
		c.noDirectWrites(fn, poolFields)
	}
	if fn := w.Fn("(*z/x509.CertPool).AppendCertsFromPEM"); fn == nil {
		c.Undecided("R-PROV", "(*z/x509.CertPool).AppendCertsFromPEM", "anchor", "-", "not found")
	} else {
		n := 0
		for _, in := range callsIn(fn, fnAddCert) {
			cc := callCommon(in)
			n++
			ok := Param("s")(cc.Args[0]) && ResultOf(0, "z/x509.ParseCertificate")(cc.Args[1])
			c.Check(ok, "R-PROV", "(*z/x509.CertPool).AppendCertsFromPEM", "AddCert(s, ParseCertificate(...)#0)", w.InstrPos(in), Expr(cc.Args[1]))
			c.Cut(CutSpec{Fn: fn, Label: "AddCert only for successfully parsed certificates", Target: isInstr(in), Cut: IsNil(ResultOf(1, "z/x509.ParseCertificate"))})
		}
		c.Check(n >= 1, "R-PROV", "(*z/x509.CertPool).AppendCertsFromPEM", "adds through AddCert", w.Pos(fn.Pos()), fmt.Sprint(n))
		c.noDirectWrites(fn, poolFields)
	}
	// parent lookup (shared with C07)
	c.fvpGuard()
}

func (c *Ctx) noDirectWrites(fn *ssa.Function, fields []string) {
	n := 0
	for _, f := range fields {
		for _, wr := range c.W.FieldWrites()[f] {
			if wr.Fn == fn {
				n++
			}
		}
	}
	c.Check(n == 0, "R-OWN", FuncName(fn), "mutates the pool only through AddCert", c.W.Pos(fn.Pos()), fmt.Sprintf("%d direct writes", n))
}

type idxLoad struct {
	base  ssa.Value
	idx   ssa.Value
	field string
}

// loadedIndex: v = *(&X[i]) ; returns the IndexAddr.
func loadedIndex(v ssa.Value) *ssa.IndexAddr {
	u, ok := stripConv(v).(*ssa.UnOp)
	if !ok {
		return nil
	}
	ia, _ := u.X.(*ssa.IndexAddr)
	return ia
}

// loadedFieldOfIndex: v = *(&(*(&X[i])).f)
func loadedFieldOfIndex(v ssa.Value) *idxLoad {
	fa := loadedField(v)
	if fa == nil {
		return nil
	}
	ia := loadedIndex(fa.X)
	if ia == nil {
		return nil
	}
	return &idxLoad{base: ia.X, idx: ia.Index, field: fieldName(fa)}
}

// poolWriter decides one write to a CertPool field.
func (c *Ctx) poolWriter(wr FieldWrite) {
	w := c.W
	fn := wr.Fn
	name := FuncName(fn)
	pos := w.InstrPos(wr.In)
	switch {
	case wr.Kind == "store" && wr.Field != "CertPool.certs":
		// only constructors: fresh map into a fresh struct
		_, fresh := wr.Val.(*ssa.MakeMap)
		_, newBase := wr.Base.(*ssa.Alloc)
		c.Check(fresh && newBase, "R-OWN", name, "store to "+wr.Field+" is a constructor's fresh map", pos, Expr(wr.Val))
	case wr.Kind == "store" && wr.Field == "CertPool.certs":
		ap, _ := wr.Val.(*ssa.Call)
		if ap == nil || isBuiltinCall(ap, "append") == nil {
			c.Fail("R-OWN", name, "store to CertPool.certs is not an append of one certificate", pos, "stored: "+Expr(wr.Val))
			return
		}
		vals, spread := appended(ap)
		baseOK := false
		if fa := loadedField(ap.Call.Args[0]); fa != nil && fieldName(fa) == "CertPool.certs" && sameVal(fa.X, wr.Base) {
			baseOK = true
		}
		if spread || len(vals) != 1 || !baseOK {
			c.Fail("R-OWN", name, "store to CertPool.certs is not append(same pool's certs, one certificate)", pos, "stored: "+Expr(wr.Val))
			return
		}
		x := vals[0]
		isKey := func(k ssa.Value) bool {
			cv, ok := k.(*ssa.Convert)
			if !ok {
				return false
			}
			fa := loadedField(cv.X)
			return fa != nil && fieldName(fa) == "Certificate.FingerprintSHA256" && sameVal(fa.X, x)
		}
		miss := func(v ssa.Value) bool {
			ex, ok := v.(*ssa.Extract)
			if !ok || ex.Index != 1 {
				return false
			}
			lk, ok := ex.Tuple.(*ssa.Lookup)
			if !ok || !lk.CommaOk {
				return false
			}
			fa := loadedField(lk.X)
			return fa != nil && fieldName(fa) == "CertPool.bySHA256" && sameVal(fa.X, wr.Base) && isKey(lk.Index)
		}
		c.Cut(CutSpec{Rule: "R-OWN", Fn: fn, Label: "append to certs behind the miss edge of bySHA256[string(cert.FingerprintSHA256)]", Target: isInstr(wr.In), Cut: IsFalse(miss)})
		// index updates follow on every path, with the pre-append length
		lenBefore := func(v ssa.Value) bool {
			cl, ok := v.(*ssa.Call)
			if !ok || isBuiltinCall(cl, "len") == nil {
				return false
			}
			fa := loadedField(cl.Call.Args[0])
			return fa != nil && fieldName(fa) == "CertPool.certs" && sameVal(fa.X, wr.Base) && instrDominates(cl, wr.In)
		}
		type follow struct {
			field, keyField string
			optional        bool
		}
		for _, fo := range []follow{{"CertPool.bySHA256", "Certificate.FingerprintSHA256", false}, {"CertPool.byName", "Certificate.RawSubject", false}, {"CertPool.bySubjectKeyId", "Certificate.SubjectKeyId", true}} {
			var upd ssa.Instruction
			for _, b := range fn.Blocks {
				for _, in := range b.Instrs {
					mu, ok := in.(*ssa.MapUpdate)
					if !ok {
						continue
					}
					fa := loadedField(mu.Map)
					if fa == nil || fieldName(fa) != fo.field || !sameVal(fa.X, wr.Base) {
						continue
					}
					cv, ok := mu.Key.(*ssa.Convert)
					if !ok {
						continue
					}
					kfa := loadedField(cv.X)
					if kfa == nil || fieldName(kfa) != fo.keyField || !sameVal(kfa.X, x) {
						continue
					}
					valOK := false
					if fo.field == "CertPool.bySHA256" {
						valOK = lenBefore(mu.Value)
					} else if ap2, ok := mu.Value.(*ssa.Call); ok && isBuiltinCall(ap2, "append") != nil {
						v2, sp2 := appended(ap2)
						if !sp2 && len(v2) == 1 && lenBefore(v2[0]) {
							if lk, ok := ap2.Call.Args[0].(*ssa.Lookup); ok && sameVal(lk.Index, mu.Key) {
								if fa2 := loadedField(lk.X); fa2 != nil && fieldName(fa2) == fo.field {
									valOK = true
								}
							}
						}
					}
					if valOK {
						upd = in
					}
				}
			}
			lbl := "after the append, " + fo.field + "[" + fieldLeaf(fo.keyField) + "] records the pre-append length on every path"
			if upd == nil {
				c.Fail("R-OWN", name, lbl, pos, "no matching map update in this writer")
				continue
			}
			var cut FP
			if fo.optional {
				// empty key ids are not indexed
				cut = Cmp(LenOf(func(v ssa.Value) bool {
					fa := loadedField(v)
					return fa != nil && fieldName(fa) == fo.keyField && sameVal(fa.X, x)
				}), "le eq", ConstInt(0))
			}
			u := upd
			c.Cut(CutSpec{Rule: "R-OWN", Fn: fn, Label: lbl, StartAfter: wr.In, Cut: cut,
				Target:  func(in ssa.Instruction, _ resolver) bool { _, ok := in.(*ssa.Return); return ok },
				Barrier: func(in ssa.Instruction) bool { return in == u }})
		}
	case wr.Kind == "mapupdate":
		// must be paired with (dominated by) an append-store to certs of the same pool in the same function
		paired := false
		for _, o := range w.FieldWrites()["CertPool.certs"] {
			if o.Fn == fn && o.Kind == "store" && sameVal(o.Base, wr.Base) && instrDominates(o.In, wr.In) {
				paired = true
			}
		}
		c.Check(paired, "R-OWN", name, "update of "+wr.Field+" is dominated by the append to certs of the same pool", pos, Expr(wr.Key))
	default:
		c.Fail("R-OWN", name, wr.Kind+" on "+wr.Field+" (pool entries are never removed or overwritten)", pos, "")
	}
}

// fvpGuard: every append into findVerifiedParents' result is behind
// cert.CheckSignatureFrom(s.certs[i]) == nil for the appended index i.
func (c *Ctx) fvpGuard() {
	w := c.W
	fvp := w.Fn(fnFVP)
	if fvp == nil {
		c.Undecided("R-CUT", fnFVP, "anchor", "-", "function not found")
		return
	}
	rc := returnClosure(fvp, 0)
	n := 0
	for _, b := range fvp.Blocks {
		for _, in := range b.Instrs {
			ap := isBuiltinCall(in, "append")
			if ap == nil || !rc[ap] {
				continue
			}
			n++
			c.Sites++
			vals, _ := appended(ap)
			idx := vals[0]
			guard := func(v ssa.Value) bool {
				if !ResultOf(-1, fnCSF)(v) {
					return false
				}
				cl := callOf(v)
				if !Param("cert")(cl.Call.Args[0]) {
					return false
				}
				ia := loadedIndex(cl.Call.Args[1])
				if ia == nil || ia.Index != idx {
					return false
				}
				return Expr(ia.X) == "s.certs"
			}
			c.Cut(CutSpec{Fn: fvp, Label: "append(parents, i) behind cert.CheckSignatureFrom(s.certs[i])==nil", Target: isInstr(ap), Cut: IsNil(guard)})
		}
	}
	c.Check(n >= 1, "R-OWN", fnFVP, "parents is built by append", w.Pos(fvp.Pos()), fmt.Sprintf("%d appends", n))
	// candidates are indices stored in the pool's own indexes
	for v := range rc {
		if _, isPhi := v.(*ssa.Phi); isPhi {
			continue
		}
		if ap, ok := v.(*ssa.Call); ok && isBuiltinCall(ap, "append") != nil {
			continue
		}
		if !isNilConst(v) {
			c.Fail("R-OWN", fnFVP, "parents receives a value that is not an append", w.Pos(fvp.Pos()), Expr(v))
		}
	}
}
