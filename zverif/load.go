package main

import (
	"fmt"
	"go/ast"
	"go/token"
	"go/types"
	"os"
	"sort"
	"strings"

	"golang.org/x/tools/go/callgraph"
	"golang.org/x/tools/go/callgraph/cha"
	"golang.org/x/tools/go/callgraph/vta"
	"golang.org/x/tools/go/packages"
	"golang.org/x/tools/go/ssa"
	"golang.org/x/tools/go/ssa/ssautil"
)

// Z is the module path of the analysed repository. Function names in rule
// tables are written "z/x509.ParseCertificate" and expanded with Z.
const Z = "github.com/zmap/zcrypto/"

// World is one loaded, type-checked and SSA-built view of a repository tree.
type World struct {
	Dir     string
	Env     []string
	Pkgs    []*packages.Package
	Prog    *ssa.Program
	Fset    *token.FileSet
	byPath  map[string]*packages.Package
	cg      *callgraph.Graph
	allFns  map[*ssa.Function]bool
	fnIndex map[string]*ssa.Function

	fieldWrites map[string][]FieldWrite
}

// Load type-checks every package of the module at dir (plus dependencies)
// and builds SSA for all of them. Any load or type error is fatal: the
// checker never decides a property on a partially analysed tree.
// minPackages: a load that yields fewer packages is a failure (a static tool sees only what was parsed).
var minPackages = 31

func Load(dir string, extraEnv []string, overlay map[string][]byte) (*World, error) {
	env := append(os.Environ(), "GOWORK=off", "GOFLAGS=-mod=mod", "GOPROXY=off", "GOSUMDB=off", "GOTOOLCHAIN=local")
	env = append(env, extraEnv...)
	cfg := &packages.Config{
		Mode:    packages.LoadAllSyntax,
		Dir:     dir,
		Env:     env,
		Overlay: overlay,
	}
	pkgs, err := packages.Load(cfg, "./...")
	if err != nil {
		return nil, fmt.Errorf("load %s: %v", dir, err)
	}
	nerr := 0
	packages.Visit(pkgs, nil, func(p *packages.Package) {
		for _, e := range p.Errors {
			if nerr < 10 {
				fmt.Fprintf(os.Stderr, "load error: %v\n", e)
			}
			nerr++
		}
	})
	if nerr > 0 {
		return nil, fmt.Errorf("%d package load/type errors", nerr)
	}
	if len(pkgs) < minPackages {
		return nil, fmt.Errorf("only %d packages loaded from %s, expected >= %d", len(pkgs), dir, minPackages)
	}
	prog, _ := ssautil.AllPackages(pkgs, ssa.InstantiateGenerics)
	prog.Build()
	w := &World{Dir: dir, Env: extraEnv, Pkgs: pkgs, Prog: prog, Fset: prog.Fset, byPath: map[string]*packages.Package{}}
	packages.Visit(pkgs, nil, func(p *packages.Package) { w.byPath[p.PkgPath] = p })
	applyParamAliases(w)
	return w, nil
}

func expand(name string) string { return strings.ReplaceAll(name, "z/", Z) }

// Pkg returns the loaded package with the given path ("z/x509" form allowed).
func (w *World) Pkg(path string) *packages.Package { return w.byPath[expand(path)] }

// AllFuncs is the set of all functions (incl. anonymous) of the program.
func (w *World) AllFuncs() map[*ssa.Function]bool {
	if w.allFns == nil {
		w.allFns = ssautil.AllFunctions(w.Prog)
	}
	return w.allFns
}

// CG is the CHA call graph refined by VTA.
func (w *World) CG() *callgraph.Graph {
	if w.cg == nil {
		w.cg = vta.CallGraph(w.AllFuncs(), cha.CallGraph(w.Prog))
	}
	return w.cg
}

// FuncName is the canonical name used in tables and reports: the
// types.Func full name ("(*pkg.T).M", "pkg.F"), "$n" suffixes for closures.
func FuncName(fn *ssa.Function) string {
	if fn == nil {
		return "<nil>"
	}
	if fn.Parent() != nil {
		return FuncName(fn.Parent()) + "$" + strings.TrimPrefix(fn.Name(), fn.Parent().Name()+"$")
	}
	if o, ok := fn.Object().(*types.Func); ok && o != nil {
		return o.FullName()
	}
	return fn.String()
}

func short(name string) string { return strings.ReplaceAll(name, Z, "") }

// Fn resolves a function by canonical name; nil if absent.
func (w *World) Fn(name string) *ssa.Function {
	name = expand(name)
	if w.fnIndex == nil {
		w.fnIndex = map[string]*ssa.Function{}
		for fn := range w.AllFuncs() {
			if fn.Synthetic != "" && fn.Object() == nil {
				continue
			}
			n := FuncName(fn)
			if old, ok := w.fnIndex[n]; ok {
				// prefer the declared function over wrappers/thunks
				if old.Synthetic == "" {
					continue
				}
			}
			w.fnIndex[n] = fn
		}
	}
	return w.fnIndex[name]
}

// FuncsOfPkg lists source functions (and closures) declared in a package,
// sorted by name.
func (w *World) FuncsOfPkg(path string) []*ssa.Function {
	path = expand(path)
	var out []*ssa.Function
	for fn := range w.AllFuncs() {
		if fn.Pkg == nil || fn.Pkg.Pkg.Path() != path || fn.Synthetic != "" || fn.Blocks == nil {
			continue
		}
		out = append(out, fn)
	}
	sort.Slice(out, func(i, j int) bool { return FuncName(out[i]) < FuncName(out[j]) })
	return out
}

// FuncsInFile lists source functions whose declaration lies in a file with
// the given module-relative path.
func (w *World) FuncsInFile(rel string) []*ssa.Function {
	var out []*ssa.Function
	for fn := range w.AllFuncs() {
		if fn.Synthetic != "" || fn.Blocks == nil || !fn.Pos().IsValid() {
			continue
		}
		if w.RelFile(fn.Pos()) == rel {
			out = append(out, fn)
		}
	}
	sort.Slice(out, func(i, j int) bool { return FuncName(out[i]) < FuncName(out[j]) })
	return out
}

func (w *World) RelFile(p token.Pos) string {
	f := w.Fset.Position(p).Filename
	return strings.TrimPrefix(f, w.Dir+"/")
}

// Pos renders a position relative to the repository root.
func (w *World) Pos(p token.Pos) string {
	if !p.IsValid() {
		return "-"
	}
	pp := w.Fset.Position(p)
	return fmt.Sprintf("%s:%d", strings.TrimPrefix(pp.Filename, w.Dir+"/"), pp.Line)
}

// InstrPos finds a usable position for an instruction (falls back to the
// nearest positioned instruction of the block).
func (w *World) InstrPos(in ssa.Instruction) string {
	if in == nil {
		return "-"
	}
	if in.Pos().IsValid() {
		return w.Pos(in.Pos())
	}
	if v, ok := in.(ssa.Value); ok {
		_ = v
	}
	b := in.Block()
	if b != nil {
		for _, x := range b.Instrs {
			if x.Pos().IsValid() {
				return w.Pos(x.Pos()) + "~"
			}
		}
	}
	return "-"
}

// FileAST returns the syntax of a module-relative file.
func (w *World) FileAST(rel string) (*ast.File, *packages.Package) {
	for _, p := range w.byPath {
		for i, f := range p.CompiledGoFiles {
			if strings.TrimPrefix(f, w.Dir+"/") == rel && i < len(p.Syntax) {
				return p.Syntax[i], p
			}
		}
	}
	return nil, nil
}

// Reachable computes the call-graph closure of the given roots.
func (w *World) Reachable(roots []*ssa.Function, stop func(*ssa.Function) bool) map[*ssa.Function]bool {
	cg := w.CG()
	seen := map[*ssa.Function]bool{}
	var work []*ssa.Function
	for _, r := range roots {
		if r != nil && !seen[r] {
			seen[r] = true
			work = append(work, r)
		}
	}
	for len(work) > 0 {
		f := work[len(work)-1]
		work = work[:len(work)-1]
		n := cg.Nodes[f]
		if n == nil {
			continue
		}
		for _, e := range n.Out {
			c := e.Callee.Func
			if c == nil || seen[c] {
				continue
			}
			if stop != nil && stop(c) {
				continue
			}
			seen[c] = true
			work = append(work, c)
		}
		for _, a := range f.AnonFuncs {
			if !seen[a] {
				seen[a] = true
				work = append(work, a)
			}
		}
	}
	return seen
}

// InModule reports whether fn belongs to the analysed module.
func InModule(fn *ssa.Function) bool {
	if fn == nil {
		return false
	}
	p := fn.Pkg
	if p == nil && fn.Parent() != nil {
		return InModule(fn.Parent())
	}
	if p == nil {
		if o := fn.Object(); o != nil && o.Pkg() != nil {
			return strings.HasPrefix(o.Pkg().Path(), Z)
		}
		return false
	}
	return strings.HasPrefix(p.Pkg.Path(), Z)
}
