package main

import "golang.org/x/tools/go/ssa"

// flowThrough extends backClosure through value-preserving or value-combining
// instructions: tuple extraction, type assertion, struct field reads, binary
// and unary operators (a load's address is not followed).
func flowThrough(v ssa.Value) []ssa.Value {
	switch x := v.(type) {
	case *ssa.Extract:
		return []ssa.Value{x.Tuple}
	case *ssa.TypeAssert:
		return []ssa.Value{x.X}
	case *ssa.Field:
		return []ssa.Value{x.X}
	case *ssa.BinOp:
		return []ssa.Value{x.X, x.Y}
	case *ssa.UnOp:
		if x.Op.String() != "*" {
			return []ssa.Value{x.X}
		}
	}
	return nil
}

// valueSources is backClosure(v, flowThrough) extended through local struct
// variables: a load of a local alloc contributes every value stored into the
// alloc or into one of its fields.
func valueSources(v ssa.Value) map[ssa.Value]bool {
	out := map[ssa.Value]bool{}
	var work []ssa.Value
	push := func(x ssa.Value) {
		for y := range backClosure(x, flowThrough) {
			if !out[y] {
				out[y] = true
				work = append(work, y)
			}
		}
	}
	push(v)
	for len(work) > 0 {
		x := work[len(work)-1]
		work = work[:len(work)-1]
		u, ok := x.(*ssa.UnOp)
		if !ok || u.Op.String() != "*" {
			continue
		}
		al, ok := u.X.(*ssa.Alloc)
		if !ok {
			continue
		}
		for _, r := range *al.Referrers() {
			switch y := r.(type) {
			case *ssa.Store:
				if y.Addr == ssa.Value(al) {
					push(y.Val)
				}
			case *ssa.FieldAddr:
				for _, r2 := range *y.Referrers() {
					if st, ok := r2.(*ssa.Store); ok && st.Addr == ssa.Value(y) {
						push(st.Val)
					}
				}
			}
		}
	}
	return out
}
