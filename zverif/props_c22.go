package main

import (
	"fmt"
	"go/types"
	"sort"
	"strings"

	"golang.org/x/tools/go/ssa"
)

const (
	pkPKIX     = "z/x509/pkix"
	fnToRDN    = "(" + pkPKIX + ".Name).ToRDNSequence"
	fnFillRDN  = "(*" + pkPKIX + ".Name).FillFromRDNSequence"
	fnAppendRD = "(" + pkPKIX + ".Name).appendRDNs"
)

func init() {
	register(&propDef{
		ID: "C22",
		Explain: "R-TABLE: the (Name field, attribute OID) pairs emitted by ToRDNSequence (extracted from its appendRDNs calls; OIDs compared as integer sequences) are all read back into the same field by FillFromRDNSequence " +
			"(switch arms over 2.5.4.N and the Equal chain, extracted from the typed syntax). R-PRE: every appendRDNs call is executed on every path that does not return OriginalRDNS, except CommonName/SerialNumber which sit under their own len>0 test; " +
			"appendRDNs emits one AttributeTypeAndValue {oid, value} per value, in order, and nothing for an empty list; FillFromRDNSequence keeps the sequence in OriginalRDNS, which ToRDNSequence returns unchanged. " +
			"R-NARROW: where the marshaller chooses PrintableString vs UTF8String, a rune is narrowed to a byte for the character-class test only on the r < utf8.RuneSelf edge.",
		NotCov: "String-type selection beyond the narrowing guard, escaping, and the DER encode/decode of the values (C18).",
		Floor:  24,
		Run:    runC22,
	})
}

func runC22(c *Ctx) {
	w := c.W
	nameFillRule(c)
	to := w.Fn(fnToRDN)
	if to == nil {
		c.Undecided("R-TABLE", fnToRDN, "anchor", "-", "not found")
		return
	}
	// ---- writer table
	type row struct{ field, oid string }
	var writer []row
	origRet := NonNil(exprIs("n.OriginalRDNS"))
	calls := callsIn(to, fnAppendRD)
	for _, in := range calls {
		c.Sites++
		a := callCommon(in).Args
		var fields []string
		for k := range Deps(a[2]) {
			if strings.HasPrefix(k, "field:Name.") {
				fields = append(fields, strings.TrimPrefix(k, "field:Name."))
			}
		}
		oidName := strings.TrimPrefix(Expr(a[3]), "x509/pkix.")
		oid := w.globalOID(pkPKIX, oidName)
		if len(fields) != 1 || oid == "" {
			c.Fail("R-TABLE", fnToRDN, "appendRDNs call names one Name field and one OID variable", w.InstrPos(in), fmt.Sprint(fields)+" "+oidName)
			continue
		}
		f := fields[0]
		writer = append(writer, row{f, oid})
		// must be executed unless OriginalRDNS is returned (or, for the single-valued fields, the value is empty)
		var cut FP = origRet
		if _, single := a[2].(*ssa.Slice); single {
			fld := f
			cut = AnyF(origRet, Cmp(LenOf(exprIs("n."+fld)), "le eq", ConstInt(0)))
			c.Cut(CutSpec{Fn: to, Label: "single-valued " + f + " is emitted only when non-empty", Target: isInstr(in), Cut: Cmp(LenOf(exprIs("n."+fld)), "gt ne", ConstInt(0))})
		}
		x := in
		c.Cut(CutSpec{Rule: "R-PRE", Fn: to, Label: "attribute " + f + " is emitted on every path that builds the sequence from the fields", Target: isReturn, Cut: cut,
			Barrier: func(i ssa.Instruction) bool { return i == x }})
		// the accumulated sequence is threaded through: first arg is the previous result
		c.Check(Param("n")(a[0]) || Expr(a[0]) == "n", "R-PROV", fnToRDN, "appendRDNs is applied to n ["+f+"]", w.InstrPos(in), Expr(a[0]))
	}
	c.Check(len(writer) >= 15, "R-TABLE", fnToRDN, "writer table extracted", w.Pos(to.Pos()), fmt.Sprint(len(writer)))
	// result threads every call
	retc := returnClosure(to, 0)
	missing := 0
	for _, in := range calls {
		reached := retc[in.(ssa.Value)]
		if !reached {
			// it may be an input of a later call
			for _, in2 := range calls {
				for v := range backClosure(callCommon(in2).Args[1], nil) {
					if v == in.(ssa.Value) {
						reached = true
					}
				}
			}
		}
		if !reached {
			missing++
		}
	}
	c.Check(missing == 0, "R-PROV", fnToRDN, "every appendRDNs result flows into the returned sequence", w.Pos(to.Pos()), fmt.Sprint(missing))
	c.Cut(CutSpec{Fn: to, Label: "OriginalRDNS, when present, is returned unchanged", Start: origRet, MinTargets: 1,
		Target: func(in ssa.Instruction, res resolver) bool {
			rt, ok := in.(*ssa.Return)
			return ok && Expr(res(rt.Results[0])) != "n.OriginalRDNS"
		}})

	// ---- reader table: from the SSA, so that an if/else-if chain and a switch read the same
	fd, _ := w.FuncDecl(pkPKIX, "Name.FillFromRDNSequence")
	if fd == nil {
		c.Undecided("R-TABLE", fnFillRDN, "declaration", "-", "not found")
		return
	}
	reader, okPrefix := nameReaderTable(w)
	c.Check(okPrefix, "R-TABLE", fnFillRDN, "the 2.5.4.N switch is guarded by the exact four-arc prefix test", c.W.Pos(fd.Pos()), "")
	var oids []string
	for o := range reader {
		oids = append(oids, o)
	}
	sort.Strings(oids)
	c.Check(len(oids) >= 15, "R-TABLE", fnFillRDN, "reader table extracted", c.W.Pos(fd.Pos()), fmt.Sprint(len(oids)))
	for _, r := range writer {
		rf := reader[r.oid]
		want := r.field
		ok := rf[want]
		// single-valued fields are mirrored in a plural field as well; the singular must be among them
		var got []string
		for f := range rf {
			got = append(got, f)
		}
		sort.Strings(got)
		c.Check(ok, "R-TABLE", "Name."+r.field, "attribute "+r.oid+" written from Name."+r.field+" is read back into Name."+r.field, c.W.Pos(fd.Pos()), "reader fields: "+strings.Join(got, ","))
	}
	// the other direction: a field the reader fills is emitted by the writer under the same OID
	// (otherwise a Name built from its fields loses it). Mirror fields that merely duplicate a
	// single-valued attribute are exempt.
	mirrors := map[string]string{"CommonNames": "all common names; the writer emits CommonName", "SerialNumbers": "all serial numbers; the writer emits SerialNumber"}
	wset := map[string]bool{}
	for _, r := range writer {
		wset[r.oid+"/"+r.field] = true
	}
	for _, o := range oids {
		var fs []string
		for f := range reader[o] {
			fs = append(fs, f)
		}
		sort.Strings(fs)
		for _, f := range fs {
			if _, ok := mirrors[f]; ok {
				continue
			}
			c.Check(wset[o+"/"+f], "R-TABLE", "Name."+f, "attribute "+o+" read into Name."+f+" is also written from Name."+f, c.W.Pos(fd.Pos()), "")
		}
	}
	// OriginalRDNS round trip
	if fill := w.Fn(fnFillRDN); fill != nil {
		n := 0
		for _, wr := range c.writesIn(pkPKIX, "Name.OriginalRDNS") {
			if wr.Fn == fill {
				n++
				c.Check(Expr(wr.Val) == "rdns", "R-PROV", fnFillRDN, "OriginalRDNS keeps the parsed sequence", c.W.InstrPos(wr.In), Expr(wr.Val))
			}
		}
		c.Check(n == 1, "R-PROV", fnFillRDN, "one store to OriginalRDNS", c.W.Pos(fill.Pos()), fmt.Sprint(n))
	}

	// ---- appendRDNs
	if ap := w.Fn(fnAppendRD); ap == nil {
		c.Undecided("R-LAYOUT", fnAppendRD, "anchor", "-", "not found")
	} else {
		c.Cut(CutSpec{Fn: ap, Label: "an empty value list emits nothing", Start: Cmp(LenOf(Param("values")), "eq le", ConstInt(0)), MinTargets: 1,
			Target: func(in ssa.Instruction, res resolver) bool {
				rt, ok := in.(*ssa.Return)
				return ok && !Param("in")(res(rt.Results[0]))
			}})
		okT, okV, okMk := false, false, false
		for _, b := range ap.Blocks {
			for _, in := range b.Instrs {
				switch x := in.(type) {
				case *ssa.MakeSlice:
					okMk = Expr(x.Len) == "len(values)"
				case *ssa.Store:
					fa, ok := x.Addr.(*ssa.FieldAddr)
					if !ok {
						continue
					}
					ia, _ := fa.X.(*ssa.IndexAddr)
					if ia == nil {
						continue
					}
					switch fieldName(fa) {
					case "AttributeTypeAndValue.Type":
						okT = Param("oid")(x.Val)
					case "AttributeTypeAndValue.Value":
						if mi, ok := x.Val.(*ssa.MakeInterface); ok {
							if src := loadedIndex(mi.X); src != nil && Param("values")(src.X) && src.Index == ia.Index {
								okV = true
							}
						}
					}
				}
			}
		}
		c.Check(okT && okV && okMk, "R-LAYOUT", fnAppendRD, "one RDN of len(values) attributes, element i = {oid, values[i]}", w.Pos(ap.Pos()), fmt.Sprintf("type:%v value:%v make:%v", okT, okV, okMk))
		okRet := false
		for v := range returnClosure(ap, 0) {
			if a, ok := v.(*ssa.Call); ok && isBuiltinCall(a, "append") != nil && Param("in")(a.Call.Args[0]) {
				okRet = true
			}
		}
		c.Check(okRet, "R-LAYOUT", fnAppendRD, "the RDN is appended to the incoming sequence", w.Pos(ap.Pos()), "")
	}

	// ---- R-NARROW at the PrintableString decision
	nIs := 0
	for _, fn := range w.FuncsOfPkg(pkASN1) {
		for _, in := range callsIn(fn, pkASN1+".isPrintable") {
			a := callCommon(in).Args[0]
			cv, ok := a.(*ssa.Convert)
			if !ok {
				continue
			}
			src, ok := cv.X.Type().Underlying().(*types.Basic)
			if !ok || src.Kind() == types.Uint8 {
				continue
			}
			nIs++
			c.Sites++
			x := cv.X
			c.Cut(CutSpec{Rule: "R-NARROW", Fn: fn, Label: "a rune is narrowed to a byte for isPrintable only when it is < utf8.RuneSelf", Target: isInstr(in),
				Cut: Cmp(func(v ssa.Value) bool { return v == x }, "lt", ConstInt(0x80))})
		}
	}
	c.Check(nIs >= 1, "R-NARROW", pkASN1, "narrowing isPrintable call sites enumerated", "-", fmt.Sprint(nIs))
}
