package main

import (
	"fmt"
	"go/types"
	"strings"

	"golang.org/x/tools/go/ssa"
)

// R-FRESH: values that leave a loop iteration must not be built in a buffer that outlives the iteration.

type freshReport struct {
	In   ssa.Instruction
	Kind string // "buffer" | "decode-target"
	What string
}

func inLoopBlocks(l *natLoop, b *ssa.BasicBlock) bool { return l.blocks[b] }

// bufferOrigins: fresh buffers (make / array alloc) the slice value is built on, following
// phis, re-slicing and the destination argument of append.
func bufferOrigins(v ssa.Value) []ssa.Instruction {
	var out []ssa.Instruction
	for x := range backClosure(v, nil) {
		switch y := x.(type) {
		case *ssa.MakeSlice:
			out = append(out, y)
		case *ssa.Alloc:
			if p, ok := y.Type().Underlying().(*types.Pointer); ok {
				if _, isArr := p.Elem().Underlying().(*types.Array); isArr {
					out = append(out, y)
				}
			}
		}
	}
	return out
}

func isAppend(in ssa.Instruction) *ssa.Call {
	return isBuiltinCall(in, "append")
}

// appendDest: the destination slice of an append, or of a call to an in-module helper that
// appends to one of its parameters and returns the result (e.g. appendX(dst, ...)).
func appendDest(in ssa.Instruction) (ssa.Value, *ssa.Call) {
	if cl := isAppend(in); cl != nil {
		return cl.Call.Args[0], cl
	}
	cl, ok := in.(*ssa.Call)
	if !ok {
		return nil, nil
	}
	callee := cl.Call.StaticCallee()
	if callee == nil || len(callee.Blocks) == 0 || !InModule(callee) {
		return nil, nil
	}
	if i := appendsIntoParam(callee); i >= 0 && i < len(cl.Call.Args) {
		return cl.Call.Args[i], cl
	}
	return nil, nil
}

var appendParamCache = map[*ssa.Function]int{}

// appendsIntoParam: index of a slice parameter p such that the function returns append(p..., ...), else -1.
func appendsIntoParam(fn *ssa.Function) int {
	if v, ok := appendParamCache[fn]; ok {
		return v
	}
	appendParamCache[fn] = -1
	res := -1
	for _, rt := range returnsOf(fn) {
		for _, r := range rt.Results {
			if _, isSlice := r.Type().Underlying().(*types.Slice); !isSlice {
				continue
			}
			for x := range backClosure(r, nil) {
				cl, ok := x.(*ssa.Call)
				if !ok || isAppend(cl) == nil {
					continue
				}
				for y := range backClosure(cl.Call.Args[0], nil) {
					if p, ok := y.(*ssa.Parameter); ok {
						for i, q := range fn.Params {
							if q == p {
								res = i
							}
						}
					}
				}
			}
		}
	}
	appendParamCache[fn] = res
	return res
}

// loopFreshness reports (a) appends inside a loop whose destination buffer was allocated outside
// the loop and whose result is stored into a record or appended as an element inside the loop,
// (b) decoder calls inside a loop whose target object was allocated outside the loop.
func loopFreshness(fn *ssa.Function) []freshReport {
	var out []freshReport
	for _, l := range natLoops(fn) {
		for b := range l.blocks {
			for _, in := range b.Instrs {
				if dest, cl := appendDest(in); cl != nil {
					var outside ssa.Instruction
					for _, o := range bufferOrigins(dest) {
						if !inLoopBlocks(l, o.Block()) {
							outside = o
						}
					}
					// re-slicing the loop-carried slice (x = append(x[:0], ...)) reuses the previous iteration's storage
					if outside == nil {
						if sl, ok := dest.(*ssa.Slice); ok && sl.High != nil {
							if ph, ok := sl.X.(*ssa.Phi); ok && ph.Block() == l.header {
								outside = ph
							}
						}
					}
					if outside == nil {
						continue
					}
					// forward chain of the appended value inside the loop
					chain := map[ssa.Value]bool{cl: true}
					for changed := true; changed; {
						changed = false
						for v := range chain {
							refs := v.Referrers()
							if refs == nil {
								continue
							}
							for _, r := range *refs {
								if !inLoopBlocks(l, r.Block()) {
									continue
								}
								switch x := r.(type) {
								case *ssa.Phi:
									if !chain[x] && x.Block() != l.header {
										chain[x] = true
										changed = true
									}
								case *ssa.Slice:
									if !chain[x] {
										chain[x] = true
										changed = true
									}
								case *ssa.Call:
									if d, a := appendDest(x); a != nil && d == v && !chain[a] {
										chain[a] = true
										changed = true
									}
								case *ssa.Extract:
									if !chain[x] {
										chain[x] = true
										changed = true
									}
								}
							}
						}
					}
					for v := range chain {
						refs := v.Referrers()
						if refs == nil {
							continue
						}
						for _, r := range *refs {
							if !inLoopBlocks(l, r.Block()) {
								continue
							}
							switch x := r.(type) {
							case *ssa.Store:
								if x.Val != v {
									continue
								}
								switch x.Addr.(type) {
								case *ssa.FieldAddr, *ssa.IndexAddr:
									// the accumulate idiom x.f = append(x.f, e) updates the location the destination came from
									if ld, ok := stripSliceOps(dest).(*ssa.UnOp); ok && Expr(ld.X) == Expr(x.Addr) {
										continue
									}
									out = append(out, freshReport{r, "buffer", fmt.Sprintf("a slice built by append on a buffer allocated outside the loop (%s) is stored into %s", Expr(outside.(ssa.Value)), Expr(x.Addr))})
								}
							case *ssa.Call:
								if a := isAppend(x); a != nil && len(a.Call.Args) > 1 && a.Call.Args[0] != v {
									for _, e := range a.Call.Args[1:] {
										if e == v {
											out = append(out, freshReport{r, "buffer", fmt.Sprintf("a slice built by append on a buffer allocated outside the loop (%s) is appended as an element", Expr(outside.(ssa.Value)))})
										}
									}
								}
							}
						}
					}
				}
				// (b) decoder targets
				cc := callCommon(in)
				if cc == nil {
					continue
				}
				name := calleeName(cc)
				if !(strings.HasSuffix(name, "asn1.Unmarshal") || strings.HasSuffix(name, "asn1.UnmarshalWithParams") || name == "encoding/json.Unmarshal" || strings.HasSuffix(name, ").unmarshal")) {
					continue
				}
				for _, a := range recvAndArgs(cc) {
					if mi, ok := a.(*ssa.MakeInterface); ok {
						a = mi.X
					}
					al, ok := a.(*ssa.Alloc)
					if !ok || inLoopBlocks(l, al.Block()) {
						continue
					}
					st, isStruct := al.Type().Underlying().(*types.Pointer).Elem().Underlying().(*types.Struct)
					if !isStruct {
						continue
					}
					// only objects that a decode can leave partly untouched: JSON targets, or ASN.1 structs with optional members
					if name != "encoding/json.Unmarshal" && !hasOptionalMember(st, 0) {
						continue
					}
					// reset inside the loop before the call? (whole-value store)
					reset := false
					for _, r := range *al.Referrers() {
						if st, ok := r.(*ssa.Store); ok && st.Addr == ssa.Value(al) && inLoopBlocks(l, st.Block()) && instrDominates(st, in) {
							reset = true
						}
					}
					if reset {
						continue
					}
					out = append(out, freshReport{in, "decode-target", fmt.Sprintf("%s decodes into %s, which is allocated outside the loop and not reset in it (absent optional fields keep the previous iteration's values)", short(name), Expr(al))})
				}
			}
		}
	}
	return out
}

func stripSliceOps(v ssa.Value) ssa.Value {
	for i := 0; i < 4; i++ {
		if sl, ok := v.(*ssa.Slice); ok {
			v = sl.X
			continue
		}
		break
	}
	return v
}

func hasOptionalMember(st *types.Struct, depth int) bool {
	if depth > 3 {
		return false
	}
	for i := 0; i < st.NumFields(); i++ {
		if strings.Contains(st.Tag(i), "optional") || strings.Contains(st.Tag(i), "omitempty") {
			return true
		}
		t := st.Field(i).Type()
		if p, ok := t.Underlying().(*types.Pointer); ok {
			t = p.Elem()
		}
		if inner, ok := t.Underlying().(*types.Struct); ok && hasOptionalMember(inner, depth+1) {
			return true
		}
	}
	return false
}
