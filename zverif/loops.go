package main

import (
	"fmt"
	"go/types"
	"sort"

	"golang.org/x/tools/go/ssa"
)

// Natural loops and a structural progress rule (R-LOOP).

type natLoop struct {
	header *ssa.BasicBlock
	blocks map[*ssa.BasicBlock]bool
	backs  []*ssa.BasicBlock // predecessors of header inside the loop
}

func natLoops(fn *ssa.Function) []*natLoop {
	byHeader := map[*ssa.BasicBlock]*natLoop{}
	for _, b := range fn.Blocks {
		for _, s := range b.Succs {
			if s.Dominates(b) { // back edge b -> s
				l := byHeader[s]
				if l == nil {
					l = &natLoop{header: s, blocks: map[*ssa.BasicBlock]bool{s: true}}
					byHeader[s] = l
				}
				l.backs = append(l.backs, b)
				// collect the natural loop of this back edge
				work := []*ssa.BasicBlock{b}
				for len(work) > 0 {
					x := work[len(work)-1]
					work = work[:len(work)-1]
					if l.blocks[x] {
						continue
					}
					l.blocks[x] = true
					work = append(work, x.Preds...)
				}
			}
		}
	}
	var out []*natLoop
	for _, l := range byHeader {
		out = append(out, l)
	}
	sort.Slice(out, func(i, j int) bool { return out[i].header.Index < out[j].header.Index })
	return out
}

// loopThrough extends backClosure for exit conditions: operators, len/cap arguments, call arguments and receivers.
func loopThrough(v ssa.Value) []ssa.Value {
	switch x := v.(type) {
	case *ssa.Call:
		var out []ssa.Value
		out = append(out, x.Call.Args...)
		if x.Call.IsInvoke() {
			out = append(out, x.Call.Value)
		}
		return out
	case *ssa.UnOp:
		return []ssa.Value{x.X}
	case *ssa.Lookup:
		return []ssa.Value{x.X, x.Index}
	case *ssa.IndexAddr:
		return []ssa.Value{x.X, x.Index}
	case *ssa.FieldAddr:
		return []ssa.Value{x.X}
	case *ssa.Next:
		return []ssa.Value{x.Iter}
	}
	return flowThrough(v)
}

type loopVerdict struct {
	kind   string // "phi" | "memory" | "range" | "unanalysed"
	ok     bool
	detail string
}

func (l *natLoop) exitConds() []ssa.Value {
	var out []ssa.Value
	for b := range l.blocks {
		ifi, ok := b.Instrs[len(b.Instrs)-1].(*ssa.If)
		if !ok {
			continue
		}
		if !l.blocks[b.Succs[0]] || !l.blocks[b.Succs[1]] {
			out = append(out, ifi.Cond)
		}
	}
	return out
}

func checkLoopProgress(l *natLoop) loopVerdict {
	conds := l.exitConds()
	if len(conds) == 0 {
		// no conditional exit: only returns/panics inside (e.g. for { switch ... return }) are exits via If too; truly endless loops have none
		return loopVerdict{"unanalysed", true, "no conditional exit edge"}
	}
	rel := map[*ssa.Phi]bool{}
	var cursors []ssa.Value
	isRange := false
	for _, c := range conds {
		for v := range backClosure(c, loopThrough) {
			switch x := v.(type) {
			case *ssa.Phi:
				if x.Block() == l.header {
					rel[x] = true
				}
			case *ssa.Next, *ssa.Range:
				isRange = true
			case *ssa.Alloc:
				cursors = append(cursors, x)
			case *ssa.Parameter:
				if _, isPtr := x.Type().Underlying().(*types.Pointer); isPtr {
					cursors = append(cursors, x)
				}
			}
		}
	}
	if isRange {
		return loopVerdict{"range", true, "range over map/string/channel"}
	}
	if len(rel) > 0 {
		// a back edge along which no exit-relevant variable changes
		for _, pred := range l.backs {
			idx := -1
			for i, p := range l.header.Preds {
				if p == pred {
					idx = i
				}
			}
			if idx < 0 {
				continue
			}
			all := true
			why := ""
			for p := range rel {
				echoWhy = ""
				if !noProgressVia(p.Edges[idx], p, l, pred, map[ssa.Value]bool{}) {
					all = false
				} else if echoWhy != "" {
					why = echoWhy
				}
			}
			if all {
				// memory cursors may still progress
				// (not when the variable is what a callee handed back unchanged: no call can advance it then)
				if why == "" && len(cursors) > 0 && !memoryNoProgress(l, cursors, conds) {
					continue
				}
				if why != "" {
					return loopVerdict{"phi", false, fmt.Sprintf("back edge from b%d carries every exit-relevant variable unchanged: %s", pred.Index, why)}
				}
				return loopVerdict{"phi", false, fmt.Sprintf("back edge from b%d carries every exit-relevant variable unchanged", pred.Index)}
			}
		}
		return loopVerdict{"phi", true, fmt.Sprintf("%d exit-relevant loop variables change on every back edge", len(rel))}
	}
	if len(cursors) > 0 {
		if memoryNoProgress(l, cursors, conds) {
			return loopVerdict{"memory", false, "a cycle through the loop performs no call on the cursor the exit test reads"}
		}
		return loopVerdict{"memory", true, "every cycle calls into the cursor the exit test reads"}
	}
	return loopVerdict{"unanalysed", true, "exit test depends on neither a loop variable nor a cursor object"}
}

var echoWhy string

// noProgressVia: like noProgress, and also true when e is the result of an in-module call that may hand p back
// unchanged under the facts that hold on the edge leaving block via.
func noProgressVia(e ssa.Value, p *ssa.Phi, l *natLoop, via *ssa.BasicBlock, seen map[ssa.Value]bool) bool {
	if e == ssa.Value(p) {
		return true
	}
	if seen[e] {
		return false
	}
	seen[e] = true
	if why, ok := callEcho(e, p, via); ok {
		echoWhy = why
		return true
	}
	if q, ok := e.(*ssa.Phi); ok && l.blocks[q.Block()] && q.Block() != l.header {
		if isLoopHeader(q.Block()) {
			return false
		}
		for i, x := range q.Edges {
			if noProgressVia(x, p, l, q.Block().Preds[i], seen) {
				return true
			}
		}
	}
	return false
}

func noProgress(e ssa.Value, p *ssa.Phi, l *natLoop, seen map[ssa.Value]bool) bool {
	if e == ssa.Value(p) {
		return true
	}
	if seen[e] {
		return false
	}
	seen[e] = true
	if q, ok := e.(*ssa.Phi); ok && l.blocks[q.Block()] && q.Block() != l.header {
		if isLoopHeader(q.Block()) {
			return false // the value passes through a nested loop: assumed to advance there
		}
		for _, x := range q.Edges {
			if noProgress(x, p, l, seen) {
				return true
			}
		}
	}
	return false
}

// memoryNoProgress: some cycle header -> ... -> header avoids every block that calls into a cursor
// (other than the calls that compute the exit conditions).
func memoryNoProgress(l *natLoop, cursors []ssa.Value, conds []ssa.Value) bool {
	condCalls := map[ssa.Instruction]bool{}
	for _, c := range conds {
		for v := range backClosure(c, loopThrough) {
			if in, ok := v.(ssa.Instruction); ok {
				condCalls[in] = true
			}
		}
	}
	isCursor := func(v ssa.Value) bool {
		for i := 0; i < 6; i++ {
			switch x := v.(type) {
			case *ssa.MakeInterface:
				v = x.X
				continue
			case *ssa.ChangeType:
				v = x.X
				continue
			case *ssa.FieldAddr:
				v = x.X
				continue
			case *ssa.IndexAddr:
				v = x.X
				continue
			}
			break
		}
		for _, cu := range cursors {
			if v == cu {
				return true
			}
		}
		return false
	}
	progress := map[*ssa.BasicBlock]bool{}
	for b := range l.blocks {
		for _, in := range b.Instrs {
			if condCalls[in] {
				// a condition call that also consumes (e.g. s.ReadX(&v) used as the test) is progress when it is not the header's pure test
				if cc := callCommon(in); cc != nil && b != l.header {
					for _, a := range recvAndArgs(cc) {
						if isCursor(a) {
							progress[b] = true
						}
					}
				}
				continue
			}
			switch x := in.(type) {
			case *ssa.Store:
				if isCursor(x.Addr) {
					progress[b] = true
				}
			default:
				if cc := callCommon(in); cc != nil {
					for _, a := range recvAndArgs(cc) {
						if isCursor(a) {
							progress[b] = true
						}
					}
				}
			}
		}
	}
	// DFS from header's in-loop successors back to header avoiding progress blocks
	seen := map[*ssa.BasicBlock]bool{}
	var work []*ssa.BasicBlock
	if progress[l.header] {
		return false
	}
	for _, s := range l.header.Succs {
		if l.blocks[s] {
			work = append(work, s)
		}
	}
	for len(work) > 0 {
		b := work[len(work)-1]
		work = work[:len(work)-1]
		if b == l.header {
			return true
		}
		if seen[b] || progress[b] {
			continue
		}
		seen[b] = true
		for _, s := range b.Succs {
			if l.blocks[s] {
				work = append(work, s)
			}
		}
	}
	return false
}

func isLoopHeader(b *ssa.BasicBlock) bool {
	for _, p := range b.Preds {
		if b.Dominates(p) {
			return true
		}
	}
	return false
}

// ---- interprocedural part of the progress rule -------------------------------------------------
// A loop of the form  for len(rest) > 0 { rest, err = f(rest, ...) ... }  advances only if f does not
// hand its argument back unchanged. echoReturns summarises, for an in-module function, the returns at
// which result ri is parameter pj itself (or a full re-slice of it), split by whether the error
// result (if any) may be nil at that return.
type echoSummary struct {
	withNilErr    []*ssa.Return
	withNonNilErr []*ssa.Return
}

var echoCache = map[string]*echoSummary{}

func fullSliceOf(v ssa.Value, p *ssa.Parameter, depth int) bool {
	if depth > 8 {
		return false
	}
	switch x := v.(type) {
	case *ssa.Parameter:
		return x == p
	case *ssa.Slice:
		lowZero := x.Low == nil
		if k, ok := x.Low.(*ssa.Const); ok && k.Value != nil && k.Value.ExactString() == "0" {
			lowZero = true
		}
		return lowZero && x.High == nil && fullSliceOf(x.X, p, depth+1)
	case *ssa.ChangeType:
		return fullSliceOf(x.X, p, depth+1)
	case *ssa.Phi:
		for _, e := range x.Edges {
			if fullSliceOf(e, p, depth+1) {
				return true
			}
		}
	}
	return false
}

func echoReturns(fn *ssa.Function, ri, pj int) *echoSummary {
	key := fmt.Sprintf("%s|%d|%d", FuncName(fn), ri, pj)
	if s, ok := echoCache[key]; ok {
		return s
	}
	s := &echoSummary{}
	echoCache[key] = s
	if fn == nil || len(fn.Blocks) == 0 || pj >= len(fn.Params) {
		return s
	}
	p := fn.Params[pj]
	errIdx := -1
	res := fn.Signature.Results()
	for i := 0; i < res.Len(); i++ {
		if isErrorType(res.At(i).Type()) {
			errIdx = i
		}
	}
	for _, rt := range returnsOf(fn) {
		if ri >= len(rt.Results) {
			continue
		}
		// the error outcome of this return
		canNil, canNonNil := true, false
		var errV ssa.Value
		if errIdx >= 0 {
			errV = unspill(rt, errIdx)
			switch {
			case isNilConst(errV):
			case definitelyNonNil(errV) || anyFact(domFacts(rt.Block()), func(f Fact) bool { return f.Op == "nonnil" && f.X == errV }):
				canNil, canNonNil = false, true
			default:
				canNonNil = true
			}
		}
		v := unspill(rt, ri)
		if ex, ok := v.(*ssa.Extract); ok {
			// the result of a callee handed through
			cl, ok := ex.Tuple.(*ssa.Call)
			if !ok {
				continue
			}
			g := cl.Call.StaticCallee()
			if g == nil || !InModule(g) || g == fn {
				continue
			}
			for k, a := range cl.Call.Args {
				if !fullSliceOf(a, p, 0) {
					continue
				}
				inner := echoReturns(g, ex.Index, k)
				inNil, inNonNil := len(inner.withNilErr) > 0, len(inner.withNonNilErr) > 0
				if ee, ok := errV.(*ssa.Extract); ok && ee.Tuple == ssa.Value(cl) && isErrorType(ee.Type()) {
					// the callee's error is handed through as well
					if inNil && canNil {
						s.withNilErr = append(s.withNilErr, rt)
					}
					if inNonNil && canNonNil {
						s.withNonNilErr = append(s.withNonNilErr, rt)
					}
					continue
				}
				// own error value: the callee may have echoed under either outcome unless a fact on its error separates them
				calleeNil, calleeNonNil := true, true
				for _, fct := range domFacts(rt.Block()) {
					x, ok := fct.X.(*ssa.Extract)
					if ok && x.Tuple == ssa.Value(cl) && isErrorType(x.Type()) {
						if fct.Op == "nil" {
							calleeNonNil = false
						}
						if fct.Op == "nonnil" {
							calleeNil = false
						}
					}
				}
				if (inNil && calleeNil) || (inNonNil && calleeNonNil) {
					if canNil {
						s.withNilErr = append(s.withNilErr, rt)
					}
					if canNonNil {
						s.withNonNilErr = append(s.withNonNilErr, rt)
					}
				}
			}
			continue
		}
		if !fullSliceOf(v, p, 0) {
			continue
		}
		if canNil {
			s.withNilErr = append(s.withNilErr, rt)
		}
		if canNonNil {
			s.withNonNilErr = append(s.withNonNilErr, rt)
		}
	}
	return s
}

// callEcho: e (a back-edge value of header phi p) is result #i of an in-module call that receives p (or a
// value that is p unchanged) as argument #j, and the callee may return that argument unchanged. ok reports
// whether such a return is compatible with the facts that dominate the back edge (an err == nil test on the
// same call excludes the error returns and vice versa).
func callEcho(e ssa.Value, p *ssa.Phi, back *ssa.BasicBlock) (string, bool) {
	ex, ok := e.(*ssa.Extract)
	if !ok {
		return "", false
	}
	cl, ok := ex.Tuple.(*ssa.Call)
	if !ok {
		return "", false
	}
	f := cl.Call.StaticCallee()
	if f == nil || !InModule(f) || len(f.Blocks) == 0 {
		return "", false
	}
	off := 0
	if f.Signature.Recv() != nil {
		off = 1
	}
	_ = off
	for j, a := range cl.Call.Args {
		if a != ssa.Value(p) {
			continue
		}
		s := echoReturns(f, ex.Index, j)
		if len(s.withNilErr)+len(s.withNonNilErr) == 0 {
			continue
		}
		// which error outcome does the back edge allow?
		errNil, errNonNil := true, true
		for _, fct := range domFacts(back) {
			x, ok := fct.X.(*ssa.Extract)
			if !ok || x.Tuple != ssa.Value(cl) || !isErrorType(x.Type()) {
				continue
			}
			if fct.Op == "nil" {
				errNonNil = false
			}
			if fct.Op == "nonnil" {
				errNil = false
			}
		}
		if errNil && len(s.withNilErr) > 0 {
			return fmt.Sprintf("%s may return its argument #%d unchanged as result #%d with a nil error", short(FuncName(f)), j, ex.Index), true
		}
		if errNonNil && len(s.withNonNilErr) > 0 {
			return fmt.Sprintf("%s returns its argument #%d unchanged as result #%d when it fails, and the loop continues after the failure", short(FuncName(f)), j, ex.Index), true
		}
	}
	return "", false
}
