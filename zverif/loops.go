package main

import (
	"fmt"
	"go/types"
	"sort"

	"golang.org/x/tools/go/ssa"
)

// Natural loops and a structural progress rule (R-LOOP).

type natLoop struct {
	header *ssa.BasicBlock
	blocks map[*ssa.BasicBlock]bool
	backs  []*ssa.BasicBlock // predecessors of header inside the loop
}

func natLoops(fn *ssa.Function) []*natLoop {
	byHeader := map[*ssa.BasicBlock]*natLoop{}
	for _, b := range fn.Blocks {
		for _, s := range b.Succs {
			if s.Dominates(b) { // back edge b -> s
				l := byHeader[s]
				if l == nil {
					l = &natLoop{header: s, blocks: map[*ssa.BasicBlock]bool{s: true}}
					byHeader[s] = l
				}
				l.backs = append(l.backs, b)
				// collect the natural loop of this back edge
				work := []*ssa.BasicBlock{b}
				for len(work) > 0 {
					x := work[len(work)-1]
					work = work[:len(work)-1]
					if l.blocks[x] {
						continue
					}
					l.blocks[x] = true
					work = append(work, x.Preds...)
				}
			}
		}
	}
	var out []*natLoop
	for _, l := range byHeader {
		out = append(out, l)
	}
	sort.Slice(out, func(i, j int) bool { return out[i].header.Index < out[j].header.Index })
	return out
}

// loopThrough extends backClosure for exit conditions: operators, len/cap arguments, call arguments and receivers.
func loopThrough(v ssa.Value) []ssa.Value {
	switch x := v.(type) {
	case *ssa.Call:
		var out []ssa.Value
		out = append(out, x.Call.Args...)
		if x.Call.IsInvoke() {
			out = append(out, x.Call.Value)
		}
		return out
	case *ssa.UnOp:
		return []ssa.Value{x.X}
	case *ssa.Lookup:
		return []ssa.Value{x.X, x.Index}
	case *ssa.IndexAddr:
		return []ssa.Value{x.X, x.Index}
	case *ssa.FieldAddr:
		return []ssa.Value{x.X}
	case *ssa.Next:
		return []ssa.Value{x.Iter}
	}
	return flowThrough(v)
}

type loopVerdict struct {
	kind   string // "phi" | "memory" | "range" | "unanalysed"
	ok     bool
	detail string
}

func (l *natLoop) exitConds() []ssa.Value {
	var out []ssa.Value
	for b := range l.blocks {
		ifi, ok := b.Instrs[len(b.Instrs)-1].(*ssa.If)
		if !ok {
			continue
		}
		if !l.blocks[b.Succs[0]] || !l.blocks[b.Succs[1]] {
			out = append(out, ifi.Cond)
		}
	}
	return out
}

func checkLoopProgress(l *natLoop) loopVerdict {
	conds := l.exitConds()
	if len(conds) == 0 {
		// no conditional exit: only returns/panics inside (e.g. for { switch ... return }) are exits via If too; truly endless loops have none
		return loopVerdict{"unanalysed", true, "no conditional exit edge"}
	}
	rel := map[*ssa.Phi]bool{}
	var cursors []ssa.Value
	isRange := false
	for _, c := range conds {
		for v := range backClosure(c, loopThrough) {
			switch x := v.(type) {
			case *ssa.Phi:
				if x.Block() == l.header {
					rel[x] = true
				}
			case *ssa.Next, *ssa.Range:
				isRange = true
			case *ssa.Alloc:
				cursors = append(cursors, x)
			case *ssa.Parameter:
				if _, isPtr := x.Type().Underlying().(*types.Pointer); isPtr {
					cursors = append(cursors, x)
				}
			}
		}
	}
	if isRange {
		return loopVerdict{"range", true, "range over map/string/channel"}
	}
	if len(rel) > 0 {
		// a back edge along which no exit-relevant variable changes
		for _, pred := range l.backs {
			idx := -1
			for i, p := range l.header.Preds {
				if p == pred {
					idx = i
				}
			}
			if idx < 0 {
				continue
			}
			all := true
			for p := range rel {
				if !noProgress(p.Edges[idx], p, l, map[ssa.Value]bool{}) {
					all = false
				}
			}
			if all {
				// memory cursors may still progress
				if len(cursors) > 0 && !memoryNoProgress(l, cursors, conds) {
					continue
				}
				return loopVerdict{"phi", false, fmt.Sprintf("back edge from b%d carries every exit-relevant variable unchanged", pred.Index)}
			}
		}
		return loopVerdict{"phi", true, fmt.Sprintf("%d exit-relevant loop variables change on every back edge", len(rel))}
	}
	if len(cursors) > 0 {
		if memoryNoProgress(l, cursors, conds) {
			return loopVerdict{"memory", false, "a cycle through the loop performs no call on the cursor the exit test reads"}
		}
		return loopVerdict{"memory", true, "every cycle calls into the cursor the exit test reads"}
	}
	return loopVerdict{"unanalysed", true, "exit test depends on neither a loop variable nor a cursor object"}
}

func noProgress(e ssa.Value, p *ssa.Phi, l *natLoop, seen map[ssa.Value]bool) bool {
	if e == ssa.Value(p) {
		return true
	}
	if seen[e] {
		return false
	}
	seen[e] = true
	if q, ok := e.(*ssa.Phi); ok && l.blocks[q.Block()] && q.Block() != l.header {
		if isLoopHeader(q.Block()) {
			return false // the value passes through a nested loop: assumed to advance there
		}
		for _, x := range q.Edges {
			if noProgress(x, p, l, seen) {
				return true
			}
		}
	}
	return false
}

// memoryNoProgress: some cycle header -> ... -> header avoids every block that calls into a cursor
// (other than the calls that compute the exit conditions).
func memoryNoProgress(l *natLoop, cursors []ssa.Value, conds []ssa.Value) bool {
	condCalls := map[ssa.Instruction]bool{}
	for _, c := range conds {
		for v := range backClosure(c, loopThrough) {
			if in, ok := v.(ssa.Instruction); ok {
				condCalls[in] = true
			}
		}
	}
	isCursor := func(v ssa.Value) bool {
		for i := 0; i < 6; i++ {
			switch x := v.(type) {
			case *ssa.MakeInterface:
				v = x.X
				continue
			case *ssa.ChangeType:
				v = x.X
				continue
			case *ssa.FieldAddr:
				v = x.X
				continue
			case *ssa.IndexAddr:
				v = x.X
				continue
			}
			break
		}
		for _, cu := range cursors {
			if v == cu {
				return true
			}
		}
		return false
	}
	progress := map[*ssa.BasicBlock]bool{}
	for b := range l.blocks {
		for _, in := range b.Instrs {
			if condCalls[in] {
				// a condition call that also consumes (e.g. s.ReadX(&v) used as the test) is progress when it is not the header's pure test
				if cc := callCommon(in); cc != nil && b != l.header {
					for _, a := range recvAndArgs(cc) {
						if isCursor(a) {
							progress[b] = true
						}
					}
				}
				continue
			}
			switch x := in.(type) {
			case *ssa.Store:
				if isCursor(x.Addr) {
					progress[b] = true
				}
			default:
				if cc := callCommon(in); cc != nil {
					for _, a := range recvAndArgs(cc) {
						if isCursor(a) {
							progress[b] = true
						}
					}
				}
			}
		}
	}
	// DFS from header's in-loop successors back to header avoiding progress blocks
	seen := map[*ssa.BasicBlock]bool{}
	var work []*ssa.BasicBlock
	if progress[l.header] {
		return false
	}
	for _, s := range l.header.Succs {
		if l.blocks[s] {
			work = append(work, s)
		}
	}
	for len(work) > 0 {
		b := work[len(work)-1]
		work = work[:len(work)-1]
		if b == l.header {
			return true
		}
		if seen[b] || progress[b] {
			continue
		}
		seen[b] = true
		for _, s := range b.Succs {
			if l.blocks[s] {
				work = append(work, s)
			}
		}
	}
	return false
}

func isLoopHeader(b *ssa.BasicBlock) bool {
	for _, p := range b.Preds {
		if b.Dominates(p) {
			return true
		}
	}
	return false
}
