package main

import (
	"fmt"
	"go/types"
	"strings"

	"golang.org/x/tools/go/ssa"
)

const (
	fnDecrypt  = "(*z/tls.halfConn).decrypt"
	fnMaxPay   = "(*z/tls.Conn).maxPayloadSizeForWrite"
	fnWriteRec = "(*z/tls.Conn).writeRecordLocked"
	fnReadRec  = "(*z/tls.Conn).readRecordOrCCS"
	fnConnRead = "(*z/tls.Conn).Read"
)

func init() {
	register(&propDef{
		ID: "C25",
		Explain: "R-CUT on the record layer: halfConn.decrypt returns a nil error only with no cipher installed, past aead.Open==nil, past ConstantTimeCompare(localMAC, remoteMAC)&paddingGood == 1, or for a skipped TLS 1.3 ChangeCipherSpec; " +
			"with an AEAD the Open edge is mandatory, with a MAC installed the MAC edge is mandatory; the MAC covers the sequence number, the header and the payload; the sequence number is incremented on every authenticated success. " +
			"R-VSET: every value returned by maxPayloadSizeForWrite is the constant maxPlaintext or is bounded by it on a dominating edge, and writeRecordLocked slices the data by len(data) only where len(data) <= that bound " +
			"(so no record carries more than 2^14 plaintext bytes); a received record larger than maxPlaintext is rejected. R-PRE: no new record is read while decrypted application data is pending (readRecordOrCCS's entry guard dominates the decrypt call; " +
			"Read's close_notify look-ahead runs only with an empty input buffer).",
		NotCov: "Stream integrity end to end (ordering of records across the connection, the peer's behaviour), the arithmetic of the MAC/AEAD themselves.",
		Floor:  16,
		Run:    runC25,
	})
}

func runC25(c *Ctx) {
	w := c.W
	c25Extras(c)
	c25Extras3(c)
	c.alertSummary()
	dec := w.Fn(fnDecrypt)
	if dec == nil {
		c.Undecided("R-CUT", fnDecrypt, "anchor", "-", "not found")
	} else {
		succ := SuccessReturn(2, nil)
		cipherNil := IsNil(exprIs("hc.cipher"))
		openOK := IsNil(func(v ssa.Value) bool {
			ex, ok := v.(*ssa.Extract)
			if !ok || ex.Index != 1 {
				return false
			}
			cl, ok := ex.Tuple.(*ssa.Call)
			return ok && cl.Call.IsInvoke() && cl.Call.Method.Name() == "Open"
		})
		macGood := Cmp(func(v ssa.Value) bool {
			b, ok := v.(*ssa.BinOp)
			if !ok || b.Op.String() != "&" {
				return false
			}
			d := Deps(v)
			return d["call:crypto/subtle.ConstantTimeCompare"] && d["call:tls.extractPadding"] && d["call:tls.tls10MAC"]
		}, "eq", ConstInt(1))
		ccsSkip := Cmp(func(v ssa.Value) bool { return Expr(v) == "recordType(record[0])" || Expr(v) == "record[0]" }, "eq", w.IsConstNamed("z/tls", "recordTypeChangeCipherSpec"))
		macNil := IsNil(exprIs("hc.mac"))
		// lemma (decided below on the cipherSuites table): a suite either has an AEAD, or both a cipher and a MAC;
		// so "non-AEAD cipher installed with hc.mac == nil" is not a configuration the handshake can install.
		lemmaOK := c.suiteTableLemma()
		lemma := func(f Fact) bool { return lemmaOK && macNil(f) }
		c.Cut(CutSpec{Fn: dec, Label: "nil error only unprotected, past AEAD Open, past the MAC comparison, or for the skipped TLS 1.3 CCS", Target: succ, Cut: AnyF(cipherNil, openOK, macGood, ccsSkip, lemma)})
		c.Infof("lemma cut used in halfConn.decrypt: the edge hc.mac == nil with a non-AEAD cipher installed is treated as infeasible (cipherSuites table: every suite has aead, or cipher and mac)")
		// AEAD: Open is mandatory
		aeadEdge := IsTrue(func(v ssa.Value) bool {
			ex, ok := v.(*ssa.Extract)
			if !ok || ex.Index != 1 {
				return false
			}
			ta, ok := ex.Tuple.(*ssa.TypeAssert)
			return ok && strings.HasSuffix(typeStr(ta.AssertedType), "tls.aead") && Expr(ta.X) == "hc.cipher"
		})
		c.Cut(CutSpec{Fn: dec, Label: "with an AEAD cipher, nil error only past Open == nil", Start: aeadEdge, Target: succ, Cut: openOK})
		c.Cut(CutSpec{Fn: dec, Label: "with a MAC installed, nil error only past the constant-time MAC-and-padding comparison", Start: NonNil(exprIs("hc.mac")), Target: succ, Cut: AnyF(macGood)})
		c.Cut(CutSpec{Fn: dec, Label: "stream/CBC ciphers reach success only through the MAC branch or with no MAC configured", Target: succ, Cut: AnyF(cipherNil, openOK, macGood, ccsSkip, macNil), MinTargets: 1})
		// what the MAC covers
		for _, in := range callsIn(dec, "z/tls.tls10MAC") {
			c.Sites++
			a := callCommon(in).Args
			ok := Expr(a[0]) == "hc.mac" && strings.HasPrefix(Expr(a[2]), "hc.seq[") && Expr(a[3]) == "record[:5]" && hasAll(Deps(a[4]), "param:record")
			c.Check(ok, "R-PROV", fnDecrypt, "local MAC = tls10MAC(hc.mac, seq, record header, payload...)", w.InstrPos(in), Expr(a[2])+" ; "+Expr(a[3]))
		}
		// AEAD additional data / nonce come from the sequence number and header
		for _, b := range dec.Blocks {
			for _, in := range b.Instrs {
				if cl, ok := in.(*ssa.Call); ok && cl.Call.IsInvoke() && cl.Call.Method.Name() == "Open" {
					c.Sites++
					ad := Deps(cl.Call.Args[3])
					c.Check(ad["param:record"] && hasAll(Deps(cl.Call.Args[2]), "param:record"), "R-PROV", fnDecrypt, "Open authenticates the record payload with additional data built from the record header (and sequence number before TLS 1.3)", w.InstrPos(in), depList(ad))
				}
			}
		}
		// sequence number
		inc := callsIn(dec, "(*z/tls.halfConn).incSeq")
		c.Check(len(inc) == 1, "R-PRE", fnDecrypt, "one incSeq site", w.Pos(dec.Pos()), fmt.Sprint(len(inc)))
		if len(inc) == 1 {
			c.Cut(CutSpec{Rule: "R-PRE", Fn: dec, Label: "the sequence number advances on every success except the skipped CCS", Target: succ, Cut: ccsSkip,
				Barrier: func(in ssa.Instruction) bool { return in == inc[0] }})
			c.Cut(CutSpec{Rule: "R-PRE", Fn: dec, Label: "the sequence number advances only after authentication", Target: isInstr(inc[0]), Cut: AnyF(cipherNil, openOK, macGood, macNil)})
		}
	}

	// ---- outgoing size bound
	maxP := w.IsConstNamed("z/tls", "maxPlaintext")
	if mp := w.Fn(fnMaxPay); mp == nil {
		c.Undecided("R-VSET", fnMaxPay, "anchor", "-", "not found")
	} else {
		var track []ssa.Value
		for _, b := range mp.Blocks {
			if rt, ok := b.Instrs[len(b.Instrs)-1].(*ssa.Return); ok {
				track = append(track, rt.Results[0])
			}
		}
		var current ssa.Value
		tgt := func(in ssa.Instruction, res resolver) bool {
			rt, ok := in.(*ssa.Return)
			if !ok {
				return false
			}
			v := res(rt.Results[0])
			if maxP(v) {
				return false
			}
			if k, isC := intConst(v); isC && k >= 0 && k <= 16384 {
				return false
			}
			current = v
			return true
		}
		// a non-constant return value must have been compared: v <= maxPlaintext on a taken edge
		r := RunCut(&CutSpec{Fn: mp, Target: func(in ssa.Instruction, res resolver) bool { return false }, Track: track})
		_ = r
		// enumerate distinct non-constant returned values statically, then one cut per value
		vals := map[ssa.Value]bool{}
		for _, t := range track {
			for v := range backClosure(t, nil) {
				if _, isPhi := v.(*ssa.Phi); isPhi {
					continue
				}
				if _, isC := v.(*ssa.Const); isC {
					c.Check(maxP(v) || func() bool { k, ok := intConst(v); return ok && k >= 0 && k <= 16384 }(), "R-VSET", fnMaxPay, "constant return value is at most maxPlaintext", w.Pos(mp.Pos()), Expr(v))
					continue
				}
				vals[v] = true
			}
		}
		c.Sites += len(vals)
		for v := range vals {
			vv := v
			t2 := func(in ssa.Instruction, res resolver) bool {
				rt, ok := in.(*ssa.Return)
				return ok && res(rt.Results[0]) == vv
			}
			c.Cut(CutSpec{Rule: "R-VSET", Fn: mp, Label: "a computed payload size is returned only on the edge where it is <= maxPlaintext [" + Expr(vv) + "]", Target: t2, MinTargets: -1, Track: track,
				Cut: Cmp(func(x ssa.Value) bool { return x == vv }, "le", maxP)})
		}
		_ = tgt
		_ = current
		c.Check(len(track) >= 3, "R-VSET", fnMaxPay, "return sites enumerated", w.Pos(mp.Pos()), fmt.Sprint(len(track)))
	}
	if wr := w.Fn(fnWriteRec); wr == nil {
		c.Undecided("R-VSET", fnWriteRec, "anchor", "-", "not found")
	} else {
		n := 0
		for _, b := range wr.Blocks {
			for _, in := range b.Instrs {
				cc := callCommon(in)
				if cc == nil || !nameIn(calleeName(cc), []string{"(*z/tls.halfConn).encrypt"}) {
					continue
				}
				n++
				c.Sites++
				sl, ok := cc.Args[2].(*ssa.Slice)
				if !ok || sl.High == nil {
					c.Fail("R-VSET", fnWriteRec, "the record payload is a bounded prefix data[:m]", w.InstrPos(in), Expr(cc.Args[2]))
					continue
				}
				bound := ResultOf(-1, fnMaxPay)
				tgt := func(i ssa.Instruction, res resolver) bool {
					if i != in {
						return false
					}
					m := res(sl.High)
					return !bound(m) // m is not the clamp value itself: it must have been compared with it
				}
				c.Cut(CutSpec{Rule: "R-VSET", Fn: wr, Label: "a record carries len(data) bytes only if that is <= maxPayloadSizeForWrite(typ)", Target: tgt, MinTargets: -1, Track: []ssa.Value{sl.High},
					Cut: Cmp(func(v ssa.Value) bool { return strings.HasPrefix(Expr(v), "len(") }, "le", bound)})
				// the length written in the header is the same m
				okHdr := false
				for _, b2 := range wr.Blocks {
					for _, i2 := range b2.Instrs {
						if st, ok := i2.(*ssa.Store); ok {
							if ia, ok := st.Addr.(*ssa.IndexAddr); ok {
								if k, isC := intConst(ia.Index); isC && k == 4 {
									if cv, ok := st.Val.(*ssa.Convert); ok && cv.X == sl.High {
										okHdr = true
									}
								}
							}
						}
					}
				}
				c.Check(okHdr, "R-LAYOUT", fnWriteRec, "the header length field is the payload length m", w.InstrPos(in), "")
			}
		}
		c.Check(n == 1, "R-VSET", fnWriteRec, "one encrypt site", w.Pos(wr.Pos()), fmt.Sprint(n))
	}

	// ---- incoming
	if rr := w.Fn(fnReadRec); rr == nil {
		c.Undecided("R-PRE", fnReadRec, "anchor", "-", "not found")
	} else {
		inputEmpty := Cmp(func(v ssa.Value) bool {
			cl := callOf(v)
			return cl != nil && calleeName(&cl.Call) == "(*bytes.Reader).Len" && Expr(cl.Call.Args[0]) == "c.input"
		}, "eq", ConstInt(0))
		c.Cut(CutSpec{Rule: "R-PRE", Fn: rr, Label: "no record is decrypted while decrypted application data is pending", Target: CallTo(fnDecrypt), Cut: inputEmpty})
		c.Cut(CutSpec{Rule: "R-PRE", Fn: rr, Label: "no bytes are pulled from the transport while application data is pending", Target: CallTo("(*z/tls.Conn).readFromUntil"), Cut: inputEmpty})
		c.Cut(CutSpec{Fn: rr, Label: "a decrypted record longer than maxPlaintext is rejected", Start: Cmp(LenOf(ResultOf(0, fnDecrypt)), "gt", maxP), Target: SuccessReturn(0, nil), MinTargets: 1})
		c.Cut(CutSpec{Fn: rr, Label: "a record that fails decryption is rejected", Start: NonNil(ResultOf(2, fnDecrypt)), Target: SuccessReturn(0, nil), MinTargets: 1})
		c.Cut(CutSpec{Fn: rr, Label: "unprotected application data is rejected", Target: SuccessReturn(0, nil), MinTargets: 1,
			Start: func(f Fact) bool {
				return f.Op == "eq" && f.Y != nil && ResultOf(1, fnDecrypt)(f.X) && w.IsConstNamed("z/tls", "recordTypeApplicationData")(f.Y) && false
			}, StartEdges: appDataUnprotectedEdges(rr, w)})
	}
	if rd := w.Fn(fnConnRead); rd == nil {
		c.Undecided("R-PRE", fnConnRead, "anchor", "-", "not found")
	} else {
		// the look-ahead readRecord (the one after input.Read) runs only with an empty input buffer
		var readCall ssa.Instruction
		for _, b := range rd.Blocks {
			for _, in := range b.Instrs {
				if cc := callCommon(in); cc != nil && calleeName(cc) == "(*bytes.Reader).Read" && Expr(cc.Args[0]) == "c.input" {
					readCall = in
				}
			}
		}
		if readCall == nil {
			c.Fail("R-PRE", fnConnRead, "application data is delivered from c.input", w.Pos(rd.Pos()), "no c.input.Read call")
		} else {
			c.Cut(CutSpec{Rule: "R-PRE", Fn: rd, Label: "after delivering data, another record is read only if the input buffer is empty", StartAfter: readCall, Target: CallTo("(*z/tls.Conn).readRecord"),
				Cut: Cmp(func(v ssa.Value) bool {
					cl := callOf(v)
					return cl != nil && calleeName(&cl.Call) == "(*bytes.Reader).Len" && Expr(cl.Call.Args[0]) == "c.input"
				}, "eq", ConstInt(0))})
			c.Cut(CutSpec{Rule: "R-PRE", Fn: rd, Label: "data is delivered only from a non-empty input buffer (records are read while it is empty)", Target: isInstr(readCall),
				Cut: Cmp(func(v ssa.Value) bool {
					cl := callOf(v)
					return cl != nil && calleeName(&cl.Call) == "(*bytes.Reader).Len" && Expr(cl.Call.Args[0]) == "c.input"
				}, "ne gt", ConstInt(0))})
		}
	}
	_ = types.Typ
}

// appDataUnprotectedEdges: edges where typ == recordTypeApplicationData holds and c.in.cipher == nil dominates.
func appDataUnprotectedEdges(fn *ssa.Function, w *World) []EdgeRef {
	var out []EdgeRef
	isApp := w.IsConstNamed("z/tls", "recordTypeApplicationData")
	for _, b := range fn.Blocks {
		ifi, ok := b.Instrs[len(b.Instrs)-1].(*ssa.If)
		if !ok {
			continue
		}
		for si := 0; si < 2; si++ {
			for _, f := range condFacts(ifi.Cond, si == 0, idRes) {
				if f.Op == "eq" && f.Y != nil && isApp(f.Y) && ResultOf(1, fnDecrypt)(f.X) {
					dom := domFacts(b)
					if anyFact(dom, IsNil(exprIs("c.in.cipher"))) {
						out = append(out, EdgeRef{B: b, Succ: si, Known: dom})
					}
				}
			}
		}
	}
	return out
}

// suiteTableLemma decides on the cipherSuites table literal that every
// TLS <= 1.2 suite has either an AEAD constructor, or both a cipher and a MAC
// constructor (columns cipher, mac, aead).
func (c *Ctx) suiteTableLemma() bool {
	w := c.W
	rows, _, pos := w.VarRows("z/tls", "cipherSuites")
	if len(rows) < 10 {
		c.Fail("R-TABLE", "z/tls", "cipherSuites table extracted", w.Pos(pos), fmt.Sprint(len(rows)))
		return false
	}
	ok := true
	bad := ""
	isNil := func(t TabVal) bool { return types.ExprString(t.Expr) == "nil" }
	for _, r := range rows {
		if len(r) != 9 {
			ok = false
			bad = fmt.Sprint(len(r), " columns")
			continue
		}
		ciph, mac, aead := !isNil(r[6]), !isNil(r[7]), !isNil(r[8])
		if !((aead && !ciph && !mac) || (!aead && ciph && mac)) {
			ok = false
			bad = r[0].String()
		}
	}
	c.Sites += len(rows)
	c.Check(ok, "R-TABLE", "tls.cipherSuites", "every suite has an AEAD, or both a cipher and a MAC", w.Pos(pos), bad)
	// and the record layer is only ever armed from a suite's constructors
	n := 0
	for _, fn := range w.FuncsOfPkg("z/tls") {
		for _, in := range callsIn(fn, "(*z/tls.halfConn).prepareCipherSpec") {
			n++
			a := callCommon(in).Args
			dc, dm := Deps(a[2]), Deps(a[3])
			okSrc := (dc["call:dyn:cipherSuite.cipher"] || dc["call:dyn:cipherSuite.aead"]) && (dm["call:dyn:cipherSuite.mac"] || isNilConst(a[3]))
			c.Check(okSrc, "R-PROV", FuncName(fn), "prepareCipherSpec receives the negotiated suite's cipher/AEAD and MAC ["+w.InstrPos(in)+"]", w.InstrPos(in), depList(dc)+" ; "+depList(dm))
			if !okSrc {
				ok = false
			}
		}
	}
	c.Check(n >= 4, "R-PROV", "z/tls", "prepareCipherSpec call sites enumerated", "-", fmt.Sprint(n))
	return ok
}
