package main

import (
	"fmt"
	"go/constant"
	"go/types"
	"path/filepath"
	"strings"

	"golang.org/x/tools/go/ssa"
)

// selftest runs each rule engine on /verif/fixtures/zvfixture, a tiny module with one instance
// that must be discharged (…OK) and one that must be reported (…Bad) per engine. It guards against
// an engine that silently stops firing (a rule matching nothing passes forever).
func selftest(verif string) int {
	minPackages = 1
	defer func() { minPackages = 31 }()
	w, err := Load(filepath.Join(verif, "fixtures", "zvfixture"), nil, nil)
	if err != nil {
		fmt.Println("SELFTEST ERROR", err)
		return 2
	}
	pkg := "z/zvfixture"
	fails := 0
	expect := func(name string, got, want bool) {
		status := "ok"
		if got != want {
			status = "FAIL"
			fails++
		}
		fmt.Printf("selftest %-28s reported=%-5v expected=%-5v %s\n", name, got, want, status)
	}
	reported := func(c *Ctx) bool {
		for _, o := range c.Obls {
			if o.Verdict != "discharged" {
				return true
			}
		}
		return false
	}
	sub := func() *Ctx { return &Ctx{W: w, FnsSeen: map[string]bool{}, extra: map[string]any{}} }
	fnOf := func(n string) *ssa.Function {
		fn := w.Fn(n)
		if fn == nil {
			fmt.Println("SELFTEST ERROR fixture function missing:", n)
			fails++
		}
		return fn
	}
	// R-CUT
	for _, t := range []struct {
		name string
		bad  bool
	}{{"CutOK", false}, {"CutBad", true}} {
		if fn := fnOf(pkg + "." + t.name); fn != nil {
			c := sub()
			c.Cut(CutSpec{Rule: "R-CUT", Fn: fn, Label: "success only past check(x) == nil", Target: SuccessReturn(1, nil), Cut: IsNil(ResultOf(-1, pkg+".check"))})
			expect("R-CUT "+t.name, reported(c), t.bad)
		}
	}
	// R-BOUNDS
	for _, t := range []struct {
		name string
		bad  bool
	}{{"BoundsOK", false}, {"BoundsBad", true}, {"BoundsLoopOK", false}, {"BoundsLoopBad", true}} {
		if fn := fnOf(pkg + "." + t.name); fn != nil {
			c := sub()
			n := c.BoundsObligations(fn, "R-BOUNDS", nil)
			expect("R-BOUNDS "+t.name, reported(c) || n == 0, t.bad)
		}
	}
	// R-LOOP
	for _, t := range []struct {
		name string
		bad  bool
	}{{"LoopOK", false}, {"LoopBad", true}, {"LoopEchoOK", false}, {"LoopEchoBad", true}} {
		if fn := fnOf(pkg + "." + t.name); fn != nil {
			bad := false
			ls := natLoops(fn)
			for _, l := range ls {
				if !checkLoopProgress(l).ok {
					bad = true
				}
			}
			expect("R-LOOP "+t.name, bad || len(ls) == 0, t.bad)
		}
	}
	// R-LOCK pairing
	for _, t := range []struct {
		name string
		bad  bool
	}{{"LockOK", false}, {"LockBad", true}} {
		if fn := fnOf("(*" + pkg + ".S)." + t.name); fn != nil {
			c := sub()
			n := 0
			for _, l := range lockSitesOf(fn) {
				if l.dfr || l.kind != "Lock" {
					continue
				}
				n++
				id := l.id
				release := func(in ssa.Instruction) bool {
					cc := callCommon(in)
					return cc != nil && syncLockKind(cc) == "Unlock" && len(cc.Args) > 0 && lockID(cc.Args[0]) == id
				}
				c.Cut(CutSpec{Rule: "R-LOCK", Fn: fn, Label: "released on every path", StartAfter: l.in, Target: func(in ssa.Instruction, _ resolver) bool { _, ok := in.(*ssa.Return); return ok }, Barrier: release, Cut: func(Fact) bool { return false }, MinTargets: -1})
			}
			expect("R-LOCK "+t.name, reported(c) || n == 0, t.bad)
		}
	}
	// R-ORDER
	for _, t := range []struct {
		name string
		bad  bool
	}{{"OrderOK", false}, {"OrderBad", true}} {
		if fn := fnOf(pkg + "." + t.name); fn != nil {
			c := sub()
			n := 0
			for _, b := range fn.Blocks {
				for _, in := range b.Instrs {
					if rg, ok := in.(*ssa.Range); ok {
						if _, isMap := rg.X.Type().Underlying().(*types.Map); isMap {
							n++
							c.mapRangeSorted(fn, rg, n)
						}
					}
				}
			}
			expect("R-ORDER "+t.name, reported(c) || n == 0, t.bad)
		}
	}
	// R-FRESH
	for _, t := range []struct {
		name string
		bad  bool
	}{{"FreshOK", false}, {"FreshBad", true}} {
		if fn := fnOf(pkg + "." + t.name); fn != nil {
			expect("R-FRESH "+t.name, len(loopFreshness(fn)) > 0, t.bad)
		}
	}
	// R-PURE
	for _, t := range []struct {
		name string
		bad  bool
	}{{"PureOK", false}, {"PureBad", true}} {
		if fn := fnOf(pkg + "." + t.name); fn != nil {
			c := sub()
			n := c.PureObligations([]*ssa.Function{fn}, nil, "fixture")
			expect("R-PURE "+t.name, reported(c) || n == 0, t.bad)
		}
	}
	// R-CHARSET
	if wide, narrow, other := fnOf(pkg+".SetWide"), fnOf(pkg+".SetNarrow"), fnOf(pkg+".SetOther"); wide != nil && narrow != nil && other != nil {
		ws, e1 := acceptSet(wide, 0, nil)
		ns, e2 := acceptSet(narrow, 0, map[int]constant.Value{1: constant.MakeBool(true)})
		n0, e3 := acceptSet(narrow, 0, map[int]constant.Value{1: constant.MakeBool(false)})
		os, e4 := acceptSet(other, 0, nil)
		ok1, _ := ns.subsetOf(ws)
		ok2, miss := os.subsetOf(ws)
		expect("R-CHARSET decided", e1+e2+e3+e4 != "", false)
		expect("R-CHARSET narrow<=wide", !ok1, false)
		expect("R-CHARSET other<=wide", !ok2 && len(miss) == 1 && miss[0] == '_', true)
		expect("R-CHARSET flag binding", n0['-'] || !ns['-'] || !ws['\''] || ws['('], false)
	}
	// R-INIT
	for _, t := range []struct {
		name string
		bad  bool
	}{{"AccOK", false}, {"AccBad", true}} {
		if fn := fnOf(pkg + "." + t.name); fn != nil {
			expect("R-INIT "+t.name, accumulatesInto(fn, fn.Params[0]), t.bad)
		}
	}
	// R-CURVES
	for _, t := range []struct {
		name string
		bad  bool
	}{{"CurvesOK", false}, {"CurvesBad", true}} {
		c := sub()
		curveTableRule(c, pkg+"."+t.name, "fixture")
		expect("R-CURVES "+t.name, reported(c) || len(c.Obls) == 0, t.bad)
	}
	// R-DEAD
	for _, t := range []struct {
		name string
		bad  bool
	}{{"(z/zvfixture.Opts).FillBad", true}, {"(*z/zvfixture.Opts).FillOK", false}, {"z/zvfixture.GuardBad", true}, {"z/zvfixture.GuardOK", false}} {
		if fn := fnOf(t.name); fn != nil {
			expect("R-DEAD "+short(t.name), len(lostWrites(fn))+len(decidedBranches(fn)) > 0, t.bad)
		}
	}
	// R-ALIAS big.Int copies
	for _, t := range []struct {
		name string
		bad  bool
	}{{"BigCopyBad", true}, {"BigCopyOK", false}} {
		if fn := fnOf(pkg + "." + t.name); fn != nil {
			expect("R-ALIAS "+t.name, len(bigIntCopies(fn)) > 0, t.bad)
		}
	}
	// R-SIGN
	for _, t := range []struct {
		name string
		bad  bool
	}{{"SignOK", false}, {"SignBad", true}} {
		if fn := fnOf(pkg + "." + t.name); fn != nil {
			bad := false
			for _, in := range callsIn(fn, pkg+".digits") {
				if ok, _ := provedNonNeg(callCommon(in).Args[1], in); !ok {
					bad = true
				}
			}
			expect("R-SIGN "+t.name, bad, t.bad)
		}
	}
	for _, t := range []struct {
		name string
		bad  bool
	}{{"SelfCmpOK", false}, {"SelfCmpBad", true}, {"CrossOK", false}, {"CrossBad", true}} {
		if fn := fnOf(pkg + "." + t.name); fn != nil {
			expect("R-DEAD "+t.name, len(selfComparisons(fn))+len(crossAppends(fn)) > 0, t.bad)
		}
	}
	// R-TABLE partial copies, R-SCAN full scans (round 5)
	for _, t := range []struct {
		name string
		bad  bool
	}{{"CopyOK", false}, {"CopyBad", true}} {
		if fn := fnOf(pkg + "." + t.name); fn != nil {
			expect("R-TABLE "+t.name, len(partialCopies(fn)) > 0, t.bad)
		}
	}
	for _, t := range []struct {
		name string
		bad  bool
	}{{"ScanOK", false}, {"ScanBad", true}} {
		if fn := fnOf(pkg + "." + t.name); fn != nil {
			bad, n := false, 0
			for _, b := range fn.Blocks {
				for _, in := range b.Instrs {
					if ia, ok := in.(*ssa.IndexAddr); ok {
						n++
						if ok2, _ := scansAll(ia); !ok2 {
							bad = true
						}
					}
				}
			}
			expect("R-SCAN "+t.name, bad || n == 0, t.bad)
		}
	}
	if fails > 0 {
		fmt.Printf("SELFTEST FAILED: %d engine fixtures gave the wrong verdict\n", fails)
		return 2
	}
	fmt.Println("selftest: all engine fixtures gave the expected verdicts")
	_ = strings.TrimSpace
	return 0
}
