package main

func selftest(verif string) int { return 0 }
