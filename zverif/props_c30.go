package main

import (
	"fmt"
	"go/types"
	"sort"
	"strings"

	"golang.org/x/tools/go/ssa"
)

func init() {
	register(&propDef{
		ID: "C30",
		Explain: "For every message type in tls/handshake_messages.go and tls/ticket.go that has both marshal and unmarshal: R-CUT: unmarshal returns true only past cryptobyte's Empty() on the string made from the input, " +
			"or past an exact comparison of len(data) with the announced length. R-TABLE: the struct fields marshal reads (incl. its closures) equal the fields unmarshal writes, modulo raw and a short reasoned table of decode-only/encode-only fields. " +
			"R-PRE: where marshal decides whether an optional block is present from the bytes written so far (len(b.BytesOrPanic())), no further write to that builder follows the decision. R-PROV: unmarshal keeps the input in raw and marshal replays raw.",
		NotCov: "Value equality of the round trip (field-by-field encodings are not compared); prefix rejection inside nested vectors beyond the final emptiness test.",
		Floor:  40,
		Run:    runC30,
	})
}

// decode-only / encode-only fields: name -> reason. Keys "Type.field".
var c30FieldExceptions = map[string]string{
	"certificateRequestMsg.hasSignatureAlgorithm": "context, not content: set by the caller from the negotiated version before (un)marshalling; it selects the TLS 1.2 layout",
	"certificateVerifyMsg.hasSignatureAlgorithm":  "context, not content: set by the caller from the negotiated version before (un)marshalling; it selects the TLS 1.2 layout",
	"sessionState.usedOldKey":                     "server-local flag set from decryptTicket's result; deliberately not part of the ticket plaintext (unmarshal preserves the caller's value)",
}

func closureTree(fn *ssa.Function) []*ssa.Function {
	out := []*ssa.Function{fn}
	for _, a := range fn.AnonFuncs {
		out = append(out, closureTree(a)...)
	}
	return out
}

// recvFieldOps collects fields of the receiver's struct type read / written in fn and its closures.
func recvFieldOps(fn *ssa.Function, typeName string) (reads, writes map[string]bool) {
	reads, writes = map[string]bool{}, map[string]bool{}
	for _, f := range closureTree(fn) {
		for _, b := range f.Blocks {
			for _, in := range b.Instrs {
				fa, ok := in.(*ssa.FieldAddr)
				if !ok || !strings.HasPrefix(fieldName(fa), typeName+".") {
					continue
				}
				name := strings.TrimPrefix(fieldName(fa), typeName+".")
				for _, ref := range *fa.Referrers() {
					switch r := ref.(type) {
					case *ssa.Store:
						if r.Addr == fa {
							writes[name] = true
						} else {
							reads[name] = true
						}
					case *ssa.UnOp:
						reads[name] = true
					default:
						// address passed on (e.g. &m.field to a reader): counts as both
						reads[name] = true
						writes[name] = true
					}
				}
			}
		}
	}
	return
}

func runC30(c *Ctx) {
	w := c.W
	c30Extras(c)
	c30Extras3(c)
	type msg struct {
		typ       string
		mar, unm  *ssa.Function
	}
	var msgs []msg
	seen := map[string]bool{}
	for _, file := range []string{"tls/handshake_messages.go", "tls/ticket.go"} {
		for _, fn := range w.FuncsInFile(file) {
			if fn.Parent() != nil || fn.Signature.Recv() == nil || fn.Name() != "unmarshal" {
				continue
			}
			name := FuncName(fn)
			typ := strings.TrimSuffix(strings.TrimPrefix(name, "(*"+expand("z/tls.")), ").unmarshal")
			mar := w.Fn("(*z/tls." + typ + ").marshal")
			if mar == nil || seen[typ] {
				continue
			}
			seen[typ] = true
			msgs = append(msgs, msg{typ, mar, fn})
		}
	}
	sort.Slice(msgs, func(i, j int) bool { return msgs[i].typ < msgs[j].typ })
	c.Check(len(msgs) >= 20, "R-TABLE", "z/tls", "marshal/unmarshal pairs enumerated", "-", fmt.Sprint(len(msgs)))

	for _, m := range msgs {
		c.Sites++
		name := FuncName(m.unm)
		// (a) exactness
		fromData := func(v ssa.Value) bool { return hasAll(Deps(v), "param:data") }
		emptyOK := func(v ssa.Value) bool {
			cl := callOf(v)
			// the top-level string made from data (child strings are filled through pointers and do not depend on data directly)
			return cl != nil && strings.HasSuffix(calleeName(&cl.Call), "cryptobyte.String).Empty") && fromData(cl.Call.Args[0])
		}
		exactLen := func(f Fact) bool {
			if f.Op != "eq" || f.Y == nil {
				return false
			}
			// exactly one side is (an expression of) len(data); the other is a constant or a decoded length
			x, y := strings.Contains(Expr(f.X), "len(data"), strings.Contains(Expr(f.Y), "len(data")
			if x == y {
				return false
			}
			other := f.Y
			if y {
				other = f.X
			}
			// a hand-decoded length must be a well-formed big-endian combination of input octets
			return decodedLengthOK(other)
		}
		guard := AnyF(IsTrue(emptyOK), exactLen)
		c.Cut(CutSpec{Fn: m.unm, Label: "accepts only if the whole input was consumed (Empty() or exact length)", Target: TrueReturn(0, guard), Cut: guard, MinTargets: -1})
		// (c) raw
		reads, _ := recvFieldOps(m.mar, m.typ)
		_, writes := recvFieldOps(m.unm, m.typ)
		if reads["raw"] || writes["raw"] {
			okRaw := false
			for _, b := range m.unm.Blocks {
				for _, in := range b.Instrs {
					if st, ok := in.(*ssa.Store); ok {
						if fa, ok := st.Addr.(*ssa.FieldAddr); ok && fieldName(fa) == m.typ+".raw" && Param("data")(st.Val) {
							okRaw = true
						}
					}
				}
			}
			c.Check(okRaw, "R-PROV", name, "unmarshal keeps the input bytes in raw", w.Pos(m.unm.Pos()), "")
			c.Cut(CutSpec{Fn: m.mar, Label: "a message that carries raw bytes is replayed verbatim", Start: NonNil(exprIs("m.raw")), MinTargets: -1,
				Target: func(in ssa.Instruction, res resolver) bool {
					rt, ok := in.(*ssa.Return)
					return ok && Expr(res(rt.Results[0])) != "m.raw"
				}})
		}
		// (b) field agreement
		var diffs []string
		for f := range reads {
			if f != "raw" && !writes[f] {
				if _, ok := c30FieldExceptions[m.typ+"."+f]; !ok {
					diffs = append(diffs, "encoded but never decoded: "+f)
				}
			}
		}
		for f := range writes {
			if f != "raw" && !reads[f] {
				if _, ok := c30FieldExceptions[m.typ+"."+f]; !ok {
					diffs = append(diffs, "decoded but never encoded: "+f)
				}
			}
		}
		sort.Strings(diffs)
		c.Check(len(diffs) == 0, "R-TABLE", "tls."+m.typ, "marshal reads exactly the fields unmarshal writes", w.Pos(m.mar.Pos()), strings.Join(diffs, "; "))
		// (d) presence decided from bytes written so far: nothing is written afterwards
		for _, f := range closureTree(m.mar) {
			for _, b := range f.Blocks {
				for _, in := range b.Instrs {
					st, ok := in.(*ssa.Store)
					if !ok {
						continue
					}
					if _, isFree := st.Addr.(*ssa.FreeVar); !isFree {
						continue
					}
					d := Deps(st.Val)
					usesBytes := false
					for k := range d {
						if strings.HasSuffix(k, "cryptobyte.Builder).BytesOrPanic") {
							usesBytes = true
						}
					}
					if !usesBytes {
						continue
					}
					var bld ssa.Value
					for _, b2 := range f.Blocks {
						for _, i2 := range b2.Instrs {
							if cc := callCommon(i2); cc != nil && strings.HasSuffix(calleeName(cc), "cryptobyte.Builder).BytesOrPanic") {
								bld = cc.Args[0]
							}
						}
					}
					c.Cut(CutSpec{Rule: "R-PRE", Fn: f, Label: "no write to the builder after the presence of the optional block was decided", StartAfter: st, MinTargets: -1,
						Target: func(i ssa.Instruction, _ resolver) bool {
							cc := callCommon(i)
							if cc == nil || len(cc.Args) == 0 || cc.Args[0] != bld {
								return false
							}
							n := calleeName(cc)
							return strings.Contains(n, "cryptobyte.Builder).Add")
						}})
					// and every write in this closure precedes the decision
					okDom := true
					for _, b2 := range f.Blocks {
						for _, i2 := range b2.Instrs {
							cc := callCommon(i2)
							if cc == nil || len(cc.Args) == 0 || cc.Args[0] != bld {
								continue
							}
							if strings.Contains(calleeName(cc), "cryptobyte.Builder).Add") && !reachesBefore(i2, st) {
								okDom = false
							}
						}
					}
					c.Check(okDom, "R-PRE", FuncName(f), "every extension write can only happen before the presence decision", w.InstrPos(st), "")
				}
			}
		}
	}
}

// decodedLengthOK: v is a constant, or T(data[i])<<8(n-1) | ... | T(data[i+n-1]) (terms
// joined by | or +, each octet widened before it is shifted), possibly plus/minus a constant.
func decodedLengthOK(v ssa.Value) bool {
	v = stripConv(v)
	if _, ok := v.(*ssa.Const); ok {
		return true
	}
	// the decoding may sit in a one-expression helper (uint24At(b) = uint32(b[0])<<16 | ...): judge its expression
	if cl, ok := v.(*ssa.Call); ok {
		if ret, _ := pureExprHelper(cl); ret != nil {
			return decodedLengthOK(ret)
		}
	}
	var terms func(x ssa.Value) []ssa.Value
	terms = func(x ssa.Value) []ssa.Value {
		if cl, ok := x.(*ssa.Call); ok {
			if ret, _ := pureExprHelper(cl); ret != nil {
				return terms(ret)
			}
		}
		if b, ok := x.(*ssa.BinOp); ok && (b.Op.String() == "|" || b.Op.String() == "+") {
			return append(terms(b.X), terms(b.Y)...)
		}
		return []ssa.Value{x}
	}
	ts := terms(v)
	type it struct{ idx, shift int64 }
	var items []it
	for _, t := range ts {
		if _, isC := t.(*ssa.Const); isC {
			continue
		}
		i, k, ok := indexedShift(t)
		if !ok {
			return false
		}
		// widening must happen before the shift: the shifted operand's type is wider than a byte
		if b, isB := t.(*ssa.BinOp); isB {
			if bt, ok := b.X.Type().Underlying().(*types.Basic); !ok || bt.Kind() == types.Uint8 || bt.Kind() == types.Int8 {
				return false
			}
		}
		items = append(items, it{i, k})
	}
	if len(items) == 0 {
		return false
	}
	sort.Slice(items, func(a, b int) bool { return items[a].idx < items[b].idx })
	n := len(items)
	for j, x := range items {
		if x.idx != items[0].idx+int64(j) || x.shift != int64(8*(n-1-j)) {
			return false
		}
	}
	return true
}

// isLenExpr: an arithmetic expression over decoded length fields/constants (not another len(data)).
func isLenExpr(v ssa.Value) bool {
	switch v.(type) {
	case *ssa.Const, *ssa.BinOp, *ssa.Phi, *ssa.Convert:
		return true
	}
	return false
}

// reachesBefore: instruction a is not reachable after b (a can only execute before b).
func reachesBefore(a, b ssa.Instruction) bool {
	r := RunCut(&CutSpec{Fn: b.Parent(), StartAfter: b, Target: isInstr(a), MinTargets: -1})
	return !r.Violated
}
