package main

// Linear entailment from dominating facts (an additional discharge method of R-BOUNDS). Hypotheses are the linear
// inequalities that hold at the use on every path: the branch facts of the edges that dominate it, the
// non-negativity of lengths, of unsigned values and of hash sizes, statically known lengths, and interval bounds of
// loop counters. The goal len(s) >= need follows if hypotheses and the negated goal are unsatisfiable over the
// rationals, decided by Fourier-Motzkin elimination (exact, small: a handful of terms per site). Terms are opaque
// canonical expressions; nothing is known about them beyond the hypotheses.

import (
	"go/types"
	"strings"

	"golang.org/x/tools/go/ssa"
)

func mulOK(a, b int64) (int64, bool) {
	if a == 0 || b == 0 {
		return 0, true
	}
	c := a * b
	if c/b != a || c > 1<<50 || c < -(1<<50) {
		return 0, false
	}
	return c, true
}

func gcd64(a, b int64) int64 {
	if a < 0 {
		a = -a
	}
	if b < 0 {
		b = -b
	}
	for b != 0 {
		a, b = b, a%b
	}
	return a
}

func normalize(l lin) lin {
	g := int64(0)
	for _, v := range l.t {
		g = gcd64(g, v)
	}
	if g > 1 {
		out := lin{map[string]int64{}, 0}
		for k, v := range l.t {
			out.t[k] = v / g
		}
		// integer tightening: sum >= -c/g  ->  floor
		c := l.c
		if c >= 0 {
			out.c = c / g
		} else {
			out.c = -((-c + g - 1) / g)
		}
		return out
	}
	return l
}

// infeasible: the system {l >= 0 for l in cs} has no rational solution (sound "yes"; "no" may mean unknown).
func infeasible(cs []lin) bool {
	for round := 0; round < 24; round++ {
		// contradiction among constant constraints?
		var rest []lin
		for _, l := range cs {
			nz := false
			for _, v := range l.t {
				if v != 0 {
					nz = true
				}
			}
			if !nz {
				if l.c < 0 {
					return true
				}
				continue
			}
			rest = append(rest, l)
		}
		cs = rest
		if len(cs) == 0 {
			return false
		}
		// choose the variable with the fewest pos*neg combinations
		count := map[string][2]int{}
		for _, l := range cs {
			for k, v := range l.t {
				c := count[k]
				if v > 0 {
					c[0]++
				} else if v < 0 {
					c[1]++
				}
				count[k] = c
			}
		}
		best, bestCost := "", 1<<30
		for k, c := range count {
			cost := c[0]*c[1] - c[0] - c[1]
			if cost < bestCost || (cost == bestCost && k < best) {
				best, bestCost = k, cost
			}
		}
		var pos, neg, zero []lin
		for _, l := range cs {
			switch v := l.t[best]; {
			case v > 0:
				pos = append(pos, l)
			case v < 0:
				neg = append(neg, l)
			default:
				zero = append(zero, l)
			}
		}
		next := zero
		for _, p := range pos {
			for _, n := range neg {
				a, b := p.t[best], -n.t[best]
				// b*p + a*n eliminates best
				comb := lin{map[string]int64{}, 0}
				ok := true
				for k, v := range p.t {
					m, o := mulOK(v, b)
					ok = ok && o
					comb.t[k] += m
				}
				for k, v := range n.t {
					m, o := mulOK(v, a)
					ok = ok && o
					comb.t[k] += m
				}
				c1, o1 := mulOK(p.c, b)
				c2, o2 := mulOK(n.c, a)
				if !ok || !o1 || !o2 {
					return false
				}
				comb.c = c1 + c2
				delete(comb.t, best)
				for k, v := range comb.t {
					if v == 0 {
						delete(comb.t, k)
					}
				}
				next = append(next, normalize(comb))
			}
		}
		if len(next) > 400 {
			return false
		}
		cs = next
	}
	return false
}

// nonNegContract: calls whose integer result is never negative by the contract of the standard library.
func nonNegContractTerm(t string) bool {
	for _, p := range []string{"(hash.Hash).Size(", "(crypto.Hash).Size(", "(hash.Hash).BlockSize(", "(*math/big.Int).BitLen(", "bytes.IndexByte("} {
		if strings.HasPrefix(t, p) {
			// IndexByte may be -1: only Size/BlockSize/BitLen are non-negative
			return p != "bytes.IndexByte("
		}
	}
	return false
}

func factHyps(fs []Fact) []lin {
	var out []lin
	for _, f := range fs {
		if f.Y == nil || f.X == nil {
			continue
		}
		if !isIntegerValue(f.X) || !isIntegerValue(f.Y) {
			continue
		}
		d := linOf(f.X).add(linOf(f.Y), -1)
		switch f.Op {
		case "ge":
			out = append(out, d)
		case "gt":
			out = append(out, d.add(linConst(1), -1))
		case "le":
			out = append(out, d.scale(-1))
		case "lt":
			out = append(out, d.scale(-1).add(linConst(1), -1))
		case "eq":
			out = append(out, d, d.scale(-1))
		}
	}
	return out
}

func isIntegerValue(v ssa.Value) bool {
	return isIntType(v.Type())
}

// entailedAt: goal >= 0 holds at instruction in, given the facts dominating it.
func entailedAt(in ssa.Instruction, goal lin, extra []lin) bool {
	hyps := append(factHyps(domFacts(in.Block())), extra...)
	// interval bounds of the SSA values that occur as terms (loop counters, clamped values)
	vals := termValues(in)
	terms := map[string]bool{}
	collect := func(l lin) {
		for k := range l.t {
			terms[k] = true
		}
	}
	collect(goal)
	for _, h := range hyps {
		collect(h)
	}
	for t := range terms {
		if nonNegTerm(t) || nonNegContractTerm(t) {
			hyps = append(hyps, lin{map[string]int64{t: 1}, 0})
		}
		if v, ok := vals[t]; ok {
			iv := intervalOf(v, domFacts(in.Block()), 0)
			if iv.hasLo {
				hyps = append(hyps, lin{map[string]int64{t: 1}, -iv.lo})
			}
			if iv.hasHi {
				hyps = append(hyps, lin{map[string]int64{t: -1}, iv.hi})
			}
		}
	}
	// refute: goal <= -1
	neg := goal.scale(-1).add(linConst(1), -1)
	return infeasible(append(hyps, neg))
}

// termValues: SSA values of the function of in by canonical expression (for interval bounds of terms).
func termValues(in ssa.Instruction) map[string]ssa.Value {
	out := map[string]ssa.Value{}
	fn := in.Parent()
	if fn == nil {
		return out
	}
	for _, b := range fn.Blocks {
		for _, i2 := range b.Instrs {
			if v, ok := i2.(ssa.Value); ok && isIntType(v.Type()) {
				if _, dup := out[Expr(v)]; !dup {
					out[Expr(v)] = v
				}
			}
		}
	}
	return out
}

func isIntType(t interface{ Underlying() types.Type }) bool {
	b, ok := t.Underlying().(*types.Basic)
	return ok && b.Info()&types.IsInteger != 0
}

// fmDischarge: any of the goals follows by linear entailment at in.
func fmDischarge(in ssa.Instruction, gs []lenGoal) bool {
	for _, g := range gs {
		goal := lin{map[string]int64{g.term: 1}, 0}.add(g.need, -1)
		var extra []lin
		if g.val != nil {
			if kl, ok := knownLen(g.val); ok {
				d := lin{map[string]int64{g.term: 1}, 0}.add(kl, -1)
				extra = append(extra, d, d.scale(-1))
			}
		}
		if entailedAt(in, goal, extra) {
			return true
		}
	}
	return false
}
