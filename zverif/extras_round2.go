package main

// Obligations added after the second round of seeded regressions (see DESIGN.md 8.6): general
// engines (R-PURE, R-FRESH, R-SCAN) instantiated on the scopes of individual properties.

import (
	"fmt"
	"go/ast"
	"go/token"
	"go/types"
	"strings"

	"golang.org/x/tools/go/ssa"
)

// fileScope: in-module functions reachable from roots that are declared in files with one of the suffixes.
func fileScope(w *World, roots []string, suffixes ...string) []*ssa.Function {
	var rs []*ssa.Function
	for _, n := range roots {
		if fn := w.Fn(n); fn != nil {
			rs = append(rs, fn)
		}
	}
	var out []*ssa.Function
	for fn := range w.Reachable(rs, func(fn *ssa.Function) bool { return !InModule(fn) }) {
		if !InModule(fn) || len(fn.Blocks) == 0 {
			continue
		}
		file := w.RelFile(fn.Pos())
		if strings.HasSuffix(file, "_test.go") {
			continue
		}
		for _, s := range suffixes {
			if strings.HasSuffix(file, s) {
				out = append(out, fn)
				break
			}
		}
	}
	sortFns(out)
	return out
}

func sortFns(fs []*ssa.Function) {
	for i := 1; i < len(fs); i++ {
		for j := i; j > 0 && FuncName(fs[j]) < FuncName(fs[j-1]); j-- {
			fs[j], fs[j-1] = fs[j-1], fs[j]
		}
	}
}

// PureObligations: no function of the scope writes through a reference parameter, except the allowed (function, parameter) pairs.
func (c *Ctx) PureObligations(scope []*ssa.Function, allow map[string]string, what string) int {
	w := c.W
	sum := NewParamWriteSummary(w, scope)
	n := 0
	for _, fn := range scope {
		for _, p := range fn.Params {
			if !isRefType(p.Type()) {
				continue
			}
			n++
			c.Sites++
			key := short(FuncName(fn)) + "(" + p.Name() + ")"
			wit, written := sum.writes[p]
			if reason, ok := allow[key]; ok {
				c.OK("R-PURE", short(FuncName(fn)), "parameter "+p.Name()+" may be written: "+reason, w.Pos(fn.Pos()), wit)
				continue
			}
			c.Check(!written, "R-PURE", short(FuncName(fn)), what+": does not write through its parameter "+p.Name(), w.Pos(fn.Pos()), wit)
		}
	}
	return n
}

// FreshObligations: R-FRESH over a scope; one summary obligation plus one failure per report.
func (c *Ctx) FreshObligations(scope []*ssa.Function, what string) {
	w := c.W
	loops := 0
	for _, fn := range scope {
		loops += len(natLoops(fn))
		for i, r := range loopFreshness(fn) {
			c.Fail("R-FRESH", short(FuncName(fn)), fmt.Sprintf("no value that leaves a loop iteration is built in storage that outlives it (#%d)", i+1), w.InstrPos(r.In), r.What)
		}
	}
	c.OK("R-FRESH", what, "loops searched for buffers and decode targets reused across iterations", "-", fmt.Sprintf("%d functions, %d loops", len(scope), loops))
}

// loopExitsOnlyAtHeader: the loop is left only when its header's test fails (no break, return or goto out of the body).
func loopExitsOnlyAtHeader(l *natLoop) (bool, *ssa.BasicBlock) {
	for b := range l.blocks {
		if b == l.header {
			continue
		}
		for _, s := range b.Succs {
			if l.blocks[s] {
				continue
			}
			if _, isPanic := s.Instrs[len(s.Instrs)-1].(*ssa.Panic); isPanic && len(s.Succs) == 0 {
				continue // an internal-invariant panic is not an early exit with a result
			}
			return false, b
		}
	}
	return true, nil
}

func c07Extras(c *Ctx) {
	w := c.W
	scope := fileScope(w, []string{"(*z/x509.Certificate).Verify", "(*z/x509.Certificate).ValidateWithStupidDetail", "z/x509.FilterByDate"}, "x509/verify.go")
	n := c.PureObligations(scope, map[string]string{
		"(*x509.Certificate).buildChains(cache)": "memo table of chains already built for a certificate, private to one Verify call",
	}, "chain building leaves its inputs unchanged (options and candidate chains are reused across calls)")
	c.Check(n >= 10, "R-PURE", "x509/verify.go", "reference parameters enumerated", "-", fmt.Sprint(n))
	if fn := w.Fn("z/x509.FilterByDate"); fn != nil {
		k := 0
		for _, l := range natLoops(fn) {
			k++
			c.Sites++
			ok, b := loopExitsOnlyAtHeader(l)
			pos := w.InstrPos(l.header.Instrs[len(l.header.Instrs)-1])
			det := ""
			if !ok {
				det = "left early from " + w.InstrPos(b.Instrs[len(b.Instrs)-1])
			}
			c.Check(ok, "R-SCAN", "x509.FilterByDate", fmt.Sprintf("loop #%d visits every element (validity windows of all certificates of every chain are intersected)", k), pos, det)
		}
		c.Check(k == 2, "R-SCAN", "x509.FilterByDate", "chain loop and certificate loop found", w.Pos(fn.Pos()), fmt.Sprint(k))
	} else {
		c.Undecided("R-SCAN", "x509.FilterByDate", "anchor", "-", "not found")
	}
}

func c06Extras(c *Ctx) {
	bitStringPureRule(c)
	w := c.W
	// every entry point that yields Certificate values decodes each certificate into its own wire object
	scope := fileScope(w, []string{"z/x509.ParseCertificate", "z/x509.ParseCertificates", "z/x509.ParseTBSCertificate"}, "x509/x509.go")
	c.FreshObligations(scope, "certificate parsing entry points (metadata depends on this certificate's bytes only)")
	// sibling entry points reach the same internal parser
	for _, n := range []string{"z/x509.ParseCertificate", "z/x509.ParseCertificates"} {
		fn := w.Fn(n)
		if fn == nil {
			c.Undecided("R-SIBLING", n, "anchor", "-", "not found")
			continue
		}
		c.Sites++
		calls := callsIn(fn, "z/x509.parseCertificate")
		c.Check(len(calls) == 1, "R-SIBLING", short(n), "produces its certificates through parseCertificate", w.Pos(fn.Pos()), fmt.Sprint(len(calls)))
	}
}

// asn1WriterRules: obligations on encoding/asn1's writer that writer and reader must agree on
// (shared by C04 and C18).
func (c *Ctx) asn1WriterRules() {
	w := c.W
	ap := "z/encoding/asn1"
	// R-NARROW: a rune is narrowed to a byte (and handed to a byte predicate) only if it is below utf8.RuneSelf
	n := 0
	for _, fn := range w.FuncsOfPkg(ap) {
		if strings.HasSuffix(w.RelFile(fn.Pos()), "_test.go") {
			continue
		}
		for _, b := range fn.Blocks {
			for _, in := range b.Instrs {
				cv, ok := in.(*ssa.Convert)
				if !ok {
					continue
				}
				if typeStr(cv.Type()) != "uint8" && typeStr(cv.Type()) != "byte" {
					continue
				}
				// operand: the rune produced by ranging over a string
				ex, ok := cv.X.(*ssa.Extract)
				if !ok {
					continue
				}
				if _, isNext := ex.Tuple.(*ssa.Next); !isNext || ex.Index != 2 {
					continue
				}
				n++
				c.Sites++
				r := cv.X
				c.Cut(CutSpec{Rule: "R-NARROW", Fn: fn, Label: fmt.Sprintf("rune #%d of a ranged string is narrowed to a byte only if it is below utf8.RuneSelf", n), Target: isInstr(in), Cut: func(f Fact) bool {
					if f.Y == nil || f.X != r {
						return false
					}
					k, isC := intConst(f.Y)
					return isC && ((f.Op == "lt" && k <= 128) || (f.Op == "le" && k <= 127))
				}})
			}
		}
	}
	c.Check(n >= 1, "R-NARROW", "encoding/asn1", "rune-to-byte narrowings enumerated", "-", fmt.Sprint(n))
	// R-SIBLING: makeField decides the time tag with the same test makeBody uses for the time body
	if fn := w.Fn(ap + ".makeField"); fn != nil {
		var starts []EdgeRef
		for _, b := range fn.Blocks {
			ifi, ok := b.Instrs[len(b.Instrs)-1].(*ssa.If)
			if !ok {
				continue
			}
			for si := 0; si < 2; si++ {
				for _, f := range condFacts(ifi.Cond, si == 0, idRes) {
					if f.Op == "eq" && f.Y != nil && Expr(f.Y) == "23" && strings.Contains(Expr(f.X), "getUniversalType") {
						starts = append(starts, EdgeRef{B: b, Succ: si})
					}
				}
			}
		}
		// keep the arm that leads to the range test (the same tag value is compared earlier for parameter validation)
		var rangeCalls []ssa.Instruction
		rangeCalls = append(rangeCalls, callsIn(fn, ap+".outsideUTCRange")...)
		var arm []EdgeRef
		for _, e := range starts {
			for _, rc := range rangeCalls {
				if e.B.Succs[e.Succ].Dominates(rc.Block()) {
					arm = append(arm, e)
					break
				}
			}
		}
		// innermost arm only: the candidate whose successor is dominated by all the others
		if len(arm) > 1 {
			best := arm[0]
			for _, e := range arm[1:] {
				if best.B.Succs[best.Succ].Dominates(e.B.Succs[e.Succ]) {
					best = e
				}
			}
			arm = []EdgeRef{best}
		}
		starts = arm
		c.Check(len(starts) >= 1, "R-SIBLING", "asn1.makeField", "the UTCTime arm of the tag selection found", w.Pos(fn.Pos()), fmt.Sprint(len(starts)))
		if len(starts) >= 1 {
			c.Cut(CutSpec{Rule: "R-SIBLING", Fn: fn, Label: "a time value keeps the UTCTime tag only if outsideUTCRange was evaluated for it (the test makeBody uses for the body), or GeneralizedTime was requested", StartEdges: starts,
				Target: SuccessReturn(1, nil), MinTargets: -1, Cut: func(f Fact) bool {
					if cl := callOf(f.X); cl != nil && strings.HasSuffix(calleeName(&cl.Call), ".outsideUTCRange") {
						return true
					}
					return f.Op == "eq" && f.Y != nil && Expr(f.X) == "params.timeType" && Expr(f.Y) == "24"
				}})
		}
	} else {
		c.Undecided("R-SIBLING", "asn1.makeField", "anchor", "-", "not found")
	}
}

// issuerSearchRules: Graph.AddCert indexes every new node under its subject on every path, and looks
// for issuers among all nodes carrying the issuer's name (shared by C10 and C11).
func issuerSearchRules(c *Ctx) {
	w := c.W
	fn := w.Fn("(*z/verifier.Graph).AddCert")
	if fn == nil {
		c.Undecided("R-PRE", "verifier.Graph.AddCert", "anchor", "-", "not found")
		return
	}
	// (a) a created node reaches all three indexes before AddCert returns
	n := 0
	for _, b := range fn.Blocks {
		for _, in := range b.Instrs {
			al, ok := in.(*ssa.Alloc)
			if !ok || !al.Heap || typeStr(al.Type()) != "*verifier.GraphNode" {
				continue
			}
			n++
			node := ssa.Value(al)
			holds := func(v ssa.Value) bool {
				for x := range backClosure(v, func(y ssa.Value) []ssa.Value {
					// elements appended
					if cl, ok := y.(*ssa.Call); ok {
						if bi, ok := cl.Call.Value.(*ssa.Builtin); ok && bi.Name() == "append" {
							return cl.Call.Args[1:]
						}
					}
					if sl, ok := y.(*ssa.Slice); ok {
						if a2, ok := sl.X.(*ssa.Alloc); ok {
							var out []ssa.Value
							for _, r := range *a2.Referrers() {
								if ia, ok := r.(*ssa.IndexAddr); ok {
									for _, r2 := range *ia.Referrers() {
										if st, ok := r2.(*ssa.Store); ok {
											out = append(out, st.Val)
										}
									}
								}
							}
							return out
						}
					}
					return nil
				}) {
					if x == node {
						return true
					}
				}
				return false
			}
			for _, idx := range []string{"Graph.nodesBySubject", "Graph.nodesBySubjectAndKey", "Graph.nodes"} {
				field := idx
				barrier := func(i2 ssa.Instruction) bool {
					switch x := i2.(type) {
					case *ssa.MapUpdate:
						if fa := loadedField(x.Map); fa != nil && fieldName(fa) == field {
							return holds(x.Value)
						}
					case *ssa.Store:
						if fa, ok := x.Addr.(*ssa.FieldAddr); ok && fieldName(fa) == field {
							return holds(x.Val)
						}
					}
					return false
				}
				c.Sites++
				c.Cut(CutSpec{Rule: "R-PRE", Fn: fn, Label: fmt.Sprintf("a newly created node #%d is entered into %s on every path", n, field), StartAfter: in,
					Target: func(i2 ssa.Instruction, _ resolver) bool { _, ok := i2.(*ssa.Return); return ok }, Barrier: barrier, Cut: func(Fact) bool { return false }, MinTargets: -1})
			}
		}
	}
	c.Check(n == 1, "R-PRE", "verifier.Graph.AddCert", "node creation site found", w.Pos(fn.Pos()), fmt.Sprint(n))
	// (b) the issuer search ranges over every node with the issuer's name
	for _, in := range callsIn(fn, "z/x509.CheckSignatureFromKey") {
		// the loop around the first signature check
		var hdr *ssa.BasicBlock
		for _, l := range natLoops(fn) {
			if l.blocks[in.Block()] && (hdr == nil || hdr.Dominates(l.header)) {
				hdr = l.header
			}
		}
		if hdr == nil {
			continue
		}
		ranged := ""
		if ifi, ok := hdr.Instrs[len(hdr.Instrs)-1].(*ssa.If); ok {
			for _, f := range condFacts(ifi.Cond, true, idRes) {
				if f.Op == "lt" && f.Y != nil {
					if a, ok := lenArg(f.Y); ok {
						ranged = Expr(a)
					}
				}
			}
		}
		c.Sites++
		if strings.Contains(ranged, "missingIssuerNode") || strings.Contains(ranged, ".edges") {
			continue // the dangling-edge fix-up loop
		}
		c.Check(ranged == "g.nodesBySubject[string(c.RawIssuer)]#0" || ranged == "g.nodesBySubject[string(c.RawIssuer)]", "R-PROV", "verifier.Graph.AddCert", "issuer candidates are all nodes indexed under the certificate's issuer name", w.InstrPos(in), ranged)
	}
}

func c10Extras(c *Ctx) {
	issuerSearchRules(c)
	candidateSkipRules(c)
	// the fix-up reachability rule of C11 is a rule about the graph AddCert builds
	c.borrow(c11Extras3, func(o *Obligation) bool { return strings.Contains(o.Func, "AddCert") })
}

// candidateSkipRules: AddCert searches for the issuer of an edge in two places (the scan over the nodes already
// known under the issuer name, and the fix-up of dangling edges when a node arrives later). The graph is
// independent of insertion order only if both use the same test, so in each loop a candidate is passed over
// (the loop continues without linking it) only past a failed x509.CheckSignatureFromKey.
func candidateSkipRules(c *Ctx) {
	w := c.W
	fn := w.Fn("(*z/verifier.Graph).AddCert")
	if fn == nil {
		c.Undecided("R-SIBLING", "verifier.Graph.AddCert", "anchor", "-", "not found")
		return
	}
	n := 0
	type famLoop struct {
		fn *ssa.Function
		l  *natLoop
	}
	var loops []famLoop
	for _, f := range w.familyOf(fn) {
		for _, l := range natLoops(f) {
			loops = append(loops, famLoop{f, l})
		}
	}
	for _, fl := range loops {
		l, fn := fl.l, fl.fn
		has := false
		for b := range l.blocks {
			for _, in := range b.Instrs {
				if cc := callCommon(in); cc != nil && strings.HasSuffix(calleeName(cc), "x509.CheckSignatureFromKey") {
					has = true
				}
			}
		}
		if !has {
			continue
		}
		n++
		c.Sites++
		var starts []EdgeRef
		for si, s := range l.header.Succs {
			if l.blocks[s] && s != l.header {
				starts = append(starts, EdgeRef{B: l.header, Succ: si})
			}
		}
		hdr := l.header
		c.Cut(CutSpec{Rule: "R-SIBLING", Fn: fn, Label: fmt.Sprintf("issuer search loop #%d passes over a candidate only past a failed signature check (both searches use the same test)", n), StartEdges: starts, MinTargets: -1,
			Target: func(in ssa.Instruction, _ resolver) bool {
				// arriving at the header again (a continue is often threaded into the branch itself)
				return in == hdr.Instrs[0]
			},
			Barrier: func(in ssa.Instruction) bool {
				st, ok := in.(*ssa.Store)
				if !ok {
					return false
				}
				fa, ok := st.Addr.(*ssa.FieldAddr)
				return ok && fieldLeaf(fieldName(fa)) == "issuer"
			},
			Cut: func(f Fact) bool {
				cl := callOf(f.X)
				return f.Op == "nonnil" && cl != nil && strings.HasSuffix(calleeName(&cl.Call), "x509.CheckSignatureFromKey")
			}})
	}
	c.Check(n == 2, "R-SIBLING", "verifier.Graph.AddCert", "both issuer searches found", w.Pos(fn.Pos()), fmt.Sprint(n))
}

func c11Extras(c *Ctx) {
	w := c.W
	issuerSearchRules(c)
	// a path that already ends in a root edge is emitted whatever its length: every return of
	// continueWalking that did not send the chain saw lastEdge.root == false
	fn := w.Fn("(*z/verifier.Graph).continueWalking")
	if fn == nil {
		c.Undecided("R-PRE", "verifier.continueWalking", "anchor", "-", "not found")
		return
	}
	var sends []ssa.Instruction
	for _, b := range fn.Blocks {
		for _, in := range b.Instrs {
			if s, ok := in.(*ssa.Send); ok && Expr(s.X) == "soFar" {
				sends = append(sends, in)
			}
		}
	}
	c.Check(len(sends) == 1, "R-PRE", "verifier.continueWalking", "emission site found", w.Pos(fn.Pos()), fmt.Sprint(len(sends)))
	c.Cut(CutSpec{Rule: "R-PRE", Fn: fn, Label: "a chain whose last edge is a root is emitted before any other exit (the depth limit only stops extension)", Barrier: func(in ssa.Instruction) bool {
		for _, s := range sends {
			if s == in {
				return true
			}
		}
		return false
	}, Target: func(in ssa.Instruction, _ resolver) bool { _, ok := in.(*ssa.Return); return ok }, Cut: factExpr("false", "lastEdge.root", ""), MinTargets: -1})
}

// hostnameRules: the two documented separations of VerifyHostname (shared by C09 and C12).
func hostnameRules(c *Ctx) {
	w := c.W
	fn := w.Fn("(*z/x509.Certificate).VerifyHostname")
	if fn == nil {
		c.Undecided("R-CUT", "x509.VerifyHostname", "anchor", "-", "not found")
		return
	}
	// (a) once the host parsed as an IP address, no name matching is reachable
	var ipEdges []EdgeRef
	for _, b := range fn.Blocks {
		ifi, ok := b.Instrs[len(b.Instrs)-1].(*ssa.If)
		if !ok {
			continue
		}
		for si := 0; si < 2; si++ {
			for _, f := range condFacts(ifi.Cond, si == 0, idRes) {
				if cl := callOf(f.X); f.Op == "nonnil" && cl != nil && calleeName(&cl.Call) == "net.ParseIP" {
					ipEdges = append(ipEdges, EdgeRef{B: b, Succ: si})
				}
			}
		}
	}
	c.Check(len(ipEdges) == 1, "R-CUT", "x509.VerifyHostname", "the IP-literal branch found", w.Pos(fn.Pos()), fmt.Sprint(len(ipEdges)))
	if len(ipEdges) == 1 {
		c.Cut(CutSpec{Rule: "R-CUT", Fn: fn, Label: "an IP-literal host is never matched against DNS names or the common name", StartEdges: ipEdges,
			Target: func(in ssa.Instruction, _ resolver) bool {
				cc := callCommon(in)
				return cc != nil && strings.HasSuffix(calleeName(cc), ".matchHostnames")
			}, Cut: func(Fact) bool { return false }, MinTargets: -1})
		c.Cut(CutSpec{Rule: "R-CUT", Fn: fn, Label: "an IP-literal host is accepted only through ip.Equal on an IP SAN", StartEdges: ipEdges, Target: SuccessReturn(0, nil), MinTargets: -1,
			Cut: func(f Fact) bool {
				cl := callOf(f.X)
				return f.Op == "true" && cl != nil && calleeName(&cl.Call) == "(net.IP).Equal"
			}})
	}
	// (a') name matching is reached only after the host was found not to be an IP literal
	k := 0
	for _, in := range callsIn(fn, "z/x509.matchHostnames") {
		k++
		c.Sites++
		c.Cut(CutSpec{Rule: "R-CUT", Fn: fn, Label: fmt.Sprintf("name matching #%d is reached only for a host that did not parse as an IP address", k), Target: isInstr(in), Cut: func(f Fact) bool {
			cl := callOf(f.X)
			return f.Op == "nil" && cl != nil && calleeName(&cl.Call) == "net.ParseIP"
		}})
	}
	// (b) the common name is consulted only when the certificate has no subjectAltName extension at all
	n := 0
	for _, in := range callsIn(fn, "z/x509.matchHostnames") {
		cc := callCommon(in)
		if !strings.Contains(Expr(cc.Args[0]), "CommonName") {
			continue
		}
		n++
		c.Sites++
		c.Cut(CutSpec{Rule: "R-CUT", Fn: fn, Label: "the common name is matched only if the certificate has no SAN extension (not merely no DNS SAN)", Target: isInstr(in), Cut: func(f Fact) bool {
			cl := callOf(f.X)
			return f.Op == "false" && cl != nil && strings.HasSuffix(calleeName(&cl.Call), ").hasSANExtension")
		}})
	}
	c.Check(n == 1, "R-CUT", "x509.VerifyHostname", "common-name fallback site found", w.Pos(fn.Pos()), fmt.Sprint(n))
}

func c30Extras(c *Ctx) {
	w := c.W
	var scope []*ssa.Function
	for _, fn := range w.FuncsInFile("tls/handshake_messages.go") {
		if fn.Parent() == nil && len(fn.Blocks) > 0 {
			scope = append(scope, fn)
		}
	}
	sortFns(scope)
	c.FreshObligations(scope, "handshake message codecs (every decoded element owns its bytes)")
	// updateBinders keeps the cached encoding in step with the fields: it re-encodes the binder list
	// with the same builder calls marshal uses
	if fn := w.Fn("(*z/tls.clientHelloMsg).updateBinders"); fn != nil {
		keep := func(name string, cc *ssa.CallCommon) bool {
			return strings.Contains(name, "cryptobyte.") || strings.HasSuffix(name, ".marshalWithoutBinders")
		}
		seq := callSeq(fn, keep)
		for _, an := range fn.AnonFuncs {
			for _, s := range callSeq(an, keep) {
				seq = append(seq, an.Name()+":"+s)
			}
			for _, an2 := range an.AnonFuncs {
				for _, s := range callSeq(an2, keep) {
					seq = append(seq, an2.Name()+":"+s)
				}
			}
		}
		got := strings.Join(seq, " ; ")
		want := c30Oracle["updateBinders"]
		c.Sites++
		c.Check(got == want, "R-LAYOUT", "tls.clientHelloMsg.updateBinders", "the cached ClientHello is re-encoded as prefix || uint16-prefixed list of uint8-prefixed binders, and its total length is checked", w.Pos(fn.Pos()), "got "+got)
	} else {
		c.Undecided("R-LAYOUT", "tls.clientHelloMsg.updateBinders", "anchor", "-", "not found")
	}
}

var c30Oracle = map[string]string{
	"updateBinders": "once:(*tls.clientHelloMsg).marshalWithoutBinders(m) ; once:golang.org/x/crypto/cryptobyte.NewBuilder(m.raw[:len((*tls.clientHelloMsg).marshalWithoutBinders(m))]) ; once:(*golang.org/x/crypto/cryptobyte.Builder).AddUint16LengthPrefixed(golang.org/x/crypto/cryptobyte.NewBuilder(m.raw[:len((*tls.clientHelloMsg).marshalWithoutBinders(m))]),closure:func:(*tls.clientHelloMsg).updateBinders$1) ; once:(*golang.org/x/crypto/cryptobyte.Builder).BytesOrPanic(golang.org/x/crypto/cryptobyte.NewBuilder(m.raw[:len((*tls.clientHelloMsg).marshalWithoutBinders(m))])) ; updateBinders$1:loop:(*golang.org/x/crypto/cryptobyte.Builder).AddUint8LengthPrefixed(b,closure:func:(*tls.clientHelloMsg).updateBinders$1$1) ; updateBinders$1$1:once:(*golang.org/x/crypto/cryptobyte.Builder).AddBytes(b,free:binder)",
}

func c33Extras(c *Ctx) {
	w := c.W
	var scope []*ssa.Function
	for _, f := range c33Files {
		for _, fn := range w.FuncsInFile(f) {
			if fn.Parent() == nil && len(fn.Blocks) > 0 && fn.Signature.Recv() != nil && (fn.Name() == "MarshalJSON" || fn.Name() == "UnmarshalJSON") {
				scope = append(scope, fn)
			}
		}
	}
	sortFns(scope)
	c.FreshObligations(scope, "JSON codecs (every decoded list element owns its storage)")
	// pkix.Name: the attribute type used for an aux field when decoding is the one that fills that field when encoding
	mj, uj := w.Fn("(*z/x509/pkix.Name).MarshalJSON"), w.Fn("(*z/x509/pkix.Name).UnmarshalJSON")
	if mj == nil || uj == nil {
		c.Undecided("R-TABLE", "pkix.Name", "MarshalJSON / UnmarshalJSON", "-", "not found")
		return
	}
	enc := map[string]string{} // aux field -> oid global
	for _, b := range mj.Blocks {
		for _, in := range b.Instrs {
			st, ok := in.(*ssa.Store)
			if !ok {
				continue
			}
			fa, ok := st.Addr.(*ssa.FieldAddr)
			if !ok || !strings.HasPrefix(fieldName(fa), "auxName.") {
				continue
			}
			for _, f := range domFacts(b) {
				cl := callOf(f.X)
				if f.Op == "true" && cl != nil && strings.HasSuffix(calleeName(&cl.Call), "ObjectIdentifier).Equal") {
					if g := globalName(cl.Call.Args[1]); g != "" {
						enc[fieldLeaf(fieldName(fa))] = g
					}
				}
			}
		}
	}
	n := 0
	for _, in := range callsIn(uj, "z/x509/pkix.appendATV") {
		cc := callCommon(in)
		src, g := Expr(cc.Args[1]), globalName(cc.Args[2])
		field := ""
		for f := range enc {
			if strings.HasPrefix(src, "aux."+f) && (len(src) == len("aux."+f) || src[len("aux."+f)] == '[') {
				field = f
			}
		}
		n++
		c.Sites++
		c.Check(field != "" && enc[field] == g, "R-TABLE", "pkix.Name.UnmarshalJSON", fmt.Sprintf("attribute list #%d built from %s uses the attribute type that fills it when encoding", n, src), w.InstrPos(in), fmt.Sprintf("decoder uses %s, encoder fills it from %s", g, enc[field]))
	}
	c.Check(n >= 17 && len(enc) >= 17, "R-TABLE", "pkix.Name", "attribute/field pairs enumerated", "-", fmt.Sprintf("%d decoder sites, %d encoder pairs", n, len(enc)))
}

func anyReturn(in ssa.Instruction, _ resolver) bool { _, ok := in.(*ssa.Return); return ok }

// mustPassCall: every path of fn to a target passes a call of one of the named callees.
func (c *Ctx) mustPassCall(rule string, fn *ssa.Function, label string, target func(ssa.Instruction, resolver) bool, callees ...string) {
	if len(callsIn(fn, callees...)) == 0 {
		c.Fail(rule, short(FuncName(fn)), label, c.W.Pos(fn.Pos()), "no call of "+strings.Join(callees, "/")+" in the function")
		return
	}
	names := callees
	c.Cut(CutSpec{Rule: rule, Fn: fn, Label: label, Target: target, MinTargets: -1, Cut: func(Fact) bool { return false }, Barrier: func(in ssa.Instruction) bool {
		cc := callCommon(in)
		if cc == nil {
			return false
		}
		n := calleeName(cc)
		for _, want := range names {
			if n == expand(want) || n == want {
				return true
			}
		}
		return false
	}})
}

func c14Extras(c *Ctx) {
	w := c.W
	if fn := w.Fn("z/x509/revocation/crl.CheckCRLForCert"); fn != nil {
		c.mustPassCall("R-PRE", fn, "every successful lookup (cached or linear) first gathers the CRL-level extension information", SuccessReturn(1, nil), "z/x509/revocation/crl.gatherListExtensionInfo")
	} else {
		c.Undecided("R-PRE", "crl.CheckCRLForCert", "anchor", "-", "not found")
	}
}

func c15Extras(c *Ctx) {
	c15Extras4(c)
	w := c.W
	// OneCRL.Check reports "not listed" only after the blocked subject/key list was scanned to its end
	if fn := w.Fn("(*z/x509/revocation/mozilla.OneCRL).Check"); fn != nil {
		nilRet := func(in ssa.Instruction, res resolver) bool {
			rt, ok := in.(*ssa.Return)
			return ok && len(rt.Results) == 1 && isNilConst(res(unspill(rt, 0)))
		}
		c.Cut(CutSpec{Rule: "R-SCAN", Fn: fn, Label: "nil is returned only after the whole Blocked list was scanned", Target: nilRet, MinTargets: -1, Cut: func(f Fact) bool {
			return f.Op == "ge" && f.Y != nil && Expr(f.Y) == "len(c.Blocked)"
		}})
		c.Cut(CutSpec{Rule: "R-SCAN", Fn: fn, Label: "nil is returned only after the issuer lookup missed or the issuer's serial list was scanned to its end", Target: nilRet, MinTargets: -1, Cut: func(f Fact) bool {
			if f.Op == "nil" && strings.Contains(Expr(f.X), "FindIssuer(") {
				return true
			}
			return f.Op == "ge" && f.Y != nil && strings.HasPrefix(Expr(f.Y), "len(") && strings.Contains(Expr(f.Y), "FindIssuer(") && strings.HasSuffix(Expr(f.Y), ".Entries)")
		}})
	} else {
		c.Undecided("R-SCAN", "mozilla.OneCRL.Check", "anchor", "-", "not found")
	}
	// microsoft.parse: every certificate of the store yields an entry
	if fn := w.Fn("z/x509/revocation/microsoft.parse"); fn != nil {
		for _, in := range callsIn(fn, "z/x509.ParseCertificate") {
			var hdr *ssa.BasicBlock
			for _, l := range natLoops(fn) {
				if l.blocks[in.Block()] && (hdr == nil || hdr.Dominates(l.header)) {
					hdr = l.header
				}
			}
			if hdr == nil {
				c.Fail("R-SCAN", "microsoft.parse", "certificates are parsed in a loop over the store", w.InstrPos(in), "")
				continue
			}
			h := hdr
			c.Sites++
			c.Cut(CutSpec{Rule: "R-SCAN", Fn: fn, Label: "every parsed certificate of the store is recorded before the next one is taken (none is skipped)", StartAfter: in, MinTargets: -1,
				Target: func(i2 ssa.Instruction, _ resolver) bool { return i2 == h.Instrs[0] },
				Barrier: func(i2 ssa.Instruction) bool {
					st, ok := i2.(*ssa.Store)
					if !ok {
						return false
					}
					fa, ok := st.Addr.(*ssa.FieldAddr)
					return ok && fieldName(fa) == "IssuerList.Entries"
				}, Cut: func(Fact) bool { return false }})
		}
	} else {
		c.Undecided("R-SCAN", "microsoft.parse", "anchor", "-", "not found")
	}
}

func c17Extras(c *Ctx) {
	w := c.W
	if fn := w.Fn("(*z/ct/scanner.Scanner).processEntry"); fn != nil {
		n := 0
		for _, in := range callsIn(fn, "sync/atomic.AddInt64") {
			if fa, ok := callCommon(in).Args[0].(*ssa.FieldAddr); ok && fieldName(fa) == "Scanner.certsProcessed" {
				n++
				call := in
				c.Cut(CutSpec{Rule: "R-ONCE", Fn: fn, Label: "every entry is counted in certsProcessed whichever way processEntry returns", Target: anyReturn, MinTargets: -1,
					Barrier: func(i2 ssa.Instruction) bool { return i2 == call }, Cut: func(Fact) bool { return false }})
				c.Check(loopMark(in.Block()) == "once", "R-ONCE", short(FuncName(fn)), "the count is incremented once per entry", w.InstrPos(in), "")
			}
		}
		c.Check(n == 1, "R-ONCE", short(FuncName(fn)), "certsProcessed increment found", w.Pos(fn.Pos()), fmt.Sprint(n))
	} else {
		c.Undecided("R-ONCE", "scanner.processEntry", "anchor", "-", "not found")
	}
}

func c23Extras(c *Ctx) {
	w := c.W
	// the separator scan of EME-PKCS1-v1_5 decoding starts right after the 00 02 header
	if fn := w.Fn("z/rsa.decryptPKCS1v15"); fn != nil {
		ok := false
		det := ""
		for _, b := range fn.Blocks {
			for _, in := range b.Instrs {
				ia, isIA := in.(*ssa.IndexAddr)
				if !isIA {
					continue
				}
				if ph, isPhi := ia.Index.(*ssa.Phi); isPhi && isLoopHeader(ph.Block()) {
					det = Expr(ph)
					if det == "φ((↺+1)|2)" || det == "φ(2|(↺+1))" {
						ok = true
					}
				}
			}
		}
		c.Check(ok, "R-VSET", "rsa.decryptPKCS1v15", "the zero-separator scan covers EM[2:] (a zero inside the first eight padding octets is seen)", w.Pos(fn.Pos()), det)
	}
}

// helper: stores to a field "T.f" inside fn
func storesToField(fn *ssa.Function, field string) []ssa.Instruction {
	var out []ssa.Instruction
	for _, b := range fn.Blocks {
		for _, in := range b.Instrs {
			if st, ok := in.(*ssa.Store); ok {
				if fa, ok := st.Addr.(*ssa.FieldAddr); ok && fieldName(fa) == field {
					out = append(out, in)
				}
			}
		}
	}
	return out
}

func c24Extras(c *Ctx) {
	w := c.W
	c24SuiteCertRules(c)
	// the second ClientHello (after a HelloRetryRequest): once a field of the hello was changed, the cached
	// encoding is dropped before anything is computed from or sent as hello.marshal*()
	fn := w.Fn("(*z/tls.clientHandshakeStateTLS13).processHelloRetryRequest")
	if fn == nil {
		c.Undecided("R-STATE", "tls.processHelloRetryRequest", "anchor", "-", "not found")
		return
	}
	n := 0
	for _, b := range fn.Blocks {
		for _, in := range b.Instrs {
			st, ok := in.(*ssa.Store)
			if !ok {
				continue
			}
			fa, ok := st.Addr.(*ssa.FieldAddr)
			if !ok || !strings.HasPrefix(fieldName(fa), "clientHelloMsg.") || fieldName(fa) == "clientHelloMsg.raw" {
				continue
			}
			n++
			c.Sites++
			// already dropped: a raw = nil store dominates this update and no marshal call lies between them
			dropped := false
			for _, r := range storesToField(fn, "clientHelloMsg.raw") {
				if !isNilConst(r.(*ssa.Store).Val) || !instrDominates(r, in) {
					continue
				}
				between := false
				for _, b2 := range fn.Blocks {
					for _, i2 := range b2.Instrs {
						cc := callCommon(i2)
						if cc == nil || cc.StaticCallee() == nil || !strings.Contains(FuncName(cc.StaticCallee()), "clientHelloMsg).marshal") && !strings.Contains(FuncName(cc.StaticCallee()), "clientHelloMsg).updateBinders") {
							continue
						}
						if instrDominates(r, i2) && (i2.Block() == in.Block() && instrIndex(i2) < instrIndex(in) || i2.Block() != in.Block() && blockReaches(i2.Block(), in.Block())) {
							between = true
						}
					}
				}
				if !between {
					dropped = true
				}
			}
			if dropped {
				c.OK("R-STATE", short(FuncName(fn)), fmt.Sprintf("the change of %s (#%d) happens with the cached encoding already dropped", fieldName(fa), n), w.InstrPos(in), "")
				continue
			}
			c.Cut(CutSpec{Rule: "R-STATE", Fn: fn, Label: fmt.Sprintf("after the change of %s (#%d) the cached encoding is dropped before the hello is marshalled (binders, transcript, wire)", fieldName(fa), n), StartAfter: in, MinTargets: -1,
				Target: func(i2 ssa.Instruction, _ resolver) bool {
					cc := callCommon(i2)
					if cc == nil || cc.StaticCallee() == nil {
						return false
					}
					nm := cc.StaticCallee().Name()
					return strings.HasSuffix(FuncName(cc.StaticCallee()), "clientHelloMsg)."+nm) && (nm == "marshal" || nm == "marshalWithoutBinders")
				},
				Barrier: func(i2 ssa.Instruction) bool {
					s2, ok := i2.(*ssa.Store)
					if !ok {
						return false
					}
					f2, ok := s2.Addr.(*ssa.FieldAddr)
					return ok && fieldName(f2) == "clientHelloMsg.raw" && isNilConst(s2.Val)
				}, Cut: func(Fact) bool { return false }})
		}
	}
	c.Check(n >= 2, "R-STATE", "tls.processHelloRetryRequest", "hello field updates enumerated", w.Pos(fn.Pos()), fmt.Sprint(n))
}

func c25Extras(c *Ctx) {
	w := c.W
	// Conn.Write: every failed record write is made sticky, and the returned count includes the split-off first octet
	if fn := w.Fn("(*z/tls.Conn).Write"); fn != nil {
		calls := callsIn(fn, "(*z/tls.Conn).writeRecordLocked")
		c.Check(len(calls) >= 2, "R-ERR", "tls.Conn.Write", "record writes enumerated", w.Pos(fn.Pos()), fmt.Sprint(len(calls)))
		if len(calls) > 0 {
			k := 0
			for _, rt := range returnsOf(fn) {
				reach := false
				for _, cl := range calls {
					if cl.Block() == rt.Block() && instrIndex(cl) < instrIndex(rt) || (cl.Block() != rt.Block() && blockReaches(cl.Block(), rt.Block())) {
						reach = true
					}
				}
				if !reach {
					continue
				}
				k++
				c.Sites++
				e := Expr(unspill(rt, 1))
				c.Check(strings.HasPrefix(e, "(*tls.halfConn).setErrorLocked(c.out,(*tls.Conn).writeRecordLocked("), "R-ERR", "tls.Conn.Write", fmt.Sprintf("return #%d after a record write reports the error through c.out.setErrorLocked (a failed write is permanent)", k), w.InstrPos(rt), e)
			}
			// the count
			var last *ssa.Return
			var final ssa.Instruction
			for _, cl := range calls {
				all := true
				for _, o := range calls {
					if o != cl && !blockReaches(o.Block(), cl.Block()) {
						all = false
					}
				}
				if all {
					final = cl
				}
			}
			for _, rt := range returnsOf(fn) {
				if final != nil && instrDominates(final, rt) {
					last = rt
				}
			}
			c.Check(last != nil, "R-PROV", "tls.Conn.Write", "the return after the final record write is identified", w.Pos(fn.Pos()), "")
			if last != nil {
				e := Expr(unspill(last, 0))
				c.Check(strings.HasPrefix(e, "((*tls.Conn).writeRecordLocked(") && strings.Contains(e, "#0+φ("), "R-PROV", "tls.Conn.Write", "the byte count returned adds the octet sent in the split-off first record", w.InstrPos(last), e)
			} else {
				c.Fail("R-PROV", "tls.Conn.Write", "final return found", w.Pos(fn.Pos()), "")
			}
		}
	} else {
		c.Undecided("R-ERR", "tls.Conn.Write", "anchor", "-", "not found")
	}
	// readRecordOrCCS: a read error becomes permanent only if it is not a temporary net.Error (both read sites)
	if fn := w.Fn("(*z/tls.Conn).readRecordOrCCS"); fn != nil {
		n := 0
		for _, in := range callsIn(fn, "(*z/tls.halfConn).setErrorLocked") {
			cc := callCommon(in)
			fromRead := false
			for v := range backClosure(cc.Args[1], flowThrough) {
				if cl := callOf(v); cl != nil && strings.HasSuffix(calleeName(&cl.Call), ").readFromUntil") {
					fromRead = true
				}
			}
			if !fromRead {
				continue
			}
			n++
			c.Sites++
			c.Cut(CutSpec{Rule: "R-ERR", Fn: fn, Label: fmt.Sprintf("transport read error #%d is recorded as permanent only if it is not a temporary net.Error (a read deadline can be retried)", n), Target: isInstr(in), Cut: func(f Fact) bool {
				if f.Op != "false" {
					return false
				}
				e := Expr(f.X)
				return strings.Contains(e, ".(net.Error)#1") || strings.HasPrefix(e, "(net.Error).Temporary(")
			}})
		}
		c.Check(n == 2, "R-ERR", "tls.readRecordOrCCS", "both transport read sites handle errors the same way", w.Pos(fn.Pos()), fmt.Sprint(n))
	}
	// halfConn.decrypt: the MAC offset of the MAC-then-encrypt path is clamped to be non-negative
	if fn := w.Fn("(*z/tls.halfConn).decrypt"); fn != nil {
		n := 0
		for _, b := range fn.Blocks {
			for _, in := range b.Instrs {
				sl, ok := in.(*ssa.Slice)
				if !ok || sl.Low == nil || sl.High == nil || !strings.Contains(Expr(sl.High), "macSize") && !strings.Contains(Expr(sl.High), "Size(") {
					continue
				}
				if _, isC := sl.Low.(*ssa.Const); isC {
					continue
				}
				lowE := Expr(sl.Low)
				if !strings.Contains(Expr(sl.High), lowE) {
					continue
				}
				n++
				c.Sites++
				c.Check(clampedAtZero(sl.Low), "R-BOUNDS", "tls.halfConn.decrypt", "the MAC offset computed from attacker-controlled padding is clamped to >= 0 before it is used as a slice bound", w.InstrPos(in), lowE)
			}
		}
		c.Check(n >= 1, "R-BOUNDS", "tls.halfConn.decrypt", "MAC slice found", w.Pos(fn.Pos()), fmt.Sprint(n))
	}
}

func c27Extras(c *Ctx) {
	w := c.W
	// verifyHandshakeSignature: nil only past a successful verification primitive
	if fn := w.Fn("z/tls.verifyHandshakeSignature"); fn != nil {
		c.Cut(CutSpec{Rule: "R-CUT", Fn: fn, Label: "returns nil only past a signature verification that succeeded (every signature type, every key type)", Target: SuccessReturn(0, nil), Cut: func(f Fact) bool {
			cl := callOf(f.X)
			if cl == nil {
				return false
			}
			n := calleeName(&cl.Call)
			switch {
			case f.Op == "true" && (strings.HasSuffix(n, "ecdsa.VerifyASN1") || strings.HasSuffix(n, "ecdsa.Verify") || strings.HasSuffix(n, "ed25519.Verify")):
				return true
			case f.Op == "nil" && (strings.HasSuffix(n, "rsa.VerifyPKCS1v15") || strings.HasSuffix(n, "rsa.VerifyPSS")):
				return true
			}
			return false
		}})
	} else {
		c.Undecided("R-CUT", "tls.verifyHandshakeSignature", "anchor", "-", "not found")
	}
	// loadSession: a verifying client offers a cached session only if its chain was verified when it was stored
	if fn := w.Fn("(*z/tls.Conn).loadSession"); fn != nil {
		c.Cut(CutSpec{Rule: "R-CUT", Fn: fn, Label: "a cached session is offered only if InsecureSkipVerify is set or the session carries verified chains", Target: func(in ssa.Instruction, res resolver) bool {
			rt, ok := in.(*ssa.Return)
			if !ok || len(rt.Results) < 2 {
				return false
			}
			return !isNilConst(res(unspill(rt, 1)))
		}, MinTargets: -1, Cut: AnyF(factExpr("true", "c.config.InsecureSkipVerify", ""), func(f Fact) bool {
			return (f.Op == "ne" || f.Op == "gt") && f.Y != nil && Expr(f.Y) == "0" && strings.HasPrefix(Expr(f.X), "len(") && strings.Contains(Expr(f.X), ".verifiedChains)")
		})})
	} else {
		c.Undecided("R-CUT", "tls.loadSession", "anchor", "-", "not found")
	}
}

func c28Extras(c *Ctx) {
	w := c.W
	// ExternalClientHello path: after the server name of the template was replaced, the cached bytes are dropped
	// before the hello is sent (log and wire then agree on the name)
	fn := w.Fn("(*z/tls.Conn).clientHandshake")
	if fn == nil {
		return
	}
	n := 0
	for _, in := range storesToField(fn, "clientHelloMsg.serverName") {
		n++
		c.Sites++
		c.Cut(CutSpec{Rule: "R-STATE", Fn: fn, Label: fmt.Sprintf("after hello.serverName is replaced (#%d) the cached encoding is dropped on every path before the hello is marshalled", n), StartAfter: in, MinTargets: -1,
			Target: func(i2 ssa.Instruction, _ resolver) bool {
				cc := callCommon(i2)
				return cc != nil && cc.StaticCallee() != nil && strings.HasSuffix(FuncName(cc.StaticCallee()), "clientHelloMsg).marshal")
			},
			Barrier: func(i2 ssa.Instruction) bool {
				s2, ok := i2.(*ssa.Store)
				if !ok {
					return false
				}
				f2, ok := s2.Addr.(*ssa.FieldAddr)
				return ok && fieldName(f2) == "clientHelloMsg.raw" && isNilConst(s2.Val)
			}, Cut: func(Fact) bool { return false }})
	}
	c.Check(n >= 1, "R-STATE", "tls.clientHandshake", "server-name replacement on the external-hello path found", w.Pos(fn.Pos()), fmt.Sprint(n))
}

func c31Extras(c *Ctx) {
	w := c.W
	pkg := "z/tls"
	// (a) ticket key material is drawn with io.ReadFull: no direct Read on the configured entropy source
	n := 0
	for _, fn := range w.FuncsInFile("tls/common.go") {
		for _, b := range fn.Blocks {
			for _, in := range b.Instrs {
				cc := callCommon(in)
				if cc == nil {
					continue
				}
				if cc.IsInvoke() && cc.Method.Name() == "Read" {
					if cl := callOf(cc.Value); cl != nil && strings.HasSuffix(calleeName(&cl.Call), "Config).rand") {
						c.Fail("R-PROV", short(FuncName(fn)), "randomness is drawn with io.ReadFull (a short Read would leave key bytes zero)", w.InstrPos(in), "direct Read on Config.rand()")
					}
				}
				if calleeName(cc) == "io.ReadFull" {
					if cl := callOf(cc.Args[0]); cl != nil && strings.HasSuffix(calleeName(&cl.Call), "Config).rand") {
						n++
					}
				}
			}
		}
	}
	c.Check(n >= 2, "R-PROV", "tls/common.go", "ticket key seeds are filled by io.ReadFull(config.rand(), ...)", "-", fmt.Sprint(n))
	// (b) the rotated key list holds only real keys: it is grown by append from an empty slice
	for _, wr := range w.FieldWrites()["Config.autoSessionTicketKeys"] {
		if wr.Kind != "store" || strings.HasSuffix(w.RelFile(wr.Fn.Pos()), "_test.go") {
			continue
		}
		c.Sites++
		ok := true
		det := ""
		for v := range backClosure(wr.Val, nil) {
			if mk, isMk := v.(*ssa.MakeSlice); isMk {
				if k, isC := intConst(mk.Len); !isC || k != 0 {
					ok = false
					det = "the list is made with length " + Expr(mk.Len) + " (zero-valued keys would match an all-zero key name)"
				}
			}
		}
		c.Check(ok, "R-VSET", short(FuncName(wr.Fn)), "the installed ticket key list contains only keys that were appended to it", w.InstrPos(wr.In), det)
	}
	_ = pkg
}

func c34Extras(c *Ctx) {
	w := c.W
	// the handshake is marked complete only after the last flush of that handshake function
	n := 0
	for _, fn := range w.FuncsOfPkg("z/tls") {
		if strings.HasSuffix(w.RelFile(fn.Pos()), "_test.go") {
			continue
		}
		for _, in := range callsIn(fn, "sync/atomic.StoreUint32") {
			cc := callCommon(in)
			fa, ok := cc.Args[0].(*ssa.FieldAddr)
			if !ok || fieldName(fa) != "Conn.handshakeStatus" {
				continue
			}
			if k, isC := intConst(cc.Args[1]); !isC || k != 1 {
				continue
			}
			n++
			c.Sites++
			c.Cut(CutSpec{Rule: "R-ORDER", Fn: fn, Label: "handshakeStatus is set to 1 only after this function's last flush (Close/CloseWrite may touch the send buffer once it is set)", StartAfter: in, MinTargets: -1,
				Target: func(i2 ssa.Instruction, _ resolver) bool {
					c2 := callCommon(i2)
					return c2 != nil && c2.StaticCallee() != nil && FuncName(c2.StaticCallee()) == expand("(*z/tls.Conn).flush")
				}, Cut: func(Fact) bool { return false }})
		}
	}
	c.Check(n == 4, "R-ORDER", "z/tls", "the four handshake-complete stores found", "-", fmt.Sprint(n))
}

// c25WriteRules: the Conn.Write obligations of c25Extras are also C34's ("a failed write is permanent").
func c25WriteRules(c *Ctx) {
	sub := &Ctx{W: c.W, FnsSeen: map[string]bool{}, extra: map[string]any{}}
	c25Extras(sub)
	for _, o := range sub.Obls {
		if o.Rule == "R-ERR" && strings.Contains(o.Func, "Write") {
			c.Obls = append(c.Obls, o)
		}
	}
}


// clampedAtZero: v is the result of a clamp to >= 0 in one of the idioms a maintainer would write:
// subtle.ConstantTimeSelect(sign, 0, n), max(n, 0), or a merge of n with the constant 0 (if n < 0 { n = 0 }).
func clampedAtZero(v ssa.Value) bool {
	isZero := func(x ssa.Value) bool {
		k, ok := x.(*ssa.Const)
		return ok && k.Value != nil && k.Value.String() == "0"
	}
	switch t := v.(type) {
	case *ssa.Call:
		if f := t.Call.StaticCallee(); f != nil && FuncName(f) == "crypto/subtle.ConstantTimeSelect" && len(t.Call.Args) == 3 {
			return isZero(t.Call.Args[1]) || isZero(t.Call.Args[2])
		}
		if b, ok := t.Call.Value.(*ssa.Builtin); ok && b.Name() == "max" {
			for _, a := range t.Call.Args {
				if isZero(a) {
					return true
				}
			}
		}
	case *ssa.Phi:
		for _, e := range t.Edges {
			if isZero(e) {
				return true
			}
		}
	}
	return false
}

// c32DecryptClamp: the MAC-offset clamp in halfConn.decrypt is also a no-panic obligation (C32).
func c32DecryptClamp(c *Ctx) {
	sub := &Ctx{W: c.W, FnsSeen: map[string]bool{}, extra: map[string]any{}}
	c25Extras(sub)
	for _, o := range sub.Obls {
		if o.Rule == "R-BOUNDS" && strings.Contains(o.Func, "decrypt") {
			c.Obls = append(c.Obls, o)
		}
	}
}


// c24SuiteCertRules: the two places that decide "this suite works with this certificate" — the filter closure of
// ClientHelloInfo.SupportsCertificate (certificate choice) and serverHandshakeState.cipherSuiteOk (suite choice) —
// each enforce both directions of suite-authentication <=> key type. A one-way test makes getCertificate hand out
// a certificate for which pickCipherSuite then finds no suite.
func c24SuiteCertRules(c *Ctx) {
	w := c.W
	maskOf := func(name string) string {
		p := w.Pkg("z/tls")
		if p == nil {
			return ""
		}
		k, ok := p.Types.Scope().Lookup(name).(*types.Const)
		if !ok {
			return ""
		}
		return k.Val().ExactString()
	}
	// edges of "flags & mask != 0": set/clear
	flagEdges := func(fn *ssa.Function, mask string) (set, clear []EdgeRef) {
		for _, b := range fn.Blocks {
			iff, ok := b.Instrs[len(b.Instrs)-1].(*ssa.If)
			if !ok {
				continue
			}
			for si := 0; si < 2; si++ {
				for _, f := range condFacts(iff.Cond, si == 0, idRes) {
					if f.Op != "ne" && f.Op != "eq" || f.Y == nil {
						continue
					}
					and, ok := f.X.(*ssa.BinOp)
					k0, ok2 := f.Y.(*ssa.Const)
					if !ok || !ok2 || and.Op != token.AND || k0.Value == nil || k0.Value.ExactString() != "0" {
						continue
					}
					km, ok := and.Y.(*ssa.Const)
					if !ok || km.Value == nil || km.Value.ExactString() != mask || !strings.HasSuffix(Expr(and.X), ".flags") {
						continue
					}
					if f.Op == "ne" {
						set = append(set, EdgeRef{B: b, Succ: si})
					} else {
						clear = append(clear, EdgeRef{B: b, Succ: si})
					}
				}
			}
		}
		return
	}
	type want struct{ op, leaf string }
	type row struct {
		fn         *ssa.Function
		name       string
		mask       string
		set, clear *want
	}
	var rows []row
	if sc := w.Fn("(*z/tls.ClientHelloInfo).SupportsCertificate"); sc != nil {
		for _, an := range sc.AnonFuncs {
			s, cl := flagEdges(an, maskOf("suiteECSign"))
			if len(s)+len(cl) == 0 {
				continue
			}
			rows = append(rows,
				row{an, "tls.ClientHelloInfo.SupportsCertificate (suite filter)", "suiteECSign", &want{"true", "ecdsaCipherSuite"}, &want{"false", "ecdsaCipherSuite"}},
				row{an, "tls.ClientHelloInfo.SupportsCertificate (suite filter)", "suiteECDHE", nil, &want{"never", ""}},
				row{an, "tls.ClientHelloInfo.SupportsCertificate (suite filter)", "suiteTLS12", &want{"ge", "vers"}, nil})
		}
	}
	if ok := w.Fn("(*z/tls.serverHandshakeState).cipherSuiteOk"); ok != nil {
		rows = append(rows,
			row{ok, "tls.serverHandshakeState.cipherSuiteOk", "suiteECSign", &want{"true", "ecSignOk"}, &want{"true", "rsaSignOk"}},
			row{ok, "tls.serverHandshakeState.cipherSuiteOk", "suiteECDHE", &want{"true", "ecdheOk"}, &want{"true", "rsaDecryptOk"}},
			row{ok, "tls.serverHandshakeState.cipherSuiteOk", "suiteTLS12", &want{"ge", "vers"}, nil})
	}
	c.Check(len(rows) == 6, "R-SIBLING", "z/tls", "suite/certificate compatibility deciders found (SupportsCertificate filter, cipherSuiteOk)", "-", fmt.Sprint(len(rows)))
	for _, r := range rows {
		set, clear := flagEdges(r.fn, maskOf(r.mask))
		c.Sites++
		c.Check(len(set) >= 1 && len(clear) >= 1, "R-SIBLING", r.name, "the test of "+r.mask+" is present", w.Pos(r.fn.Pos()), fmt.Sprintf("set-edges=%d clear-edges=%d", len(set), len(clear)))
		for i, wn := range []*want{r.set, r.clear} {
			if wn == nil {
				continue
			}
			edges, pol := set, "set"
			if i == 1 {
				edges, pol = clear, "clear"
			}
			if len(edges) == 0 {
				continue
			}
			wn := wn
			lbl := fmt.Sprintf("a suite with %s %s is accepted only if %s is %s", r.mask, pol, wn.leaf, wn.op)
			if wn.op == "never" {
				lbl = fmt.Sprintf("a suite with %s %s is never accepted", r.mask, pol)
			}
			if wn.op == "ge" {
				lbl = fmt.Sprintf("a suite with %s %s is accepted only if the version is at least TLS 1.2", r.mask, pol)
			}
			cut := func(f Fact) bool {
				switch wn.op {
				case "never":
					return false
				case "ge":
					return (f.Op == "ge" || f.Op == "gt") && f.X != nil && strings.Contains(Expr(f.X), wn.leaf)
				}
				return f.Op == wn.op && f.X != nil && strings.HasSuffix(Expr(f.X), wn.leaf)
			}
			sp := CutSpec{Rule: "R-SIBLING", Fn: r.fn, Label: lbl, StartEdges: edges, Target: TrueReturn(0, cut), Cut: cut, MinTargets: -1}
			// the version test precedes the flag test in the conjunction: facts known on entry to the edge
			for k := range sp.StartEdges {
				sp.StartEdges[k].Known = domFacts(sp.StartEdges[k].B)
			}
			c.Cut(sp)
		}
	}
}


// c05Extras: the RSA-PSS parameters written into the AlgorithmIdentifier are built from the very hash
// signingParamsForPublicKey returns (the callers digest and sign with the returned one).
func c05Extras(c *Ctx) {
	w := c.W
	curveTableRule(c, "z/x509.signingParamsForPublicKey", "certificate, CSR and CRL signing")
	sigParamsTableRule(c, "z/x509.signingParamsForPublicKey")
	nullBytesRule(c, "z/x509")
	fn := w.Fn("z/x509.signingParamsForPublicKey")
	if fn == nil {
		c.Undecided("R-PROV", "x509.signingParamsForPublicKey", "anchor", "-", "not found")
		return
	}
	n := 0
	for _, in := range callsIn(fn, "z/x509.rsaPSSParameters") {
		cc := callCommon(in)
		if cc == nil || len(cc.Args) != 1 {
			continue
		}
		n++
		c.Sites++
		arg := cc.Args[0]
		c.Cut(CutSpec{Rule: "R-PROV", Fn: fn, Label: fmt.Sprintf("the PSS parameters (#%d) are built from the hash function that is returned", n), StartAfter: in, MinTargets: -1, Track: []ssa.Value{arg},
			Target: func(i2 ssa.Instruction, res resolver) bool {
				rt, ok := i2.(*ssa.Return)
				if !ok || len(rt.Results) < 2 {
					return false
				}
				// error returns carry no usable hash
				if len(rt.Results) == 3 && !isNilConst(res(unspill(rt, 2))) && definitelyNonNil(res(unspill(rt, 2))) {
					return false
				}
				return res(unspill(rt, 0)) != res(arg)
			}, Cut: func(Fact) bool { return false }})
	}
	c.Check(n >= 1, "R-PROV", "x509.signingParamsForPublicKey", "PSS parameter constructions found", w.Pos(fn.Pos()), fmt.Sprint(n))
}


// timeZoneRules: the GeneralizedTime reader accepts numeric zone offsets and only checks that its result re-formats
// to the input, so the writer must format the time value it was handed: no zone-changing call (UTC, Local, In)
// lies on the way from the parameter (or the parsed value) to a time.Format receiver, on either side.
func timeZoneRules(c *Ctx) {
	w := c.W
	zone := map[string]bool{"(time.Time).UTC": true, "(time.Time).Local": true, "(time.Time).In": true}
	n := 0
	for _, name := range []string{"(*z/cryptobyte.Builder).AddASN1GeneralizedTime", "(*z/cryptobyte.String).ReadASN1GeneralizedTime"} {
		root := w.Fn(name)
		if root == nil {
			c.Undecided("R-SIBLING", short(name), "anchor", "-", "not found")
			continue
		}
		fns := append([]*ssa.Function{root}, root.AnonFuncs...)
		// through: loads of captured variables and locals go back to every value stored into the cell
		through := func(x ssa.Value) []ssa.Value {
			var out []ssa.Value
			u, ok := x.(*ssa.UnOp)
			if !ok || u.Op != token.MUL {
				if cl, ok := x.(*ssa.Call); ok && zone[calleeName(&cl.Call)] {
					return nil // recorded by the caller; do not look past it
				}
				if cl, ok := x.(*ssa.Call); ok && len(cl.Call.Args) > 0 && strings.HasPrefix(calleeName(&cl.Call), "(time.Time).") {
					out = append(out, cl.Call.Args[0])
				}
				return out
			}
			var cell ssa.Value = u.X
			if fv, ok := cell.(*ssa.FreeVar); ok {
				// the binding in the parent
				par := fv.Parent().Parent()
				idx := -1
				for i, f := range fv.Parent().FreeVars {
					if f == fv {
						idx = i
					}
				}
				cell = nil
				if par != nil && idx >= 0 {
					for _, b := range par.Blocks {
						for _, in := range b.Instrs {
							if mc, ok := in.(*ssa.MakeClosure); ok && mc.Fn == fv.Parent() && idx < len(mc.Bindings) {
								cell = mc.Bindings[idx]
							}
						}
					}
				}
			}
			if al, ok := cell.(*ssa.Alloc); ok {
				for _, r := range *al.Referrers() {
					if st, ok := r.(*ssa.Store); ok && st.Addr == al {
						out = append(out, st.Val)
					}
				}
			}
			return out
		}
		for _, fn := range fns {
			for _, in := range callsIn(fn, "(time.Time).Format") {
				cc := callCommon(in)
				if cc == nil || len(cc.Args) < 1 {
					continue
				}
				n++
				c.Sites++
				bad := ""
				for v := range backClosure(cc.Args[0], through) {
					if cl, ok := v.(*ssa.Call); ok && zone[calleeName(&cl.Call)] {
						bad = calleeName(&cl.Call) + " at " + w.InstrPos(cl)
					}
				}
				c.Check(bad == "", "R-SIBLING", short(FuncName(fn)), "the time that is formatted is the one handed in / parsed, with its zone offset unchanged (reader and writer agree on offsets)", w.InstrPos(in), bad)
			}
		}
	}
	c.Check(n >= 2, "R-SIBLING", "cryptobyte", "GeneralizedTime format sites found", "-", fmt.Sprint(n))
}


// c21Extras: R-INIT. A decoder that builds its result by read-modify-write of *out (shift in, or in) returns the
// written value only if *out was zero on entry. Candidates are discovered structurally (a store to *param whose
// value depends on a load of *param, with no earlier independent store); the armed instances are frozen below,
// each confirmed by reading. For an armed instance every call chain must end in the address of a local that is
// still zero; handing it memory of unknown content (a caller's variable) is reported.
var c21Accumulators = map[string]string{
	"cryptobyte.asn1Unsigned": "armed: shifts the octets into *out and never clears it",
	"cryptobyte.asn1Signed":   "exception: the trailing shift pair moves the incoming bits out (8*len + 64-8*len = 64 bit positions) before sign-extending",
}

func accumulatesInto(fn *ssa.Function, p *ssa.Parameter) bool {
	if fn == nil || len(fn.Blocks) == 0 {
		return false
	}
	dependsOnLoad := func(v ssa.Value) bool {
		for x := range backClosure(v, func(y ssa.Value) []ssa.Value {
			if b, ok := y.(*ssa.BinOp); ok {
				return []ssa.Value{b.X, b.Y}
			}
			return nil
		}) {
			if u, ok := x.(*ssa.UnOp); ok && u.Op == token.MUL && u.X == ssa.Value(p) {
				return true
			}
		}
		return false
	}
	var rmw, indep []ssa.Instruction
	for _, b := range fn.Blocks {
		for _, in := range b.Instrs {
			st, ok := in.(*ssa.Store)
			if !ok || st.Addr != ssa.Value(p) {
				continue
			}
			if dependsOnLoad(st.Val) {
				rmw = append(rmw, in)
			} else {
				indep = append(indep, in)
			}
		}
	}
	for _, r := range rmw {
		cleared := false
		for _, i := range indep {
			if instrDominates(i, r) {
				cleared = true
			}
		}
		if !cleared {
			return true
		}
	}
	return false
}

func c21Extras(c *Ctx) {
	w := c.W
	c21Extras4(c)
	found := map[string]bool{}
	type site struct {
		fn  *ssa.Function
		idx int
	}
	var armed []site
	for _, fn := range w.FuncsInFile("cryptobyte/asn1.go") {
		for i, p := range fn.Params {
			if _, ok := p.Type().Underlying().(*types.Pointer); !ok || !accumulatesInto(fn, p) {
				continue
			}
			name := short(FuncName(fn))
			found[name] = true
			why, listed := c21Accumulators[name]
			c.Sites++
			det := why
			if !listed {
				det = "a function that accumulates into *" + p.Name() + " and is not in the reviewed table"
			}
			c.Check(listed, "R-INIT", name, "read-modify-write decoder is a reviewed instance", w.Pos(fn.Pos()), det)
			if strings.HasPrefix(why, "armed") {
				armed = append(armed, site{fn, i})
			}
		}
	}
	// call chains of armed instances
	seen := map[*ssa.Function]bool{}
	var follow func(s site, chain string)
	follow = func(s site, chain string) {
		if seen[s.fn] {
			return
		}
		seen[s.fn] = true
		ncall := 0
		for _, caller := range w.FuncsInFile("cryptobyte/asn1.go") {
			for _, b := range caller.Blocks {
				for _, in := range b.Instrs {
					cc := callCommon(in)
					if cc == nil || cc.StaticCallee() != s.fn {
						continue
					}
					ncall++
					c.Sites++
					ai := s.idx
					if cc.IsInvoke() || ai >= len(cc.Args) {
						continue
					}
					arg := cc.Args[ai]
					lbl := fmt.Sprintf("the destination handed to %s (%s) is zero on entry", short(FuncName(s.fn)), chain)
					switch a := arg.(type) {
					case *ssa.Alloc:
						bad := ""
						for _, r := range *a.Referrers() {
							if st, ok := r.(*ssa.Store); ok && st.Addr == ssa.Value(a) {
								if k, ok := st.Val.(*ssa.Const); !(ok && k.Value != nil && k.Value.ExactString() == "0") && (instrDominates(st, in) || blockReaches(st.Block(), in.Block())) {
									bad = "non-zero store at " + w.InstrPos(st)
								}
							}
							if cl, ok := r.(ssa.Instruction); ok && cl != in && callCommon(cl) != nil && (instrDominates(cl, in)) {
								bad = "address passed to " + calleeName(callCommon(cl)) + " before"
							}
						}
						c.Check(bad == "", "R-INIT", short(FuncName(caller)), lbl, w.InstrPos(in), bad)
					case *ssa.Parameter:
						if ast.IsExported(caller.Name()) {
							c.Check(false, "R-INIT", short(FuncName(caller)), lbl, w.InstrPos(in), "exported API forwards its caller's variable")
						} else {
							pi := -1
							for k, q := range caller.Params {
								if q == a {
									pi = k
								}
							}
							c.OK("R-INIT", short(FuncName(caller)), lbl+" (forwarded parameter, callers checked)", w.InstrPos(in), "")
							follow(site{caller, pi}, chain+" <- "+short(FuncName(caller)))
						}
					default:
						c.Check(false, "R-INIT", short(FuncName(caller)), lbl, w.InstrPos(in), "destination "+Expr(arg)+" is memory of unknown content")
					}
				}
			}
		}
		c.Check(ncall >= 1, "R-INIT", short(FuncName(s.fn)), "call sites found", w.Pos(s.fn.Pos()), fmt.Sprint(ncall))
	}
	for _, s := range armed {
		follow(s, short(FuncName(s.fn)))
	}
	for name, why := range c21Accumulators {
		if !found[name] {
			c.OK("R-INIT", name, "table entry no longer accumulates into its destination ("+why+")", "-", "")
		}
	}
}
