package main

// Obligations added after the fourth round of seeded regressions (DESIGN.md 8.6).

import (
	"fmt"
	"go/token"
	"go/types"
	"sort"
	"strings"

	"golang.org/x/tools/go/ssa"
)

var _ = token.ADD
var _ = sort.Strings
var _ types.Type

// staleDecodeTargets (R-FRESH): inside a loop, a decoder call (binary.Read, json.Unmarshal, asn1.Unmarshal, gob ...)
// whose error is discarded fills a variable declared outside the loop: when the call fails the variable keeps the
// previous element's value (a fresh per-iteration variable would be zero).
func staleDecodeTargets(fn *ssa.Function) []deadReport {
	var out []deadReport
	decoders := map[string]int{"encoding/binary.Read": 2, "encoding/json.Unmarshal": 1}
	for _, l := range natLoops(fn) {
		for b := range l.blocks {
			for _, in := range b.Instrs {
				cl, ok := in.(*ssa.Call)
				if !ok {
					continue
				}
				ai, isDec := decoders[calleeName(&cl.Call)]
				if !isDec || ai >= len(cl.Call.Args) {
					continue
				}
				// the error result is unused
				used := false
				for _, r := range *cl.Referrers() {
					if _, dbg := r.(*ssa.DebugRef); !dbg {
						used = true
					}
				}
				if used {
					continue
				}
				var root ssa.Value = cl.Call.Args[ai]
				if mi, ok := root.(*ssa.MakeInterface); ok {
					root = mi.X
				}
				for i := 0; i < 4; i++ {
					switch t := root.(type) {
					case *ssa.FieldAddr:
						root = t.X
						continue
					case *ssa.IndexAddr:
						root = t.X
						continue
					}
					break
				}
				al, ok := root.(*ssa.Alloc)
				if !ok || l.blocks[al.Block()] {
					continue
				}
				out = append(out, deadReport{in, fmt.Sprintf("%s fills %s, which is declared outside the loop, and its error is discarded: on failure the previous element's value is kept", short(calleeName(&cl.Call)), Expr(al))})
			}
		}
	}
	return out
}

func c01Extras4(c *Ctx, scope []*ssa.Function) {
	w := c.W
	n := 0
	for _, fn := range scope {
		for i, r := range staleDecodeTargets(fn) {
			n++
			c.Fail("R-FRESH", short(FuncName(fn)), fmt.Sprintf("no decoder with a discarded error fills a variable that outlives the iteration (#%d)", i+1), w.InstrPos(r.In), r.What)
		}
	}
	c.Sites++
	c.OK("R-FRESH", "parser scope", "loops searched for error-discarding decodes into variables declared outside the loop", "-", fmt.Sprintf("%d functions", len(scope)))
}

// nilFieldDerefs: a value loaded from a pointer-typed field of recv is dereferenced (field access, index, or handed
// as receiver to a method that dereferences it) without a nil test on it.
func nilFieldDerefs(fn *ssa.Function) []deadReport {
	var out []deadReport
	if len(fn.Params) == 0 {
		return nil
	}
	recv := fn.Params[0]
	derefsRecv := func(m *ssa.Function) bool {
		if m == nil || len(m.Blocks) == 0 || len(m.Params) == 0 {
			return false
		}
		p := m.Params[0]
		for _, b := range m.Blocks {
			for _, in := range b.Instrs {
				var base ssa.Value
				switch t := in.(type) {
				case *ssa.FieldAddr:
					base = t.X
				case *ssa.UnOp:
					if t.Op == token.MUL {
						base = t.X
					}
				}
				if base != ssa.Value(p) {
					continue
				}
				if !anyFact(domFacts(b), func(f Fact) bool { return f.Op == "nonnil" && f.X == ssa.Value(p) }) {
					return true
				}
			}
		}
		return false
	}
	for _, b := range fn.Blocks {
		for _, in := range b.Instrs {
			ld, ok := in.(*ssa.UnOp)
			if !ok || ld.Op != token.MUL {
				continue
			}
			fa, ok := ld.X.(*ssa.FieldAddr)
			if !ok || fa.X != ssa.Value(recv) {
				continue
			}
			if _, isPtr := ld.Type().Underlying().(*types.Pointer); !isPtr {
				continue
			}
			for _, r := range *ld.Referrers() {
				bad := false
				switch t := r.(type) {
				case *ssa.FieldAddr:
					bad = t.X == ssa.Value(ld)
				case *ssa.UnOp:
					bad = t.Op == token.MUL && t.X == ssa.Value(ld)
				case *ssa.Call:
					if len(t.Call.Args) > 0 && t.Call.Args[0] == ssa.Value(ld) && !t.Call.IsInvoke() {
						bad = derefsRecv(t.Call.StaticCallee())
					}
				}
				if !bad {
					continue
				}
				ri := r.(ssa.Instruction)
				if anyFact(domFacts(ri.Block()), func(f Fact) bool { return f.Op == "nonnil" && (f.X == ssa.Value(ld) || Expr(f.X) == Expr(ld)) }) {
					continue
				}
				out = append(out, deadReport{ri, fieldName(fa) + " may be nil (the extension was present but did not decode) and is dereferenced without a nil test"})
			}
		}
	}
	return out
}

func c02Extras4(c *Ctx) {
	w := c.W
	fn := w.Fn("(*z/x509.Certificate).JsonifyExtensions")
	if fn == nil {
		c.Undecided("R-NILPTR", "x509.Certificate.JsonifyExtensions", "anchor", "-", "not found")
		return
	}
	c.Sites++
	rs := nilFieldDerefs(fn)
	for i, r := range rs {
		c.Fail("R-NILPTR", "x509.Certificate.JsonifyExtensions", fmt.Sprintf("pointer fields of the certificate are copied, not dereferenced (#%d)", i+1), w.InstrPos(r.In), r.What)
	}
	if len(rs) == 0 {
		c.OK("R-NILPTR", "x509.Certificate.JsonifyExtensions", "pointer fields of the certificate are copied, never dereferenced without a nil test", w.Pos(fn.Pos()), "")
	}
	// checkPub's obligations (C23) protect every verification reached from a parsed certificate
	c.borrow(runC23, func(o *Obligation) bool { return strings.Contains(o.Func, "checkPub") })
}

// c03Extras4: dsa.Sign and dsa.Verify turn the hash into the integer z in the same way (the whole hash as handed in).
func c03Extras4(c *Ctx) {
	w := c.W
	got := map[string][]string{}
	for _, name := range []string{"z/dsa.Sign", "z/dsa.Verify"} {
		fn := w.Fn(name)
		if fn == nil {
			c.Undecided("R-SIBLING", short(name), "anchor", "-", "not found")
			return
		}
		for _, in := range callsIn(fn, "(*math/big.Int).SetBytes") {
			a := callCommon(in).Args[1]
			if strings.Contains(Expr(a), "hash") {
				got[name] = append(got[name], Expr(a))
			}
		}
		sort.Strings(got[name])
	}
	c.Sites++
	s, v := strings.Join(got["z/dsa.Sign"], ";"), strings.Join(got["z/dsa.Verify"], ";")
	c.Check(s != "" && s == v, "R-SIBLING", "dsa.Sign/Verify", "signer and verifier derive z from the hash in the same way", "-", "Sign: "+s+" ; Verify: "+v)
}

// ekuTableRule: the table oidFromExtKeyUsage encodes with and the table extKeyUsageFromOID decodes with are
// functions in both directions (no ExtKeyUsage with two OIDs, no OID with two usages) and every encoder row is
// decoded back to the same usage.
func ekuTableRule(c *Ctx) {
	w := c.W
	tableOf := func(fnName string) (string, [][]TabVal) {
		fn := w.Fn(fnName)
		if fn == nil {
			return "", nil
		}
		for _, b := range fn.Blocks {
			for _, in := range b.Instrs {
				if u, ok := in.(*ssa.UnOp); ok && u.Op == token.MUL {
					if g, ok := u.X.(*ssa.Global); ok {
						rows, _, _ := w.VarRows("z/x509", g.Name())
						if len(rows) > 0 && len(rows[0]) == 2 {
							return g.Name(), rows
						}
					}
				}
			}
		}
		return "", nil
	}
	en, enc := tableOf("z/x509.oidFromExtKeyUsage")
	// the decoder looks the dotted OID up in the map ekuConstants, which an init function fills
	dec := map[string]string{}
	for fn := range w.AllFuncs() {
		if fn.Pkg == nil || fn.Pkg.Pkg.Path() != expand("z/x509") || !strings.HasPrefix(fn.Name(), "init") || fn.Blocks == nil {
			continue
		}
		for _, b := range fn.Blocks {
			for _, in := range b.Instrs {
				mu, ok := in.(*ssa.MapUpdate)
				if !ok || !strings.HasSuffix(Expr(mu.Map), "ekuConstants") {
					continue
				}
				k, ok1 := mu.Key.(*ssa.Const)
				v, ok2 := mu.Value.(*ssa.Const)
				if ok1 && ok2 && k.Value != nil && v.Value != nil {
					key := strings.Trim(k.Value.ExactString(), "\"")
					if _, dup := dec[key]; !dup {
						dec[key] = v.Value.ExactString()
					}
				}
			}
		}
	}
	c.Sites++
	if len(enc) == 0 || len(dec) == 0 {
		c.Fail("R-TABLE", "x509.ExtKeyUsage", "encoder table and decoder map found", "-", fmt.Sprintf("%s: %d rows, ekuConstants: %d entries", en, len(enc), len(dec)))
		return
	}
	var bad []string
	seen := map[string]bool{}
	n := 0
	for _, r := range enc {
		if r[0].Const == nil || r[1].Obj == nil {
			continue
		}
		u := r[0].Const.ExactString()
		if seen[u] {
			continue // the lookup returns the first row for a usage
		}
		seen[u] = true
		n++
		oid := oidOfGlobal(w, "z/x509", r[1].Obj.Name())
		if back, ok := dec[oid]; !ok || back != u {
			bad = append(bad, fmt.Sprintf("%s is written as %s (%s), which reads back as %q", r[0].String(), r[1].Obj.Name(), oid, back))
		}
	}
	sort.Strings(bad)
	c.Check(len(bad) == 0 && n >= 10, "R-TABLE", "x509.ExtKeyUsage", "every extended key usage the builder can encode ("+en+") is decoded back to itself (ekuConstants)", "-", strings.Join(bad, "; "))
}

// c04Extras4: the hash AlgorithmIdentifiers inside RSASSA-PSS parameters carry an explicit NULL (the strict reader
// GetSignatureAlgorithmFromAI compares them with asn1.NullBytes).
func c04Extras4(c *Ctx) {
	w := c.W
	ekuTableRule(c)
	fn := w.Fn("z/x509.rsaPSSParameters")
	if fn == nil {
		c.Undecided("R-SIBLING", "x509.rsaPSSParameters", "anchor", "-", "not found")
		return
	}
	n := 0
	for _, b := range fn.Blocks {
		for _, in := range b.Instrs {
			st, ok := in.(*ssa.Store)
			if !ok {
				continue
			}
			fa, ok := st.Addr.(*ssa.FieldAddr)
			if ok && fieldName(fa) == "AlgorithmIdentifier.Parameters" && strings.HasSuffix(Expr(st.Val), "asn1.NullRawValue") {
				n++
			}
		}
	}
	c.Sites++
	c.Check(n >= 2, "R-SIBLING", "x509.rsaPSSParameters", "hash and MGF1-hash AlgorithmIdentifiers are written with explicit NULL parameters (what the certificate parser requires)", w.Pos(fn.Pos()), fmt.Sprintf("%d NULL parameter stores", n))
}

// bitStringPureRule: BitString.RightAlign / At do not write through the receiver's Bytes (they alias the parsed input).
func bitStringPureRule(c *Ctx) {
	w := c.W
	var scope []*ssa.Function
	for _, n := range []string{"(z/encoding/asn1.BitString).RightAlign", "(z/encoding/asn1.BitString).At"} {
		if fn := w.Fn(n); fn != nil {
			scope = append(scope, fn)
		}
	}
	c.Sites++
	if len(scope) != 2 {
		c.Fail("R-PURE", "encoding/asn1.BitString", "RightAlign and At found", "-", fmt.Sprint(len(scope)))
		return
	}
	c.PureObligations(scope, nil, "BitString accessor (its Bytes alias the DER being parsed)")
	// a value receiver hides the slice from the parameter summary: no store through b.Bytes
	for _, fn := range scope {
		bad := ""
		for _, b := range fn.Blocks {
			for _, in := range b.Instrs {
				st, ok := in.(*ssa.Store)
				if !ok {
					continue
				}
				if ia, ok := st.Addr.(*ssa.IndexAddr); ok && strings.HasSuffix(Expr(ia.X), ".Bytes") {
					bad = w.InstrPos(in)
				}
			}
		}
		c.Check(bad == "", "R-PURE", short(FuncName(fn)), "does not store into the receiver's Bytes", w.Pos(fn.Pos()), bad)
	}
}

// c08Extras4: AppendCertsFromPEM stops scanning only when pem.Decode finds no further block.
func c08Extras4(c *Ctx) {
	w := c.W
	fn := w.Fn("(*z/x509.CertPool).AppendCertsFromPEM")
	if fn == nil {
		c.Undecided("R-SCAN", "x509.CertPool.AppendCertsFromPEM", "anchor", "-", "not found")
		return
	}
	var sel *natLoop
	for _, l := range natLoops(fn) {
		for b := range l.blocks {
			if len(callsInBlock(b, "encoding/pem.Decode")) > 0 {
				sel = l
			}
		}
	}
	c.Sites++
	if sel == nil {
		c.Fail("R-SCAN", "x509.CertPool.AppendCertsFromPEM", "the scanning loop found", w.Pos(fn.Pos()), "")
		return
	}
	var after ssa.Instruction
	for b := range sel.blocks {
		if cs := callsInBlock(b, "encoding/pem.Decode"); len(cs) > 0 {
			after = cs[0]
		}
	}
	c.Cut(CutSpec{Rule: "R-SCAN", Fn: fn, Label: "after a block was decoded the scan is left only if there was none (a block of another type is skipped, not the end)", StartAfter: after, MinTargets: -1,
		Target: func(in ssa.Instruction, _ resolver) bool { _, ok := in.(*ssa.Return); return ok },
		Barrier: func(in ssa.Instruction) bool { return in == sel.header.Instrs[0] },
		Cut: func(f Fact) bool {
			ex, ok := f.X.(*ssa.Extract)
			if !ok || f.Op != "nil" || ex.Index != 0 {
				return false
			}
			cl, ok := ex.Tuple.(*ssa.Call)
			return ok && calleeName(&cl.Call) == "encoding/pem.Decode"
		}})
}

func callsInBlock(b *ssa.BasicBlock, name string) []ssa.Instruction {
	var out []ssa.Instruction
	for _, in := range b.Instrs {
		if cc := callCommon(in); cc != nil && calleeName(cc) == name {
			out = append(out, in)
		}
	}
	return out
}

// freshChainRule: AppendToFreshChain returns storage of its own: every returned value is a slice made in the call,
// never append(chain, ...) (siblings of a branching walk would write into one backing array).
func freshChainRule(c *Ctx) {
	w := c.W
	fn := w.Fn("(z/x509.CertificateChain).AppendToFreshChain")
	if fn == nil {
		c.Undecided("R-FRESH", "x509.CertificateChain.AppendToFreshChain", "anchor", "-", "not found")
		return
	}
	c.Sites++
	bad := ""
	made := false
	for v := range returnClosure(fn, 0) {
		switch t := v.(type) {
		case *ssa.Parameter:
			bad = "the result may share the backing array of " + paramName(t)
		case *ssa.MakeSlice:
			made = true
		}
	}
	c.Check(bad == "" && made, "R-FRESH", "x509.CertificateChain.AppendToFreshChain", "the extended chain is a freshly made slice on every path", w.Pos(fn.Pos()), bad)
}

// c12Extras4: TimeInValidityPeriod is the strict test NotBefore < t < NotAfter that FilterByDate applies to chains
// (Expired and the chain partition are decided by the same boundaries).
func c12Extras4(c *Ctx) {
	w := c.W
	fn := w.Fn("(*z/x509.Certificate).TimeInValidityPeriod")
	if fn == nil {
		c.Undecided("R-SIBLING", "x509.Certificate.TimeInValidityPeriod", "anchor", "-", "not found")
		return
	}
	for _, k := range [][3]string{{"(time.Time).Before", "NotBefore", "NotBefore is before t"}, {"(time.Time).After", "NotAfter", "NotAfter is after t"}} {
		k := k
		c.Sites++
		cut := func(f Fact) bool {
			cl := callOf(f.X)
			return f.Op == "true" && cl != nil && calleeName(&cl.Call) == k[0] && len(cl.Call.Args) == 2 && strings.HasSuffix(Expr(cl.Call.Args[0]), "."+k[1]) && Param("t")(cl.Call.Args[1])
		}
		c.Cut(CutSpec{Rule: "R-SIBLING", Fn: fn, Label: "true only if " + k[2] + " (strictly, as in FilterByDate)", Target: TrueReturn(0, cut), MinTargets: -1, Cut: cut})
	}
}

// c15Extras4: a OneCRL subject/key record keeps the subject octets of the document (Check compares them with the
// certificate's RawSubject octet for octet): the stored RawSubject comes from the base64 decoding, never from a
// re-marshalling of the decoded name.
func c15Extras4(c *Ctx) {
	w := c.W
	n := 0
	for f, ws := range w.FieldWrites() {
		if !strings.HasSuffix(f, ".RawSubject") {
			continue
		}
		for _, wr := range ws {
			if wr.Kind != "store" || wr.Fn.Pkg == nil || wr.Fn.Pkg.Pkg.Path() != expand("z/x509/revocation/mozilla") || !strings.HasSuffix(FuncName(wr.Fn), "Entry).UnmarshalJSON") {
				continue
			}
			n++
			c.Sites++
			d := Deps(wr.Val)
			bad := ""
			for k := range d {
				if strings.HasPrefix(k, "call:") && strings.HasSuffix(k, "asn1.Marshal") {
					bad = k
				}
			}
			c.Check(bad == "", "R-PROV", "mozilla.Entry.UnmarshalJSON", fmt.Sprintf("the blocked subject (#%d) keeps the octets of the document, it is not re-marshalled", n), w.InstrPos(wr.In), bad)
		}
	}
	c.Check(n >= 1, "R-PROV", "mozilla.Entry.UnmarshalJSON", "store of the blocked RawSubject found", "-", fmt.Sprint(n))
}

// shortReadRule (R-SHORTREAD): a direct Read on an io.Reader whose byte count is discarded fills only part of the
// buffer on a short read; parsers read through io.ReadFull / binary.Read. Expected count zero.
func shortReads(fn *ssa.Function) []deadReport {
	var out []deadReport
	for _, b := range fn.Blocks {
		for _, in := range b.Instrs {
			cl, ok := in.(*ssa.Call)
			if !ok || !cl.Call.IsInvoke() || cl.Call.Method.Name() != "Read" || cl.Call.Method.Pkg() == nil || cl.Call.Method.Pkg().Path() != "io" {
				continue
			}
			usedN := false
			for _, r := range *cl.Referrers() {
				if ex, ok := r.(*ssa.Extract); ok && ex.Index == 0 && len(*ex.Referrers()) > 0 {
					usedN = true
				}
			}
			if !usedN {
				out = append(out, deadReport{in, "io.Reader.Read with the byte count discarded (a short read leaves the rest of the buffer unfilled)"})
			}
		}
	}
	return out
}

func (c *Ctx) ShortReadObligations(pkgs ...string) {
	w := c.W
	n := 0
	for _, pk := range pkgs {
		for _, fn := range w.FuncsOfPkg(pk) {
			n++
			for i, r := range shortReads(fn) {
				c.Fail("R-SHORTREAD", short(FuncName(fn)), fmt.Sprintf("no short-read-prone Read (#%d)", i+1), w.InstrPos(r.In), r.What)
			}
		}
	}
	c.Sites++
	c.OK("R-SHORTREAD", strings.Join(pkgs, ","), "searched for io.Reader.Read calls whose byte count is discarded", "-", fmt.Sprintf("%d functions", n))
}

// c17Extras4: Scan resets every counter its workers advance before it starts them (a Scanner may be used again).
func c17Extras4(c *Ctx) {
	w := c.W
	fn := w.Fn("(*z/ct/scanner.Scanner).Scan")
	if fn == nil {
		return
	}
	for _, f := range []string{"certsProcessed", "precertsSeen", "unparsableEntries", "entriesWithNonFatalErrors"} {
		c.Sites++
		ok := false
		for _, wr := range w.FieldWrites()["Scanner."+f] {
			if wr.Fn == fn && wr.Kind == "store" {
				if k, isK := wr.Val.(*ssa.Const); isK && k.Value != nil && k.Value.ExactString() == "0" {
					ok = true
				}
			}
		}
		c.Check(ok, "R-STATE", "ct/scanner.Scanner.Scan", "counter "+f+" is reset at the start of a scan", w.Pos(fn.Pos()), "")
	}
}

// c18Extras4: in parseSequenceOf's tag pre-pass both time tags end up as the tag getUniversalType reports for
// time.Time (UTCTime) and the six alternative string tags as PrintableString.
func c18Extras4(c *Ctx) {
	w := c.W
	bigIntSignBitRule(c)
	fn := w.Fn("z/encoding/asn1.parseSequenceOf")
	if fn == nil {
		c.Undecided("R-TABLE", "encoding/asn1.parseSequenceOf", "anchor", "-", "not found")
		return
	}
	fold := map[int64]int64{}
	var follow func(b *ssa.BasicBlock, depth int) (int64, bool)
	follow = func(b *ssa.BasicBlock, depth int) (int64, bool) {
		if depth > 3 {
			return 0, false
		}
		for _, in := range b.Instrs {
			if st, ok := in.(*ssa.Store); ok {
				if fa, ok := st.Addr.(*ssa.FieldAddr); ok && fieldLeaf(fieldName(fa)) == "tag" {
					if k, ok := intConst(st.Val); ok {
						return k, true
					}
					return 0, false
				}
			}
		}
		if len(b.Succs) == 1 && len(b.Instrs) <= 2 {
			return follow(b.Succs[0], depth+1)
		}
		return 0, false
	}
	for _, b := range fn.Blocks {
		iff, ok := b.Instrs[len(b.Instrs)-1].(*ssa.If)
		if !ok {
			continue
		}
		for _, f := range condFacts(iff.Cond, true, idRes) {
			if f.Op != "eq" || f.Y == nil || !strings.HasSuffix(Expr(f.X), ".tag") {
				continue
			}
			if k, ok := intConst(f.Y); ok {
				if to, ok := follow(b.Succs[0], 0); ok {
					fold[k] = to
				}
			}
		}
	}
	c.Sites++
	var bad []string
	for _, k := range []int64{22, 27, 20, 12, 18, 30} {
		if fold[k] != 19 {
			bad = append(bad, fmt.Sprintf("string tag %d -> %d", k, fold[k]))
		}
	}
	if fold[24] != 23 {
		bad = append(bad, fmt.Sprintf("GeneralizedTime (24) -> %d, want UTCTime (23), the tag expected for time.Time", fold[24]))
	}
	c.Check(len(bad) == 0, "R-TABLE", "encoding/asn1.parseSequenceOf", "alternative string tags fold to PrintableString and GeneralizedTime folds to UTCTime before elements are compared with the expected tag", w.Pos(fn.Pos()), strings.Join(bad, "; "))
	// the slice handed back is made in the call (a decoder never reuses its destination's storage)
	made, other := false, ""
	for v := range returnClosure(fn, 0) {
		if cl, ok := v.(*ssa.Call); ok {
			switch calleeName(&cl.Call) {
			case "reflect.MakeSlice":
				made = true
			case "reflect.Zero":
			default:
				if strings.HasPrefix(calleeName(&cl.Call), "(reflect.Value).") {
					other = calleeName(&cl.Call)
				}
			}
		}
	}
	c.Sites++
	c.Check(made && other == "", "R-FRESH", "encoding/asn1.parseSequenceOf", "the decoded slice is freshly made (reflect.MakeSlice) on every path", w.Pos(fn.Pos()), other)
}

// c19Extras4: a four-byte integer destination is decoded with the range-checking parseInt32.
func c19Extras4(c *Ctx) {
	w := c.W
	fn := w.Fn("z/encoding/asn1.parseField")
	if fn == nil {
		return
	}
	n := 0
	for _, in := range callsIn(fn, "(reflect.Value).SetInt") {
		cc := callCommon(in)
		if cc == nil || len(cc.Args) != 2 {
			continue
		}
		from64 := false
		for v := range backClosure(cc.Args[1], nil) {
			if ex, ok := v.(*ssa.Extract); ok {
				if cl, ok := ex.Tuple.(*ssa.Call); ok && strings.HasSuffix(calleeName(&cl.Call), "asn1.parseInt64") {
					from64 = true
				}
			}
		}
		if !from64 {
			continue
		}
		n++
		c.Sites++
		c.Cut(CutSpec{Rule: "R-VSET", Fn: fn, Label: fmt.Sprintf("a value parsed at 64 bits is stored (#%d) only into a destination that is not four bytes wide (those go through parseInt32's range check)", n), MinTargets: -1,
			Target: func(i2 ssa.Instruction, _ resolver) bool { return i2 == in },
			Cut: func(f Fact) bool {
				if f.Y == nil || f.Op != "ne" {
					return false
				}
				k, ok := intConst(f.Y)
				return ok && k == 4 && strings.Contains(Expr(f.X), "Size(")
			}})
	}
	c.Check(n >= 1, "R-VSET", "encoding/asn1.parseField", "SetInt of a parseInt64 result found", w.Pos(fn.Pos()), fmt.Sprint(n))
}

// c21Extras4: String.read refuses only a request that is negative or longer than what is left (reading zero octets
// succeeds: an empty length-prefixed block is a value).
func c21Extras4(c *Ctx) {
	w := c.W
	fn := w.Fn("(*z/cryptobyte.String).read")
	if fn == nil {
		c.Undecided("R-VSET", "cryptobyte.String.read", "anchor", "-", "not found")
		return
	}
	c.Sites++
	c.Cut(CutSpec{Rule: "R-VSET", Fn: fn, Label: "returns nil only if n is negative or exceeds the remaining length", MinTargets: -1,
		Target: func(in ssa.Instruction, res resolver) bool {
			rt, ok := in.(*ssa.Return)
			return ok && len(rt.Results) == 1 && isNilConst(res(rt.Results[0]))
		},
		Cut: func(f Fact) bool {
			if f.Y == nil || f.Op != "lt" {
				return false
			}
			if Param("n")(f.X) {
				k, ok := intConst(f.Y)
				return ok && k == 0
			}
			return strings.HasPrefix(Expr(f.X), "len(") && Param("n")(f.Y)
		}})
}

func storeToLeaf(in ssa.Instruction, leaf string) bool {
	st, ok := in.(*ssa.Store)
	if !ok {
		return false
	}
	fa, ok := st.Addr.(*ssa.FieldAddr)
	return ok && fieldName(fa) == leaf
}

// c31Extras4: before Config.ticketKeys turns to the listener's own keys (c.mutex.RLock), a key list it returns is the
// per-client Config's (GetConfigForClient), never the listener's.
func c31Extras4(c *Ctx) {
	w := c.W
	fn := w.Fn("(*z/tls.Config).ticketKeys")
	if fn == nil {
		return
	}
	c.Sites++
	c.Cut(CutSpec{Rule: "R-PROV", Fn: fn, Label: "a key list returned from the per-client branch is configForClient.sessionTicketKeys (or nil)", MinTargets: -1,
		Target: func(in ssa.Instruction, res resolver) bool {
			rt, ok := in.(*ssa.Return)
			if !ok || len(rt.Results) != 1 {
				return false
			}
			v := res(unspill(rt, 0))
			return !isNilConst(v) && Expr(v) != "configForClient.sessionTicketKeys"
		},
		Barrier: func(in ssa.Instruction) bool {
			cc := callCommon(in)
			return cc != nil && syncLockKind(cc) == "RLock" && len(cc.Args) > 0 && strings.HasPrefix(Expr(cc.Args[0]), "c.")
		}, Cut: func(Fact) bool { return false }})
}

// c22Extras4: makeField reports "string not valid UTF-8" only past utf8.ValidString being false (a correctly encoded
// U+FFFD is a valid string).
func c22Extras4(c *Ctx) {
	w := c.W
	fn := w.Fn("z/encoding/asn1.makeField")
	if fn == nil {
		return
	}
	n := 0
	for _, in := range callsIn(fn, "errors.New") {
		cc := callCommon(in)
		k, ok := cc.Args[0].(*ssa.Const)
		if !ok || k.Value == nil || !strings.Contains(k.Value.ExactString(), "not valid UTF-8") {
			continue
		}
		n++
		c.Sites++
		c.Cut(CutSpec{Rule: "R-VSET", Fn: fn, Label: fmt.Sprintf("the UTF-8 error (#%d) is raised only past utf8.ValidString == false", n), MinTargets: -1,
			Target: func(i2 ssa.Instruction, _ resolver) bool { return i2 == in },
			Cut: func(f Fact) bool {
				cl := callOf(f.X)
				return f.Op == "false" && cl != nil && calleeName(&cl.Call) == "unicode/utf8.ValidString"
			}})
	}
	c.Check(n >= 1, "R-VSET", "encoding/asn1.makeField", "the invalid-UTF-8 error site found", w.Pos(fn.Pos()), fmt.Sprint(n))
}

// c23Extras4: decryptOAEP accepts only ciphertexts of a key with room for seed and lHash of the label hash:
// k >= 2*hash.Size()+2 (the MGF hash does not enter).
func c23Extras4(c *Ctx) {
	w := c.W
	fn := w.Fn("z/rsa.decryptOAEP")
	if fn == nil {
		return
	}
	c.Sites++
	c.Cut(CutSpec{Rule: "R-VSET", Fn: fn, Label: "succeeds only past k >= 2*hash.Size()+2 (sizes taken from the label hash)", Target: SuccessReturn(1, nil), MinTargets: -1,
		Cut: func(f Fact) bool {
			if f.Op != "ge" || f.Y == nil {
				return false
			}
			e := Expr(f.Y)
			return strings.Contains(e, "Size(hash)*2") && strings.HasSuffix(e, "+2)") && !strings.Contains(e, "mgf")
		}})
}

// ekmWriters: the exporter secret of a TLS 1.3 client is taken from the transcript up to the server Finished
// (readServerFinished), that of a server in sendServerFinished: the set of functions that store Conn.ekm is fixed.
func ekmWriters(c *Ctx) {
	w := c.W
	var got []string
	for _, wr := range w.FieldWrites()["Conn.ekm"] {
		if wr.Kind == "store" && !strings.HasSuffix(w.RelFile(wr.Fn.Pos()), "_test.go") {
			got = append(got, short(FuncName(wr.Fn)))
		}
	}
	sort.Strings(got)
	want := "(*tls.clientHandshakeState).handshake ; (*tls.clientHandshakeStateTLS13).readServerFinished ; (*tls.serverHandshakeState).handshake ; (*tls.serverHandshakeStateTLS13).sendServerFinished"
	c.Sites++
	c.Check(strings.Join(got, " ; ") == want, "R-ORDER", "tls.Conn.ekm", "the exporter secret is derived at the transcript points of RFC 8446 7.5 / RFC 5705 (fixed set of writers)", "-", strings.Join(got, " ; "))
}

// sortParamRule: no function of the package sorts a slice it received as a parameter (the caller's list, often a
// shared default table, would be reordered for everybody).
func sortParamRule(c *Ctx, pkg string) {
	w := c.W
	n := 0
	for _, fn := range w.FuncsOfPkg(pkg) {
		for _, b := range fn.Blocks {
			for _, in := range b.Instrs {
				cc := callCommon(in)
				if cc == nil || !strings.HasPrefix(calleeName(cc), "sort.") || len(cc.Args) == 0 {
					continue
				}
				n++
				root := stripConv(cc.Args[0])
				if mi, ok := root.(*ssa.MakeInterface); ok {
					root = stripConv(mi.X)
				}
				// a parameter captured by the comparison closure lives in a cell that holds the same slice
				if u, ok := root.(*ssa.UnOp); ok && u.Op == token.MUL {
					if al, ok := u.X.(*ssa.Alloc); ok {
						for _, q := range fn.Params {
							if q.Name() == al.Comment {
								onlyParam := true
								for _, r := range *al.Referrers() {
									if st, ok := r.(*ssa.Store); ok && st.Addr == ssa.Value(al) && st.Val != ssa.Value(q) {
										onlyParam = false
									}
								}
								if onlyParam {
									root = q
								}
							}
						}
					}
				}
				if p, ok := root.(*ssa.Parameter); ok && fn.Parent() == nil {
					c.Fail("R-PURE", short(FuncName(fn)), "does not sort its parameter "+paramName(p)+" in place", w.InstrPos(in), calleeName(cc))
				}
			}
		}
	}
	c.Sites++
	c.OK("R-PURE", pkg, "sort calls searched for parameters sorted in place", "-", fmt.Sprintf("%d sort calls", n))
}

// cloneCoverage: a Clone/clone method that copies its receiver field by field into a fresh value of the same type
// assigns every field of the type (a field added later, or forgotten, silently resets to zero in every copy).
func cloneCoverage(c *Ctx, fnNames ...string) {
	w := c.W
	for _, name := range fnNames {
		fn := w.Fn(name)
		if fn == nil {
			c.Undecided("R-TABLE", short(name), "anchor", "-", "not found")
			continue
		}
		for _, b := range fn.Blocks {
			for _, in := range b.Instrs {
				al, ok := in.(*ssa.Alloc)
				if !ok || !al.Heap {
					continue
				}
				st, ok := al.Type().Underlying().(*types.Pointer).Elem().Underlying().(*types.Struct)
				if !ok || len(fn.Params) == 0 || typeStr(al.Type()) != typeStr(fn.Params[0].Type()) {
					continue
				}
				set := map[int]bool{}
				whole := false
				for _, r := range *al.Referrers() {
					if s0, ok := r.(*ssa.Store); ok && s0.Addr == ssa.Value(al) {
						whole = true // clone := *p copies every field
					}
				}
				if whole {
					c.Sites++
					c.OK("R-TABLE", short(name), "the copy assigns every field of "+typeStr(al.Type()), w.InstrPos(in), "whole-value copy")
					continue
				}
				for _, r := range *al.Referrers() {
					if fa, ok := r.(*ssa.FieldAddr); ok {
						for _, r2 := range *fa.Referrers() {
							if s2, ok := r2.(*ssa.Store); ok && s2.Addr == ssa.Value(fa) {
								set[fa.Field] = true
							}
						}
					}
				}
				var missing []string
				for i := 0; i < st.NumFields(); i++ {
					f := st.Field(i)
					ts := typeStr(f.Type())
					if set[i] || strings.HasPrefix(ts, "sync.") || f.Name() == "_" {
						continue
					}
					missing = append(missing, f.Name())
				}
				c.Sites++
				c.Check(len(missing) == 0, "R-TABLE", short(name), "the copy assigns every field of "+typeStr(al.Type()), w.InstrPos(in), "not copied: "+strings.Join(missing, ", "))
			}
		}
	}
}

// c29Extras4: (a) copies of a Config / fingerprint carry every field; (b) the configured SessionID of a fingerprint
// is replaced by random bytes only when a session is being resumed.
func c29Extras4(c *Ctx) {
	w := c.W
	var clones []string
	for _, fn := range w.FuncsOfPkg("z/tls") {
		if fn.Parent() == nil && (fn.Name() == "Clone" || fn.Name() == "clone") && fn.Signature.Recv() != nil {
			clones = append(clones, FuncName(fn))
		}
	}
	sort.Strings(clones)
	cloneCoverage(c, clones...)
	c.Check(len(clones) >= 1, "R-TABLE", "z/tls", "Clone methods found", "-", strings.Join(clones, ","))
	fn := w.Fn("(*z/tls.Conn).clientHandshake")
	if fn == nil {
		return
	}
	n := 0
	for _, b := range fn.Blocks {
		for _, in := range b.Instrs {
			if !storeToLeaf(in, "ClientFingerprintConfiguration.SessionID") {
				continue
			}
			n++
			c.Sites++
			the := in
			c.Cut(CutSpec{Rule: "R-STATE", Fn: fn, Label: fmt.Sprintf("the fingerprint's SessionID is replaced (#%d) only when a cached session is being offered", n), MinTargets: -1,
				Target: func(i2 ssa.Instruction, _ resolver) bool { return i2 == the },
				Cut: func(f Fact) bool {
					return f.Op == "nonnil" && strings.Contains(typeStr(f.X.Type()), "ClientSessionState")
				}})
		}
	}
	c.Check(n >= 1, "R-STATE", "tls.Conn.clientHandshake", "store of the fingerprint SessionID found", w.Pos(fn.Pos()), fmt.Sprint(n))
}

// c33Extras4: (a) a decoder that looks a name up in a table uses the name as it is in the document (a case
// normalisation misses mixed-case keys such as "Ed25519"); (b) strings.TrimLeft/TrimRight/Trim are not given a
// multi-character cutset that reads like a prefix ("0x" also strips the zeros of "0x0000").
func c33Extras4(c *Ctx) {
	w := c.W
	if fn := w.Fn("(*z/x509.PublicKeyAlgorithm).UnmarshalJSON"); fn != nil {
		n := 0
		for _, b := range fn.Blocks {
			for _, in := range b.Instrs {
				lk, ok := in.(*ssa.Lookup)
				if !ok || !strings.HasSuffix(Expr(lk.X), "publicKeyNameToAlgorithm") {
					continue
				}
				n++
				c.Sites++
				bad := ""
				for v := range backClosure(lk.Index, nil) {
					if cl, ok := v.(*ssa.Call); ok && strings.HasPrefix(calleeName(&cl.Call), "strings.") {
						bad = calleeName(&cl.Call)
					}
				}
				if cl, ok := lk.Index.(*ssa.Call); ok && strings.HasPrefix(calleeName(&cl.Call), "strings.") {
					bad = calleeName(&cl.Call)
				}
				c.Check(bad == "", "R-TABLE", "x509.PublicKeyAlgorithm.UnmarshalJSON", "the algorithm name is looked up as written (the table holds the exact names MarshalJSON emits)", w.InstrPos(in), bad)
			}
		}
		c.Check(n == 1, "R-TABLE", "x509.PublicKeyAlgorithm.UnmarshalJSON", "table lookup found", w.Pos(fn.Pos()), fmt.Sprint(n))
	}
	nt := 0
	for _, pk := range []string{"z/tls", "z/x509", "z/json", "z/x509/pkix"} {
		for _, fn := range w.FuncsOfPkg(pk) {
			for _, in := range callsIn(fn, "strings.TrimLeft", "strings.TrimRight", "strings.Trim") {
				nt++
				cc := callCommon(in)
				k, ok := cc.Args[1].(*ssa.Const)
				if !ok || k.Value == nil {
					continue
				}
				cut := strings.Trim(k.Value.ExactString(), "\"")
				distinct := map[rune]bool{}
				for _, r := range cut {
					distinct[r] = true
				}
				if len(distinct) >= 2 && (strings.HasPrefix(cut, "0x") || strings.HasPrefix(cut, "0X")) {
					c.Fail("R-DEAD", short(FuncName(fn)), "a prefix is removed with TrimPrefix, not with a Trim cutset", w.InstrPos(in), fmt.Sprintf("%s(_, %q) removes every leading '0' and 'x'", calleeName(cc), cut))
				}
			}
		}
	}
	c.Sites++
	c.OK("R-DEAD", "JSON packages", "Trim cutsets searched for prefixes", "-", fmt.Sprintf("%d Trim calls", nt))
}

// c25Extras4: (a) handleKeyUpdate returns nil only after the read keys were rotated; (b) the retry counter is reset
// for every non-empty record that is neither an alert nor a ChangeCipherSpec.
func c25Extras4(c *Ctx) {
	w := c.W
	if fn := w.Fn("(*z/tls.Conn).handleKeyUpdate"); fn != nil {
		c.Sites++
		c.Cut(CutSpec{Rule: "R-ORDER", Fn: fn, Label: "returns nil only after c.in.setTrafficSecret (the peer has already switched its sending keys)", Target: SuccessReturn(0, nil), MinTargets: -1,
			Barrier: func(in ssa.Instruction) bool {
				cc := callCommon(in)
				return cc != nil && strings.HasSuffix(calleeName(cc), "halfConn).setTrafficSecret") && len(cc.Args) > 0 && strings.HasSuffix(Expr(cc.Args[0]), ".in")
			}, Cut: func(f Fact) bool {
				// no cipher suite: the function fails with an alert
				return f.Op == "nil" && strings.Contains(Expr(f.X), "cipherSuiteTLS13ByID")
			}})
	}
	if fn := w.Fn("(*z/tls.Conn).readRecordOrCCS"); fn != nil {
		n := 0
		for _, b := range fn.Blocks {
			for _, in := range b.Instrs {
				if !storeToLeaf(in, "Conn.retryCount") {
					continue
				}
				if k, ok := intConst(in.(*ssa.Store).Val); !ok || k != 0 {
					continue
				}
				n++
				c.Sites++
				var bad []string
				neAlert, neCCS := false, false
				for _, f := range domFacts(b) {
					if f.Y == nil || !strings.HasSuffix(typeStr(f.X.Type()), "recordType") {
						continue
					}
					k, ok := intConst(f.Y)
					if !ok {
						continue
					}
					switch {
					case f.Op == "ne" && k == 21:
						neAlert = true
					case f.Op == "ne" && k == 20:
						neCCS = true
					case f.Op == "eq":
						bad = append(bad, fmt.Sprintf("only for record type %d", k))
					}
				}
				if !neAlert || !neCCS {
					var fs []string
					for _, f := range domFacts(b) {
						if f.Y != nil {
							fs = append(fs, f.Op+" "+Expr(f.X)+" "+Expr(f.Y))
						}
					}
					bad = append(bad, "alert / ChangeCipherSpec not excluded: "+strings.Join(fs, " | "))
				}
				c.Check(len(bad) == 0, "R-STATE", "tls.Conn.readRecordOrCCS", "the retry counter is reset for every non-empty record other than alerts and ChangeCipherSpec (application data included)", w.InstrPos(in), strings.Join(bad, "; "))
			}
		}
		c.Check(n == 1, "R-STATE", "tls.Conn.readRecordOrCCS", "reset of the retry counter found", w.Pos(fn.Pos()), fmt.Sprint(n))
	}
}

// c28Extras4: once readSessionTicket has read the NewSessionTicket message it returns nil only after replacing
// hs.session (the log's SessionTicket is built from it).
func c28Extras4(c *Ctx) {
	w := c.W
	fn := w.Fn("(*z/tls.clientHandshakeState).readSessionTicket")
	if fn == nil {
		return
	}
	calls := callsIn(fn, "(*z/tls.Conn).readHandshake")
	c.Sites++
	c.Check(len(calls) == 1, "R-STATE", "tls.clientHandshakeState.readSessionTicket", "the read of the NewSessionTicket message found", w.Pos(fn.Pos()), fmt.Sprint(len(calls)))
	if len(calls) != 1 {
		return
	}
	c.Cut(CutSpec{Rule: "R-STATE", Fn: fn, Label: "after the NewSessionTicket was read, nil is returned only past the store of hs.session", StartAfter: calls[0], Target: SuccessReturn(0, nil), MinTargets: -1,
		Barrier: func(in ssa.Instruction) bool { return storeToLeaf(in, "clientHandshakeState.session") }, Cut: func(Fact) bool { return false }})
}

// c30Extras4: (a) the hand-rolled opaque-body decoders reject only a message shorter than its header or with a wrong
// length field (an empty body is a message); (b) newSessionTicketMsg.unmarshal accepts only after it has read the
// lifetime hint that marshal writes.
func c30Extras4(c *Ctx) {
	w := c.W
	for _, name := range []string{"(*z/tls.serverKeyExchangeMsg).unmarshal", "(*z/tls.clientKeyExchangeMsg).unmarshal"} {
		fn := w.Fn(name)
		if fn == nil {
			c.Undecided("R-VSET", short(name), "anchor", "-", "not found")
			continue
		}
		c.Sites++
		c.Cut(CutSpec{Rule: "R-VSET", Fn: fn, Label: "rejects only if the input is shorter than the 4-octet header or the length field disagrees", MinTargets: -1,
			Target: func(in ssa.Instruction, res resolver) bool {
				rt, ok := in.(*ssa.Return)
				if !ok || len(rt.Results) != 1 {
					return false
				}
				b, isK := boolConst(res(rt.Results[0]))
				return isK && !b
			},
			Cut: func(f Fact) bool {
				if f.Y == nil {
					return false
				}
				if f.Op == "lt" && strings.HasPrefix(Expr(f.X), "len(") {
					k, ok := intConst(f.Y)
					return ok && k == 4
				}
				return f.Op == "ne" && (strings.Contains(Expr(f.Y), "len(") || strings.Contains(Expr(f.X), "len("))
			}})
	}
	if fn := w.Fn("(*z/tls.newSessionTicketMsg).unmarshal"); fn != nil {
		c.Sites++
		c.Cut(CutSpec{Rule: "R-PRE", Fn: fn, Label: "accepts only after storing the lifetime hint", Target: TrueReturn(0, nil), MinTargets: -1,
			Barrier: func(in ssa.Instruction) bool { return storeToLeaf(in, "newSessionTicketMsg.lifetimeHint") }, Cut: func(Fact) bool { return false }})
	}
}

// bigIntSignBitRule: makeBigInt hands out the bare magnitude octets (a bytesEncoder on its own, without a 0xff / 0x00
// pad in front) only where the top bit of the first octet already carries the sign: set for a negative number, clear
// for a positive one. The width of the two's-complement form hangs on exactly this test.
func bigIntSignBitRule(c *Ctx) {
	w := c.W
	fn := w.Fn("z/encoding/asn1.makeBigInt")
	if fn == nil {
		c.Undecided("R-VSET", "encoding/asn1.makeBigInt", "anchor", "-", "not found")
		return
	}
	topBit := func(x ssa.Value, op string) FP {
		return func(f Fact) bool {
			if f.Op != op || f.Y == nil {
				return false
			}
			if k, ok := intConst(f.Y); !ok || k != 0 {
				return false
			}
			bo, ok := stripConv(f.X).(*ssa.BinOp)
			if !ok || bo.Op != token.AND {
				return false
			}
			el, mask := bo.X, bo.Y
			if _, isC := el.(*ssa.Const); isC {
				el, mask = mask, el
			}
			if k, ok := intConst(mask); !ok || k != 0x80 {
				return false
			}
			ld, ok := stripConv(el).(*ssa.UnOp)
			if !ok || ld.Op != token.MUL {
				return false
			}
			ia, ok := ld.X.(*ssa.IndexAddr)
			if !ok {
				return false
			}
			if k, ok := intConst(ia.Index); !ok || k != 0 {
				return false
			}
			return sameVal(ia.X, x)
		}
	}
	n := 0
	for _, b := range fn.Blocks {
		rt, ok := b.Instrs[len(b.Instrs)-1].(*ssa.Return)
		if !ok || len(rt.Results) == 0 {
			continue
		}
		mi, ok := unspill(rt, 0).(*ssa.MakeInterface)
		if !ok {
			continue
		}
		nt, ok := mi.X.Type().(*types.Named)
		if !ok || nt.Obj().Name() != "bytesEncoder" {
			continue
		}
		x := stripConv(mi.X)
		sign := ""
		for _, f := range domFacts(b) {
			if f.Y == nil || !strings.HasSuffix(Expr(f.X), ".Sign(n)") {
				continue
			}
			if k, ok := intConst(f.Y); !ok || k != 0 {
				continue
			}
			switch f.Op {
			case "lt":
				sign = "negative"
			case "gt":
				sign = "positive"
			case "ge":
				if sign == "" {
					sign = "positive" // the zero case returns the single 00 octet before this point or encodes the same way
				}
			}
		}
		n++
		c.Sites++
		switch sign {
		case "negative":
			c.Cut(CutSpec{Rule: "R-VSET", Fn: fn, Label: "a negative number is encoded without the 0xff pad only if the top bit of its first octet is set", Target: isInstr(rt), Cut: topBit(x, "ne")})
		case "positive":
			emptyOK := func(f Fact) bool {
				if f.Y == nil || f.Op != "eq" && f.Op != "le" {
					return false
				}
				k, ok := intConst(f.Y)
				return ok && k == 0 && LenOf(func(v ssa.Value) bool { return sameVal(v, x) })(f.X)
			}
			c.Cut(CutSpec{Rule: "R-VSET", Fn: fn, Label: "a positive number is encoded without the 0x00 pad only if the top bit of its first octet is clear", Target: isInstr(rt), Cut: AnyF(topBit(x, "eq"), emptyOK)})
		default:
			c.Fail("R-VSET", "encoding/asn1.makeBigInt", "bare octets returned on a path of known sign", w.InstrPos(rt), "unrecognised idiom: the sign of n is not decided by a dominating branch here")
		}
	}
	c.Check(n >= 2, "R-VSET", "encoding/asn1.makeBigInt", "bare-octet returns found (negative and positive)", w.Pos(fn.Pos()), fmt.Sprint(n))
}
