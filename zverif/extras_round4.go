package main

// Obligations added after the fourth round of seeded regressions (DESIGN.md 8.6).

import (
	"fmt"
	"go/token"
	"go/types"
	"sort"
	"strings"

	"golang.org/x/tools/go/ssa"
)

var _ = token.ADD
var _ = sort.Strings
var _ types.Type

// staleDecodeTargets (R-FRESH): inside a loop, a decoder call (binary.Read, json.Unmarshal, asn1.Unmarshal, gob ...)
// whose error is discarded fills a variable declared outside the loop: when the call fails the variable keeps the
// previous element's value (a fresh per-iteration variable would be zero).
func staleDecodeTargets(fn *ssa.Function) []deadReport {
	var out []deadReport
	decoders := map[string]int{"encoding/binary.Read": 2, "encoding/json.Unmarshal": 1}
	for _, l := range natLoops(fn) {
		for b := range l.blocks {
			for _, in := range b.Instrs {
				cl, ok := in.(*ssa.Call)
				if !ok {
					continue
				}
				ai, isDec := decoders[calleeName(&cl.Call)]
				if !isDec || ai >= len(cl.Call.Args) {
					continue
				}
				// the error result is unused
				used := false
				for _, r := range *cl.Referrers() {
					if _, dbg := r.(*ssa.DebugRef); !dbg {
						used = true
					}
				}
				if used {
					continue
				}
				var root ssa.Value = cl.Call.Args[ai]
				if mi, ok := root.(*ssa.MakeInterface); ok {
					root = mi.X
				}
				for i := 0; i < 4; i++ {
					switch t := root.(type) {
					case *ssa.FieldAddr:
						root = t.X
						continue
					case *ssa.IndexAddr:
						root = t.X
						continue
					}
					break
				}
				al, ok := root.(*ssa.Alloc)
				if !ok || l.blocks[al.Block()] {
					continue
				}
				out = append(out, deadReport{in, fmt.Sprintf("%s fills %s, which is declared outside the loop, and its error is discarded: on failure the previous element's value is kept", short(calleeName(&cl.Call)), Expr(al))})
			}
		}
	}
	return out
}

func c01Extras4(c *Ctx, scope []*ssa.Function) {
	w := c.W
	n := 0
	for _, fn := range scope {
		for i, r := range staleDecodeTargets(fn) {
			n++
			c.Fail("R-FRESH", short(FuncName(fn)), fmt.Sprintf("no decoder with a discarded error fills a variable that outlives the iteration (#%d)", i+1), w.InstrPos(r.In), r.What)
		}
	}
	c.Sites++
	c.OK("R-FRESH", "parser scope", "loops searched for error-discarding decodes into variables declared outside the loop", "-", fmt.Sprintf("%d functions", len(scope)))
}

// nilFieldDerefs: a value loaded from a pointer-typed field of recv is dereferenced (field access, index, or handed
// as receiver to a method that dereferences it) without a nil test on it.
func nilFieldDerefs(fn *ssa.Function) []deadReport {
	var out []deadReport
	if len(fn.Params) == 0 {
		return nil
	}
	recv := fn.Params[0]
	derefsRecv := func(m *ssa.Function) bool {
		if m == nil || len(m.Blocks) == 0 || len(m.Params) == 0 {
			return false
		}
		p := m.Params[0]
		for _, b := range m.Blocks {
			for _, in := range b.Instrs {
				var base ssa.Value
				switch t := in.(type) {
				case *ssa.FieldAddr:
					base = t.X
				case *ssa.UnOp:
					if t.Op == token.MUL {
						base = t.X
					}
				}
				if base != ssa.Value(p) {
					continue
				}
				if !anyFact(domFacts(b), func(f Fact) bool { return f.Op == "nonnil" && f.X == ssa.Value(p) }) {
					return true
				}
			}
		}
		return false
	}
	for _, b := range fn.Blocks {
		for _, in := range b.Instrs {
			ld, ok := in.(*ssa.UnOp)
			if !ok || ld.Op != token.MUL {
				continue
			}
			fa, ok := ld.X.(*ssa.FieldAddr)
			if !ok || fa.X != ssa.Value(recv) {
				continue
			}
			if _, isPtr := ld.Type().Underlying().(*types.Pointer); !isPtr {
				continue
			}
			for _, r := range *ld.Referrers() {
				bad := false
				switch t := r.(type) {
				case *ssa.FieldAddr:
					bad = t.X == ssa.Value(ld)
				case *ssa.UnOp:
					bad = t.Op == token.MUL && t.X == ssa.Value(ld)
				case *ssa.Call:
					if len(t.Call.Args) > 0 && t.Call.Args[0] == ssa.Value(ld) && !t.Call.IsInvoke() {
						bad = derefsRecv(t.Call.StaticCallee())
					}
				}
				if !bad {
					continue
				}
				ri := r.(ssa.Instruction)
				if anyFact(domFacts(ri.Block()), func(f Fact) bool { return f.Op == "nonnil" && (f.X == ssa.Value(ld) || Expr(f.X) == Expr(ld)) }) {
					continue
				}
				out = append(out, deadReport{ri, fieldName(fa) + " may be nil (the extension was present but did not decode) and is dereferenced without a nil test"})
			}
		}
	}
	return out
}

func c02Extras4(c *Ctx) {
	w := c.W
	fn := w.Fn("(*z/x509.Certificate).JsonifyExtensions")
	if fn == nil {
		c.Undecided("R-NILPTR", "x509.Certificate.JsonifyExtensions", "anchor", "-", "not found")
		return
	}
	c.Sites++
	rs := nilFieldDerefs(fn)
	for i, r := range rs {
		c.Fail("R-NILPTR", "x509.Certificate.JsonifyExtensions", fmt.Sprintf("pointer fields of the certificate are copied, not dereferenced (#%d)", i+1), w.InstrPos(r.In), r.What)
	}
	if len(rs) == 0 {
		c.OK("R-NILPTR", "x509.Certificate.JsonifyExtensions", "pointer fields of the certificate are copied, never dereferenced without a nil test", w.Pos(fn.Pos()), "")
	}
	// checkPub's obligations (C23) protect every verification reached from a parsed certificate
	c.borrow(runC23, func(o *Obligation) bool { return strings.Contains(o.Func, "checkPub") })
}

// c03Extras4: dsa.Sign and dsa.Verify turn the hash into the integer z in the same way (the whole hash as handed in).
func c03Extras4(c *Ctx) {
	w := c.W
	got := map[string][]string{}
	for _, name := range []string{"z/dsa.Sign", "z/dsa.Verify"} {
		fn := w.Fn(name)
		if fn == nil {
			c.Undecided("R-SIBLING", short(name), "anchor", "-", "not found")
			return
		}
		for _, in := range callsIn(fn, "(*math/big.Int).SetBytes") {
			a := callCommon(in).Args[1]
			if strings.Contains(Expr(a), "hash") {
				got[name] = append(got[name], Expr(a))
			}
		}
		sort.Strings(got[name])
	}
	c.Sites++
	s, v := strings.Join(got["z/dsa.Sign"], ";"), strings.Join(got["z/dsa.Verify"], ";")
	c.Check(s != "" && s == v, "R-SIBLING", "dsa.Sign/Verify", "signer and verifier derive z from the hash in the same way", "-", "Sign: "+s+" ; Verify: "+v)
}

// ekuTableRule: the table oidFromExtKeyUsage encodes with and the table extKeyUsageFromOID decodes with are
// functions in both directions (no ExtKeyUsage with two OIDs, no OID with two usages) and every encoder row is
// decoded back to the same usage.
func ekuTableRule(c *Ctx) {
	w := c.W
	tableOf := func(fnName string) (string, [][]TabVal) {
		fn := w.Fn(fnName)
		if fn == nil {
			return "", nil
		}
		for _, b := range fn.Blocks {
			for _, in := range b.Instrs {
				if u, ok := in.(*ssa.UnOp); ok && u.Op == token.MUL {
					if g, ok := u.X.(*ssa.Global); ok {
						rows, _, _ := w.VarRows("z/x509", g.Name())
						if len(rows) > 0 && len(rows[0]) == 2 {
							return g.Name(), rows
						}
					}
				}
			}
		}
		return "", nil
	}
	en, enc := tableOf("z/x509.oidFromExtKeyUsage")
	// the decoder looks the dotted OID up in the map ekuConstants, which an init function fills
	dec := map[string]string{}
	for fn := range w.AllFuncs() {
		if fn.Pkg == nil || fn.Pkg.Pkg.Path() != expand("z/x509") || !strings.HasPrefix(fn.Name(), "init") || fn.Blocks == nil {
			continue
		}
		for _, b := range fn.Blocks {
			for _, in := range b.Instrs {
				mu, ok := in.(*ssa.MapUpdate)
				if !ok || !strings.HasSuffix(Expr(mu.Map), "ekuConstants") {
					continue
				}
				k, ok1 := mu.Key.(*ssa.Const)
				v, ok2 := mu.Value.(*ssa.Const)
				if ok1 && ok2 && k.Value != nil && v.Value != nil {
					key := strings.Trim(k.Value.ExactString(), "\"")
					if _, dup := dec[key]; !dup {
						dec[key] = v.Value.ExactString()
					}
				}
			}
		}
	}
	c.Sites++
	if len(enc) == 0 || len(dec) == 0 {
		c.Fail("R-TABLE", "x509.ExtKeyUsage", "encoder table and decoder map found", "-", fmt.Sprintf("%s: %d rows, ekuConstants: %d entries", en, len(enc), len(dec)))
		return
	}
	var bad []string
	seen := map[string]bool{}
	n := 0
	for _, r := range enc {
		if r[0].Const == nil || r[1].Obj == nil {
			continue
		}
		u := r[0].Const.ExactString()
		if seen[u] {
			continue // the lookup returns the first row for a usage
		}
		seen[u] = true
		n++
		oid := oidOfGlobal(w, "z/x509", r[1].Obj.Name())
		if back, ok := dec[oid]; !ok || back != u {
			bad = append(bad, fmt.Sprintf("%s is written as %s (%s), which reads back as %q", r[0].String(), r[1].Obj.Name(), oid, back))
		}
	}
	sort.Strings(bad)
	c.Check(len(bad) == 0 && n >= 10, "R-TABLE", "x509.ExtKeyUsage", "every extended key usage the builder can encode ("+en+") is decoded back to itself (ekuConstants)", "-", strings.Join(bad, "; "))
}

// c04Extras4: the hash AlgorithmIdentifiers inside RSASSA-PSS parameters carry an explicit NULL (the strict reader
// GetSignatureAlgorithmFromAI compares them with asn1.NullBytes).
func c04Extras4(c *Ctx) {
	w := c.W
	ekuTableRule(c)
	fn := w.Fn("z/x509.rsaPSSParameters")
	if fn == nil {
		c.Undecided("R-SIBLING", "x509.rsaPSSParameters", "anchor", "-", "not found")
		return
	}
	n := 0
	for _, b := range fn.Blocks {
		for _, in := range b.Instrs {
			st, ok := in.(*ssa.Store)
			if !ok {
				continue
			}
			fa, ok := st.Addr.(*ssa.FieldAddr)
			if ok && fieldName(fa) == "AlgorithmIdentifier.Parameters" && strings.HasSuffix(Expr(st.Val), "asn1.NullRawValue") {
				n++
			}
		}
	}
	c.Sites++
	c.Check(n >= 2, "R-SIBLING", "x509.rsaPSSParameters", "hash and MGF1-hash AlgorithmIdentifiers are written with explicit NULL parameters (what the certificate parser requires)", w.Pos(fn.Pos()), fmt.Sprintf("%d NULL parameter stores", n))
}

// bitStringPureRule: BitString.RightAlign / At do not write through the receiver's Bytes (they alias the parsed input).
func bitStringPureRule(c *Ctx) {
	w := c.W
	var scope []*ssa.Function
	for _, n := range []string{"(z/encoding/asn1.BitString).RightAlign", "(z/encoding/asn1.BitString).At"} {
		if fn := w.Fn(n); fn != nil {
			scope = append(scope, fn)
		}
	}
	c.Sites++
	if len(scope) != 2 {
		c.Fail("R-PURE", "encoding/asn1.BitString", "RightAlign and At found", "-", fmt.Sprint(len(scope)))
		return
	}
	c.PureObligations(scope, nil, "BitString accessor (its Bytes alias the DER being parsed)")
	// a value receiver hides the slice from the parameter summary: no store through b.Bytes
	for _, fn := range scope {
		bad := ""
		for _, b := range fn.Blocks {
			for _, in := range b.Instrs {
				st, ok := in.(*ssa.Store)
				if !ok {
					continue
				}
				if ia, ok := st.Addr.(*ssa.IndexAddr); ok && strings.HasSuffix(Expr(ia.X), ".Bytes") {
					bad = w.InstrPos(in)
				}
			}
		}
		c.Check(bad == "", "R-PURE", short(FuncName(fn)), "does not store into the receiver's Bytes", w.Pos(fn.Pos()), bad)
	}
}

// c08Extras4: AppendCertsFromPEM stops scanning only when pem.Decode finds no further block.
func c08Extras4(c *Ctx) {
	w := c.W
	fn := w.Fn("(*z/x509.CertPool).AppendCertsFromPEM")
	if fn == nil {
		c.Undecided("R-SCAN", "x509.CertPool.AppendCertsFromPEM", "anchor", "-", "not found")
		return
	}
	var sel *natLoop
	for _, l := range natLoops(fn) {
		for b := range l.blocks {
			if len(callsInBlock(b, "encoding/pem.Decode")) > 0 {
				sel = l
			}
		}
	}
	c.Sites++
	if sel == nil {
		c.Fail("R-SCAN", "x509.CertPool.AppendCertsFromPEM", "the scanning loop found", w.Pos(fn.Pos()), "")
		return
	}
	var after ssa.Instruction
	for b := range sel.blocks {
		if cs := callsInBlock(b, "encoding/pem.Decode"); len(cs) > 0 {
			after = cs[0]
		}
	}
	c.Cut(CutSpec{Rule: "R-SCAN", Fn: fn, Label: "after a block was decoded the scan is left only if there was none (a block of another type is skipped, not the end)", StartAfter: after, MinTargets: -1,
		Target: func(in ssa.Instruction, _ resolver) bool { _, ok := in.(*ssa.Return); return ok },
		Barrier: func(in ssa.Instruction) bool { return in == sel.header.Instrs[0] },
		Cut: func(f Fact) bool {
			ex, ok := f.X.(*ssa.Extract)
			if !ok || f.Op != "nil" || ex.Index != 0 {
				return false
			}
			cl, ok := ex.Tuple.(*ssa.Call)
			return ok && calleeName(&cl.Call) == "encoding/pem.Decode"
		}})
}

func callsInBlock(b *ssa.BasicBlock, name string) []ssa.Instruction {
	var out []ssa.Instruction
	for _, in := range b.Instrs {
		if cc := callCommon(in); cc != nil && calleeName(cc) == name {
			out = append(out, in)
		}
	}
	return out
}

// freshChainRule: AppendToFreshChain returns storage of its own: every returned value is a slice made in the call,
// never append(chain, ...) (siblings of a branching walk would write into one backing array).
func freshChainRule(c *Ctx) {
	w := c.W
	fn := w.Fn("(z/x509.CertificateChain).AppendToFreshChain")
	if fn == nil {
		c.Undecided("R-FRESH", "x509.CertificateChain.AppendToFreshChain", "anchor", "-", "not found")
		return
	}
	c.Sites++
	bad := ""
	made := false
	for v := range returnClosure(fn, 0) {
		switch t := v.(type) {
		case *ssa.Parameter:
			bad = "the result may share the backing array of " + paramName(t)
		case *ssa.MakeSlice:
			made = true
		}
	}
	c.Check(bad == "" && made, "R-FRESH", "x509.CertificateChain.AppendToFreshChain", "the extended chain is a freshly made slice on every path", w.Pos(fn.Pos()), bad)
}

// c12Extras4: TimeInValidityPeriod is the strict test NotBefore < t < NotAfter that FilterByDate applies to chains
// (Expired and the chain partition are decided by the same boundaries).
func c12Extras4(c *Ctx) {
	w := c.W
	fn := w.Fn("(*z/x509.Certificate).TimeInValidityPeriod")
	if fn == nil {
		c.Undecided("R-SIBLING", "x509.Certificate.TimeInValidityPeriod", "anchor", "-", "not found")
		return
	}
	for _, k := range [][3]string{{"(time.Time).Before", "NotBefore", "NotBefore is before t"}, {"(time.Time).After", "NotAfter", "NotAfter is after t"}} {
		k := k
		c.Sites++
		cut := func(f Fact) bool {
			cl := callOf(f.X)
			return f.Op == "true" && cl != nil && calleeName(&cl.Call) == k[0] && len(cl.Call.Args) == 2 && strings.HasSuffix(Expr(cl.Call.Args[0]), "."+k[1]) && Param("t")(cl.Call.Args[1])
		}
		c.Cut(CutSpec{Rule: "R-SIBLING", Fn: fn, Label: "true only if " + k[2] + " (strictly, as in FilterByDate)", Target: TrueReturn(0, cut), MinTargets: -1, Cut: cut})
	}
}
