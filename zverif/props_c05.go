package main

import (
	"fmt"
	"go/token"
	"sort"
	"strings"

	"golang.org/x/tools/go/ssa"
)

func init() {
	register(&propDef{
		ID: "C05",
		Explain: "CSR / CRL creation and parsing of package x509, as structure. R-TABLE: every extension OID CreateRevocationList emits (list level and entry level) has an arm in ParseRevocationList. R-GUARD: CreateCertificateRequest omits the subjectAltName request only if every SAN list it would encode is empty or the caller supplied the extension. " +
			"R-CUT: the reasonCode entry extension is synthesised only for a non-nil, non-zero ReasonCode, and user-supplied reasonCode extensions are skipped by the copy loop. R-ALIAS: the per-entry extension slice stored into each revoked-certificate record is allocated inside the loop iteration that fills it (records do not share a buffer). " +
			"R-PROV: the TBS structures and signing inputs of CreateCertificateRequest, CreateRevocationList and CreateCRL are built from the template/issuer fields in c05_oracle.go. R-CUT: CheckCRLSignature, RevocationList.CheckSignatureFrom and CertificateRequest.CheckSignature return nil only through the signature check over the object's own TBS bytes, algorithm and signature. " +
			"(The sign-site/algorithm agreement of these creators is C03's obligation.)",
		NotCov: "equality of parsed and supplied values; the legacy pkix.CertificateList round trip through encoding/asn1 reflection.",
		Floor:  18,
		Run:    runC05,
	})
}

func runC05(c *Ctx) {
	w := c.W
	pkg := "z/x509"
	// ---------------- CRL extension table
	crl, prl := w.Fn(pkg+".CreateRevocationList"), w.Fn(pkg+".ParseRevocationList")
	if crl == nil || prl == nil {
		c.Undecided("R-TABLE", pkg, "CreateRevocationList / ParseRevocationList", "-", "not found")
	} else {
		arms := map[string]bool{}
		scan := func(fn *ssa.Function) {
			a, _ := parseArms(w, fn, pkg)
			for k := range a {
				arms[k] = true
			}
		}
		scan(prl)
		for _, an := range prl.AnonFuncs {
			scan(an)
		}
		emitted := map[string]string{}
		for _, b := range crl.Blocks {
			for _, in := range b.Instrs {
				var v ssa.Value
				switch x := in.(type) {
				case *ssa.Store:
					if fa, ok := x.Addr.(*ssa.FieldAddr); ok && fieldName(fa) == "Extension.Id" {
						v = x.Val
					}
				}
				if v == nil {
					continue
				}
				if g := globalName(v); g != "" {
					emitted[g] = oidOfGlobal(w, pkg, g)
				}
			}
		}
		var names []string
		for g := range emitted {
			names = append(names, g)
		}
		sort.Strings(names)
		c.Check(len(names) >= 3, "R-TABLE", "x509.CreateRevocationList", "emitted extensions enumerated", w.Pos(crl.Pos()), strings.Join(names, ","))
		for _, g := range names {
			c.Sites++
			c.Check(emitted[g] != "" && arms[emitted[g]], "R-TABLE", "x509.CreateRevocationList", "emitted extension "+g+" has an arm in ParseRevocationList", w.Pos(crl.Pos()), emitted[g])
		}
		// ---------------- reason code synthesis
		for _, b := range crl.Blocks {
			for _, in := range b.Instrs {
				st, ok := in.(*ssa.Store)
				if !ok {
					continue
				}
				fa, ok := st.Addr.(*ssa.FieldAddr)
				if !ok || fieldName(fa) != "Extension.Id" || globalName(st.Val) != "oidExtensionReasonCode" {
					continue
				}
				c.Sites++
				c.Cut(CutSpec{Rule: "R-CUT", Fn: crl, Label: "a reasonCode extension is synthesised only for a non-nil ReasonCode", Target: isInstr(in), Cut: func(f Fact) bool {
					return f.Op == "nonnil" && strings.HasSuffix(Expr(f.X), ".ReasonCode")
				}})
				c.Cut(CutSpec{Rule: "R-CUT", Fn: crl, Label: "a reasonCode extension is synthesised only for a non-zero ReasonCode", Target: isInstr(in), Cut: func(f Fact) bool {
					return f.Op == "ne" && f.Y != nil && Expr(f.Y) == "0" && strings.Contains(Expr(f.X), ".ReasonCode")
				}})
			}
		}
		// copy loop skips user-supplied reasonCode extensions; R-ALIAS for the per-entry slice
		nAlias := 0
		for _, wr := range w.FieldWrites()["RevokedCertificate.Extensions"] {
			if wr.Fn != crl || wr.Kind != "store" {
				continue
			}
			nAlias++
			c.Sites++
			// every non-append source of the stored slice is a make inside the innermost loop around the store
			var loopHdr *ssa.BasicBlock
			for _, l := range natLoops(crl) {
				if l.blocks[wr.In.Block()] && (loopHdr == nil || loopHdr.Dominates(l.header)) {
					// choose the outermost loop that iterates the revoked certificates: the one whose header dominates all others containing the store
					if loopHdr == nil || l.header.Dominates(loopHdr) {
						loopHdr = l.header
					}
				}
			}
			ok := loopHdr != nil
			det := ""
			for v := range backClosure(wr.Val, nil) {
				switch x := v.(type) {
				case *ssa.MakeSlice:
					if loopHdr == nil || !blockInLoop(loopHdr, x.Block()) {
						ok = false
						det += " buffer allocated outside the loop at " + w.InstrPos(x)
					}
				case *ssa.Slice:
					if al, isAl := x.X.(*ssa.Alloc); isAl && (loopHdr == nil || !blockInLoop(loopHdr, al.Block())) {
						ok = false
						det += " array allocated outside the loop at " + w.InstrPos(al)
					}
				case *ssa.Parameter, *ssa.Global:
					ok = false
					det += " shares " + Expr(v)
				}
			}
			c.Check(ok, "R-ALIAS", "x509.CreateRevocationList", fmt.Sprintf("the entry extension slice #%d is allocated in the iteration that fills it", nAlias), w.InstrPos(wr.In), strings.TrimSpace(det))
			// appended user extensions are behind the not-reasonCode test
			for v := range backClosure(wr.Val, nil) {
				cl, isCall := v.(*ssa.Call)
				if !isCall {
					continue
				}
				if b, ok := cl.Call.Value.(*ssa.Builtin); !ok || b.Name() != "append" {
					continue
				}
				vals, _ := appended(cl)
				for _, a := range vals {
					if strings.Contains(Expr(a), "ExtraExtensions") {
						c.Cut(CutSpec{Rule: "R-CUT", Fn: crl, Label: "a caller-supplied entry extension is copied only if it is not a reasonCode extension", Target: isInstr(cl), Cut: func(f Fact) bool {
							cl2 := callOf(f.X)
							return f.Op == "false" && cl2 != nil && strings.HasSuffix(calleeName(&cl2.Call), "ObjectIdentifier).Equal") && globalName(cl2.Call.Args[1]) == "oidExtensionReasonCode"
						}})
					}
				}
			}
		}
		c.Check(nAlias >= 1, "R-ALIAS", "x509.CreateRevocationList", "entry extension stores enumerated", "-", fmt.Sprint(nAlias))
	}

	// ---------------- R-FRESH over all three creators (generalises the R-ALIAS instance above)
	c05Extras(c)
	printableRules(c, []string{"z/x509.isPrintable", "z/encoding/asn1.parsePrintableString"})
	c.FreshObligations(fileScope(w, []string{pkg + ".CreateCertificateRequest", pkg + ".CreateRevocationList", "(*" + pkg + ".Certificate).CreateCRL"}, "x509/x509.go"), "CSR/CRL creation")

	// ---------------- CSR SAN guard
	if fn := w.Fn(pkg + ".CreateCertificateRequest"); fn != nil {
		calls := callsIn(fn, pkg+".marshalSANs")
		c.Check(len(calls) == 1, "R-GUARD", "x509.CreateCertificateRequest", "one marshalSANs call", w.Pos(fn.Pos()), fmt.Sprint(len(calls)))
		if len(calls) == 1 {
			call := calls[0]
			for _, a := range callCommon(call).Args {
				e := Expr(a)
				c.Sites++
				supplied := func(ft Fact) bool {
					cl := callOf(ft.X)
					return ft.Op == "true" && cl != nil && strings.HasSuffix(calleeName(&cl.Call), ".oidInExtensions") && globalName(cl.Call.Args[0]) == "oidExtensionSubjectAltName"
				}
				c.Cut(CutSpec{Rule: "R-GUARD", Fn: fn, Label: "the subjectAltName request is omitted only if " + e + " is empty or the caller supplied the extension", Target: SuccessReturn(1, nil),
					Barrier: func(in ssa.Instruction) bool { return in == call },
					Cut:     AnyF(factExpr("le", "len("+e+")", "0"), factExpr("eq", "len("+e+")", "0"), supplied)})
			}
		}
	}

	// ---------------- literals and signing inputs
	for _, name := range []string{pkg + ".CreateCertificateRequest", pkg + ".CreateRevocationList", "(*" + pkg + ".Certificate).CreateCRL"} {
		fn := w.Fn(name)
		if fn == nil {
			c.Undecided("R-PROV", name, "anchor", "-", "not found")
			continue
		}
		c.Saw(FuncName(fn))
		var rows []string
		for _, b := range fn.Blocks {
			for _, in := range b.Instrs {
				al, ok := in.(*ssa.Alloc)
				if !ok {
					continue
				}
				ts := typeStr(al.Type())
				short := ts[strings.LastIndex(ts, ".")+1:]
				switch short {
				case "tbsCertificateRequest", "certificateRequest", "tbsCertificateList", "certificateList", "TBSCertificateList", "CertificateList":
				default:
					continue
				}
				fi := fieldInits(al)
				var ks []string
				for k := range fi {
					ks = append(ks, k)
				}
				sort.Strings(ks)
				for _, k := range ks {
					rows = append(rows, short+"."+k+"="+renderStructVal(fi[k], 0))
				}
			}
		}
		for _, in := range callsIn(fn, "(crypto.Signer).Sign") {
			rows = append(rows, "sign("+Expr(callCommon(in).Args[1])+")")
		}
		for _, in := range callsIn(fn, "(io.Writer).Write", "(hash.Hash).Write") {
			cc := callCommon(in)
			rows = append(rows, "hashed("+Expr(cc.Value)+" <- "+Expr(cc.Args[0])+")")
		}
		sort.Strings(rows)
		rows = uniq(rows)
		got := strings.Join(rows, " ; ")
		key := short(FuncName(fn))
		c.Sites++
		c.Check(got == c05Oracle[key], "R-PROV", key, "TBS structure, outer structure and signature input are built from the fields the oracle names", w.Pos(fn.Pos()), "got "+got)
	}

	// ---------------- verification wrappers
	type wrap struct {
		fn   string
		args []string // expected Expr of (algo, signed, signature) somewhere among the args
	}
	for _, wv := range []wrap{
		{"(*" + pkg + ".Certificate).CheckCRLSignature", []string{"crl.TBSCertList.Raw", "crl.SignatureValue"}},
		{"(*" + pkg + ".RevocationList).CheckSignatureFrom", []string{"rl.RawTBSRevocationList", "rl.Signature"}},
		{"(*" + pkg + ".CertificateRequest).CheckSignature", []string{"c.RawTBSCertificateRequest", "c.Signature"}},
	} {
		fn := w.Fn(wv.fn)
		if fn == nil {
			c.Undecided("R-CUT", wv.fn, "anchor", "-", "not found")
			continue
		}
		c.Sites++
		ok, det := false, ""
		for v := range returnClosure(fn, 0) {
			cl := callOf(v)
			if cl == nil || cl.Call.StaticCallee() == nil {
				continue
			}
			n := cl.Call.StaticCallee().Name()
			if n != "CheckSignatureFromKey" && n != "CheckSignature" && n != "checkSignature" {
				continue
			}
			var as []string
			for _, a := range cl.Call.Args {
				as = append(as, Expr(a))
			}
			det = n + "(" + strings.Join(as, ", ") + ")"
			ok = true
			for _, want := range wv.args {
				found := false
				for _, a := range as {
					if strings.Contains(a, want) {
						found = true
					}
				}
				ok = ok && found
			}
		}
		c.Check(ok, "R-PROV", short(wv.fn), "the signature check receives the object's own TBS bytes and signature", w.Pos(fn.Pos()), det)
		sigOK := func(f Fact) bool {
			cl := callOf(f.X)
			return f.Op == "nil" && cl != nil && cl.Call.StaticCallee() != nil && strings.Contains(cl.Call.StaticCallee().Name(), "heckSignature")
		}
		c.Cut(CutSpec{Rule: "R-CUT", Fn: fn, Label: "returns nil only through the signature check", Target: SuccessReturn(0, sigOK), Cut: sigOK, MinTargets: -1})
	}
	_ = token.NoPos
}
