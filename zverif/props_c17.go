package main

import (
	"fmt"
	"go/token"
	"sort"
	"strings"

	"golang.org/x/tools/go/ssa"
)

const (
	pkScan    = "z/ct/scanner"
	fnScan    = "(*" + pkScan + ".Scanner).Scan"
	fnFetcher = "(*" + pkScan + ".Scanner).fetcherJob"
	fnMatcher = "(*" + pkScan + ".Scanner).matcherJob"
)

func init() {
	register(&propDef{
		ID: "C17",
		Explain: "R-ATOMIC: goroutine roots are the callees of every go statement in ct/scanner; a root started inside a loop runs concurrently with itself. A field of an object reached through a receiver/pointer parameter that is written " +
			"in code reachable from such roots must be accessed only through sync/atomic, in that code and in the spawning function after its first go statement (plain reads in the spawner are allowed once Wait() on the WaitGroups of " +
			"all writer goroutines dominates them). R-PRE: in Scan, close(fetches) follows the feeding loop, fetcherWG.Wait() precedes close(jobs), matcherWG.Wait() precedes the return, each go is preceded by Add(1), each worker calls " +
			"Done on every exit. R-CUT/R-ONCE: fetcherJob marks a range done only when start > end, sends each received entry exactly once with Index = the running start, which is incremented once per entry, and asks the log for [start, end].",
		NotCov: "All interleavings; liveness against arbitrary servers; races on objects reached only through interfaces (the matcher callbacks).",
		Floor:  16,
		Run:    runC17,
	})
}

type fieldAccess struct {
	field  string
	in     ssa.Instruction
	fn     *ssa.Function
	write  bool
	atomic bool
}

// sharedBase: the address expression is rooted at a parameter or free variable (not at a local allocation).
func sharedBase(v ssa.Value) bool {
	for i := 0; i < 20; i++ {
		switch x := v.(type) {
		case *ssa.Parameter, *ssa.FreeVar:
			return true
		case *ssa.FieldAddr:
			v = x.X
		case *ssa.IndexAddr:
			v = x.X
		case *ssa.UnOp:
			if x.Op != token.MUL {
				return false
			}
			v = x.X
		default:
			return false
		}
	}
	return false
}

func fieldAccesses(fn *ssa.Function, sp *SharedParams) []fieldAccess {
	var out []fieldAccess
	for _, b := range fn.Blocks {
		for _, in := range b.Instrs {
			fa, ok := in.(*ssa.FieldAddr)
			if !ok {
				continue
			}
			if sp != nil && !sp.isShared(fa.X) {
				continue
			}
			if sp == nil && !sharedBase(fa.X) {
				continue
			}
			name := fieldName(fa)
			for _, ref := range *fa.Referrers() {
				switch r := ref.(type) {
				case *ssa.Store:
					if r.Addr == ssa.Value(fa) {
						out = append(out, fieldAccess{name, r, fn, true, false})
					}
				case *ssa.UnOp:
					if r.Op == token.MUL {
						out = append(out, fieldAccess{name, r, fn, false, false})
					}
				case *ssa.Call:
					cn := calleeName(&r.Call)
					if strings.HasPrefix(cn, "sync/atomic.") {
						out = append(out, fieldAccess{name, r, fn, !strings.HasPrefix(cn, "sync/atomic.Load"), true})
					}
				}
			}
		}
	}
	return out
}

func inLoop(in ssa.Instruction) bool {
	b := in.Block()
	// b is in a cycle iff b is reachable from one of its successors
	seen := map[*ssa.BasicBlock]bool{}
	var work []*ssa.BasicBlock
	work = append(work, b.Succs...)
	for len(work) > 0 {
		x := work[len(work)-1]
		work = work[:len(work)-1]
		if x == b {
			return true
		}
		if seen[x] {
			continue
		}
		seen[x] = true
		work = append(work, x.Succs...)
	}
	return false
}

func runC17(c *Ctx) {
	w := c.W
	c17Extras(c)
	c17Extras3(c)
	// ---- goroutine roots
	type root struct {
		fn     *ssa.Function
		goIn   *ssa.Go
		looped bool
	}
	var roots []root
	for _, fn := range w.FuncsOfPkg(pkScan) {
		for _, b := range fn.Blocks {
			for _, in := range b.Instrs {
				g, ok := in.(*ssa.Go)
				if !ok {
					continue
				}
				var callee *ssa.Function
				if f := g.Call.StaticCallee(); f != nil {
					callee = f
				} else if mc, ok := g.Call.Value.(*ssa.MakeClosure); ok {
					callee, _ = mc.Fn.(*ssa.Function)
				}
				if callee == nil {
					c.Undecided("R-ATOMIC", FuncName(fn), "go statement with an unresolved callee", w.InstrPos(in), "")
					continue
				}
				roots = append(roots, root{callee, g, inLoop(g)})
			}
		}
	}
	c.Check(len(roots) >= 3, "R-ATOMIC", pkScan, "go statements enumerated", "-", fmt.Sprint(len(roots)))
	var rootFns []*ssa.Function
	for _, r := range roots {
		rootFns = append(rootFns, r.fn)
	}
	shp := NewSharedParams(w, rootFns)
	reach := map[*ssa.Function]map[*ssa.Function]bool{}
	for _, r := range roots {
		reach[r.fn] = w.Reachable([]*ssa.Function{r.fn}, func(f *ssa.Function) bool { return !InModule(f) })
	}
	// fields written by concurrent code
	type fieldInfo struct {
		writerRoots map[*ssa.Function]bool
		conc        bool // written by a looped root or by two roots
	}
	fields := map[string]*fieldInfo{}
	var all []fieldAccess
	accByFn := map[*ssa.Function][]fieldAccess{}
	for _, r := range roots {
		for fn := range reach[r.fn] {
			if !InModule(fn) || fn.Blocks == nil {
				continue
			}
			if _, done := accByFn[fn]; !done {
				accByFn[fn] = fieldAccesses(fn, shp)
				all = append(all, accByFn[fn]...)
			}
			for _, a := range accByFn[fn] {
				if !a.write {
					continue
				}
				fi := fields[a.field]
				if fi == nil {
					fi = &fieldInfo{writerRoots: map[*ssa.Function]bool{}}
					fields[a.field] = fi
				}
				fi.writerRoots[r.fn] = true
				if r.looped {
					fi.conc = true
				}
			}
		}
	}
	for _, fi := range fields {
		if len(fi.writerRoots) >= 2 {
			fi.conc = true
		}
	}
	var names []string
	for f, fi := range fields {
		if fi.conc {
			names = append(names, f)
		}
	}
	sort.Strings(names)
	c.Check(len(names) >= 1, "R-ATOMIC", pkScan, "fields written by concurrent goroutines enumerated", "-", strings.Join(names, ","))
	// accesses in goroutine code
	perKey := map[string]int{}
	for _, a := range all {
		fi := fields[a.field]
		if fi == nil || !fi.conc {
			continue
		}
		c.Sites++
		k := FuncName(a.fn) + "|" + a.field
		perKey[k]++
		kind := "read"
		if a.write {
			kind = "write"
		}
		c.Check(a.atomic, "R-ATOMIC", FuncName(a.fn), fmt.Sprintf("%s of %s #%d in goroutine code goes through sync/atomic", kind, a.field, perKey[k]), w.InstrPos(a.in), "")
	}
	// accesses in the spawning functions after the first go
	spawners := map[*ssa.Function][]*ssa.Go{}
	for _, r := range roots {
		sp := r.goIn.Parent()
		spawners[sp] = append(spawners[sp], r.goIn)
	}
	for sp, gos := range spawners {
		// WaitGroups handed to writer goroutines
		for _, a := range fieldAccesses(sp, nil) {
			fi := fields[a.field]
			if fi == nil || !fi.conc || a.atomic {
				continue
			}
			after := false
			for _, g := range gos {
				r := RunCut(&CutSpec{Fn: sp, StartAfter: g, Target: isInstr(a.in), MinTargets: -1})
				if r.Violated {
					after = true
				}
			}
			if !after {
				continue // happens before every go statement
			}
			c.Sites++
			// plain read after all writer goroutines were waited for
			waited := !a.write
			if waited {
				for _, g := range gos {
					callee := g.Call.StaticCallee()
					if callee == nil || !fi.writerRoots[callee] {
						continue
					}
					var wg ssa.Value
					for _, arg := range g.Call.Args {
						if strings.HasSuffix(typeStr(arg.Type()), "sync.WaitGroup") {
							wg = arg
						}
					}
					ok := false
					if wg != nil {
						for _, in := range callsIn(sp, "(*sync.WaitGroup).Wait") {
							if callCommon(in).Args[0] == wg && instrDominates(in, a.in) {
								ok = true
							}
						}
					}
					if !ok {
						waited = false
					}
				}
			}
			kind := "read"
			if a.write {
				kind = "write"
			}
			k := FuncName(sp) + "|" + a.field + "|" + kind
			perKey[k]++
			c.Check(waited, "R-ATOMIC", FuncName(sp), fmt.Sprintf("plain %s of %s #%d after goroutines were started is ordered after Wait() on every writer's WaitGroup", kind, a.field, perKey[k]), w.InstrPos(a.in), "")
		}
	}

	// ---- Scan ordering
	if sc := w.Fn(fnScan); sc == nil {
		c.Undecided("R-PRE", fnScan, "anchor", "-", "not found")
	} else {
		var closes []*ssa.Call
		for _, b := range sc.Blocks {
			for _, in := range b.Instrs {
				if cl := isBuiltinCall(in, "close"); cl != nil {
					closes = append(closes, cl)
				}
			}
		}
		waits := callsIn(sc, "(*sync.WaitGroup).Wait")
		c.Check(len(closes) == 2 && len(waits) == 2, "R-PRE", fnScan, "two channel closes and two WaitGroup waits", w.Pos(sc.Pos()), fmt.Sprintf("%d closes %d waits", len(closes), len(waits)))
		chanOfGo := func(callee string, idx int) ssa.Value {
			for _, gos := range spawners[sc] {
				if f := gos.Call.StaticCallee(); f != nil && FuncName(f) == expand(callee) {
					return stripConv(gos.Call.Args[idx])
				}
			}
			return nil
		}
		wgOfGo := func(callee string) ssa.Value {
			for _, gos := range spawners[sc] {
				if f := gos.Call.StaticCallee(); f != nil && FuncName(f) == expand(callee) {
					return gos.Call.Args[len(gos.Call.Args)-1]
				}
			}
			return nil
		}
		ranges, jobs := chanOfGo(fnFetcher, 2), chanOfGo(fnFetcher, 3)
		fwg, mwg := wgOfGo(fnFetcher), wgOfGo(fnMatcher)
		var closeRanges, closeJobs, waitF, waitM ssa.Instruction
		for _, cl := range closes {
			if stripConv(cl.Call.Args[0]) == ranges {
				closeRanges = cl
			}
			if stripConv(cl.Call.Args[0]) == jobs {
				closeJobs = cl
			}
		}
		for _, in := range waits {
			if callCommon(in).Args[0] == fwg {
				waitF = in
			}
			if callCommon(in).Args[0] == mwg {
				waitM = in
			}
		}
		if closeRanges == nil || closeJobs == nil || waitF == nil || waitM == nil || jobs != chanOfGo(fnMatcher, 2) {
			c.Fail("R-PRE", fnScan, "channels and WaitGroups of the workers identified", w.Pos(sc.Pos()), "")
		} else {
			c.Check(instrDominates(closeRanges, waitF) && instrDominates(waitF, closeJobs) && instrDominates(closeJobs, waitM), "R-PRE", fnScan,
				"close(fetches); fetcherWG.Wait(); close(jobs); matcherWG.Wait() in this order", w.InstrPos(closeRanges), "")
			c.Cut(CutSpec{Rule: "R-PRE", Fn: sc, Label: "a successful scan returns only after the matchers finished", Target: SuccessReturn(1, nil), Barrier: func(in ssa.Instruction) bool { return in == waitM }})
			// all ranges are sent before the channel is closed: the send is not reachable after close
			var sends []ssa.Instruction
			for _, b := range sc.Blocks {
				for _, in := range b.Instrs {
					if s, ok := in.(*ssa.Send); ok && stripConv(s.Chan) == ranges {
						sends = append(sends, in)
					}
				}
			}
			c.Check(len(sends) == 1, "R-PRE", fnScan, "one feeding send on the ranges channel", w.Pos(sc.Pos()), fmt.Sprint(len(sends)))
			for _, s := range sends {
				c.Cut(CutSpec{Rule: "R-PRE", Fn: sc, Label: "nothing is sent on the ranges channel after it is closed", StartAfter: closeRanges, Target: isInstr(s), MinTargets: 1})
			}
		}
		for _, g := range spawners[sc] {
			if f := g.Call.StaticCallee(); f != nil && len(g.Call.Args) > 0 && strings.HasSuffix(typeStr(g.Call.Args[len(g.Call.Args)-1].Type()), "sync.WaitGroup") {
				wg := g.Call.Args[len(g.Call.Args)-1]
				// Add(1) on the same WaitGroup dominates the go statement, once per iteration
				ok := false
				for _, in := range callsIn(sc, "(*sync.WaitGroup).Add") {
					cc := callCommon(in)
					if k, isC := intConst(cc.Args[1]); cc.Args[0] == wg && isC && k == 1 && in.Block() == g.Block() && instrDominates(in, g) {
						ok = true
					}
				}
				c.Check(ok, "R-PRE", fnScan, "Add(1) immediately precedes go "+short(FuncName(f)), w.InstrPos(g), "")
			}
		}
	}
	for _, nm := range []string{fnFetcher, fnMatcher} {
		f := w.Fn(nm)
		if f == nil {
			c.Undecided("R-PRE", nm, "anchor", "-", "not found")
			continue
		}
		dones := callsIn(f, "(*sync.WaitGroup).Done")
		c.Check(len(dones) == 1 && Param("wg")(callCommon(dones[0]).Args[0]), "R-PRE", nm, "one wg.Done() site on the worker's WaitGroup", w.Pos(f.Pos()), fmt.Sprint(len(dones)))
		if len(dones) == 1 {
			c.Cut(CutSpec{Rule: "R-PRE", Fn: f, Label: "Done is called on every exit", Target: isReturn, Barrier: func(in ssa.Instruction) bool { return in == dones[0] }})
			c.Cut(CutSpec{Rule: "R-ONCE", Fn: f, Label: "Done is called at most once", EventInstr: func(in ssa.Instruction, _ resolver) bool { return in == dones[0] }, MaxEvents: 1, MinTargets: 1})
		}
	}

	// ---- fetcherJob
	if f := w.Fn(fnFetcher); f != nil {
		startV := func(v ssa.Value) bool { return Expr(v) == "r.start" }
		endV := func(v ssa.Value) bool { return Expr(v) == "r.end" }
		// the loop over one range ends only when start > end
		doneEdge := Cmp(startV, "gt", endV)
		n := 0
		for _, b := range f.Blocks {
			if ifi, ok := b.Instrs[len(b.Instrs)-1].(*ssa.If); ok {
				for _, fc := range condFacts(ifi.Cond, true, idRes) {
					if doneEdge(fc) {
						n++
					}
				}
			}
		}
		c.Check(n == 1, "R-CUT", fnFetcher, "the range is complete exactly when r.start > r.end", w.Pos(f.Pos()), fmt.Sprint(n))
		// the next range is taken (or the worker exits) only past that edge
		var recv *ssa.UnOp
		var sends []*ssa.Send
		var incs []ssa.Instruction
		for _, b := range f.Blocks {
			for _, in := range b.Instrs {
				switch x := in.(type) {
				case *ssa.UnOp:
					if x.Op == token.ARROW && Param("ranges")(x.X) {
						recv = x
					}
				case *ssa.Send:
					if Param("entries")(x.Chan) {
						sends = append(sends, x)
					}
				case *ssa.Store:
					if Expr(x.Addr) == "r.start" {
						incs = append(incs, in)
					}
				}
			}
		}
		if recv == nil || len(sends) != 1 || len(incs) != 1 {
			c.Fail("R-CUT", fnFetcher, "receive on ranges, one send on entries, one update of r.start", w.Pos(f.Pos()), fmt.Sprintf("recv:%v sends:%d incs:%d", recv != nil, len(sends), len(incs)))
		} else {
			c.Cut(CutSpec{Fn: f, Label: "a range is abandoned (next range taken / worker ends) only when r.start > r.end", StartAfter: recv, Cut: doneEdge,
				Target: func(in ssa.Instruction, _ resolver) bool {
					if in == ssa.Instruction(recv) {
						return true
					}
					_, isRet := in.(*ssa.Return)
					return isRet
				},
				// the very first test after the receive (channel closed -> exit) is not about a range
				Barrier: nil, MinTargets: 1, Assume: []Fact{{Op: "true", X: recvOK(recv)}}})
			s := sends[0]
			// entry sent with Index = r.start, then r.start incremented by one, once per entry
			okIdx := false
			if mi := s.X; mi != nil {
				okIdx = strings.Contains(Expr(s.X), "r.start") || hasAll(Deps(s.X), "field:fetchRange.start")
			}
			c.Check(okIdx, "R-PROV", fnFetcher, "each entry is sent together with the running index r.start", w.InstrPos(s), Expr(s.X))
			inc := incs[0].(*ssa.Store)
			c.Check(Expr(inc.Val) == "(r.start+1)", "R-PROV", fnFetcher, "r.start advances by exactly one", w.InstrPos(inc), Expr(inc.Val))
			c.Cut(CutSpec{Rule: "R-ONCE", Fn: f, Label: "between two sends the index advances exactly once (no entry is skipped or repeated)", StartAfter: s,
				Target: func(in ssa.Instruction, _ resolver) bool { return in == ssa.Instruction(s) }, Barrier: func(in ssa.Instruction) bool { return in == incs[0] }, MinTargets: 1})
			c.Cut(CutSpec{Rule: "R-ONCE", Fn: f, Label: "the index advances only after its entry was sent", StartAfter: incs[0],
				Target: func(in ssa.Instruction, _ resolver) bool { return in == incs[0] }, Barrier: func(in ssa.Instruction) bool { return in == ssa.Instruction(s) }, MinTargets: 1})
			for _, in := range callsIn(f, "(*z/ct/client.LogClient).GetEntries") {
				a := callCommon(in).Args
				c.Check(startV(a[1]) && endV(a[2]), "R-PROV", fnFetcher, "the log is asked for [r.start, r.end]", w.InstrPos(in), Expr(a[1])+","+Expr(a[2]))
			}
		}
	} else {
		c.Undecided("R-CUT", fnFetcher, "anchor", "-", "not found")
	}
	// matcherJob hands every received job to processEntry
	if f := w.Fn(fnMatcher); f != nil {
		n := len(callsIn(f, "(*"+pkScan+".Scanner).processEntry"))
		c.Check(n == 1, "R-PROV", fnMatcher, "every received job is processed", w.Pos(f.Pos()), fmt.Sprint(n))
	}
}

// recvOK: the comma-ok result of a channel receive used by a range loop.
func recvOK(recv *ssa.UnOp) ssa.Value {
	for _, ref := range *recv.Referrers() {
		if ex, ok := ref.(*ssa.Extract); ok && ex.Index == 1 {
			return ex
		}
	}
	return recv
}
