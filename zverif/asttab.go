package main

import (
	"go/ast"
	"go/constant"
	"go/token"
	"go/types"
	"strings"

	"golang.org/x/tools/go/packages"
)

// R-TABLE extraction works on the type-checked syntax (constants are
// evaluated by go/types, identifiers are resolved to objects); nothing
// here matches source text.

// FuncDecl finds a function or method declaration: name "F" or "T.M" / "(*T).M".
func (w *World) FuncDecl(pkgPath, name string) (*ast.FuncDecl, *packages.Package) {
	p := w.Pkg(pkgPath)
	if p == nil {
		return nil, nil
	}
	recv := ""
	if i := strings.LastIndex(name, "."); i >= 0 {
		recv = strings.Trim(name[:i], "(*)")
		name = name[i+1:]
	}
	for _, f := range p.Syntax {
		for _, d := range f.Decls {
			fd, ok := d.(*ast.FuncDecl)
			if !ok || fd.Name.Name != name {
				continue
			}
			if recv == "" && fd.Recv == nil {
				return fd, p
			}
			if recv != "" && fd.Recv != nil && len(fd.Recv.List) == 1 {
				t := fd.Recv.List[0].Type
				if s, ok := t.(*ast.StarExpr); ok {
					t = s.X
				}
				if id, ok := t.(*ast.Ident); ok && id.Name == recv {
					return fd, p
				}
			}
		}
	}
	return nil, nil
}

// TabVal is one extracted table cell: a constant, a named object (variable,
// function, field) or an opaque expression.
type TabVal struct {
	Const constant.Value
	Obj   types.Object
	Expr  ast.Expr
}

func (t TabVal) String() string {
	switch {
	case t.Obj != nil && t.Const != nil:
		return t.Obj.Name()
	case t.Const != nil:
		return t.Const.ExactString()
	case t.Obj != nil:
		return t.Obj.Name()
	case t.Expr != nil:
		return types.ExprString(t.Expr)
	}
	return "?"
}

// Key identifies the cell value: constants by value, objects by identity name.
func (t TabVal) Key() string {
	if t.Const != nil {
		return "c:" + t.Const.ExactString()
	}
	if t.Obj != nil {
		pk := ""
		if t.Obj.Pkg() != nil {
			pk = t.Obj.Pkg().Path()
		}
		return "o:" + pk + "." + t.Obj.Name()
	}
	return "e:" + types.ExprString(t.Expr)
}

func evalCell(p *packages.Package, e ast.Expr) TabVal {
	e = ast.Unparen(e)
	tv := TabVal{Expr: e}
	if t, ok := p.TypesInfo.Types[e]; ok && t.Value != nil {
		tv.Const = t.Value
	}
	switch x := e.(type) {
	case *ast.Ident:
		tv.Obj = p.TypesInfo.Uses[x]
	case *ast.SelectorExpr:
		tv.Obj = p.TypesInfo.Uses[x.Sel]
	case *ast.CallExpr:
		// conversion of a constant: T(c)
		if len(x.Args) == 1 && tv.Const != nil {
			return tv
		}
	}
	return tv
}

// SwitchArm is one case clause of a switch over a value.
type SwitchArm struct {
	Cases   []TabVal
	Default bool
	Body    []ast.Stmt
	Pos     token.Pos
}

// SwitchesOn returns the arms of every switch statement in body whose tag
// denotes the object named tag (parameter, local or field selector "x.f").
func SwitchesOn(p *packages.Package, body ast.Node, tag string) [][]SwitchArm {
	var out [][]SwitchArm
	ast.Inspect(body, func(n ast.Node) bool {
		sw, ok := n.(*ast.SwitchStmt)
		if !ok || sw.Tag == nil {
			return true
		}
		if types.ExprString(ast.Unparen(sw.Tag)) != tag {
			return true
		}
		var arms []SwitchArm
		for _, s := range sw.Body.List {
			cc := s.(*ast.CaseClause)
			arm := SwitchArm{Default: cc.List == nil, Body: cc.Body, Pos: cc.Pos()}
			for _, e := range cc.List {
				arm.Cases = append(arm.Cases, evalCell(p, e))
			}
			arms = append(arms, arm)
		}
		out = append(out, arms)
		return true
	})
	return out
}

// AssignedIn finds `lhs = expr` (or :=) statements directly in stmts
// (not nested in inner blocks) and returns the evaluated right-hand sides.
func AssignedIn(p *packages.Package, stmts []ast.Stmt, lhs string) []TabVal {
	var out []TabVal
	for _, s := range stmts {
		as, ok := s.(*ast.AssignStmt)
		if !ok {
			continue
		}
		for i, l := range as.Lhs {
			if types.ExprString(l) == lhs && i < len(as.Rhs) {
				out = append(out, evalCell(p, as.Rhs[i]))
			}
		}
	}
	return out
}

// ReturnsIn lists the return statements directly in stmts.
func ReturnsIn(stmts []ast.Stmt) []*ast.ReturnStmt {
	var out []*ast.ReturnStmt
	for _, s := range stmts {
		if r, ok := s.(*ast.ReturnStmt); ok {
			out = append(out, r)
		}
	}
	return out
}

// VarRows returns the rows of a package-level composite literal (slice /
// array / map of structs or scalars): each row is the list of evaluated
// element expressions (for keyed struct literals in field order of the
// literal; for map entries key first).
func (w *World) VarRows(pkgPath, varName string) ([][]TabVal, *packages.Package, token.Pos) {
	p := w.Pkg(pkgPath)
	if p == nil {
		return nil, nil, token.NoPos
	}
	for _, f := range p.Syntax {
		for _, d := range f.Decls {
			gd, ok := d.(*ast.GenDecl)
			if !ok || gd.Tok != token.VAR {
				continue
			}
			for _, sp := range gd.Specs {
				vs := sp.(*ast.ValueSpec)
				for i, n := range vs.Names {
					if n.Name != varName || i >= len(vs.Values) {
						continue
					}
					cl, ok := ast.Unparen(vs.Values[i]).(*ast.CompositeLit)
					if !ok {
						return nil, p, n.Pos()
					}
					return litRows(p, cl), p, n.Pos()
				}
			}
		}
	}
	return nil, p, token.NoPos
}

func litRows(p *packages.Package, cl *ast.CompositeLit) [][]TabVal {
	var rows [][]TabVal
	for _, el := range cl.Elts {
		var row []TabVal
		if kv, ok := el.(*ast.KeyValueExpr); ok {
			row = append(row, evalCell(p, kv.Key))
			el = kv.Value
		}
		if inner, ok := ast.Unparen(el).(*ast.CompositeLit); ok && isStructLit(p, inner) {
			for _, fe := range inner.Elts {
				if kv, ok := fe.(*ast.KeyValueExpr); ok {
					row = append(row, evalCell(p, kv.Value))
				} else {
					row = append(row, evalCell(p, fe))
				}
			}
		} else {
			row = append(row, evalCell(p, el))
		}
		rows = append(rows, row)
	}
	return rows
}

func isStructLit(p *packages.Package, cl *ast.CompositeLit) bool {
	t, ok := p.TypesInfo.Types[cl]
	if !ok {
		return false
	}
	ty := types.Unalias(t.Type)
	if p, ok := ty.Underlying().(*types.Pointer); ok { // elided &T{...} elements of a []*T literal
		ty = types.Unalias(p.Elem())
	}
	_, isStruct := ty.Underlying().(*types.Struct)
	return isStruct
}

// OIDKey renders an asn1.ObjectIdentifier composite literal (or a variable
// initialised with one) as "1.2.840...."; "" if it cannot be resolved.
func (w *World) OIDKey(p *packages.Package, tv TabVal) string {
	var cl *ast.CompositeLit
	if c, ok := ast.Unparen(tv.Expr).(*ast.CompositeLit); ok {
		cl = c
	} else if v, ok := tv.Obj.(*types.Var); ok && v.Pkg() != nil {
		dp := w.byPath[v.Pkg().Path()]
		if dp == nil {
			return ""
		}
		for _, f := range dp.Syntax {
			for _, d := range f.Decls {
				gd, ok := d.(*ast.GenDecl)
				if !ok || gd.Tok != token.VAR {
					continue
				}
				for _, sp := range gd.Specs {
					vs := sp.(*ast.ValueSpec)
					for i, n := range vs.Names {
						if dp.TypesInfo.Defs[n] == tv.Obj && i < len(vs.Values) {
							if c, ok := ast.Unparen(vs.Values[i]).(*ast.CompositeLit); ok {
								cl = c
								p = dp
							}
						}
					}
				}
			}
		}
	}
	if cl == nil {
		return ""
	}
	var parts []string
	for _, e := range cl.Elts {
		t, ok := p.TypesInfo.Types[e]
		if !ok || t.Value == nil {
			return ""
		}
		parts = append(parts, t.Value.ExactString())
	}
	return strings.Join(parts, ".")
}
