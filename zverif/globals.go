package main

import (
	"go/ast"
	"go/constant"
	"go/token"
	"go/types"

	"golang.org/x/tools/go/ssa"
)

// VarInitConst: for a package-level variable whose declaration initialises
// it with a constant expression and which is never assigned anywhere else
// in its package, return that constant.
func (w *World) VarInitConst(obj types.Object) (constant.Value, bool) {
	v, ok := obj.(*types.Var)
	if !ok || v.Pkg() == nil || v.Parent() != v.Pkg().Scope() {
		return nil, false
	}
	p := w.byPath[v.Pkg().Path()]
	if p == nil {
		return nil, false
	}
	var val constant.Value
	for _, f := range p.Syntax {
		for _, d := range f.Decls {
			gd, ok := d.(*ast.GenDecl)
			if !ok || gd.Tok != token.VAR {
				continue
			}
			for _, sp := range gd.Specs {
				vs := sp.(*ast.ValueSpec)
				for i, n := range vs.Names {
					if p.TypesInfo.Defs[n] == obj && i < len(vs.Values) {
						if t, ok := p.TypesInfo.Types[vs.Values[i]]; ok && t.Value != nil {
							val = t.Value
						}
					}
				}
			}
		}
	}
	if val == nil {
		return nil, false
	}
	// never stored to outside the package initialiser
	sp := w.Prog.Package(v.Pkg())
	if sp == nil {
		return nil, false
	}
	g, ok := sp.Members[v.Name()].(*ssa.Global)
	if !ok {
		return nil, false
	}
	for fn := range w.AllFuncs() {
		if fn.Blocks == nil || !InModule(fn) {
			continue
		}
		for _, b := range fn.Blocks {
			for _, in := range b.Instrs {
				if st, ok := in.(*ssa.Store); ok && st.Addr == g && fn.Name() != "init" {
					return nil, false
				}
			}
		}
	}
	return val, true
}
