package main

// Two contradiction rules on local struct variables whose address does not escape (R-DEAD):
//  (a) lost write: a store into a field of the local that nothing can read afterwards (typical cause: a method that
//      was meant to update its receiver has a value receiver, so the update goes to a copy);
//  (b) decided branch: a branch tests a field of the local against a constant although the only store that can reach
//      the test put a constant there (typical cause: the field was moved into another variable and blanked, and the
//      guard still reads the field).
// Both are exact for non-escaping locals: every access is visible in the function.

import (
	"fmt"
	"go/token"
	"go/types"

	"golang.org/x/tools/go/ssa"
)

type localStruct struct {
	a       *ssa.Alloc
	fields  map[int][]*ssa.FieldAddr
	escapes bool
}

func localStructs(fn *ssa.Function) []*localStruct {
	var out []*localStruct
	for _, b := range fn.Blocks {
		for _, in := range b.Instrs {
			a, ok := in.(*ssa.Alloc)
			if !ok {
				continue
			}
			pt, ok := a.Type().Underlying().(*types.Pointer)
			if !ok {
				continue
			}
			if _, ok := pt.Elem().Underlying().(*types.Struct); !ok {
				continue
			}
			ls := &localStruct{a: a, fields: map[int][]*ssa.FieldAddr{}}
			for _, r := range *a.Referrers() {
				switch x := r.(type) {
				case *ssa.FieldAddr:
					ls.fields[x.Field] = append(ls.fields[x.Field], x)
					for _, rr := range *x.Referrers() {
						switch y := rr.(type) {
						case *ssa.Store:
							if y.Val == ssa.Value(x) {
								ls.escapes = true
							}
						case *ssa.UnOp, *ssa.DebugRef:
						default:
							// address of the field used otherwise (call argument, nested field, index ...)
							ls.escapes = true
						}
					}
				case *ssa.Store:
					if x.Val == ssa.Value(a) {
						ls.escapes = true
					}
				case *ssa.UnOp, *ssa.DebugRef:
				default:
					ls.escapes = true
				}
			}
			out = append(out, ls)
		}
	}
	return out
}

// instrReaches: control can flow from a (after it) to b.
func instrReaches(a, b ssa.Instruction) bool {
	if a.Block() == b.Block() && instrIndex(a) < instrIndex(b) {
		return true
	}
	for _, s := range a.Block().Succs {
		if s == b.Block() || blockReaches(s, b.Block()) {
			return true
		}
	}
	return false
}

type deadReport struct {
	In   ssa.Instruction
	What string
}

func lostWrites(fn *ssa.Function) []deadReport {
	var out []deadReport
	for _, ls := range localStructs(fn) {
		if ls.escapes {
			continue
		}
		// whole-struct reads
		var wholeReads []ssa.Instruction
		for _, r := range *ls.a.Referrers() {
			if u, ok := r.(*ssa.UnOp); ok && u.Op == token.MUL {
				wholeReads = append(wholeReads, u)
			}
		}
		for fi, fas := range ls.fields {
			for _, fa := range fas {
				for _, r := range *fa.Referrers() {
					st, ok := r.(*ssa.Store)
					if !ok || st.Addr != ssa.Value(fa) {
						continue
					}
					read := false
					for _, wr := range wholeReads {
						if instrReaches(st, wr) {
							read = true
						}
					}
					for _, fa2 := range ls.fields[fi] {
						for _, r2 := range *fa2.Referrers() {
							if u, ok := r2.(*ssa.UnOp); ok && u.Op == token.MUL && instrReaches(st, u) {
								read = true
							}
						}
					}
					if !read {
						name := fmt.Sprint(fi)
						if s, ok := ls.a.Type().Underlying().(*types.Pointer).Elem().Underlying().(*types.Struct); ok && fi < s.NumFields() {
							name = s.Field(fi).Name()
						}
						out = append(out, deadReport{st, fmt.Sprintf("the value stored into %s.%s is never read: the variable is a local copy", ls.a.Comment, name)})
					}
				}
			}
		}
	}
	return out
}

func decidedBranches(fn *ssa.Function) []deadReport {
	var out []deadReport
	for _, ls := range localStructs(fn) {
		if ls.escapes {
			continue
		}
		var wholeStores []ssa.Instruction
		for _, r := range *ls.a.Referrers() {
			if st, ok := r.(*ssa.Store); ok && st.Addr == ssa.Value(ls.a) {
				wholeStores = append(wholeStores, st)
			}
		}
		for fi, fas := range ls.fields {
			var stores []*ssa.Store
			for _, fa := range fas {
				for _, r := range *fa.Referrers() {
					if st, ok := r.(*ssa.Store); ok && st.Addr == ssa.Value(fa) {
						stores = append(stores, st)
					}
				}
			}
			for _, fa := range fas {
				for _, r := range *fa.Referrers() {
					ld, ok := r.(*ssa.UnOp)
					if !ok || ld.Op != token.MUL {
						continue
					}
					// the load feeds a comparison with a constant that decides a branch
					for _, r2 := range *ld.Referrers() {
						bo, ok := r2.(*ssa.BinOp)
						if !ok || bo.Op != token.EQL && bo.Op != token.NEQ {
							continue
						}
						var k *ssa.Const
						if kk, ok := bo.Y.(*ssa.Const); ok && bo.X == ssa.Value(ld) {
							k = kk
						} else if kk, ok := bo.X.(*ssa.Const); ok && bo.Y == ssa.Value(ld) {
							k = kk
						}
						if k == nil {
							continue
						}
						feedsIf := false
						for _, r3 := range *bo.Referrers() {
							if _, ok := r3.(*ssa.If); ok {
								feedsIf = true
							}
						}
						if !feedsIf {
							continue
						}
						// the unique reaching definition: a constant store S that dominates the load, every other
						// store to the field or the whole variable dominates S
						for _, s := range stores {
							sk, ok := s.Val.(*ssa.Const)
							if !ok || !instrDominates(s, ld) {
								continue
							}
							unique := true
							for _, o := range stores {
								if o != s && !instrDominates(o, s) {
									unique = false
								}
							}
							for _, o := range wholeStores {
								if !instrDominates(o, s) {
									unique = false
								}
							}
							if !unique {
								continue
							}
							name := fmt.Sprint(fi)
							if st, ok := ls.a.Type().Underlying().(*types.Pointer).Elem().Underlying().(*types.Struct); ok && fi < st.NumFields() {
								name = st.Field(fi).Name()
							}
							out = append(out, deadReport{bo, fmt.Sprintf("%s.%s is compared with %s although the only store reaching the test set it to %s: the branch is decided", ls.a.Comment, name, k.Name(), sk.Name())})
						}
					}
				}
			}
		}
	}
	return out
}

// DeadObligations: R-DEAD over a scope; one summary obligation plus one failure per report.
func (c *Ctx) DeadObligations(scope []*ssa.Function, what string) {
	w := c.W
	for _, fn := range scope {
		for i, r := range lostWrites(fn) {
			c.Fail("R-DEAD", short(FuncName(fn)), fmt.Sprintf("no update of a local struct is lost (#%d)", i+1), w.InstrPos(r.In), r.What)
		}
		for i, r := range decidedBranches(fn) {
			c.Fail("R-DEAD", short(FuncName(fn)), fmt.Sprintf("no guard tests a field that was just set to a constant (#%d)", i+1), w.InstrPos(r.In), r.What)
		}
		for i, r := range selfComparisons(fn) {
			c.Fail("R-DEAD", short(FuncName(fn)), fmt.Sprintf("no comparison has the same expression on both sides (#%d)", i+1), w.InstrPos(r.In), r.What)
		}
		for i, r := range crossAppends(fn) {
			c.Fail("R-DEAD", short(FuncName(fn)), fmt.Sprintf("no list field is rebuilt from a sibling field of the same object (#%d)", i+1), w.InstrPos(r.In), r.What)
		}
	}
	c.Sites++
	c.OK("R-DEAD", what, "searched for lost writes, decided guards, self-comparisons and cross-field appends", "-", fmt.Sprintf("%d functions", len(scope)))
}

// selfComparisons: a comparison whose two operands are the same expression (x != x, len(a.f) != len(a.f)) decides
// nothing; it is what a copy-and-paste slip in a field-by-field comparison leaves behind. Floating-point operands
// are exempt (x != x is the NaN test).
func selfComparisons(fn *ssa.Function) []deadReport {
	var out []deadReport
	for _, b := range fn.Blocks {
		for _, in := range b.Instrs {
			bo, ok := in.(*ssa.BinOp)
			if !ok {
				continue
			}
			switch bo.Op {
			case token.EQL, token.NEQ, token.LSS, token.LEQ, token.GTR, token.GEQ:
			default:
				continue
			}
			if _, isC := bo.X.(*ssa.Const); isC {
				continue
			}
			if bt, ok := bo.X.Type().Underlying().(*types.Basic); ok && bt.Info()&(types.IsFloat|types.IsComplex) != 0 {
				continue
			}
			ex, ey := Expr(bo.X), Expr(bo.Y)
			if ex != ey || ex == "" {
				continue
			}
			// two reads of the same location with a write in between are different values: require both operands to be
			// computed in the block of the comparison with no store or call between them
			if !pureBetween(bo.X, bo.Y, bo) {
				continue
			}
			out = append(out, deadReport{bo, "both operands are " + ex})
		}
	}
	return out
}

func pureBetween(x, y ssa.Value, at *ssa.BinOp) bool {
	xi, ok1 := x.(ssa.Instruction)
	yi, ok2 := y.(ssa.Instruction)
	if !ok1 || !ok2 {
		return x == y
	}
	if xi.Block() != at.Block() || yi.Block() != at.Block() {
		return false
	}
	lo, hi := instrIndex(xi), instrIndex(yi)
	if lo > hi {
		lo, hi = hi, lo
	}
	for _, in := range at.Block().Instrs[lo:hi] {
		switch t := in.(type) {
		case *ssa.Store, *ssa.MapUpdate, *ssa.Send:
			return false
		case *ssa.Call:
			if _, isB := t.Call.Value.(*ssa.Builtin); !isB {
				return false
			}
		}
	}
	return true
}

// crossAppends: x.F = append(x.G, ...) (directly or through an in-module helper that appends to its first parameter)
// with F != G on the same object: the elements of one list end up in another.
func crossAppends(fn *ssa.Function) []deadReport {
	var out []deadReport
	for _, b := range fn.Blocks {
		for _, in := range b.Instrs {
			st, ok := in.(*ssa.Store)
			if !ok {
				continue
			}
			dst, ok := st.Addr.(*ssa.FieldAddr)
			if !ok {
				continue
			}
			cl, ok := st.Val.(*ssa.Call)
			if !ok || len(cl.Call.Args) == 0 {
				continue
			}
			appendLike := false
			if bi, ok := cl.Call.Value.(*ssa.Builtin); ok && bi.Name() == "append" {
				appendLike = true
			} else if f := cl.Call.StaticCallee(); f != nil && InModule(f) && len(f.Params) > 0 && appendsToParam0(f) {
				appendLike = true
			}
			if !appendLike {
				continue
			}
			src := cl.Call.Args[0]
			if sl, ok := src.(*ssa.Slice); ok {
				src = sl.X
			}
			u, ok := src.(*ssa.UnOp)
			if !ok || u.Op != token.MUL {
				continue
			}
			sfa, ok := u.X.(*ssa.FieldAddr)
			if !ok || Expr(sfa.X) != Expr(dst.X) || sfa.Field == dst.Field {
				continue
			}
			if typeStr(sfa.Type()) != typeStr(dst.Type()) {
				continue
			}
			out = append(out, deadReport{st, fmt.Sprintf("%s receives append(%s, ...)", fieldName(dst), fieldName(sfa))})
		}
	}
	return out
}

// appendsToParam0: every result-0 value of f is its first parameter with elements appended (or the parameter itself).
func appendsToParam0(f *ssa.Function) bool {
	if len(f.Blocks) == 0 || f.Signature.Results().Len() != 1 {
		return false
	}
	p := f.Params[0]
	ok := false
	for _, b := range f.Blocks {
		rt, isRt := b.Instrs[len(b.Instrs)-1].(*ssa.Return)
		if !isRt {
			continue
		}
		seen := backClosure(rt.Results[0], nil)
		if !seen[p] {
			return false
		}
		for v := range seen {
			if cl, isC := v.(*ssa.Call); isC {
				if bi, isB := cl.Call.Value.(*ssa.Builtin); isB && bi.Name() == "append" {
					ok = true
				}
			}
		}
	}
	return ok
}
