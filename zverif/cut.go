package main

import (
	"fmt"
	"go/token"
	"sort"
	"strings"

	"golang.org/x/tools/go/ssa"
)

// CutSpec is one R-CUT obligation: in Fn, no path from the start (function
// entry, or the far end of every edge matching Start) reaches a Target
// instruction without traversing an edge that carries a fact matching Cut.
type CutSpec struct {
	Rule   string
	Label  string
	Fn     *ssa.Function
	Start  FP // nil: function entry
	// StartAfter: begin right after this instruction instead (overrides Start).
	StartAfter ssa.Instruction
	// StartEdges: begin at the far end of these specific CFG edges.
	StartEdges []EdgeRef
	Cut    FP
	Target func(in ssa.Instruction, res resolver) bool
	// Barrier instructions end a path (e.g. the target is only of interest
	// before some re-assignment). Optional.
	Barrier func(in ssa.Instruction) bool
	// MinTargets: the number of target instructions that must exist in Fn
	// (statically, ignoring paths); fewer means the anchor disappeared.
	MinTargets int
	// Track: extra values whose phis the path search resolves per path
	// (phis feeding branch conditions and return operands always are).
	Track []ssa.Value
	// Event counting (R-ONCE): EventInstr / EventEdge mark "events" along a
	// path; a path on which more than MaxEvents events occur is a violation
	// (reported at the offending instruction / phi). EventEdge is asked for
	// every phi assignment performed by a taken CFG edge.
	EventInstr func(in ssa.Instruction, res resolver) bool
	EventEdge  func(phi *ssa.Phi, incoming ssa.Value) bool
	MaxEvents  int
	// Assume: facts (nil/nonnil/true/false about SSA values) taken to hold
	// at the start of the search; they are pinned like edge facts.
	Assume []Fact
}

// curPins exposes the pinned facts of the state being examined to Target
// functions (a returned value pinned non-nil is not a success return).
var curPins string

func pinnedAs(v ssa.Value, op string) bool {
	if curPins == "" || v == nil {
		return false
	}
	if _, isC := v.(*ssa.Const); isC {
		return false
	}
	return strings.Contains(";"+curPins+";", ";"+v.Name()+"="+op+";")
}

// EdgeRef names the edge from block B to its successor number Succ; Pins
// carries facts already known to hold when the edge is taken.
type EdgeRef struct {
	B     *ssa.BasicBlock
	Succ  int
	Known []Fact
}

type cutState struct {
	b      *ssa.BasicBlock
	env    string
	envMap map[*ssa.Phi]ssa.Value
	parent *cutState
	from   int // index of the first instruction to process in b
	// pins: nil-ness of parameters established by an edge taken earlier on
	// this path. Parameters are never reassigned in SSA, so the fact holds
	// for the rest of the path.
	pins   string
	events int
}

// pinOf: if the facts of an edge fix the nil-ness of a parameter, return
// "name=nil" / "name=nonnil".
func pinsOf(fs []Fact) []string {
	var out []string
	for _, f := range fs {
		if pinnable(f) {
			out = append(out, f.X.Name()+"="+f.Op)
		}
	}
	return out
}

// pinnableVals is set per search: SSA values (besides parameters) whose
// nil-ness / truth is tested by at least two different branches of the
// function. A fact about such a value stays true along a path until the
// instruction defining the value executes again (see dropPins).
var pinnableVals map[ssa.Value]bool

func pinnable(f Fact) bool {
	switch f.Op {
	case "nil", "nonnil", "true", "false":
	default:
		return false
	}
	if _, ok := f.X.(*ssa.Parameter); ok {
		return f.Op == "nil" || f.Op == "nonnil"
	}
	return pinnableVals[f.X]
}

func testedTwice(fn *ssa.Function) map[ssa.Value]bool {
	cnt := map[ssa.Value]int{}
	for _, b := range fn.Blocks {
		if ifi, ok := b.Instrs[len(b.Instrs)-1].(*ssa.If); ok {
			for _, f := range condFacts(ifi.Cond, true, idRes) {
				switch f.Op {
				case "nil", "nonnil", "true", "false":
					if _, isC := f.X.(*ssa.Const); !isC {
						if _, isPhi := f.X.(*ssa.Phi); !isPhi { // phis are handled by the environment
							cnt[f.X]++
						}
					}
				}
			}
		}
	}
	out := map[ssa.Value]bool{}
	for v, n := range cnt {
		if n >= 2 {
			out[v] = true
		}
	}
	return out
}

// dropPins forgets facts about values (re)defined in block b.
func dropPins(pins string, b *ssa.BasicBlock) string {
	if pins == "" {
		return pins
	}
	parts := strings.Split(pins, ";")
	var keep []string
	for _, p := range parts {
		name := p[:strings.Index(p, "=")]
		redefined := false
		for _, in := range b.Instrs {
			if v, ok := in.(ssa.Value); ok && v.Name() == name {
				redefined = true // parameters are not instructions and never match
			}
		}
		if !redefined {
			keep = append(keep, p)
		}
	}
	return strings.Join(keep, ";")
}

func addPins(old string, add []string) string {
	for _, a := range add {
		if !strings.Contains(";"+old+";", ";"+a+";") {
			if old == "" {
				old = a
			} else {
				parts := append(strings.Split(old, ";"), a)
				sort.Strings(parts)
				old = strings.Join(parts, ";")
			}
		}
	}
	return old
}

// pinContradicts: an edge whose facts contradict a pinned parameter fact is infeasible.
func pinContradicts(pins string, fs []Fact) bool {
	if pins == "" {
		return false
	}
	for _, f := range fs {
		if pinnable(f) {
			if strings.Contains(";"+pins+";", ";"+f.X.Name()+"="+negOp[f.Op]+";") {
				return true
			}
		}
	}
	return false
}

type CutResult struct {
	Violated bool
	Path     []*ssa.BasicBlock
	At       ssa.Instruction
	States   int
	Targets  int // static count of target instructions (identity resolver)
	Capped   bool
	Starts   int // number of start states (edges matching Start)
}

const cutStateCap = 400000

func valKey(v ssa.Value) string {
	if c, ok := v.(*ssa.Const); ok {
		return c.String()
	}
	return v.Name()
}

// trackedPhis: phis feeding branch conditions or return operands.
func trackedPhis(fn *ssa.Function, extra []ssa.Value) map[*ssa.Phi]bool {
	tr := map[*ssa.Phi]bool{}
	var visit func(v ssa.Value, depth int)
	visit = func(v ssa.Value, depth int) {
		if depth > 8 {
			return
		}
		switch x := v.(type) {
		case *ssa.Phi:
			if tr[x] {
				return
			}
			tr[x] = true
			for _, e := range x.Edges {
				visit(e, depth+1)
			}
		case *ssa.UnOp:
			if x.Op == token.NOT {
				visit(x.X, depth+1)
			}
		case *ssa.BinOp:
			if tokOp(x.Op) != "" {
				visit(x.X, depth+1)
				visit(x.Y, depth+1)
			}
		case *ssa.ChangeInterface:
			visit(x.X, depth+1)
		}
	}
	for _, e := range extra {
		visit(e, 0)
	}
	for _, b := range fn.Blocks {
		if len(b.Instrs) == 0 {
			continue
		}
		switch t := b.Instrs[len(b.Instrs)-1].(type) {
		case *ssa.If:
			visit(t.Cond, 0)
		case *ssa.Return:
			for _, r := range t.Results {
				visit(r, 0)
			}
		}
	}
	return tr
}

func envKey(env map[*ssa.Phi]ssa.Value) string {
	if len(env) == 0 {
		return ""
	}
	keys := make([]string, 0, len(env))
	for p, v := range env {
		keys = append(keys, p.Name()+"="+valKey(v))
	}
	sort.Strings(keys)
	return strings.Join(keys, ",")
}

func predIndex(b, pred *ssa.BasicBlock, nth int) int {
	// the nth occurrence of pred among b.Preds (duplicate edges exist when
	// both successors of an If are the same block)
	k := 0
	for i, p := range b.Preds {
		if p == pred {
			if k == nth {
				return i
			}
			k++
		}
	}
	return -1
}

// enter computes the environment after taking the edge from -> to.
func enter(tr map[*ssa.Phi]bool, env map[*ssa.Phi]ssa.Value, from, to *ssa.BasicBlock, succIdx int) map[*ssa.Phi]ssa.Value {
	nth := 0
	for i := 0; i < succIdx; i++ {
		if from.Succs[i] == to {
			nth++
		}
	}
	pi := predIndex(to, from, nth)
	var out map[*ssa.Phi]ssa.Value
	for _, in := range to.Instrs {
		phi, ok := in.(*ssa.Phi)
		if !ok {
			break
		}
		if !tr[phi] || pi < 0 {
			continue
		}
		v := phi.Edges[pi]
		if p2, ok := v.(*ssa.Phi); ok {
			if r, ok := env[p2]; ok {
				v = r
			}
		}
		if out == nil {
			out = make(map[*ssa.Phi]ssa.Value, len(env)+1)
			for k, x := range env {
				out[k] = x
			}
		}
		out[phi] = v
	}
	if out == nil {
		return env
	}
	return out
}

func (s *cutState) res(v ssa.Value) ssa.Value {
	if p, ok := v.(*ssa.Phi); ok {
		if r, ok := s.envMap[p]; ok {
			return r
		}
	}
	return v
}

// RunCut performs the search.
// staticCount: RunCut is counting the instructions that can be targets at all (anchor check), not searching paths.
var staticCount bool

func RunCut(sp0 *CutSpec) CutResult {
	// the cut predicate also accepts facts implied by the outcome of in-module helpers (implied.go)
	spc := *sp0
	sp := &spc
	savedActive, savedBase := activeCut, activeBase
	activeBase = sp.Cut
	sp.Cut = expandFP(sp.Cut)
	activeCut = sp.Cut
	defer func() { activeCut, activeBase = savedActive, savedBase }()
	fn := sp.Fn
	var r CutResult
	if fn == nil || len(fn.Blocks) == 0 {
		return r
	}
	staticCount = true
	defer func() { staticCount = false }()
	for _, b := range fn.Blocks {
		for _, in := range b.Instrs {
			if sp.Target != nil && sp.Target(in, idRes) {
				r.Targets++
			}
			if sp.EventInstr != nil && sp.EventInstr(in, idRes) {
				r.Targets++
			}
		}
		if sp.EventEdge != nil {
			for _, in := range b.Instrs {
				if phi, ok := in.(*ssa.Phi); ok {
					for _, e := range phi.Edges {
						if sp.EventEdge(phi, e) {
							r.Targets++
						}
					}
				}
			}
		}
	}
	staticCount = false
	tr := trackedPhis(fn, sp.Track)
	pinnableVals = testedTwice(fn)
	for _, f := range sp.Assume {
		pinnableVals[f.X] = true
	}
	startPins := addPins("", pinsOf(sp.Assume))
	seen := map[string]bool{}
	var queue []*cutState
	// Prune: a state in a block from which no (statically possible) target
	// instruction is reachable cannot contribute a violation. The static
	// test uses the identity resolver, which over-approximates the
	// return-style targets; specs whose targets depend on the path
	// (MinTargets < 0) and event-counting specs are not pruned.
	var canReach map[*ssa.BasicBlock]bool
	if sp.Target != nil && sp.MinTargets >= 0 && sp.EventInstr == nil && sp.EventEdge == nil {
		canReach = map[*ssa.BasicBlock]bool{}
		var work []*ssa.BasicBlock
		for _, b := range fn.Blocks {
			for _, in := range b.Instrs {
				if sp.Target(in, idRes) {
					if !canReach[b] {
						canReach[b] = true
						work = append(work, b)
					}
					break
				}
			}
		}
		for len(work) > 0 {
			b := work[len(work)-1]
			work = work[:len(work)-1]
			for _, p := range b.Preds {
				if !canReach[p] {
					canReach[p] = true
					work = append(work, p)
				}
			}
		}
	}
	push := func(st *cutState) {
		if canReach != nil && !canReach[st.b] {
			return
		}
		k := fmt.Sprint(st.b.Index, "|", st.events) + "|" + st.env + "|" + st.pins
		if seen[k] {
			return
		}
		seen[k] = true
		queue = append(queue, st)
	}
	if sp.StartAfter != nil {
		sb := sp.StartAfter.Block()
		for i, in := range sb.Instrs {
			if in == sp.StartAfter {
				queue = append(queue, &cutState{b: sb, from: i + 1, env: "start", pins: startPins})
			}
		}
	} else if len(sp.StartEdges) > 0 {
		for _, e := range sp.StartEdges {
			var fs []Fact
			if ifi, ok := e.B.Instrs[len(e.B.Instrs)-1].(*ssa.If); ok {
				fs = condFacts(ifi.Cond, e.Succ == 0, idRes)
			}
			em := enter(tr, nil, e.B, e.B.Succs[e.Succ], e.Succ)
			r.Starts++
			push(&cutState{b: e.B.Succs[e.Succ], envMap: em, env: envKey(em), parent: &cutState{b: e.B}, pins: dropPins(addPins(addPins("", pinsOf(e.Known)), pinsOf(fs)), e.B.Succs[e.Succ])})
		}
	} else if sp.Start == nil {
		push(&cutState{b: fn.Blocks[0]})
	} else {
		for _, b := range fn.Blocks {
			ifi, ok := b.Instrs[len(b.Instrs)-1].(*ssa.If)
			if !ok {
				continue
			}
			for si := 0; si < 2; si++ {
				if fs := condFacts(ifi.Cond, si == 0, idRes); anyFact(fs, sp.Start) {
					em := enter(tr, nil, b, b.Succs[si], si)
					r.Starts++
					push(&cutState{b: b.Succs[si], envMap: em, env: envKey(em), parent: &cutState{b: b}, pins: addPins("", pinsOf(fs))})
				}
			}
		}
	}
	for qi := 0; qi < len(queue); qi++ {
		st := queue[qi]
		r.States++
		if r.States > cutStateCap {
			r.Capped = true
			return r
		}
		stopped := false
		ev := st.events
		violate := func(at ssa.Instruction) CutResult {
			r.Violated = true
			r.At = at
			for p := st; p != nil; p = p.parent {
				r.Path = append([]*ssa.BasicBlock{p.b}, r.Path...)
			}
			return r
		}
		for _, in := range st.b.Instrs[st.from:] {
			curPins = st.pins
			if sp.Target != nil && sp.Target(in, st.res) {
				return violate(in)
			}
			if sp.EventInstr != nil && sp.EventInstr(in, st.res) {
				ev++
				if ev > sp.MaxEvents {
					return violate(in)
				}
			}
			if sp.Barrier != nil && sp.Barrier(in) {
				stopped = true
				break
			}
		}
		if stopped {
			continue
		}
		// take one CFG edge
		take := func(si int, pins string) *CutResult {
			succ := st.b.Succs[si]
			e2 := ev
			if sp.EventEdge != nil {
				nth := 0
				for i := 0; i < si; i++ {
					if st.b.Succs[i] == succ {
						nth++
					}
				}
				if pi := predIndex(succ, st.b, nth); pi >= 0 {
					for _, in := range succ.Instrs {
						phi, ok := in.(*ssa.Phi)
						if !ok {
							break
						}
						if sp.EventEdge(phi, phi.Edges[pi]) {
							e2++
							if e2 > sp.MaxEvents {
								res := violate(phi)
								res.Path = append(res.Path, succ)
								return &res
							}
						}
					}
				}
			}
			em := enter(tr, st.envMap, st.b, succ, si)
			push(&cutState{b: succ, envMap: em, env: envKey(em), parent: st, pins: dropPins(pins, succ), events: e2})
			return nil
		}
		last := st.b.Instrs[len(st.b.Instrs)-1]
		switch t := last.(type) {
		case *ssa.If:
			val, known := evalCond(t.Cond, st.res)
			for si := 0; si < 2; si++ {
				if known && val != (si == 0) {
					continue
				}
				fs := condFacts(t.Cond, si == 0, st.res)
				if pinContradicts(st.pins, fs) {
					continue
				}
				if sp.Cut != nil && anyFact(fs, sp.Cut) {
					continue
				}
				if res := take(si, addPins(st.pins, pinsOf(fs))); res != nil {
					return *res
				}
			}
		case *ssa.Jump:
			if res := take(0, st.pins); res != nil {
				return *res
			}
		}
	}
	return r
}

// pathString renders a violating path as source positions.
func (w *World) pathString(path []*ssa.BasicBlock, at ssa.Instruction) string {
	var parts []string
	lastLine := ""
	for _, b := range path {
		p := "-"
		for _, in := range b.Instrs {
			if in.Pos().IsValid() {
				p = w.Pos(in.Pos())
				break
			}
		}
		s := fmt.Sprintf("b%d(%s)", b.Index, p)
		if s != lastLine {
			parts = append(parts, s)
		}
		lastLine = s
	}
	if len(parts) > 24 {
		parts = append(parts[:10], append([]string{"..."}, parts[len(parts)-12:]...)...)
	}
	return strings.Join(parts, " -> ") + " => " + w.InstrPos(at)
}

// Cut runs an R-CUT obligation and records it.
func (c *Ctx) Cut(sp CutSpec) {
	rule := sp.Rule
	if rule == "" {
		rule = "R-CUT"
	}
	if sp.Fn == nil {
		c.Undecided(rule, "?", sp.Label, "-", "anchor function not found")
		return
	}
	name := FuncName(sp.Fn)
	r := RunCut(&sp)
	pos := c.W.Pos(sp.Fn.Pos())
	min := sp.MinTargets
	if min == 0 {
		min = 1
	}
	if min < 0 {
		min = 0
	}
	lostStart := sp.Start != nil && sp.StartAfter == nil && r.Starts == 0
	if (lostStart || (!r.Capped && r.Targets >= min && r.Violated)) && sp.StartAfter == nil && len(sp.StartEdges) == 0 && sp.EventInstr == nil && sp.EventEdge == nil {
		if h, ok := cutThroughHelper(sp); ok {
			c.add("discharged", rule, name, sp.Label, pos, "holds inside the helper "+h+" (parameters read as the arguments), and the function reaches its targets only past the helper's acceptance", r.States)
			return
		}
	}
	switch {
	case lostStart:
		c.add("violated", rule, name, sp.Label, pos, "anchor lost: no branch edge in the function carries the start condition", r.States)
	case r.Capped:
		o := c.add("undecided", rule, name, sp.Label, pos, "state cap exceeded", r.States)
		_ = o
	case r.Targets < min:
		c.add("violated", rule, name, sp.Label, pos, fmt.Sprintf("anchor lost: %d target instruction(s) found in function, expected >= %d", r.Targets, min), r.States)
	case r.Violated:
		c.add("violated", rule, name, sp.Label, c.W.InstrPos(r.At),
			"unguarded path: "+c.W.pathString(r.Path, r.At), r.States)
	default:
		c.add("discharged", rule, name, sp.Label, pos, fmt.Sprintf("%d target(s) unreachable without the guard edge", r.Targets), r.States)
	}
}

// ---------------------------------------------------------------------
// common targets

// SuccessReturn: a return whose result idx may be nil (error success),
// unless the returned value is itself one whose nil-ness is the guard.
func SuccessReturn(idx int, guard FP) func(ssa.Instruction, resolver) bool {
	return func(in ssa.Instruction, res resolver) bool {
		rt, ok := in.(*ssa.Return)
		if !ok || idx >= len(rt.Results) {
			return false
		}
		v := res(unspill(rt, idx))
		if isNilConst(v) {
			return true
		}
		if definitelyNonNil(v) || pinnedAs(v, "nonnil") {
			return false
		}
		if passThroughCut(v, "nil", guard) {
			return false
		}
		// the returned value being nil is itself a fact: if the rule's cut accepts it, the return is behind the cut
		g := guard
		if g == nil && !staticCount {
			g = activeCut
		}
		if g != nil && g(Fact{Op: "nil", X: v}) {
			return false
		}
		if anyFact(domFacts(rt.Block()), func(f Fact) bool { return f.Op == "nonnil" && f.X == v }) {
			return false
		}
		return true
	}
}

// TrueReturn: a return whose boolean result idx may be true.
func TrueReturn(idx int, guard FP) func(ssa.Instruction, resolver) bool {
	return func(in ssa.Instruction, res resolver) bool {
		rt, ok := in.(*ssa.Return)
		if !ok || idx >= len(rt.Results) {
			return false
		}
		v := res(unspill(rt, idx))
		if b, ok := boolConst(v); ok {
			return b
		}
		if pinnedAs(v, "false") {
			return false
		}
		if passThroughCut(v, "true", guard) {
			return false
		}
		g := guard
		if g == nil && !staticCount {
			g = activeCut
		}
		if g != nil {
			// returning the value of a test is passing that test when the result is true
			for _, f := range condFacts(v, true, res) {
				if g(f) {
					return false
				}
			}
		}
		return true
	}
}

// FalseReturn: a return whose boolean result idx may be false.
func FalseReturn(idx int) func(ssa.Instruction, resolver) bool {
	return func(in ssa.Instruction, res resolver) bool {
		rt, ok := in.(*ssa.Return)
		if !ok || idx >= len(rt.Results) {
			return false
		}
		v := res(unspill(rt, idx))
		if b, ok := boolConst(v); ok {
			return !b
		}
		if pinnedAs(v, "true") {
			return false
		}
		if !staticCount && activeCut != nil {
			// returning the value of a test is failing that test when the result is false
			for _, f := range condFacts(v, false, res) {
				if activeCut(f) {
					return false
				}
			}
		}
		return true
	}
}

// NonNilReturn: a return whose result idx may be non-nil.
func NonNilReturn(idx int, guard FP) func(ssa.Instruction, resolver) bool {
	return func(in ssa.Instruction, res resolver) bool {
		rt, ok := in.(*ssa.Return)
		if !ok || idx >= len(rt.Results) {
			return false
		}
		v := res(unspill(rt, idx))
		if isNilConst(v) {
			return false
		}
		if guard != nil && guard(Fact{Op: "nonnil", X: v}) {
			return false
		}
		return true
	}
}

// StoreToField: a store through a FieldAddr of field "T.f" (optionally
// filtered by the stored value).
func StoreToField(field string, val func(ssa.Value, resolver) bool) func(ssa.Instruction, resolver) bool {
	return func(in ssa.Instruction, res resolver) bool {
		st, ok := in.(*ssa.Store)
		if !ok {
			return false
		}
		fa, ok := st.Addr.(*ssa.FieldAddr)
		if !ok || !nameIn(fieldName(fa), []string{field}) {
			return false
		}
		return val == nil || val(st.Val, res)
	}
}

// CallTo: any call/go/defer whose callee is one of names.
func CallTo(names ...string) func(ssa.Instruction, resolver) bool {
	return func(in ssa.Instruction, res resolver) bool {
		cc := callCommon(in)
		return cc != nil && nameIn(calleeName(cc), names)
	}
}

func AnyT(ts ...func(ssa.Instruction, resolver) bool) func(ssa.Instruction, resolver) bool {
	return func(in ssa.Instruction, res resolver) bool {
		for _, t := range ts {
			if t(in, res) {
				return true
			}
		}
		return false
	}
}
