package main

import (
	"fmt"
	"go/token"
	"sort"
	"strings"

	"golang.org/x/tools/go/ssa"
)

const pkCB = "z/cryptobyte"

func init() {
	register(&propDef{
		ID: "C21",
		Explain: "R-STATE (R-ONCE): each optional-element reader advances its receiver by at most one element-reading call on every path, none after the tag-absent edge, and parses inner values from the child string; " +
			"PeekASN1Tag and ReadASN1 compare the whole identifier octet with the tag (no masking), so presence test and read agree. R-LAYOUT: AddUintN writes byte i as v>>8(n-1-i) and ReadUintN rebuilds v from byte i << 8(n-1-i) with the same n; " +
			"AddUintNLengthPrefixed/ReadUintNLengthPrefixed use the same prefix width; each AddASN1X uses the tag constant its ReadASN1X expects. R-VSET (thresholds): flushChild selects the long-form length of n octets exactly for " +
			"2^(8(n-1)) <= length < 2^(8n) (short form below 128), the partition readASN1's minimal-length test accepts.",
		NotCov: "Value equality of arbitrary builder/reader sequences; flushChild's back-patching copy; BuilderContinuation error propagation.",
		Floor:  30,
		Run:    runC21,
	})
}

func cbFn(name string) string { return "(*" + pkCB + ".String)." + name }
func cbBuild(name string) string { return "(*" + pkCB + ".Builder)." + name }

func runC21(c *Ctx) {
	w := c.W
	timeZoneRules(c)
	c21Extras(c)
	bigIntCopyRule(c, "cryptobyte/asn1.go", "cryptobyte/builder.go", "cryptobyte/string.go")
	// ---- optional readers: at most one consuming call on the receiver
	consuming := map[string]bool{}
	for _, n := range []string{"read", "Skip", "ReadUint8", "ReadUint16", "ReadUint24", "ReadUint32", "readUnsigned", "readLengthPrefixed", "ReadUint8LengthPrefixed", "ReadUint16LengthPrefixed",
		"ReadUint24LengthPrefixed", "ReadBytes", "CopyBytes", "ReadASN1Boolean", "ReadASN1Integer", "readASN1BigInt", "readASN1Int64", "readASN1Uint64", "ReadASN1Int64WithTag", "ReadASN1Enum", "readBase128Int",
		"ReadASN1ObjectIdentifier", "ReadASN1GeneralizedTime", "ReadASN1BitString", "ReadASN1BitStringAsBytes", "ReadASN1Bytes", "ReadASN1", "ReadASN1Element", "ReadAnyASN1", "ReadAnyASN1Element", "SkipASN1",
		"ReadOptionalASN1", "SkipOptionalASN1", "ReadOptionalASN1Integer", "ReadOptionalASN1OctetString", "ReadOptionalASN1Boolean", "readASN1", "ReadASN1UTCTime"} {
		consuming[expand(cbFn(n))] = true
	}
	// every pointer-receiver method of String is classified: a method consumes if it stores through its receiver
	// or calls a consuming method on it (least fixpoint); the listed names must all come out consuming, and a
	// method that is not listed must be derived non-consuming (a pure look-ahead helper) or it is reported
	derived := map[string]bool{}
	var methods []*ssa.Function
	for _, fn := range w.FuncsOfPkg(pkCB) {
		if fn.Signature.Recv() != nil && strings.HasPrefix(FuncName(fn), "(*"+expand(pkCB)+".String).") && fn.Parent() == nil && len(fn.Params) > 0 {
			methods = append(methods, fn)
		}
	}
	for changed := true; changed; {
		changed = false
		for _, fn := range methods {
			if derived[FuncName(fn)] {
				continue
			}
			recv := fn.Params[0]
			for _, b := range fn.Blocks {
				for _, in := range b.Instrs {
					if st, ok := in.(*ssa.Store); ok && st.Addr == ssa.Value(recv) {
						derived[FuncName(fn)] = true
					}
					if cc := callCommon(in); cc != nil && len(cc.Args) > 0 && cc.Args[0] == ssa.Value(recv) && derived[calleeName(cc)] {
						derived[FuncName(fn)] = true
					}
				}
			}
			if derived[FuncName(fn)] {
				changed = true
			}
		}
	}
	for _, fn := range methods {
		n := FuncName(fn)
		c.Check(!consuming[n] || derived[n], "R-STATE", n, "pointer-receiver String method is classified (every listed consuming method can advance its receiver; unlisted ones are classified by derivation)", w.Pos(fn.Pos()), fmt.Sprintf("listed=%v derived=%v", consuming[n], derived[n]))
		if derived[n] {
			consuming[n] = true
		}
	}
	isConsumeOnS := func(in ssa.Instruction, _ resolver) bool {
		cc := callCommon(in)
		if cc == nil || len(cc.Args) == 0 {
			return false
		}
		return consuming[calleeName(cc)] && Param("s")(cc.Args[0])
	}
	peekAbsent := IsFalse(func(v ssa.Value) bool {
		cl := callOf(v)
		return cl != nil && nameIn(calleeName(&cl.Call), []string{"(" + pkCB + ".String).PeekASN1Tag"}) && Expr(cl.Call.Args[0]) == "s"
	})
	for _, n := range []string{"ReadOptionalASN1", "SkipOptionalASN1", "ReadOptionalASN1Integer", "ReadOptionalASN1OctetString", "ReadOptionalASN1Boolean"} {
		fn := w.Fn(cbFn(n))
		if fn == nil {
			c.Undecided("R-STATE", cbFn(n), "anchor", "-", "not found")
			continue
		}
		c.Sites++
		c.Cut(CutSpec{Rule: "R-STATE", Fn: fn, Label: "the receiver is advanced by at most one element-reading call on every path", EventInstr: isConsumeOnS, MaxEvents: 1, MinTargets: 1})
		// whatever consumes on s is gated by the presence test (directly, or inside ReadOptionalASN1)
		for _, b := range fn.Blocks {
			for _, in := range b.Instrs {
				if !isConsumeOnS(in, nil) {
					continue
				}
				cn := calleeName(callCommon(in))
				if cn == expand(cbFn("ReadOptionalASN1")) {
					continue // gated inside
				}
				c.Cut(CutSpec{Rule: "R-STATE", Fn: fn, Label: "an element is read from the receiver only after its tag was seen [" + short(cn) + "]", Target: isInstr(in),
					Cut: IsTrue(func(v ssa.Value) bool {
						cl := callOf(v)
						return cl != nil && nameIn(calleeName(&cl.Call), []string{"(" + pkCB + ".String).PeekASN1Tag"})
					})})
				// the tag read is the tag peeked
				pk := callsIn(fn, "("+pkCB+".String).PeekASN1Tag")
				if len(pk) == 1 {
					pt := callCommon(pk[0]).Args[1]
					cc := callCommon(in)
					var rt ssa.Value
					if cn == expand(cbFn("ReadASN1")) {
						rt = cc.Args[2]
					}
					if rt != nil {
						c.Check(Expr(rt) == Expr(pt), "R-STATE", FuncName(fn), "the tag read equals the tag peeked", w.InstrPos(in), Expr(rt)+" vs "+Expr(pt))
					}
				}
			}
		}
		// inner parsing never touches the receiver: calls that parse the element's content use a local
		for _, b := range fn.Blocks {
			for _, in := range b.Instrs {
				cc := callCommon(in)
				if cc == nil || len(cc.Args) == 0 || !consuming[calleeName(cc)] || Param("s")(cc.Args[0]) {
					continue
				}
				_, isLocal := cc.Args[0].(*ssa.Alloc)
				c.Check(isLocal, "R-STATE", FuncName(fn), "inner values are parsed from the child string", w.InstrPos(in), Expr(cc.Args[0]))
			}
		}
	}
	_ = peekAbsent

	// ---- Peek / Read agreement on the identifier octet
	if f := w.Fn("(" + pkCB + ".String).PeekASN1Tag"); f == nil {
		c.Undecided("R-TABLE", "PeekASN1Tag", "anchor", "-", "not found")
	} else {
		ok, n := true, 0
		det := ""
		for v := range returnClosure(f, 0) {
			if _, isC := boolConst(v); isC {
				continue
			}
			if _, isPhi := v.(*ssa.Phi); isPhi {
				continue
			}
			n++
			det = Expr(v)
			if det != "(s[0]==tag)" { // asn1.Tag is a uint8; the conversion is the identity
				ok = false
			}
		}
		c.Check(ok && n == 1, "R-TABLE", "(cryptobyte.String).PeekASN1Tag", "presence test compares the whole identifier octet with the tag", w.Pos(f.Pos()), det)
	}
	if f := w.Fn(cbFn("ReadASN1")); f == nil {
		c.Undecided("R-TABLE", cbFn("ReadASN1"), "anchor", "-", "not found")
	} else {
		c.Cut(CutSpec{Rule: "R-TABLE", Fn: f, Label: "ReadASN1 succeeds only if the whole identifier octet equals the tag", Target: TrueReturn(0, nil),
			Cut: Cmp(func(v ssa.Value) bool { return Expr(v) == "t" }, "eq", Param("tag"))})
	}
	if f := w.Fn(cbFn("readASN1")); f != nil {
		n := 0
		for _, b := range f.Blocks {
			for _, in := range b.Instrs {
				if st, ok := in.(*ssa.Store); ok && Param("outTag")(st.Addr) {
					n++
					c.Check(Expr(st.Val) == "s[0]", "R-TABLE", cbFn("readASN1"), "the tag reported is the whole identifier octet", w.InstrPos(in), Expr(st.Val))
				}
			}
		}
		c.Check(n == 1, "R-TABLE", cbFn("readASN1"), "one store to *outTag", w.Pos(f.Pos()), fmt.Sprint(n))
	} else {
		c.Undecided("R-TABLE", cbFn("readASN1"), "anchor", "-", "not found")
	}

	// ---- fixed-width integers
	for _, n := range []int{1, 2, 3, 4} {
		bits := n * 8
		bf := w.Fn(cbBuild(fmt.Sprintf("AddUint%d", bits)))
		rf := w.Fn(cbFn(fmt.Sprintf("ReadUint%d", bits)))
		if bf == nil || rf == nil {
			c.Undecided("R-LAYOUT", fmt.Sprintf("AddUint%d/ReadUint%d", bits, bits), "anchor", "-", "not found")
			continue
		}
		c.Sites++
		// builder: b.add(varargs...) with element i = byte(v >> k_i)
		var wshifts []int64
		okB := false
		for _, in := range callsIn(bf, cbBuild("add")) {
			cc := callCommon(in)
			if sl, ok := cc.Args[1].(*ssa.Slice); ok {
				if al, ok := sl.X.(*ssa.Alloc); ok {
					els := map[int64]ssa.Value{}
					for _, ref := range *al.Referrers() {
						if ia, ok := ref.(*ssa.IndexAddr); ok {
							i, _ := intConst(ia.Index)
							for _, r2 := range *ia.Referrers() {
								if st, ok := r2.(*ssa.Store); ok {
									els[i] = st.Val
								}
							}
						}
					}
					okB = true
					for i := int64(0); i < int64(len(els)); i++ {
						k, ok := shiftOfParam(els[i], "v", token.SHR)
						if !ok {
							okB = false
						}
						wshifts = append(wshifts, k)
					}
				}
			}
		}
		// reader: s.read(n) and *out = OR of v[i] << k_i
		var rn int64 = -1
		for _, in := range callsIn(rf, cbFn("read")) {
			rn, _ = intConst(callCommon(in).Args[1])
		}
		rshifts := map[int64]int64{}
		okR := false
		for _, b := range rf.Blocks {
			for _, in := range b.Instrs {
				if st, ok := in.(*ssa.Store); ok && Param("out")(st.Addr) {
					okR = true
					for _, t := range orTerms(st.Val) {
						i, k, ok := indexedShift(t)
						if !ok {
							okR = false
						}
						rshifts[i] = k
					}
				}
			}
		}
		agree := okB && okR && int64(len(wshifts)) == int64(n) && rn == int64(n) && len(rshifts) == n
		for i, k := range wshifts {
			if rshifts[int64(i)] != k || k != int64(8*(n-1-i)) {
				agree = false
			}
		}
		c.Check(agree, "R-LAYOUT", fmt.Sprintf("AddUint%d/ReadUint%d", bits, bits), fmt.Sprintf("big-endian, %d byte(s): byte i carries bits 8(n-1-i)..; reader consumes %d", n, n), w.Pos(bf.Pos()),
			fmt.Sprintf("writer shifts %v reader read(%d) shifts %v", wshifts, rn, rshifts))
	}
	// ---- length-prefixed
	for _, n := range []int{1, 2, 3} {
		bits := n * 8
		bf := w.Fn(cbBuild(fmt.Sprintf("AddUint%dLengthPrefixed", bits)))
		rf := w.Fn(cbFn(fmt.Sprintf("ReadUint%dLengthPrefixed", bits)))
		if bf == nil || rf == nil {
			c.Undecided("R-LAYOUT", fmt.Sprintf("AddUint%dLengthPrefixed/ReadUint%dLengthPrefixed", bits, bits), "anchor", "-", "not found")
			continue
		}
		c.Sites++
		var wn, rn int64 = -1, -1
		for _, in := range callsIn(bf, cbBuild("addLengthPrefixed")) {
			wn, _ = intConst(callCommon(in).Args[1])
			asn, isC := boolConst(callCommon(in).Args[2])
			if !isC || asn {
				wn = -2
			}
		}
		for _, in := range callsIn(rf, cbFn("readLengthPrefixed")) {
			rn, _ = intConst(callCommon(in).Args[1])
		}
		c.Check(wn == int64(n) && rn == int64(n), "R-LAYOUT", fmt.Sprintf("AddUint%dLengthPrefixed/ReadUint%dLengthPrefixed", bits, bits), fmt.Sprintf("prefix width %d on both sides", n), w.Pos(bf.Pos()), fmt.Sprintf("writer %d reader %d", wn, rn))
	}
	// readLengthPrefixed: child = exactly `length` bytes after the prefix; prefix big-endian
	if f := w.Fn(cbFn("readLengthPrefixed")); f != nil {
		reads := callsIn(f, cbFn("read"))
		ok := len(reads) == 2
		if ok {
			ok = Param("lenLen")(callCommon(reads[0]).Args[1]) && instrDominates(reads[0], reads[1]) && hasAll(Deps(callCommon(reads[1]).Args[1]), "call:(*cryptobyte.String).read")
		}
		c.Check(ok, "R-LAYOUT", cbFn("readLengthPrefixed"), "reads lenLen prefix bytes, then exactly the announced number of bytes", w.Pos(f.Pos()), "")
		c.Cut(CutSpec{Fn: f, Label: "success only if both reads succeeded", Target: TrueReturn(0, nil), MinTargets: 1,
			Cut: NonNil(func(v ssa.Value) bool { return len(reads) == 2 && v == reads[0].(ssa.Value) })})
		if len(reads) == 2 {
			c.Cut(CutSpec{Fn: f, Label: "success only if the body was available", Target: TrueReturn(0, nil), Cut: NonNil(func(v ssa.Value) bool { return v == reads[1].(ssa.Value) })})
		}
	} else {
		c.Undecided("R-LAYOUT", cbFn("readLengthPrefixed"), "anchor", "-", "not found")
	}
	// read(n): returns the first n bytes and advances by n, only if available
	if f := w.Fn(cbFn("read")); f != nil {
		c.Cut(CutSpec{Fn: f, Label: "read yields bytes only if n bytes are available", Target: NonNilReturn(0, nil), Cut: Cmp(LenOf(func(v ssa.Value) bool { return Expr(v) == "s" }), "ge", Param("n"))})
		okAdv := false
		for _, b := range f.Blocks {
			for _, in := range b.Instrs {
				if st, ok := in.(*ssa.Store); ok && Param("s")(st.Addr) {
					okAdv = Expr(st.Val) == "s[n:]"
				}
			}
		}
		okRet := false
		for v := range returnClosure(f, 0) {
			if Expr(v) == "s[:n]" {
				okRet = true
			}
		}
		c.Check(okAdv && okRet, "R-LAYOUT", cbFn("read"), "returns s[:n] and leaves s[n:]", w.Pos(f.Pos()), "")
	} else {
		c.Undecided("R-LAYOUT", cbFn("read"), "anchor", "-", "not found")
	}

	// ---- ASN.1 tag pairs
	tagOf := func(fn *ssa.Function, callee string, argIdx int) string {
		for _, in := range callsIn(fn, callee) {
			a := callCommon(in).Args
			if argIdx < len(a) {
				return Expr(a[argIdx])
			}
		}
		return "?"
	}
	type pair struct{ add, addCallee, read, readCallee string; addIdx, readIdx int }
	pairs := []pair{
		{"AddASN1Int64", cbBuild("addASN1Signed"), "readASN1Int64", cbFn("ReadASN1"), 1, 2},
		{"AddASN1Uint64", cbBuild("AddASN1"), "readASN1Uint64", cbFn("ReadASN1"), 1, 2},
		{"AddASN1BigInt", cbBuild("AddASN1"), "readASN1BigInt", cbFn("ReadASN1"), 1, 2},
		{"AddASN1Enum", cbBuild("addASN1Signed"), "ReadASN1Enum", cbFn("ReadASN1"), 1, 2},
		{"AddASN1OctetString", cbBuild("AddASN1"), "ReadOptionalASN1OctetString", cbFn("ReadASN1"), 1, 2},
		{"AddASN1GeneralizedTime", cbBuild("AddASN1"), "ReadASN1GeneralizedTime", cbFn("ReadASN1"), 1, 2},
		{"AddASN1BitString", cbBuild("AddASN1"), "ReadASN1BitString", cbFn("ReadASN1"), 1, 2},
		{"AddASN1ObjectIdentifier", cbBuild("AddASN1"), "ReadASN1ObjectIdentifier", cbFn("ReadASN1"), 1, 2},
		{"AddASN1Boolean", cbBuild("AddASN1"), "ReadASN1Boolean", cbFn("ReadASN1"), 1, 2},
	}
	for _, p := range pairs {
		af, rf := w.Fn(cbBuild(p.add)), w.Fn(cbFn(p.read))
		if af == nil || rf == nil {
			c.Undecided("R-TABLE", p.add+"/"+p.read, "anchor", "-", "not found")
			continue
		}
		c.Sites++
		at, rt := tagOf(af, p.addCallee, p.addIdx), tagOf(rf, p.readCallee, p.readIdx)
		_, isNum := parseInt(at)
		c.Check(at == rt && isNum, "R-TABLE", p.add+"/"+p.read, "builder and reader use the same universal tag constant", w.Pos(af.Pos()), at+" vs "+rt)
	}
	// AddASN1 writes the tag octet then a 1-byte-placeholder ASN.1 length child
	if f := w.Fn(cbBuild("AddASN1")); f != nil {
		n8 := callsIn(f, cbBuild("AddUint8"))
		lp := callsIn(f, cbBuild("addLengthPrefixed"))
		ok := len(n8) == 1 && len(lp) == 1 && Param("tag")(stripConv(callCommon(n8[0]).Args[1])) && instrDominates(n8[0], lp[0])
		if ok {
			k, _ := intConst(callCommon(lp[0]).Args[1])
			asn, _ := boolConst(callCommon(lp[0]).Args[2])
			ok = k == 1 && asn
		}
		c.Check(ok, "R-LAYOUT", cbBuild("AddASN1"), "identifier octet = uint8(tag), then an ASN.1 length-prefixed child", w.Pos(f.Pos()), "")
	} else {
		c.Undecided("R-LAYOUT", cbBuild("AddASN1"), "anchor", "-", "not found")
	}

	// ---- flushChild length form thresholds
	c.flushChildThresholds()
}

func parseInt(s string) (int64, bool) {
	var n int64
	if s == "" {
		return 0, false
	}
	for _, r := range s {
		if r < '0' || r > '9' {
			return 0, false
		}
		n = n*10 + int64(r-'0')
	}
	return n, true
}

// shiftOfParam: v is T(p) or T(p >> k); returns k.
func shiftOfParam(v ssa.Value, param string, op token.Token) (int64, bool) {
	v = stripConv(v)
	if Param(param)(v) {
		return 0, true
	}
	b, ok := v.(*ssa.BinOp)
	if !ok || b.Op != op || !Param(param)(stripConv(b.X)) {
		return 0, false
	}
	k, ok := intConst(stripConv(b.Y))
	return k, ok
}

func orTerms(v ssa.Value) []ssa.Value {
	if b, ok := v.(*ssa.BinOp); ok && b.Op == token.OR {
		return append(orTerms(b.X), orTerms(b.Y)...)
	}
	return []ssa.Value{v}
}

// indexedShift: t is T(x[i]) or T(x[i]) << k with constant i, k.
func indexedShift(t ssa.Value) (idx, shift int64, ok bool) {
	if b, isB := t.(*ssa.BinOp); isB && b.Op == token.SHL {
		k, okK := intConst(stripConv(b.Y))
		ia := loadedIndex(stripConv(b.X))
		if !okK || ia == nil {
			return 0, 0, false
		}
		i, okI := intConst(ia.Index)
		return i, k, okI
	}
	ia := loadedIndex(stripConv(t))
	if ia == nil {
		return 0, 0, false
	}
	i, okI := intConst(ia.Index)
	return i, 0, okI
}

func (c *Ctx) flushChildThresholds() {
	w := c.W
	f := w.Fn(cbBuild("flushChild"))
	if f == nil {
		c.Undecided("R-VSET", cbBuild("flushChild"), "anchor", "-", "not found")
		return
	}
	// the first length octet written
	var lbStore *ssa.Store
	for _, b := range f.Blocks {
		for _, in := range b.Instrs {
			if st, ok := in.(*ssa.Store); ok {
				if ia, ok := st.Addr.(*ssa.IndexAddr); ok && strings.HasSuffix(Expr(ia.X), ".result") && strings.HasSuffix(Expr(ia.Index), ".offset") {
					if _, isPhi := st.Val.(*ssa.Phi); isPhi {
						lbStore = st
					}
				}
			}
		}
	}
	if lbStore == nil {
		c.Undecided("R-VSET", cbBuild("flushChild"), "store of the first length octet", w.Pos(f.Pos()), "not found")
		return
	}
	isLen := func(v ssa.Value) bool {
		e := Expr(v)
		return strings.HasPrefix(e, "((len(") && strings.Contains(e, ".pendingLenLen)") && strings.HasSuffix(e, ".offset)")
	}
	lower := func(min int64) FP { // length >= min
		return func(fc Fact) bool {
			if fc.Y == nil || !isLen(stripConv(fc.X)) {
				return false
			}
			k, ok := intConst(fc.Y)
			return ok && ((fc.Op == "gt" && k+1 == min) || (fc.Op == "ge" && k == min))
		}
	}
	upper := func(lim int64) FP { // length < lim
		return func(fc Fact) bool {
			if fc.Y == nil || !isLen(stripConv(fc.X)) {
				return false
			}
			k, ok := intConst(fc.Y)
			return ok && ((fc.Op == "le" && k+1 == lim) || (fc.Op == "lt" && k == lim))
		}
	}
	phi := lbStore.Val.(*ssa.Phi)
	seen := map[int64]bool{}
	for _, e := range phi.Edges {
		k, isC := intConst(e)
		if !isC {
			// short form: the length itself; must be below 128
			tgt := func(in ssa.Instruction, res resolver) bool {
				if in != ssa.Instruction(lbStore) {
					return false
				}
				_, c2 := intConst(res(lbStore.Val))
				return !c2
			}
			c.Cut(CutSpec{Rule: "R-VSET", Fn: f, Label: "short-form length octet only for length < 128", Target: tgt, MinTargets: -1, Track: []ssa.Value{lbStore.Val}, Cut: upper(128)})
			seen[0] = true
			continue
		}
		n := k & 0x7f
		if k&0x80 == 0 || n < 1 || n > 4 {
			c.Fail("R-VSET", cbBuild("flushChild"), "first length octet is 0x80|n with 1 <= n <= 4", w.InstrPos(lbStore), fmt.Sprint(k))
			continue
		}
		seen[n] = true
		kk := k
		tgt := func(in ssa.Instruction, res resolver) bool {
			if in != ssa.Instruction(lbStore) {
				return false
			}
			v, c2 := intConst(res(lbStore.Val))
			return c2 && v == kk
		}
		c.Cut(CutSpec{Rule: "R-VSET", Fn: f, Label: fmt.Sprintf("long form with %d octet(s) only for length >= 2^%d", n, 8*(n-1)+boolInt(n == 1)*7), Target: tgt, MinTargets: -1, Track: []ssa.Value{lbStore.Val},
			Cut: lower(minForOctets(n))})
		if n < 4 {
			c.Cut(CutSpec{Rule: "R-VSET", Fn: f, Label: fmt.Sprintf("long form with %d octet(s) only for length < 2^%d", n, 8*n), Target: tgt, MinTargets: -1, Track: []ssa.Value{lbStore.Val},
				Cut: upper(int64(1) << (8 * uint(n)))})
		}
	}
	var ks []int
	for k := range seen {
		ks = append(ks, int(k))
	}
	sort.Ints(ks)
	c.Check(len(ks) == 5, "R-VSET", cbBuild("flushChild"), "five length forms (short, 1..4 octets)", w.InstrPos(lbStore), fmt.Sprint(ks))
}

func minForOctets(n int64) int64 {
	if n == 1 {
		return 128
	}
	return int64(1) << (8 * uint(n-1))
}

func boolInt(b bool) int64 {
	if b {
		return 1
	}
	return 0
}
