package main

import (
	"fmt"
	"go/constant"
	"go/token"
	"go/types"
	"sort"
	"strings"

	"golang.org/x/tools/go/ssa"
)

// isBuiltinCall reports whether in is a call of the named builtin.
func isBuiltinCall(in ssa.Instruction, name string) *ssa.Call {
	c, ok := in.(*ssa.Call)
	if !ok {
		return nil
	}
	if b, ok := c.Call.Value.(*ssa.Builtin); ok && b.Name() == name {
		return c
	}
	return nil
}

// appended returns the values an append call adds: for append(s, a, b) the
// values stored into the varargs array; for append(s, x...) the slice x
// itself with spread=true.
func appended(c *ssa.Call) (vals []ssa.Value, spread bool) {
	if len(c.Call.Args) < 2 {
		return nil, false
	}
	arg := c.Call.Args[1]
	if sl, ok := arg.(*ssa.Slice); ok {
		if al, ok := sl.X.(*ssa.Alloc); ok && strings.Contains(al.Comment, "varargs") {
			for _, ref := range *al.Referrers() {
				ia, ok := ref.(*ssa.IndexAddr)
				if !ok {
					continue
				}
				for _, r2 := range *ia.Referrers() {
					if st, ok := r2.(*ssa.Store); ok && st.Addr == ia {
						vals = append(vals, st.Val)
					}
				}
			}
			return vals, false
		}
	}
	return []ssa.Value{arg}, true
}

// backClosure: all values reachable backwards from v through phis,
// conversions, slices, appends (first arg) and extracts.
func backClosure(v ssa.Value, through func(ssa.Value) []ssa.Value) map[ssa.Value]bool {
	seen := map[ssa.Value]bool{}
	var visit func(ssa.Value)
	visit = func(x ssa.Value) {
		if x == nil || seen[x] {
			return
		}
		seen[x] = true
		if a := deparam(x); a != x {
			visit(a)
			return
		}
		switch y := x.(type) {
		case *ssa.Phi:
			for _, e := range y.Edges {
				visit(e)
			}
		case *ssa.ChangeType:
			visit(y.X)
		case *ssa.ChangeInterface:
			visit(y.X)
		case *ssa.Convert:
			visit(y.X)
		case *ssa.MakeInterface:
			visit(y.X)
		case *ssa.Slice:
			visit(y.X)
		case *ssa.Call:
			if b, ok := y.Call.Value.(*ssa.Builtin); ok && b.Name() == "append" {
				visit(y.Call.Args[0])
			}
		}
		if through != nil {
			for _, z := range through(x) {
				visit(z)
			}
		}
	}
	visit(v)
	return seen
}

// returnClosure: values that may flow (through phis/appends) into result idx.
func returnClosure(fn *ssa.Function, idx int) map[ssa.Value]bool {
	out := map[ssa.Value]bool{}
	for _, b := range fn.Blocks {
		if rt, ok := b.Instrs[len(b.Instrs)-1].(*ssa.Return); ok && idx < len(rt.Results) {
			if b == fn.Recover {
				continue
			}
			for v := range backClosure(unspill(rt, idx), nil) {
				out[v] = true
			}
		}
	}
	return out
}

// Expr renders the definition tree of a value as a canonical expression
// (locals vanish; fields, callees, parameters, constants and globals
// remain). Used for provenance obligations and diagnostics.
func Expr(v ssa.Value) string { return exprD(v, 0, map[ssa.Value]bool{}) }

func exprD(v ssa.Value, d int, onpath map[ssa.Value]bool) string {
	if v == nil {
		return "<nil>"
	}
	if d > 14 {
		return "…"
	}
	if onpath[v] {
		return "↺"
	}
	onpath[v] = true
	defer delete(onpath, v)
	r := func(x ssa.Value) string { return exprD(x, d+1, onpath) }
	switch x := v.(type) {
	case *ssa.Const:
		if x.Value == nil {
			return "nil"
		}
		if x.Value.Kind() == constant.String {
			return x.Value.ExactString()
		}
		return x.Value.ExactString()
	case *ssa.Parameter:
		return paramName(x)
	case *ssa.FreeVar:
		return "free:" + x.Name()
	case *ssa.Global:
		return short(x.Pkg.Pkg.Path()) + "." + x.Name()
	case *ssa.Function:
		return "func:" + short(FuncName(x))
	case *ssa.Builtin:
		return x.Name()
	case *ssa.Alloc:
		// a parameter spilled to the stack keeps the parameter's name
		if fn := x.Parent(); fn != nil {
			for _, p := range fn.Params {
				if p.Name() == x.Comment {
					return paramName(p)
				}
			}
		}
		// a named local variable keeps its name; literals and temporaries do not
		switch x.Comment {
		case "", "complit", "varargs", "slicelit", "new", "makeslice", "makemap", "typeassert,ok", "arraylit":
		default:
			if !strings.ContainsAny(x.Comment, " ,()") {
				return localName(x.Parent(), x.Comment)
			}
		}
		return "alloc(" + typeStr(x.Type()) + ")"
	case *ssa.FieldAddr:
		return r(x.X) + "." + fieldLeaf(fieldName(x))
	case *ssa.Field:
		return r(x.X) + "." + fieldLeaf(structField(x.X.Type(), x.Field))
	case *ssa.IndexAddr:
		if s, ok := foldSliceIndex(x.X, x.Index, r); ok {
			return s
		}
		return r(x.X) + "[" + r(x.Index) + "]"
	case *ssa.Index:
		if s, ok := foldSliceIndex(x.X, x.Index, r); ok {
			return s
		}
		return r(x.X) + "[" + r(x.Index) + "]"
	case *ssa.Lookup:
		return r(x.X) + "[" + r(x.Index) + "]"
	case *ssa.UnOp:
		if x.Op == token.MUL {
			return r(x.X) // loads are transparent
		}
		return x.Op.String() + r(x.X)
	case *ssa.BinOp:
		return "(" + r(x.X) + x.Op.String() + r(x.Y) + ")"
	case *ssa.Phi:
		var parts []string
		seen := map[string]bool{}
		for _, e := range x.Edges {
			s := r(e)
			if !seen[s] {
				seen[s] = true
				parts = append(parts, s)
			}
		}
		sort.Strings(parts)
		return "φ(" + strings.Join(parts, "|") + ")"
	case *ssa.Call:
		if ret, params := pureExprHelper(x); ret != nil {
			// a one-expression helper reads as its expression over the arguments
			saved := exprParamSubst
			next := map[*ssa.Parameter]string{}
			for k, v := range saved {
				next[k] = v
			}
			for i, p := range params {
				if i < len(x.Call.Args) {
					next[p] = r(x.Call.Args[i])
				}
			}
			exprParamSubst = next
			s := exprD(ret, d+1, map[ssa.Value]bool{})
			exprParamSubst = saved
			return s
		}
		var args []string
		if x.Call.IsInvoke() {
			args = append(args, r(x.Call.Value))
		}
		for _, a := range x.Call.Args {
			args = append(args, r(a))
		}
		return strings.TrimPrefix(short(calleeName(&x.Call)), "builtin.") + "(" + strings.Join(args, ",") + ")"
	case *ssa.Extract:
		return r(x.Tuple) + "#" + fmt.Sprint(x.Index)
	case *ssa.Slice:
		s := r(x.X) + "["
		if x.Low != nil {
			s += r(x.Low)
		}
		s += ":"
		if x.High != nil {
			s += r(x.High)
		}
		return s + "]"
	case *ssa.Convert:
		return typeStr(x.Type()) + "(" + r(x.X) + ")"
	case *ssa.ChangeType:
		return r(x.X)
	case *ssa.ChangeInterface:
		return r(x.X)
	case *ssa.MakeInterface:
		return r(x.X)
	case *ssa.TypeAssert:
		return r(x.X) + ".(" + typeStr(x.AssertedType) + ")"
	case *ssa.MakeSlice:
		return "make(" + typeStr(x.Type()) + "," + r(x.Len) + ")"
	case *ssa.MakeMap:
		return "make(" + typeStr(x.Type()) + ")"
	case *ssa.MakeClosure:
		return "closure:" + r(x.Fn)
	case *ssa.Range:
		return "range(" + r(x.X) + ")"
	case *ssa.Next:
		return "next(" + r(x.Iter) + ")"
	case *ssa.SliceToArrayPointer:
		return r(x.X)
	}
	return fmt.Sprintf("%T", v)
}

func fieldLeaf(s string) string {
	if i := strings.LastIndex(s, "."); i >= 0 {
		return s[i+1:]
	}
	return s
}

func typeStr(t types.Type) string {
	return types.TypeString(t, func(p *types.Package) string { return p.Name() })
}

// Deps computes the set of leaf sources a value depends on: "field:T.f",
// "call:<callee>", "param:<name>", "const:<v>", "global:<name>". Calls are
// leaves but their arguments are followed too. Loads from local allocs are
// followed through the stores to that alloc.
func Deps(v ssa.Value) map[string]bool {
	out := map[string]bool{}
	seen := map[ssa.Value]bool{}
	var visit func(ssa.Value, int)
	visit = func(x ssa.Value, d int) {
		if x == nil || seen[x] || d > 40 {
			return
		}
		seen[x] = true
		switch y := x.(type) {
		case *ssa.Const:
			if y.Value == nil {
				out["const:nil"] = true
			} else {
				out["const:"+y.Value.ExactString()] = true
			}
		case *ssa.Parameter:
			if a := deparam(y); a != ssa.Value(y) {
				seen[x] = false
				visit(a, d+1)
				break
			}
			out["param:"+paramName(y)] = true
		case *ssa.FreeVar:
			out["free:"+y.Name()] = true
		case *ssa.Global:
			out["global:"+short(y.Pkg.Pkg.Path())+"."+y.Name()] = true
		case *ssa.FieldAddr:
			out["field:"+fieldName(y)] = true
			visit(y.X, d+1)
		case *ssa.Field:
			out["field:"+structField(y.X.Type(), y.Field)] = true
			visit(y.X, d+1)
		case *ssa.IndexAddr:
			visit(y.X, d+1)
			visit(y.Index, d+1)
		case *ssa.Index:
			visit(y.X, d+1)
			visit(y.Index, d+1)
		case *ssa.Lookup:
			visit(y.X, d+1)
			visit(y.Index, d+1)
		case *ssa.UnOp:
			visit(y.X, d+1)
			// a load of x.f that is dominated by a store to the same x.f in
			// this function also depends on what was stored
			if fa, ok := y.X.(*ssa.FieldAddr); ok && y.Op == token.MUL && y.Parent() != nil {
				fname, base := fieldName(fa), Expr(fa.X)
				for _, b := range y.Parent().Blocks {
					for _, in := range b.Instrs {
						st, ok := in.(*ssa.Store)
						if !ok {
							continue
						}
						fa2, ok := st.Addr.(*ssa.FieldAddr)
						if ok && fa2.Field == fa.Field && fieldName(fa2) == fname && instrDominates(st, y) && Expr(fa2.X) == base {
							visit(st.Val, d+1)
						}
					}
				}
			}
		case *ssa.BinOp:
			visit(y.X, d+1)
			visit(y.Y, d+1)
		case *ssa.Phi:
			for _, e := range y.Edges {
				visit(e, d+1)
			}
		case *ssa.Call:
			out["call:"+short(calleeName(&y.Call))] = true
			if y.Call.IsInvoke() {
				visit(y.Call.Value, d+1)
			}
			for _, a := range y.Call.Args {
				visit(a, d+1)
			}
		case *ssa.Extract:
			visit(y.Tuple, d+1)
		case *ssa.Slice:
			visit(y.X, d+1)
			visit(y.Low, d+1)
			visit(y.High, d+1)
			// elements stored through this slice value
			if y.Referrers() != nil {
				for _, ref := range *y.Referrers() {
					if ia, ok := ref.(*ssa.IndexAddr); ok {
						for _, r2 := range *ia.Referrers() {
							if s2, ok := r2.(*ssa.Store); ok && s2.Addr == ia {
								visit(s2.Val, d+1)
							}
						}
					}
				}
			}
		case *ssa.Convert:
			visit(y.X, d+1)
		case *ssa.ChangeType:
			visit(y.X, d+1)
		case *ssa.ChangeInterface:
			visit(y.X, d+1)
		case *ssa.MakeInterface:
			visit(y.X, d+1)
		case *ssa.TypeAssert:
			visit(y.X, d+1)
		case *ssa.MakeSlice:
			visit(y.Len, d+1)
			// what was stored into the fresh slice
			if y.Referrers() != nil {
				for _, ref := range *y.Referrers() {
					if ia, ok := ref.(*ssa.IndexAddr); ok {
						for _, r2 := range *ia.Referrers() {
							if s2, ok := r2.(*ssa.Store); ok && s2.Addr == ia {
								visit(s2.Val, d+1)
							}
						}
					}
				}
			}
		case *ssa.Alloc:
			if y.Referrers() != nil {
				for _, ref := range *y.Referrers() {
					switch st := ref.(type) {
					case *ssa.Store:
						if st.Addr == y {
							visit(st.Val, d+1)
						}
					case *ssa.IndexAddr:
						for _, r2 := range *st.Referrers() {
							if s2, ok := r2.(*ssa.Store); ok && s2.Addr == st {
								visit(s2.Val, d+1)
							}
						}
					case *ssa.FieldAddr:
						for _, r2 := range *st.Referrers() {
							if s2, ok := r2.(*ssa.Store); ok && s2.Addr == st {
								visit(s2.Val, d+1)
							}
						}
					}
				}
			}
		case *ssa.Range:
			visit(y.X, d+1)
		case *ssa.Next:
			visit(y.Iter, d+1)
		}
	}
	visit(v, 0)
	return out
}

func depList(d map[string]bool) string {
	var s []string
	for k := range d {
		if strings.HasPrefix(k, "const:") {
			continue
		}
		s = append(s, k)
	}
	sort.Strings(s)
	return strings.Join(s, " ")
}

// hasAll / hasNone over dependency sets (names expanded by short()).
func hasAll(d map[string]bool, keys ...string) bool {
	for _, k := range keys {
		if !d[k] {
			return false
		}
	}
	return true
}

func hasNone(d map[string]bool, keys ...string) bool {
	for _, k := range keys {
		if d[k] {
			return false
		}
	}
	return true
}

// ConstOf looks up a package-level constant and returns its exact value.
func (w *World) ConstOf(pkg, name string) (constant.Value, bool) {
	p := w.Pkg(pkg)
	if p == nil {
		return nil, false
	}
	o, ok := p.Types.Scope().Lookup(name).(*types.Const)
	if !ok {
		return nil, false
	}
	return o.Val(), true
}

// IsConstNamed matches an SSA constant equal to the named package constant.
func (w *World) IsConstNamed(pkg, name string) func(ssa.Value) bool {
	cv, ok := w.ConstOf(pkg, name)
	return func(v ssa.Value) bool {
		c, isC := v.(*ssa.Const)
		return ok && isC && c.Value != nil && constant.Compare(c.Value, token.EQL, cv)
	}
}

// callsIn lists call instructions of fn (incl. go/defer) to the named callees.
func callsIn(fn *ssa.Function, names ...string) []ssa.Instruction {
	var out []ssa.Instruction
	if fn == nil {
		return nil
	}
	for _, b := range fn.Blocks {
		for _, in := range b.Instrs {
			if cc := callCommon(in); cc != nil && nameIn(calleeName(cc), names) {
				out = append(out, in)
			}
		}
	}
	return out
}

// recvAndArgs returns receiver-first argument list for static and invoke calls.
func recvAndArgs(cc *ssa.CallCommon) []ssa.Value {
	if cc.IsInvoke() {
		return append([]ssa.Value{cc.Value}, cc.Args...)
	}
	return cc.Args
}

// sameVal compares two values modulo transparent loads of the same
// address expression and conversions.
func sameVal(a, b ssa.Value) bool {
	a, b = stripConv(a), stripConv(b)
	if a == b {
		return true
	}
	if Expr(a) == Expr(b) && !strings.Contains(Expr(a), "(") { // pure field/param paths
		return true
	}
	return samePath(a, b, 0)
}

// samePath: two loads through the same chain of field and index selections from one SSA value, with identical index
// values (go/ssa does not share the two loads of `e[i].f` and `e[i]`).
func samePath(a, b ssa.Value, d int) bool {
	a, b = stripConv(a), stripConv(b)
	if a == b {
		return true
	}
	if d > 6 {
		return false
	}
	switch x := a.(type) {
	case *ssa.UnOp:
		y, ok := b.(*ssa.UnOp)
		return ok && x.Op == token.MUL && y.Op == token.MUL && samePath(x.X, y.X, d+1)
	case *ssa.IndexAddr:
		y, ok := b.(*ssa.IndexAddr)
		return ok && x.Index == y.Index && samePath(x.X, y.X, d+1)
	case *ssa.FieldAddr:
		y, ok := b.(*ssa.FieldAddr)
		return ok && x.Field == y.Field && samePath(x.X, y.X, d+1)
	case *ssa.Field:
		y, ok := b.(*ssa.Field)
		return ok && x.Field == y.Field && samePath(x.X, y.X, d+1)
	}
	return false
}

// unspill undoes go/ssa's "defer-spilled returns": in a function with a
// defer, results are stored into locals, the deferred calls run, and the
// locals are loaded back for the Return. When the returned operand is such a
// load and the store that feeds it is unambiguous (the last store to that
// local in the same block, or the only store in the function), the stored
// value is returned; otherwise the operand itself.
func unspill(rt *ssa.Return, idx int) ssa.Value {
	v := rt.Results[idx]
	ld, ok := v.(*ssa.UnOp)
	if !ok || ld.Op != token.MUL {
		return v
	}
	al, ok := ld.X.(*ssa.Alloc)
	if !ok || al.Heap {
		return v
	}
	// last store in the same block before the load
	var last ssa.Value
	for _, in := range rt.Block().Instrs {
		if in == ld {
			break
		}
		if st, ok := in.(*ssa.Store); ok && st.Addr == al {
			last = st.Val
		}
	}
	if last != nil {
		return last
	}
	var only ssa.Value
	n := 0
	for _, ref := range *al.Referrers() {
		if st, ok := ref.(*ssa.Store); ok && st.Addr == al {
			n++
			only = st.Val
		}
	}
	if n == 1 {
		return only
	}
	return v
}

// foldSliceIndex: x[a:][i] with constant a and i is x[a+i].
func foldSliceIndex(base, index ssa.Value, r func(ssa.Value) string) (string, bool) {
	sl, ok := base.(*ssa.Slice)
	if !ok || sl.High != nil || sl.Max != nil || sl.Low == nil {
		if p, isP := base.(*ssa.Parameter); isP {
			if a, has := valueParamSubst[p]; has {
				_ = a
			}
		}
		return "", false
	}
	a, ok1 := intConst(sl.Low)
	i, ok2 := intConst(index)
	if !ok1 || !ok2 {
		return "", false
	}
	return r(sl.X) + "[" + fmt.Sprint(a+i) + "]", true
}

// pureExprHelper: the call goes to an in-module function whose body is one block computing a single result from its
// parameters with operators, conversions, indexing and len/cap only.
func pureExprHelper(cl *ssa.Call) (ssa.Value, []*ssa.Parameter) {
	f := cl.Call.StaticCallee()
	if f == nil || !InModule(f) || len(f.Blocks) != 1 || f.Signature.Results().Len() != 1 || f.Signature.Recv() != nil && false {
		return nil, nil
	}
	var ret ssa.Value
	for _, in := range f.Blocks[0].Instrs {
		switch t := in.(type) {
		case *ssa.BinOp, *ssa.Convert, *ssa.ChangeType, *ssa.IndexAddr, *ssa.Index, *ssa.Slice, *ssa.FieldAddr, *ssa.Field, *ssa.DebugRef:
		case *ssa.UnOp:
			if t.Op == token.ARROW {
				return nil, nil
			}
		case *ssa.Call:
			if b, ok := t.Call.Value.(*ssa.Builtin); !ok || (b.Name() != "len" && b.Name() != "cap") {
				return nil, nil
			}
		case *ssa.Return:
			if len(t.Results) != 1 {
				return nil, nil
			}
			ret = t.Results[0]
		default:
			return nil, nil
		}
	}
	return ret, f.Params
}
