package main

import (
	"fmt"
	"go/token"
	"go/types"

	"golang.org/x/tools/go/ssa"
)

// R-PURE: which parameters a function may write through (element stores, field stores through a
// pointer parameter, append into a re-sliced parameter), directly or through in-module callees.

type paramWrite struct {
	In   ssa.Instruction
	P    *ssa.Parameter
	What string
}

// paramRoot: the parameter whose memory the address / slice value denotes (through field and
// element addressing, re-slicing, loads of pointer fields are NOT followed).
func paramRoot(v ssa.Value) *ssa.Parameter {
	for i := 0; i < 12; i++ {
		switch x := v.(type) {
		case *ssa.Parameter:
			return x
		case *ssa.FieldAddr:
			v = x.X
		case *ssa.IndexAddr:
			v = x.X
		case *ssa.Slice:
			v = x.X
		case *ssa.ChangeType:
			v = x.X
		case *ssa.Convert:
			v = x.X
		case *ssa.Phi:
			// a phi all of whose concrete inputs are rooted at the same parameter
			var p *ssa.Parameter
			for _, e := range x.Edges {
				if e == ssa.Value(x) {
					continue
				}
				q := paramRoot(e)
				if q == nil || (p != nil && q != p) {
					return nil
				}
				p = q
			}
			return p
		case *ssa.UnOp:
			// load of a slice/pointer held in a field of a pointer parameter: the pointee belongs to the caller too
			if x.Op == token.MUL {
				if fa, ok := x.X.(*ssa.FieldAddr); ok {
					v = fa.X
					continue
				}
			}
			return nil
		default:
			return nil
		}
	}
	return nil
}

func isRefType(t types.Type) bool {
	switch t.Underlying().(type) {
	case *types.Pointer, *types.Slice, *types.Map:
		return true
	}
	return false
}

// directParamWrites lists the writes of fn through its own parameters.
func directParamWrites(fn *ssa.Function) []paramWrite {
	var out []paramWrite
	for _, b := range fn.Blocks {
		for _, in := range b.Instrs {
			switch x := in.(type) {
			case *ssa.Store:
				switch x.Addr.(type) {
				case *ssa.FieldAddr, *ssa.IndexAddr:
					if p := paramRoot(x.Addr); p != nil && isRefType(p.Type()) {
						out = append(out, paramWrite{in, p, "store to " + Expr(x.Addr)})
					}
				}
			case *ssa.MapUpdate:
				if p := paramRoot(x.Map); p != nil {
					out = append(out, paramWrite{in, p, "map update of " + Expr(x.Map)})
				}
			case *ssa.Call:
				if cl := isBuiltinCall(in, "append"); cl != nil {
					// append(p[:k], ...) may overwrite the caller's elements beyond k
					if sl, ok := cl.Call.Args[0].(*ssa.Slice); ok && sl.High != nil {
						if p := paramRoot(sl.X); p != nil {
							out = append(out, paramWrite{in, p, "append into re-sliced " + Expr(sl)})
						}
					}
				}
				if cl := isBuiltinCall(in, "copy"); cl != nil {
					if p := paramRoot(cl.Call.Args[0]); p != nil {
						out = append(out, paramWrite{in, p, "copy into " + Expr(cl.Call.Args[0])})
					}
				}
			}
		}
	}
	return out
}

// ParamWriteSummary: fixpoint over in-module static callees.
type ParamWriteSummary struct {
	writes map[*ssa.Parameter]string // parameter -> one witness
}

func NewParamWriteSummary(w *World, fns []*ssa.Function) *ParamWriteSummary {
	s := &ParamWriteSummary{writes: map[*ssa.Parameter]string{}}
	for _, fn := range fns {
		for _, pw := range directParamWrites(fn) {
			if _, ok := s.writes[pw.P]; !ok {
				s.writes[pw.P] = fmt.Sprintf("%s at %s", pw.What, w.InstrPos(pw.In))
			}
		}
	}
	for changed := true; changed; {
		changed = false
		for _, fn := range fns {
			for _, b := range fn.Blocks {
				for _, in := range b.Instrs {
					cc := callCommon(in)
					if cc == nil {
						continue
					}
					callee := cc.StaticCallee()
					if callee == nil || len(callee.Blocks) == 0 {
						continue
					}
					for i, a := range cc.Args {
						if i >= len(callee.Params) {
							break
						}
						wit, w2 := s.writes[callee.Params[i]]
						if !w2 {
							continue
						}
						if p := paramRoot(a); p != nil && p.Parent() == fn && isRefType(p.Type()) {
							if _, ok := s.writes[p]; !ok {
								s.writes[p] = fmt.Sprintf("passes it to %s (%s)", short(FuncName(callee)), wit)
								changed = true
							}
						}
					}
				}
			}
		}
	}
	return s
}
