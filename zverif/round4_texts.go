package main

// Texts for the obligations added in the fourth round (extras_round4.go). Applied after round3Texts.

var round4Texts = map[string]round2Text{
	"C01": {Explain: "Round 4: R-FRESH also reports a decoder call with a discarded error (binary.Read, json.Unmarshal) that fills a variable declared outside the loop (on failure the previous element's value is kept)."},
	"C02": {Explain: "Round 4: R-NILPTR — JsonifyExtensions copies the pointer fields of the certificate and never dereferences one without a nil test (an extension may be present yet undecoded in permissive mode); C23's checkPub obligations are adopted."},
	"C03": {Explain: "Round 4: dsa.Sign and dsa.Verify derive z from the hash in the same way (sibling agreement on the SetBytes argument)."},
	"C04": {Explain: "Round 4: R-TABLE — every ExtKeyUsage the builder can encode (first matching row of the table oidFromExtKeyUsage ranges over) is decoded back to itself by the ekuConstants map the parser uses; rsaPSSParameters writes the hash and MGF1-hash AlgorithmIdentifiers with explicit NULL parameters, which the strict certificate parser requires."},
	"C06": {Explain: "Round 4: R-PURE — BitString.RightAlign and At do not store into the receiver's Bytes (they alias the DER being parsed, so Raw and the fingerprints would change under the caller)."},
	"C08": {Explain: "Round 4: R-SCAN — after AppendCertsFromPEM decoded a block the scan is left only if there was none."},
	"C10": {Explain: "Round 4: C11's fix-up reachability rule for AddCert is adopted."},
	"C11": {Explain: "Round 4: R-FRESH — CertificateChain.AppendToFreshChain returns a freshly made slice on every path (never append(chain, ...))."},
	"C12": {Explain: "Round 4: R-SIBLING — TimeInValidityPeriod is the strict test NotBefore < t < NotAfter that FilterByDate applies to chains."},
	"C15": {Explain: "Round 4: the blocked subject of a OneCRL record keeps the octets of the document (it is compared octet for octet), it is not re-marshalled from the decoded name."},
	"C16": {Explain: "Round 4: R-SHORTREAD — no io.Reader.Read call in the ct and revocation parsers discards its byte count (a short read leaves the rest of the buffer unfilled)."},
	"C17": {Explain: "Round 4: Scan resets each counter its workers advance before starting them."},
	"C18": {Explain: "Round 4: R-TABLE — in parseSequenceOf's tag pre-pass the six alternative string tags fold to PrintableString and GeneralizedTime folds to UTCTime, the tag expected for time.Time; R-FRESH — the decoded slice is reflect.MakeSlice on every path; R-PURE for BitString accessors; R-VSET — makeBigInt returns the bare magnitude octets (no 0xff / 0x00 pad) only behind the branch testing the top bit of the first octet, set for a negative and clear for a positive number.", NotCov: "That the octets themselves are the two's complement of the value (arithmetic); only the pad decision is decided."},
	"C19": {Explain: "Round 4: a value parsed with parseInt64 is stored only into a destination that is not four bytes wide (those go through parseInt32's range check)."},
	"C21": {Explain: "Round 4: String.read returns nil only if n is negative or exceeds the remaining length (reading zero octets succeeds)."},
	"C22": {Explain: "Round 4: makeField raises the invalid-UTF-8 error only past utf8.ValidString == false; the decoder's fresh-slice rule of C18 is adopted (OriginalRDNS keeps the slice it was handed)."},
	"C23": {Explain: "Round 4: decryptOAEP succeeds only past k >= 2*hash.Size()+2 with sizes taken from the label hash."},
	"C24": {Explain: "Round 4: R-ORDER — the set of functions that store Conn.ekm is fixed (readServerFinished / sendServerFinished for TLS 1.3, the two handshake drivers below); R-PURE — no function of package tls sorts a slice parameter in place (deprioritizeAES works on a copy of the shared default list)."},
	"C25": {Explain: "Round 4: handleKeyUpdate returns nil only after c.in.setTrafficSecret; the retry counter is reset for every non-empty record other than alerts and ChangeCipherSpec."},
	"C28": {Explain: "Round 4: after readSessionTicket has read the NewSessionTicket it returns nil only past the store of hs.session (the logged ticket is built from it)."},
	"C29": {Explain: "Round 4: R-TABLE — every Clone/clone method of package tls that builds its copy field by field assigns every field of the type (Config.Clone, fingerprint copies); the fingerprint's SessionID is replaced by random bytes only when a cached session is being offered."},
	"C30": {Explain: "Round 4: the hand-rolled opaque-body decoders (Server/ClientKeyExchange) reject only an input shorter than the 4-octet header or with a wrong length field, also when the test sits in a shared helper; newSessionTicketMsg.unmarshal accepts only after storing the lifetime hint."},
	"C31": {Explain: "Round 4: a key list Config.ticketKeys returns before it turns to the listener's own keys is the per-client Config's."},
	"C32": {Explain: "Round 4: C31's minimum-length cut on decryptTicket and C34's lock rule for handshakeStatus are adopted (a truncated ticket falls back to a full handshake; renegotiation does not deadlock)."},
	"C33": {Explain: "Round 4: PublicKeyAlgorithm.UnmarshalJSON looks the name up as written (no case normalisation in front of a table with mixed-case keys); no Trim cutset that reads like a prefix (\"0x\")."},
	"C34": {Explain: "Round 4: R-LOCK — every read of a half's sticky error (c.out.err / c.in.err) outside halfConn's own methods runs with that half's lock held."},
}

func applyRound4Texts() {
	for id, t := range round4Texts {
		p := props[id]
		if p == nil {
			continue
		}
		if t.Explain != "" {
			p.Explain += " " + t.Explain
		}
		if t.NotCov != "" {
			p.NotCov += " " + t.NotCov
		}
	}
}
