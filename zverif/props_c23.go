package main

import (
	"fmt"
	"go/token"
	"go/types"
	"sort"
	"strings"

	"golang.org/x/tools/go/ssa"
)

func init() {
	register(&propDef{
		ID: "C23",
		Explain: "Package rsa. R-PRE (interprocedural, fixpoint over the package): every Encrypt*/Decrypt*/Sign*/Verify* entry point (functions and the crypto.Signer/Decrypter methods) reaches a read of PublicKey.N/E or a call of Size/encrypt/decrypt only past checkPub(key)==nil on that key; " +
			"checkPub accepts only non-nil N, non-nil E and E >= 2. R-VSET by rejecting branch (RFC 8017 5.1.2, 5.2.2, 8.2.2, 9.1.2 transcribed as expressions over the function's inputs): encrypt/decrypt accept only 0 <= x < N; VerifyPKCS1v15 and VerifyPSS accept only len(sig)==k, " +
			"a successful RSAVP1 and the exact encoded message; emsaPSSVerify's accept path passes every consistency test of 9.1.2 and hashes 8 zero octets || mHash || salt; the octets VerifyPSS strips from the recovered EM are each tested for zero; DecryptPKCS1v15 returns plaintext only when valid!=0 and valid is the conjunction of the four padding tests. " +
			"R-LAYOUT: the EMSA-PKCS1-v1_5, EME-PKCS1-v1_5 and EMSA-PSS encoders write the fixed octets at the RFC offsets; R-TABLE: hashPrefixes equals the DigestInfo prefixes of RFC 8017 9.2 note 1.",
		NotCov: "numerical agreement of the math/big arithmetic (CRT, multi-prime) with crypto/rsa; OAEP encoding; Equal/Size/Precompute on malformed keys; malformed private values (nil D, bad Primes).",
		Floor:  40,
		Run:    runC23,
	})
}

func swapped(op string) string {
	switch op {
	case "lt":
		return "gt"
	case "gt":
		return "lt"
	case "le":
		return "ge"
	case "ge":
		return "le"
	}
	return op
}

// factExpr matches a branch fact by operator and the canonical expressions of its operands.
func factExpr(op, x, y string) FP {
	return func(f Fact) bool {
		fx, fy := Expr(f.X), ""
		if f.Y != nil {
			fy = Expr(f.Y)
		}
		if f.Op == op && fx == x && fy == y {
			return true
		}
		return f.Y != nil && f.Op == swapped(op) && fx == y && fy == x
	}
}

type acceptCond struct{ label, op, x, y string }

func (c *Ctx) acceptOnly(fn *ssa.Function, errIdx int, conds []acceptCond) {
	if fn == nil {
		c.Undecided("R-VSET", "?", "anchor", "-", "function not found")
		return
	}
	for _, ac := range conds {
		c.Cut(CutSpec{Rule: "R-VSET", Fn: fn, Label: "accepts only if " + ac.label, Target: SuccessReturn(errIdx, nil), Cut: factExpr(ac.op, ac.x, ac.y)})
	}
}

func runC23(c *Ctx) {
	w := c.W
	pkg := "z/rsa"
	c23Extras(c)
	c23Extras3(c)
	if w.Pkg(pkg) == nil {
		c.Undecided("R-PRE", pkg, "package", "-", "not loaded")
		return
	}
	c.keyChecks(pkg)

	// ---- checkPub
	c.acceptOnly(w.Fn(pkg+".checkPub"), 0, []acceptCond{
		{"N is present", "nonnil", "pub.N", ""},
		{"E is present", "nonnil", "pub.E", ""},
		{"E >= 2", "ge", "(*math/big.Int).Cmp(pub.E,math/big.NewInt(2))", "0"},
	})
	// ---- primitives
	c.acceptOnly(w.Fn(pkg+".encrypt"), 1, []acceptCond{{"the integer is below the modulus (RSAEP/RSAVP1 step 1)", "lt", "(*math/big.Int).Cmp((*math/big.Int).SetBytes(alloc(*big.Int),plaintext),pub.N)", "0"}})
	if fn := w.Fn(pkg + ".decrypt"); fn != nil {
		c.acceptOnly(fn, 1, []acceptCond{{"the integer is below the modulus (RSADP/RSASP1 step 1)", "lt", "(*math/big.Int).Cmp((*math/big.Int).SetBytes(alloc(*big.Int),ciphertext),priv.PublicKey.N)", "0"}})
		reenc := func(f Fact) bool {
			if f.Op != "eq" || f.Y == nil || Expr(f.Y) != "0" {
				return false
			}
			fx := Expr(f.X)
			return strings.HasPrefix(fx, "(*math/big.Int).Cmp((*math/big.Int).Exp(alloc(*big.Int),") &&
				strings.HasSuffix(fx, ",priv.PublicKey.E,priv.PublicKey.N),(*math/big.Int).SetBytes(alloc(*big.Int),ciphertext))")
		}
		c.Cut(CutSpec{Rule: "R-VSET", Fn: fn, Label: "with check set, accepts only if m^E mod N equals the input", Target: SuccessReturn(1, nil), Cut: AnyF(factExpr("false", "check", ""), reenc)})
	}
	// ---- PKCS#1 v1.5 verification
	c.acceptOnly(w.Fn(pkg+".VerifyPKCS1v15"), 0, []acceptCond{
		{"len(sig) == k (8.2.2 step 1)", "eq", "(*rsa.PublicKey).Size(pub)", "len(sig)"},
		{"RSAVP1 succeeded", "nil", "rsa.encrypt(pub,sig)#1", ""},
		{"the expected encoding could be built", "nil", "rsa.pkcs1v15ConstructEM(pub,hash,hashed)#1", ""},
		{"EM == EM' (8.2.2 step 4)", "true", "bytes.Equal(rsa.encrypt(pub,sig)#0,rsa.pkcs1v15ConstructEM(pub,hash,hashed)#0)", ""},
	})
	// ---- PSS verification
	if fn := w.Fn(pkg + ".VerifyPSS"); fn != nil {
		c.acceptOnly(fn, 0, []acceptCond{
			{"len(sig) == k (8.1.2 step 1)", "eq", "len(sig)", "(*rsa.PublicKey).Size(pub)"},
			{"RSAVP1 succeeded", "nil", "rsa.encrypt(pub,sig)#1", ""},
		})
		ok, det := false, ""
		for v := range returnClosure(fn, 0) {
			if cl := callOf(v); cl != nil && strings.HasSuffix(calleeName(&cl.Call), ".emsaPSSVerify") {
				a := cl.Call.Args
				det = fmt.Sprintf("%s | %s | %s | %s | %s", Expr(a[0]), Expr(a[1]), Expr(a[2]), Expr(a[3]), Expr(a[4]))
				// the recovered EM, possibly with leading zero octets stripped (in place or by a helper handed the EM)
				emOK := strings.HasPrefix(Expr(a[1]), "φ(rsa.encrypt(pub,sig)#0|")
				if x := stripConv(a[1]); !emOK {
					if ex, isEx := x.(*ssa.Extract); isEx {
						x = ex.Tuple
					}
					if hc := callOf(x); hc != nil && hc.Call.StaticCallee() != nil && InModule(hc.Call.StaticCallee()) && len(hc.Call.Args) > 0 && Expr(hc.Call.Args[0]) == "rsa.encrypt(pub,sig)#0" {
						emOK = true
					}
				}
				ok = Expr(a[0]) == "digest" && emOK && Expr(a[2]) == "((*math/big.Int).BitLen(pub.N)-1)" &&
					Expr(a[3]) == "(*rsa.PSSOptions).saltLength(opts)" && Expr(a[4]) == "(crypto.Hash).New(hash)"
			}
		}
		c.Check(ok, "R-PROV", "rsa.VerifyPSS", "EMSA-PSS-VERIFY receives digest, the recovered EM, modBits-1, the caller's salt length and the caller's hash", w.Pos(fn.Pos()), det)
		c.Cut(CutSpec{Rule: "R-VSET", Fn: fn, Label: "nil only through emsaPSSVerify", Target: SuccessReturn(0, IsNil(ResultOf(-1, pkg+".emsaPSSVerify"))), MinTargets: -1})
		c.strippedOctetsTested(fn, pkg+".encrypt")
	}
	if fn := w.Fn(pkg + ".emsaPSSVerify"); fn != nil {
		emLen, hLen, sL := "((emBits+7)/8)", "(hash.Hash).Size(hash)", "φ((hash.Hash).Size(hash)|sLen)"
		c.acceptOnly(fn, 0, []acceptCond{
			{"emLen == len(EM)", "eq", emLen, "len(em)"},
			{"len(mHash) == hLen (9.1.2 step 2)", "eq", hLen, "len(mHash)"},
			{"emLen >= hLen + sLen + 2 (step 3)", "ge", emLen, "((" + hLen + "+" + sL + ")+2)"},
			{"rightmost octet is 0xbc (step 4)", "eq", "em[(" + emLen + "-1)]", "188"},
			{"leftmost 8emLen-emBits bits are zero (step 6)", "eq", "(em[0]&^(255>>((8*" + emLen + ")-emBits)))", "0"},
			{"H == H' (step 14)", "true", "bytes.Equal((hash.Hash).Sum(hash,nil),em[((" + emLen + "-" + hLen + ")-1):(" + emLen + "-1)])", ""},
		})
		// step 10: separator 0x01 at DB[psLen]
		sep := func(f Fact) bool {
			if f.Op != "eq" || f.Y == nil || Expr(f.Y) != "1" {
				return false
			}
			ld, ok := f.X.(*ssa.UnOp)
			if !ok {
				return false
			}
			ia, ok := ld.X.(*ssa.IndexAddr)
			return ok && Expr(ia.X) == "em[:(("+emLen+"-"+hLen+")-1)]" && strings.HasSuffix(Expr(ia.Index), ")-2)") && strings.HasPrefix(Expr(ia.Index), "((("+emLen+"-"+hLen+")-")
		}
		c.Cut(CutSpec{Rule: "R-VSET", Fn: fn, Label: "accepts only if DB[emLen-hLen-sLen-2] == 0x01 (step 10)", Target: SuccessReturn(0, nil), Cut: sep})
		c.rangeAllZero(fn, "em[:(("+emLen+"-"+hLen+")-1)][:", "PS octets are zero (step 10)")
		// step 12/13: M' = 8 zero octets || mHash || salt
		var ws []string
		type wi struct {
			in ssa.Instruction
			s  string
		}
		var wl []wi
		for _, b := range fn.Blocks {
			for _, in := range b.Instrs {
				if cc := callCommon(in); cc != nil && cc.IsInvoke() && cc.Method.Name() == "Write" && Expr(cc.Value) == "hash" {
					wl = append(wl, wi{in, Expr(cc.Args[0])})
				}
			}
		}
		sort.SliceStable(wl, func(i, j int) bool { return instrDominates(wl[i].in, wl[j].in) })
		for _, x := range wl {
			ws = append(ws, x.s)
		}
		got := strings.Join(ws, " ; ")
		okW := len(ws) == 3 && strings.HasPrefix(ws[0], "prefix[:]") && ws[1] == "mHash" && strings.HasPrefix(ws[2], "em[:(("+emLen+"-"+hLen+")-1)][(len(em[:(("+emLen+"-"+hLen+")-1)])-")
		c.Check(okW, "R-LAYOUT", "rsa.emsaPSSVerify", "H' hashes 8 zero octets || mHash || the last sLen octets of DB", w.Pos(fn.Pos()), got)
		if len(wl) == 3 {
			// the zero prefix is never written
			if sl, ok := callCommon(wl[0].in).Args[0].(*ssa.Slice); ok {
				if al, ok := sl.X.(*ssa.Alloc); ok {
					n := 0
					for _, r := range *al.Referrers() {
						if _, isS := r.(*ssa.Slice); !isS {
							if _, isD := r.(*ssa.DebugRef); !isD {
								n++
							}
						}
					}
					c.Check(n == 0, "R-LAYOUT", "rsa.emsaPSSVerify", "the 8-octet prefix stays zero", w.InstrPos(wl[0].in), fmt.Sprint(n, " other uses"))
				}
			}
		}
	}
	// ---- PKCS#1 v1.5 decryption
	if fn := w.Fn(pkg + ".DecryptPKCS1v15"); fn != nil {
		c.acceptOnly(fn, 1, []acceptCond{
			{"decryption succeeded", "nil", "rsa.decryptPKCS1v15(priv,ciphertext)#3", ""},
			{"the padding was valid", "ne", "rsa.decryptPKCS1v15(priv,ciphertext)#0", "0"},
		})
	}
	if fn := w.Fn(pkg + ".decryptPKCS1v15"); fn != nil {
		var e string
		var leaves []string
		var flat func(v ssa.Value)
		flat = func(v ssa.Value) {
			if bo, ok := v.(*ssa.BinOp); ok && bo.Op == token.AND {
				flat(bo.X)
				flat(bo.Y)
				return
			}
			s := Expr(v)
			if i := strings.Index(s, "φ"); i > 0 {
				s = s[:i]
			}
			leaves = append(leaves, s)
		}
		for v := range returnClosure(fn, 0) {
			if _, isC := v.(*ssa.Const); !isC {
				if _, isPhi := v.(*ssa.Phi); !isPhi {
					e = Expr(v)
					flat(v)
				}
			}
		}
		sort.Strings(leaves)
		em := "rsa.decrypt(priv,ciphertext,false)#0"
		want := []string{"1", "^", "crypto/subtle.ConstantTimeByteEq(" + em + "[0],0)", "crypto/subtle.ConstantTimeByteEq(" + em + "[1],2)", "crypto/subtle.ConstantTimeLessOrEq(10,"}
		ok := strings.Join(leaves, " ; ") == strings.Join(want, " ; ")
		c.Check(ok, "R-VSET", "rsa.decryptPKCS1v15", "valid is the conjunction of EM[0]==0, EM[1]==2, a zero separator was found, and PS >= 8 octets (7.2.2 step 3)", w.Pos(fn.Pos()), e)
	}
	c.rsaLayouts(pkg)
	c.hashPrefixTable(pkg)
}

// strippedOctetsTested: every slice that drops leading octets of the value produced by src
// (directly or through the loop phi) is [1:] and is reached only past a zero test of element 0.
func (c *Ctx) strippedOctetsTested(fn *ssa.Function, src string) {
	w := c.W
	n := 0
	for _, b := range fn.Blocks {
		for _, in := range b.Instrs {
			sl, ok := in.(*ssa.Slice)
			if !ok || !strings.Contains(Expr(sl.X), "rsa.encrypt(") {
				continue
			}
			if _, isArr := sl.X.Type().Underlying().(*types.Pointer); isArr {
				continue
			}
			n++
			c.Sites++
			if sl.Low == nil {
				if sl.High != nil {
					c.Fail("R-VSET", short(FuncName(fn)), "recovered EM is not truncated on the right", w.InstrPos(in), Expr(sl))
				}
				continue
			}
			if k, isC := intConst(sl.Low); !isC || k != 1 || sl.High != nil {
				c.Fail("R-VSET", short(FuncName(fn)), "leading octets of the recovered EM are dropped one at a time behind a zero test", w.InstrPos(in), Expr(sl))
				continue
			}
			base := sl.X
			zero := func(f Fact) bool {
				if f.Op != "eq" || f.Y == nil || Expr(f.Y) != "0" {
					return false
				}
				ld, ok := f.X.(*ssa.UnOp)
				if !ok || ld.Op != token.MUL {
					return false
				}
				ia, ok := ld.X.(*ssa.IndexAddr)
				return ok && ia.X == base && Expr(ia.Index) == "0"
			}
			c.Cut(CutSpec{Rule: "R-VSET", Fn: fn, Label: "a leading octet of the recovered EM is dropped only if it is zero", Target: isInstr(in), Cut: zero})
		}
	}
	c.Infof("%s: %d slices of the recovered EM", short(FuncName(fn)), n)
}

// rangeAllZero: the range loop over the slice whose expression starts with prefix rejects on any non-zero element.
func (c *Ctx) rangeAllZero(fn *ssa.Function, prefix, label string) {
	w := c.W
	found := false
	top := fn
	// the scan may sit in a helper called directly (one level): then a non-zero element must make the helper refuse,
	// and the function must have no success exit once the helper refused
	withHelperContexts(top, func(fn *ssa.Function, cl *ssa.Call) {
		tgt := SuccessReturn(0, nil)
		if cl != nil {
			idx, acc := helperPolarity(top, fn, cl, SuccessReturn(0, nil))
			if idx < 0 {
				return
			}
			tgt = acceptTarget(idx, acc)
		}
		c.rangeAllZeroIn(fn, prefix, label, tgt, &found)
	})
	c.Check(found, "R-VSET", short(FuncName(top)), "loop found: "+label, w.Pos(top.Pos()), "")
}

func (c *Ctx) rangeAllZeroIn(fn *ssa.Function, prefix, label string, tgt func(ssa.Instruction, resolver) bool, fp *bool) {
	w := c.W
	found := *fp
	defer func() { *fp = found }()
	for _, b := range fn.Blocks {
		for _, in := range b.Instrs {
			ld, ok := in.(*ssa.UnOp)
			if !ok || ld.Op != token.MUL {
				continue
			}
			ia, ok := ld.X.(*ssa.IndexAddr)
			if !ok || !strings.HasPrefix(Expr(ia.X), prefix) {
				continue
			}
			if _, isPhi := stripIdx(ia.Index).(*ssa.Phi); !isPhi {
				continue
			}
			// the loaded element feeds an If; on its non-zero edge every path returns non-nil
			for _, r := range *ld.Referrers() {
				bo, ok := r.(*ssa.BinOp)
				if !ok || (bo.Op != token.NEQ && bo.Op != token.EQL) {
					continue
				}
				if k, isC := intConst(bo.Y); !isC || k != 0 {
					continue
				}
				for _, r2 := range *bo.Referrers() {
					ifi, ok := r2.(*ssa.If)
					if !ok {
						continue
					}
					found = true
					c.Sites++
					succ := 0
					if bo.Op == token.EQL {
						succ = 1
					}
					c.Cut(CutSpec{Rule: "R-VSET", Fn: fn, Label: "a non-zero element is rejected: " + label, StartEdges: []EdgeRef{{B: ifi.Block(), Succ: succ}}, Target: tgt, Cut: func(Fact) bool { return false }, MinTargets: -1})
				}
			}
			// the loop covers index 0..len-1: induction phi starts at -1 (range) and steps by 1
			if phi, ok := stripIdx(ia.Index).(*ssa.Phi); ok {
				e := Expr(phi)
				_, plus1 := ia.Index.(*ssa.BinOp)
				okIdx := (plus1 && (e == "φ(-1|(↺+1))" || e == "φ((↺+1)|-1)")) || (!plus1 && (e == "φ(0|(↺+1))" || e == "φ((↺+1)|0)"))
				c.Check(okIdx, "R-VSET", short(FuncName(fn)), "the zero test visits every element: "+label, w.InstrPos(in), e)
			}
		}
	}
}

func stripIdx(v ssa.Value) ssa.Value {
	if bo, ok := v.(*ssa.BinOp); ok && bo.Op == token.ADD {
		if k, isC := intConst(bo.Y); isC && k == 1 {
			return bo.X
		}
	}
	return v
}

// keyChecks implements the interprocedural R-PRE rule.
func (c *Ctx) keyChecks(pkg string) {
	w := c.W
	fns := w.FuncsOfPkg(pkg)
	checkPub := w.Fn(pkg + ".checkPub")
	if checkPub == nil {
		c.Undecided("R-PRE", pkg, "checkPub", "-", "not found")
		return
	}
	isKeyPtr := func(t types.Type) string {
		p, ok := t.Underlying().(*types.Pointer)
		if !ok {
			return ""
		}
		s := typeStr(p.Elem())
		if strings.HasSuffix(s, "rsa.PublicKey") && strings.Contains(types.TypeString(p.Elem(), nil), "zcrypto/rsa") {
			return "pub"
		}
		if strings.HasSuffix(s, "rsa.PrivateKey") && strings.Contains(types.TypeString(p.Elem(), nil), "zcrypto/rsa") {
			return "priv"
		}
		return ""
	}
	// root: which parameter a key pointer denotes
	root := func(v ssa.Value) *ssa.Parameter {
		for i := 0; i < 8; i++ {
			switch x := v.(type) {
			case *ssa.Parameter:
				if isKeyPtr(x.Type()) != "" {
					return x
				}
				return nil
			case *ssa.FieldAddr:
				if fieldLeaf(fieldName(x)) == "PublicKey" {
					v = x.X
					continue
				}
				return nil
			default:
				return nil
			}
		}
		return nil
	}
	type use struct {
		in   ssa.Instruction
		p    *ssa.Parameter
		what string
	}
	needs := map[*ssa.Parameter]bool{}
	usesOf := func(fn *ssa.Function) []use {
		var us []use
		for _, b := range fn.Blocks {
			for _, in := range b.Instrs {
				switch x := in.(type) {
				case *ssa.FieldAddr:
					if fn := fieldLeaf(fieldName(x)); fn == "N" || fn == "E" {
						if p := root(x.X); p != nil && isKeyPtr(x.X.Type()) == "pub" {
							us = append(us, use{in, p, "read of PublicKey." + fn})
						}
					}
				default:
					cc := callCommon(in)
					if cc == nil {
						continue
					}
					callee := cc.StaticCallee()
					if callee == nil || callee == checkPub {
						continue
					}
					for i, a := range cc.Args {
						p := root(a)
						if p == nil || i >= len(callee.Params) {
							continue
						}
						if needs[callee.Params[i]] {
							us = append(us, use{in, p, "call of " + short(FuncName(callee))})
						}
					}
				}
			}
		}
		return us
	}
	guard := func(p *ssa.Parameter) FP {
		return IsNil(func(v ssa.Value) bool {
			cl := callOf(v)
			return cl != nil && cl.Call.StaticCallee() == checkPub && root(cl.Call.Args[0]) == p
		})
	}
	for changed := true; changed; {
		changed = false
		for _, fn := range fns {
			if fn == checkPub || len(fn.Blocks) == 0 {
				continue
			}
			for _, u := range usesOf(fn) {
				if needs[u.p] {
					continue
				}
				r := RunCut(&CutSpec{Fn: fn, Target: isInstr(u.in), Cut: guard(u.p)})
				if r.Violated || r.Capped {
					needs[u.p] = true
					changed = true
				}
			}
		}
	}
	isEntry := func(fn *ssa.Function) bool {
		n := fn.Name()
		if !token.IsExported(n) || fn.Parent() != nil {
			return false
		}
		for _, pre := range []string{"Encrypt", "Decrypt", "Sign", "Verify", "Validate"} {
			if strings.HasPrefix(n, pre) {
				return true
			}
		}
		return false
	}
	entries, nuses := 0, 0
	for _, fn := range fns {
		if !isEntry(fn) || len(fn.Blocks) == 0 {
			continue
		}
		hasKey := false
		for _, p := range fn.Params {
			if isKeyPtr(p.Type()) != "" {
				hasKey = true
			}
		}
		if !hasKey {
			continue
		}
		entries++
		c.Saw(FuncName(fn))
		us := usesOf(fn)
		seen := map[string]int{}
		for _, u := range us {
			nuses++
			c.Sites++
			seen[u.what]++
			c.Cut(CutSpec{Rule: "R-PRE", Fn: fn, Label: fmt.Sprintf("%s #%d happens only past checkPub(%s) == nil", u.what, seen[u.what], u.p.Name()), Target: isInstr(u.in), Cut: guard(u.p)})
		}
		if len(us) == 0 {
			c.OK("R-PRE", short(FuncName(fn)), "uses the key only through callees that check it themselves", w.Pos(fn.Pos()), "")
		}
	}
	var nl []string
	for p := range needs {
		nl = append(nl, short(FuncName(p.Parent()))+"("+p.Name()+")")
	}
	sort.Strings(nl)
	c.Infof("R-PRE: %d entry points, %d key uses; functions that require a checked key: %s", entries, nuses, strings.Join(nl, ", "))
	c.Check(entries >= 10, "R-PRE", pkg, "entry points enumerated", "-", fmt.Sprint(entries))
	// encrypt, decrypt and Size must be in the requires-checked set (otherwise the rule is vacuous)
	for _, n := range []string{pkg + ".encrypt", pkg + ".decrypt", "(*" + pkg + ".PublicKey).Size"} {
		fn := w.Fn(n)
		c.Check(fn != nil && len(fn.Params) > 0 && needs[fn.Params[0]], "R-PRE", short(n), "is summarised as requiring a checked key", "-", "")
	}
}

// rsaLayouts checks the fixed octets written by the three encoders.
func (c *Ctx) rsaLayouts(pkg string) {
	w := c.W
	stores := func(fn *ssa.Function) []string {
		var out []string
		for _, b := range fn.Blocks {
			for _, in := range b.Instrs {
				switch x := in.(type) {
				case *ssa.Store:
					if ia, ok := x.Addr.(*ssa.IndexAddr); ok {
						out = append(out, Expr(ia.X)+"["+Expr(ia.Index)+"]="+Expr(x.Val))
					}
				case *ssa.Call:
					if calleeName(&x.Call) == "builtin.copy" {
						out = append(out, "copy("+Expr(x.Call.Args[0])+","+Expr(x.Call.Args[1])+")")
					}
				}
			}
		}
		sort.Strings(out)
		return out
	}
	type lay struct {
		fn   string
		what string
		want []string
	}
	k := "(*rsa.PublicKey).Size(pub)"
	em := "make([]byte," + k + ")"
	pre := "φ(nil|rsa.hashPrefixes[hash]#0)"
	pssEm := "make([]byte,((emBits+7)/8))"
	psLen := "(((((emBits+7)/8)-len(salt))-(hash.Hash).Size(hash))-2)"
	for _, l := range []lay{
		{pkg + ".pkcs1v15ConstructEM", "EM = 00 01 FF..FF 00 || DigestInfo prefix || hash (9.2)", []string{
			"copy(" + em + "[((" + k + "-len(" + pre + "))-len(hashed)):]," + pre + ")",
			"copy(" + em + "[(" + k + "-len(hashed)):],hashed)",
			em + "[1]=1",
			em + "[φ((↺+1)|2)]=255",
		}},
		{pkg + ".EncryptPKCS1v15", "EM = 00 02 PS 00 || M (7.2.1)", []string{
			"copy(" + em + "[(len(" + em + ")-len(msg)):],msg)",
			em + "[((len(" + em + ")-len(msg))-1)]=0",
			em + "[1]=2",
		}},
		{pkg + ".emsaPSSEncode", "DB = PS 01 salt; mask bits cleared; trailer BC (9.1.1)", []string{
			"copy(" + pssEm + "[:((" + psLen + "+1)+len(salt))][(" + psLen + "+1):],salt)",
			pssEm + "[(((emBits+7)/8)-1)]=188",
			pssEm + "[:((" + psLen + "+1)+len(salt))][" + psLen + "]=1",
			pssEm + "[:((" + psLen + "+1)+len(salt))][0]=(" + pssEm + "[:((" + psLen + "+1)+len(salt))][0]&(255>>((8*((emBits+7)/8))-emBits)))",
		}},
	} {
		fn := w.Fn(l.fn)
		if fn == nil {
			c.Undecided("R-LAYOUT", l.fn, "anchor", "-", "not found")
			continue
		}
		c.Sites++
		got := stores(fn)
		want := append([]string{}, l.want...)
		sort.Strings(want)
		c.Check(strings.Join(got, " ; ") == strings.Join(want, " ; "), "R-LAYOUT", short(l.fn), l.what, w.Pos(fn.Pos()), "got "+strings.Join(got, " ; "))
	}
	// the PS fill of EMSA-PKCS1-v1_5 runs up to, not including, the zero separator
	if fn := w.Fn(pkg + ".pkcs1v15ConstructEM"); fn != nil {
		for _, b := range fn.Blocks {
			for _, in := range b.Instrs {
				if st, ok := in.(*ssa.Store); ok {
					if v, isC := intConst(st.Val); isC && v == 255 {
						c.Check(anyFact(domFacts(in.Block()), factExpr("lt", "φ((↺+1)|2)", "((("+k+"-len("+pre+"))-len(hashed))-1)")), "R-LAYOUT", short(FuncName(fn)),
							"FF fill runs from offset 2 and stops before the 00 separator", w.InstrPos(in), "")
					}
				}
			}
		}
		c.acceptOnly(fn, 1, []acceptCond{
			{"at least 8 octets of padding fit (k >= tLen + 11)", "ge", k, "((((len(" + pre + ")+len(hashed))+2)+8)+1)"},
		})
	}
	if fn := w.Fn(pkg + ".EncryptPKCS1v15"); fn != nil {
		c.acceptOnly(fn, 1, []acceptCond{{"mLen <= k - 11 (7.2.1 step 1)", "le", "len(msg)", "(" + k + "-11)"}})
	}
}

// hashPrefixTable compares rsa.hashPrefixes with RFC 8017 section 9.2 note 1.
func (c *Ctx) hashPrefixTable(pkg string) {
	w := c.W
	oracle := map[string]string{
		"2":  "3020300c06082a864886f70d020505000410",             // MD5
		"3":  "3021300906052b0e03021a05000414",                   // SHA-1
		"4":  "302d300d06096086480165030402040500041c",           // SHA-224
		"5":  "3031300d060960864801650304020105000420",           // SHA-256
		"6":  "3041300d060960864801650304020205000430",           // SHA-384
		"7":  "3051300d060960864801650304020305000440",           // SHA-512
		"8":  "",                                                 // MD5+SHA1 (TLS): no prefix
		"9":  "30203008060628cf060300310414",                     // RIPEMD-160
	}
	g, ok := w.Pkg(pkg).Types.Scope().Lookup("hashPrefixes").(*types.Var)
	if !ok || g == nil {
		c.Undecided("R-TABLE", "rsa.hashPrefixes", "anchor", "-", "not found")
		return
	}
	rows := mapLiteralBytes(w, pkg, "hashPrefixes")
	c.Sites += len(rows)
	var keys []string
	for k := range oracle {
		keys = append(keys, k)
	}
	sort.Strings(keys)
	for _, k := range keys {
		got, present := rows[k]
		c.Check(present && got == oracle[k], "R-TABLE", "rsa.hashPrefixes", "DigestInfo prefix of crypto.Hash("+k+") equals RFC 8017 9.2", w.Pos(g.Pos()), got)
	}
	for k := range rows {
		if _, ok := oracle[k]; !ok {
			c.Fail("R-TABLE", "rsa.hashPrefixes", "no entry outside the RFC table: crypto.Hash("+k+")", w.Pos(g.Pos()), rows[k])
		}
	}
}
