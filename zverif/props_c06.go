package main

import (
	"fmt"
	"strings"

	"golang.org/x/tools/go/ssa"
)

const fnParseCertInt = "z/x509.parseCertificate"

func init() {
	register(&propDef{
		ID: "C06",
		Explain: "R-PROV on every store parseCertificate makes to the raw fields, fingerprints, Version, ValidityPeriod and SPKISubjectFingerprint of the new Certificate (which sub-structure's Raw/FullBytes, which fingerprint helper on which bytes, " +
			"decoded version + 1, SPKI hashed before subject); each fingerprint helper calls the hash it is named after. R-CUT: SelfSigned is only ever stored as true, only in parseCertificate, behind bytes.Equal(RawSubject, RawIssuer) and " +
			"the nil edge of CheckSignature(SignatureAlgorithm, RawTBSCertificate, Signature) on the certificate itself. The extension list hashed for FingerprintNoCT is built by appending exactly the original extensions for which both " +
			"OID tests (CT poison 1.3.6.1.4.1.11129.2.4.3, SCT list ...2.4.2) are false, and is marshalled with Raw cleared.",
		NotCov: "Canonical re-encoding equality of the stripped TBS (value property of asn1.Marshal); that in.Raw etc. are the exact sub-encodings is the ASN.1 decoder's RawContent contract (C18/C19).",
		Floor:  24,
		Run:    runC06,
	})
}

func runC06(c *Ctx) {
	w := c.W
	c06Extras(c)
	// SelfSigned is CheckSignature's verdict: the verification rules of C03 for the shared verifier apply here too
	c.borrow(runC03, func(o *Obligation) bool { return strings.Contains(o.Func, "CheckSignatureFromKey") })
	fn := w.Fn(fnParseCertInt)
	if fn == nil {
		c.Undecided("R-PROV", fnParseCertInt, "anchor", "-", "not found")
		return
	}
	var out ssa.Value
	for v := range returnClosure(fn, 0) {
		if al, ok := v.(*ssa.Alloc); ok && strings.HasSuffix(typeStr(al.Type()), "x509.Certificate") {
			out = al
		}
	}
	if out == nil {
		c.Undecided("R-PROV", fnParseCertInt, "result object", w.Pos(fn.Pos()), "no fresh Certificate flows to result 0")
		return
	}
	stores := map[string][]FieldWrite{}
	for f, ws := range w.FieldWrites() {
		if strings.HasPrefix(f, "Certificate.") {
			for _, wr := range ws {
				if wr.Fn == fn && wr.Base == out && wr.Kind == "store" {
					stores[strings.TrimPrefix(f, "Certificate.")] = append(stores[strings.TrimPrefix(f, "Certificate.")], wr)
				}
			}
		}
	}
	prov := func(field, want string) {
		ws := stores[field]
		if len(ws) != 1 {
			c.Fail("R-PROV", fnParseCertInt, "exactly one store to Certificate."+field, w.Pos(fn.Pos()), fmt.Sprint(len(ws)))
			return
		}
		c.Sites++
		got := Expr(ws[0].Val)
		c.Check(got == want, "R-PROV", fnParseCertInt, "Certificate."+field+" = "+want, w.InstrPos(ws[0].In), got)
	}
	prov("Raw", "in.Raw")
	prov("RawTBSCertificate", "in.TBSCertificate.Raw")
	prov("RawSubjectPublicKeyInfo", "in.TBSCertificate.PublicKey.Raw")
	prov("RawSubject", "in.TBSCertificate.Subject.FullBytes")
	prov("RawIssuer", "in.TBSCertificate.Issuer.FullBytes")
	prov("FingerprintMD5", "x509.MD5Fingerprint(in.Raw)")
	prov("FingerprintSHA1", "x509.SHA1Fingerprint(in.Raw)")
	prov("FingerprintSHA256", "x509.SHA256Fingerprint(in.Raw)")
	prov("SPKIFingerprint", "x509.SHA256Fingerprint(in.TBSCertificate.PublicKey.Raw)")
	prov("TBSCertificateFingerprint", "x509.SHA256Fingerprint(in.TBSCertificate.Raw)")
	prov("Version", "(in.TBSCertificate.Version+1)")
	prov("SerialNumber", "in.TBSCertificate.SerialNumber")
	prov("Signature", "(encoding/asn1.BitString).RightAlign(in.SignatureValue)")
	prov("SignatureAlgorithm", "x509.GetSignatureAlgorithmFromAI(in.TBSCertificate.SignatureAlgorithm)")
	prov("NotBefore", "in.TBSCertificate.Validity.NotBefore")
	prov("NotAfter", "in.TBSCertificate.Validity.NotAfter")
	if ws := stores["ValidityPeriod"]; len(ws) == 1 {
		e := Expr(ws[0].Val)
		c.Check(e == "int((time.Duration).Seconds((time.Time).Sub(alloc(*x509.Certificate).NotAfter,alloc(*x509.Certificate).NotBefore)))", "R-PROV", fnParseCertInt, "ValidityPeriod = int(NotAfter.Sub(NotBefore).Seconds())", w.InstrPos(ws[0].In), e)
	} else {
		c.Fail("R-PROV", fnParseCertInt, "exactly one store to Certificate.ValidityPeriod", w.Pos(fn.Pos()), fmt.Sprint(len(ws)))
	}
	// fingerprint helpers
	for _, h := range [][2]string{{"MD5Fingerprint", "crypto/md5.Sum(data)"}, {"SHA1Fingerprint", "crypto/sha1.Sum(data)"}, {"SHA256Fingerprint", "crypto/sha256.Sum256(data)"}, {"SHA512Fingerprint", "crypto/sha512.Sum512(data)"}} {
		f := w.Fn("z/x509." + h[0])
		if f == nil {
			c.Undecided("R-TABLE", "z/x509."+h[0], "anchor", "-", "not found")
			continue
		}
		ok, n := true, 0
		det := ""
		for v := range returnClosure(f, 0) {
			sl, isSl := v.(*ssa.Slice)
			if !isSl {
				continue
			}
			n++
			// slice of a local holding the call's result
			d := Deps(sl.X)
			det = depList(d)
			if !d["call:"+strings.Split(h[1], "(")[0]] || !d["param:data"] || sl.Low != nil || sl.High != nil {
				ok = false
			}
			for k := range d {
				if strings.HasPrefix(k, "call:") && k != "call:"+strings.Split(h[1], "(")[0] {
					ok = false
				}
			}
		}
		c.Check(ok && n == 1, "R-TABLE", "z/x509."+h[0], "returns the whole digest of "+h[1], w.Pos(f.Pos()), det)
	}
	// SPKISubjectFingerprint
	if ws := stores["SPKISubjectFingerprint"]; len(ws) == 1 {
		sum := callOf(ws[0].Val)
		ok := sum != nil && calleeName(&sum.Call) == fnHashSum && isNilConst(sum.Call.Args[0])
		det := ""
		if ok {
			h := sum.Call.Value
			hc := callOf(h)
			ok = hc != nil && calleeName(&hc.Call) == "crypto/sha256.New"
			var writes []ssa.Instruction
			for _, b := range fn.Blocks {
				for _, in := range b.Instrs {
					if cc := callCommon(in); cc != nil && cc.IsInvoke() && cc.Value == h && cc.Method.Name() == "Write" {
						writes = append(writes, in)
					}
				}
			}
			if len(writes) == 2 {
				a0, a1 := Expr(callCommon(writes[0]).Args[0]), Expr(callCommon(writes[1]).Args[0])
				det = a0 + " | " + a1
				ok = ok && a0 == "in.TBSCertificate.PublicKey.Raw" && a1 == "in.TBSCertificate.Subject.FullBytes" && instrDominates(writes[0], writes[1]) && instrDominates(writes[1], sum)
			} else {
				ok = false
				det = fmt.Sprintf("%d writes", len(writes))
			}
		}
		c.Check(ok, "R-LAYOUT", fnParseCertInt, "SPKISubjectFingerprint = SHA-256(SPKI || subject)", w.InstrPos(ws[0].In), det)
	} else {
		c.Fail("R-PROV", fnParseCertInt, "exactly one store to Certificate.SPKISubjectFingerprint", w.Pos(fn.Pos()), fmt.Sprint(len(ws)))
	}

	// SelfSigned
	nSS := 0
	for _, wr := range c.writesIn("z/x509", "Certificate.SelfSigned") {
		nSS++
		c.Sites++
		name := FuncName(wr.Fn)
		b, isC := boolConst(wr.Val)
		c.Check(wr.Fn == fn && wr.Base == out && isC && b, "R-OWN", name, "SelfSigned is only set (to true) by parseCertificate on the certificate being built", w.InstrPos(wr.In), Expr(wr.Val))
		if wr.Fn != fn {
			continue
		}
		outF := func(f string) VP {
			return func(v ssa.Value) bool {
				fa := loadedField(v)
				return fa != nil && fieldName(fa) == "Certificate."+f && fa.X == out
			}
		}
		c.Cut(CutSpec{Fn: fn, Label: "SelfSigned only if RawSubject and RawIssuer are byte-equal", Target: isInstr(wr.In),
			Cut: IsTrue(func(v ssa.Value) bool {
				if !ResultOf(-1, "bytes.Equal")(v) {
					return false
				}
				a := callOf(v).Call.Args
				return (outF("RawSubject")(a[0]) && outF("RawIssuer")(a[1])) || (outF("RawSubject")(a[1]) && outF("RawIssuer")(a[0]))
			})})
		c.Cut(CutSpec{Fn: fn, Label: "SelfSigned only if the certificate's signature verifies under its own key", Target: isInstr(wr.In),
			Cut: IsNil(func(v ssa.Value) bool {
				if !ResultOf(-1, fnCertCS)(v) {
					return false
				}
				a := callOf(v).Call.Args
				return a[0] == out && outF("SignatureAlgorithm")(a[1]) && outF("RawTBSCertificate")(a[2]) && outF("Signature")(a[3])
			})})
		// the inputs of that check are stored before it
		for _, f := range []string{"RawSubject", "RawIssuer", "SignatureAlgorithm", "RawTBSCertificate", "Signature", "PublicKey"} {
			ok := len(stores[f]) >= 1
			for _, s := range stores[f] {
				if !instrDominates(s.In, wr.In) {
					ok = false
				}
			}
			c.Check(ok, "R-PRE", fnParseCertInt, "out."+f+" is stored before the self-signature test", w.InstrPos(wr.In), "")
		}
	}
	c.Check(nSS == 1, "R-OWN", "z/x509", "one store to Certificate.SelfSigned", "-", fmt.Sprint(nSS))

	// FingerprintNoCT
	ws := stores["FingerprintNoCT"]
	if len(ws) != 1 {
		c.Fail("R-PROV", fnParseCertInt, "exactly one store to Certificate.FingerprintNoCT", w.Pos(fn.Pos()), fmt.Sprint(len(ws)))
		return
	}
	fp := callOf(ws[0].Val)
	if fp == nil || !nameIn(calleeName(&fp.Call), []string{"z/x509.SHA256Fingerprint"}) {
		c.Fail("R-PROV", fnParseCertInt, "FingerprintNoCT is a SHA-256 fingerprint", w.InstrPos(ws[0].In), Expr(ws[0].Val))
		return
	}
	var marshal *ssa.Call
	for v := range backClosure(fp.Call.Args[0], func(y ssa.Value) []ssa.Value {
		if ex, ok := y.(*ssa.Extract); ok {
			return []ssa.Value{ex.Tuple}
		}
		return nil
	}) {
		if cl, ok := v.(*ssa.Call); ok && nameIn(calleeName(&cl.Call), []string{"z/encoding/asn1.Marshal"}) {
			marshal = cl
		}
	}
	if marshal == nil {
		c.Fail("R-PROV", fnParseCertInt, "FingerprintNoCT hashes asn1.Marshal of the stripped TBS", w.InstrPos(fp), Expr(fp.Call.Args[0]))
		return
	}
	// the marshalled value: a local copy of in.TBSCertificate
	mi, _ := marshal.Call.Args[0].(*ssa.MakeInterface)
	var tbs *ssa.Alloc
	if mi != nil {
		if ld, ok := mi.X.(*ssa.UnOp); ok {
			tbs, _ = ld.X.(*ssa.Alloc)
		}
	}
	if tbs == nil {
		c.Fail("R-PROV", fnParseCertInt, "the marshalled value is a local copy of the TBS", w.InstrPos(marshal), Expr(marshal.Call.Args[0]))
		return
	}
	copied, rawNil := false, false
	var extStore *ssa.Store
	for _, ref := range *tbs.Referrers() {
		switch x := ref.(type) {
		case *ssa.Store:
			if x.Addr == tbs && Expr(x.Val) == "in.TBSCertificate" && instrDominates(x, marshal) {
				copied = true
			}
		case *ssa.FieldAddr:
			for _, r2 := range *x.Referrers() {
				st, ok := r2.(*ssa.Store)
				if !ok || st.Addr != x {
					continue
				}
				switch fieldName(x) {
				case "tbsCertificate.Raw":
					if isNilConst(st.Val) && instrDominates(st, marshal) {
						rawNil = true
					}
				case "tbsCertificate.Extensions":
					extStore = st
				default:
					c.Fail("R-PROV", fnParseCertInt, "the TBS copy is modified beyond Raw and Extensions", w.InstrPos(st), fieldName(x))
				}
			}
		}
	}
	c.Check(copied, "R-PROV", fnParseCertInt, "the stripped TBS starts as a copy of in.TBSCertificate", w.InstrPos(marshal), "")
	c.Check(rawNil, "R-PROV", fnParseCertInt, "the copy's Raw is cleared before marshalling (so the TBS is re-encoded, not replayed)", w.InstrPos(marshal), "")
	if extStore == nil || !instrDominates(extStore, marshal) {
		c.Fail("R-PROV", fnParseCertInt, "the copy's Extensions are replaced by the filtered list before marshalling", w.InstrPos(marshal), "")
		return
	}
	// filtered list: make(0, ...) + appends of original elements, each behind both false tests
	poison := w.globalOID("z/x509", "oidExtensionCTPrecertificatePoison")
	sctl := w.globalOID("z/x509", "oidExtensionSignedCertificateTimestampList")
	c.Check(poison == "1.3.6.1.4.1.11129.2.4.3" && sctl == "1.3.6.1.4.1.11129.2.4.2", "R-TABLE", "z/x509", "CT poison / SCT list OID values", "-", poison+" "+sctl)
	nApp := 0
	okList := true
	var orig ssa.Value
	for v := range backClosure(extStore.Val, nil) {
		switch x := v.(type) {
		case *ssa.Phi:
		case *ssa.MakeSlice:
			if k, isC := intConst(x.Len); !isC || k != 0 {
				okList = false
			}
		case *ssa.Call:
			ap := isBuiltinCall(x, "append")
			if ap == nil {
				okList = false
				continue
			}
			nApp++
			vals, spread := appended(ap)
			if spread || len(vals) != 1 {
				okList = false
				continue
			}
			// element = copy of originalExtensions[i]
			el := vals[0]
			var src *ssa.IndexAddr
			if ld, ok := el.(*ssa.UnOp); ok {
				src = rangeCopyIndex(ld.X)
			}
			if src == nil || Expr(src.X) != "in.TBSCertificate.Extensions" {
				okList = false
				continue
			}
			orig = src.X
			idOf := func(oidGlobal string) VP {
				return func(v ssa.Value) bool {
					if !ResultOf(-1, "(z/encoding/asn1.ObjectIdentifier).Equal")(v) {
						return false
					}
					a := callOf(v).Call.Args
					fa := loadedField(a[0])
					if fa == nil || fieldName(fa) != "Extension.Id" {
						return false
					}
					if ia := rangeCopyIndex(fa.X); ia == nil || ia.Index != src.Index {
						return false
					}
					return Expr(a[1]) == "x509."+oidGlobal
				}
			}
			c.Cut(CutSpec{Fn: fn, Label: "an extension enters the CT-free list only if it is not the CT poison", Target: isInstr(ap), Cut: IsFalse(idOf("oidExtensionCTPrecertificatePoison"))})
			c.Cut(CutSpec{Fn: fn, Label: "an extension enters the CT-free list only if it is not the SCT list", Target: isInstr(ap), Cut: IsFalse(idOf("oidExtensionSignedCertificateTimestampList"))})
			// every other extension is kept: from the loop body, the next iteration is reached without the append only through a true OID test
			var header *ssa.BasicBlock
			for d := ap.Block(); d != nil; d = d.Idom() {
				if d.Comment == "rangeindex.loop" {
					header = d
					break
				}
			}
			if header != nil {
				c.Cut(CutSpec{Fn: fn, Label: "every extension that is neither poison nor SCT list is kept, in order", StartEdges: []EdgeRef{{B: header, Succ: 0}},
					Target:  func(in ssa.Instruction, _ resolver) bool { return in == header.Instrs[0] },
					Barrier: func(in ssa.Instruction) bool { return in == ssa.Instruction(ap) },
					Cut:     AnyF(IsTrue(idOf("oidExtensionCTPrecertificatePoison")), IsTrue(idOf("oidExtensionSignedCertificateTimestampList")))})
			} else {
				okList = false
			}
		default:
			okList = false
		}
	}
	_ = orig
	if !okList || nApp != 1 {
		c.Undecided("R-PROV", fnParseCertInt, "construction of the CT-free extension list", w.InstrPos(extStore),
			"unrecognised construction (expected: make(0) + one append of originalExtensions[i] per iteration); got "+Expr(extStore.Val))
	} else {
		c.OK("R-PROV", fnParseCertInt, "CT-free extension list is make(0)+append of the original extensions", w.InstrPos(extStore), "")
	}
}

// globalOID resolves a package-level asn1.ObjectIdentifier variable to dotted form.
func (w *World) globalOID(pkg, name string) string {
	p := w.Pkg(pkg)
	if p == nil {
		return ""
	}
	o := p.Types.Scope().Lookup(name)
	if o == nil {
		return ""
	}
	return w.OIDKey(p, TabVal{Obj: o})
}
