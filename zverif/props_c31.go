package main

import (
	"fmt"
	"strings"

	"golang.org/x/tools/go/ssa"
)

const (
	fnDecTicket = "(*z/tls.Conn).decryptTicket"
	fnEncTicket = "(*z/tls.Conn).encryptTicket"
	fnCFR12     = "(*z/tls.serverHandshakeState).checkForResumption"
	fnCFR13     = "(*z/tls.serverHandshakeStateTLS13).checkForResumption"
	fnSetSTK    = "(*z/tls.Config).SetSessionTicketKeys"
	fnCTC       = "crypto/subtle.ConstantTimeCompare"
	fnHashSum   = "(hash.Hash).Sum"
)

func init() {
	register(&propDef{
		ID: "C31",
		Explain: "R-CUT/R-PROV on session tickets: decryptTicket returns plaintext only past a key-name match among c.ticketKeys and ConstantTimeCompare(tag, expected)==1, where the tag is the last 32 bytes of the " +
			"ticket, expected is an HMAC under the matched key over everything before the tag and is computed into storage that does not alias the ticket; the AES key is the matched key's; " +
			"encryptTicket uses ticketKeys[0]; TLS 1.2 resumption returns true, and TLS 1.3 sets usingPSK, only past non-nil plaintext of the presented ticket, a successful unmarshal of that plaintext, " +
			"the lifetime, version/suite tests and (1.3) hmac.Equal on the binder with the same index; SetSessionTicketKeys installs the new list on every path; Conn.ticketKeys comes from Config.ticketKeys.",
		NotCov: "That resumed secrets equal the original session's (value property); key rotation timing inside Config.ticketKeys.",
		Floor:  24,
		Run:    runC31,
	})
}

func runC31(c *Ctx) {
	w := c.W
	c31Extras(c)
	c31Extras3(c)
	dec := w.Fn(fnDecTicket)
	if dec == nil {
		c.Undecided("R-CUT", fnDecTicket, "anchor", "-", "not found")
		return
	}
	onlyParam := func(v ssa.Value, p string) bool {
		d := Deps(v)
		for k := range d {
			if strings.HasPrefix(k, "const:") || k == "param:"+p || k == "call:builtin.len" {
				continue
			}
			return false
		}
		return d["param:"+p]
	}
	// the comparison
	ctcs := callsIn(dec, fnCTC)
	c.Check(len(ctcs) == 1, "R-PROV", fnDecTicket, "one ConstantTimeCompare site", w.Pos(dec.Pos()), fmt.Sprint(len(ctcs)))
	var keyBase ssa.Value
	for _, in := range ctcs {
		c.Sites++
		cl := in.(*ssa.Call)
		a := cl.Call.Args
		// identify tag and expected
		var tag, exp ssa.Value
		for _, x := range a {
			if onlyParam(x, "encrypted") {
				tag = x
			} else {
				exp = x
			}
		}
		if tag == nil || exp == nil {
			c.Fail("R-PROV", fnDecTicket, "ConstantTimeCompare(tag from the ticket, expected MAC)", w.InstrPos(in), Expr(a[0])+" , "+Expr(a[1]))
			continue
		}
		c.Check(Expr(tag) == "encrypted[(len(encrypted)-32):]", "R-PROV", fnDecTicket, "tag is the last sha256.Size bytes of the ticket", w.InstrPos(in), Expr(tag))
		sum := callOf(exp)
		if sum == nil || calleeName(&sum.Call) != fnHashSum {
			c.Fail("R-PROV", fnDecTicket, "expected MAC is hash.Sum of the HMAC", w.InstrPos(in), Expr(exp))
			continue
		}
		// Sum's buffer argument must not alias the ticket
		c.Check(hasNone(Deps(sum.Call.Args[0]), "param:encrypted"), "R-PROV", fnDecTicket, "expected MAC is computed into storage that does not alias the presented ticket", w.InstrPos(sum), Expr(sum.Call.Args[0]))
		mac := sum.Call.Value
		mk := callOf(mac)
		okMac := mk != nil && calleeName(&mk.Call) == "crypto/hmac.New"
		if okMac {
			hk := Deps(mk.Call.Args[1])
			okMac = hasAll(hk, "field:ticketKey.hmacKey", "field:Conn.ticketKeys") && Expr(mk.Call.Args[0]) == "func:crypto/sha256.New"
			if sl, ok := mk.Call.Args[1].(*ssa.Slice); ok {
				if fa, ok := sl.X.(*ssa.FieldAddr); ok {
					keyBase = fa.X
				}
			}
		}
		c.Check(okMac, "R-PROV", fnDecTicket, "expected MAC is HMAC-SHA256 under a key of c.ticketKeys", w.InstrPos(sum), Expr(mac))
		// what was written into the MAC, and that it was written before Sum
		nW := 0
		for _, b := range dec.Blocks {
			for _, i2 := range b.Instrs {
				if cc := callCommon(i2); cc != nil && cc.IsInvoke() && cc.Value == mac && cc.Method.Name() == "Write" {
					nW++
					c.Check(Expr(cc.Args[0]) == "encrypted[:(len(encrypted)-32)]" && instrDominates(i2, sum), "R-PROV", fnDecTicket, "the MAC covers everything before the tag and is fed before Sum", w.InstrPos(i2), Expr(cc.Args[0]))
				}
			}
		}
		c.Check(nW == 1, "R-PROV", fnDecTicket, "exactly one Write into the MAC", w.InstrPos(sum), fmt.Sprint(nW))
		macOK := Cmp(func(v ssa.Value) bool { return v == ssa.Value(cl) }, "eq", ConstInt(1))
		c.Cut(CutSpec{Fn: dec, Label: "plaintext returned only past ConstantTimeCompare(tag, expected) == 1", Target: NonNilReturn(0, nil), Cut: macOK})
		c.Cut(CutSpec{Fn: dec, Label: "nothing is decrypted before the MAC is verified", Target: CallTo("crypto/cipher.NewCTR", "(crypto/cipher.Stream).XORKeyStream"), Cut: macOK})
	}
	// key-name match
	nameEq := IsTrue(func(v ssa.Value) bool {
		if !ResultOf(-1, "bytes.Equal")(v) {
			return false
		}
		cl := callOf(v)
		var kn, cand ssa.Value
		for _, x := range cl.Call.Args {
			if onlyParam(x, "encrypted") {
				kn = x
			} else {
				cand = x
			}
		}
		return kn != nil && cand != nil && Expr(kn) == "encrypted[:16]" && hasAll(Deps(cand), "field:ticketKey.keyName", "field:Conn.ticketKeys")
	})
	c.Cut(CutSpec{Fn: dec, Label: "plaintext returned only after the ticket's key name matched one of c.ticketKeys", Target: NonNilReturn(0, nil), Cut: nameEq})
	// the key used is the matched one: &c.ticketKeys[keyIndex] where keyIndex is assigned only on the match edge
	if keyBase != nil {
		ia, ok := keyBase.(*ssa.IndexAddr)
		good := ok && Expr(ia.X) == "c.ticketKeys"
		if good {
			phi, isPhi := ia.Index.(*ssa.Phi)
			good = isPhi
			if isPhi {
				// every non-constant incoming value arrives from a block dominated by the match edge
				for i, e := range phi.Edges {
					if _, isC := e.(*ssa.Const); isC {
						continue
					}
					pred := phi.Block().Preds[i]
					if !anyFact(domFacts(pred), nameEq) {
						good = false
					}
				}
			}
		}
		c.Check(good, "R-PROV", fnDecTicket, "the key used is c.ticketKeys[i] for the index i whose name matched", w.Pos(dec.Pos()), Expr(keyBase))
		for _, in := range callsIn(dec, "crypto/aes.NewCipher") {
			cc := callCommon(in)
			okA := false
			if sl, ok := cc.Args[0].(*ssa.Slice); ok {
				if fa, ok := sl.X.(*ssa.FieldAddr); ok && fieldName(fa) == "ticketKey.aesKey" && fa.X == keyBase {
					okA = true
				}
			}
			c.Check(okA, "R-PROV", fnDecTicket, "the AES key belongs to the same ticket key as the HMAC key", w.InstrPos(in), Expr(cc.Args[0]))
		}
	} else {
		c.Fail("R-PROV", fnDecTicket, "HMAC key base", w.Pos(dec.Pos()), "not identified")
	}
	c.Cut(CutSpec{Fn: dec, Label: "plaintext returned only for tickets of at least the minimum length", Target: NonNilReturn(0, nil), Cut: Cmp(LenOf(Param("encrypted")), "ge", ConstInt(64))})

	// encryptTicket
	if enc := w.Fn(fnEncTicket); enc == nil {
		c.Undecided("R-PROV", fnEncTicket, "anchor", "-", "not found")
	} else {
		n := 0
		for _, b := range enc.Blocks {
			for _, in := range b.Instrs {
				if ia, ok := in.(*ssa.IndexAddr); ok && Expr(ia.X) == "c.ticketKeys" {
					n++
					k, isC := intConst(ia.Index)
					c.Check(isC && k == 0, "R-PROV", fnEncTicket, "tickets are issued under ticketKeys[0]", w.InstrPos(in), Expr(ia.Index))
				}
			}
		}
		c.Check(n >= 1, "R-PROV", fnEncTicket, "reads c.ticketKeys", w.Pos(enc.Pos()), fmt.Sprint(n))
		for _, in := range callsIn(enc, "crypto/hmac.New") {
			cc := callCommon(in)
			c.Check(hasAll(Deps(cc.Args[1]), "field:ticketKey.hmacKey", "field:Conn.ticketKeys"), "R-PROV", fnEncTicket, "the MAC key is the issuing key's hmacKey", w.InstrPos(in), Expr(cc.Args[1]))
		}
		c.Cut(CutSpec{Fn: enc, Label: "no ticket without keys", Target: SuccessReturn(1, nil), Cut: Cmp(LenOf(func(v ssa.Value) bool { return Expr(v) == "c.ticketKeys" }), "ne gt", ConstInt(0))})
	}

	// TLS 1.2
	if f := w.Fn(fnCFR12); f == nil {
		c.Undecided("R-CUT", fnCFR12, "anchor", "-", "not found")
	} else {
		decs := callsIn(f, fnDecTicket)
		c.Check(len(decs) == 1, "R-PROV", fnCFR12, "one decryptTicket call", w.Pos(f.Pos()), fmt.Sprint(len(decs)))
		for _, in := range decs {
			cl := in.(*ssa.Call)
			c.Sites++
			c.Check(Expr(cl.Call.Args[1]) == "hs.clientHello.sessionTicket", "R-PROV", fnCFR12, "the ticket decrypted is the one the client presented", w.InstrPos(in), Expr(cl.Call.Args[1]))
			pt := func(v ssa.Value) bool { ex, ok := v.(*ssa.Extract); return ok && ex.Tuple == cl && ex.Index == 0 }
			c.Cut(CutSpec{Fn: f, Label: "resume only with authenticated plaintext", Target: TrueReturn(0, nil), Cut: NonNil(pt)})
			c.Cut(CutSpec{Fn: f, Label: "resume only if the plaintext parses as a session state", Target: TrueReturn(0, nil),
				Cut: IsTrue(func(v ssa.Value) bool {
					if !ResultOf(-1, "(*z/tls.sessionState).unmarshal")(v) {
						return false
					}
					return pt(callOf(v).Call.Args[1])
				})})
		}
		c.Cut(CutSpec{Fn: f, Label: "resume only within the ticket lifetime", Target: TrueReturn(0, nil),
			Cut: Cmp(ResultOf(-1, "(time.Time).Sub"), "le", w.IsConstNamed("z/tls", "maxSessionTicketLifetime"))})
		c.Cut(CutSpec{Fn: f, Label: "resume only for the same protocol version", Target: TrueReturn(0, nil),
			Cut: Cmp(func(v ssa.Value) bool { return Expr(v) == "hs.c.vers" }, "eq", func(v ssa.Value) bool { return Expr(v) == "hs.sessionState.vers" })})
		c.Cut(CutSpec{Fn: f, Label: "resume only if the client still offers the session's cipher suite", Target: TrueReturn(0, nil),
			Cut: Cmp(func(v ssa.Value) bool { return hasAll(Deps(v), "field:clientHelloMsg.cipherSuites") }, "eq", func(v ssa.Value) bool { return Expr(v) == "hs.sessionState.cipherSuite" })})
		c.Cut(CutSpec{Fn: f, Label: "resume only if the server supports the session's cipher suite", Target: TrueReturn(0, nil),
			Cut: NonNil(func(v ssa.Value) bool { return Expr(v) == "hs.suite" })})
		c.Cut(CutSpec{Fn: f, Label: "no resumption when tickets are disabled", Target: TrueReturn(0, nil), Cut: IsFalse(LoadOfField("Config.SessionTicketsDisabled"))})
		for _, wr := range c.writesIn("z/tls", "serverHandshakeState.suite") {
			if wr.Fn == f {
				c.Check(strings.Contains(Expr(wr.Val), "tls.selectCipherSuite(") && hasAll(Deps(wr.Val), "field:sessionState.cipherSuite"), "R-PROV", fnCFR12, "resumed suite is the session's suite", w.InstrPos(wr.In), Expr(wr.Val))
			}
		}
	}

	// TLS 1.3
	if f := w.Fn(fnCFR13); f == nil {
		c.Undecided("R-CUT", fnCFR13, "anchor", "-", "not found")
	} else {
		var psk []FieldWrite
		for _, wr := range c.writesIn("z/tls", "serverHandshakeStateTLS13.usingPSK") {
			psk = append(psk, wr)
		}
		c.Check(len(psk) == 1 && psk[0].Fn == f, "R-OWN", "z/tls", "usingPSK is written only in the TLS 1.3 checkForResumption", "-", fmt.Sprint(len(psk)))
		decs := callsIn(f, fnDecTicket)
		c.Check(len(decs) == 1, "R-PROV", fnCFR13, "one decryptTicket call", w.Pos(f.Pos()), fmt.Sprint(len(decs)))
		for _, wr := range psk {
			if wr.Fn != f || len(decs) != 1 {
				continue
			}
			c.Sites++
			cl := decs[0].(*ssa.Call)
			c.Check(hasAll(Deps(cl.Call.Args[1]), "field:clientHelloMsg.pskIdentities", "field:pskIdentity.label"), "R-PROV", fnCFR13, "the ticket decrypted is a presented PSK identity", w.InstrPos(cl), Expr(cl.Call.Args[1]))
			pt := func(v ssa.Value) bool { ex, ok := v.(*ssa.Extract); return ok && ex.Tuple == cl && ex.Index == 0 }
			tgt := isInstr(wr.In)
			c.Cut(CutSpec{Fn: f, Label: "PSK only with authenticated plaintext", Target: tgt, Cut: NonNil(pt)})
			c.Cut(CutSpec{Fn: f, Label: "PSK only if the plaintext parses as a session state", Target: tgt,
				Cut: IsTrue(func(v ssa.Value) bool {
					if !ResultOf(-1, "(*z/tls.sessionStateTLS13).unmarshal")(v) {
						return false
					}
					return pt(callOf(v).Call.Args[1])
				})})
			c.Cut(CutSpec{Fn: f, Label: "PSK only within the ticket lifetime", Target: tgt,
				Cut: Cmp(ResultOf(-1, "(time.Time).Sub"), "le", w.IsConstNamed("z/tls", "maxSessionTicketLifetime"))})
			c.Cut(CutSpec{Fn: f, Label: "PSK only if the session's suite exists", Target: tgt, Cut: NonNil(ResultOf(-1, "z/tls.cipherSuiteTLS13ByID"))})
			c.Cut(CutSpec{Fn: f, Label: "PSK only if the session's hash equals the negotiated suite's", Target: tgt,
				Cut: Cmp(LoadOfField("cipherSuiteTLS13.hash"), "eq", LoadOfField("cipherSuiteTLS13.hash"))})
			binder := IsTrue(func(v ssa.Value) bool {
				if !ResultOf(-1, "crypto/hmac.Equal")(v) {
					return false
				}
				a := callOf(v).Call.Args
				var pres, comp ssa.Value
				for _, x := range a {
					if hasAll(Deps(x), "field:clientHelloMsg.pskBinders") {
						pres = x
					} else {
						comp = x
					}
				}
				if pres == nil || comp == nil {
					return false
				}
				// same index as the identity
				pi := loadedIndex(pres)
				li := rangeCopyIndex(loadedFieldBase(cl.Call.Args[1]))
				if pi == nil || li == nil || pi.Index != li.Index {
					return false
				}
				d := Deps(comp)
				return hasAll(d, "field:sessionStateTLS13.resumptionSecret", "call:(*tls.cipherSuiteTLS13).finishedHash")
			})
			c.Cut(CutSpec{Fn: f, Label: "PSK only past hmac.Equal(presented binder i, binder computed from the ticket's resumption secret)", Target: tgt, Cut: binder})
			c.Cut(CutSpec{Fn: f, Label: "no PSK when tickets are disabled", Target: tgt, Cut: IsFalse(LoadOfField("Config.SessionTicketsDisabled"))})
			b, isC := boolConst(wr.Val)
			c.Check(isC && b, "R-OWN", fnCFR13, "usingPSK is only ever set to true", w.InstrPos(wr.In), Expr(wr.Val))
		}
	}

	// key installation
	if f := w.Fn(fnSetSTK); f == nil {
		c.Undecided("R-PRE", fnSetSTK, "anchor", "-", "not found")
	} else {
		var st ssa.Instruction
		for _, wr := range c.writesIn("z/tls", "Config.sessionTicketKeys") {
			if wr.Fn == f && wr.Kind == "store" {
				st = wr.In
				mk, isMk := wr.Val.(*ssa.MakeSlice)
				c.Check(isMk && Expr(mk.Len) == "len(keys)", "R-PROV", fnSetSTK, "the installed list has one key per supplied key", w.InstrPos(wr.In), Expr(wr.Val))
			}
		}
		if st == nil {
			c.Fail("R-PRE", fnSetSTK, "installs the new key list", w.Pos(f.Pos()), "no store to Config.sessionTicketKeys")
		} else {
			c.Cut(CutSpec{Rule: "R-PRE", Fn: f, Label: "the new key list is installed on every path (rotated-out keys never stay live)", Target: isReturn, Barrier: func(in ssa.Instruction) bool { return in == st }})
		}
	}
	nCT := 0
	for _, wr := range c.writesIn("z/tls", "Conn.ticketKeys") {
		nCT++
		c.Sites++
		c.Check(wr.Kind == "store" && ResultOf(-1, "(*z/tls.Config).ticketKeys")(wr.Val), "R-OWN", FuncName(wr.Fn), "Conn.ticketKeys is taken from Config.ticketKeys", w.InstrPos(wr.In), Expr(wr.Val))
	}
	c.Check(nCT >= 1, "R-OWN", "z/tls", "writers of Conn.ticketKeys enumerated", "-", fmt.Sprint(nCT))
}

// rangeCopyIndex: v is either &s[i] itself or a local that holds a copy of
// s[i] (the value variable of a range loop); returns the IndexAddr.
func rangeCopyIndex(v ssa.Value) *ssa.IndexAddr {
	switch x := v.(type) {
	case *ssa.IndexAddr:
		return x
	case *ssa.Alloc:
		var found *ssa.IndexAddr
		for _, ref := range *x.Referrers() {
			if st, ok := ref.(*ssa.Store); ok && st.Addr == x {
				if ia := loadedIndex(st.Val); ia != nil {
					found = ia
				} else {
					return nil
				}
			}
		}
		return found
	}
	return nil
}

// loadedFieldBase: for a load of x.f returns x (the struct address operand).
func loadedFieldBase(v ssa.Value) ssa.Value {
	if fa := loadedField(v); fa != nil {
		return fa.X
	}
	return nil
}
