package main

import (
	"fmt"
	"go/token"
	"go/types"
	"sort"
	"strings"

	"golang.org/x/tools/go/ssa"
)

func init() {
	register(&propDef{
		ID: "C34",
		Explain: "Locking discipline of package tls (non-test code). R-LOCK pairing: from every Lock/RLock call, every path to a function exit passes the matching Unlock/RUnlock or a defer of it. R-ATOMIC: Conn.handshakeStatus and Conn.activeCall are touched only through sync/atomic. " +
			"R-LOCK must-hold (interprocedural greatest fixpoint over the call graph: a function inherits the locks held at all of its call sites; exported and goroutine entry points inherit nothing): the record reader functions run with Conn.in held; writeRecordLocked/sendAlertLocked/flush/write and every state change of the outgoing half " +
			"(setTrafficSecret, prepareCipherSpec, changeCipherSpec, encrypt, incSeq, setErrorLocked on c.out) run with Conn.out or the handshake mutex held, those of the incoming half with Conn.in held; clientHandshake/serverHandshake run with the handshake mutex and Conn.in held; handshakeStatus is stored only with the handshake mutex held. " +
			"R-ORDER: the must-hold acquisition order has no cycle other than the documented Conn.in -> handshakeMutex edge of handleRenegotiation, which occurs only there.",
		NotCov: "deadlock freedom in general (may-hold order, blocking I/O under deadlines) and preservation of each direction's byte stream; which Conn a lock belongs to is not distinguished (one connection per handshake state).",
		Floor:  60,
		Run:    runC34,
	})
}

type lockSite struct {
	in   ssa.Instruction
	id   string
	kind string // Lock | RLock | Unlock | RUnlock
	dfr  bool
}

func syncLockKind(cc *ssa.CallCommon) string {
	switch calleeName(cc) {
	case "(*sync.Mutex).Lock", "(*sync.RWMutex).Lock":
		return "Lock"
	case "(*sync.Mutex).Unlock", "(*sync.RWMutex).Unlock":
		return "Unlock"
	case "(*sync.RWMutex).RLock":
		return "RLock"
	case "(*sync.RWMutex).RUnlock":
		return "RUnlock"
	}
	return ""
}

// lockID names a mutex by the struct field path that holds it (object-insensitive).
func lockID(v ssa.Value) string {
	for i := 0; i < 8; i++ {
		switch x := v.(type) {
		case *ssa.FieldAddr:
			name := fieldName(x)
			leaf := fieldLeaf(name)
			if (leaf == "Mutex" || leaf == "RWMutex") && isEmbeddedSync(x) {
				// embedded mutex: name the enclosing object by the field that holds it, if any
				if outer, ok := x.X.(*ssa.FieldAddr); ok {
					return fieldName(outer)
				}
				return name
			}
			return name
		case *ssa.Global:
			return "global:" + x.Name()
		case *ssa.UnOp:
			v = x.X
		case *ssa.Phi:
			return "?"
		default:
			return "?"
		}
	}
	return "?"
}

func isEmbeddedSync(fa *ssa.FieldAddr) bool {
	t := fa.X.Type()
	if p, ok := t.Underlying().(*types.Pointer); ok {
		t = p.Elem()
	}
	st, ok := t.Underlying().(*types.Struct)
	return ok && fa.Field < st.NumFields() && st.Field(fa.Field).Embedded()
}

func lockSitesOf(fn *ssa.Function) []lockSite {
	var out []lockSite
	for _, b := range fn.Blocks {
		for _, in := range b.Instrs {
			cc := callCommon(in)
			if cc == nil {
				continue
			}
			k := syncLockKind(cc)
			if k == "" || len(cc.Args) == 0 {
				continue
			}
			_, isDefer := in.(*ssa.Defer)
			out = append(out, lockSite{in, lockID(cc.Args[0]), k, isDefer})
		}
	}
	return out
}

func blockReaches(from, to *ssa.BasicBlock) bool {
	if from == to {
		return true
	}
	seen := map[*ssa.BasicBlock]bool{}
	work := []*ssa.BasicBlock{from}
	for len(work) > 0 {
		b := work[len(work)-1]
		work = work[:len(work)-1]
		if seen[b] {
			continue
		}
		seen[b] = true
		for _, s := range b.Succs {
			if s == to {
				return true
			}
			work = append(work, s)
		}
	}
	return false
}

func instrIndex(in ssa.Instruction) int {
	for i, x := range in.Block().Instrs {
		if x == in {
			return i
		}
	}
	return -1
}

// heldAt: locks acquired in fn that are certainly held when `at` executes.
func heldAt(sites []lockSite, at ssa.Instruction) map[string]bool {
	held := map[string]bool{}
	for _, l := range sites {
		if l.dfr || (l.kind != "Lock" && l.kind != "RLock") || l.in == at || !instrDominates(l.in, at) {
			continue
		}
		released := false
		for _, u := range sites {
			if u.dfr || u.id != l.id || (u.kind != "Unlock" && u.kind != "RUnlock") {
				continue
			}
			if !instrDominates(l.in, u.in) {
				continue
			}
			// u lies between l and at on some path?
			if u.in.Block() == at.Block() {
				if instrIndex(u.in) < instrIndex(at) {
					released = true
				} else if blockReaches2(u.in.Block(), at.Block()) {
					released = true
				}
			} else if blockReaches(u.in.Block(), at.Block()) {
				released = true
			}
		}
		if !released {
			held[l.id] = true
		}
	}
	return held
}

// blockReaches2: b reaches itself through a cycle.
func blockReaches2(b, to *ssa.BasicBlock) bool {
	for _, s := range b.Succs {
		if blockReaches(s, to) {
			return true
		}
	}
	return false
}

func runC34(c *Ctx) {
	w := c.W
	pkg := "z/tls"
	c34Extras(c)
	rawInputOwners(c)
	c25WriteRules(c)
	if w.Pkg(pkg) == nil {
		c.Undecided("R-LOCK", pkg, "package", "-", "not loaded")
		return
	}
	inTests := func(fn *ssa.Function) bool { return strings.HasSuffix(w.RelFile(fn.Pos()), "_test.go") }
	var fns []*ssa.Function
	for _, fn := range w.FuncsOfPkg(pkg) {
		if !inTests(fn) && len(fn.Blocks) > 0 {
			fns = append(fns, fn)
		}
	}
	sitesOf := map[*ssa.Function][]lockSite{}
	for _, fn := range fns {
		sitesOf[fn] = lockSitesOf(fn)
	}

	// ---------------- pairing
	npair := 0
	for _, fn := range fns {
		per := map[string]int{}
		for _, l := range sitesOf[fn] {
			if l.dfr || (l.kind != "Lock" && l.kind != "RLock") {
				continue
			}
			npair++
			c.Sites++
			c.Saw(FuncName(fn))
			want := "Unlock"
			if l.kind == "RLock" {
				want = "RUnlock"
			}
			if l.id == "?" {
				c.Undecided("R-LOCK", short(FuncName(fn)), "mutex of "+l.kind+" identified", w.InstrPos(l.in), Expr(callCommon(l.in).Args[0]))
				continue
			}
			per[l.id+l.kind]++
			id := l.id
			release := func(in ssa.Instruction) bool {
				cc := callCommon(in)
				return cc != nil && syncLockKind(cc) == want && len(cc.Args) > 0 && lockID(cc.Args[0]) == id
			}
			anyExit := func(in ssa.Instruction, _ resolver) bool {
				switch in.(type) {
				case *ssa.Return:
					return true
				}
				return false
			}
			c.Cut(CutSpec{Rule: "R-LOCK", Fn: fn, Label: fmt.Sprintf("%s of %s #%d is released (or its release deferred) on every path to a return", l.kind, l.id, per[l.id+l.kind]), StartAfter: l.in, Target: anyExit, Barrier: release, Cut: func(Fact) bool { return false }, MinTargets: -1})
		}
	}
	c.Check(npair >= 20, "R-LOCK", pkg, "lock acquisitions enumerated", "-", fmt.Sprint(npair))

	// ---------------- atomic-only fields
	for _, f := range []string{"Conn.handshakeStatus", "Conn.activeCall"} {
		n := 0
		for _, fn := range fns {
			for _, b := range fn.Blocks {
				for _, in := range b.Instrs {
					fa, ok := in.(*ssa.FieldAddr)
					if !ok || fieldName(fa) != f {
						continue
					}
					for _, r := range *fa.Referrers() {
						n++
						c.Sites++
						cc := callCommon(r)
						ok := cc != nil && strings.HasPrefix(calleeName(cc), "sync/atomic.")
						if _, isDbg := r.(*ssa.DebugRef); isDbg {
							n--
							continue
						}
						c.Check(ok, "R-ATOMIC", short(FuncName(fn)), fmt.Sprintf("access #%d of %s goes through sync/atomic", n, f), w.InstrPos(r), r.String())
					}
				}
			}
		}
		c.Check(n >= 4, "R-ATOMIC", f, "accesses enumerated", "-", fmt.Sprint(n))
	}

	// ---------------- inherited must-hold sets
	all := map[string]bool{}
	for _, fn := range fns {
		for _, l := range sitesOf[fn] {
			if l.id != "?" {
				all[l.id] = true
			}
		}
	}
	isEntry := func(fn *ssa.Function) bool {
		if fn.Parent() != nil {
			return false
		}
		return token.IsExported(fn.Name()) || fn.Name() == "init"
	}
	type site struct {
		caller *ssa.Function
		in     ssa.Instruction
	}
	callers := map[*ssa.Function][]site{}
	inPkg := map[*ssa.Function]bool{}
	for _, fn := range fns {
		inPkg[fn] = true
	}
	cg := w.CG()
	for _, fn := range fns {
		node := cg.Nodes[fn]
		if node == nil {
			continue
		}
		for _, e := range node.In {
			if e.Caller.Func == nil || !inPkg[e.Caller.Func] || e.Site == nil {
				continue
			}
			callers[fn] = append(callers[fn], site{e.Caller.Func, e.Site})
		}
	}
	// closures called by their parent: a MakeClosure used only as the callee of a direct call or defer
	holds := map[*ssa.Function]map[string]bool{}
	for _, fn := range fns {
		if isEntry(fn) || len(callers[fn]) == 0 {
			holds[fn] = map[string]bool{}
		} else {
			m := map[string]bool{}
			for k := range all {
				m[k] = true
			}
			holds[fn] = m
		}
	}
	atSite := func(s site) map[string]bool {
		h := heldAt(sitesOf[s.caller], s.in)
		if _, isGo := s.in.(*ssa.Go); isGo {
			return map[string]bool{}
		}
		for k := range holds[s.caller] {
			h[k] = true
		}
		return h
	}
	for changed := true; changed; {
		changed = false
		for _, fn := range fns {
			if isEntry(fn) || len(callers[fn]) == 0 {
				continue
			}
			for k := range holds[fn] {
				for _, s := range callers[fn] {
					if !atSite(s)[k] {
						delete(holds[fn], k)
						changed = true
						break
					}
				}
			}
		}
	}
	heldFull := func(fn *ssa.Function, at ssa.Instruction) map[string]bool {
		h := heldAt(sitesOf[fn], at)
		for k := range holds[fn] {
			h[k] = true
		}
		return h
	}
	setStr := func(m map[string]bool) string {
		var ks []string
		for k := range m {
			ks = append(ks, k)
		}
		sort.Strings(ks)
		return "{" + strings.Join(ks, ",") + "}"
	}

	// ---------------- required locks
	const IN, OUT, HS = "Conn.in", "Conn.out", "Conn.handshakeMutex"
	type req struct {
		anyOf []string
		allOf []string
	}
	connReq := map[string]req{
		"readRecordOrCCS": {allOf: []string{IN}}, "readRecord": {allOf: []string{IN}}, "readChangeCipherSpec": {allOf: []string{IN}}, "readHandshake": {allOf: []string{IN}}, "retryReadRecord": {allOf: []string{IN}},
		"writeRecordLocked": {anyOf: []string{OUT}}, "sendAlertLocked": {anyOf: []string{OUT}}, "flush": {anyOf: []string{OUT, HS}}, "write": {anyOf: []string{OUT, HS}},
		"clientHandshake": {allOf: []string{HS, IN}}, "serverHandshake": {allOf: []string{HS, IN}},
	}
	halfMut := map[string]bool{"setTrafficSecret": true, "prepareCipherSpec": true, "changeCipherSpec": true, "encrypt": true, "decrypt": true, "incSeq": true, "setErrorLocked": true}
	nreq := 0
	for _, fn := range fns {
		seen := map[string]int{}
		for _, b := range fn.Blocks {
			for _, in := range b.Instrs {
				cc := callCommon(in)
				if cc == nil {
					continue
				}
				var need req
				what := ""
				if callee := cc.StaticCallee(); callee != nil && callee.Signature.Recv() != nil {
					recvT := typeStr(callee.Signature.Recv().Type())
					switch {
					case strings.HasSuffix(recvT, "tls.Conn"):
						if r, ok := connReq[callee.Name()]; ok {
							need, what = r, "call of Conn."+callee.Name()
						}
					case strings.HasSuffix(recvT, "tls.halfConn") && halfMut[callee.Name()]:
						switch lockIDOfHalf(cc.Args[0]) {
						case OUT:
							need, what = req{anyOf: []string{OUT, HS}}, "call of c.out."+callee.Name()
						case IN:
							need, what = req{anyOf: []string{IN}}, "call of c.in."+callee.Name()
						}
					}
				}
				if strings.HasPrefix(calleeName(cc), "sync/atomic.Store") && len(cc.Args) > 0 {
					if fa, ok := cc.Args[0].(*ssa.FieldAddr); ok && fieldName(fa) == "Conn.handshakeStatus" {
						need, what = req{allOf: []string{HS}}, "store of Conn.handshakeStatus"
					}
				}
				if what == "" {
					continue
				}
				// functions of halfConn itself operate on their receiver under the caller's lock
				if fn.Signature.Recv() != nil && strings.HasSuffix(typeStr(fn.Signature.Recv().Type()), "tls.halfConn") {
					continue
				}
				nreq++
				c.Sites++
				seen[what]++
				h := heldFull(fn, in)
				ok := true
				for _, l := range need.allOf {
					ok = ok && h[l]
				}
				if len(need.anyOf) > 0 {
					any := false
					for _, l := range need.anyOf {
						any = any || h[l]
					}
					ok = ok && any
				}
				wantS := strings.Join(need.allOf, " and ")
				if len(need.anyOf) > 0 {
					if wantS != "" {
						wantS += " and "
					}
					wantS += strings.Join(need.anyOf, " or ")
				}
				c.Check(ok, "R-LOCK", short(FuncName(fn)), fmt.Sprintf("%s #%d runs with %s held", what, seen[what], wantS), w.InstrPos(in), "held "+setStr(h)+" (inherited "+setStr(holds[fn])+")")
			}
		}
	}
	c.Check(nreq >= 40, "R-LOCK", pkg, "lock-requiring sites enumerated", "-", fmt.Sprint(nreq))

	// ---------------- the sticky error of a half is read under that half's lock
	nerr := 0
	for _, fn := range fns {
		if fn.Signature.Recv() != nil && strings.HasSuffix(typeStr(fn.Signature.Recv().Type()), "tls.halfConn") {
			continue
		}
		k := 0
		for _, b := range fn.Blocks {
			for _, in := range b.Instrs {
				ld, ok := in.(*ssa.UnOp)
				if !ok || ld.Op != token.MUL {
					continue
				}
				fa, ok := ld.X.(*ssa.FieldAddr)
				if !ok || fieldName(fa) != "halfConn.err" {
					continue
				}
				half := lockIDOfHalf(fa.X)
				var anyOf []string
				switch half {
				case OUT:
					anyOf = []string{OUT, HS}
				case IN:
					anyOf = []string{IN}
				default:
					continue
				}
				nerr++
				k++
				c.Sites++
				h := heldFull(fn, in)
				ok = false
				for _, l := range anyOf {
					ok = ok || h[l]
				}
				c.Check(ok, "R-LOCK", short(FuncName(fn)), fmt.Sprintf("read #%d of %s.err runs with %s held (a decision taken on an unlocked read can be overtaken by the goroutine that latches the error)", k, half, strings.Join(anyOf, " or ")), w.InstrPos(in), "held "+setStr(h))
			}
		}
	}
	c.Check(nerr >= 2, "R-LOCK", pkg, "reads of the sticky errors enumerated", "-", fmt.Sprint(nerr))

	// ---------------- acquisition order
	edges := map[string][]string{}
	for _, fn := range fns {
		for _, l := range sitesOf[fn] {
			if l.dfr || (l.kind != "Lock" && l.kind != "RLock") || l.id == "?" {
				continue
			}
			for h := range heldFull(fn, l.in) {
				if h != l.id {
					edges[h+" -> "+l.id] = append(edges[h+" -> "+l.id], short(FuncName(fn)))
				}
			}
		}
	}
	var es []string
	for e := range edges {
		es = append(es, e)
	}
	sort.Strings(es)
	c.Infof("must-hold acquisition order: %s", strings.Join(es, " ; "))
	for _, e := range es {
		fnsOf := uniqSorted(edges[e])
		if e == IN+" -> "+HS {
			c.Check(len(fnsOf) == 1 && fnsOf[0] == "(*tls.Conn).handleRenegotiation", "R-ORDER", "tls", "the inverted edge Conn.in -> handshakeMutex occurs only in handleRenegotiation", "-", strings.Join(fnsOf, ","))
			continue
		}
		parts := strings.Split(e, " -> ")
		rev := parts[1] + " -> " + parts[0]
		_, hasRev := edges[rev]
		if hasRev && rev == IN+" -> "+HS {
			hasRev = false // the documented exception, checked above
		}
		c.Check(!hasRev, "R-ORDER", "tls", "no opposite acquisition order for "+e, "-", strings.Join(fnsOf, ","))
	}
	c.Check(len(es) >= 2, "R-ORDER", pkg, "order edges enumerated", "-", fmt.Sprint(len(es)))
}

func uniqSorted(s []string) []string {
	t := append([]string{}, s...)
	sort.Strings(t)
	return uniq(t)
}

// lockIDOfHalf: which half of the connection a *halfConn value denotes.
func lockIDOfHalf(v ssa.Value) string {
	if fa, ok := v.(*ssa.FieldAddr); ok {
		return fieldName(fa)
	}
	return "?"
}
