package main

import (
	"fmt"
	"go/token"
	"go/types"
	"sort"
	"strings"

	"golang.org/x/tools/go/ssa"
)

// parserEntryPoints: the functions that decode attacker-controlled bytes (C01 scope roots).
func parserEntryPoints(w *World) []*ssa.Function {
	var roots []*ssa.Function
	add := func(fn *ssa.Function) {
		if fn != nil && len(fn.Blocks) > 0 && !strings.HasSuffix(w.RelFile(fn.Pos()), "_test.go") {
			roots = append(roots, fn)
		}
	}
	byPrefix := func(pkg string, prefixes ...string) {
		for _, fn := range w.FuncsOfPkg(pkg) {
			if fn.Parent() != nil || fn.Signature.Recv() != nil {
				continue
			}
			for _, p := range prefixes {
				if strings.HasPrefix(fn.Name(), p) {
					add(fn)
				}
			}
		}
	}
	byPrefix("z/encoding/asn1", "Unmarshal")
	byPrefix("z/x509", "Parse")
	byPrefix("z/ct/x509", "Parse")
	byPrefix("z/ct", "Deserialize", "Unmarshal", "Read")
	byPrefix("z/x509/ct", "Deserialize", "Unmarshal", "Read")
	byPrefix("z/x509/revocation/ocsp", "Parse")
	byPrefix("z/x509/revocation/google", "Parse", "Fetch")
	byPrefix("z/x509/revocation/mozilla", "Parse")
	byPrefix("z/x509/revocation/microsoft", "Parse")
	byPrefix("z/rsa", "Verify", "Encrypt")
	for _, fn := range w.FuncsOfPkg("z/cryptobyte") {
		if fn.Signature.Recv() != nil && strings.HasSuffix(typeStr(fn.Signature.Recv().Type()), "cryptobyte.String") && fn.Parent() == nil {
			add(fn)
		}
	}
	for _, fn := range w.FuncsOfPkg("z/tls") {
		if fn.Signature.Recv() != nil && (fn.Name() == "unmarshal" || fn.Name() == "UnmarshalJSON") && strings.HasSuffix(w.RelFile(fn.Pos()), "handshake_messages.go") {
			add(fn)
		}
	}
	for _, fn := range w.FuncsOfPkg("z/x509/revocation/mozilla") {
		if fn.Name() == "UnmarshalJSON" {
			add(fn)
		}
	}
	sort.Slice(roots, func(i, j int) bool { return FuncName(roots[i]) < FuncName(roots[j]) })
	return roots
}

func parserScope(w *World) (roots []*ssa.Function, scope []*ssa.Function) {
	roots = parserEntryPoints(w)
	reach := w.Reachable(roots, func(fn *ssa.Function) bool { return !InModule(fn) })
	for fn := range reach {
		if InModule(fn) && len(fn.Blocks) > 0 && !strings.HasSuffix(w.RelFile(fn.Pos()), "_test.go") {
			scope = append(scope, fn)
		}
	}
	sort.Slice(scope, func(i, j int) bool { return FuncName(scope[i]) < FuncName(scope[j]) })
	return
}

// boundsSurvey runs the bounds prover silently and reports per function (proved, unproved).
func boundsSurvey(w *World, fns []*ssa.Function) {
	tot, bad := 0, 0
	full := 0
	for _, fn := range fns {
		sub := &Ctx{W: w, FnsSeen: map[string]bool{}}
		n := sub.BoundsObligations(fn, "R-BOUNDS", nil)
		nb := 0
		for _, o := range sub.Obls {
			if o.Verdict != "discharged" {
				nb++
			}
		}
		tot += n
		bad += nb
		if nb == 0 && n > 0 {
			full++
		}
		if n > 0 {
			fmt.Printf("%-70s sites=%d unproved=%d\n", short(FuncName(fn)), n, nb)
		}
	}
	fmt.Printf("TOTAL functions=%d fully proved (with sites)=%d sites=%d unproved=%d\n", len(fns), full, tot, bad)
}

func init() {
	register(&propDef{
		ID: "C01",
		Explain: "Scope: the call-graph closure (in-module, non-test) of the entry points that decode untrusted bytes (asn1.Unmarshal*, cryptobyte.String readers, x509 and ct/x509 Parse*, ct and x509/ct readers, ocsp/google/mozilla/microsoft Parse, TLS handshake unmarshal methods, rsa Verify*/Encrypt*). " +
			"R-LOOP: in every loop of the scope the variables (or cursor object) the exit tests read change on every back edge: no cycle leaves all of them untouched (hang). R-ERR: a pointer result of a call that also returns an error is dereferenced only past err == nil or an explicit nil test. " +
			"R-NILPTR: a pointer variable whose address was handed to json.Unmarshal is dereferenced only behind a nil test (JSON null). R-GUARD: a byte string becomes an ed25519.PublicKey on a success path only past len == 32 (ed25519.Verify panics otherwise; reached from the self-signature test in parseCertificate). " +
			"R-ALLOC: in the io.Reader based parsers (ct, x509/ct, microsoft, google) a buffer whose length or capacity was read from the input is allocated only past an upper bound on that length. R-FRESH: inside a loop, a decoder never fills an object with optional members that was allocated outside the loop and not reset (stale fields from the previous element), and no buffer allocated outside the loop is handed out per element. R-PANIC: no function of the scope ends in panic on all paths. " +
			"R-BOUNDS: for the functions listed in c01_covered.go (those the bounds prover discharged completely when the list was frozen) every index and slice bound is covered by a length test on every path.",
		NotCov: "index and slice bounds in scope functions outside the covered list (the prover is incomplete for loop-carried relational invariants), nil dereferences outside the shapes above, recursion depth, CPU time of math/big, the standard library's own behaviour.",
		Floor:  250,
		Run:    runC01,
	})
}

func runC01(c *Ctx) {
	w := c.W
	roots, scope := parserScope(w)
	c.Infof("scope: %d entry points, %d functions in their closure", len(roots), len(scope))
	c.Check(len(roots) >= 80 && len(scope) >= 250, "R-SCOPE", "parsers", "entry points and closure enumerated", "-", fmt.Sprintf("%d roots, %d functions", len(roots), len(scope)))
	for _, fn := range scope {
		c.Saw(FuncName(fn))
	}

	// ---------------- R-LOOP
	nloops := 0
	kinds := map[string]int{}
	for _, fn := range scope {
		k := 0
		for _, l := range natLoops(fn) {
			k++
			nloops++
			c.Sites++
			v := checkLoopProgress(l)
			kinds[v.kind]++
			pos := w.InstrPos(l.header.Instrs[len(l.header.Instrs)-1])
			c.Check(v.ok, "R-LOOP", short(FuncName(fn)), fmt.Sprintf("loop #%d makes progress on every cycle", k), pos, v.kind+": "+v.detail)
		}
	}
	c.Infof("R-LOOP: %d loops: %v", nloops, kinds)

	// ---------------- R-ERR: result pointer used only after the error check
	nerr := 0
	for _, fn := range scope {
		k := 0
		for _, b := range fn.Blocks {
			for _, in := range b.Instrs {
				cl, ok := in.(*ssa.Call)
				if !ok {
					continue
				}
				tup, ok := cl.Type().(*types.Tuple)
				if !ok || tup.Len() < 2 || !types.Identical(tup.At(tup.Len()-1).Type(), types.Universe.Lookup("error").Type()) {
					continue
				}
				var errX ssa.Value
				var ptrs []*ssa.Extract
				for _, r := range *cl.Referrers() {
					ex, ok := r.(*ssa.Extract)
					if !ok {
						continue
					}
					if ex.Index == tup.Len()-1 {
						errX = ex
					} else if _, isPtr := ex.Type().Underlying().(*types.Pointer); isPtr {
						ptrs = append(ptrs, ex)
					}
				}
				for _, p := range ptrs {
					for _, use := range *p.Referrers() {
						deref := false
						switch u := use.(type) {
						case *ssa.FieldAddr:
							deref = u.X == ssa.Value(p)
						case *ssa.UnOp:
							deref = u.Op == token.MUL && u.X == ssa.Value(p)
						case *ssa.IndexAddr:
							deref = u.X == ssa.Value(p)
						}
						if !deref {
							continue
						}
						k++
						nerr++
						c.Sites++
						pv, ev := ssa.Value(p), errX
						cut := func(f Fact) bool {
							if f.Op == "nonnil" && f.X == pv {
								return true
							}
							return f.Op == "nil" && ev != nil && f.X == ev
						}
						c.Cut(CutSpec{Rule: "R-ERR", Fn: fn, Label: fmt.Sprintf("result of %s is dereferenced only after its error was checked (#%d)", short(calleeName(&cl.Call)), k), Target: isInstr(use), Cut: cut})
					}
				}
			}
		}
	}
	c.Check(nerr >= 5, "R-ERR", "parsers", "dereferences of fallible results enumerated", "-", fmt.Sprint(nerr))

	// ---------------- R-NILPTR: pointer-to-pointer handed to a JSON decoder
	nnp := 0
	for _, fn := range scope {
		for _, in := range callsIn(fn, "encoding/json.Unmarshal", "(*encoding/json.Decoder).Decode") {
			cc := callCommon(in)
			a := cc.Args[len(cc.Args)-1]
			if mi, ok := a.(*ssa.MakeInterface); ok {
				a = mi.X
			}
			al, ok := a.(*ssa.Alloc)
			if !ok {
				continue
			}
			if _, isPP := al.Type().Underlying().(*types.Pointer).Elem().Underlying().(*types.Pointer); !isPP {
				continue
			}
			for _, r := range *al.Referrers() {
				ld, ok := r.(*ssa.UnOp)
				if !ok || ld.Op != token.MUL || !instrDominates(in, ld) {
					continue
				}
				for _, use := range *ld.Referrers() {
					if fa, ok := use.(*ssa.FieldAddr); ok && fa.X == ssa.Value(ld) {
						nnp++
						c.Sites++
						lv := ssa.Value(ld)
						c.Cut(CutSpec{Rule: "R-NILPTR", Fn: fn, Label: fmt.Sprintf("pointer decoded through &%s is dereferenced only behind a nil test (#%d)", al.Comment, nnp), Target: isInstr(use),
							Cut: func(f Fact) bool { return f.Op == "nonnil" && (f.X == lv || Expr(f.X) == Expr(lv)) }})
					}
				}
			}
		}
	}
	c.Infof("R-NILPTR: %d dereferences of JSON-decoded pointer variables", nnp)

	// ---------------- R-GUARD: ed25519 key length
	ned := 0
	for fn := range w.AllFuncs() {
		if !InModule(fn) || len(fn.Blocks) == 0 || strings.HasSuffix(w.RelFile(fn.Pos()), "_test.go") {
			continue
		}
		for _, b := range fn.Blocks {
			for _, in := range b.Instrs {
				v, ok := in.(ssa.Value)
				if !ok || !strings.HasSuffix(typeStr(v.Type()), "ed25519.PublicKey") {
					continue
				}
				var src ssa.Value
				switch x := in.(type) {
				case *ssa.ChangeType:
					src = x.X
				case *ssa.Convert:
					src = x.X
				}
				if src == nil {
					continue
				}
				if _, isSlice := src.Type().Underlying().(*types.Slice); !isSlice || strings.HasSuffix(typeStr(src.Type()), "ed25519.PublicKey") {
					continue
				}
				if _, isC := src.(*ssa.Const); isC {
					continue
				}
				ned++
				c.Sites++
				conv := v
				errIdx := errResultIdx(fn)
				if errIdx < 0 {
					c.Undecided("R-GUARD", short(FuncName(fn)), "ed25519 key producer returns an error", w.InstrPos(in), "")
					continue
				}
				target := func(i2 ssa.Instruction, res resolver) bool {
					rt, ok := i2.(*ssa.Return)
					if !ok || !isNilConst(res(unspill(rt, errIdx))) {
						return false
					}
					for i := range rt.Results {
						if i == errIdx {
							continue
						}
						for x := range backClosure(res(unspill(rt, i)), nil) {
							if x == conv {
								return true
							}
						}
					}
					return false
				}
				c.Cut(CutSpec{Rule: "R-GUARD", Fn: fn, Label: fmt.Sprintf("a byte string is returned as an ed25519.PublicKey only if it is exactly 32 octets long (#%d)", ned), Target: target, MinTargets: -1,
					Cut: func(f Fact) bool {
						if f.Op != "eq" || f.Y == nil {
							return false
						}
						a, isLen := lenArg(f.X)
						k, isC := intConst(f.Y)
						return isLen && isC && k == 32 && (a == conv || Expr(a) == Expr(conv))
					}})
			}
		}
	}
	c.Check(ned >= 1, "R-GUARD", "ed25519.PublicKey", "producers from byte strings enumerated", "-", fmt.Sprint(ned))

	// ---------------- R-ALLOC
	nal := 0
	for _, fn := range scope {
		pp := fn.Pkg.Pkg.Path()
		if !(strings.HasSuffix(pp, "/ct") || strings.HasSuffix(pp, "/x509/ct") || strings.HasSuffix(pp, "/revocation/microsoft") || strings.HasSuffix(pp, "/revocation/google")) {
			continue
		}
		for _, b := range fn.Blocks {
			for _, in := range b.Instrs {
				mk, ok := in.(*ssa.MakeSlice)
				if !ok {
					continue
				}
				wire := wireInts(mk.Len)
				for k, v := range wireInts(mk.Cap) {
					wire[k] = v
				}
				if len(wire) == 0 {
					continue
				}
				nal++
				c.Sites++
				c.Cut(CutSpec{Rule: "R-ALLOC", Fn: fn, Label: fmt.Sprintf("buffer #%d sized by a length read from the input is allocated only past an upper bound on that length", nal), Target: isInstr(in),
					Cut: func(f Fact) bool {
						if f.Y == nil {
							return false
						}
						var small, big ssa.Value
						switch f.Op {
						case "le", "lt":
							small, big = f.X, f.Y
						case "ge", "gt":
							small, big = f.Y, f.X
						default:
							return false
						}
						wireExprs := map[string]bool{}
						for v := range wire {
							wireExprs[Expr(v)] = true
						}
						isWire := func(v ssa.Value) bool {
							if wire[v] || wireExprs[Expr(v)] {
								return true
							}
							if u, ok := v.(*ssa.UnOp); ok && u.Op == token.MUL {
								return wire[u.X]
							}
							return false
						}
						hit := false
						for v := range valueSources(small) {
							if isWire(v) {
								hit = true
							}
						}
						if !hit {
							return false
						}
						for v := range valueSources(big) {
							if isWire(v) {
								return false
							}
						}
						return true
					}})
			}
		}
	}
	c.Check(nal >= 1, "R-ALLOC", "reader-based parsers", "wire-sized allocations enumerated", "-", fmt.Sprint(nal))

	// ---------------- R-FRESH: decode targets and buffers are per iteration
	c.FreshObligations(scope, "parsers")
	c01Extras4(c, scope)

	// ---------------- R-PANIC
	for _, fn := range scope {
		hasRet := false
		for _, b := range fn.Blocks {
			if _, ok := b.Instrs[len(b.Instrs)-1].(*ssa.Return); ok && !(fn.Recover != nil && b == fn.Recover) {
				hasRet = true
			}
		}
		c.Check(hasRet, "R-PANIC", short(FuncName(fn)), "the function can return (is not a panicking stub)", w.Pos(fn.Pos()), "")
	}

	// ---------------- R-BOUNDS on the covered list
	inScope := map[string]*ssa.Function{}
	for _, fn := range scope {
		inScope[short(FuncName(fn))] = fn
	}
	nb, vanished := 0, 0
	for _, name := range c01Covered {
		fn := inScope[name]
		if fn == nil {
			if !c.W.moduleHasFunc(name) && vanished < 2 {
				// deleted (inlined into its callers): there is no code left to bound; at most two such
				// functions are tolerated before the list counts as eroded
				vanished++
				c.OK("R-BOUNDS", name, "covered function is still part of the parser scope", "-", "the function no longer exists in the module (nothing to bound; its callers are judged under their own names)")
				continue
			}
			c.Undecided("R-BOUNDS", name, "covered function is still part of the parser scope", "-", "not found in the closure of the entry points")
			continue
		}
		nb += c.BoundsObligations(fn, "R-BOUNDS", nil)
	}
	c.Infof("R-BOUNDS: %d covered functions, %d index/slice sites", len(c01Covered), nb)
}

// wireInts: values in the definition of v that were read from an io.Reader (results of the
// package's readUint helpers, or locals filled by encoding/binary.Read).
func wireInts(v ssa.Value) map[ssa.Value]bool {
	out := map[ssa.Value]bool{}
	for x := range valueSources(v) {
		if cl := callOf(x); cl != nil {
			n := calleeName(&cl.Call)
			if strings.HasSuffix(n, ".readUint") || strings.HasSuffix(n, ".ReadUint") {
				out[x] = true
			}
		}
		if u, ok := x.(*ssa.UnOp); ok && u.Op == token.MUL {
			// a field of a local struct that binary.Read filled (through any address of that field)
			if fa, ok := u.X.(*ssa.FieldAddr); ok {
				if al, ok := fa.X.(*ssa.Alloc); ok {
					for _, r := range *al.Referrers() {
						fb, ok := r.(*ssa.FieldAddr)
						if !ok || fb.Field != fa.Field {
							continue
						}
						for _, r1 := range *fb.Referrers() {
							if mi, ok := r1.(*ssa.MakeInterface); ok {
								for _, r2 := range *mi.Referrers() {
									if cc := callCommon(r2); cc != nil && calleeName(cc) == "encoding/binary.Read" {
										out[x] = true
									}
								}
							}
						}
					}
				}
			}
			if al, ok := u.X.(*ssa.Alloc); ok {
				for _, r := range *al.Referrers() {
					if mi, ok := r.(*ssa.MakeInterface); ok {
						for _, r2 := range *mi.Referrers() {
							if cc := callCommon(r2); cc != nil && calleeName(cc) == "encoding/binary.Read" {
								out[x] = true
								out[al] = true
							}
						}
					}
				}
			}
		}
	}
	return out
}
