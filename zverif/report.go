package main

import (
	"encoding/json"
	"fmt"
	"os"
	"path/filepath"
	"sort"
	"strings"
	"time"
)

// Obligation is one named structural obligation of a property, decided on
// the current tree. Key = Rule|Func|Construct (never a position).
type Obligation struct {
	Rule      string `json:"rule"`
	Func      string `json:"function"`
	Construct string `json:"construct"`
	Pos       string `json:"position"`
	Verdict   string `json:"verdict"` // discharged | violated | undecided | known-finding
	Detail    string `json:"detail,omitempty"`
	Explored  int    `json:"states_explored,omitempty"`
}

func (o *Obligation) Key() string { return o.Rule + "|" + o.Func + "|" + o.Construct }

// Ctx collects the obligations of one property run.
type Ctx struct {
	W        *World
	Prop     string
	Tier     string
	Obls     []*Obligation
	Info     []string
	FnsSeen  map[string]bool
	Sites    int
	notCov   string
	explain  string
	floor    int
	assume   []string
	only     string // replay: restrict diagnostics to this key
	configs  []string
	extra    map[string]any
}

func (c *Ctx) add(verdict, rule, fn, construct, pos, detail string, explored int) *Obligation {
	o := &Obligation{Rule: rule, Func: short(fn), Construct: construct, Pos: pos, Verdict: verdict, Detail: detail, Explored: explored}
	// duplicate keys would make known-finding matching ambiguous
	for _, p := range c.Obls {
		if p.Key() == o.Key() {
			o.Construct = o.Construct + "#" + fmt.Sprint(len(c.Obls))
			break
		}
	}
	c.Obls = append(c.Obls, o)
	if fn != "" {
		c.FnsSeen[short(fn)] = true
	}
	return o
}

func (c *Ctx) OK(rule, fn, construct, pos, detail string) {
	c.add("discharged", rule, fn, construct, pos, detail, 0)
}
func (c *Ctx) Fail(rule, fn, construct, pos, detail string) {
	c.add("violated", rule, fn, construct, pos, detail, 0)
}
func (c *Ctx) Undecided(rule, fn, construct, pos, detail string) {
	c.add("undecided", rule, fn, construct, pos, detail, 0)
}
func (c *Ctx) Check(ok bool, rule, fn, construct, pos, detail string) {
	if ok {
		c.OK(rule, fn, construct, pos, detail)
	} else {
		c.Fail(rule, fn, construct, pos, detail)
	}
}
func (c *Ctx) Infof(format string, a ...any) { c.Info = append(c.Info, fmt.Sprintf(format, a...)) }
func (c *Ctx) Saw(fn string)                  { c.FnsSeen[short(fn)] = true }

// KnownFinding is one committed entry of /verif/known_findings.json.
type KnownFinding struct {
	Status    string `json:"status"` // "open" or "fixed"
	Property  string `json:"property"`
	Rule      string `json:"rule"`
	Func      string `json:"function"`
	Construct string `json:"construct"`
	What      string `json:"what"`
	Commit    string `json:"commit,omitempty"`
}

func loadKnown(path string) ([]KnownFinding, error) {
	b, err := os.ReadFile(path)
	if err != nil {
		if os.IsNotExist(err) {
			return nil, nil
		}
		return nil, err
	}
	var kf struct {
		Findings []KnownFinding `json:"findings"`
	}
	if err := json.Unmarshal(b, &kf); err != nil {
		return nil, err
	}
	return kf.Findings, nil
}

type evidence struct {
	PropertyID  string         `json:"property_id"`
	Tier        string         `json:"tier"`
	Seed        int            `json:"seed"`
	Level       string         `json:"level"`
	Coverage    map[string]any `json:"coverage"`
	Assumptions []string       `json:"assumptions"`
	WallS       float64        `json:"wall_s"`
	Violations  int            `json:"violations"`
}

// Finish applies known findings, writes evidence and replay files, prints
// the verdict lines and returns the exit status.
func (c *Ctx) Finish(verifDir string, start time.Time, seed int) int {
	known, err := loadKnown(filepath.Join(verifDir, "known_findings.json"))
	if err != nil {
		fmt.Printf("ERROR cannot read known_findings.json: %v\n", err)
		return 2
	}
	var knownReported []string
	for _, o := range c.Obls {
		if o.Verdict != "violated" {
			continue
		}
		for _, k := range known {
			if k.Status == "open" && k.Property == c.Prop && k.Rule == o.Rule && k.Func == o.Func && k.Construct == o.Construct {
				o.Verdict = "known-finding"
				line := fmt.Sprintf("KNOWN-FINDING: property=%s %s [%s at %s]", c.Prop, k.What, o.Key(), o.Pos)
				fmt.Println(line)
				knownReported = append(knownReported, line)
			}
		}
	}
	sort.SliceStable(c.Obls, func(i, j int) bool { return c.Obls[i].Key() < c.Obls[j].Key() })
	nd, nv, nu, nk := 0, 0, 0, 0
	var bad []*Obligation
	for _, o := range c.Obls {
		switch o.Verdict {
		case "discharged":
			nd++
		case "violated":
			nv++
			bad = append(bad, o)
		case "undecided":
			nu++
			bad = append(bad, o)
		case "known-finding":
			nk++
		}
	}
	floorFail := len(c.Obls) < c.floor
	os.MkdirAll(filepath.Join(verifDir, "evidence", "replay"), 0o755)
	// replay files
	for i, o := range bad {
		rp := filepath.Join(verifDir, "evidence", "replay", fmt.Sprintf("%s-%d.json", c.Prop, i))
		b, _ := json.MarshalIndent(map[string]any{"property": c.Prop, "key": o.Key(), "obligation": o}, "", " ")
		os.WriteFile(rp, b, 0o644)
		fmt.Printf("VIOLATION property=%s replay=%s\n", c.Prop, rp)
		fmt.Printf("  %s: %s [%s] at %s\n    %s\n", o.Verdict, o.Rule, o.Func+" / "+o.Construct, o.Pos, strings.ReplaceAll(o.Detail, "\n", "\n    "))
	}
	if floorFail {
		rp := filepath.Join(verifDir, "evidence", "replay", fmt.Sprintf("%s-floor.json", c.Prop))
		b, _ := json.MarshalIndent(map[string]any{"property": c.Prop, "key": "FLOOR", "found": len(c.Obls), "floor": c.floor}, "", " ")
		os.WriteFile(rp, b, 0o644)
		fmt.Printf("VIOLATION property=%s replay=%s\n  instance floor: %d obligations found, floor is %d (anchors disappeared; a rule that matches nothing passes vacuously)\n", c.Prop, rp, len(c.Obls), c.floor)
	}
	// samples: all obligations (compact) so a reader sees what was decided
	samples := make([]any, 0, len(c.Obls))
	for _, o := range c.Obls {
		samples = append(samples, o)
	}
	fns := make([]string, 0, len(c.FnsSeen))
	for f := range c.FnsSeen {
		fns = append(fns, f)
	}
	sort.Strings(fns)
	cov := map[string]any{
		"explanation":             c.explain,
		"obligations":             len(c.Obls),
		"discharged":              nd,
		"violated":                nv,
		"undecided":               nu,
		"known_findings":          nk,
		"instance_floor":          c.floor,
		"samples":                 samples,
		"functions_analysed":      fns,
		"functions_analysed_n":    len(fns),
		"call_sites_examined":     c.Sites,
		"packages_loaded":         len(c.W.Pkgs),
		"build_configs":           c.configs,
		"not_covered":             c.notCov,
		"information":             c.Info,
		"known_findings_reported": knownReported,
		"checker_cmd":             strings.Join(os.Args, " "),
		"trusted_base":            []string{"go/types", "golang.org/x/tools/go/ssa", "golang.org/x/tools/go/callgraph (CHA+VTA)", "golang.org/x/tools/go/packages", "the rule tables of /verif/zverif"},
		"exhaustive":              true,
	}
	for k, v := range c.extra {
		cov[k] = v
	}
	ev := evidence{PropertyID: c.Prop, Tier: c.Tier, Seed: seed, Level: "other", Coverage: cov,
		Assumptions: append([]string{
			"go/types, go/ssa and the VTA call graph represent the compiled program faithfully",
			"the structural obligations are necessary conditions of the property, not the property itself (see not_covered)",
		}, c.assume...),
		WallS: time.Since(start).Seconds(), Violations: len(bad)}
	if floorFail {
		ev.Violations++
	}
	b, _ := json.MarshalIndent(ev, "", " ")
	if err := os.WriteFile(filepath.Join(verifDir, "evidence", c.Prop+".json"), b, 0o644); err != nil {
		fmt.Printf("ERROR writing evidence: %v\n", err)
		return 2
	}
	fmt.Printf("%s tier=%s obligations=%d discharged=%d known=%d violated=%d undecided=%d functions=%d sites=%d wall=%.1fs\n",
		c.Prop, c.Tier, len(c.Obls), nd, nk, nv, nu, len(fns), c.Sites, time.Since(start).Seconds())
	if len(bad) > 0 || floorFail {
		return 1
	}
	return 0
}
