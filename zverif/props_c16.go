package main

import (
	"fmt"
	"go/constant"
	"go/types"
	"sort"
	"strings"

	"golang.org/x/tools/go/ssa"
)

func init() {
	register(&propDef{
		ID: "C16",
		Explain: "For both CT packages (ct, x509/ct where the function exists): R-NARROW: a length narrowed to uint16/uint8 for a length prefix is bounded on a dominating edge, directly or through a checker function summarised as " +
			"'returns nil only if len(arg) <= c' with c within the prefix's range (constants are evaluated by the type checker). R-LAYOUT against RFC 6962 3.2/3.5: the ordered writes of the SCT (certificate and precertificate) and STH signature inputs " +
			"(field, width, order) equal the oracle; both SCT inputs take the SCT's own timestamp; SerializedLength is the sum of the widths serializeV1SCTHere writes, which writes version, log id, timestamp, extensions and signature at those offsets. " +
			"R-CUT: verifySignature returns nil only for HashAlgorithm SHA256 and past rsa.VerifyPKCS1v15==nil / ecdsa.Verify==true over SHA-256 of the data under the verifier's key; VerifySCT/STHSignature verify the serialised input with the object's own signature.",
		NotCov: "decode(encode(x)) == x on all values; allocation by wire length in readVarBytes is C01's clause.",
		Floor:  24,
		Run:    runC16,
	})
}

type layoutItem struct{ width, what string }

func basicWidth(t types.Type) string {
	switch u := types.Unalias(t).Underlying().(type) {
	case *types.Basic:
		switch u.Kind() {
		case types.Uint8, types.Int8, types.Bool:
			return "u8"
		case types.Uint16, types.Int16:
			return "u16"
		case types.Uint32, types.Int32:
			return "u32"
		case types.Uint64, types.Int64:
			return "u64"
		}
	case *types.Array:
		if basicWidth(u.Elem()) == "u8" {
			return fmt.Sprintf("bytes%d", u.Len())
		}
	case *types.Slice:
		return "bytes"
	}
	return "?" + typeStr(t)
}

// bufferLayout extracts the ordered writes into the function's local bytes.Buffer.
func bufferLayout(fn *ssa.Function) []layoutItem {
	var buf *ssa.Alloc
	for _, b := range fn.Blocks {
		for _, in := range b.Instrs {
			if al, ok := in.(*ssa.Alloc); ok && strings.HasSuffix(typeStr(al.Type()), "bytes.Buffer") {
				buf = al
			}
		}
	}
	if buf == nil {
		return nil
	}
	isBuf := func(v ssa.Value) bool {
		if mi, ok := v.(*ssa.MakeInterface); ok {
			v = mi.X
		}
		return v == ssa.Value(buf)
	}
	type at struct {
		in   ssa.Instruction
		item layoutItem
	}
	var items []at
	for _, b := range fn.Blocks {
		for _, in := range b.Instrs {
			cc := callCommon(in)
			if cc == nil || len(cc.Args) == 0 {
				continue
			}
			name := calleeName(cc)
			switch {
			case name == "encoding/binary.Write" && isBuf(cc.Args[0]):
				v := cc.Args[2]
				if mi, ok := v.(*ssa.MakeInterface); ok {
					v = mi.X
				}
				items = append(items, at{in, layoutItem{basicWidth(v.Type()), Expr(v)}})
			case strings.HasSuffix(name, ".writeVarBytes") && isBuf(cc.Args[0]):
				n, _ := intConst(cc.Args[2])
				items = append(items, at{in, layoutItem{fmt.Sprintf("var%d", n), Expr(cc.Args[1])}})
			case strings.HasSuffix(name, ".writeUint") && isBuf(cc.Args[0]):
				n, _ := intConst(cc.Args[2])
				items = append(items, at{in, layoutItem{fmt.Sprintf("u%d", 8*n), Expr(cc.Args[1])}})
			case name == "(*bytes.Buffer).Write" && cc.Args[0] == ssa.Value(buf):
				w := "bytes"
				if sl, ok := cc.Args[1].(*ssa.Slice); ok {
					w = basicWidth(sl.X.Type().Underlying().(*types.Pointer).Elem())
				}
				items = append(items, at{in, layoutItem{w, Expr(cc.Args[1])}})
			}
		}
	}
	sort.SliceStable(items, func(i, j int) bool { return instrDominates(items[i].in, items[j].in) })
	var out []layoutItem
	for _, it := range items {
		out = append(out, it.item)
	}
	return out
}

func layoutString(l []layoutItem) string {
	var s []string
	for _, it := range l {
		s = append(s, it.width+":"+it.what)
	}
	return strings.Join(s, " | ")
}

func runC16(c *Ctx) {
	w := c.W
	c16Extras3(c)
	for _, pkg := range []string{"z/ct", "z/x509/ct"} {
		if w.Pkg(pkg) == nil {
			c.Undecided("R-LAYOUT", pkg, "package", "-", "not loaded")
			continue
		}
		sp := short(expand(pkg))
		constName := func(name string) string { // rendered value of a package constant
			cv, ok := w.ConstOf(pkg, name)
			if !ok {
				return "?"
			}
			return cv.ExactString()
		}
		// ---- layouts
		oracles := map[string][]layoutItem{
			"serializeV1CertSCTSignatureInput": {{"u8", constName("V1")}, {"u8", constName("CertificateTimestampSignatureType")}, {"u64", "timestamp"}, {"u16", constName("X509LogEntryType")}, {"var3", "cert"}, {"var2", "ext"}},
			"serializeV1PrecertSCTSignatureInput": {{"u8", constName("V1")}, {"u8", constName("CertificateTimestampSignatureType")}, {"u64", "timestamp"}, {"u16", constName("PrecertLogEntryType")}, {"bytes32", "issuerKeyHash[:]"}, {"var3", "tbs"}, {"var2", "ext"}},
			"serializeV1STHSignatureInput": {{"u8", constName("V1")}, {"u8", constName("TreeHashSignatureType")}, {"u64", "sth.Timestamp"}, {"u64", "sth.TreeSize"}, {"bytes32", "sth.SHA256RootHash"}},
		}
		// RFC 6962 fixes the constant values too
		for name, want := range map[string]string{"V1": "0", "CertificateTimestampSignatureType": "0", "TreeHashSignatureType": "1", "X509LogEntryType": "0", "PrecertLogEntryType": "1"} {
			if _, ok := w.ConstOf(pkg, name); !ok && pkg != "z/ct" {
				continue // x509/ct carries only the SCT wire format
			}
			c.Check(constName(name) == want, "R-LAYOUT", sp, "RFC 6962 value of "+name, "-", constName(name))
		}
		var names []string
		for n := range oracles {
			names = append(names, n)
		}
		sort.Strings(names)
		for _, n := range names {
			fn := w.Fn(pkg + "." + n)
			if fn == nil {
				if pkg == "z/ct" {
					c.Undecided("R-LAYOUT", pkg+"."+n, "anchor", "-", "not found")
				}
				continue
			}
			c.Sites++
			got := bufferLayout(fn)
			c.Check(layoutString(got) == layoutString(oracles[n]), "R-LAYOUT", pkg+"."+n, "signature input layout equals RFC 6962", w.Pos(fn.Pos()), "got "+layoutString(got)+" ; want "+layoutString(oracles[n]))
			// the buffer's bytes are what is returned
			ok := false
			for v := range returnClosure(fn, 0) {
				if cl := callOf(v); cl != nil && calleeName(&cl.Call) == "(*bytes.Buffer).Bytes" {
					ok = true
				}
			}
			c.Check(ok, "R-LAYOUT", pkg+"."+n, "returns the buffer's bytes", w.Pos(fn.Pos()), "")
		}
		// dispatcher passes the SCT's own timestamp
		if fn := w.Fn(pkg + ".serializeV1SCTSignatureInput"); fn != nil {
			for _, callee := range []string{"serializeV1CertSCTSignatureInput", "serializeV1PrecertSCTSignatureInput"} {
				for _, in := range callsIn(fn, pkg+"."+callee) {
					c.Sites++
					a := callCommon(in).Args
					c.Check(Expr(a[0]) == "sct.Timestamp", "R-PROV", pkg+".serializeV1SCTSignatureInput", callee+" receives the SCT's own timestamp", w.InstrPos(in), Expr(a[0]))
					other := true
					for _, x := range a[1:] {
						if !hasAll(Deps(x), "field:LogEntry.Leaf") && !hasAll(Deps(x), "param:entry") {
							other = false
						}
					}
					c.Check(other, "R-PROV", pkg+".serializeV1SCTSignatureInput", callee+" receives the entry's certificate data and extensions", w.InstrPos(in), "")
				}
			}
			isX, isP := w.IsConstNamed(pkg, "X509LogEntryType"), w.IsConstNamed(pkg, "PrecertLogEntryType")
			for _, in := range callsIn(fn, pkg+".serializeV1CertSCTSignatureInput") {
				c.Cut(CutSpec{Fn: fn, Label: "certificate input only for X509 entries", Target: isInstr(in), Cut: Cmp(exprHas("EntryType"), "eq", isX)})
			}
			for _, in := range callsIn(fn, pkg+".serializeV1PrecertSCTSignatureInput") {
				c.Cut(CutSpec{Fn: fn, Label: "precertificate input only for precert entries", Target: isInstr(in), Cut: Cmp(exprHas("EntryType"), "eq", isP)})
			}
		}
		// ---- SerializedLength vs serializeV1SCTHere
		if fn := w.Fn("(" + pkg + ".SignedCertificateTimestamp).SerializedLength"); fn != nil {
			ok := false
			det := ""
			for v := range returnClosure(fn, 0) {
				if _, isC := v.(*ssa.Const); isC {
					continue
				}
				if _, isPhi := v.(*ssa.Phi); isPhi {
					continue
				}
				det = Expr(v)
				ok = det == "((((43+len(sct.Extensions))+2)+2)+len(sct.Signature.Signature))"
			}
			c.Check(ok, "R-LAYOUT", sp+".SerializedLength", "1+32+8+2+len(ext)+2+2+len(sig)", w.Pos(fn.Pos()), det)
		}
		if fn := w.Fn(pkg + ".serializeV1SCTHere"); fn != nil {
			c.Sites++
			// offsets written
			var got []string
			for _, b := range fn.Blocks {
				for _, in := range b.Instrs {
					switch x := in.(type) {
					case *ssa.Store:
						if ia, ok := x.Addr.(*ssa.IndexAddr); ok && strings.HasPrefix(Expr(ia.X), "φ(") || ok && strings.Contains(Expr(ia.X), "here") {
							got = append(got, "["+Expr(ia.Index)+"]="+Expr(x.Val))
						}
					case *ssa.Call:
						n := calleeName(&x.Call)
						switch {
						case n == "builtin.copy":
							got = append(got, "copy("+sliceBounds(x.Call.Args[0])+","+Expr(x.Call.Args[1])+")")
						case strings.HasSuffix(n, "bigEndian).PutUint64") || strings.HasSuffix(n, "bigEndian).PutUint16"):
							got = append(got, n[strings.LastIndex(n, ".")+1:]+"("+sliceBounds(x.Call.Args[1])+","+Expr(x.Call.Args[2])+")")
						case strings.HasSuffix(n, ".marshalDigitallySignedHere"):
							got = append(got, "sig("+sliceBounds(x.Call.Args[1])+","+Expr(x.Call.Args[0])+")")
						}
					}
				}
			}
			want := []string{"[0]=sct.SCTVersion", "copy([1:33],sct.LogID[:])", "PutUint64([33:41],sct.Timestamp)", "PutUint16([41:43],uint16(len(sct.Extensions)))",
				"copy([43:(43+len(sct.Extensions))],sct.Extensions)", "sig([(43+len(sct.Extensions)):],sct.Signature)"}
			c.Check(strings.Join(got, " ; ") == strings.Join(want, " ; "), "R-LAYOUT", pkg+".serializeV1SCTHere", "version, log id, timestamp, extensions, signature at the RFC 6962 offsets", w.Pos(fn.Pos()), strings.Join(got, " ; "))
			c.Cut(CutSpec{Fn: fn, Label: "serialises only into a buffer of at least SerializedLength bytes", Target: SuccessReturn(1, nil),
				Cut: Cmp(LenOf(func(v ssa.Value) bool { return true }), "ge", ResultOf(0, "("+pkg+".SignedCertificateTimestamp).SerializedLength"))})
		}
		// ---- R-NARROW
		c.narrowLengths(pkg)
		// ---- signature verification
		if fn := w.Fn("(" + pkg + ".SignatureVerifier).verifySignature"); fn != nil {
			succ := SuccessReturn(0, nil)
			rsaOK := IsNil(func(v ssa.Value) bool {
				cl := callOf(v)
				if cl == nil || !strings.HasSuffix(calleeName(&cl.Call), "rsa.VerifyPKCS1v15") {
					return false
				}
				a := cl.Call.Args
				return hasAll(Deps(a[0]), "field:SignatureVerifier.pubKey") && sha256OfParam(a[2], "data") && Expr(a[3]) == "sig.Signature"
			})
			ecOK := IsTrue(func(v ssa.Value) bool {
				cl := callOf(v)
				if cl == nil || calleeName(&cl.Call) != "crypto/ecdsa.Verify" {
					return false
				}
				a := cl.Call.Args
				return hasAll(Deps(a[0]), "field:SignatureVerifier.pubKey") && sha256OfParam(a[1], "data")
			})
			c.Cut(CutSpec{Fn: fn, Label: "nil only past a verified RSA or ECDSA signature over the hash of data under the verifier's key", Target: succ, Cut: AnyF(rsaOK, ecOK)})
			c.Cut(CutSpec{Fn: fn, Label: "nil only for HashAlgorithm SHA256", Target: succ, Cut: Cmp(exprIs("sig.HashAlgorithm"), "eq", w.IsConstNamed(pkg, "SHA256"))})
			isRSA, isEC := w.IsConstNamed(pkg, "RSA"), w.IsConstNamed(pkg, "ECDSA")
			for _, b := range fn.Blocks {
				for _, in := range b.Instrs {
					cl, ok := in.(*ssa.Call)
					if !ok {
						continue
					}
					if strings.HasSuffix(calleeName(&cl.Call), "rsa.VerifyPKCS1v15") {
						c.Cut(CutSpec{Fn: fn, Label: "RSA verification only for SignatureAlgorithm RSA", Target: isInstr(in), Cut: Cmp(exprIs("sig.SignatureAlgorithm"), "eq", isRSA)})
						c.Check(Expr(cl.Call.Args[1]) == "5", "R-PROV", sp+".verifySignature", "RSA verification uses crypto.SHA256", w.InstrPos(in), Expr(cl.Call.Args[1]))
					}
					if calleeName(&cl.Call) == "crypto/ecdsa.Verify" {
						c.Cut(CutSpec{Fn: fn, Label: "ECDSA verification only for SignatureAlgorithm ECDSA", Target: isInstr(in), Cut: Cmp(exprIs("sig.SignatureAlgorithm"), "eq", isEC)})
					}
				}
			}
		}
		for _, p := range [][3]string{{"VerifySCTSignature", "SerializeSCTSignatureInput", "sct.Signature"}, {"VerifySTHSignature", "SerializeSTHSignatureInput", "sth.TreeHeadSignature"}} {
			fn := w.Fn("(" + pkg + ".SignatureVerifier)." + p[0])
			if fn == nil {
				continue
			}
			c.Sites++
			ok := false
			for v := range returnClosure(fn, 0) {
				if cl := callOf(v); cl != nil && strings.HasSuffix(calleeName(&cl.Call), ".verifySignature") {
					ok = ResultOf(0, pkg+"."+p[1])(cl.Call.Args[1]) && Expr(cl.Call.Args[2]) == p[2]
				}
			}
			c.Check(ok, "R-PROV", sp+"."+p[0], "verifies "+p[1]+"(...) with "+p[2], w.Pos(fn.Pos()), "")
			c.Cut(CutSpec{Fn: fn, Label: "nil only through verifySignature", Target: SuccessReturn(0, IsNil(ResultOf(-1, "("+pkg+".SignatureVerifier).verifySignature"))), MinTargets: -1})
		}
	}
}

func sliceBounds(v ssa.Value) string {
	sl, ok := v.(*ssa.Slice)
	if !ok {
		return Expr(v)
	}
	lo, hi := "", ""
	if sl.Low != nil {
		lo = Expr(sl.Low)
	}
	if sl.High != nil {
		hi = Expr(sl.High)
	}
	return "[" + lo + ":" + hi + "]"
}

// narrowLengths: every uintN(len(x)) (N <= 16) in the package's serialization file is bounded.
func (c *Ctx) narrowLengths(pkg string) {
	w := c.W
	// checker summaries: f(p) returns nil only if len(p) <= K
	type summary struct{ k int64 }
	sums := map[string]summary{}
	for _, fn := range w.FuncsOfPkg(pkg) {
		if fn.Signature.Params().Len() != 1 || errResultIdx(fn) != 0 || fn.Signature.Results().Len() != 1 || len(fn.Blocks) == 0 {
			continue
		}
		p := fn.Params[0]
		// find constants K such that success requires len(p) <= K
		best := int64(-1)
		for _, b := range fn.Blocks {
			ifi, ok := b.Instrs[len(b.Instrs)-1].(*ssa.If)
			if !ok {
				continue
			}
			for si := 0; si < 2; si++ {
				for _, f := range condFacts(ifi.Cond, si == 0, idRes) {
					if f.Y == nil || !LenOf(func(v ssa.Value) bool { return v == ssa.Value(p) })(f.X) {
						continue
					}
					k, isC := intConst(f.Y)
					if !isC {
						continue
					}
					bound := int64(-1)
					if f.Op == "le" {
						bound = k
					} else if f.Op == "lt" {
						bound = k - 1
					}
					if bound < 0 {
						continue
					}
					bb := bound
					r := RunCut(&CutSpec{Fn: fn, Target: SuccessReturn(0, nil), Cut: func(g Fact) bool {
						if g.Y == nil || !LenOf(func(v ssa.Value) bool { return v == ssa.Value(p) })(g.X) {
							return false
						}
						k2, ok := intConst(g.Y)
						return ok && ((g.Op == "le" && k2 <= bb) || (g.Op == "lt" && k2-1 <= bb))
					}})
					if !r.Violated && !r.Capped && (best < 0 || bound < best) {
						best = bound
					}
				}
			}
		}
		if best >= 0 {
			sums[FuncName(fn)] = summary{best}
		}
	}
	n := 0
	for _, fn := range w.FuncsOfPkg(pkg) {
		if !strings.HasSuffix(w.RelFile(fn.Pos()), "serialization.go") {
			continue
		}
		for _, b := range fn.Blocks {
			for _, in := range b.Instrs {
				cv, ok := in.(*ssa.Convert)
				if !ok {
					continue
				}
				bt, ok := cv.Type().Underlying().(*types.Basic)
				if !ok || (bt.Kind() != types.Uint16 && bt.Kind() != types.Uint8) {
					continue
				}
				src := cv.X
				if !LenOf(func(ssa.Value) bool { return true })(src) {
					continue
				}
				n++
				c.Sites++
				max := int64(65535)
				if bt.Kind() == types.Uint8 {
					max = 255
				}
				x := src.(*ssa.Call).Call.Args[0]
				sameLen := LenOf(func(v ssa.Value) bool { return Expr(v) == Expr(x) })
				cut := func(f Fact) bool {
					if f.Y != nil && sameLen(f.X) {
						if k, isC := intConst(f.Y); isC && ((f.Op == "le" && k <= max) || (f.Op == "lt" && k-1 <= max)) {
							return true
						}
					}
					if f.Op == "nil" {
						if cl := callOf(f.X); cl != nil && cl.Call.StaticCallee() != nil {
							if s, ok := sums[FuncName(cl.Call.StaticCallee())]; ok && s.k <= max && len(cl.Call.Args) == 1 && Expr(cl.Call.Args[0]) == Expr(x) {
								return true
							}
						}
					}
					return false
				}
				c.Cut(CutSpec{Rule: "R-NARROW", Fn: fn, Label: fmt.Sprintf("%s(len(%s)) is written only when the length fits the prefix", bt.Name(), Expr(x)), Target: isInstr(cv), Cut: cut})
			}
		}
	}
	c.Check(n >= 1, "R-NARROW", pkg, "narrowed length prefixes enumerated", "-", fmt.Sprint(n))
	_ = constant.MakeInt64
}

// sha256OfParam: v is h.Sum(empty) where h is crypto.SHA256.New() and the only
// Write into h before the Sum writes exactly the named parameter.
func sha256OfParam(v ssa.Value, param string) bool {
	sum := callOf(v)
	if sum == nil || calleeName(&sum.Call) != "(hash.Hash).Sum" {
		return false
	}
	if sl, ok := sum.Call.Args[0].(*ssa.Slice); !ok || !strings.HasPrefix(Expr(sl.X), "alloc(*[0]") {
		return false
	}
	h := callOf(sum.Call.Value)
	if h == nil || calleeName(&h.Call) != "(crypto.Hash).New" || Expr(h.Call.Args[0]) != "5" {
		return false
	}
	writes := 0
	for _, ref := range *h.Referrers() {
		cc := callCommon(ref)
		if cc == nil {
			if _, isDbg := ref.(*ssa.DebugRef); isDbg {
				continue
			}
			return false // the hasher escapes
		}
		if ref == ssa.Instruction(sum) {
			continue
		}
		if !cc.IsInvoke() || cc.Value != ssa.Value(h) || cc.Method.Name() != "Write" {
			return false
		}
		p, ok := cc.Args[0].(*ssa.Parameter)
		if !ok || paramName(p) != param || !instrDominates(ref, sum) {
			return false
		}
		writes++
	}
	return writes == 1
}
