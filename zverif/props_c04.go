package main

import (
	"fmt"
	"go/constant"
	"go/token"
	"go/types"
	"sort"
	"strings"

	"golang.org/x/tools/go/ssa"
)

func init() {
	register(&propDef{
		ID: "C04",
		Explain: "Issuance/parse agreement of package x509, as structure. R-TABLE: every extension OID buildExtensions emits has an arm in parseCertificate (2.5.29.x switch or Id.Equal). R-GUARD (both directions of each extension guard): an extension block is skipped only if every template list it encodes is empty or the caller supplied that extension. " +
			"R-WIDTH: parseCertificate's key-usage loop reads at least as many bits as the widest KeyUsage constant, each bit i through usageBits.At(i) into 1<<i, and buildExtensions writes both octets. R-VSET: the UTCTime/GeneralizedTime cut-over agrees between writer and reader " +
			"(outsideUTCRange, appendUTCTime's two-digit branches, the encoder choice at both marshal sites, parseUTCTime's century adjustment: thresholds 1950/2000/2050 with the RFC 5280 orientation). R-FRESH: no loop in the creation path lets a value built in a buffer allocated outside the loop escape an iteration (name-constraint, SAN and policy entries do not alias one another). R-PROV: the tbsCertificate CreateCertificate signs and the outer certificate are built from the template/parent fields in c04_oracle.go (serial, UTC validity, subject/issuer bytes, public key, extensions; the signature covers the marshalled TBS).",
		NotCov: "equality of parsed and supplied values (DER encoding details of each extension body), per-OID field correspondence between builder and parser arms.",
		Floor:  40,
		Run:    runC04,
	})
}

// oidOfGlobal evaluates a package-level asn1.ObjectIdentifier{...} literal.
func oidOfGlobal(w *World, pkg, name string) string {
	rows, _, _ := w.VarRows(pkg, name)
	if len(rows) == 0 {
		return ""
	}
	var parts []string
	for _, r := range rows {
		if len(r) != 1 {
			return ""
		}
		parts = append(parts, r[0].String())
	}
	return strings.Join(parts, ".")
}

func globalName(v ssa.Value) string {
	v = stripConv(v)
	if u, ok := v.(*ssa.UnOp); ok && u.Op == token.MUL {
		if g, ok := u.X.(*ssa.Global); ok {
			return g.Name()
		}
	}
	return ""
}

// parseArms: OIDs parseCertificate dispatches on.
func parseArms(w *World, fn *ssa.Function, pkg string) (map[string]bool, []int64) {
	arms := map[string]bool{}
	var ce []int64
	for _, b := range fn.Blocks {
		for _, in := range b.Instrs {
			switch x := in.(type) {
			case *ssa.BinOp:
				if x.Op == token.EQL && strings.HasSuffix(Expr(x.X), ".Id[3]") {
					if k, ok := intConst(x.Y); ok {
						arms[fmt.Sprintf("2.5.29.%d", k)] = true
						ce = append(ce, k)
					}
				}
			case *ssa.Call:
				if strings.HasSuffix(calleeName(&x.Call), "ObjectIdentifier).Equal") && len(x.Call.Args) == 2 {
					if g := globalName(x.Call.Args[1]); g != "" {
						if o := oidOfGlobal(w, pkg, g); o != "" {
							arms[o] = true
						}
					}
				}
			}
		}
	}
	return arms, ce
}

func runC04(c *Ctx) {
	w := c.W
	pkg := "z/x509"
	be, pc := w.Fn(pkg+".buildExtensions"), w.Fn(pkg+".parseCertificate")
	if be == nil || pc == nil {
		c.Undecided("R-TABLE", pkg, "buildExtensions / parseCertificate", "-", "not found")
		return
	}
	// ---------------- emitted OIDs have parse arms
	arms, _ := parseArms(w, pc, pkg)
	type emit struct {
		store ssa.Instruction
		name  string
		oid   string
	}
	var emits []emit
	for _, b := range be.Blocks {
		for _, in := range b.Instrs {
			st, ok := in.(*ssa.Store)
			if !ok {
				continue
			}
			fa, ok := st.Addr.(*ssa.FieldAddr)
			if !ok || fieldName(fa) != "Extension.Id" {
				continue
			}
			g := globalName(st.Val)
			emits = append(emits, emit{in, g, oidOfGlobal(w, pkg, g)})
		}
	}
	c.Check(len(emits) >= 9, "R-TABLE", "x509.buildExtensions", "extension blocks enumerated", w.Pos(be.Pos()), fmt.Sprint(len(emits)))
	for _, e := range emits {
		c.Sites++
		c.Check(e.oid != "" && arms[e.oid], "R-TABLE", "x509.buildExtensions", "emitted extension "+e.name+" has a parse arm in parseCertificate", w.InstrPos(e.store), e.oid)
	}
	// ---------------- guards: skipped only if every encoded list is empty (or the caller supplied the extension)
	ng := 0
	for _, e := range emits {
		blk := e.store.Block()
		// template list fields read inside the block region (blocks dominated by the store's block)
		fields := map[string]bool{}
		for _, b := range be.Blocks {
			if !blk.Dominates(b) {
				continue
			}
			for _, in := range b.Instrs {
				if fa, ok := in.(*ssa.FieldAddr); ok {
					if p, isP := fa.X.(*ssa.Parameter); isP && paramName(p) == "template" {
						if _, isSlice := fa.Type().Underlying().(*types.Pointer).Elem().Underlying().(*types.Slice); isSlice {
							fields[fieldLeaf(fieldName(fa))] = true
						}
					}
				}
			}
		}
		delete(fields, "ExtraExtensions")
		var fl []string
		for f := range fields {
			fl = append(fl, f)
		}
		sort.Strings(fl)
		store := e.store
		for _, f := range fl {
			ng++
			c.Sites++
			supplied := func(ft Fact) bool {
				cl := callOf(ft.X)
				return ft.Op == "true" && cl != nil && strings.HasSuffix(calleeName(&cl.Call), ".oidInExtensions") && globalName(cl.Call.Args[0]) == e.name
			}
			c.Cut(CutSpec{Rule: "R-GUARD", Fn: be, Label: fmt.Sprintf("%s is omitted only if template.%s is empty or the caller supplied the extension", e.name, f), Target: SuccessReturn(1, nil),
				Barrier: func(in ssa.Instruction) bool { return in == store },
				Cut:     AnyF(factExpr("le", "len(template."+f+")", "0"), factExpr("eq", "len(template."+f+")", "0"), supplied)})
		}
	}
	c.Check(ng >= 15, "R-GUARD", "x509.buildExtensions", "guarded template lists enumerated", "-", fmt.Sprint(ng))

	// ---------------- key usage width
	maxBit := -1
	scope := w.Pkg(pkg).Types.Scope()
	for _, n := range scope.Names() {
		if k, ok := scope.Lookup(n).(*types.Const); ok && strings.HasSuffix(typeStr(k.Type()), "x509.KeyUsage") && k.Val().Kind() == constant.Int {
			v, _ := constant.Int64Val(k.Val())
			for b := 0; b < 63; b++ {
				if v&(1<<uint(b)) != 0 && b > maxBit {
					maxBit = b
				}
			}
		}
	}
	bitsRead := int64(-1)
	okShape := false
	for _, b := range pc.Blocks {
		for _, in := range b.Instrs {
			cl, ok := in.(*ssa.Call)
			if !ok || !strings.HasSuffix(calleeName(&cl.Call), "BitString).At") || !strings.Contains(Expr(cl.Call.Args[0]), "usageBits") {
				continue
			}
			// index is a loop variable bounded by a constant
			for _, f := range domFacts(b) {
				if f.Op == "lt" && f.Y != nil && f.X == cl.Call.Args[1] {
					if k, isC := intConst(f.Y); isC {
						bitsRead = k
					}
				}
			}
			if ph, isPhi := cl.Call.Args[1].(*ssa.Phi); isPhi {
				e := Expr(ph)
				okShape = e == "φ(0|(↺+1))" || e == "φ((↺+1)|0)"
			}
		}
	}
	c.Check(maxBit >= 8 && bitsRead >= int64(maxBit)+1 && okShape, "R-WIDTH", "x509.parseCertificate", "the key-usage loop reads every bit a KeyUsage constant can set", w.Pos(pc.Pos()), fmt.Sprintf("widest constant uses bit %d, loop reads %d bits from 0", maxBit, bitsRead))
	// builder writes both octets
	var kb []string
	// (in buildExtensions itself or in a helper it calls with the template's key usage)
	forEachInstrWithHelpers(be, func(in ssa.Instruction) {
		if cl, ok := in.(*ssa.Call); ok && strings.HasSuffix(calleeName(&cl.Call), ".reverseBitsInAByte") {
			kb = append(kb, Expr(cl.Call.Args[0]))
		}
	})
	sort.Strings(kb)
	c.Check(strings.Join(kb, " ; ") == "byte((template.KeyUsage>>8)) ; byte(template.KeyUsage)", "R-WIDTH", "x509.buildExtensions", "both key-usage octets are encoded", w.Pos(be.Pos()), strings.Join(kb, " ; "))

	// ---------------- time thresholds
	c.timeThresholds()
	c.asn1WriterRules()
	c04Extras3(c)
	digitArgsRule(c)

	// ---------------- R-FRESH (round 2): per-entry values are not built in a buffer shared across loop iterations
	c.FreshObligations(fileScope(w, []string{pkg + ".CreateCertificate"}, "x509/x509.go"), "certificate creation")

	// ---------------- the TBS certificate
	if fn := w.Fn(pkg + ".CreateCertificate"); fn != nil {
		var rows []string
		for _, b := range fn.Blocks {
			for _, in := range b.Instrs {
				al, ok := in.(*ssa.Alloc)
				if !ok {
					continue
				}
				ts := typeStr(al.Type())
				if !(strings.HasSuffix(ts, "x509.tbsCertificate") || strings.HasSuffix(ts, "x509.certificate") || strings.HasSuffix(ts, "x509.validity") || strings.HasSuffix(ts, "asn1.RawValue") || strings.HasSuffix(ts, "x509.publicKeyInfo") || strings.HasSuffix(ts, "asn1.BitString")) {
					continue
				}
				fi := fieldInits(al)
				var ks []string
				for k := range fi {
					ks = append(ks, k)
				}
				sort.Strings(ks)
				for _, k := range ks {
					rows = append(rows, ts[strings.LastIndex(ts, ".")+1:]+"."+k+"="+renderStructVal(fi[k], 0))
				}
			}
		}
		for _, in := range callsIn(fn, "(crypto.Signer).Sign") {
			cc := callCommon(in)
			rows = append(rows, "sign("+Expr(cc.Args[1])+")")
		}
		sort.Strings(rows)
		rows = uniq(rows)
		got := strings.Join(rows, " ; ")
		c.Sites++
		c.Check(got == c04Oracle["x509.CreateCertificate"], "R-PROV", "x509.CreateCertificate", "TBS certificate, outer certificate and signature input are built from the template/parent fields the oracle names", w.Pos(fn.Pos()), "got "+got)
	}
}

// renderStructVal renders a value; a copy of a local struct literal is expanded to its field initialisers.
func renderStructVal(v ssa.Value, depth int) string {
	if depth < 3 {
		if u, ok := v.(*ssa.UnOp); ok && u.Op == token.MUL {
			if al, ok := u.X.(*ssa.Alloc); ok {
				if fi := fieldInits(al); len(fi) > 0 {
					var ks []string
					for k := range fi {
						ks = append(ks, k)
					}
					sort.Strings(ks)
					var parts []string
					for _, k := range ks {
						parts = append(parts, k+"="+renderStructVal(fi[k], depth+1))
					}
					return "{" + strings.Join(parts, ",") + "}"
				}
			}
		}
		if al, ok := v.(*ssa.Alloc); ok {
			if fi := fieldInits(al); len(fi) > 0 {
				var ks []string
				for k := range fi {
					ks = append(ks, k)
				}
				sort.Strings(ks)
				var parts []string
				for _, k := range ks {
					parts = append(parts, k+"="+renderStructVal(fi[k], depth+1))
				}
				return "&{" + strings.Join(parts, ",") + "}"
			}
		}
	}
	return Expr(v)
}

// timeThresholds: the UTCTime/GeneralizedTime cut-over agrees between writer and reader (shared by C04 and C18).
func (c *Ctx) timeThresholds() {
	w := c.W
	ap := "z/encoding/asn1"
	if fn := w.Fn(ap + ".outsideUTCRange"); fn != nil {
		var cond string
		for _, b := range fn.Blocks {
			if ifi, ok := b.Instrs[len(b.Instrs)-1].(*ssa.If); ok {
				cond = Expr(ifi.Cond)
			}
		}
		ret := strings.Join(retExprs(fn, 0), " | ")
		c.Check(cond == "((time.Time).Year(t)<1950)" && (ret == "φ(true|((time.Time).Year(t)>=2050))" || ret == "φ(((time.Time).Year(t)>=2050)|true)"), "R-VSET", "asn1.outsideUTCRange", "UTCTime is used exactly for 1950 <= year < 2050 (RFC 5280 4.1.2.5)", w.Pos(fn.Pos()), cond+" ; "+ret)
	} else {
		c.Undecided("R-VSET", "asn1.outsideUTCRange", "anchor", "-", "not found")
	}
	if fn := w.Fn(ap + ".appendUTCTime"); fn != nil {
		yr := "(time.Time).Year(t)"
		for _, in := range callsIn(fn, ap+".appendTwoDigits") {
			a := Expr(callCommon(in).Args[1])
			switch a {
			case "(" + yr + "-1900)":
				c.Cut(CutSpec{Rule: "R-VSET", Fn: fn, Label: "two-digit year = year-1900 only for year >= 1950", Target: isInstr(in), Cut: factExpr("ge", yr, "1950")})
				c.Cut(CutSpec{Rule: "R-VSET", Fn: fn, Label: "two-digit year = year-1900 only for year < 2000", Target: isInstr(in), Cut: factExpr("lt", yr, "2000")})
			case "(" + yr + "-2000)":
				c.Cut(CutSpec{Rule: "R-VSET", Fn: fn, Label: "two-digit year = year-2000 only for year >= 2000", Target: isInstr(in), Cut: factExpr("ge", yr, "2000")})
				c.Cut(CutSpec{Rule: "R-VSET", Fn: fn, Label: "two-digit year = year-2000 only for year < 2050", Target: isInstr(in), Cut: factExpr("lt", yr, "2050")})
			default:
				c.Fail("R-VSET", "asn1.appendUTCTime", "two-digit year is year-1900 or year-2000", w.InstrPos(in), a)
			}
		}
	}
	if fn := w.Fn(ap + ".parseUTCTime"); fn != nil {
		var adj ssa.Instruction
		for _, in := range callsIn(fn, "(time.Time).AddDate") {
			adj = in
			cc := callCommon(in)
			c.Check(Expr(cc.Args[1]) == "-100" && Expr(cc.Args[2]) == "0" && Expr(cc.Args[3]) == "0", "R-VSET", "asn1.parseUTCTime", "the adjustment is exactly one century back", w.InstrPos(in), Expr(cc.Args[1]))
			c.Cut(CutSpec{Rule: "R-VSET", Fn: fn, Label: "a two-digit year is moved to 19xx only if it parsed as >= 2050", Target: isInstr(in), Cut: func(f Fact) bool {
				return f.Op == "ge" && f.Y != nil && Expr(f.Y) == "2050" && strings.HasPrefix(Expr(f.X), "(time.Time).Year(")
			}})
		}
		if adj != nil {
			c.Cut(CutSpec{Rule: "R-VSET", Fn: fn, Label: "a two-digit year that parsed as >= 2050 is always moved to 19xx", Target: SuccessReturn(1, nil), Barrier: func(in ssa.Instruction) bool { return in == adj }, Cut: func(f Fact) bool {
				return f.Op == "lt" && f.Y != nil && Expr(f.Y) == "2050" && strings.HasPrefix(Expr(f.X), "(time.Time).Year(")
			}})
		} else {
			c.Fail("R-VSET", "asn1.parseUTCTime", "century adjustment found", w.Pos(fn.Pos()), "")
		}
	}
	nsel := 0
	for _, fname := range []string{ap + ".makeBody", ap + ".makeField", ap + ".marshalField"} {
		fn := w.Fn(fname)
		if fn == nil {
			continue
		}
		for _, in := range callsIn(fn, ap+".makeUTCTime") {
			nsel++
			c.Cut(CutSpec{Rule: "R-VSET", Fn: fn, Label: fmt.Sprintf("UTCTime encoder #%d is chosen only if the time is inside the UTCTime range", nsel), Target: isInstr(in), Cut: func(f Fact) bool {
				cl := callOf(f.X)
				return f.Op == "false" && cl != nil && strings.HasSuffix(calleeName(&cl.Call), ".outsideUTCRange")
			}})
		}
	}
	c.Check(nsel >= 1, "R-VSET", "asn1 marshal", "UTCTime encoder selection sites enumerated", "-", fmt.Sprint(nsel))

}
