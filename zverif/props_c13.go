package main

import (
	"fmt"
	"strings"

	"golang.org/x/tools/go/ssa"
)

const (
	pkOCSP       = "z/x509/revocation/ocsp"
	fnPRFC       = pkOCSP + ".ParseResponseForCert"
	fnRespCSF    = "(*" + pkOCSP + ".Response).CheckSignatureFrom"
	fnCertCS     = "(*z/x509.Certificate).CheckSignature"
	fnBigCmp     = "(*math/big.Int).Cmp"
	fnParseCert  = "z/x509.ParseCertificate"
	fnASN1Unmarh = "z/encoding/asn1.Unmarshal"
)

func init() {
	register(&propDef{
		ID: "C13",
		Explain: "R-CUT on ParseResponseForCert: every success return passed issuer==nil or the nil edge of a signature check that involves issuer (ret.CheckSignatureFrom(issuer), or " +
			"issuer.CheckSignature over the fields of ret.Certificate); when certificates are embedded the response signature is checked under ret.Certificate, which is parsed from Certificates[0]; " +
			"the single response selected is Responses[0] (no cert) or the first serial match, and no success without a match; trailing data, critical extensions and unknown issuer hashes reject; " +
			"status stores are behind the Good/Unknown flags. R-PROV on the Response fields the signature is computed over and on Response.CheckSignatureFrom; R-TABLE: one hashOIDs table for creation and parsing.",
		NotCov: "Field round-trip of CreateResponse/CreateRequest (value equality through the ASN.1 codec); that the signed bytes are what the responder meant.",
		Floor:  24,
		Run:    runC13,
	})
}

func usesGlobal(fn *ssa.Function, name string) bool {
	for _, b := range fn.Blocks {
		for _, in := range b.Instrs {
			for _, op := range in.Operands(nil) {
				if g, ok := (*op).(*ssa.Global); ok && g.Name() == name {
					return true
				}
			}
		}
	}
	return false
}

func runC13(c *Ctx) {
	w := c.W
	curveTableRule(c, "z/x509/revocation/ocsp.signingParamsForPublicKey", "OCSP response signing")
	sigParamsTableRule(c, "z/x509/revocation/ocsp.signingParamsForPublicKey")
	fn := w.Fn(fnPRFC)
	if fn == nil {
		c.Undecided("R-CUT", fnPRFC, "anchor", "-", "not found")
		return
	}
	// the Response being built = result 0 of the success return
	var ret ssa.Value
	for v := range returnClosure(fn, 0) {
		if al, ok := v.(*ssa.Alloc); ok && strings.HasSuffix(typeStr(al.Type()), "ocsp.Response") {
			ret = al
		}
	}
	if ret == nil {
		c.Undecided("R-CUT", fnPRFC, "response object", w.Pos(fn.Pos()), "no fresh Response flows to result 0")
		return
	}
	isRetCert := func(v ssa.Value) bool {
		fa := loadedField(v)
		return fa != nil && fieldName(fa) == "Response.Certificate" && deparam(fa.X) == ret
	}
	respSigBy := func(who VP) VP {
		return func(v ssa.Value) bool {
			if !ResultOf(-1, fnRespCSF)(v) {
				return false
			}
			cl := callOf(v)
			return deparam(cl.Call.Args[0]) == ret && who(cl.Call.Args[1])
		}
	}
	issuerSignsEmbedded := func(v ssa.Value) bool {
		if !ResultOf(-1, fnCertCS)(v) {
			return false
		}
		cl := callOf(v)
		a := cl.Call.Args
		if !Param("issuer")(a[0]) {
			return false
		}
		for i, f := range []string{"Certificate.SignatureAlgorithm", "Certificate.RawTBSCertificate", "Certificate.Signature"} {
			fa := loadedField(a[i+1])
			if fa == nil || fieldName(fa) != f || !isRetCert(fa.X) {
				return false
			}
		}
		return true
	}
	c.Cut(CutSpec{Fn: fn, Label: "success only with issuer==nil or a verified signature that involves issuer", Target: SuccessReturn(1, nil),
		Cut: AnyF(IsNil(Param("issuer")), IsNil(respSigBy(Param("issuer"))), IsNil(issuerSignsEmbedded))})
	embedded := Cmp(LenOf(LoadOfField("basicResponse.Certificates")), "gt ne", ConstInt(0))
	c.Cut(CutSpec{Fn: fn, Label: "embedded certificates: success only if the response verifies under ret.Certificate", Start: embedded, Target: SuccessReturn(1, nil),
		Cut: IsNil(respSigBy(isRetCert))})
	c.Cut(CutSpec{Fn: fn, Label: "embedded certificates and an issuer: success only if issuer signed ret.Certificate", Start: embedded, Target: SuccessReturn(1, nil),
		Cut: AnyF(IsNil(Param("issuer")), IsNil(issuerSignsEmbedded))})
	c.Cut(CutSpec{Fn: fn, Label: "no embedded certificate and an issuer: success only if the response verifies under issuer",
		Start: Cmp(LenOf(LoadOfField("basicResponse.Certificates")), "le eq", ConstInt(0)), Target: SuccessReturn(1, nil),
		Cut: AnyF(IsNil(Param("issuer")), IsNil(respSigBy(Param("issuer"))))})
	c.Cut(CutSpec{Fn: fn, Label: "every success return passed the embedded-certificates test", Target: SuccessReturn(1, nil),
		Cut: AnyF(embedded, Cmp(LenOf(LoadOfField("basicResponse.Certificates")), "le eq", ConstInt(0)))})

	// stores to the Response
	// (made by the function itself or by a helper it hands the Response to)
	stores := w.fieldWritesOn(fn, ret, "Response")
	provExact := func(field, want string) {
		ws := stores[field]
		if len(ws) != 1 {
			c.Fail("R-PROV", fnPRFC, "exactly one store to Response."+field, w.Pos(fn.Pos()), fmt.Sprint(len(ws)))
			return
		}
		c.Sites++
		got := ws[0].ValExpr
		c.Check(got == want, "R-PROV", fnPRFC, "Response."+field+" = "+want, w.InstrPos(ws[0].In), got)
	}
	provExact("TBSResponseData", "basicResp.TBSResponseData.Raw")
	provExact("Signature", "(encoding/asn1.BitString).RightAlign(basicResp.Signature)")
	provExact("SignatureAlgorithm", "x509/revocation/ocsp.getSignatureAlgorithmFromOID(basicResp.SignatureAlgorithm.Algorithm)")
	provExact("SerialNumber", "singleResp.CertID.SerialNumber")
	provExact("ThisUpdate", "singleResp.ThisUpdate")
	provExact("NextUpdate", "singleResp.NextUpdate")
	provExact("ProducedAt", "basicResp.TBSResponseData.ProducedAt")
	provExact("Extensions", "singleResp.SingleExtensions")
	provExact("Certificate", "x509.ParseCertificate(basicResp.Certificates[0].FullBytes)#0")
	for _, wr := range stores["Certificate"] {
		_ = wr
		c.Cut(CutSpec{Fn: fn, Label: "success only if the embedded certificate parsed", Start: embedded, Target: SuccessReturn(1, nil), Cut: IsNil(ResultOf(1, fnParseCert))})
	}

	// Response.CheckSignatureFrom
	if f := w.Fn(fnRespCSF); f == nil {
		c.Undecided("R-PROV", fnRespCSF, "anchor", "-", "not found")
	} else {
		ok, n := true, 0
		det := ""
		for v := range returnClosure(f, 0) {
			n++
			det = Expr(v)
			if det != "(*x509.Certificate).CheckSignature(issuer,resp.SignatureAlgorithm,resp.TBSResponseData,resp.Signature)" {
				ok = false
			}
		}
		c.Check(ok && n == 1, "R-PROV", fnRespCSF, "returns issuer.CheckSignature(resp.SignatureAlgorithm, resp.TBSResponseData, resp.Signature)", w.Pos(f.Pos()), det)
	}

	// single-response selection
	var single *ssa.Alloc
	for _, b := range fn.Blocks {
		for _, in := range b.Instrs {
			if al, ok := in.(*ssa.Alloc); ok && al.Comment == "singleResp" {
				single = al
			}
		}
	}
	if single == nil {
		c.Undecided("R-CUT", fnPRFC, "selected single response", w.Pos(fn.Pos()), "local not found")
	} else {
		var sel []*ssa.Store
		for _, ref := range *single.Referrers() {
			if st, ok := ref.(*ssa.Store); ok && st.Addr == single {
				sel = append(sel, st)
			}
		}
		serialMatch := Cmp(func(v ssa.Value) bool {
			if !ResultOf(-1, fnBigCmp)(v) {
				return false
			}
			cl := callOf(v)
			return Expr(cl.Call.Args[0]) == "cert.SerialNumber" && strings.HasSuffix(Expr(cl.Call.Args[1]), ".CertID.SerialNumber")
		}, "eq", ConstInt(0))
		nIdx0, nLoop := 0, 0
		for _, st := range sel {
			c.Sites++
			src := Expr(st.Val)
			switch {
			case src == "basicResp.TBSResponseData.Responses[0]":
				nIdx0++
				c.Cut(CutSpec{Fn: fn, Label: "Responses[0] selected only when no certificate was supplied", Target: isInstr(st), Cut: IsNil(Param("cert"))})
			case strings.HasPrefix(src, "basicResp.TBSResponseData.Responses[") || src == "resp":
				nLoop++
				// the loop variable copy: its serial is the one compared
				c.Cut(CutSpec{Fn: fn, Label: "a listed response is selected only on cert.SerialNumber.Cmp(its serial) == 0", Target: isInstr(st), Cut: serialMatch})
				for _, st2 := range sel {
					c.Cut(CutSpec{Fn: fn, Label: "first match wins: no later selection overwrites it [" + Expr(st2.Val) + "]", StartAfter: st, Target: isInstr(st2), MinTargets: 1})
				}
				// first match wins, also when the selection is carried by an index variable:
				// after a match edge at most one selection event (a store to the selected
				// response inside the scan, or an assignment to a variable the selecting index
				// is computed from) can happen.
				selPhis := map[*ssa.Phi]bool{}
				if ia := loadedIndex(st.Val); ia != nil {
					for v := range backClosure(ia.Index, nil) {
						if p, ok := v.(*ssa.Phi); ok {
							selPhis[p] = true
						}
					}
				}
				sp := CutSpec{Rule: "R-ONCE", Fn: fn, Label: "first match wins: at most one selection event after a serial match", Start: serialMatch, MaxEvents: 1}
				if len(selPhis) > 0 {
					sp.EventEdge = func(phi *ssa.Phi, in ssa.Value) bool {
						if !selPhis[phi] {
							return false
						}
						if p2, ok := in.(*ssa.Phi); ok && selPhis[p2] {
							return false
						}
						_, isC := in.(*ssa.Const)
						return !isC
					}
				} else {
					sp.EventInstr = func(in ssa.Instruction, _ resolver) bool {
						s2, ok := in.(*ssa.Store)
						return ok && s2.Addr == single
					}
				}
				c.Cut(sp)
			default:
				c.Fail("R-PROV", fnPRFC, "single response selected from an unexpected source", w.InstrPos(st), src)
			}
		}
		c.Check(nIdx0 == 1 && nLoop == 1, "R-PROV", fnPRFC, "selection sites: Responses[0] and the matching loop element", w.Pos(fn.Pos()), fmt.Sprintf("idx0:%d loop:%d", nIdx0, nLoop))
		c.Cut(CutSpec{Fn: fn, Label: "with a certificate supplied, success only after a serial match", Start: NonNil(Param("cert")), Target: SuccessReturn(1, nil), Cut: serialMatch})
		c.Cut(CutSpec{Fn: fn, Label: "success only with at least one single response", Target: SuccessReturn(1, nil),
			Cut: Cmp(LenOf(LoadOfField("responseData.Responses")), "ne gt", ConstInt(0))})
		c.Cut(CutSpec{Fn: fn, Label: "without a certificate, success only with exactly one single response", Target: SuccessReturn(1, nil),
			Cut: AnyF(NonNil(Param("cert")), Cmp(LenOf(LoadOfField("responseData.Responses")), "le", ConstInt(1)))})
		// status mapping
		flag := func(name string) VP {
			return func(v ssa.Value) bool { return Expr(v) == "bool(singleResp."+name+")" || Expr(v) == "singleResp."+name }
		}
		nSt := 0
		for _, wr := range stores["Status"] {
			c.Sites++
			nSt++
			k, _ := intConst(stripConv(wr.Val))
			switch k {
			case 0: // Good
				c.Cut(CutSpec{Fn: fn, Label: "Status=Good only under singleResp.Good", Target: isInstr(wr.In), Cut: IsTrue(flag("Good"))})
			case 2: // Unknown
				c.Cut(CutSpec{Fn: fn, Label: "Status=Unknown only under singleResp.Unknown", Target: isInstr(wr.In), Cut: IsTrue(flag("Unknown"))})
				c.Cut(CutSpec{Fn: fn, Label: "Status=Unknown only when not Good", Target: isInstr(wr.In), Cut: IsFalse(flag("Good"))})
			case 1: // Revoked
				c.Cut(CutSpec{Fn: fn, Label: "Status=Revoked only when not Good", Target: isInstr(wr.In), Cut: IsFalse(flag("Good"))})
				c.Cut(CutSpec{Fn: fn, Label: "Status=Revoked only when not Unknown", Target: isInstr(wr.In), Cut: IsFalse(flag("Unknown"))})
			default:
				c.Fail("R-TABLE", fnPRFC, "unexpected status constant", w.InstrPos(wr.In), Expr(wr.Val))
			}
		}
		c.Check(nSt == 3, "R-TABLE", fnPRFC, "three status stores", w.Pos(fn.Pos()), fmt.Sprint(nSt))
		for _, wr := range stores["IsRevoked"] {
			if b, ok := boolConst(wr.Val); ok && b {
				c.Cut(CutSpec{Fn: fn, Label: "IsRevoked=true only when neither Good nor Unknown", Target: isInstr(wr.In), Cut: IsFalse(flag("Good"))})
				c.Cut(CutSpec{Fn: fn, Label: "IsRevoked=true only when not Unknown", Target: isInstr(wr.In), Cut: IsFalse(flag("Unknown"))})
			}
		}
		provExact("RevokedAt", "singleResp.Revoked.RevocationTime")
	}

	// rejections
	c.Cut(CutSpec{Fn: fn, Label: "a critical single extension rejects", Start: IsTrue(LoadOfField("Extension.Critical")), Target: SuccessReturn(1, nil), MinTargets: 1})
	c.Cut(CutSpec{Fn: fn, Label: "an unknown issuer hash algorithm rejects", Target: SuccessReturn(1, nil),
		Cut: Cmp(func(v ssa.Value) bool { fa := loadedField(v); return fa != nil && fieldName(fa) == "Response.IssuerHash" && fa.X == ret }, "ne", ConstInt(0))})
	for _, wr := range stores["IssuerHash"] {
		c.Sites++
		c.Check(hasAll(Deps(wr.Val), "global:x509/revocation/ocsp.hashOIDs"), "R-TABLE", fnPRFC, "IssuerHash is a key of hashOIDs", w.InstrPos(wr.In), Expr(wr.Val))
		c.Cut(CutSpec{Fn: fn, Label: "IssuerHash set only when the OID equals the table entry", Target: isInstr(wr.In),
			Cut: IsTrue(func(v ssa.Value) bool {
				if !ResultOf(-1, "(z/encoding/asn1.ObjectIdentifier).Equal")(v) {
					return false
				}
				cl := callOf(v)
				return Expr(cl.Call.Args[0]) == "singleResp.CertID.HashAlgorithm.Algorithm" && hasAll(Deps(cl.Call.Args[1]), "global:x509/revocation/ocsp.hashOIDs")
			})})
	}
	// the two top-level decodes: error and trailing data reject
	nU := 0
	for _, in := range callsIn(fn, fnASN1Unmarh) {
		cl := in.(*ssa.Call)
		al, ok := cl.Call.Args[1].(*ssa.MakeInterface)
		if !ok {
			continue
		}
		a, ok := al.X.(*ssa.Alloc)
		if !ok || (a.Comment != "resp" && a.Comment != "basicResp") {
			continue
		}
		nU++
		c.Sites++
		this := func(idx int) VP {
			return func(v ssa.Value) bool { ex, ok := v.(*ssa.Extract); return ok && ex.Tuple == cl && ex.Index == idx }
		}
		c.Cut(CutSpec{Fn: fn, Label: "decode error of " + a.Comment + " rejects", Target: SuccessReturn(1, nil), Cut: IsNil(this(1))})
		c.Cut(CutSpec{Fn: fn, Label: "trailing data after " + a.Comment + " rejects", Target: SuccessReturn(1, nil), Cut: Cmp(LenOf(this(0)), "le eq", ConstInt(0))})
	}
	c.Check(nU == 2, "R-CUT", fnPRFC, "two top-level asn1.Unmarshal calls", w.Pos(fn.Pos()), fmt.Sprint(nU))
	c.Cut(CutSpec{Fn: fn, Label: "a non-success response status rejects", Target: SuccessReturn(1, nil),
		Cut: Cmp(func(v ssa.Value) bool { return hasAll(Deps(v), "field:responseASN1.Status") }, "eq", w.IsConstNamed(pkOCSP, "Success"))})

	// one hash table for both directions
	for _, nm := range []string{pkOCSP + ".getHashAlgorithmFromOID", pkOCSP + ".getOIDFromHashAlgorithm"} {
		f := w.Fn(nm)
		c.Check(f != nil && usesGlobal(f, "hashOIDs"), "R-TABLE", nm, "ranges over the shared hashOIDs table", "-", "")
	}
	for _, nm := range []string{pkOCSP + ".CreateRequest", pkOCSP + ".CreateResponse"} {
		f := w.Fn(nm)
		ok := false
		if f != nil {
			// in the function or in an unexported helper only it calls
			for _, g := range w.familyOf(f) {
				if len(callsIn(g, pkOCSP+".getOIDFromHashAlgorithm")) >= 1 || usesGlobal(g, "hashOIDs") {
					ok = true
				}
			}
		}
		c.Check(ok, "R-TABLE", nm, "hash OID taken from the shared hashOIDs table", "-", "")
	}
	if f := w.Fn(pkOCSP + ".ParseRequest"); f != nil {
		c.Check(len(callsIn(f, pkOCSP+".getHashAlgorithmFromOID")) >= 1, "R-TABLE", pkOCSP+".ParseRequest", "hash looked up in hashOIDs (getHashAlgorithmFromOID)", w.Pos(f.Pos()), "")
	}
}

func loadedAlloc(v ssa.Value) (*ssa.Alloc, bool) {
	if u, ok := v.(*ssa.UnOp); ok {
		al, ok := u.X.(*ssa.Alloc)
		return al, ok
	}
	return nil, false
}
