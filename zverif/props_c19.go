package main

import (
	"fmt"
	"strings"

	"golang.org/x/tools/go/ssa"
)

const pkASN1 = "z/encoding/asn1"

func init() {
	register(&propDef{
		ID: "C19",
		Explain: "R-VSET by shape (rejecting branches): for every non-canonical form named in X.690 10/11 the decoder has a branch whose taken edge carries that condition and from which no success exit is reachable, in both codecs: " +
			"INTEGER first-two-octet redundancy (00 followed by <0x80; ff followed by >=0x80), base-128 leading octet 0x80 (OID sub-identifiers and high tag numbers), tag number < 31 in high-tag form, length octet count 0 (indefinite), " +
			"long-form length < 128, superfluous leading zero length octet, BIT STRING padding > 7 / padding without data / non-zero padding bits, BOOLEAN other than 00/ff, GeneralizedTime that does not re-format to itself (cryptobyte). " +
			"The condition of each rejecting edge is matched on the resolved SSA expression (operands, masks, constants), not on text.",
		NotCov: "Encodings longer than the inspected octets are canonical only if the remaining arithmetic is right (not decided); an equivalent test written in a different algebraic form is reported as an unrecognised idiom; GeneralizedTime canonical form is delegated to time.Format equality.",
		Floor:  24,
		Run:    runC19,
	})
}

// rejects: there is at least one branch edge carrying the last condition whose
// source block is dominated by edges carrying the earlier ones; from every
// such edge no success exit (given by succ) is reachable.
func (c *Ctx) rejects(fnName, label string, succ func(*ssa.Function) func(ssa.Instruction, resolver) bool, conj ...FP) {
	w := c.W
	fn := w.Fn(fnName)
	if fn == nil {
		c.Undecided("R-VSET", fnName, label, "-", "function not found")
		return
	}
	var edges []EdgeRef
	for _, b := range fn.Blocks {
		ifi, ok := b.Instrs[len(b.Instrs)-1].(*ssa.If)
		if !ok {
			continue
		}
		for si := 0; si < 2; si++ {
			if !anyFact(condFacts(ifi.Cond, si == 0, idRes), conj[len(conj)-1]) {
				continue
			}
			dom := domFacts(b)
			all := true
			for _, p := range conj[:len(conj)-1] {
				if !anyFact(dom, p) {
					all = false
				}
			}
			if all {
				edges = append(edges, EdgeRef{B: b, Succ: si, Known: dom})
			}
		}
	}
	c.Sites += len(edges)
	if len(edges) == 0 {
		if h, ok := c.rejectsThroughHelper(fn, succ, conj); ok {
			c.add("discharged", "R-VSET", FuncName(fn), label, w.Pos(fn.Pos()), "the rejecting branch sits in the helper "+h+": no accepting return of the helper is reachable from it, and the function has no success exit once the helper refused", 0)
			return
		}
		c.Fail("R-VSET", fnName, label, w.Pos(fn.Pos()), "anchor lost / unrecognised idiom: no branch edge in the function carries this rejecting condition")
		return
	}
	r := RunCut(&CutSpec{Fn: fn, StartEdges: edges, Target: succ(fn)})
	pos := w.InstrPos(edges[0].B.Instrs[len(edges[0].B.Instrs)-1])
	switch {
	case r.Capped:
		c.add("undecided", "R-VSET", FuncName(fn), label, pos, "state cap", r.States)
	case r.Violated:
		c.add("violated", "R-VSET", FuncName(fn), label, pos, "a success exit is reachable from the rejecting edge: "+w.pathString(r.Path, r.At), r.States)
	default:
		c.add("discharged", "R-VSET", FuncName(fn), label, pos, fmt.Sprintf("%d rejecting edge(s), no success exit reachable", len(edges)), r.States)
	}
}

func exprIs(s string) VP   { return func(v ssa.Value) bool { return Expr(v) == s } }
func exprHas(s string) VP  { return func(v ssa.Value) bool { return strings.Contains(Expr(v), s) } }
func trueExit(fn *ssa.Function) func(ssa.Instruction, resolver) bool { return TrueReturn(0, nil) }

func runC19(c *Ctx) {
	w := c.W
	g := flagGlobal(w)
	strict := func(f Fact) bool {
		u, ok := f.X.(*ssa.UnOp)
		return f.Op == "false" && ok && g != nil && u.X == ssa.Value(g)
	}
	// ---- INTEGER
	c.rejects(pkASN1+".checkInteger", "INTEGER 00 followed by an octet < 0x80 (strict)", successExit, strict, Cmp(exprIs("bytes[0]"), "eq", ConstInt(0)), Cmp(exprIs("(bytes[1]&128)"), "eq", ConstInt(0)))
	c.rejects(pkASN1+".checkInteger", "INTEGER ff followed by an octet >= 0x80 (strict)", successExit, strict, Cmp(exprIs("bytes[0]"), "eq", ConstInt(0xff)), Cmp(exprIs("(bytes[1]&128)"), "eq", ConstInt(0x80)))
	c.rejects(pkASN1+".checkInteger", "empty INTEGER", successExit, Cmp(LenOf(Param("bytes")), "eq", ConstInt(0)))
	c.rejects(pkCB+".checkASN1Integer", "INTEGER 00 followed by an octet < 0x80", trueExit, Cmp(exprIs("bytes[0]"), "eq", ConstInt(0)), Cmp(exprIs("(bytes[1]&128)"), "eq", ConstInt(0)))
	c.rejects(pkCB+".checkASN1Integer", "INTEGER ff followed by an octet >= 0x80", trueExit, Cmp(exprIs("bytes[0]"), "eq", ConstInt(0xff)), Cmp(exprIs("(bytes[1]&128)"), "eq", ConstInt(0x80)))
	c.rejects(pkCB+".checkASN1Integer", "empty INTEGER", trueExit, Cmp(LenOf(Param("bytes")), "eq", ConstInt(0)))
	// every integer reader goes through the check
	for _, p := range [][2]string{{pkASN1 + ".parseInt64", pkASN1 + ".checkInteger"}, {pkASN1 + ".parseInt32", pkASN1 + ".checkInteger"}, {pkASN1 + ".parseBigInt", pkASN1 + ".checkInteger"},
		{cbFn("readASN1BigInt"), pkCB + ".checkASN1Integer"}, {cbFn("readASN1Int64"), pkCB + ".checkASN1Integer"}, {cbFn("readASN1Uint64"), pkCB + ".checkASN1Integer"}} {
		fn := w.Fn(p[0])
		if fn == nil {
			c.Undecided("R-VSET", p[0], "integer check", "-", "function not found")
			continue
		}
		var guard FP
		if strings.HasSuffix(p[1], "checkInteger") {
			guard = IsNil(ResultOf(-1, p[1]))
		} else {
			guard = IsTrue(ResultOf(-1, p[1]))
		}
		c.Cut(CutSpec{Rule: "R-VSET", Fn: fn, Label: "succeeds only past the minimal-INTEGER check", Target: successExit(fn), Cut: guard})
	}
	// ---- base-128
	c.rejects(pkASN1+".parseBase128Int", "base-128 integer with leading octet 0x80", successExit, Cmp(func(v ssa.Value) bool { _, ok := v.(*ssa.Phi); return ok }, "eq", ConstInt(0)), Cmp(exprHas("bytes["), "eq", ConstInt(0x80)))
	c.rejects(cbFn("readBase128Int"), "base-128 integer with leading octet 0x80", trueExit, Cmp(func(v ssa.Value) bool { _, ok := v.(*ssa.Phi); return ok }, "eq", ConstInt(0)), Cmp(exprHas("read(s,1)[0]"), "eq", ConstInt(0x80)))
	// OIDs and high tag numbers are read through these functions
	for _, p := range [][2]string{{pkASN1 + ".parseObjectIdentifier", pkASN1 + ".parseBase128Int"}, {pkASN1 + ".parseTagAndLength", pkASN1 + ".parseBase128Int"}, {cbFn("ReadASN1ObjectIdentifier"), cbFn("readBase128Int")}} {
		fn := w.Fn(p[0])
		n := 0
		if fn != nil {
			n = len(callsIn(fn, p[1]))
		}
		c.Check(n >= 1, "R-VSET", p[0], "multi-octet numbers are decoded by "+short(expand(p[1])), "-", fmt.Sprint(n))
	}
	// ---- tags and lengths (encoding/asn1)
	ptl := pkASN1 + ".parseTagAndLength"
	c.rejects(ptl, "high-tag-number form used for a tag number < 31", successExit, Cmp(exprIs("ret.tag"), "lt", ConstInt(0x1f)))
	c.rejects(ptl, "indefinite length (0 length octets)", successExit, Cmp(exprHas("&127)"), "eq", ConstInt(0)))
	// (the accumulated length, read back from ret.length or still in a register as (length<<8)|octet)
	accLen := AnyV(exprIs("ret.length"), func(v ssa.Value) bool {
		e := Expr(v)
		return strings.HasPrefix(e, "((") && strings.Contains(e, "length<<8)|")
	})
	c.rejects(ptl, "superfluous leading zero octet in a long-form length", successExit, Cmp(accLen, "eq", ConstInt(0)))
	c.rejects(ptl, "long-form length < 128 (strict)", successExit, strict, Cmp(exprIs("ret.length"), "lt", ConstInt(0x80)))
	// ---- tags and lengths (cryptobyte)
	ra := cbFn("readASN1")
	c.rejects(ra, "high-tag-number form identifier", trueExit, Cmp(exprIs("(s[0]&31)"), "eq", ConstInt(0x1f)))
	c.rejects(ra, "0 length octets (indefinite) or more than 4", trueExit, Cmp(exprIs("(s[1]&127)"), "eq", ConstInt(0)))
	c.rejects(ra, "long-form length < 128", trueExit, Cmp(exprIs("len32"), "lt", ConstInt(128)))
	c.rejects(ra, "superfluous leading zero octet in a long-form length", trueExit, Cmp(exprIs("(len32>>(((s[1]&127)-1)*8))"), "eq", ConstInt(0)))
	// ---- BIT STRING
	pbs := pkASN1 + ".parseBitString"
	c.rejects(pbs, "more than 7 padding bits", successExit, Cmp(exprIs("int(bytes[0])"), "gt", ConstInt(7)))
	c.rejects(pbs, "padding bits without data", successExit, Cmp(LenOf(Param("bytes")), "eq", ConstInt(1)), Cmp(exprIs("int(bytes[0])"), "gt", ConstInt(0)))
	c.rejects(pbs, "non-zero padding bits", successExit, Cmp(exprIs("(bytes[(len(bytes)-1)]&((1<<bytes[0])-1))"), "ne", ConstInt(0)))
	rbs := cbFn("ReadASN1BitString")
	c.rejects(rbs, "more than 7 padding bits", trueExit, Cmp(exprIs("bytes[0]"), "gt", ConstInt(7)))
	c.rejects(rbs, "padding bits without data", trueExit, Cmp(LenOf(exprIs("bytes")), "eq", ConstInt(0)), Cmp(exprIs("bytes[0]"), "ne", ConstInt(0)))
	c.rejects(rbs, "non-zero padding bits", trueExit, Cmp(exprIs("(bytes[(len(bytes)-1)]&((1<<bytes[0])-1))"), "ne", ConstInt(0)))
	// ---- BOOLEAN
	if fn := w.Fn(pkASN1 + ".parseBool"); fn != nil {
		c.Cut(CutSpec{Rule: "R-VSET", Fn: fn, Label: "BOOLEAN accepted only for content 00 or ff", Target: successExit(fn), Cut: AnyF(Cmp(exprIs("bytes[0]"), "eq", ConstInt(0)), Cmp(exprIs("bytes[0]"), "eq", ConstInt(0xff)))})
		c.Cut(CutSpec{Rule: "R-VSET", Fn: fn, Label: "BOOLEAN accepted only with one content octet", Target: successExit(fn), Cut: Cmp(LenOf(Param("bytes")), "eq", ConstInt(1))})
	} else {
		c.Undecided("R-VSET", pkASN1+".parseBool", "anchor", "-", "not found")
	}
	if fn := w.Fn(cbFn("ReadASN1Boolean")); fn != nil {
		c.Cut(CutSpec{Rule: "R-VSET", Fn: fn, Label: "BOOLEAN accepted only for content 00 or ff", Target: TrueReturn(0, nil), Cut: AnyF(Cmp(exprIs("bytes[0]"), "eq", ConstInt(0)), Cmp(exprIs("bytes[0]"), "eq", ConstInt(0xff)))})
		c.Cut(CutSpec{Rule: "R-VSET", Fn: fn, Label: "BOOLEAN accepted only with one content octet", Target: TrueReturn(0, nil), Cut: Cmp(LenOf(exprIs("bytes")), "eq", ConstInt(1))})
	} else {
		c.Undecided("R-VSET", cbFn("ReadASN1Boolean"), "anchor", "-", "not found")
	}
	// ---- GeneralizedTime (cryptobyte)
	timeZoneRules(c)
	c19Extras3(c)
	c.borrow(c21Extras, func(o *Obligation) bool { return o.Rule == "R-INIT" })
	if fn :=w.Fn(cbFn("ReadASN1GeneralizedTime")); fn != nil {
		c.Cut(CutSpec{Rule: "R-VSET", Fn: fn, Label: "GeneralizedTime accepted only if re-formatting reproduces the input", Target: TrueReturn(0, nil),
			Cut: Cmp(func(v ssa.Value) bool {
				cl := callOf(v)
				return cl != nil && calleeName(&cl.Call) == "(time.Time).Format" && ResultOf(0, "time.Parse")(cl.Call.Args[0]) && Expr(cl.Call.Args[1]) == Expr(callOf(cl.Call.Args[0]).Call.Args[0])
			}, "eq", exprIs("string(bytes)"))})
	} else {
		c.Undecided("R-VSET", cbFn("ReadASN1GeneralizedTime"), "anchor", "-", "not found")
	}
}
