package main

import (
	"fmt"
	"go/types"

	"golang.org/x/tools/go/ssa"
)

const (
	fnVerify       = "(*z/x509.Certificate).Verify"
	fnBuildChains  = "(*z/x509.Certificate).buildChains"
	fnIsValid      = "(*z/x509.Certificate).isValid"
	fnFVP          = "(*z/x509.CertPool).findVerifiedParents"
	fnFilterByDate = "z/x509.FilterByDate"
	fnCSF          = "(*z/x509.Certificate).CheckSignatureFrom"
	fnContains     = "(*z/x509.CertPool).Contains"
	fnVerifyHost   = "(*z/x509.Certificate).VerifyHostname"
	fnCCFKU        = "z/x509.checkChainForKeyUsage"
	fnAppendFresh  = "(z/x509.CertificateChain).AppendToFreshChain"
	fnCertInChain  = "(z/x509.CertificateChain).CertificateInChain"
	fnSKInChain    = "(z/x509.CertificateChain).CertificateSubjectAndKeyInChain"
)

func isSliceOfNamed(t types.Type, name string) bool {
	s, ok := types.Unalias(t).Underlying().(*types.Slice)
	if !ok {
		return false
	}
	n, ok := types.Unalias(s.Elem()).(*types.Named)
	return ok && n.Obj().Name() == name
}

func init() {
	register(&propDef{
		ID: "C07",
		Explain: "R-CUT/R-PROV/R-OWN obligations on x509 chain building: every chain appended in buildChains is behind the validity, " +
			"repetition and signature guards for the same certificate value; candidates come only from findVerifiedParents, whose appends are behind " +
			"CheckSignatureFrom==nil; isValid's CA/path-length/depth tests guard every nil return; Verify's nil error is behind len(current)!=0 and " +
			"VerifyHostname==nil when a DNS name is requested; chains reach FilterByDate only through the EKU filter unless ExtKeyUsageAny; " +
			"FilterByDate appends each non-empty chain to exactly one list, guarded by the Before/After tests on bounds built from NotBefore/NotAfter.",
		NotCov: "The memoisation in buildChains (cache keyed only by intermediate index): a chain computed under one prefix can be returned under another; " +
			"deciding that needs values, not shape. Correctness of CheckSignatureFrom itself is C03. The lemma 'chains non-empty => one of the three lists non-empty' is used as a named cut.",
		Floor: 24,
		Run:   runC07,
	})
}

func runC07(c *Ctx) {
	w := c.W
	c07Extras(c)
	c.DeadObligations(c.W.FuncsOfPkg("z/x509"), "package x509")
	bc := w.Fn(fnBuildChains)
	if bc == nil {
		c.Undecided("R-CUT", fnBuildChains, "anchor", "-", "function not found")
		return
	}
	// ---- buildChains: classify every append that can flow into result 0
	retc := returnClosure(bc, 0)
	isInterm := w.IsConstNamed("z/x509", "CertificateTypeIntermediate")
	for _, b := range bc.Blocks {
		for _, in := range b.Instrs {
			ap := isBuiltinCall(in, "append")
			if ap == nil || !retc[ap] {
				continue
			}
			c.Sites++
			vals, spread := appended(ap)
			pos := w.InstrPos(ap)
			classified := false
			if spread {
				// childChains...: closure must contain result 0 of the recursive call
				var rec *ssa.Call
				for v := range backClosure(vals[0], nil) {
					if cl := callOf(v); cl != nil && nameIn(calleeName(&cl.Call), []string{fnBuildChains}) {
						rec = cl
					}
				}
				if rec != nil {
					classified = true
					x := rec.Call.Args[0]
					c.intermediateGuards(bc, ap, x, "append(childChains...)", isInterm)
					c.intermediateGuards(bc, rec, x, "recursive buildChains", isInterm)
					// chain handed down = AppendToFreshChain(currentChain, x)
					ch := callOf(rec.Call.Args[2])
					ok := ch != nil && nameIn(calleeName(&ch.Call), []string{fnAppendFresh}) && sameVal(ch.Call.Args[1], x) && Param("currentChain")(ch.Call.Args[0])
					c.Check(ok, "R-PROV", fnBuildChains, "recursive call extends currentChain by the same intermediate", w.InstrPos(rec), Expr(rec.Call.Args[2]))
					// provenance of x
					d := Deps(x)
					ok = hasAll(d, "field:VerifyOptions.Intermediates", "field:CertPool.certs", "call:(*x509.CertPool).findVerifiedParents") && hasNone(d, "field:VerifyOptions.Roots")
					c.Check(ok, "R-PROV", fnBuildChains, "intermediate candidate drawn from Intermediates.findVerifiedParents", w.InstrPos(rec), Expr(x))
				}
			} else {
				for _, v := range vals {
					cl := callOf(v)
					if cl != nil && nameIn(calleeName(&cl.Call), []string{fnAppendFresh}) {
						classified = true
						x := cl.Call.Args[1]
						lbl := "append(root chain)"
						c.Cut(CutSpec{Fn: bc, Label: lbl + " behind root.isValid==nil", Target: isInstr(ap),
							Cut: IsNil(ResultOfWith(-1, 0, x, fnIsValid))})
						c.Cut(CutSpec{Fn: bc, Label: lbl + " behind !CertificateInChain(root)", Target: isInstr(ap),
							Cut: IsFalse(ResultOfWith(-1, 1, x, fnCertInChain))})
						d := Deps(x)
						ok := hasAll(d, "field:VerifyOptions.Roots", "field:CertPool.certs", "call:(*x509.CertPool).findVerifiedParents") && hasNone(d, "field:VerifyOptions.Intermediates")
						c.Check(ok, "R-PROV", fnBuildChains, "root candidate drawn from Roots.findVerifiedParents", pos, Expr(x))
						c.Check(Param("currentChain")(cl.Call.Args[0]), "R-PROV", fnBuildChains, "root chain extends currentChain", pos, Expr(v))
					} else if al := sliceLitOf(v); al != nil {
						// CertificateChain{c}
						elems := allocElems(al)
						if len(elems) == 1 && Param("c")(elems[0]) {
							classified = true
							c.Cut(CutSpec{Fn: bc, Label: "append({c}) behind Roots.Contains(c)", Target: isInstr(ap),
								Cut: IsTrue(ResultOfWith(-1, 1, elems[0], fnContains))})
						}
					}
				}
			}
			if !classified {
				c.Fail("R-OWN", fnBuildChains, "unclassified append into the result chains", pos, "appended: "+Expr(ap))
			}
		}
	}
	// the findVerifiedParents calls of buildChains are about the verified certificate itself
	for _, in := range callsIn(bc, fnFVP) {
		cc := callCommon(in)
		c.Sites++
		c.Check(Param("c")(cc.Args[1]), "R-PROV", fnBuildChains, "findVerifiedParents asked about c: "+depField(cc.Args[0]), w.InstrPos(in), Expr(cc.Args[1]))
	}

	// ---- findVerifiedParents
	c.fvpGuard()

	// ---- isValid
	iv := w.Fn(fnIsValid)
	if iv == nil {
		c.Undecided("R-CUT", fnIsValid, "anchor", "-", "function not found")
	} else {
		startInterm := Cmp(Param("certType"), "eq", isInterm)
		c.Cut(CutSpec{Fn: iv, Label: "intermediate: nil only if IsCA", Start: startInterm, Target: SuccessReturn(0, nil), Cut: IsTrue(LoadOfField("Certificate.IsCA"))})
		c.Cut(CutSpec{Fn: iv, Label: "intermediate: nil only if BasicConstraintsValid", Start: startInterm, Target: SuccessReturn(0, nil), Cut: IsTrue(LoadOfField("Certificate.BasicConstraintsValid"))})
		numInter := func(v ssa.Value) bool { return Expr(v) == "(len(currentChain)-1)" }
		c.Cut(CutSpec{Fn: iv, Label: "nil only if path length respected", Target: SuccessReturn(0, nil),
			Cut: AnyF(IsFalse(LoadOfField("Certificate.BasicConstraintsValid")), Cmp(LoadOfField("Certificate.MaxPathLen"), "lt", ConstInt(0)),
				Cmp(LoadOfField("Certificate.MaxPathLen"), "ge", numInter))})
		c.Cut(CutSpec{Fn: iv, Label: "nil only if chain depth <= maxIntermediateCount", Target: SuccessReturn(0, nil),
			Cut: Cmp(LenOf(Param("currentChain")), "le", w.IsConstNamed("z/x509", "maxIntermediateCount"))})
	}

	// ---- Verify
	vf := w.Fn(fnVerify)
	if vf == nil {
		c.Undecided("R-CUT", fnVerify, "anchor", "-", "function not found")
	} else {
		fbd := ResultOf(0, fnFilterByDate)
		// lemma cut: FilterByDate puts every non-empty chain in exactly one list and
		// chains is non-empty here, so "len(expired)==0 && len(never)==0" under
		// len(current)==0 is infeasible (partition obligations below + dominating len(chains)==0 return).
		lemma := Cmp(LenOf(ResultOf(2, fnFilterByDate)), "le eq", ConstInt(0))
		c.Cut(CutSpec{Fn: vf, Label: "nil error only with a current chain", Target: SuccessReturn(3, nil),
			Cut: AnyF(Cmp(LenOf(fbd), "ne gt", ConstInt(0)), lemma)})
		c.Infof("lemma cut used in Verify: edge len(never)<=0 after len(current)==0 and len(expired)<=0 is treated as infeasible (FilterByDate partition + len(chains)!=0)")
		c.Cut(CutSpec{Fn: vf, Label: "chains non-empty when FilterByDate is called", Target: CallTo(fnFilterByDate),
			Cut: Cmp(LenOf(func(v ssa.Value) bool { return true }), "ne gt", ConstInt(0))})
		dns := LenOf(LoadOfField("VerifyOptions.DNSName"))
		c.Cut(CutSpec{Fn: vf, Label: "DNSName requested: nil error only past VerifyHostname==nil", Start: Cmp(dns, "gt ne", ConstInt(0)),
			Target: SuccessReturn(3, IsNil(ResultOf(-1, fnVerifyHost))), Cut: IsNil(ResultOf(-1, fnVerifyHost))})
		c.Cut(CutSpec{Fn: vf, Label: "every nil-error return passed the DNSName test", Target: SuccessReturn(3, nil),
			Cut: AnyF(Cmp(dns, "gt ne le eq", ConstInt(0)), lemma)})
		for _, in := range callsIn(vf, fnVerifyHost) {
			cc := callCommon(in)
			c.Sites++
			ok := Param("c")(cc.Args[0]) && LoadOfField("VerifyOptions.DNSName")(cc.Args[1])
			c.Check(ok, "R-PROV", fnVerify, "VerifyHostname(c, opts.DNSName)", w.InstrPos(in), Expr(cc.Args[1]))
		}
		// EKU filter
		anyEKU := w.IsConstNamed("z/x509", "ExtKeyUsageAny")
		var cand ssa.Value // candidateChains = phi(... buildChains#0 ...)
		for _, in := range callsIn(vf, fnFilterByDate) {
			cc := callCommon(in)
			c.Sites++
			for v := range backClosure(cc.Args[0], nil) {
				if ap, ok := v.(*ssa.Call); ok && isBuiltinCall(ap, "append") != nil {
					vals, spread := appended(ap)
					if !spread && len(vals) == 1 && hasAll(Deps(vals[0]), "call:(*x509.Certificate).buildChains") {
						c.Cut(CutSpec{Fn: vf, Label: "candidate kept only if checkChainForKeyUsage", Target: isInstr(ap),
							Cut: IsTrue(ResultOfWith(-1, 0, vals[0], fnCCFKU))})
					}
				}
			}
			// unfiltered hand-over only on the ExtKeyUsageAny path
			tgt := func(i ssa.Instruction, res resolver) bool {
				if i != in {
					return false
				}
				a := res(cc.Args[0])
				if p, ok := a.(*ssa.Phi); ok {
					_ = p
					return false
				}
				// resolved argument is the raw candidate list?
				isRaw := false
				for v := range backClosure(a, nil) {
					if cl := callOf(v); cl != nil && nameIn(calleeName(&cl.Call), []string{fnBuildChains}) {
						isRaw = true
					}
				}
				if isRaw {
					cand = a
				}
				return isRaw
			}
			c.Cut(CutSpec{Fn: vf, Label: "unfiltered candidates reach FilterByDate only if ExtKeyUsageAny requested", Target: tgt, MinTargets: -1,
				Cut: Cmp(func(v ssa.Value) bool { return hasAll(Deps(v), "field:VerifyOptions.KeyUsages") }, "eq", anyEKU)})
			_ = cand
			c.Check(LoadOfField("VerifyOptions.CurrentTime")(cc.Args[1]), "R-PROV", fnVerify, "FilterByDate at opts.CurrentTime", w.InstrPos(in), Expr(cc.Args[1]))
		}
		for _, in := range callsIn(vf, fnCCFKU) {
			cc := callCommon(in)
			c.Sites++
			d := Deps(cc.Args[1])
			c.Check(hasAll(d, "field:VerifyOptions.KeyUsages"), "R-PROV", fnVerify, "EKU filter uses the requested usages", w.InstrPos(in), Expr(cc.Args[1]))
		}
		// results 0..2 are exactly FilterByDate's results 0..2 (or nil)
		for k := 0; k < 3; k++ {
			okAll := true
			det := ""
			for v := range returnClosure(vf, k) {
				if isNilConst(v) {
					continue
				}
				if _, isPhi := v.(*ssa.Phi); isPhi {
					continue
				}
				if !ResultOf(k, fnFilterByDate)(v) {
					okAll = false
					det = Expr(v)
				}
			}
			c.Check(okAll, "R-PROV", fnVerify, fmt.Sprintf("result %d is FilterByDate result %d", k, k), w.Pos(vf.Pos()), det)
		}
	}

	// ---- FilterByDate partition
	c.filterByDate()
}

func depField(v ssa.Value) string {
	d := Deps(v)
	switch {
	case d["field:VerifyOptions.Roots"]:
		return "Roots"
	case d["field:VerifyOptions.Intermediates"]:
		return "Intermediates"
	}
	return "?"
}

func isInstr(x ssa.Instruction) func(ssa.Instruction, resolver) bool {
	return func(in ssa.Instruction, _ resolver) bool { return in == x }
}

// sliceLitOf: v is `slice t[:]` of a local array literal alloc.
func sliceLitOf(v ssa.Value) *ssa.Alloc {
	v = stripConv(v)
	sl, ok := v.(*ssa.Slice)
	if !ok {
		return nil
	}
	al, _ := sl.X.(*ssa.Alloc)
	return al
}

func allocElems(al *ssa.Alloc) []ssa.Value {
	var out []ssa.Value
	for _, ref := range *al.Referrers() {
		if ia, ok := ref.(*ssa.IndexAddr); ok {
			for _, r2 := range *ia.Referrers() {
				if st, ok := r2.(*ssa.Store); ok && st.Addr == ia {
					out = append(out, st.Val)
				}
			}
		}
	}
	return out
}

func (c *Ctx) intermediateGuards(bc *ssa.Function, at ssa.Instruction, x ssa.Value, lbl string, isInterm func(ssa.Value) bool) {
	c.Cut(CutSpec{Fn: bc, Label: lbl + " behind !Roots.Contains(intermediate)", Target: isInstr(at),
		Cut: IsFalse(func(v ssa.Value) bool {
			if !ResultOfWith(-1, 1, x, fnContains)(v) {
				return false
			}
			return hasAll(Deps(callOf(v).Call.Args[0]), "field:VerifyOptions.Roots")
		})})
	c.Cut(CutSpec{Fn: bc, Label: lbl + " behind !CertificateSubjectAndKeyInChain(intermediate)", Target: isInstr(at),
		Cut: IsFalse(func(v ssa.Value) bool {
			return ResultOfWith(-1, 1, x, fnSKInChain)(v) && Param("currentChain")(callOf(v).Call.Args[0])
		})})
	c.Cut(CutSpec{Fn: bc, Label: lbl + " behind intermediate.isValid(Intermediate, currentChain)==nil", Target: isInstr(at),
		Cut: IsNil(func(v ssa.Value) bool {
			if !ResultOfWith(-1, 0, x, fnIsValid)(v) {
				return false
			}
			cl := callOf(v)
			return isInterm(cl.Call.Args[1]) && Param("currentChain")(cl.Call.Args[2])
		})})
}

func (c *Ctx) filterByDate() {
	w := c.W
	fn := w.Fn(fnFilterByDate)
	if fn == nil {
		c.Undecided("R-CUT", fnFilterByDate, "anchor", "-", "function not found")
		return
	}
	var appends [3][]*ssa.Call
	all := map[ssa.Instruction]bool{}
	for k := 0; k < 3; k++ {
		rc := returnClosure(fn, k)
		for _, b := range fn.Blocks {
			for _, in := range b.Instrs {
				if ap := isBuiltinCall(in, "append"); ap != nil && rc[ap] {
					appends[k] = append(appends[k], ap)
					all[ap] = true
				}
			}
		}
	}
	c.Check(len(appends[0]) >= 1 && len(appends[1]) >= 1 && len(appends[2]) >= 1, "R-TABLE", fnFilterByDate, "each result list has an append", w.Pos(fn.Pos()),
		fmt.Sprintf("current:%d expired:%d never:%d", len(appends[0]), len(appends[1]), len(appends[2])))
	isAppend := func(in ssa.Instruction, _ resolver) bool { return all[in] }
	// loop header: block holding the range-index phi that the appends' blocks are inside of
	var header *ssa.BasicBlock
	for ap := range all {
		for d := ap.Block(); d != nil; d = d.Idom() {
			if d.Comment == "rangeindex.loop" {
				header = d // keep walking: the outermost loop wins
			}
		}
		break
	}
	if header == nil {
		c.Undecided("R-TABLE", fnFilterByDate, "range loop header", w.Pos(fn.Pos()), "not found")
		return
	}
	atHeader := func(in ssa.Instruction) bool { return in.Block() == header }
	// at most one append per iteration
	for ap := range all {
		c.Sites++
		c.Cut(CutSpec{Rule: "R-TABLE", Fn: fn, Label: "no second append in the same iteration after " + w.InstrPos(ap), StartAfter: ap, Target: isAppend, Barrier: atHeader, MinTargets: 3})
	}
	// at least one append per iteration of a non-empty chain
	body := header.Succs[0]
	first := body.Instrs[0]
	headerFirst := func(in ssa.Instruction, _ resolver) bool { return in == header.Instrs[0] }
	c.Cut(CutSpec{Rule: "R-TABLE", Fn: fn, Label: "every non-empty chain is appended to some list", StartAfter: first, Target: headerFirst,
		Barrier: func(in ssa.Instruction) bool { return all[in] },
		Cut:     Cmp(LenOf(func(v ssa.Value) bool { return true }), "eq le", ConstInt(0))})
	// which list under which test
	before := "(time.Time).Before"
	after := "(time.Time).After"
	lowerOK := func(v ssa.Value) bool {
		d := Deps(v)
		return hasAll(d, "field:Certificate.NotBefore") && hasNone(d, "field:Certificate.NotAfter", "call:x509.earlier")
	}
	upperOK := func(v ssa.Value) bool {
		d := Deps(v)
		return hasAll(d, "field:Certificate.NotAfter") && hasNone(d, "field:Certificate.NotBefore", "call:x509.later")
	}
	validLo := func(v ssa.Value) bool {
		cl := callOf(v)
		return ResultOf(-1, before)(v) && lowerOK(cl.Call.Args[0]) && Param("now")(cl.Call.Args[1])
	}
	validHi := func(v ssa.Value) bool {
		cl := callOf(v)
		return ResultOf(-1, after)(v) && upperOK(cl.Call.Args[0]) && Param("now")(cl.Call.Args[1])
	}
	wasValid := func(v ssa.Value) bool {
		cl := callOf(v)
		return ResultOf(-1, before)(v) && lowerOK(cl.Call.Args[0]) && upperOK(cl.Call.Args[1])
	}
	for _, ap := range appends[0] {
		c.Cut(CutSpec{Fn: fn, Label: "current only if lowerBound.Before(now)", Target: isInstr(ap), Cut: IsTrue(validLo)})
		c.Cut(CutSpec{Fn: fn, Label: "current only if upperBound.After(now)", Target: isInstr(ap), Cut: IsTrue(validHi)})
	}
	for _, ap := range appends[1] {
		c.Cut(CutSpec{Fn: fn, Label: "expired only if lowerBound.Before(upperBound)", Target: isInstr(ap), Cut: IsTrue(wasValid)})
		c.Cut(CutSpec{Fn: fn, Label: "expired only if not valid now", Target: isInstr(ap), Cut: AnyF(IsFalse(validLo), IsFalse(validHi))})
	}
	for _, ap := range appends[2] {
		c.Cut(CutSpec{Fn: fn, Label: "never only if !lowerBound.Before(upperBound)", Target: isInstr(ap), Cut: IsFalse(wasValid)})
		c.Cut(CutSpec{Fn: fn, Label: "never only if not valid now", Target: isInstr(ap), Cut: AnyF(IsFalse(validLo), IsFalse(validHi))})
	}
	// bounds are folded over the whole chain with later/earlier
	for _, in := range callsIn(fn, "z/x509.later", "z/x509.earlier") {
		cc := callCommon(in)
		c.Sites++
		name := calleeName(cc)
		if name == expand("z/x509.later") {
			c.Check(lowerOK(cc.Args[0]) && lowerOK(cc.Args[1]), "R-PROV", fnFilterByDate, "later() folds NotBefore", w.InstrPos(in), Expr(cc.Args[1]))
		} else {
			c.Check(upperOK(cc.Args[0]) && upperOK(cc.Args[1]), "R-PROV", fnFilterByDate, "earlier() folds NotAfter", w.InstrPos(in), Expr(cc.Args[1]))
		}
	}
	for _, nm := range []string{"z/x509.later", "z/x509.earlier"} {
		f := w.Fn(nm)
		if f == nil {
			c.Undecided("R-CUT", nm, "anchor", "-", "not found")
			continue
		}
		// later(a,b) returns a only if a.After(b); earlier(a,b) returns a only if a.Before(b)
		m := after
		if nm == "z/x509.earlier" {
			m = before
		}
		tgt := func(in ssa.Instruction, res resolver) bool {
			rt, ok := in.(*ssa.Return)
			return ok && Param("a")(res(rt.Results[0]))
		}
		c.Cut(CutSpec{Fn: f, Label: "returns a only on the " + m + " edge", Target: tgt, Cut: IsTrue(func(v ssa.Value) bool {
			cl := callOf(v)
			return ResultOf(-1, m)(v) && Param("a")(cl.Call.Args[0]) && Param("b")(cl.Call.Args[1])
		})})
		tgtb := func(in ssa.Instruction, res resolver) bool {
			rt, ok := in.(*ssa.Return)
			return ok && Param("b")(res(rt.Results[0]))
		}
		c.Cut(CutSpec{Fn: f, Label: "returns b only on the other edge", Target: tgtb, Cut: IsFalse(ResultOf(-1, m))})
	}
}
