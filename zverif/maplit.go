package main

import (
	"fmt"
	"go/ast"
	"go/constant"
	"go/token"
)

// mapLiteralBytes evaluates a package-level map[K][]byte composite literal:
// constant key (exact string) -> hex of the byte elements. Non-constant cells
// render as "?" so a comparison with an oracle fails.
func mapLiteralBytes(w *World, pkgPath, varName string) map[string]string {
	p := w.Pkg(pkgPath)
	out := map[string]string{}
	if p == nil {
		return out
	}
	for _, f := range p.Syntax {
		for _, d := range f.Decls {
			gd, ok := d.(*ast.GenDecl)
			if !ok || gd.Tok != token.VAR {
				continue
			}
			for _, sp := range gd.Specs {
				vs := sp.(*ast.ValueSpec)
				for i, n := range vs.Names {
					if n.Name != varName || i >= len(vs.Values) {
						continue
					}
					cl, ok := ast.Unparen(vs.Values[i]).(*ast.CompositeLit)
					if !ok {
						continue
					}
					for _, el := range cl.Elts {
						kv, ok := el.(*ast.KeyValueExpr)
						if !ok {
							continue
						}
						key := "?"
						if tv, ok := p.TypesInfo.Types[kv.Key]; ok && tv.Value != nil {
							key = tv.Value.ExactString()
						}
						val := ""
						if inner, ok := ast.Unparen(kv.Value).(*ast.CompositeLit); ok {
							for _, be := range inner.Elts {
								tv, ok := p.TypesInfo.Types[be]
								if !ok || tv.Value == nil {
									val += "?"
									continue
								}
								u, _ := constant.Uint64Val(constant.ToInt(tv.Value))
								val += fmt.Sprintf("%02x", u)
							}
						} else {
							val = "?"
						}
						out[key] = val
					}
				}
			}
		}
	}
	return out
}

// sliceLiteralInts evaluates a package-level []T{c0, c1, ...} literal of integer constants.
func sliceLiteralInts(w *World, pkgPath, varName string) ([]int64, bool) {
	p := w.Pkg(pkgPath)
	if p == nil {
		return nil, false
	}
	for _, f := range p.Syntax {
		for _, d := range f.Decls {
			gd, ok := d.(*ast.GenDecl)
			if !ok || gd.Tok != token.VAR {
				continue
			}
			for _, sp := range gd.Specs {
				vs := sp.(*ast.ValueSpec)
				for i, n := range vs.Names {
					if n.Name != varName || i >= len(vs.Values) {
						continue
					}
					cl, ok := ast.Unparen(vs.Values[i]).(*ast.CompositeLit)
					if !ok {
						return nil, false
					}
					var out []int64
					for _, el := range cl.Elts {
						tv, ok := p.TypesInfo.Types[el]
						if !ok || tv.Value == nil {
							return nil, false
						}
						v, exact := constant.Int64Val(constant.ToInt(tv.Value))
						if !exact {
							return nil, false
						}
						out = append(out, v)
					}
					return out, true
				}
			}
		}
	}
	return nil, false
}
