package main

import (
	"fmt"
	"strings"

	"golang.org/x/tools/go/ssa"
)

const (
	pkCRL     = "z/x509/revocation/crl"
	fnCRLChk  = pkCRL + ".CheckCRLForCert"
	fnCRLGath = pkCRL + ".gatherListExtensionInfo"
	pkGoogle  = "z/x509/revocation/google"
	pkMozilla = "z/x509/revocation/mozilla"
	pkMS      = "z/x509/revocation/microsoft"
)

func init() {
	register(&propDef{
		ID: "C14",
		Explain: "R-CUT/R-PROV/R-ONCE on CheckCRLForCert: IsRevoked is only ever stored as true, behind the hit edge of cache[cert.SerialNumber.String()] (cache branch) or revokedCerts[i].SerialNumber.Cmp(cert.SerialNumber)==0 (linear branch); " +
			"RevocationTime comes from that same entry; after a match the linear scan performs no second selection; both branches write the same field set; the list fields are copied from the named parts of the CRL; " +
			"gatherListExtensionInfo classifies an extension as CRL number on the OID (2.5.29.20) test before looking at Critical. R-ERR: a decode whose error is dropped while its target is used.",
		NotCov: "Equality of the two paths' results for caches not built from the same list; the numeric width of CRLNumber (known finding).",
		Floor:  16,
		Run:    runC14,
	})
	register(&propDef{
		ID: "C15",
		Explain: "R-CUT on the three Check functions: a non-nil entry is returned only past the serial comparison Cmp==0 between a listed entry and the certificate (or, CRLSet: equality of the issuer SPKI hash with a blocked SPKI; " +
			"OneCRL: byte equality of the blocked subject and of the SHA-256 of the certificate's PKIX public key), and the entry returned is the one compared. Scan completeness: from every mismatch edge inside a scan loop each return " +
			"is reached only through the loop header (no early exit on a non-matching element). R-PROV key agreement: the key under which a list is inserted at parse time is derived the same way as the key used by Check " +
			"(hex of the 32-byte SPKI hash; pkix.Name.String() of the issuer).",
		NotCov: "Faithfulness of the decoded lists (binary/JSON decoding is C01's parsing safety plus value fidelity); whether the encodings of compared strings agree (CRLSet BlockedSPKIs come verbatim from the JSON header).",
		Floor:  20,
		Run:    runC15,
	})
}

// droppedDecodeErrors reports calls in fn to an (value, error)-returning
// decoder whose error is unused although the decode target (a pointer
// argument) is read afterwards.
func (c *Ctx) droppedDecodeErrors(fn *ssa.Function, names ...string) {
	w := c.W
	n := 0
	for _, in := range callsIn(fn, names...) {
		cl, ok := in.(*ssa.Call)
		if !ok {
			continue
		}
		n++
		c.Sites++
		errUsed := false
		for _, ref := range *cl.Referrers() {
			if ex, ok := ref.(*ssa.Extract); ok && ex.Index == errResultIdx(cl.Call.StaticCallee()) && len(*ex.Referrers()) > 0 {
				errUsed = true
			}
		}
		label := fmt.Sprintf("error of %s #%d is not dropped", short(calleeName(&cl.Call)), n)
		c.Check(errUsed, "R-ERR", FuncName(fn), label, w.InstrPos(in), "the decoded value is used although the decode may have failed (a failed decode leaves the zero value)")
	}
}

func runC14(c *Ctx) {
	w := c.W
	c14Extras(c)
	nameFillRule(c) // RevocationData.Issuer is the CRL issuer as filled by FillFromRDNSequence
	fn := w.Fn(fnCRLChk)
	if fn == nil {
		c.Undecided("R-CUT", fnCRLChk, "anchor", "-", "not found")
		return
	}
	var ret ssa.Value
	for v := range returnClosure(fn, 0) {
		if al, ok := v.(*ssa.Alloc); ok {
			ret = al
		}
	}
	if ret == nil {
		c.Undecided("R-CUT", fnCRLChk, "result object", w.Pos(fn.Pos()), "not found")
		return
	}
	cacheHit := func(v ssa.Value) bool {
		ex, ok := v.(*ssa.Extract)
		if !ok || ex.Index != 1 {
			return false
		}
		lk, ok := ex.Tuple.(*ssa.Lookup)
		return ok && lk.CommaOk && Param("cache")(lk.X) && Expr(lk.Index) == "(*math/big.Int).String(cert.SerialNumber)"
	}
	serialEq := Cmp(func(v ssa.Value) bool {
		if !ResultOf(-1, fnBigCmp)(v) {
			return false
		}
		a := callOf(v).Call.Args
		return strings.HasPrefix(Expr(a[0]), "certList.TBSCertList.RevokedCertificates[") && strings.HasSuffix(Expr(a[0]), ".SerialNumber") && Expr(a[1]) == "cert.SerialNumber"
	}, "eq", ConstInt(0))
	var revStores, timeStores []FieldWrite
	for _, wr := range c.writesIn(pkCRL, "RevocationData.IsRevoked", "RevocationData.RevocationTime") {
		if wr.Fn != fn || wr.Base != ret {
			c.Fail("R-OWN", FuncName(wr.Fn), "write to "+wr.Field+" outside CheckCRLForCert's result", w.InstrPos(wr.In), "")
			continue
		}
		if wr.Field == "RevocationData.IsRevoked" {
			revStores = append(revStores, wr)
		} else {
			timeStores = append(timeStores, wr)
		}
	}
	nTrue := 0
	for _, wr := range revStores {
		c.Sites++
		b, isC := boolConst(wr.Val)
		if !isC {
			c.Fail("R-OWN", fnCRLChk, "IsRevoked is stored as a constant", w.InstrPos(wr.In), Expr(wr.Val))
			continue
		}
		if !b {
			continue // initialisation
		}
		nTrue++
		c.Cut(CutSpec{Fn: fn, Label: "IsRevoked=true only behind a cache hit or a serial match [" + w.InstrPos(wr.In) + "]", Target: isInstr(wr.In), Cut: AnyF(IsTrue(cacheHit), serialEq)})
	}
	c.Check(nTrue == 2, "R-TABLE", fnCRLChk, "two IsRevoked=true sites (cache, linear)", w.Pos(fn.Pos()), fmt.Sprint(nTrue))
	nT := 0
	for _, wr := range timeStores {
		c.Sites++
		nT++
		src := Expr(wr.Val)
		switch {
		case strings.HasPrefix(src, "cache[") && strings.HasSuffix(src, "#0.RevocationTime"):
			c.Cut(CutSpec{Fn: fn, Label: "RevocationTime from the cache entry only on a hit", Target: isInstr(wr.In), Cut: IsTrue(cacheHit)})
		case strings.HasPrefix(src, "certList.TBSCertList.RevokedCertificates[") && strings.HasSuffix(src, ".RevocationTime"):
			// same index as the compared entry
			fa := loadedField(wr.Val)
			ia, _ := fa.X.(*ssa.IndexAddr)
			c.Cut(CutSpec{Fn: fn, Label: "RevocationTime from the matching list entry", Target: isInstr(wr.In),
				Cut: Cmp(func(v ssa.Value) bool {
					if !ResultOf(-1, fnBigCmp)(v) {
						return false
					}
					fa2 := loadedField(callOf(v).Call.Args[0])
					if fa2 == nil || ia == nil {
						return false
					}
					ia2, _ := fa2.X.(*ssa.IndexAddr)
					return ia2 != nil && ia2.Index == ia.Index && Expr(ia2.X) == Expr(ia.X)
				}, "eq", ConstInt(0))})
		default:
			c.Fail("R-PROV", fnCRLChk, "RevocationTime comes from the cache entry or the matching list entry", w.InstrPos(wr.In), src)
		}
	}
	c.Check(nT == 2, "R-TABLE", fnCRLChk, "both branches set RevocationTime next to IsRevoked (same field set)", w.Pos(fn.Pos()), fmt.Sprint(nT))
	// first match wins
	c.Cut(CutSpec{Rule: "R-ONCE", Fn: fn, Label: "first match wins: at most one revocation record after a serial match", Start: serialEq, MaxEvents: 1,
		EventInstr: func(in ssa.Instruction, _ resolver) bool {
			for _, wr := range timeStores {
				if wr.In == in {
					return true
				}
			}
			return false
		}})
	// every listed entry is examined until a match: from a mismatch edge the return is reached only through the loop header
	c.scanCompleteness(fn, serialEq, "linear scan")
	// without a cache the list is scanned; with a cache the list is not consulted
	c.Cut(CutSpec{Fn: fn, Label: "with a cache the verdict comes from the cache only", Start: NonNil(Param("cache")), Target: CallTo(fnBigCmp), MinTargets: 1})
	// copied list fields
	stores := map[string]FieldWrite{}
	for f, ws := range w.FieldWrites() {
		if strings.HasPrefix(f, "RevocationData.") {
			for _, wr := range ws {
				if wr.Fn == fn && wr.Base == ret {
					stores[strings.TrimPrefix(f, "RevocationData.")] = wr
				}
			}
		}
	}
	for _, p := range [][2]string{{"CRLSignatureAlgorithm", "x509.GetSignatureAlgorithmFromAI(certList.SignatureAlgorithm)"}, {"CRLSignatureValue", "certList.SignatureValue.Bytes"},
		{"Version", "certList.TBSCertList.Version"}, {"ThisUpdate", "certList.TBSCertList.ThisUpdate"}, {"NextUpdate", "certList.TBSCertList.NextUpdate"}} {
		wr, ok := stores[p[0]]
		got := ""
		if ok {
			got = Expr(wr.Val)
		}
		c.Check(ok && got == p[1], "R-PROV", fnCRLChk, "RevocationData."+p[0]+" = "+p[1], w.Pos(fn.Pos()), got)
	}
	okIss := false
	for _, in := range callsIn(fn, "(*z/x509/pkix.Name).FillFromRDNSequence") {
		a := callCommon(in).Args
		fa, _ := a[0].(*ssa.FieldAddr)
		okIss = fa != nil && fieldName(fa) == "RevocationData.Issuer" && fa.X == ret && Expr(a[1]) == "certList.TBSCertList.Issuer"
	}
	c.Check(okIss, "R-PROV", fnCRLChk, "Issuer filled from certList.TBSCertList.Issuer", w.Pos(fn.Pos()), "")
	ng := 0
	for _, in := range callsIn(fn, fnCRLGath) {
		a := callCommon(in).Args
		ng++
		c.Check(Param("certList")(a[0]) && a[1] == ret, "R-PROV", fnCRLChk, "list extensions gathered from certList into the result", w.InstrPos(in), "")
	}
	c.Check(ng == 1, "R-PROV", fnCRLChk, "gatherListExtensionInfo called once", w.Pos(fn.Pos()), fmt.Sprint(ng))

	// gatherListExtensionInfo
	g := w.Fn(fnCRLGath)
	if g == nil {
		c.Undecided("R-CUT", fnCRLGath, "anchor", "-", "not found")
		return
	}
	c.Check(w.globalOID(pkCRL, "crlNumberExtensionOID") == "2.5.29.20", "R-TABLE", pkCRL, "crlNumberExtensionOID is 2.5.29.20", "-", w.globalOID(pkCRL, "crlNumberExtensionOID"))
	isNum := func(v ssa.Value) bool {
		if !ResultOf(-1, "(z/encoding/asn1.ObjectIdentifier).Equal")(v) {
			return false
		}
		a := callOf(v).Call.Args
		return strings.HasSuffix(Expr(a[0]), ".Id") && Expr(a[1]) == "x509/revocation/crl.crlNumberExtensionOID"
	}
	isCrit := func(v ssa.Value) bool { return strings.HasSuffix(Expr(v), ".Critical") }
	for _, wr := range c.writesIn(pkCRL, "ListExtensionData.CRLNumber", "RevocationData.UnknownCriticalCRLExtensions", "RevocationData.UnknownCRLExtensions") {
		if wr.Fn != g {
			continue
		}
		c.Sites++
		switch wr.Field {
		case "ListExtensionData.CRLNumber":
			c.Cut(CutSpec{Fn: g, Label: "CRLNumber set only from the CRL number extension", Target: isInstr(wr.In), Cut: IsTrue(isNum)})
		case "RevocationData.UnknownCriticalCRLExtensions":
			c.Cut(CutSpec{Fn: g, Label: "an extension is classified unknown-critical only if it is not the CRL number", Target: isInstr(wr.In), Cut: IsFalse(isNum)})
			c.Cut(CutSpec{Fn: g, Label: "an extension is classified unknown-critical only if it is critical", Target: isInstr(wr.In), Cut: IsTrue(isCrit)})
		case "RevocationData.UnknownCRLExtensions":
			c.Cut(CutSpec{Fn: g, Label: "an extension is classified unknown only if it is not the CRL number", Target: isInstr(wr.In), Cut: IsFalse(isNum)})
			c.Cut(CutSpec{Fn: g, Label: "an extension is classified unknown (non-critical) only if it is not critical", Target: isInstr(wr.In), Cut: IsFalse(isCrit)})
		}
	}
	// the CRL number extension is always recognised, critical or not
	var header *ssa.BasicBlock
	for _, b := range g.Blocks {
		if b.Comment == "rangeindex.loop" {
			header = b
		}
	}
	if header != nil {
		var numStore ssa.Instruction
		for _, wr := range c.writesIn(pkCRL, "ListExtensionData.CRLNumber") {
			if wr.Fn == g {
				numStore = wr.In
			}
		}
		c.Cut(CutSpec{Fn: g, Label: "every CRL number extension reaches the CRLNumber store (not pre-empted by the critical flag)", StartEdges: []EdgeRef{{B: header, Succ: 0}},
			Target:  func(in ssa.Instruction, _ resolver) bool { return in == header.Instrs[0] },
			Barrier: func(in ssa.Instruction) bool { return in == numStore },
			Cut:     IsFalse(isNum)})
	} else {
		c.Undecided("R-CUT", fnCRLGath, "range loop", w.Pos(g.Pos()), "not found")
	}
	c.droppedDecodeErrors(g, fnASN1Unmarh)
}

// scanCompleteness: for the branch carrying the match fact, the opposite
// (mismatch) edge must lead back to the enclosing loop header before any return.
func (c *Ctx) scanCompleteness(fn *ssa.Function, match FP, what string) {
	w := c.W
	n := 0
	top := fn
	// the scan may live in a helper the function calls directly (one level), seen with the caller's arguments
	withHelperContexts(top, func(fn *ssa.Function, _ *ssa.Call) {
		c.scanCompletenessIn(fn, match, what, &n)
	})
	c.Check(n >= 1, "R-CUT", FuncName(top), what+": comparison branch found", w.Pos(top.Pos()), fmt.Sprint(n))
}

func (c *Ctx) scanCompletenessIn(fn *ssa.Function, match FP, what string, np *int) {
	w := c.W
	n := *np
	defer func() { *np = n }()
	for _, b := range fn.Blocks {
		ifi, ok := b.Instrs[len(b.Instrs)-1].(*ssa.If)
		if !ok {
			continue
		}
		for si := 0; si < 2; si++ {
			if !anyFact(condFacts(ifi.Cond, si == 0, idRes), match) {
				continue
			}
			var header *ssa.BasicBlock
			for d := b; d != nil; d = d.Idom() {
				if strings.HasSuffix(d.Comment, ".loop") {
					header = d
					break
				}
			}
			if header == nil {
				c.Undecided("R-CUT", FuncName(fn), what+": enclosing loop of the comparison", w.InstrPos(ifi), "not found")
				continue
			}
			n++
			h := header
			c.Cut(CutSpec{Fn: fn, Label: fmt.Sprintf("%s: a non-matching element never ends the scan (mismatch #%d leads to the next element)", what, n),
				StartEdges: []EdgeRef{{B: b, Succ: 1 - si}}, Target: isReturn,
				Barrier: func(in ssa.Instruction) bool { return in == h.Instrs[0] }})
		}
	}
}

func runC15(c *Ctx) {
	w := c.W
	c15Extras(c)
	entrySerialEq := func(listField string) FP {
		return Cmp(func(v ssa.Value) bool {
			if !ResultOf(-1, fnBigCmp)(v) {
				return false
			}
			a := callOf(v).Call.Args
			return hasAll(Deps(a[0]), "field:Entry.SerialNumber", listField) && Expr(a[1]) == "cert.SerialNumber"
		}, "eq", ConstInt(0))
	}
	// the entry returned is the compared one
	returnsCompared := func(fn *ssa.Function, name string) {
		for v := range returnClosure(fn, 0) {
			if isNilConst(v) {
				continue
			}
			if _, isPhi := v.(*ssa.Phi); isPhi {
				continue
			}
			if _, isAlloc := v.(*ssa.Alloc); isAlloc {
				continue // fresh entry built for blocked keys
			}
			okv := false
			for _, in := range callsIn(fn, fnBigCmp) {
				fa := loadedField(callCommon(in).Args[0])
				if fa != nil && sameVal(fa.X, v) {
					okv = true
				}
			}
			c.Check(okv, "R-PROV", name, "the entry returned is the one whose serial was compared", w.Pos(fn.Pos()), Expr(v))
		}
	}
	// ---- Google CRLSet
	gname := "(*" + pkGoogle + ".CRLSet).Check"
	if fn := w.Fn(gname); fn == nil {
		c.Undecided("R-CUT", gname, "anchor", "-", "not found")
	} else {
		blocked := Cmp(Param("issuerSPKIHash"), "eq", func(v ssa.Value) bool { return hasAll(Deps(v), "field:CRLSet.BlockedSPKIs") })
		serial := entrySerialEq("field:IssuerList.Entries")
		c.Cut(CutSpec{Fn: fn, Label: "an entry is reported only for a blocked issuer SPKI or a listed serial", Target: NonNilReturn(0, nil), Cut: AnyF(blocked, serial)})
		c.scanCompleteness(fn, blocked, "blocked SPKIs")
		c.scanCompleteness(fn, serial, "issuer's serials")
		returnsCompared(fn, gname)
		n := 0
		for _, b := range fn.Blocks {
			for _, in := range b.Instrs {
				if lk, ok := in.(*ssa.Lookup); ok && Expr(lk.X) == "crlSet.IssuerLists" {
					n++
					c.Check(Param("issuerSPKIHash")(lk.Index), "R-PROV", gname, "issuer list looked up by the issuer SPKI hash argument", w.InstrPos(in), Expr(lk.Index))
				}
			}
		}
		c.Check(n == 1, "R-PROV", gname, "one IssuerLists lookup", w.Pos(fn.Pos()), fmt.Sprint(n))
		for _, b := range fn.Blocks {
			for _, in := range b.Instrs {
				if ia := loadedIndex(valueOf(in)); ia != nil && Expr(ia.X) == "crlSet.IssuerLists[issuerSPKIHash].Entries" {
					_ = ia
				}
			}
		}
	}
	if fn := w.Fn(pkGoogle + ".Parse"); fn == nil {
		c.Undecided("R-PROV", pkGoogle+".Parse", "anchor", "-", "not found")
	} else {
		n := 0
		for _, wr := range c.writesIn(pkGoogle, "CRLSet.IssuerLists") {
			if wr.Fn != fn || wr.Kind != "mapupdate" {
				continue
			}
			n++
			c.Sites++
			d := Deps(wr.Key)
			c.Check(hasAll(d, "call:encoding/hex.EncodeToString", "field:RawEntry.SPKIHash"), "R-PROV", pkGoogle+".Parse", "issuer lists are keyed by hex(SPKI hash) as Check's callers pass it", w.InstrPos(wr.In), Expr(wr.Key))
		}
		c.Check(n == 1, "R-PROV", pkGoogle+".Parse", "one insertion into IssuerLists", w.Pos(fn.Pos()), fmt.Sprint(n))
		for _, wr := range c.writesIn(pkGoogle, "CRLSet.BlockedSPKIs") {
			if wr.Fn == fn {
				c.Check(hasAll(Deps(wr.Val), "field:CRLSetHeader.BlockedSPKIs"), "R-PROV", pkGoogle+".Parse", "BlockedSPKIs copied from the header", w.InstrPos(wr.In), Expr(wr.Val))
			}
		}
		// every serial read is recorded: entry appended and its SerialNumber set from the bytes read
		for _, wr := range c.writesIn(pkGoogle, "Entry.SerialNumber") {
			if wr.Fn == fn {
				okSet := false
				for _, in := range callsIn(fn, "(*math/big.Int).SetBytes") {
					a := callCommon(in).Args
					// the stored value is the receiver of SetBytes or its result (SetBytes returns its receiver)
					if res, _ := in.(ssa.Value); (a[0] == wr.Val || (res != nil && res == wr.Val)) && instrDominates(in, wr.In) {
						// the bytes are the ones just read from the stream for this serial
						for _, rd := range callsIn(fn, "encoding/binary.Read") {
							if mi, ok := callCommon(rd).Args[2].(*ssa.MakeInterface); ok {
								if al, ok := mi.X.(*ssa.Alloc); ok {
									if ld, ok := a[1].(*ssa.UnOp); ok && ld.X == ssa.Value(al) && instrDominates(rd, in) {
										okSet = true
									}
								}
							}
						}
					}
				}
				c.Check(okSet, "R-PROV", pkGoogle+".Parse", "entry serial = big-endian value of the bytes read for it", w.InstrPos(wr.In), Expr(wr.Val))
			}
		}
	}
	// ---- Mozilla OneCRL
	mname := "(*" + pkMozilla + ".OneCRL).Check"
	if fn := w.Fn(mname); fn == nil {
		c.Undecided("R-CUT", mname, "anchor", "-", "not found")
	} else {
		subjEq := IsTrue(func(v ssa.Value) bool {
			if !ResultOf(-1, "bytes.Equal")(v) {
				return false
			}
			a := callOf(v).Call.Args
			return hasAll(Deps(a[0]), "field:SubjectAndPublicKey.RawSubject", "field:OneCRL.Blocked") && Expr(a[1]) == "cert.RawSubject"
		})
		keyEq := func(v ssa.Value) bool {
			if !ResultOf(-1, "bytes.Equal")(v) {
				return false
			}
			a := callOf(v).Call.Args
			d := Deps(a[1])
			return hasAll(Deps(a[0]), "field:SubjectAndPublicKey.PubKeyHash", "field:OneCRL.Blocked") && hasAll(d, "call:crypto/sha256.Sum256", "call:x509.MarshalPKIXPublicKey", "field:Certificate.PublicKey")
		}
		serial := entrySerialEq("field:IssuerList.Entries")
		c.Cut(CutSpec{Fn: fn, Label: "an entry is reported only for a blocked (subject, key hash) or a listed serial", Target: NonNilReturn(0, nil), Cut: AnyF(IsTrue(keyEq), serial)})
		c.Cut(CutSpec{Fn: fn, Label: "a blocked-key report requires the blocked subject to equal the certificate's", Target: NonNilReturn(0, nil), Cut: AnyF(subjEq, serial)})
		c.scanCompleteness(fn, subjEq, "blocked subjects")
		c.scanCompleteness(fn, IsTrue(keyEq), "blocked keys of a matching subject")
		c.scanCompleteness(fn, serial, "issuer's serials")
		returnsCompared(fn, mname)
		for _, in := range callsIn(fn, "(*"+pkMozilla+".OneCRL).FindIssuer") {
			c.Check(Expr(callCommon(in).Args[1]) == "cert.Issuer", "R-PROV", mname, "issuer list looked up by the certificate's issuer", w.InstrPos(in), Expr(callCommon(in).Args[1]))
		}
	}
	if fi := w.Fn("(*" + pkMozilla + ".OneCRL).FindIssuer"); fi != nil {
		ok := false
		for v := range returnClosure(fi, 0) {
			ok = Expr(v) == "c.IssuerLists[(x509/pkix.Name).String(issuer)]"
		}
		c.Check(ok, "R-PROV", "(*"+pkMozilla+".OneCRL).FindIssuer", "lists are found under issuer.String()", w.Pos(fi.Pos()), "")
	} else {
		c.Undecided("R-PROV", "(*"+pkMozilla+".OneCRL).FindIssuer", "anchor", "-", "not found")
	}
	if fn := w.Fn(pkMozilla + ".Parse"); fn != nil {
		n := 0
		for _, wr := range c.writesIn(pkMozilla, "OneCRL.IssuerLists") {
			if wr.Fn != fn || wr.Kind != "mapupdate" {
				continue
			}
			n++
			c.Sites++
			e := Expr(wr.Key)
			c.Check(strings.HasPrefix(e, "(x509/pkix.Name).String(") && strings.HasSuffix(e, ".Issuer)"), "R-PROV", pkMozilla+".Parse", "lists are inserted under entry.Issuer.String() (same derivation as FindIssuer)", w.InstrPos(wr.In), e)
			c.Cut(CutSpec{Fn: fn, Label: "a new issuer list is created only when FindIssuer found none", Target: isInstr(wr.In), Cut: IsNil(ResultOf(-1, "(*"+pkMozilla+".OneCRL).FindIssuer"))})
		}
		c.Check(n == 1, "R-PROV", pkMozilla+".Parse", "one insertion into IssuerLists", w.Pos(fn.Pos()), fmt.Sprint(n))
	} else {
		c.Undecided("R-PROV", pkMozilla+".Parse", "anchor", "-", "not found")
	}
	// ---- Microsoft
	msname := pkMS + ".Check"
	if fn := w.Fn(msname); fn == nil {
		c.Undecided("R-CUT", msname, "anchor", "-", "not found")
	} else {
		serial := entrySerialEq("field:IssuerList.Entries")
		c.Cut(CutSpec{Fn: fn, Label: "an entry is reported only for a listed serial of the certificate's issuer", Target: NonNilReturn(0, nil), Cut: serial})
		c.scanCompleteness(fn, serial, "issuer's serials")
		returnsCompared(fn, msname)
		n := 0
		for _, b := range fn.Blocks {
			for _, in := range b.Instrs {
				if lk, ok := in.(*ssa.Lookup); ok && Expr(lk.X) == "disallowed.IssuerLists" {
					n++
					c.Check(Expr(lk.Index) == "(x509/pkix.Name).String(cert.Issuer)", "R-PROV", msname, "issuer list looked up by cert.Issuer.String()", w.InstrPos(in), Expr(lk.Index))
				}
			}
		}
		c.Check(n == 1, "R-PROV", msname, "one IssuerLists lookup", w.Pos(fn.Pos()), fmt.Sprint(n))
	}
	if fn := w.Fn(pkMS + ".parse"); fn != nil {
		n := 0
		for _, wr := range c.writesIn(pkMS, "DisallowedCerts.IssuerLists") {
			if wr.Fn != fn || wr.Kind != "mapupdate" {
				continue
			}
			n++
			c.Sites++
			e := Expr(wr.Key)
			c.Check(strings.HasPrefix(e, "(x509/pkix.Name).String(") && strings.HasSuffix(e, ".Issuer)"), "R-PROV", pkMS+".parse", "lists are inserted under cert.Issuer.String() (same derivation as Check)", w.InstrPos(wr.In), e)
		}
		c.Check(n == 1, "R-PROV", pkMS+".parse", "one insertion into IssuerLists", w.Pos(fn.Pos()), fmt.Sprint(n))
		for _, wr := range c.writesIn(pkMS, "Entry.SerialNumber") {
			if wr.Fn == fn {
				c.Check(strings.HasSuffix(Expr(wr.Val), ".SerialNumber") && hasAll(Deps(wr.Val), "call:x509.ParseCertificate"), "R-PROV", pkMS+".parse", "entry serial is the parsed certificate's serial", w.InstrPos(wr.In), Expr(wr.Val))
			}
		}
	} else {
		c.Undecided("R-PROV", pkMS+".parse", "anchor", "-", "not found")
	}
}

func valueOf(in ssa.Instruction) ssa.Value {
	v, _ := in.(ssa.Value)
	return v
}
