package main

import (
	"fmt"
	"go/token"
	"sort"
	"strings"

	"golang.org/x/tools/go/ssa"
)

func init() {
	register(&propDef{
		ID: "C18",
		Explain: "Writer/reader agreement of encoding/asn1, as structure (the round trip itself is a value property and is not decided). R-TABLE: every string encoder makeBody can select (by params.stringType, UTF8String by default) has a decoder arm in parseField for the same universal tag and the same string kind (make<X>String under tag K <-> parse<X>String under tag K). " +
			"R-VSET: the UTCTime/GeneralizedTime cut-over agrees between appendUTCTime/outsideUTCRange, the encoder choice and parseUTCTime (1950/2000/2050). R-VSET: appendTagAndLength uses the high-tag-number form exactly for tag >= 31 and the long length form exactly for length >= 128 (the forms parseTagAndLength requires, see C19). " +
			"R-ORDER: setEncoder.Encode writes the element encodings only after sorting them with bytes.Compare on the encodings themselves (DER SET OF order; needed for re-marshalling to reproduce the bytes). R-SIBLING: the DEFAULT handling of writer (makeField) and reader (setDefaultValue) is gated by the same test " +
			"(optional, a default present, canHaveDefaultValue(kind)) and both materialise the default with SetInt(*params.defaultValue).",
		NotCov: "equality of the decoded value and byte-identical re-marshalling for arbitrary values of generated struct types (reflect-driven; no sound static argument in reach), tag-parameter combinations, implicit/explicit tagging interplay.",
		Floor:  25,
		Run:    runC18,
	})
}

func runC18(c *Ctx) {
	w := c.W
	ap := "z/encoding/asn1"
	mb, pf := w.Fn(ap+".makeBody"), w.Fn(ap+".parseField")
	if mb == nil || pf == nil {
		c.Undecided("R-TABLE", ap, "makeBody / parseField", "-", "not found")
		return
	}
	// ---------------- string arms
	kind := func(name, prefix string) string { // make<X>String / parse<X>String -> X
		n := name[strings.LastIndex(name, ".")+1:]
		if strings.HasPrefix(n, prefix) && strings.HasSuffix(n, "String") {
			return strings.TrimSuffix(strings.TrimPrefix(n, prefix), "String")
		}
		return ""
	}
	tagOf := func(in ssa.Instruction, about func(string) bool) (int64, bool) {
		for _, f := range domFacts(in.Block()) {
			if f.Op == "eq" && f.Y != nil && about(Expr(f.X)) {
				if k, ok := intConst(f.Y); ok {
					return k, true
				}
			}
		}
		return 0, false
	}
	enc := map[string]int64{}
	utf8, _ := w.ConstOf(ap, "TagUTF8String")
	for _, b := range mb.Blocks {
		for _, in := range b.Instrs {
			cc := callCommon(in)
			if cc == nil || cc.StaticCallee() == nil {
				continue
			}
			x := kind(FuncName(cc.StaticCallee()), "make")
			if x == "" {
				continue
			}
			if k, ok := tagOf(in, func(e string) bool { return e == "params.stringType" }); ok {
				enc[x] = k
			} else if x == "UTF8" && utf8 != nil {
				enc[x] = constInt(utf8)
			} else {
				c.Fail("R-TABLE", "asn1.makeBody", "string encoder make"+x+"String is selected by a constant string type", w.InstrPos(in), "")
			}
		}
	}
	dec := map[string][]int64{}
	for _, b := range pf.Blocks {
		for _, in := range b.Instrs {
			cc := callCommon(in)
			if cc == nil || cc.StaticCallee() == nil {
				continue
			}
			x := kind(FuncName(cc.StaticCallee()), "parse")
			if x == "" {
				continue
			}
			if k, ok := tagOf(in, func(e string) bool { return strings.Contains(e, "getUniversalType") }); ok {
				dec[x] = append(dec[x], k)
			}
		}
	}
	var xs []string
	for x := range enc {
		xs = append(xs, x)
	}
	sort.Strings(xs)
	c.Check(len(xs) >= 4, "R-TABLE", "asn1.makeBody", "string encoders enumerated", w.Pos(mb.Pos()), strings.Join(xs, ","))
	for _, x := range xs {
		c.Sites++
		ok := false
		for _, k := range dec[x] {
			if k == enc[x] {
				ok = true
			}
		}
		c.Check(ok, "R-TABLE", "asn1.parseField", fmt.Sprintf("%sString written under universal tag %d is decoded by parse%sString under the same tag", x, enc[x], x), w.Pos(pf.Pos()), fmt.Sprint(dec[x]))
	}
	// the tag values are the X.680 universal tags
	for name, want := range map[string]int64{"TagUTF8String": 12, "TagNumericString": 18, "TagPrintableString": 19, "TagT61String": 20, "TagIA5String": 22, "TagUTCTime": 23, "TagGeneralizedTime": 24, "TagBMPString": 30} {
		v, ok := w.ConstOf(ap, name)
		c.Check(ok && constInt(v) == want, "R-TABLE", "asn1."+name, "X.680 universal tag number", "-", fmt.Sprint(v))
	}

	// ---------------- time
	c.timeThresholds()
	c.asn1WriterRules()
	c18Extras3(c)
	printableRules(c, []string{"z/encoding/asn1.parsePrintableString"})

	// ---------------- identifier and length forms
	if fn := w.Fn(ap + ".appendTagAndLength"); fn != nil {
		for _, in := range callsIn(fn, ap+".appendBase128Int") {
			c.Cut(CutSpec{Rule: "R-VSET", Fn: fn, Label: "the high-tag-number form is written only for tag >= 31", Target: isInstr(in), Cut: factExpr("ge", "t.tag", "31")})
		}
		for _, in := range callsIn(fn, ap+".appendLength") {
			c.Cut(CutSpec{Rule: "R-VSET", Fn: fn, Label: "the long length form is written only for length >= 128", Target: isInstr(in), Cut: factExpr("ge", "t.length", "128")})
		}
		// and conversely: the short forms only below the thresholds
		for _, b := range fn.Blocks {
			for _, in := range b.Instrs {
				cl := isBuiltinCall(in, "append")
				if cl == nil {
					continue
				}
				vals, _ := appended(cl)
				if len(vals) != 1 {
					continue
				}
				e := Expr(vals[0])
				switch {
				case strings.Contains(e, "|uint8(t.tag)") || strings.HasSuffix(e, "|byte(t.tag))") || strings.Contains(e, "t.tag)") && !strings.Contains(e, "31"):
					c.Cut(CutSpec{Rule: "R-VSET", Fn: fn, Label: "the single-octet identifier is written only for tag < 31", Target: isInstr(in), Cut: factExpr("lt", "t.tag", "31")})
				case e == "byte(t.length)" || e == "uint8(t.length)":
					c.Cut(CutSpec{Rule: "R-VSET", Fn: fn, Label: "the short length form is written only for length < 128", Target: isInstr(in), Cut: factExpr("lt", "t.length", "128")})
				}
			}
		}
	} else {
		c.Undecided("R-VSET", ap+".appendTagAndLength", "anchor", "-", "not found")
	}

	// ---------------- SET OF ordering
	if fn := w.Fn("(" + ap + ".setEncoder).Encode"); fn != nil {
		var sortCall ssa.Instruction
		for _, in := range callsIn(fn, "sort.Slice", "sort.SliceStable") {
			sortCall = in
			cc := callCommon(in)
			c.Check(lessIsBytesCompare(cc.Args[1]), "R-ORDER", "asn1.setEncoder.Encode", "the less function is bytes.Compare(l[i], l[j]) < 0 on the sorted slice itself", w.InstrPos(in), "")
			// the sorted slice holds one encoding per element
			mk := makeOf(cc.Args[0])
			if mk == nil {
				if mi, ok := cc.Args[0].(*ssa.MakeInterface); ok {
					mk = makeOf(mi.X)
				}
			}
			det := "no make"
			if mk != nil {
				det = Expr(mk.Len)
			}
			c.Check(mk != nil && Expr(mk.Len) == "len(s)", "R-ORDER", "asn1.setEncoder.Encode", "the sorted slice has one entry per set element", w.InstrPos(in), det)
		}
		if sortCall == nil {
			c.Fail("R-ORDER", "asn1.setEncoder.Encode", "element encodings are sorted", w.Pos(fn.Pos()), "no sort call")
		} else {
			for _, b := range fn.Blocks {
				for _, in := range b.Instrs {
					if cl := isBuiltinCall(in, "copy"); cl != nil && strings.HasPrefix(Expr(cl.Call.Args[0]), "dst[") {
						c.Check(instrDominates(sortCall, in), "R-ORDER", "asn1.setEncoder.Encode", "the output is written only after the sort", w.InstrPos(in), "")
					}
				}
			}
		}
	} else {
		c.Undecided("R-ORDER", "asn1.setEncoder.Encode", "anchor", "-", "not found")
	}

	// ---------------- DEFAULT handling
	for _, name := range []string{ap + ".makeField", ap + ".setDefaultValue"} {
		fn := w.Fn(name)
		if fn == nil {
			c.Undecided("R-SIBLING", name, "anchor", "-", "not found")
			continue
		}
		n := 0
		for _, in := range callsIn(fn, "(reflect.Value).SetInt") {
			n++
			c.Sites++
			cc := callCommon(in)
			c.Check(Expr(cc.Args[1]) == "params.defaultValue" || Expr(cc.Args[1]) == "*params.defaultValue" || strings.Contains(Expr(cc.Args[1]), "params.defaultValue"), "R-SIBLING", short(name), "the default is materialised from params.defaultValue", w.InstrPos(in), Expr(cc.Args[1]))
			c.Cut(CutSpec{Rule: "R-SIBLING", Fn: fn, Label: "the default is used only for kinds canHaveDefaultValue accepts", Target: isInstr(in), Cut: func(f Fact) bool {
				cl := callOf(f.X)
				return f.Op == "true" && cl != nil && strings.HasSuffix(calleeName(&cl.Call), ".canHaveDefaultValue")
			}})
			c.Cut(CutSpec{Rule: "R-SIBLING", Fn: fn, Label: "the default is used only when one was declared", Target: isInstr(in), Cut: factExpr("nonnil", "params.defaultValue", "")})
			c.Cut(CutSpec{Rule: "R-SIBLING", Fn: fn, Label: "the default is used only for optional fields", Target: isInstr(in), Cut: factExpr("true", "params.optional", "")})
		}
		c.Check(n == 1, "R-SIBLING", short(name), "one default materialisation", w.Pos(fn.Pos()), fmt.Sprint(n))
	}
	_ = token.NoPos
}

func constInt(v interface{ ExactString() string }) int64 {
	var k int64
	fmt.Sscan(v.ExactString(), &k)
	return k
}

// lessIsBytesCompare: the closure is `return bytes.Compare(s[i], s[j]) < 0` on the captured slice.
func lessIsBytesCompare(v ssa.Value) bool {
	mc, ok := v.(*ssa.MakeClosure)
	if !ok {
		return false
	}
	fn, ok := mc.Fn.(*ssa.Function)
	if !ok || len(fn.Blocks) != 1 || len(fn.Params) != 2 {
		return false
	}
	rt, ok := fn.Blocks[0].Instrs[len(fn.Blocks[0].Instrs)-1].(*ssa.Return)
	if !ok || len(rt.Results) != 1 {
		return false
	}
	bo, ok := rt.Results[0].(*ssa.BinOp)
	if !ok || bo.Op != token.LSS {
		return false
	}
	if k, isC := intConst(bo.Y); !isC || k != 0 {
		return false
	}
	cl, ok := bo.X.(*ssa.Call)
	if !ok || calleeName(&cl.Call) != "bytes.Compare" {
		return false
	}
	elem := func(x ssa.Value, p *ssa.Parameter) bool {
		u, ok := x.(*ssa.UnOp)
		if !ok {
			return false
		}
		ia, ok := u.X.(*ssa.IndexAddr)
		if !ok || ia.Index != ssa.Value(p) {
			return false
		}
		base := ia.X
		if ld, ok := base.(*ssa.UnOp); ok {
			base = ld.X
		}
		_, isFree := base.(*ssa.FreeVar)
		return isFree
	}
	return elem(cl.Call.Args[0], fn.Params[0]) && elem(cl.Call.Args[1], fn.Params[1])
}
