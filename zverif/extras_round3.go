package main

// Obligations added after the third round of seeded regressions (DESIGN.md 8.6).

import (
	"fmt"
	"go/constant"
	"go/token"
	"go/types"
	"sort"
	"strings"

	"golang.org/x/tools/go/ssa"
)

var _ = token.ADD

// borrow runs another property's rules in a scratch context and adopts the obligations that match.
func (c *Ctx) borrow(run func(*Ctx), match func(o *Obligation) bool) int {
	sub := &Ctx{W: c.W, FnsSeen: map[string]bool{}, extra: map[string]any{}}
	run(sub)
	n := 0
	for i := range sub.Obls {
		if match(sub.Obls[i]) {
			c.Obls = append(c.Obls, sub.Obls[i])
			n++
		}
	}
	return n
}

// c03Extras3: (a) ParseRevocationList accepts a list only if the outer (unsigned) and inner (signed)
// AlgorithmIdentifier are the same octets; (b) VerifyPSS drops leading octets of the RSAVP1 output only
// after testing them to be zero.
func c03Extras3(c *Ctx) {
	w := c.W
	c03Extras4(c)
	nullBytesRule(c, "z/x509")
	if fn := w.Fn("z/x509.ParseRevocationList"); fn != nil {
		c.Sites++
		c.Cut(CutSpec{Rule: "R-CUT", Fn: fn, Label: "a revocation list is returned only if the outer signatureAlgorithm equals the signed one octet for octet (bytes.Equal)", Target: SuccessReturn(1, nil),
			Cut: func(f Fact) bool {
				cl := callOf(f.X)
				if f.Op != "true" || cl == nil || calleeName(&cl.Call) != "bytes.Equal" {
					return false
				}
				e := Expr(cl)
				return strings.Contains(e, "outerSigAISeq") || (strings.Contains(strings.ToLower(e), "outer") && strings.Contains(strings.ToLower(e), "sigai"))
			}})
	} else {
		c.Undecided("R-CUT", "x509.ParseRevocationList", "anchor", "-", "not found")
	}
	if top := w.Fn("z/rsa.VerifyPSS"); top != nil {
		n := 0
		// in VerifyPSS or in an unexported helper only it calls
		for _, fn := range w.familyOf(top) {
		if fn.Name() == "emsaPSSVerify" {
			continue // the EMSA-PSS-VERIFY routine slices the message by the RFC offsets (C23's rules)
		}
		for _, b := range fn.Blocks {
			for _, in := range b.Instrs {
				sl, ok := in.(*ssa.Slice)
				if !ok || sl.Low == nil {
					continue
				}
				if k, ok := sl.Low.(*ssa.Const); ok && k.Value != nil && k.Value.ExactString() == "0" {
					continue
				}
				n++
				c.Sites++
				base := sl.X
				c.Cut(CutSpec{Rule: "R-CUT", Fn: fn, Label: fmt.Sprintf("leading octets of the encoded message are dropped (#%d) only after each was tested to be zero", n), Target: func(i2 ssa.Instruction, _ resolver) bool { return i2 == ssa.Instruction(sl) },
					Cut: func(f Fact) bool {
						// em[0] == 0 on the same base
						if f.Op != "eq" || f.Y == nil {
							return false
						}
						k, ok := f.Y.(*ssa.Const)
						if !ok || k.Value == nil || k.Value.ExactString() != "0" {
							return false
						}
						u, ok := f.X.(*ssa.UnOp)
						if !ok {
							return false
						}
						ia, ok := u.X.(*ssa.IndexAddr)
						if !ok {
							return false
						}
						k0, ok := ia.Index.(*ssa.Const)
						return ok && k0.Value != nil && k0.Value.ExactString() == "0" && ia.X == base
					}, MinTargets: -1})
			}
		}
		}
		c.Check(n >= 1, "R-CUT", "rsa.VerifyPSS", "re-slicing of the encoded message found", w.Pos(top.Pos()), fmt.Sprint(n))
	}
}

// c04Extras3: subjectBytes hands back the stored RawSubject whenever there is one (the issuer octets of an issued
// certificate must be the parent's subject octets, not a re-marshalling of the decoded name).
func c04Extras3(c *Ctx) {
	w := c.W
	c04Extras4(c)
	fn := w.Fn("z/x509.subjectBytes")
	if fn == nil {
		c.Undecided("R-PROV", "x509.subjectBytes", "anchor", "-", "not found")
		return
	}
	var starts []EdgeRef
	for _, b := range fn.Blocks {
		iff, ok := b.Instrs[len(b.Instrs)-1].(*ssa.If)
		if !ok {
			continue
		}
		for si := 0; si < 2; si++ {
			for _, f := range condFacts(iff.Cond, si == 0, idRes) {
				if f.Op == "gt" && strings.HasSuffix(Expr(f.X), "len(cert.RawSubject)") {
					starts = append(starts, EdgeRef{B: b, Succ: si})
				}
			}
		}
	}
	c.Sites++
	c.Check(len(starts) == 1, "R-PROV", "x509.subjectBytes", "the test len(cert.RawSubject) > 0 found", w.Pos(fn.Pos()), fmt.Sprint(len(starts)))
	if len(starts) == 1 {
		c.Cut(CutSpec{Rule: "R-PROV", Fn: fn, Label: "a non-empty RawSubject is returned as it is (no re-marshalling of the decoded name)", StartEdges: starts, MinTargets: -1,
			Target: func(in ssa.Instruction, res resolver) bool {
				rt, ok := in.(*ssa.Return)
				return ok && len(rt.Results) == 2 && Expr(res(unspill(rt, 0))) != "cert.RawSubject"
			}, Cut: func(Fact) bool { return false }})
	}
}

// c11Extras3: (a) AddCert leaves before the dangling-edge fix-up only for a certificate that is already in the
// graph or a node that already existed; (b) the revisit tests of the chain walk report "in chain" only if both the
// subject and the key are equal.
func c11Extras3(c *Ctx) {
	w := c.W
	freshChainRule(c)
	if fn := w.Fn("(*z/verifier.Graph).AddCert"); fn != nil {
		// the lookup that starts the fix-up
		isFixupLookup := func(in ssa.Instruction) bool {
			lk, ok := in.(*ssa.Lookup)
			if !ok {
				return false
			}
			return strings.Contains(Expr(lk.X), "missingIssuerNode") && strings.Contains(strings.ToLower(Expr(lk.Index)), "rawsubject")
		}
		n := 0
		for _, f := range w.familyOf(fn) {
			for _, b := range f.Blocks {
				for _, in := range b.Instrs {
					if isFixupLookup(in) {
						n++
					}
				}
			}
		}
		// the fix-up may live in a helper only AddCert calls: the call then starts it
		lookupHere := isFixupLookup
		isFixupLookup = func(in ssa.Instruction) bool { return lookupHere(in) || w.callsInto(in, lookupHere) }
		c.Sites++
		c.Check(n == 1, "R-CUT", "verifier.Graph.AddCert", "the dangling-edge lookup g.missingIssuerNode[string(c.RawSubject)] found", w.Pos(fn.Pos()), fmt.Sprint(n))
		c.Cut(CutSpec{Rule: "R-CUT", Fn: fn, Label: "returns before the dangling-edge fix-up only if the certificate is already in the graph or its node already existed (every new node adopts the edges it signed, whatever its basic constraints)",
			Target:  func(in ssa.Instruction, _ resolver) bool { _, ok := in.(*ssa.Return); return ok },
			Barrier: isFixupLookup, MinTargets: -1, Track: nil,
			Cut: func(f Fact) bool {
				if cl := callOf(f.X); cl != nil && f.Op == "true" && strings.HasSuffix(calleeName(&cl.Call), "GraphEdgeSet).ContainsCertificate") {
					return true
				}
				// isNewNode is a phi of constants false|true: being false on the path
				if f.Op == "false" {
					if p, ok := f.X.(*ssa.Phi); ok && p.Comment == "isNewNode" {
						return true
					}
					if k, ok := f.X.(*ssa.Const); ok && k.Value != nil {
						return true
					}
				}
				return false
			}})
	}
	for _, name := range []string{"(z/x509.CertificateChain).SubjectAndKeyInChain", "(z/x509.CertificateChain).CertificateSubjectAndKeyInChain"} {
		fn := w.Fn(name)
		if fn == nil {
			c.Undecided("R-CUT", short(name), "anchor", "-", "not found")
			continue
		}
		for _, leaf := range []string{"RawSubject", "RawSubjectPublicKeyInfo"} {
			leaf := leaf
			c.Sites++
			c.Cut(CutSpec{Rule: "R-CUT", Fn: fn, Label: "reports a revisit only if " + leaf + " is equal (both subject and key must match)", Target: TrueReturn(0, nil),
				Cut: func(f Fact) bool {
					cl := callOf(f.X)
					if f.Op != "true" || cl == nil || calleeName(&cl.Call) != "bytes.Equal" || len(cl.Call.Args) != 2 {
						return false
					}
					return strings.HasSuffix(Expr(cl.Call.Args[0]), "."+leaf) && strings.HasSuffix(Expr(cl.Call.Args[1]), "."+leaf)
				}})
		}
	}
}

// sigParamsTableRule: when signingParamsForPublicKey honours a requested algorithm it takes the OID and the digest
// from the same row of signatureAlgorithmDetails: on every path from the store of row.oid into sigAlgo.Algorithm to
// a return, the returned hash is row.hash.
func sigParamsTableRule(c *Ctx, fnName string) {
	w := c.W
	fn := w.Fn(fnName)
	if fn == nil {
		c.Undecided("R-PROV", short(fnName), "anchor", "-", "not found")
		return
	}
	n := 0
	for _, b := range fn.Blocks {
		for _, in := range b.Instrs {
			st, ok := in.(*ssa.Store)
			if !ok {
				continue
			}
			fa, ok := st.Addr.(*ssa.FieldAddr)
			if !ok || fieldLeaf(fieldName(fa)) != "Algorithm" {
				continue
			}
			ev := Expr(st.Val)
			if !strings.HasSuffix(ev, ".oid") {
				continue
			}
			n++
			c.Sites++
			want := strings.TrimSuffix(ev, ".oid") + ".hash"
			c.Cut(CutSpec{Rule: "R-PROV", Fn: fn, Label: fmt.Sprintf("the digest returned for a requested algorithm (#%d) is the hash of the table row whose OID was written", n), StartAfter: in, MinTargets: -1,
				Target: func(i2 ssa.Instruction, res resolver) bool {
					rt, ok := i2.(*ssa.Return)
					if !ok || len(rt.Results) < 3 {
						return false
					}
					if e := res(unspill(rt, 2)); !isNilConst(e) && definitelyNonNil(e) {
						return false
					}
					return Expr(res(unspill(rt, 0))) != want
				}, Cut: func(Fact) bool { return false }})
		}
	}
	c.Check(n >= 1, "R-PROV", short(fnName), "store of the requested algorithm's OID found", w.Pos(fn.Pos()), fmt.Sprint(n))
}

// c18Extras3: parseField may report "nothing consumed, no error" (an absent OPTIONAL element) only after
// setDefaultValue accepted the field, so that a DEFAULT the encoder omitted is installed again at all three sites.
func c18Extras3(c *Ctx) {
	w := c.W
	bitStringPureRule(c)
	digitArgsRule(c)
	c18Extras4(c)
	fn := w.Fn("z/encoding/asn1.parseField")
	if fn == nil {
		c.Undecided("R-SIBLING", "encoding/asn1.parseField", "anchor", "-", "not found")
		return
	}
	var initOff *ssa.Parameter
	for _, p := range fn.Params {
		if paramName(p) == "initOffset" {
			initOff = p
		}
	}
	n := len(callsIn(fn, "z/encoding/asn1.setDefaultValue"))
	c.Sites++
	c.Check(initOff != nil && n >= 3, "R-SIBLING", "encoding/asn1.parseField", "the three absent-element sites (end of data, explicit tag mismatch, tag mismatch) call setDefaultValue", w.Pos(fn.Pos()), fmt.Sprint(n))
	if initOff == nil {
		return
	}
	succ := SuccessReturn(1, nil)
	c.Cut(CutSpec{Rule: "R-SIBLING", Fn: fn, Label: "returns the initial offset without error (element absent) only past setDefaultValue(v, params) == true", MinTargets: -1,
		Target: func(in ssa.Instruction, res resolver) bool {
			rt, ok := in.(*ssa.Return)
			if !ok || len(rt.Results) != 2 {
				return false
			}
			return res(unspill(rt, 0)) == ssa.Value(initOff) && succ(in, res)
		},
		Cut: func(f Fact) bool {
			cl := callOf(f.X)
			return f.Op == "true" && cl != nil && strings.HasSuffix(calleeName(&cl.Call), "asn1.setDefaultValue")
		}})
}

// c19Extras3: the long-form length accumulator of parseTagAndLength is shifted up by eight bits only past a test that
// it is below 2^23 (otherwise high octets of an over-long length are shifted out and only the wrapped value is
// range- and minimality-checked).
func c19Extras3(c *Ctx) {
	w := c.W
	c19Extras4(c)
	root := w.Fn("z/encoding/asn1.parseTagAndLength")
	if root == nil {
		c.Undecided("R-VSET", "encoding/asn1.parseTagAndLength", "anchor", "-", "not found")
		return
	}
	n := 0
	// the accumulation may sit in a helper only parseTagAndLength calls; it is then read in that call's context
	for _, fn := range w.familyOf(root) {
		fn := fn
		w.inCallerContext(fn, func() {
			for _, b := range fn.Blocks {
				for _, in := range b.Instrs {
					bo, ok := in.(*ssa.BinOp)
					if !ok || bo.Op != token.SHL || !strings.HasSuffix(Expr(bo.X), ".length") {
						continue
					}
					n++
					c.Sites++
					acc := Expr(bo.X)
					c.Cut(CutSpec{Rule: "R-VSET", Fn: fn, Label: fmt.Sprintf("the length accumulator is shifted (#%d) only past a test that it is below 2^23 (no octet of an over-long length is shifted out)", n), MinTargets: -1,
						Target: func(i2 ssa.Instruction, _ resolver) bool { return i2 == ssa.Instruction(bo) },
						Cut: func(f Fact) bool {
							if f.Op != "lt" || f.Y == nil || Expr(f.X) != acc {
								return false
							}
							k, ok := f.Y.(*ssa.Const)
							if !ok || k.Value == nil {
								return false
							}
							v, exact := constantInt64(k)
							return exact && v > 0 && v <= 1<<23
						}})
				}
			}
		})
	}
	c.Check(n >= 1, "R-VSET", "encoding/asn1.parseTagAndLength", "shift of the length accumulator found", w.Pos(root.Pos()), fmt.Sprint(n))
}

func constantInt64(k *ssa.Const) (int64, bool) {
	if k == nil || k.Value == nil {
		return 0, false
	}
	s := k.Value.ExactString()
	var v int64
	_, err := fmt.Sscan(s, &v)
	return v, err == nil
}

// andLeavesOf: the operands of a conjunction built with & (through conversions).
func andLeavesOf(v ssa.Value, out *[]ssa.Value, depth int) {
	if depth > 16 {
		return
	}
	v = stripConv(v)
	if b, ok := v.(*ssa.BinOp); ok && b.Op == token.AND {
		andLeavesOf(b.X, out, depth+1)
		andLeavesOf(b.Y, out, depth+1)
		return
	}
	*out = append(*out, v)
}

// c23Extras3: (a) SignPSS uses one hash value throughout (the one merged with opts.Hash) for the salt length, the
// digest-length check and the encoding; (b) DecryptPKCS1v15SessionKey overwrites the caller's key only if the
// decrypted message has exactly the key's length.
func c23Extras3(c *Ctx) {
	w := c.W
	c23Extras4(c)
	if fn := w.Fn("z/rsa.SignPSS"); fn != nil {
		uses := map[ssa.Value][]string{}
		for _, b := range fn.Blocks {
			for _, in := range b.Instrs {
				cc := callCommon(in)
				if cc == nil {
					continue
				}
				ops := append([]ssa.Value{}, cc.Args...)
				if cc.IsInvoke() {
					ops = append(ops, cc.Value)
				}
				for _, a := range ops {
					if typeStr(a.Type()) == "crypto.Hash" {
						uses[a] = append(uses[a], calleeName(cc)+" at "+w.InstrPos(in))
					}
				}
			}
		}
		c.Sites++
		var desc []string
		for v, u := range uses {
			desc = append(desc, Expr(v)+" -> "+strings.Join(u, ", "))
		}
		sort.Strings(desc)
		c.Check(len(uses) == 1, "R-PROV", "rsa.SignPSS", "salt length, digest check and encoding all use the same hash value (the argument merged with opts.Hash)", w.Pos(fn.Pos()), strings.Join(desc, " ; "))
	} else {
		c.Undecided("R-PROV", "rsa.SignPSS", "anchor", "-", "not found")
	}
	if fn := w.Fn("z/rsa.DecryptPKCS1v15SessionKey"); fn != nil {
		n := 0
		for _, in := range callsIn(fn, "crypto/subtle.ConstantTimeCopy") {
			cc := callCommon(in)
			if cc == nil || len(cc.Args) != 3 {
				continue
			}
			n++
			c.Sites++
			var leaves []ssa.Value
			andLeavesOf(cc.Args[0], &leaves, 0)
			ok := false
			var got []string
			for _, l := range leaves {
				got = append(got, Expr(l))
				cl := callOf(l)
				if cl == nil || calleeName(&cl.Call) != "crypto/subtle.ConstantTimeEq" || len(cl.Call.Args) != 2 {
					continue
				}
				a, b := Expr(stripConv(cl.Call.Args[0])), Expr(stripConv(cl.Call.Args[1]))
				if (strings.HasPrefix(a, "(len(") && strings.Contains(a, "-") && b == "len(key)") || (strings.HasPrefix(b, "(len(") && strings.Contains(b, "-") && a == "len(key)") {
					ok = true
				}
			}
			c.Check(ok, "R-VSET", "rsa.DecryptPKCS1v15SessionKey", "the key is overwritten only if ConstantTimeEq(len(em)-index, len(key)) holds (a longer message leaves it untouched)", w.InstrPos(in), strings.Join(got, " & "))
		}
		c.Check(n == 1, "R-VSET", "rsa.DecryptPKCS1v15SessionKey", "ConstantTimeCopy into the key found", w.Pos(fn.Pos()), fmt.Sprint(n))
	}
}

// bigIntCopyRule: a math/big.Int is never copied by assignment (*dst = *src shares the word slice; later arithmetic
// on one rewrites the other); expected count zero, the selftest fixture keeps a positive example.
func bigIntCopyRule(c *Ctx, files ...string) {
	w := c.W
	nfn := 0
	for _, f := range files {
		for _, fn := range w.FuncsInFile(f) {
			nfn++
			for i, st := range bigIntCopies(fn) {
				c.Fail("R-ALIAS", short(FuncName(fn)), fmt.Sprintf("no big.Int is copied by struct assignment (#%d)", i+1), w.InstrPos(st), "use (*big.Int).Set")
			}
		}
	}
	c.Sites++
	c.Check(nfn > 0, "R-ALIAS", strings.Join(files, ","), "functions searched for big.Int struct copies", "-", fmt.Sprintf("%d functions", nfn))
}

func bigIntCopies(fn *ssa.Function) []ssa.Instruction {
	var out []ssa.Instruction
	for _, b := range fn.Blocks {
		for _, in := range b.Instrs {
			st, ok := in.(*ssa.Store)
			if !ok || typeStr(st.Val.Type()) != "math/big.Int" && typeStr(st.Val.Type()) != "big.Int" {
				continue
			}
			if u, ok := st.Val.(*ssa.UnOp); ok && u.Op == token.MUL {
				out = append(out, in)
			}
		}
	}
	return out
}

// nullBytesRule (R-UNITS): asn1.NullBytes is the complete TLV 05 00, so it is only ever compared with the complete
// encoding of a value (RawValue.FullBytes), never with its content octets (RawValue.Bytes): a NULL's content is empty
// and would never equal it, which silently turns "parameters absent or NULL" into "parameters absent".
func nullBytesRule(c *Ctx, pkgs ...string) {
	w := c.W
	n := 0
	for _, pk := range pkgs {
		for _, fn := range w.FuncsOfPkg(pk) {
			for _, in := range callsIn(fn, "bytes.Equal") {
				cc := callCommon(in)
				if cc == nil || len(cc.Args) != 2 {
					continue
				}
				for i, a := range cc.Args {
					if !strings.HasSuffix(Expr(a), "asn1.NullBytes") && !strings.HasSuffix(Expr(a), "asn1.NullBytes[:]") {
						continue
					}
					other := Expr(cc.Args[1-i])
					n++
					c.Sites++
					c.Check(strings.HasSuffix(other, ".FullBytes"), "R-UNITS", short(FuncName(fn)), fmt.Sprintf("NullBytes (a whole TLV) is compared with a whole encoding: %s", other), w.InstrPos(in), "compared with "+other)
				}
			}
		}
	}
	c.Check(n >= 4, "R-UNITS", strings.Join(pkgs, ","), "comparisons with asn1.NullBytes found", "-", fmt.Sprint(n))
}

// loopSkipCut: in the (unique) loop of fn that contains an instruction satisfying inLoop, control comes round to the
// loop header again without passing a barrier instruction only past a fact satisfying cut.
func (c *Ctx) loopSkipCut(rule string, fn *ssa.Function, label string, inLoop func(ssa.Instruction) bool, barrier func(ssa.Instruction) bool, cut FP) {
	var sel *natLoop
	for _, l := range natLoops(fn) {
		has := false
		for b := range l.blocks {
			for _, in := range b.Instrs {
				if inLoop(in) {
					has = true
				}
			}
		}
		// innermost such loop
		if has && (sel == nil || len(l.blocks) < len(sel.blocks)) {
			sel = l
		}
	}
	c.Sites++
	if sel == nil {
		c.Fail(rule, short(FuncName(fn)), label, c.W.Pos(fn.Pos()), "loop not found")
		return
	}
	var starts []EdgeRef
	for si, s := range sel.header.Succs {
		if sel.blocks[s] && s != sel.header {
			starts = append(starts, EdgeRef{B: sel.header, Succ: si})
		}
	}
	hdr := sel.header
	c.Cut(CutSpec{Rule: rule, Fn: fn, Label: label, StartEdges: starts, MinTargets: -1,
		Target:  func(in ssa.Instruction, _ resolver) bool { return in == hdr.Instrs[0] },
		Barrier: barrier, Cut: cut})
}

// nameFillRule: FillFromRDNSequence passes over an attribute (without dispatching on its type) only if its value is
// not a string; an empty string is a value like any other and must reach its typed field.
func nameFillRule(c *Ctx) {
	w := c.W
	if c.Prop == "C22" {
		c22Extras4(c)
	}
	if c.Prop == "C22" {
		// OriginalRDNS keeps the slice the decoder handed out: it must own its storage
		c.borrow(c18Extras4, func(o *Obligation) bool { return o.Rule == "R-FRESH" })
	}
	fn := w.Fn("(*z/x509/pkix.Name).FillFromRDNSequence")
	if fn == nil {
		c.Undecided("R-CUT", "pkix.Name.FillFromRDNSequence", "anchor", "-", "not found")
		return
	}
	isAssert := func(in ssa.Instruction) bool {
		ta, ok := in.(*ssa.TypeAssert)
		return ok && ta.CommaOk && typeStr(ta.AssertedType) == "string"
	}
	c.loopSkipCut("R-CUT", fn, "an attribute is passed over before the dispatch on its type only if its value is not a string", isAssert,
		func(in ssa.Instruction) bool {
			// t := atv.Type, the value every arm of the dispatch reads
			v, ok := in.(ssa.Value)
			return ok && strings.HasSuffix(Expr(v), ".Type")
		},
		func(f Fact) bool {
			ex, ok := f.X.(*ssa.Extract)
			if !ok || f.Op != "false" || ex.Index != 1 {
				return false
			}
			ta, ok := ex.Tuple.(*ssa.TypeAssert)
			return ok && ta.CommaOk
		})
}

// c16Extras3: every fixed field of a serialised SCT is written on every successful path of serializeV1SCTHere (the
// caller's buffer may hold anything), i.e. no Put*/copy into the output is conditional.
func c16Extras3(c *Ctx) {
	w := c.W
	c.ShortReadObligations("z/ct", "z/x509/ct", "z/x509/revocation/microsoft", "z/x509/revocation/google")
	for _, name := range []string{"z/ct.serializeV1SCTHere", "z/x509/ct.serializeV1SCTHere"} {
		fn := w.Fn(name)
		if fn == nil {
			if strings.HasPrefix(name, "z/ct.") {
				c.Undecided("R-LAYOUT", short(name), "anchor", "-", "not found")
			}
			continue
		}
		n := 0
		for _, b := range fn.Blocks {
			for _, in := range b.Instrs {
				cc := callCommon(in)
				if cc == nil {
					continue
				}
				cn := calleeName(cc)
				isPut := strings.Contains(cn, "PutUint")
				if bi, ok := cc.Value.(*ssa.Builtin); ok && bi.Name() == "copy" {
					isPut = len(cc.Args) > 0 && strings.Contains(Expr(cc.Args[0]), "here")
				}
				if !isPut {
					continue
				}
				n++
				c.Sites++
				the := in
				dst := cc.Args[0]
				if strings.Contains(cn, "PutUint") && len(cc.Args) > 1 {
					dst = cc.Args[1]
				}
				c.Cut(CutSpec{Rule: "R-LAYOUT", Fn: fn, Label: fmt.Sprintf("output field write #%d (%s) happens on every successful path", n, Expr(dst)), Target: SuccessReturn(1, nil), MinTargets: -1,
					Barrier: func(i2 ssa.Instruction) bool { return i2 == the }, Cut: func(Fact) bool { return false }})
			}
		}
		c.Check(n >= 4, "R-LAYOUT", short(name), "writes into the output buffer found", w.Pos(fn.Pos()), fmt.Sprint(n))
	}
}

// c17Extras3: Scan sends on a channel it created only after it started a goroutine that was handed that channel
// (filling a bounded channel before any consumer exists blocks for good once the ranges outnumber its capacity).
func c17Extras3(c *Ctx) {
	w := c.W
	c17Extras4(c)
	fn := w.Fn("(*z/ct/scanner.Scanner).Scan")
	if fn == nil {
		c.Undecided("R-ORDER", "ct/scanner.Scanner.Scan", "anchor", "-", "not found")
		return
	}
	n := 0
	for _, b := range fn.Blocks {
		for _, in := range b.Instrs {
			sd, ok := in.(*ssa.Send)
			if !ok {
				continue
			}
			if _, ok := sd.Chan.(*ssa.MakeChan); !ok {
				continue
			}
			n++
			c.Sites++
			started := false
			for _, b2 := range fn.Blocks {
				for _, i2 := range b2.Instrs {
					g, ok := i2.(*ssa.Go)
					// the goroutine is started before the send and never after it (workers are started in a loop,
					// so dominance is too much to ask)
					if !ok || !(g.Block() == in.Block() && instrIndex(g) < instrIndex(in) || g.Block() != in.Block() && blockReaches(g.Block(), in.Block())) || (g.Block() != in.Block() && blockReaches(in.Block(), g.Block())) {
						continue
					}
					for _, a := range g.Call.Args {
						if stripConv(a) == sd.Chan {
							started = true
						}
					}
					if mc, ok := g.Call.Value.(*ssa.MakeClosure); ok {
						for _, bd := range mc.Bindings {
							if bd == sd.Chan {
								started = true
							}
						}
					}
				}
			}
			c.Check(started, "R-ORDER", "ct/scanner.Scanner.Scan", fmt.Sprintf("send #%d on %s happens after a goroutine that receives the channel was started", n, Expr(sd.Chan)), w.InstrPos(in), "no go statement handing over the channel lies before the send (and only before it)")
		}
	}
	c.Check(n >= 1, "R-ORDER", "ct/scanner.Scanner.Scan", "sends on channels made by Scan found", w.Pos(fn.Pos()), fmt.Sprint(n))
}

// binderTranscriptRule: a PSK binder is computed over a transcript of its own (a fresh hash or a clone); the running
// handshake transcript is never the hash that the truncated ClientHello is written to.
func binderTranscriptRule(c *Ctx) {
	w := c.W
	ekmWriters(c)
	sortParamRule(c, "z/tls")
	n := 0
	for _, fn := range w.FuncsOfPkg("z/tls") {
		for _, in := range callsIn(fn, "(*z/tls.cipherSuiteTLS13).finishedHash") {
			cc := callCommon(in)
			if cc == nil || len(cc.Args) != 3 || !strings.Contains(strings.ToLower(Expr(cc.Args[1])), "binder") {
				continue
			}
			n++
			c.Sites++
			fresh, running := false, ""
			for v := range backClosure(cc.Args[2], nil) {
				if cl, ok := v.(*ssa.Call); ok {
					cn := calleeName(&cl.Call)
					if cn == "(crypto.Hash).New" || strings.HasSuffix(cn, ".cloneHash") {
						fresh = true
					}
				}
				if u, ok := v.(*ssa.UnOp); ok && u.Op == token.MUL {
					if fa, ok := u.X.(*ssa.FieldAddr); ok && fieldLeaf(fieldName(fa)) == "transcript" {
						running = Expr(u)
					}
				}
			}
			c.Check(fresh && running == "", "R-PROV", short(FuncName(fn)), fmt.Sprintf("PSK binder #%d is computed over a hash of its own (hash.New or cloneHash), not over the running transcript", n), w.InstrPos(in), "transcript argument "+Expr(cc.Args[2])+" "+running)
		}
	}
	c.Check(n >= 3, "R-PROV", "z/tls", "PSK binder computations found", "-", fmt.Sprint(n))
}

// suiteTableRule: each row of a TLS <= 1.2 cipher-suite table agrees with the suite's IANA name, which is the
// specification of its parameters: the PRF hash flag (suiteSHA384 iff the name ends in _SHA384), the key length
// (AES_128/RC4_128 16, AES_256/CHACHA20 32, 3DES 24) and the AEAD column (GCM, CHACHA20_POLY1305, else nil).
func suiteTableRule(c *Ctx, table string) {
	w := c.W
	rows, p, pos := w.VarRows("z/tls", table)
	if p == nil || len(rows) == 0 {
		c.Undecided("R-TABLE", "tls."+table, "anchor", "-", "table not found")
		return
	}
	sha384 := int64(0)
	if k, ok := p.Types.Scope().Lookup("suiteSHA384").(*types.Const); ok {
		sha384, _ = constant.Int64Val(k.Val())
	}
	n := 0
	for _, r := range rows {
		if len(r) < 9 || r[0].Obj == nil {
			continue
		}
		name := r[0].Obj.Name()
		if !strings.HasPrefix(name, "TLS_") {
			continue
		}
		n++
		c.Sites++
		var bad []string
		if r[5].Const != nil && sha384 != 0 {
			fl, _ := constant.Int64Val(r[5].Const)
			if (fl&sha384 != 0) != strings.HasSuffix(name, "_SHA384") {
				bad = append(bad, fmt.Sprintf("suiteSHA384 flag is %v", fl&sha384 != 0))
			}
		} else {
			bad = append(bad, "flags are not constant")
		}
		wantKey := int64(-1)
		switch {
		case strings.Contains(name, "AES_128"), strings.Contains(name, "RC4_128"):
			wantKey = 16
		case strings.Contains(name, "AES_256"), strings.Contains(name, "CHACHA20"):
			wantKey = 32
		case strings.Contains(name, "3DES"):
			wantKey = 24
		}
		if wantKey >= 0 && r[1].Const != nil {
			if kl, _ := constant.Int64Val(r[1].Const); kl != wantKey {
				bad = append(bad, fmt.Sprintf("key length %d", kl))
			}
		}
		aead := r[8].String()
		switch {
		case strings.Contains(name, "_GCM_"):
			if aead != "aeadAESGCM" {
				bad = append(bad, "aead "+aead)
			}
		case strings.Contains(name, "CHACHA20_POLY1305"):
			if strings.ToLower(aead) != "aeadchacha20poly1305" { // two equivalent constructors exist
				bad = append(bad, "aead "+aead)
			}
		default:
			if aead != "nil" {
				bad = append(bad, "aead "+aead)
			}
		}
		c.Check(len(bad) == 0, "R-TABLE", "tls."+table, "row "+name+" carries the parameters its name specifies (PRF hash flag, key length, AEAD)", w.Pos(pos), strings.Join(bad, "; "))
	}
	c.Check(n >= 20, "R-TABLE", "tls."+table, "rows enumerated", w.Pos(pos), fmt.Sprint(n))
}

// c27Extras3: (a) the name a certificate is verified against (Config.ServerName) is only ever filled in where it is
// empty, never replaced (ClientHello templates and fingerprints carry their own SNI); (b) loadSession offers a cached
// session only past the test that the stored leaf certificate has not expired at Config.Time.
func c27Extras3(c *Ctx) {
	w := c.W
	n := 0
	for _, fw := range w.FieldWrites()["Config.ServerName"] {
		if fw.Kind != "store" || fw.Fn.Pkg == nil || fw.Fn.Pkg.Pkg.Path() != expand("z/tls") {
			continue
		}
		// the struct literal of Clone copies the field
		if strings.HasSuffix(FuncName(fw.Fn), "Config).Clone") {
			continue
		}
		n++
		c.Sites++
		in := fw.In
		base := fw.Base
		c.Cut(CutSpec{Rule: "R-OWN", Fn: fw.Fn, Label: fmt.Sprintf("Config.ServerName is written (#%d in %s) only where it was empty", n, short(FuncName(fw.Fn))), MinTargets: -1,
			Target: func(i2 ssa.Instruction, _ resolver) bool { return i2 == in },
			Cut: func(f Fact) bool {
				if f.Op != "eq" || f.Y == nil {
					return false
				}
				k, ok := f.Y.(*ssa.Const)
				if !ok || k.Value == nil || k.Value.ExactString() != `""` {
					return false
				}
				u, ok := f.X.(*ssa.UnOp)
				if !ok {
					return false
				}
				fa, ok := u.X.(*ssa.FieldAddr)
				// the tested Config may be the original of the clone that is written (tls.dial)
				_ = base
				return ok && fieldName(fa) == "Config.ServerName"
			}})
	}
	c.Check(n >= 2, "R-OWN", "z/tls", "writers of Config.ServerName enumerated", "-", fmt.Sprint(n))
	if fn := w.Fn("(*z/tls.Conn).loadSession"); fn != nil {
		c.Sites++
		c.Cut(CutSpec{Rule: "R-CUT", Fn: fn, Label: "a verifying client offers a cached session only past the test that the stored leaf certificate is not expired (Config.time() after serverCertificates[0].NotAfter)", MinTargets: -1,
			Target: func(in ssa.Instruction, res resolver) bool {
				rt, ok := in.(*ssa.Return)
				return ok && len(rt.Results) >= 2 && !isNilConst(res(unspill(rt, 1)))
			},
			Cut: func(f Fact) bool {
				if factExpr("true", "c.config.InsecureSkipVerify", "")(f) {
					return true
				}
				cl := callOf(f.X)
				if f.Op != "false" || cl == nil || calleeName(&cl.Call) != "(time.Time).After" || len(cl.Call.Args) != 2 {
					return false
				}
				return strings.HasSuffix(Expr(cl.Call.Args[1]), "serverCertificates[0].NotAfter") && strings.Contains(Expr(cl.Call.Args[0]), "time(")
			}})
	}
}

// c25Extras3: atLeastReader.Read reports an unexpected EOF judging by the bytes still missing after the read it has
// just done: the ErrUnexpectedEOF return lies behind the update of N.
func c25Extras3(c *Ctx) {
	w := c.W
	c25Extras4(c)
	fn := w.Fn("(*z/tls.atLeastReader).Read")
	if fn == nil {
		c.Undecided("R-ORDER", "tls.atLeastReader.Read", "anchor", "-", "not found")
		return
	}
	c.Sites++
	hit := 0
	c.Cut(CutSpec{Rule: "R-ORDER", Fn: fn, Label: "io.ErrUnexpectedEOF is returned only after N was reduced by the bytes just read", MinTargets: -1,
		Target: func(in ssa.Instruction, res resolver) bool {
			rt, ok := in.(*ssa.Return)
			if !ok || len(rt.Results) != 2 {
				return false
			}
			if strings.HasSuffix(Expr(res(unspill(rt, 1))), "io.ErrUnexpectedEOF") {
				hit++
				return true
			}
			return false
		},
		Barrier: func(in ssa.Instruction) bool {
			st, ok := in.(*ssa.Store)
			if !ok {
				return false
			}
			fa, ok := st.Addr.(*ssa.FieldAddr)
			return ok && fieldLeaf(fieldName(fa)) == "N"
		}, Cut: func(Fact) bool { return false }})
	found := false
	for _, rt := range returnsOf(fn) {
		if len(rt.Results) == 2 && strings.Contains(Expr(unspill(rt, 1)), "ErrUnexpectedEOF") {
			found = true
		}
	}
	c.Check(found, "R-ORDER", "tls.atLeastReader.Read", "the ErrUnexpectedEOF return found", w.Pos(fn.Pos()), "")
}

// c28Extras3: (a) verifyServerCertificate keeps parsed certificates in the positions of the raw ones (the log pairs
// Chain[k].Raw with the k-th parsed certificate): no element of the loop is passed over; (b) the elliptic-curve
// points recorded for the log come out of elliptic.Unmarshal for the negotiated curve (which knows each curve's
// coordinate width), as they do for the key exchange itself.
func c28Extras3(c *Ctx) {
	w := c.W
	c28Extras4(c)
	if fn := w.Fn("(*z/tls.Conn).verifyServerCertificate"); fn != nil {
		c.loopSkipCut("R-SCAN", fn, "no element of the certificate list is passed over: every iteration stores the parsed certificate or leaves the function",
			func(in ssa.Instruction) bool {
				cc := callCommon(in)
				return cc != nil && strings.HasSuffix(calleeName(cc), "x509.ParseCertificate")
			},
			func(in ssa.Instruction) bool {
				if st, ok := in.(*ssa.Store); ok {
					if _, ok := st.Addr.(*ssa.IndexAddr); ok && typeStr(st.Val.Type()) == "*x509.Certificate" {
						return true
					}
				}
				return false
			}, func(Fact) bool { return false })
	} else {
		c.Undecided("R-SCAN", "tls.Conn.verifyServerCertificate", "anchor", "-", "not found")
	}
	n := 0
	for _, leaf := range []string{"nistParameters.x", "nistParameters.y"} {
		for _, fw := range w.FieldWrites()[leaf] {
			if fw.Kind != "store" || strings.HasSuffix(w.RelFile(fw.Fn.Pos()), "_test.go") {
				continue
			}
			if strings.HasSuffix(FuncName(fw.Fn), "nistParameters).Clone") {
				continue // copies the coordinates of an existing value
			}
			n++
			c.Sites++
			ok := false
			src := Expr(fw.Val)
			for v := range backClosure(fw.Val, nil) {
				if ex, isEx := v.(*ssa.Extract); isEx {
					if cl, isCall := ex.Tuple.(*ssa.Call); isCall {
						switch calleeName(&cl.Call) {
						case "crypto/elliptic.Unmarshal", "crypto/elliptic.GenerateKey":
							ok = true
						}
						if cl.Call.IsInvoke() && (cl.Call.Method.Name() == "ScalarBaseMult" || cl.Call.Method.Name() == "ScalarMult") {
							ok = true
						}
					}
				}
			}
			c.Check(ok, "R-PROV", short(FuncName(fw.Fn)), fmt.Sprintf("%s (#%d) is a coordinate produced by crypto/elliptic (Unmarshal, GenerateKey or a scalar multiplication)", leaf, n), w.InstrPos(fw.In), src)
		}
	}
	c.Check(n >= 4, "R-PROV", "z/tls", "writers of nistParameters coordinates enumerated", "-", fmt.Sprint(n))
}

// c29Extras3: when SNIExtension.WriteToConfig replaces the autopopulating SNI extension of a shared fingerprint by
// one that carries the current ServerName, the replacement still autopopulates (the next handshake with another
// ServerName must be able to replace it again).
func c29Extras3(c *Ctx) {
	w := c.W
	c29Extras4(c)
	fn := w.Fn("(*z/tls.SNIExtension).WriteToConfig")
	if fn == nil {
		c.Undecided("R-STATE", "tls.SNIExtension.WriteToConfig", "anchor", "-", "not found")
		return
	}
	n := 0
	for _, b := range fn.Blocks {
		for _, in := range b.Instrs {
			al, ok := in.(*ssa.Alloc)
			if !ok || !al.Heap || typeStr(al.Type()) != "*tls.SNIExtension" {
				continue
			}
			n++
			c.Sites++
			set := false
			for _, r := range *al.Referrers() {
				fa, ok := r.(*ssa.FieldAddr)
				if !ok || fieldLeaf(fieldName(fa)) != "Autopopulate" {
					continue
				}
				for _, r2 := range *fa.Referrers() {
					if st, ok := r2.(*ssa.Store); ok {
						if b, isB := boolConst(st.Val); isB && b {
							set = true
						}
					}
				}
			}
			c.Check(set, "R-STATE", "tls.SNIExtension.WriteToConfig", fmt.Sprintf("the SNI extension written back into the fingerprint (#%d) keeps Autopopulate set", n), w.InstrPos(in), "")
		}
	}
	c.Check(n >= 1, "R-STATE", "tls.SNIExtension.WriteToConfig", "replacement extension found", w.Pos(fn.Pos()), fmt.Sprint(n))
}

// c30Extras3: in the ClientHello encoders nothing is appended to the extensions block after pre_shared_key
// (RFC 8446 4.2.11: it MUST be the last extension; unmarshal, marshalWithoutBinders and updateBinders rely on it).
func c30Extras3(c *Ctx) {
	w := c.W
	c30Extras4(c)
	c30GuardRule(c)
	psk := int64(-1)
	if p := w.Pkg("z/tls"); p != nil {
		if k, ok := p.Types.Scope().Lookup("extensionPreSharedKey").(*types.Const); ok {
			psk, _ = constant.Int64Val(k.Val())
		}
	}
	n := 0
	root := w.Fn("(*z/tls.clientHelloMsg).marshal")
	var fns []*ssa.Function
	var walk func(f *ssa.Function)
	walk = func(f *ssa.Function) {
		fns = append(fns, f)
		for _, a := range f.AnonFuncs {
			walk(a)
		}
	}
	if root != nil {
		walk(root)
	}
	isTypeCode := func(in ssa.Instruction) (int64, bool) {
		cc := callCommon(in)
		if cc == nil || !strings.HasSuffix(calleeName(cc), "cryptobyte.Builder).AddUint16") || len(cc.Args) != 2 {
			return 0, false
		}
		k, ok := cc.Args[1].(*ssa.Const)
		if !ok {
			return 0, false
		}
		v, ok := constantInt64(k)
		return v, ok
	}
	for _, fn := range fns {
		for _, b := range fn.Blocks {
			for _, in := range b.Instrs {
				if v, ok := isTypeCode(in); ok && v == psk {
					n++
					c.Sites++
					c.Cut(CutSpec{Rule: "R-ORDER", Fn: fn, Label: fmt.Sprintf("nothing is added to the extensions block after pre_shared_key (#%d)", n), StartAfter: in, MinTargets: -1,
						Target: func(i2 ssa.Instruction, _ resolver) bool {
							if _, ok := isTypeCode(i2); ok {
								return true
							}
							cc := callCommon(i2)
							return cc != nil && strings.Contains(calleeName(cc), "cryptobyte.Builder).Add") && !strings.HasSuffix(calleeName(cc), "AddUint16LengthPrefixed")
						}, Cut: func(Fact) bool { return false }})
				}
			}
		}
	}
	c.Check(n >= 1 && psk > 0, "R-ORDER", "tls.clientHelloMsg.marshal", "the pre_shared_key block found", "-", fmt.Sprint(n))
}

// c31Extras3: the version sealed into a TLS <= 1.2 session ticket is the negotiated one (c.vers), which is what
// checkForResumption compares it with.
func c31Extras3(c *Ctx) {
	w := c.W
	c31Extras4(c)
	fn := w.Fn("(*z/tls.serverHandshakeState).sendSessionTicket")
	if fn == nil {
		c.Undecided("R-PROV", "tls.serverHandshakeState.sendSessionTicket", "anchor", "-", "not found")
		return
	}
	n := 0
	for _, fw := range w.FieldWrites()["sessionState.vers"] {
		if fw.Fn != fn || fw.Kind != "store" {
			continue
		}
		n++
		c.Sites++
		e := Expr(fw.Val)
		c.Check(e == "hs.c.vers" || e == "c.vers", "R-PROV", "tls.serverHandshakeState.sendSessionTicket", "the ticket records the negotiated version Conn.vers", w.InstrPos(fw.In), e)
	}
	c.Check(n == 1, "R-PROV", "tls.serverHandshakeState.sendSessionTicket", "store of sessionState.vers found", w.Pos(fn.Pos()), fmt.Sprint(n))
}

// pairedGuards: a hand-rolled two-pass encoder sizes its buffer first and fills it afterwards; every optional part
// must be guarded by the same condition in both passes. The non-loop branch conditions of fn, other than those in
// ignore, each occur exactly twice.
func (c *Ctx) pairedGuards(fn *ssa.Function, what string, ignore func(string) bool) {
	w := c.W
	counts := map[string]int{}
	pos := map[string]string{}
	for _, b := range fn.Blocks {
		iff, ok := b.Instrs[len(b.Instrs)-1].(*ssa.If)
		if !ok || isLoopHeader(b) {
			continue
		}
		// loop tests of rotated loops sit in the latch block: a successor that dominates this block
		back := false
		for _, s := range b.Succs {
			if s.Dominates(b) {
				back = true
			}
		}
		if back {
			continue
		}
		e := Expr(iff.Cond)
		if ignore != nil && ignore(e) {
			continue
		}
		counts[e]++
		pos[e] = w.InstrPos(iff)
	}
	var keys []string
	for k := range counts {
		keys = append(keys, k)
	}
	sort.Strings(keys)
	for _, k := range keys {
		c.Sites++
		c.Check(counts[k] == 2, "R-SIBLING", short(FuncName(fn)), "optional part guarded by "+k+" is guarded identically when sizing and when writing ("+what+")", pos[k], fmt.Sprintf("the condition occurs %d time(s)", counts[k]))
	}
	c.Check(len(keys) >= 1, "R-SIBLING", short(FuncName(fn)), "guards of optional parts found", w.Pos(fn.Pos()), fmt.Sprint(len(keys)))
}

func c30GuardRule(c *Ctx) {
	w := c.W
	fn := w.Fn("(*z/tls.certificateRequestMsg).marshal")
	if fn == nil {
		c.Undecided("R-SIBLING", "tls.certificateRequestMsg.marshal", "anchor", "-", "not found")
		return
	}
	c.pairedGuards(fn, "CertificateRequest", func(e string) bool { return strings.Contains(e, ".raw") })
}

// c33Extras3: cryptoParameter.UnmarshalJSON always installs a number (the encoder writes zero and "unset" alike as
// an empty value, so decoding an empty value as nil loses a present zero and makes every later use dereference nil).
func c33Extras3(c *Ctx) {
	w := c.W
	c33Extras4(c)
	fn := w.Fn("(*z/json.cryptoParameter).UnmarshalJSON")
	if fn == nil {
		c.Undecided("R-VSET", "json.cryptoParameter.UnmarshalJSON", "anchor", "-", "not found")
		return
	}
	n := 0
	for _, fw := range w.FieldWrites()["cryptoParameter.Int"] {
		if fw.Fn != fn || fw.Kind != "store" {
			continue
		}
		n++
		c.Sites++
		c.Check(!isNilConst(fw.Val), "R-VSET", "json.cryptoParameter.UnmarshalJSON", fmt.Sprintf("the decoded parameter (#%d) is a number, never nil", n), w.InstrPos(fw.In), Expr(fw.Val))
	}
	c.Check(n >= 1, "R-VSET", "json.cryptoParameter.UnmarshalJSON", "store of the decoded number found", w.Pos(fn.Pos()), fmt.Sprint(n))
}

// rawInputOwners (R-OWN): bytes received from the transport stay in Conn.rawInput until readRecordOrCCS takes a whole
// record with Next; nothing else removes or rewrites them (a read interrupted by a deadline is resumed from them).
func rawInputOwners(c *Ctx) {
	w := c.W
	allowed := map[string]map[string]bool{
		"Bytes":    nil,
		"Len":      nil,
		"Next":     {"(*tls.Conn).readRecordOrCCS": true},
		"Grow":     {"(*tls.Conn).readFromUntil": true},
		"ReadFrom": {"(*tls.Conn).readFromUntil": true},
	}
	n := 0
	for _, fn := range w.FuncsOfPkg("z/tls") {
		for _, b := range fn.Blocks {
			for _, in := range b.Instrs {
				cc := callCommon(in)
				if cc == nil || cc.IsInvoke() || len(cc.Args) == 0 || !strings.HasPrefix(calleeName(cc), "(*bytes.Buffer).") {
					continue
				}
				if !strings.HasSuffix(Expr(cc.Args[0]), ".rawInput") && !strings.HasSuffix(Expr(cc.Args[0]), ".rawInput)") {
					fa, ok := cc.Args[0].(*ssa.FieldAddr)
					if !ok || fieldLeaf(fieldName(fa)) != "rawInput" {
						continue
					}
				}
				m := strings.TrimPrefix(calleeName(cc), "(*bytes.Buffer).")
				n++
				c.Sites++
				who, listed := allowed[m]
				ok := listed && (who == nil || who[short(FuncName(fn))])
				c.Check(ok, "R-OWN", short(FuncName(fn)), "uses rawInput only to look at it, to fill it (readFromUntil) or to take a whole record (readRecordOrCCS): "+m, w.InstrPos(in), m)
			}
		}
	}
	c.Check(n >= 8, "R-OWN", "z/tls", "uses of Conn.rawInput enumerated", "-", fmt.Sprint(n))
}

// c35Extras3: NewLRUClientSessionCache replaces the requested capacity by the default only if it is below 1.
func c35Extras3(c *Ctx) {
	w := c.W
	fn := w.Fn("z/tls.NewLRUClientSessionCache")
	if fn == nil || len(fn.Params) != 1 {
		c.Undecided("R-CUT", "tls.NewLRUClientSessionCache", "anchor", "-", "not found")
		return
	}
	p := fn.Params[0]
	n := 0
	for _, fw := range w.FieldWrites()["lruSessionCache.capacity"] {
		if fw.Fn != fn || fw.Kind != "store" {
			continue
		}
		n++
		c.Sites++
		in, val := fw.In, fw.Val
		c.Cut(CutSpec{Rule: "R-CUT", Fn: fn, Label: "the cache gets a capacity other than the requested one only if the request is below 1", MinTargets: -1, Track: []ssa.Value{val},
			Target: func(i2 ssa.Instruction, res resolver) bool { return i2 == in && res(val) != ssa.Value(p) },
			Cut: func(f Fact) bool {
				if f.X != ssa.Value(p) || f.Y == nil {
					return false
				}
				k, ok := f.Y.(*ssa.Const)
				if !ok {
					return false
				}
				v, exact := constantInt64(k)
				return exact && (f.Op == "lt" && v == 1 || f.Op == "le" && v == 0)
			}})
	}
	c.Check(n == 1, "R-CUT", "tls.NewLRUClientSessionCache", "store of the capacity found", w.Pos(fn.Pos()), fmt.Sprint(n))
}

// digitArgsRule (R-SIGN): every number handed to the decimal digit writers of the time encoder is provably
// non-negative where it is passed (a negative value makes appendTwoDigits emit bytes that are not digits).
func digitArgsRule(c *Ctx) {
	w := c.W
	n := 0
	for _, fn := range w.FuncsInFile("encoding/asn1/marshal.go") {
		for _, in := range callsIn(fn, "z/encoding/asn1.appendTwoDigits", "z/encoding/asn1.appendFourDigits") {
			cc := callCommon(in)
			if cc == nil || len(cc.Args) != 2 {
				continue
			}
			n++
			c.Sites++
			ok, iv := provedNonNeg(cc.Args[1], in)
			det := "no lower bound"
			if iv.hasLo {
				det = fmt.Sprintf("lower bound %d", iv.lo)
			}
			c.Check(ok, "R-SIGN", short(FuncName(fn)), fmt.Sprintf("digit writer argument #%d (%s) is non-negative", n, Expr(cc.Args[1])), w.InstrPos(in), det)
		}
	}
	c.Check(n >= 9, "R-SIGN", "encoding/asn1", "calls of appendTwoDigits/appendFourDigits found", "-", fmt.Sprint(n))
}

// nameReaderTable: attribute type -> Name fields filled, read off the SSA of FillFromRDNSequence: a store of the
// attribute value (or of append(n.F, value)) into n.F is attributed to the type test that dominates it: t[3] == k behind
// len(t) == 4 && t[0] == 2 && t[1] == 5 && t[2] == 4, or t.Equal(oidX). okPrefix is false if a t[3] arm is reachable
// without the complete prefix test.
func nameReaderTable(w *World) (map[string]map[string]bool, bool) {
	reader := map[string]map[string]bool{}
	okPrefix := true
	fn := w.Fn(fnFillRDN)
	if fn == nil {
		return reader, false
	}
	isValue := func(v ssa.Value) bool {
		ex, ok := v.(*ssa.Extract)
		if !ok || ex.Index != 0 {
			return false
		}
		ta, ok := ex.Tuple.(*ssa.TypeAssert)
		return ok && typeStr(ta.AssertedType) == "string"
	}
	for _, b := range fn.Blocks {
		for _, in := range b.Instrs {
			st, ok := in.(*ssa.Store)
			if !ok {
				continue
			}
			fa, ok := st.Addr.(*ssa.FieldAddr)
			if !ok || !strings.HasPrefix(fieldName(fa), "Name.") {
				continue
			}
			field := fieldLeaf(fieldName(fa))
			val := st.Val
			fromValue := isValue(val)
			if cl, ok := val.(*ssa.Call); ok {
				if bi, ok := cl.Call.Value.(*ssa.Builtin); ok && bi.Name() == "append" && len(cl.Call.Args) == 2 {
					// append(n.F, value): the variadic slice holds value
					if ld, ok := cl.Call.Args[0].(*ssa.UnOp); ok {
						if fa2, ok := ld.X.(*ssa.FieldAddr); ok && fa2.Field == fa.Field {
							for v := range backClosure(cl.Call.Args[1], func(x ssa.Value) []ssa.Value {
								var out []ssa.Value
								if sl, ok := x.(*ssa.Slice); ok {
									if al, ok := sl.X.(*ssa.Alloc); ok {
										for _, r := range *al.Referrers() {
											if ia, ok := r.(*ssa.IndexAddr); ok {
												for _, r2 := range *ia.Referrers() {
													if s2, ok := r2.(*ssa.Store); ok {
														out = append(out, s2.Val)
													}
												}
											}
										}
									}
								}
								return out
							}) {
								if isValue(v) {
									fromValue = true
								}
							}
						}
					}
				}
			}
			if !fromValue {
				continue
			}
			facts := domFacts(b)
			prefix := map[string]bool{}
			arc3 := ""
			for _, f := range facts {
				if f.Op == "true" {
					if cl := callOf(f.X); cl != nil && strings.HasSuffix(calleeName(&cl.Call), "ObjectIdentifier).Equal") && len(cl.Call.Args) == 2 {
						if g := globalName(cl.Call.Args[1]); g != "" {
							if oid := oidOfGlobal(w, pkPKIX, g); oid != "" {
								if reader[oid] == nil {
									reader[oid] = map[string]bool{}
								}
								reader[oid][field] = true
							}
						}
					}
				}
				if f.Op != "eq" || f.Y == nil {
					continue
				}
				k, ok := intConst(f.Y)
				if !ok {
					continue
				}
				e := Expr(f.X)
				switch {
				case strings.HasPrefix(e, "len(") && k == 4:
					prefix["len"] = true
				case strings.HasSuffix(e, "[0]") && k == 2:
					prefix["0"] = true
				case strings.HasSuffix(e, "[1]") && k == 5:
					prefix["1"] = true
				case strings.HasSuffix(e, "[2]") && k == 4:
					prefix["2"] = true
				case strings.HasSuffix(e, "[3]"):
					arc3 = fmt.Sprint(k)
				}
			}
			if arc3 != "" {
				if len(prefix) != 4 {
					okPrefix = false
				}
				oid := "2.5.4." + arc3
				if reader[oid] == nil {
					reader[oid] = map[string]bool{}
				}
				reader[oid][field] = true
			}
		}
	}
	return reader, okPrefix
}
