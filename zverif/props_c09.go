package main

import (
	"fmt"
	"strings"

	"golang.org/x/tools/go/ssa"
)

const (
	fnMatchHost = "z/x509.matchHostnames"
	fnLowerCase = "z/x509.toLowerCaseASCII"
	fnHasSAN    = "(*z/x509.Certificate).hasSANExtension"
)

func init() {
	register(&propDef{
		ID: "C09",
		Explain: "R-CUT/R-PROV on hostname verification: the IP branch returns nil only past ip.Equal on an IP SAN and never falls through to name matching; the common name is compared only on the !hasSANExtension() edge, " +
			"where hasSANExtension is oidInExtensions(subjectAltName OID, c.Extensions); both arguments of every matchHostnames call are results of toLowerCaseASCII (of a DNS SAN / the CN, and of the host); " +
			"brackets are stripped only under the three-part guard; the error carries the host. matchHostnames returns true only after both names lost one trailing dot, are non-empty, have equal label counts, and " +
			"no label pair differed unless the pattern label is \"*\". toLowerCaseASCII returns its input or a byte copy in which only bytes in 'A'..'Z' were changed, by +32.",
		NotCov: "String values themselves (e.g. that strings.Split splits on every dot) are the standard library's behaviour.",
		Floor:  20,
		Run:    runC09,
	})
}

func runC09(c *Ctx) {
	w := c.W
	hostnameRules(c)
	vh := w.Fn(fnVerifyHost)
	if vh == nil {
		c.Undecided("R-CUT", fnVerifyHost, "anchor", "-", "not found")
		return
	}
	ipParsed := NonNil(ResultOf(-1, "net.ParseIP"))
	ipEq := IsTrue(func(v ssa.Value) bool {
		if !ResultOf(-1, "(net.IP).Equal")(v) {
			return false
		}
		cl := callOf(v)
		return ResultOf(-1, "net.ParseIP")(cl.Call.Args[0]) && hasAll(Deps(cl.Call.Args[1]), "field:Certificate.IPAddresses")
	})
	matched := IsTrue(ResultOf(-1, fnMatchHost))
	c.Cut(CutSpec{Fn: vh, Label: "nil only past an IP SAN equality or a matchHostnames hit", Target: SuccessReturn(0, nil), Cut: AnyF(ipEq, matched)})
	c.Cut(CutSpec{Fn: vh, Label: "an IP literal is accepted only by IP SAN equality", Start: ipParsed, Target: SuccessReturn(0, nil), Cut: ipEq})
	c.Cut(CutSpec{Fn: vh, Label: "an IP literal never reaches name matching", Start: ipParsed, Target: CallTo(fnMatchHost), MinTargets: 1})
	c.Cut(CutSpec{Fn: vh, Label: "a non-IP host is never accepted through the IP branch", Start: IsNil(ResultOf(-1, "net.ParseIP")), Target: CallTo("(net.IP).Equal"), MinTargets: 1})
	// ParseIP's argument: h, or h[1:len-1] under the bracket guard
	for _, in := range callsIn(vh, "net.ParseIP") {
		a := callCommon(in).Args[0]
		c.Sites++
		okSrc := true
		for v := range backClosure(a, nil) {
			switch x := v.(type) {
			case *ssa.Phi:
			case *ssa.Parameter:
				okSrc = okSrc && x.Name() == "h"
			case *ssa.Slice:
				if Expr(x) != "h[1:(len(h)-1)]" {
					okSrc = false
				}
				c.Cut(CutSpec{Fn: vh, Label: "brackets stripped only if len(h) >= 3", Target: isInstr(x), Cut: Cmp(LenOf(Param("h")), "ge", ConstInt(3))})
				c.Cut(CutSpec{Fn: vh, Label: "brackets stripped only if h starts with '['", Target: isInstr(x),
					Cut: Cmp(func(v ssa.Value) bool { return Expr(v) == "h[0]" }, "eq", ConstInt('['))})
				c.Cut(CutSpec{Fn: vh, Label: "brackets stripped only if h ends with ']'", Target: isInstr(x),
					Cut: Cmp(func(v ssa.Value) bool { return Expr(v) == "h[(len(h)-1)]" }, "eq", ConstInt(']'))})
			default:
				okSrc = false
			}
		}
		c.Check(okSrc, "R-PROV", fnVerifyHost, "the IP candidate is h or h without its brackets", w.InstrPos(in), Expr(a))
	}
	// matchHostnames call sites
	calls := callsIn(vh, fnMatchHost)
	c.Check(len(calls) == 2, "R-PROV", fnVerifyHost, "two matchHostnames sites (DNS SANs, common name)", w.Pos(vh.Pos()), fmt.Sprint(len(calls)))
	hasSAN := func(v ssa.Value) bool { return Expr(v) == "(*x509.Certificate).hasSANExtension(c)" }
	nCN, nSAN := 0, 0
	for _, in := range calls {
		c.Sites++
		a := callCommon(in).Args
		pat, host := callOf(a[0]), callOf(a[1])
		okLower := pat != nil && host != nil && nameIn(calleeName(&pat.Call), []string{fnLowerCase}) && nameIn(calleeName(&host.Call), []string{fnLowerCase}) && Param("h")(host.Call.Args[0])
		c.Check(okLower, "R-PROV", fnVerifyHost, "both matchHostnames arguments are toLowerCaseASCII results, the second of h ["+w.InstrPos(in)+"]", w.InstrPos(in), Expr(a[0])+" ; "+Expr(a[1]))
		if pat == nil {
			continue
		}
		d := Deps(pat.Call.Args[0])
		switch {
		case d["field:Name.CommonName"]:
			nCN++
			c.Cut(CutSpec{Fn: vh, Label: "the common name is compared only when there is no SAN extension", Target: isInstr(in), Cut: IsFalse(hasSAN)})
		case d["field:Certificate.DNSNames"]:
			nSAN++
			c.Cut(CutSpec{Fn: vh, Label: "DNS SANs are compared only when the SAN extension is present", Target: isInstr(in), Cut: IsTrue(hasSAN)})
		default:
			c.Fail("R-PROV", fnVerifyHost, "matchHostnames pattern comes from an unexpected source", w.InstrPos(in), depList(d))
		}
	}
	c.Check(nCN == 1 && nSAN == 1, "R-PROV", fnVerifyHost, "one CN site and one DNS SAN site", w.Pos(vh.Pos()), fmt.Sprintf("cn:%d san:%d", nCN, nSAN))
	// the error carries the host
	okErr, nErr := true, 0
	for v := range returnClosure(vh, 0) {
		if mi, ok := v.(*ssa.MakeInterface); ok {
			nErr++
			if !strings.HasSuffix(typeStr(mi.X.Type()), "HostnameError") {
				okErr = false
				continue
			}
			d := Deps(mi.X)
			if !hasAll(d, "param:h", "param:c") {
				okErr = false
			}
		}
	}
	c.Check(okErr && nErr >= 2, "R-PROV", fnVerifyHost, "failures are HostnameError{c, host}", w.Pos(vh.Pos()), fmt.Sprint(nErr))

	// hasSANExtension
	if f := w.Fn(fnHasSAN); f == nil {
		c.Undecided("R-PROV", fnHasSAN, "anchor", "-", "not found")
	} else {
		ok, n := true, 0
		det := ""
		for v := range returnClosure(f, 0) {
			n++
			det = Expr(v)
			if det != "x509.oidInExtensions(x509.oidExtensionSubjectAltName,c.Extensions)" {
				ok = false
			}
		}
		c.Check(ok && n == 1, "R-PROV", fnHasSAN, "hasSANExtension asks whether the subjectAltName OID is among c.Extensions", w.Pos(f.Pos()), det)
		if f2 := w.Fn("z/x509.oidInExtensions"); f2 != nil {
			c.Cut(CutSpec{Fn: f2, Label: "true only if some extension's Id equals the OID", Target: TrueReturn(0, nil),
				Cut: IsTrue(func(v ssa.Value) bool {
					if !ResultOf(-1, "(z/encoding/asn1.ObjectIdentifier).Equal")(v) {
						return false
					}
					cl := callOf(v)
					d0, d1 := Deps(cl.Call.Args[0]), Deps(cl.Call.Args[1])
					return (d0["param:extensions"] && d1["param:oid"]) || (d1["param:extensions"] && d0["param:oid"])
				})})
		} else {
			c.Undecided("R-CUT", "z/x509.oidInExtensions", "anchor", "-", "not found")
		}
	}

	// matchHostnames
	if f := w.Fn(fnMatchHost); f == nil {
		c.Undecided("R-CUT", fnMatchHost, "anchor", "-", "not found")
	} else {
		tgt := TrueReturn(0, nil)
		trimmed := func(p string) VP {
			return func(v ssa.Value) bool { return Expr(v) == `strings.TrimSuffix(`+p+`,".")` }
		}
		parts := func(p string) VP {
			return func(v ssa.Value) bool { return Expr(v) == `strings.Split(strings.TrimSuffix(`+p+`,"."),".")` }
		}
		c.Cut(CutSpec{Fn: f, Label: "true only for a non-empty pattern (after trimming one trailing dot)", Target: tgt, Cut: Cmp(LenOf(trimmed("pattern")), "ne gt", ConstInt(0))})
		c.Cut(CutSpec{Fn: f, Label: "true only for a non-empty host (after trimming one trailing dot)", Target: tgt, Cut: Cmp(LenOf(trimmed("host")), "ne gt", ConstInt(0))})
		c.Cut(CutSpec{Fn: f, Label: "true only if pattern and host have the same number of labels", Target: tgt, Cut: Cmp(LenOf(parts("pattern")), "eq", LenOf(parts("host")))})
		// a differing, non-wildcard label ends in false
		labelDiffers := Cmp(func(v ssa.Value) bool {
			ia := loadedIndex(v)
			return ia != nil && parts("pattern")(ia.X)
		}, "ne", func(v ssa.Value) bool {
			ia := loadedIndex(v)
			return ia != nil && parts("host")(ia.X)
		})
		c.Cut(CutSpec{Fn: f, Label: "a differing label (pattern label not \"*\") rejects", Start: labelDiffers, Target: tgt, MinTargets: 1})
		// labels are compared at the same index
		n := 0
		for _, b := range f.Blocks {
			if ifi, ok := b.Instrs[len(b.Instrs)-1].(*ssa.If); ok {
				for _, fc := range condFacts(ifi.Cond, true, idRes) {
					if labelDiffers(fc) {
						n++
						ix, iy := loadedIndex(fc.X), loadedIndex(fc.Y)
						c.Check(ix.Index == iy.Index, "R-PROV", fnMatchHost, "labels are compared position by position", w.InstrPos(ifi), Expr(ix.Index)+" vs "+Expr(iy.Index))
						// reached only when the pattern label is not "*"
						var header *ssa.BasicBlock
						for d := b; d != nil; d = d.Idom() {
							if d.Comment == "rangeindex.loop" {
								header = d
								break
							}
						}
						if header != nil {
							cmpIf := ifi
							c.Cut(CutSpec{Fn: f, Label: "only the pattern label \"*\" skips the comparison", StartEdges: []EdgeRef{{B: header, Succ: 0}},
								Target:  func(in ssa.Instruction, _ resolver) bool { return in == header.Instrs[0] },
								Barrier: func(in ssa.Instruction) bool { return in == ssa.Instruction(cmpIf) },
								Cut:     Cmp(func(v ssa.Value) bool { ia := loadedIndex(v); return ia != nil && parts("pattern")(ia.X) }, "eq", ConstStr("*"))})
						}
					}
				}
			}
		}
		c.Check(n == 1, "R-CUT", fnMatchHost, "one label comparison", w.Pos(f.Pos()), fmt.Sprint(n))
		// every label is visited: true is returned only after the range loop is exhausted
		c.Cut(CutSpec{Fn: f, Label: "true only after all labels were visited", Target: tgt,
			Cut: func(fc Fact) bool { // rangeindex exit edge: !(i < len(patternParts))
				return fc.Op == "ge" && fc.Y != nil && LenOf(parts("pattern"))(fc.Y)
			}})
	}

	// toLowerCaseASCII
	if f := w.Fn(fnLowerCase); f == nil {
		c.Undecided("R-PROV", fnLowerCase, "anchor", "-", "not found")
	} else {
		var buf ssa.Value
		okRet := true
		det := ""
		for v := range returnClosure(f, 0) {
			switch x := v.(type) {
			case *ssa.Phi:
			case *ssa.Parameter:
				okRet = okRet && x.Name() == "in"
			case *ssa.Convert:
				if Param("in")(x.X) { // b = []byte(in)
					buf = x
				} else if cv, ok := x.X.(*ssa.Convert); !ok || !Param("in")(cv.X) { // string(b)
					okRet = false
					det = Expr(x)
				}
			default:
				okRet = false
				det = Expr(v)
			}
		}
		c.Check(okRet && buf != nil, "R-PROV", fnLowerCase, "returns in or string(b) with b = []byte(in)", w.Pos(f.Pos()), det)
		n := 0
		for _, b := range f.Blocks {
			for _, in := range b.Instrs {
				st, ok := in.(*ssa.Store)
				if !ok {
					continue
				}
				ia, ok := st.Addr.(*ssa.IndexAddr)
				if !ok || ia.X != buf {
					if !localAddr(st.Addr) {
						c.Fail("R-PROV", fnLowerCase, "unexpected store", w.InstrPos(in), st.String())
					}
					continue
				}
				n++
				c.Sites++
				bo, isB := st.Val.(*ssa.BinOp)
				okVal := false
				var old ssa.Value
				if isB && bo.Op.String() == "+" {
					if k, isC := intConst(bo.Y); isC && k == 32 {
						if ia2 := loadedIndex(bo.X); ia2 != nil && ia2.X == buf && ia2.Index == ia.Index {
							okVal = true
							old = bo.X
						}
					}
				}
				c.Check(okVal, "R-PROV", fnLowerCase, "a byte is only ever replaced by itself + ('a'-'A')", w.InstrPos(in), Expr(st.Val))
				if old != nil {
					same := func(v ssa.Value) bool { ia3 := loadedIndex(v); return ia3 != nil && ia3.X == buf && ia3.Index == ia.Index }
					c.Cut(CutSpec{Fn: f, Label: "a byte is changed only if it is >= 'A'", Target: isInstr(in), Cut: Cmp(same, "ge", ConstInt('A'))})
					c.Cut(CutSpec{Fn: f, Label: "a byte is changed only if it is <= 'Z'", Target: isInstr(in), Cut: Cmp(same, "le", ConstInt('Z'))})
				}
			}
		}
		c.Check(n == 1, "R-PROV", fnLowerCase, "one store into the copy", w.Pos(f.Pos()), fmt.Sprint(n))
		// the fast path returns the input only if no 'A'..'Z' and no RuneError was seen
		c.Cut(CutSpec{Fn: f, Label: "the input is returned unchanged only if no upper-case rune was seen", Start: Cmp(func(v ssa.Value) bool { _, ok := v.(*ssa.Extract); return ok }, "le", ConstInt('Z')),
			Target: func(in ssa.Instruction, res resolver) bool {
				rt, ok := in.(*ssa.Return)
				return ok && Param("in")(res(rt.Results[0]))
			}, MinTargets: 1})
		// calls: none but conversions/len (no rune-based mapping helpers)
		for _, b := range f.Blocks {
			for _, in := range b.Instrs {
				if cc := callCommon(in); cc != nil {
					nm := calleeName(cc)
					c.Check(nm == "builtin.len", "R-PROV", fnLowerCase, "no helper rewrites the string (byte-wise ASCII lowering only)", w.InstrPos(in), nm)
				}
			}
		}
	}
}
