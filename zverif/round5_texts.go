package main

// Texts for the obligations added in the fifth round (extras_round5.go). Applied after round4Texts.

var round5Texts = map[string]round2Text{
	"C01": {Explain: "Round 5: R-GUARD — the minimal-INTEGER checks (cryptobyte.checkASN1Integer, asn1.checkInteger) accept only behind a branch that establishes a non-empty octet string (their callers index bytes[0]); ct/asn1.parseTagAndLength and parseField joined the covered list after the fix of 4a312c4."},
	"C03": {Explain: "Round 5: R-VSET — rsa.VerifyPKCS1v15 and rsa.VerifyPSS accept only behind len(sig) == pub.Size() (RFC 8017 8.1.2/8.2.2 step 1; a longer signature with leading zero octets is the same integer)."},
	"C06": {Explain: "Round 5: the exact-length rule of the RSA verifiers (R-VSET, see C03) is adopted: the SelfSigned flag hangs on it."},
	"C07": {Explain: "Round 5: R-SCAN — the membership helpers of CertificateChain (*InChain) visit every element: range loop, upward index loop from 0 while i < len, or downward from len-1 while i >= 0."},
	"C13": {Explain: "Round 5: R-PROV — the issuerKeyHash / issuerNameHash stored by CreateRequest and CreateResponse are, on every path and through helpers, the result of hash.Hash.Sum (never an octet string taken from the certificate such as SubjectKeyId)."},
	"C15": {Explain: "Round 5: R-CUT — microsoft.parse files a per-issuer list in IssuerLists only on the edge where the lookup of that map found none (get-or-create)."},
	"C16": {Explain: "Round 5: R-ERR — in the ct packages no reader wraps io.EOF into its short-read error (%w) while a list reader ends its list on errors.Is(err, io.EOF); either alone is harmless, the pair turns a truncated last element into a clean end."},
	"C19": {Explain: "Round 5: R-SIBLING — ReadOptionalASN1Boolean stores only the default through out itself and hands out to ReadASN1Boolean, the reader carrying the 00/ff rule; R-GUARD of C01 on the minimal-INTEGER checks is adopted."},
	"C23": {Explain: "Round 5: R-VSET exact signature length (see C03); R-SWALLOW — PrivateKey.Decrypt reports success after a call of one of the package's Decrypt* functions only behind that call's nil error."},
	"C24": {Explain: "Round 5: R-PRE — the TLS 1.3 client accepts a ServerHello only past a successful lookup of the selected group in keySharesByGroup (a ClientHello can carry a hybrid share and its classical fallback)."},
	"C25": {Explain: "Round 5: R-STATE — in Conn.Read, after handlePostHandshakeMessage the next readRecord is reached only over the edge c.hand.Len() <= 0 (several post-handshake messages may share a record)."},
	"C27": {Explain: "Round 5: R-PRE — both checkForResumption functions resume a ticket without client certificates only behind requiresClientCert(c.config.ClientAuth) == false, c.config being the Config in force for the connection (after GetConfigForClient)."},
	"C28": {Explain: "Round 5: R-PRE — the client stores handshakeLog.ServerKeyExchange only behind processServerKeyExchange == nil (the log is built from the key agreement object, complete only then)."},
	"C29": {Explain: "Round 5: R-PURE — no method of ClientFingerprintConfiguration stores an element into, or appends into a reslice (x[:0], x[:n]) of, a slice field of the receiver."},
	"C31": {Explain: "Round 5: R-CUT — the TLS 1.3 checkForResumption returns an error only behind differing identity/binder counts or a decrypted ticket; an offer it cannot use is skipped."},
	"C32": {Explain: "Round 5: R-TABLE — every hash identifier in supportedSKXSignatureAlgorithms, defaultSKXSignatureAlgorithms and supportedClientCertSignatureAlgorithms is a key of supportedHashFunc (a missing one yields crypto.Hash(0) and a panic in the handshake)."},
	"C33": {Explain: "Round 5: R-PROV — GeneralSubtreeIP.UnmarshalJSON stores Data.IP and Data.Mask exactly as net.ParseCIDR returned them."},
	"C34": {Explain: "Round 5: R-LOCK — the exported methods of Conn reach connectionStateLocked only past handshakeMutex.Lock."},
	"C04": {NotCov: "The octet count lengthLength computes for a DER length (seed C04i is a recorded miss: arithmetic)."},
	"C21": {NotCov: "The range of sub-identifiers readBase128Int accepts (seed C21i is a recorded miss: arithmetic)."},
	"C05": {Explain: "Round 5: R-TABLE — the creation functions of x509 (Create*, build*, marshal*) never rebuild a struct value field by field from another value of the same type while leaving other fields unassigned (a defensive copy of an Extension that forgets Critical)."},
}

func applyRound5Texts() {
	for id, t := range round5Texts {
		p := props[id]
		if p == nil {
			continue
		}
		if t.Explain != "" {
			p.Explain += " " + t.Explain
		}
		if t.NotCov != "" {
			p.NotCov += " " + t.NotCov
		}
		p.Floor += t.Floor
	}
}
