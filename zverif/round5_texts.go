package main

// Texts for the obligations added in the fifth round (extras_round5.go). Applied after round4Texts.

var round5Texts = map[string]round2Text{
	"C01": {Explain: "Round 5: R-GUARD — the minimal-INTEGER checks (cryptobyte.checkASN1Integer, asn1.checkInteger) accept only behind a branch that establishes a non-empty octet string (their callers index bytes[0]); ct/asn1.parseTagAndLength and parseField joined the covered list after the fix of 4a312c4."},
	"C05": {Explain: "Round 5: R-TABLE — the creation functions of x509 (Create*, build*, marshal*) never rebuild a struct value field by field from another value of the same type while leaving other fields unassigned (a defensive copy of an Extension that forgets Critical)."},
}

func applyRound5Texts() {
	for id, t := range round5Texts {
		p := props[id]
		if p == nil {
			continue
		}
		if t.Explain != "" {
			p.Explain += " " + t.Explain
		}
		if t.NotCov != "" {
			p.NotCov += " " + t.NotCov
		}
		p.Floor += t.Floor
	}
}
