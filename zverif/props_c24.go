package main

import (
	"fmt"
	"go/constant"
	"go/token"
	"sort"
	"strings"

	"golang.org/x/tools/go/ssa"
)

func init() {
	register(&propDef{
		ID: "C24",
		Explain: "Negotiation rules of package tls, as structure. Version: every writer of Conn.vers and halfConn.version stores result #0 of Config.mutualVersion; mutualVersion reports success only for a peer version equal to an element of supportedVersions(); supportedVersions() and supportedVersionsFromMax append exactly the table entries inside [Min,Max] (both directions: " +
			"an element is appended only inside the range, and skipped only outside it); the table is TLS1.3..TLS1.0 strictly descending; max/minSupportedVersion return its first/last element. Suite: every writer of the four handshake states' suite field stores the result of mutualCipherSuite/mutualCipherSuiteTLS13/selectCipherSuite " +
			"(client: over the offered list and the server's choice); those return a suite only for an id present in both lists (and, for selectCipherSuite, accepted by the usability callback) and return the first such id in preference order; pickCipherSuite takes the preference list from the server configuration exactly when PreferServerCipherSuites is set. " +
			"Downgrade sentinel: processClientHello writes a canary on every path where maxVers >= TLS1.2 and vers < maxVers (contrapositive cut), only there or under the testing flag, and the TLS1.2 canary exactly for vers == TLS1.2; clientHandshake reaches either handshake() only past the negation of the RFC 8446 4.1.3 abort condition (three CNF clauses). " +
			"ALPN: mutualProtocol returns only a protocol in both lists; writers of the server's alpnProtocol/clientProtocol store its result over (client list, NextProtos); the client stores the server's protocol only past mutualProtocol(...) != \"\". Sibling agreement: for the DHE and ECDHE key agreements the client's and the server's premaster secret are produced by the same call spine.",
		NotCov: "that two live endpoints complete a handshake and agree (resumption status, exported keying material); cipherSuiteOk's usability rule per key type; Config.ServerRandom overrides the whole server random including the sentinel by explicit configuration.",
		Floor:  45,
		Run:    runC24,
	})
}

func nonEmptyStrReturn(idx int) func(ssa.Instruction, resolver) bool {
	return func(in ssa.Instruction, res resolver) bool {
		rt, ok := in.(*ssa.Return)
		if !ok || idx >= len(rt.Results) {
			return false
		}
		v := res(unspill(rt, idx))
		if k, ok := v.(*ssa.Const); ok && k.Value != nil && k.Value.Kind() == constant.String && constant.StringVal(k.Value) == "" {
			return false
		}
		return true
	}
}

// loopBodyEdges: the header->body edges of the range loops whose header tests idx < len(x) with Expr(x)==over.
func loopBodyEdges(fn *ssa.Function, over string) (edges []EdgeRef, headers []*ssa.BasicBlock) {
	for _, b := range fn.Blocks {
		ifi, ok := b.Instrs[len(b.Instrs)-1].(*ssa.If)
		if !ok {
			continue
		}
		for _, f := range condFacts(ifi.Cond, true, idRes) {
			if f.Op == "lt" && f.Y != nil && Expr(f.Y) == "len("+over+")" && strings.Contains(Expr(f.X), "φ(") {
				edges = append(edges, EdgeRef{B: b, Succ: 0})
				headers = append(headers, b)
			}
		}
	}
	return
}

func runC24(c *Ctx) {
	w := c.W
	pkg := "z/tls"
	c24Extras(c)
	binderTranscriptRule(c)
	if w.Pkg(pkg) == nil {
		c.Undecided("R-OWN", pkg, "package", "-", "not loaded")
		return
	}
	fw := w.FieldWrites()
	inTests := func(fn *ssa.Function) bool { return strings.HasSuffix(w.RelFile(fn.Pos()), "_test.go") }

	// ---------------- version
	mv := "(*" + pkg + ".Config).mutualVersion"
	for _, f := range []string{"Conn.vers", "halfConn.version"} {
		n := 0
		for _, wr := range fw[f] {
			if !strings.HasPrefix(FuncName(wr.Fn), "(*"+expand(pkg)) && !strings.HasPrefix(FuncName(wr.Fn), expand(pkg)) || inTests(wr.Fn) {
				continue
			}
			n++
			c.Sites++
			ok := false
			for v := range backClosure(wr.Val, func(v ssa.Value) []ssa.Value {
				// a load of Conn.vers is itself a negotiated version
				return nil
			}) {
				if ResultOf(0, mv)(v) || Expr(v) == "c.vers" || strings.HasSuffix(Expr(v), ".c.vers") {
					ok = true
				}
			}
			det := Expr(wr.Val)
			if p, isP := wr.Val.(*ssa.Parameter); isP && !ok {
				// a setter: every caller passes the connection's negotiated version
				pi := -1
				for i, q := range wr.Fn.Params {
					if q == p {
						pi = i
					}
				}
				callers := 0
				ok = pi >= 0
				if node := w.CG().Nodes[wr.Fn]; node != nil {
					for _, e := range node.In {
						if inTests(e.Caller.Func) {
							continue
						}
						callers++
						a := e.Site.Common().Args
						if pi >= len(a) || !(Expr(a[pi]) == "c.vers" || strings.HasSuffix(Expr(a[pi]), ".c.vers")) {
							ok = false
							det += fmt.Sprintf(" ; %s passes %s", short(FuncName(e.Caller.Func)), Expr(a[pi]))
						}
					}
				}
				ok = ok && callers > 0
				det += fmt.Sprintf(" ; %d callers", callers)
			}
			c.Check(ok, "R-OWN", short(FuncName(wr.Fn)), fmt.Sprintf("write of %s #%d stores the result of mutualVersion", f, n), w.InstrPos(wr.In), det)
		}
		c.Check(n >= 2, "R-OWN", f, "writers enumerated", "-", fmt.Sprint(n))
	}
	if fn := w.Fn(mv); fn != nil {
		c.Cut(CutSpec{Rule: "R-VSET", Fn: fn, Label: "reports success only for a peer version equal to a supported version", Target: TrueReturn(1, nil),
			Cut: factExpr("eq", "(*tls.Config).supportedVersions(c)[(φ(-1|↺)+1)]", "peerVersions[(φ(-1|↺)+1)]")})
		ok := true
		det := ""
		for v := range returnClosure(fn, 0) {
			if _, isC := v.(*ssa.Const); isC {
				continue
			}
			det = Expr(v)
			ok = ok && strings.HasPrefix(det, "(*tls.Config).supportedVersions(c)[")
		}
		c.Check(ok && det != "", "R-PROV", short(mv), "the version returned is the matching element of supportedVersions()", w.Pos(fn.Pos()), det)
		// peer preference order: the outer loop ranges over the peer's list
		_, hs := loopBodyEdges(fn, "peerVersions")
		_, hs2 := loopBodyEdges(fn, "(*tls.Config).supportedVersions(c)")
		c.Check(len(hs) == 1 && len(hs2) == 1 && hs[0].Dominates(hs2[0]), "R-VSET", short(mv), "the first peer version with a match wins (peer list is the outer loop)", w.Pos(fn.Pos()), "")
	}
	elem := "tls.supportedVersions[(φ(-1|↺)+1)]"
	type rng struct {
		fn      string
		inside  [][]acceptCond // each clause: disjunction required before the append
		outside []acceptCond   // disjunction required on any skip
	}
	for _, r := range []rng{
		{"(*" + pkg + ".Config).supportedVersions", [][]acceptCond{
			{{"", "nil", "c", ""}, {"", "eq", "c.MinVersion", "0"}, {"", "ge", elem, "c.MinVersion"}},
			{{"", "nil", "c", ""}, {"", "eq", "c.MaxVersion", "0"}, {"", "le", elem, "c.MaxVersion"}},
		}, []acceptCond{{"", "lt", elem, "c.MinVersion"}, {"", "gt", elem, "c.MaxVersion"}}},
		{pkg + ".supportedVersionsFromMax", [][]acceptCond{
			{{"", "le", elem, "maxVersion"}},
		}, []acceptCond{{"", "gt", elem, "maxVersion"}}},
	} {
		fn := w.Fn(r.fn)
		if fn == nil {
			c.Undecided("R-VSET", r.fn, "anchor", "-", "not found")
			continue
		}
		var app ssa.Instruction
		for _, b := range fn.Blocks {
			for _, in := range b.Instrs {
				if cl := isBuiltinCall(in, "append"); cl != nil {
					app = in
					vals, _ := appended(cl)
					c.Check(len(vals) == 1 && Expr(vals[0]) == elem, "R-PROV", short(r.fn), "appends the table element itself", w.InstrPos(in), Expr(cl))
				}
			}
		}
		if app == nil {
			c.Fail("R-VSET", short(r.fn), "append found", w.Pos(fn.Pos()), "")
			continue
		}
		for i, cl := range r.inside {
			var fps []FP
			for _, a := range cl {
				fps = append(fps, factExpr(a.op, a.x, a.y))
			}
			c.Cut(CutSpec{Rule: "R-VSET", Fn: fn, Label: fmt.Sprintf("a version is appended only inside the configured range (bound %d)", i+1), Target: isInstr(app), Cut: AnyF(fps...)})
		}
		edges, hdrs := loopBodyEdges(fn, "tls.supportedVersions")
		if len(edges) != 1 {
			c.Fail("R-VSET", short(r.fn), "loop over the version table found", w.Pos(fn.Pos()), fmt.Sprint(len(edges)))
			continue
		}
		var fps []FP
		for _, a := range r.outside {
			fps = append(fps, factExpr(a.op, a.x, a.y))
		}
		hdr := hdrs[0]
		c.Cut(CutSpec{Rule: "R-VSET", Fn: fn, Label: "a table entry is skipped only outside the configured range", StartEdges: edges,
			Target:  func(in ssa.Instruction, _ resolver) bool { return in == hdr.Instrs[0] },
			Barrier: func(in ssa.Instruction) bool { return in == app }, Cut: AnyF(fps...), MinTargets: -1})
	}
	if tab, ok := sliceLiteralInts(w, pkg, "supportedVersions"); ok {
		c.Check(fmt.Sprint(tab) == "[772 771 770 769]", "R-TABLE", "tls.supportedVersions", "TLS 1.3, 1.2, 1.1, 1.0 in strictly descending order", "-", fmt.Sprint(tab))
	} else {
		c.Undecided("R-TABLE", "tls.supportedVersions", "literal evaluated", "-", "")
	}
	for _, p := range [][2]string{{"maxSupportedVersion", "(*tls.Config).supportedVersions(c)[0]"}, {"minSupportedVersion", "(*tls.Config).supportedVersions(c)[(len((*tls.Config).supportedVersions(c))-1)]"}} {
		fn := w.Fn("(*" + pkg + ".Config)." + p[0])
		if fn == nil {
			c.Undecided("R-PROV", p[0], "anchor", "-", "not found")
			continue
		}
		got := ""
		for v := range returnClosure(fn, 0) {
			if _, isC := v.(*ssa.Const); !isC {
				got = Expr(v)
			}
		}
		c.Check(got == p[1], "R-PROV", "tls.Config."+p[0], "returns the first/last supported version", w.Pos(fn.Pos()), got)
	}

	// ---------------- cipher suite
	type sw struct {
		field   string
		allowed []string
		args    []string // expected Expr of the leading arguments ("" = any)
	}
	for _, s := range []sw{
		{"clientHandshakeState.suite", []string{pkg + ".mutualCipherSuite"}, []string{"hs.hello.cipherSuites", "hs.serverHello.cipherSuite"}},
		{"clientHandshakeStateTLS13.suite", []string{pkg + ".mutualCipherSuiteTLS13"}, []string{"hs.hello.cipherSuites", "hs.serverHello.cipherSuite"}},
		{"serverHandshakeState.suite", []string{pkg + ".selectCipherSuite"}, nil},
		{"serverHandshakeStateTLS13.suite", []string{pkg + ".mutualCipherSuiteTLS13"}, nil},
	} {
		n := 0
		for _, wr := range fw[s.field] {
			if inTests(wr.Fn) {
				continue
			}
			n++
			c.Sites++
			cl := callOf(wr.Val)
			ok := cl != nil && cl.Call.StaticCallee() != nil && nameIn(FuncName(cl.Call.StaticCallee()), expandAll(s.allowed))
			det := Expr(wr.Val)
			if ok {
				for i, a := range s.args {
					if a != "" && Expr(cl.Call.Args[i]) != a {
						ok = false
					}
				}
			}
			c.Check(ok, "R-OWN", short(FuncName(wr.Fn)), fmt.Sprintf("write of %s #%d stores the negotiated suite", s.field, n), w.InstrPos(wr.In), det)
		}
		c.Check(n >= 1, "R-OWN", s.field, "writers enumerated", "-", fmt.Sprint(n))
	}
	for _, m := range []struct{ fn, byID, have string }{
		{pkg + ".mutualCipherSuite", "tls.cipherSuiteByID", "have"},
		{pkg + ".mutualCipherSuiteTLS13", "tls.cipherSuiteTLS13ByID", "have"},
	} {
		if fn := w.Fn(m.fn); fn != nil {
			c.Cut(CutSpec{Rule: "R-VSET", Fn: fn, Label: "returns a suite only for an id that is in the list and equals the wanted id", Target: NonNilReturn(0, nil), Cut: factExpr("eq", "have[(φ(-1|↺)+1)]", "want")})
			got := ""
			for v := range returnClosure(fn, 0) {
				if !isNilConst(v) {
					got = Expr(v)
				}
			}
			c.Check(got == m.byID+"(have[(φ(-1|↺)+1)])", "R-PROV", short(m.fn), "returns the suite with that id", w.Pos(fn.Pos()), got)
		} else {
			c.Undecided("R-VSET", m.fn, "anchor", "-", "not found")
		}
	}
	for _, m := range [][2]string{{pkg + ".cipherSuiteByID", "tls.implementedCipherSuites"}, {pkg + ".cipherSuiteTLS13ByID", "tls.cipherSuitesTLS13"}} {
		if fn := w.Fn(m[0]); fn != nil {
			c.Cut(CutSpec{Rule: "R-VSET", Fn: fn, Label: "returns only the table entry whose id equals the argument", Target: NonNilReturn(0, nil), Cut: factExpr("eq", m[1]+"[(φ(-1|↺)+1)].id", "id")})
			got := ""
			for v := range returnClosure(fn, 0) {
				if !isNilConst(v) {
					got = Expr(v)
				}
			}
			c.Check(got == m[1]+"[(φ(-1|↺)+1)]", "R-PROV", short(m[0]), "returns the entry that was compared", w.Pos(fn.Pos()), got)
		}
	}
	if fn := w.Fn(pkg + ".selectCipherSuite"); fn != nil {
		c.Cut(CutSpec{Rule: "R-VSET", Fn: fn, Label: "returns a suite only for an id present in both lists", Target: NonNilReturn(0, nil), Cut: factExpr("eq", "ids[(φ(-1|↺)+1)]", "supportedIDs[(φ(-1|↺)+1)]")})
		c.Cut(CutSpec{Rule: "R-VSET", Fn: fn, Label: "returns a suite only if the usability callback accepted it", Target: NonNilReturn(0, nil), Cut: factExpr("true", "dyn:?(tls.cipherSuiteByID(ids[(φ(-1|↺)+1)]))", "")})
		got := ""
		for v := range returnClosure(fn, 0) {
			if !isNilConst(v) {
				got = Expr(v)
			}
		}
		c.Check(got == "tls.cipherSuiteByID(ids[(φ(-1|↺)+1)])", "R-PROV", "tls.selectCipherSuite", "returns the implemented suite of the matching preference-list id", w.Pos(fn.Pos()), got)
		_, h1 := loopBodyEdges(fn, "ids")
		_, h2 := loopBodyEdges(fn, "supportedIDs")
		c.Check(len(h1) == 1 && len(h2) == 1 && h1[0].Dominates(h2[0]), "R-VSET", "tls.selectCipherSuite", "the first acceptable id of the preference list wins (preference list is the outer loop)", w.Pos(fn.Pos()), "")
		// a candidate is skipped only if unimplemented, unusable or unsupported
	}
	if fn := w.Fn("(*" + pkg + ".serverHandshakeState).pickCipherSuite"); fn != nil {
		calls := callsIn(fn, pkg+".selectCipherSuite")
		c.Check(len(calls) == 1, "R-PROV", "tls.pickCipherSuite", "one selectCipherSuite call", w.Pos(fn.Pos()), fmt.Sprint(len(calls)))
		if len(calls) == 1 {
			cc := callCommon(calls[0])
			var track []ssa.Value
			for _, a := range cc.Args[:2] {
				track = append(track, a)
				if ph, ok := a.(*ssa.Phi); ok {
					for _, e := range ph.Edges {
						track = append(track, e)
					}
				}
			}
			root := func(v ssa.Value, res resolver) string {
				for i := 0; i < 6; i++ {
					v = res(v)
					if cl := callOf(v); cl != nil && strings.HasSuffix(calleeName(&cl.Call), ".deprioritizeAES") {
						v = cl.Call.Args[0]
						continue
					}
					break
				}
				return Expr(v)
			}
			const cfg, cli = "(*tls.Config).cipherSuites(hs.c.config)", "hs.clientHello.cipherSuites"
			prefer := "hs.c.config.PreferServerCipherSuites"
			c.Cut(CutSpec{Rule: "R-PROV", Fn: fn, Label: "the server's list is the preference list only if PreferServerCipherSuites is set", Track: track,
				Target: func(in ssa.Instruction, res resolver) bool { return in == calls[0] && root(cc.Args[0], res) != cli }, Cut: factExpr("true", prefer, ""), MinTargets: -1})
			c.Cut(CutSpec{Rule: "R-PROV", Fn: fn, Label: "the client's list is the preference list only if PreferServerCipherSuites is not set", Track: track,
				Target: func(in ssa.Instruction, res resolver) bool { return in == calls[0] && root(cc.Args[0], res) != cfg }, Cut: factExpr("false", prefer, ""), MinTargets: -1})
			c.Cut(CutSpec{Rule: "R-PROV", Fn: fn, Label: "preference and supported lists are the server's and the client's lists, one each", Track: track,
				Target: func(in ssa.Instruction, res resolver) bool {
					if in != calls[0] {
						return false
					}
					a, b := root(cc.Args[0], res), root(cc.Args[1], res)
					return !((a == cfg && b == cli) || (a == cli && b == cfg))
				}, Cut: func(Fact) bool { return false }, MinTargets: -1})
			c.Check(Expr(cc.Args[2]) != "" && strings.Contains(Expr(cc.Args[2]), "cipherSuiteOk"), "R-PROV", "tls.pickCipherSuite", "the usability callback is cipherSuiteOk", w.InstrPos(calls[0]), Expr(cc.Args[2]))
		}
	}

	// ---------------- downgrade sentinel, server
	if fn := w.Fn("(*" + pkg + ".serverHandshakeState).processClientHello"); fn != nil {
		maxV := "(*tls.Config).maxSupportedVersion(hs.c.config)"
		isCanaryCopy := func(in ssa.Instruction, which string) bool {
			cl := isBuiltinCall(in, "copy")
			if cl == nil {
				return false
			}
			dst, src := Expr(cl.Call.Args[0]), Expr(cl.Call.Args[1])
			return strings.HasSuffix(dst, "hs.hello.random[24:]") && strings.Contains(src, "DOWNGRD") && strings.Contains(src, which)
		}
		var c12, c11 []ssa.Instruction
		for _, b := range fn.Blocks {
			for _, in := range b.Instrs {
				if isCanaryCopy(in, `\x01`) {
					c12 = append(c12, in)
				} else if isCanaryCopy(in, `\x00`) {
					c11 = append(c11, in)
				}
			}
		}
		c.Check(len(c12) == 1 && len(c11) == 1, "R-PRE", "tls.processClientHello", "one TLS1.2 and one TLS1.1 canary write into random[24:]", w.Pos(fn.Pos()), fmt.Sprint(len(c12), len(c11)))
		any := func(in ssa.Instruction) bool { return isCanaryCopy(in, "") }
		c.Cut(CutSpec{Rule: "R-PRE", Fn: fn, Label: "whenever maxVers >= TLS1.2 and vers < maxVers a canary is written (RFC 8446 4.1.3)", Target: SuccessReturn(0, nil), Barrier: any,
			Cut: AnyF(factExpr("lt", maxV, "771"), factExpr("ge", "hs.c.vers", maxV))})
		flag := factExpr("true", "tls.testingOnlyForceDowngradeCanary", "")
		for _, in := range append(append([]ssa.Instruction{}, c12...), c11...) {
			c.Cut(CutSpec{Rule: "R-CUT", Fn: fn, Label: "a canary is written only for vers < maxVers (or the testing flag): " + w.InstrPos(in)[strings.LastIndex(w.InstrPos(in), "/")+1:], Target: isInstr(in), Cut: AnyF(factExpr("lt", "hs.c.vers", maxV), flag)})
		}
		for _, in := range c12 {
			c.Cut(CutSpec{Rule: "R-CUT", Fn: fn, Label: "the TLS 1.2 canary is written only for vers == TLS1.2", Target: isInstr(in), Cut: factExpr("eq", "hs.c.vers", "771")})
		}
		for _, in := range c11 {
			c.Cut(CutSpec{Rule: "R-CUT", Fn: fn, Label: "the TLS 1.1 canary is written only for vers != TLS1.2", Target: isInstr(in), Cut: factExpr("ne", "hs.c.vers", "771")})
		}
		// the random bytes drawn afterwards leave the canary in place
		for _, in := range callsIn(fn, "io.ReadFull") {
			e := Expr(callCommon(in).Args[1])
			c.Check(e == "φ(hs.hello.random|hs.hello.random[:24])" || e == "φ(hs.hello.random[:24]|hs.hello.random)", "R-PRE", "tls.processClientHello", "random fill covers 24 octets when a canary was written", w.InstrPos(in), e)
		}
	} else {
		c.Undecided("R-PRE", "processClientHello", "anchor", "-", "not found")
	}
	// ---------------- downgrade sentinel, client
	if fn := w.Fn("(*" + pkg + ".Conn).clientHandshake"); fn != nil {
		maxV := "(*tls.Config).maxSupportedVersion(c.config)"
		canary := func(op, s string) FP {
			return func(f Fact) bool {
				if f.Op != op || f.Y == nil {
					return false
				}
				k, ok := f.Y.(*ssa.Const)
				if !ok || k.Value == nil || k.Value.Kind() != constant.String || constant.StringVal(k.Value) != s {
					return false
				}
				x := Expr(f.X)
				return strings.HasPrefix(x, "string(") && strings.HasSuffix(x, ".random[24:])") && strings.Contains(x, "serverHelloMsg")
			}
		}
		n := 0
		for _, b := range fn.Blocks {
			for _, in := range b.Instrs {
				cc := callCommon(in)
				if cc == nil || cc.StaticCallee() == nil {
					continue
				}
				nm := FuncName(cc.StaticCallee())
				if nm != "(*"+expand(pkg)+".clientHandshakeState).handshake" && nm != "(*"+expand(pkg)+".clientHandshakeStateTLS13).handshake" {
					continue
				}
				n++
				c.Sites++
				lab := short(nm)
				c.Cut(CutSpec{Rule: "R-PRE", Fn: fn, Label: lab + " is reached only if not (max==TLS1.3, vers<=TLS1.2, TLS1.2 canary)", Target: isInstr(in),
					Cut: AnyF(factExpr("ne", maxV, "772"), factExpr("gt", "c.vers", "771"), canary("ne", "DOWNGRD\x01"))})
				c.Cut(CutSpec{Rule: "R-PRE", Fn: fn, Label: lab + " is reached only if not (max==TLS1.3, vers<=TLS1.2, TLS1.1 canary)", Target: isInstr(in),
					Cut: AnyF(factExpr("ne", maxV, "772"), factExpr("gt", "c.vers", "771"), canary("ne", "DOWNGRD\x00"))})
				c.Cut(CutSpec{Rule: "R-PRE", Fn: fn, Label: lab + " is reached only if not (max==TLS1.2, vers<=TLS1.1, TLS1.1 canary)", Target: isInstr(in),
					Cut: AnyF(factExpr("ne", maxV, "771"), factExpr("gt", "c.vers", "770"), canary("ne", "DOWNGRD\x00"))})
				c.Cut(CutSpec{Rule: "R-PRE", Fn: fn, Label: lab + " is reached only past pickTLSVersion == nil", Target: isInstr(in), Cut: IsNil(ResultOf(-1, "(*"+pkg+".Conn).pickTLSVersion"))})
			}
		}
		c.Check(n == 2, "R-PRE", "tls.clientHandshake", "both handshake() calls found", w.Pos(fn.Pos()), fmt.Sprint(n))
	}
	if v, ok := w.ConstOf(pkg, "downgradeCanaryTLS12"); ok {
		c.Check(constant.StringVal(v) == "DOWNGRD\x01", "R-TABLE", "tls.downgradeCanaryTLS12", "RFC 8446 4.1.3 value", "-", v.ExactString())
	}
	if v, ok := w.ConstOf(pkg, "downgradeCanaryTLS11"); ok {
		c.Check(constant.StringVal(v) == "DOWNGRD\x00", "R-TABLE", "tls.downgradeCanaryTLS11", "RFC 8446 4.1.3 value", "-", v.ExactString())
	}

	// ---------------- ALPN
	if fn := w.Fn(pkg + ".mutualProtocol"); fn != nil {
		c.Cut(CutSpec{Rule: "R-VSET", Fn: fn, Label: "returns only a protocol present in both lists", Target: nonEmptyStrReturn(0), Cut: factExpr("eq", "preferenceProtos[(φ(-1|↺)+1)]", "protos[(φ(-1|↺)+1)]")})
	}
	srvALPN := "tls.mutualProtocol(hs.clientHello.alpnProtocols,hs.c.config.NextProtos)"
	for _, f := range []string{"serverHelloMsg.alpnProtocol", "encryptedExtensionsMsg.alpnProtocol", "Conn.clientProtocol"} {
		n := 0
		for _, wr := range fw[f] {
			if inTests(wr.Fn) || strings.Contains(FuncName(wr.Fn), ").unmarshal") {
				continue
			}
			n++
			c.Sites++
			e := Expr(wr.Val)
			if e == srvALPN {
				c.OK("R-OWN", short(FuncName(wr.Fn)), fmt.Sprintf("write of %s #%d stores the protocol chosen from both lists", f, n), w.InstrPos(wr.In), e)
				continue
			}
			// client side: the server's protocol, accepted only if it was offered
			if f == "Conn.clientProtocol" && strings.HasSuffix(e, ".alpnProtocol") {
				c.Cut(CutSpec{Rule: "R-OWN", Fn: wr.Fn, Label: fmt.Sprintf("write of %s #%d stores the server's protocol only if the client offered it", f, n), Target: isInstr(wr.In),
					Cut: func(f Fact) bool {
						if f.Op != "ne" || f.Y == nil || Expr(f.Y) != `""` {
							return false
						}
						cl := callOf(f.X)
						if cl == nil || !strings.HasSuffix(calleeName(&cl.Call), ".mutualProtocol") || Expr(cl.Call.Args[1]) != "hs.hello.alpnProtocols" {
							return false
						}
						al := sliceLitOf(cl.Call.Args[0])
						if al == nil {
							return false
						}
						n, ok := 0, false
						for _, r := range *al.Referrers() {
							if ia, isIA := r.(*ssa.IndexAddr); isIA {
								for _, r2 := range *ia.Referrers() {
									if st, isSt := r2.(*ssa.Store); isSt {
										n++
										ok = Expr(st.Val) == e && Expr(ia.Index) == "0"
									}
								}
							}
						}
						return n == 1 && ok
					}})
				continue
			}
			c.Fail("R-OWN", short(FuncName(wr.Fn)), fmt.Sprintf("write of %s #%d stores a negotiated protocol", f, n), w.InstrPos(wr.In), e)
		}
		c.Check(n >= 1, "R-OWN", f, "writers enumerated", "-", fmt.Sprint(n))
	}

	// ---------------- key agreement siblings
	c.premasterSiblings(pkg)
}

func expandAll(names []string) []string {
	var out []string
	for _, n := range names {
		out = append(out, expand(n))
	}
	return out
}

// premasterSiblings: for key agreements in which both sides compute the
// premaster secret, the client's and the server's value come from the same
// call spine (callee names along the receiver chain).
func (c *Ctx) premasterSiblings(pkg string) {
	w := c.W
	fw := w.FieldWrites()
	var spine func(v ssa.Value, typ string, depth int) string
	spine = func(v ssa.Value, typ string, depth int) string {
		if depth > 4 {
			return "…"
		}
		v = stripConv(v)
		if fa := loadedField(v); fa != nil {
			f := fieldName(fa)
			var vals []string
			for _, wr := range fw[f] {
				if wr.Kind == "store" && !isNilConst(wr.Val) {
					vals = append(vals, spine(wr.Val, typ, depth+1))
				}
			}
			sort.Strings(vals)
			vals = uniq(vals)
			if len(vals) == 1 {
				return vals[0]
			}
			return "field:" + f + "{" + strings.Join(vals, ",") + "}"
		}
		if ex, ok := v.(*ssa.Extract); ok {
			return spine(ex.Tuple, typ, depth)
		}
		cl := callOf(v)
		if cl == nil {
			return "·"
		}
		name := calleeName(&cl.Call)
		var recv ssa.Value
		if cl.Call.IsInvoke() {
			return name
		} else if len(cl.Call.Args) > 0 && cl.Call.Signature().Recv() != nil {
			recv = cl.Call.Args[0]
		}
		if recv != nil {
			if s := spine(recv, typ, depth+1); s != "·" {
				return name + "∘" + s
			}
		}
		return name
	}
	n := 0
	for _, typ := range []string{"dheKeyAgreement", "ecdheKeyAgreement"} {
		srv := w.Fn("(*" + pkg + "." + typ + ").processClientKeyExchange")
		cli := w.Fn("(*" + pkg + "." + typ + ").generateClientKeyExchange")
		if srv == nil || cli == nil {
			c.Undecided("R-SIBLING", typ, "anchor", "-", "methods not found")
			continue
		}
		n++
		c.Sites += 2
		side := func(fn *ssa.Function) []string {
			var out []string
			for v := range returnClosure(fn, 0) {
				if isNilConst(v) {
					continue
				}
				if _, isPhi := v.(*ssa.Phi); isPhi {
					continue
				}
				out = append(out, spine(v, typ, 0))
			}
			sort.Strings(out)
			return uniq(out)
		}
		s, cl := side(srv), side(cli)
		c.Check(len(s) == 1 && len(cl) == 1 && s[0] == cl[0] && s[0] != "·", "R-SIBLING", "tls."+typ, "client and server derive the premaster secret through the same calls", w.Pos(srv.Pos()), fmt.Sprintf("server %v ; client %v", s, cl))
	}
	c.Check(n == 2, "R-SIBLING", pkg, "both computing key agreements compared", "-", fmt.Sprint(n))
	_ = token.NoPos
}

func uniq(s []string) []string {
	var out []string
	for i, x := range s {
		if i == 0 || x != s[i-1] {
			out = append(out, x)
		}
	}
	return out
}
