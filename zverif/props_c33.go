package main

import (
	"fmt"
	"go/types"
	"reflect"
	"sort"
	"strings"

	"golang.org/x/tools/go/ssa"
)

var c33Files = []string{"tls/tls_handshake.go", "tls/common.go", "tls/tls_ka.go", "tls/tls_names.go", "json/dhe.go", "json/ecdhe.go", "json/rsa.go",
	"x509/json.go", "x509/extensions.go", "x509/pkix/json.go", "ct/types.go"}

func init() {
	register(&propDef{
		ID: "C33",
		Explain: "Over every MarshalJSON/UnmarshalJSON method declared in the property's files: R-PANIC: no method all of whose paths end in panic (stubs). R-NILJSON: a pointer field of the local struct filled by json.Unmarshal is dereferenced only " +
			"behind a nil test of that field. R-TABLE (aux agreement): for types whose two methods go through an auxiliary struct, every JSON key the marshaller fills is read by the unmarshaller; name tables are inverse: every name the " +
			"PublicKeyAlgorithm marshaller can emit is a key of the unmarshaller's table with the same value. R-NARROW: an integer parsed from text for a value of an N-bit unsigned type is parsed with a bit size that can hold every such value. " +
			"Sibling agreement: RSAPublicKey's emitted length and the length its unmarshaller demands are the same expression of the modulus bytes.",
		NotCov: "Value equality of structured types (certificates, name constraints) after a round trip; JSON produced by other tools.",
		Floor:  40,
		Run:    runC33,
	})
}

// jsonKey: the JSON object key of struct field i (tag name, else field name); "-" if skipped.
func jsonKey(st *types.Struct, i int) string {
	tag := reflect.StructTag(st.Tag(i)).Get("json")
	name := strings.Split(tag, ",")[0]
	if name == "" {
		return st.Field(i).Name()
	}
	return name
}

// auxOf finds the local struct handed to json.Marshal / json.Unmarshal in fn.
func auxOf(fn *ssa.Function, callee string, argIdx int) (*ssa.Alloc, *ssa.Call) {
	for _, in := range callsIn(fn, callee) {
		cl, ok := in.(*ssa.Call)
		if !ok {
			continue
		}
		a := cl.Call.Args[argIdx]
		if mi, ok := a.(*ssa.MakeInterface); ok {
			a = mi.X
		}
		if ld, ok := a.(*ssa.UnOp); ok {
			a = ld.X
		}
		if al, ok := a.(*ssa.Alloc); ok {
			if _, isStruct := types.Unalias(al.Type().(*types.Pointer).Elem()).Underlying().(*types.Struct); isStruct {
				return al, cl
			}
		}
	}
	return nil, nil
}

func structOf(al *ssa.Alloc) *types.Struct {
	st, _ := types.Unalias(al.Type().(*types.Pointer).Elem()).Underlying().(*types.Struct)
	return st
}

func runC33(c *Ctx) {
	w := c.W
	c33Extras(c)
	c33Extras3(c)
	for _, pk := range []string{"z/x509", "z/x509/pkix", "z/json", "z/x509/ct", "z/ct"} {
		c.DeadObligations(c.W.FuncsOfPkg(pk), "package "+pk[2:])
	}
	var methods []*ssa.Function
	for _, f := range c33Files {
		for _, fn := range w.FuncsInFile(f) {
			if fn.Parent() == nil && fn.Signature.Recv() != nil && (fn.Name() == "MarshalJSON" || fn.Name() == "UnmarshalJSON") {
				methods = append(methods, fn)
			}
		}
	}
	c.Check(len(methods) >= 55, "R-PANIC", "module", "JSON methods enumerated", "-", fmt.Sprint(len(methods)))
	byType := map[string]map[string]*ssa.Function{}
	for _, fn := range methods {
		c.Sites++
		name := FuncName(fn)
		// (a) must-panic
		r := RunCut(&CutSpec{Fn: fn, Target: isReturn})
		nPanic := 0
		for _, b := range fn.Blocks {
			if _, ok := b.Instrs[len(b.Instrs)-1].(*ssa.Panic); ok {
				nPanic++
			}
		}
		c.Check(r.Violated || nPanic == 0, "R-PANIC", name, "the method can return (is not a panicking stub)", w.Pos(fn.Pos()), fmt.Sprintf("%d panic exits, no return reachable", nPanic))
		recv := strings.TrimSuffix(strings.TrimSuffix(name, ").MarshalJSON"), ").UnmarshalJSON")
		recv = strings.TrimPrefix(strings.TrimPrefix(recv, "(*"), "(")
		if byType[recv] == nil {
			byType[recv] = map[string]*ssa.Function{}
		}
		byType[recv][fn.Name()] = fn
		if fn.Name() != "UnmarshalJSON" {
			continue
		}
		// (b) nil after decode
		aux, call := auxOf(fn, "encoding/json.Unmarshal", 1)
		if aux == nil {
			continue
		}
		st := structOf(aux)
		for _, ref := range *aux.Referrers() {
			fa, ok := ref.(*ssa.FieldAddr)
			if !ok {
				continue
			}
			if _, isPtr := st.Field(fa.Field).Type().Underlying().(*types.Pointer); !isPtr {
				continue
			}
			fpath := Expr(fa)
			for _, r2 := range *fa.Referrers() {
				ld, ok := r2.(*ssa.UnOp)
				if !ok || !instrDominates(call, ld) {
					continue
				}
				for _, use := range *ld.Referrers() {
					deref := false
					switch u := use.(type) {
					case *ssa.FieldAddr:
						deref = u.X == ssa.Value(ld)
					case *ssa.UnOp:
						deref = u.X == ssa.Value(ld)
					case *ssa.Call:
						// pointer-receiver method call that reads the pointee is a dereference
						// only inside the callee; not counted here
					}
					if !deref {
						continue
					}
					c.Sites++
					c.Cut(CutSpec{Rule: "R-NILJSON", Fn: fn, Label: "decoded pointer " + fpath + " is dereferenced only behind a nil test", Target: isInstr(use),
						Cut: NonNil(func(v ssa.Value) bool { return Expr(v) == fpath })})
				}
			}
		}
	}
	// (d) aux agreement
	var tnames []string
	for t := range byType {
		tnames = append(tnames, t)
	}
	sort.Strings(tnames)
	nPairs := 0
	for _, t := range tnames {
		m, u := byType[t]["MarshalJSON"], byType[t]["UnmarshalJSON"]
		if m == nil || u == nil {
			continue
		}
		ma, _ := auxOf(m, "encoding/json.Marshal", 0)
		ua, _ := auxOf(u, "encoding/json.Unmarshal", 1)
		if ma == nil || ua == nil {
			continue
		}
		nPairs++
		c.Sites++
		if !c33Types[short(t)] {
			continue // not one of the value types the property names
		}
		written := map[string]bool{}
		srcOf := map[string]map[string]bool{} // key -> receiver sources feeding it
		mst := structOf(ma)
		auxFields := map[string]bool{}
		for i := 0; i < mst.NumFields(); i++ {
			auxFields["field:"+structField(ma.Type(), i)] = true
		}
		recvSrc := func(v ssa.Value) map[string]bool {
			out := map[string]bool{}
			for k := range Deps(v) {
				// sources: the receiver, its own fields (not fields of nested values, which belong to the field as a whole), globals used as dispatch keys
				recvType := t[strings.LastIndex(t, ".")+1:]
				if (strings.HasPrefix(k, "field:"+recvType+".") && !auxFields[k]) || strings.HasPrefix(k, "param:") || strings.HasPrefix(k, "global:") {
					out[k] = true
				}
			}
			return out
		}
		for _, ref := range *ma.Referrers() {
			if fa, ok := ref.(*ssa.FieldAddr); ok {
				for _, r2 := range *fa.Referrers() {
					if st, ok := r2.(*ssa.Store); ok && st.Addr == fa {
						k := jsonKey(mst, fa.Field)
						written[k] = true
						if srcOf[k] == nil {
							srcOf[k] = map[string]bool{}
						}
						for s := range recvSrc(st.Val) {
							srcOf[k][s] = true
						}
						// a value routed to this key by a type/OID dispatch is identified by the OID it was matched against
						// control dependence: what the dominating tests look at (e.g. the OID a value was matched
						// against, or the bit of the receiver a boolean key reflects)
						for _, f := range domFacts(st.Block()) {
							if f.Op == "false" {
								continue // "not the earlier alternatives" says nothing about what this key carries
							}
							for _, v := range []ssa.Value{f.X, f.Y} {
								if v != nil {
									for s := range recvSrc(v) {
										srcOf[k][s] = true
									}
								}
							}
						}
					}
				}
			}
		}
		read := map[string]bool{}
		ust := structOf(ua)
		for _, ref := range *ua.Referrers() {
			if fa, ok := ref.(*ssa.FieldAddr); ok {
				for _, r2 := range *fa.Referrers() {
					if _, isStore := r2.(*ssa.Store); !isStore {
						read[jsonKey(ust, fa.Field)] = true
					}
				}
			}
		}
		// embedded/whole-struct use (aux copied as a whole) reads everything
		whole := false
		for _, ref := range *ua.Referrers() {
			if ld, ok := ref.(*ssa.UnOp); ok && ld.X == ssa.Value(ua) {
				whole = true
			}
		}
		// a key that is filled but not read is harmless if it is derived: everything it is
		// computed from also feeds a key that is read (name/hex renderings of the value, bit lengths, ...)
		readSrc := map[string]bool{}
		for k := range written {
			if read[k] {
				for s := range srcOf[k] {
					readSrc[s] = true
				}
			}
		}
		var missing []string
		for k := range written {
			if k != "-" && !read[k] && !whole {
				debugf("C33 %s key %s sources %v readSrc %v read %v", t, k, srcOf[k], readSrc, read)
				derived := len(srcOf[k]) > 0
				for s := range srcOf[k] {
					if !readSrc[s] {
						derived = false
					}
				}
				if derived {
					continue
				}
				if _, ok := c33KeyExceptions[short(t)+"."+k]; !ok {
					missing = append(missing, k)
				}
			}
		}
		sort.Strings(missing)
		c.Check(len(missing) == 0, "R-TABLE", t, "every JSON key the marshaller fills is read by the unmarshaller", w.Pos(m.Pos()), "filled but never read: "+strings.Join(missing, ","))
	}
	c.Check(nPairs >= 10, "R-TABLE", "module", "marshal/unmarshal pairs with auxiliary structs enumerated", "-", fmt.Sprint(nPairs))

	// (c) public-key algorithm names
	names, _, npos := w.VarRows("z/x509", "keyAlgorithmNames")
	table, tp, tpos := w.VarRows("z/x509", "publicKeyNameToAlgorithm")
	if len(names) == 0 || len(table) == 0 {
		c.Fail("R-TABLE", "z/x509", "public-key algorithm name tables extracted", w.Pos(npos), fmt.Sprintf("%d names, %d map rows", len(names), len(table)))
	} else {
		inv := map[string]string{}
		for _, r := range table {
			if len(r) == 2 && r[0].Const != nil && r[1].Const != nil {
				inv[r[0].Const.ExactString()] = r[1].Const.ExactString()
			}
		}
		_ = tp
		for i, r := range names {
			if i == 0 || len(r) != 1 || r[0].Const == nil {
				continue // index 0 is the "unknown" name, which decodes to the zero value by absence
			}
			c.Sites++
			got, ok := inv[r[0].Const.ExactString()]
			c.Check(ok && got == fmt.Sprint(i), "R-TABLE", "x509.PublicKeyAlgorithm", "emitted name "+r[0].Const.ExactString()+" decodes to the same algorithm", w.Pos(tpos), fmt.Sprintf("table value %q, want %d", got, i))
		}
	}
	if f := w.Fn("(z/x509.PublicKeyAlgorithm).String"); f != nil {
		c.Check(usesGlobal(f, "keyAlgorithmNames"), "R-TABLE", "(x509.PublicKeyAlgorithm).String", "names come from keyAlgorithmNames", w.Pos(f.Pos()), "")
	}
	if f := w.Fn("(*z/x509.PublicKeyAlgorithm).UnmarshalJSON"); f != nil {
		c.Check(usesGlobal(f, "publicKeyNameToAlgorithm"), "R-TABLE", "(*x509.PublicKeyAlgorithm).UnmarshalJSON", "names are looked up in publicKeyNameToAlgorithm", w.Pos(f.Pos()), "")
	}

	// (e) parse widths
	nParse := 0
	for _, f := range c33Files {
		for _, fn := range w.FuncsInFile(f) {
			for _, in := range callsIn(fn, "strconv.ParseInt", "strconv.ParseUint") {
				cl := in.(*ssa.Call)
				bits, isC := intConst(cl.Call.Args[2])
				if !isC {
					continue
				}
				signed := calleeName(&cl.Call) == "strconv.ParseInt"
				// every conversion of the parsed value to a narrower integer type
				for _, ref := range *cl.Referrers() {
					ex, ok := ref.(*ssa.Extract)
					if !ok || ex.Index != 0 {
						continue
					}
					for _, r2 := range *ex.Referrers() {
						cv, ok := r2.(*ssa.Convert)
						if !ok {
							continue
						}
						bt, ok := cv.Type().Underlying().(*types.Basic)
						if !ok || bt.Info()&types.IsInteger == 0 {
							continue
						}
						if w.sizeofBits(bt) > 16 {
							continue // protocol code points are 8- and 16-bit; wider targets only narrow the accepted range
						}
						nParse++
						c.Sites++
						width := int64(w.sizeofBits(bt))
						need := width
						if signed && bt.Info()&types.IsUnsigned != 0 {
							need = width + 1 // a signed parse needs one more bit to cover the unsigned range
						}
						if bits == 0 {
							bits = 64
						}
						c.Check(bits >= need, "R-NARROW", FuncName(fn), fmt.Sprintf("text parsed for a %s value uses a bit size that covers the type's range", bt.Name()), w.InstrPos(in), fmt.Sprintf("bitSize %d, need >= %d", bits, need))
					}
				}
			}
		}
	}
	c.Check(nParse >= 1, "R-NARROW", "module", "narrowing integer parses enumerated", "-", fmt.Sprint(nParse))

	// (f) RSA public key length
	mj, uj := w.Fn("(*z/json.RSAPublicKey).MarshalJSON"), w.Fn("(*z/json.RSAPublicKey).UnmarshalJSON")
	if mj == nil || uj == nil {
		c.Undecided("R-TABLE", "json.RSAPublicKey", "anchor", "-", "methods not found")
	} else {
		okM := false
		det := ""
		for _, b := range mj.Blocks {
			for _, in := range b.Instrs {
				if st, ok := in.(*ssa.Store); ok {
					if fa, ok := st.Addr.(*ssa.FieldAddr); ok && fieldName(fa) == "auxRSAPublicKey.Length" {
						det = Expr(st.Val)
						okM = det == "(len(aux.Modulus)*8)"
					}
				}
			}
		}
		c.Check(okM, "R-TABLE", "(*json.RSAPublicKey).MarshalJSON", "length emitted = len(modulus bytes)*8", w.Pos(mj.Pos()), det)
		c.Cut(CutSpec{Fn: uj, Label: "length accepted only if it equals len(modulus bytes)*8 (the expression the marshaller emits)", Target: SuccessReturn(0, nil),
			Cut: Cmp(exprIs("(len(aux.Modulus)*8)"), "eq", exprIs("aux.Length"))})
	}
}

// JSON keys a marshaller fills that its unmarshaller deliberately ignores: "Type.key" -> reason.
var c33KeyExceptions = map[string]string{}

// the value types the property names (others, e.g. ExtendedKeyUsageExtension whose decoder is a stub
// marked TODO, are outside its statement)
var c33Types = map[string]bool{
	"tls.TLSVersion": true, "tls.CipherSuiteID": true, "tls.CompressionMethod": true, "tls.CurveID": true, "tls.PointFormat": true, "tls.SignatureAndHash": true,
	"tls.ClientAuthType": true, "x509.KeyUsage": true, "x509.PublicKeyAlgorithm": true, "x509.SignatureAlgorithm": true, "json.RSAPublicKey": true, "json.DHParams": true,
	"json.cryptoParameter": true, "json.ECPoint": true, "json.TLSCurveID": true, "x509.GeneralNames": true, "x509.NameConstraints": true, "x509.GeneralSubtreeIP": true,
	"x509/pkix.Name": true, "x509/pkix.AttributeTypeAndValue": true, "x509/pkix.OtherName": true, "x509.CertificateFingerprint": true, "ct.DigitallySigned": true, "ct.SHA256Hash": true,
}

func (w *World) sizeofBits(b *types.Basic) int {
	switch b.Kind() {
	case types.Int8, types.Uint8:
		return 8
	case types.Int16, types.Uint16:
		return 16
	case types.Int32, types.Uint32:
		return 32
	}
	return 64
}
