package main

// Integer lower/upper bounds from the shape of the computation and the branch facts that dominate it (R-SIGN).
// The domain is an interval with possibly missing ends; transfer functions cover constants, + - unary minus,
// division and remainder by positive constants, conversions from unsigned types, len/cap, the clock and date parts
// returned by package time, and merges (each incoming value is bounded under the facts of its own edge).

import (
	"go/constant"
	"go/token"
	"go/types"
	"math"

	"golang.org/x/tools/go/ssa"
)

type ival struct {
	lo, hi     int64
	hasLo, hasHi bool
}

func constIval(k *ssa.Const) (ival, bool) {
	if k == nil || k.Value == nil || k.Value.Kind() != constant.Int {
		return ival{}, false
	}
	v, ok := constant.Int64Val(k.Value)
	if !ok {
		return ival{}, false
	}
	return ival{v, v, true, true}, true
}

func addSat(a, b int64) (int64, bool) {
	if (b > 0 && a > math.MaxInt64-b) || (b < 0 && a < math.MinInt64-b) {
		return 0, false
	}
	return a + b, true
}

// edgeFacts: facts that hold when control goes from pred to succ.
func edgeFacts(pred, succ *ssa.BasicBlock) []Fact {
	fs := domFacts(pred)
	if ifi, ok := pred.Instrs[len(pred.Instrs)-1].(*ssa.If); ok {
		if pred.Succs[0] == succ && pred.Succs[1] != succ {
			fs = append(fs, condFacts(ifi.Cond, true, idRes)...)
		} else if pred.Succs[1] == succ && pred.Succs[0] != succ {
			fs = append(fs, condFacts(ifi.Cond, false, idRes)...)
		}
	}
	return fs
}

func refine(iv ival, v ssa.Value, facts []Fact) ival {
	for _, f := range facts {
		op := f.Op
		var k *ssa.Const
		if f.X == v {
			k, _ = f.Y.(*ssa.Const)
		} else if f.Y == v {
			k, _ = f.X.(*ssa.Const)
			op = swapOp[op]
		}
		ki, ok := constIval(k)
		if !ok {
			continue
		}
		c := ki.lo
		switch op {
		case "ge":
			if !iv.hasLo || c > iv.lo {
				iv.lo, iv.hasLo = c, true
			}
		case "gt":
			if c < math.MaxInt64 && (!iv.hasLo || c+1 > iv.lo) {
				iv.lo, iv.hasLo = c+1, true
			}
		case "le":
			if !iv.hasHi || c < iv.hi {
				iv.hi, iv.hasHi = c, true
			}
		case "lt":
			if c > math.MinInt64 && (!iv.hasHi || c-1 < iv.hi) {
				iv.hi, iv.hasHi = c-1, true
			}
		case "eq":
			iv = ival{c, c, true, true}
		}
	}
	return iv
}

var timeNonNeg = map[string]map[int]bool{
	"(time.Time).Clock": {0: true, 1: true, 2: true},
	"(time.Time).Date":  {1: true, 2: true},
}

func intervalOf(v ssa.Value, facts []Fact, depth int) ival {
	var iv ival
	if depth > 12 {
		return iv
	}
	switch t := v.(type) {
	case *ssa.Const:
		if c, ok := constIval(t); ok {
			return c
		}
	case *ssa.Convert:
		if b, ok := t.X.Type().Underlying().(*types.Basic); ok && b.Info()&types.IsUnsigned != 0 {
			iv = ival{lo: 0, hasLo: true}
		} else if b, ok := t.X.Type().Underlying().(*types.Basic); ok && b.Info()&types.IsInteger != 0 {
			if tb, ok := t.Type().Underlying().(*types.Basic); ok && tb.Info()&types.IsInteger != 0 && tb.Info()&types.IsUnsigned == 0 && sizeOfBasic(tb) >= sizeOfBasic(b) {
				iv = intervalOf(t.X, facts, depth+1)
			}
		}
	case *ssa.ChangeType:
		iv = intervalOf(t.X, facts, depth+1)
	case *ssa.Call:
		if bi, ok := t.Call.Value.(*ssa.Builtin); ok && (bi.Name() == "len" || bi.Name() == "cap") {
			iv = ival{lo: 0, hasLo: true}
		}
	case *ssa.Extract:
		if cl, ok := t.Tuple.(*ssa.Call); ok {
			if m := timeNonNeg[calleeName(&cl.Call)]; m[t.Index] {
				iv = ival{lo: 0, hasLo: true}
			}
		}
	case *ssa.UnOp:
		if t.Op == token.SUB {
			x := intervalOf(t.X, facts, depth+1)
			if x.hasHi && x.hi > math.MinInt64 {
				iv.lo, iv.hasLo = -x.hi, true
			}
			if x.hasLo && x.lo > math.MinInt64 {
				iv.hi, iv.hasHi = -x.lo, true
			}
		}
	case *ssa.BinOp:
		x, y := intervalOf(t.X, facts, depth+1), intervalOf(t.Y, facts, depth+1)
		switch t.Op {
		case token.ADD:
			if x.hasLo && y.hasLo {
				iv.lo, iv.hasLo = addSat(x.lo, y.lo)
			}
			if x.hasHi && y.hasHi {
				iv.hi, iv.hasHi = addSat(x.hi, y.hi)
			}
		case token.SUB:
			if x.hasLo && y.hasHi && y.hi > math.MinInt64 {
				iv.lo, iv.hasLo = addSat(x.lo, -y.hi)
			}
			if x.hasHi && y.hasLo && y.lo > math.MinInt64 {
				iv.hi, iv.hasHi = addSat(x.hi, -y.lo)
			}
		case token.QUO:
			if y.hasLo && y.hasHi && y.lo == y.hi && y.lo > 0 {
				if x.hasLo {
					iv.lo, iv.hasLo = x.lo/y.lo, true
				}
				if x.hasHi {
					iv.hi, iv.hasHi = x.hi/y.lo, true
				}
			}
		case token.REM:
			if y.hasLo && y.hasHi && y.lo == y.hi && y.lo > 0 {
				// the sign of the remainder follows the dividend
				if x.hasLo && x.lo >= 0 {
					iv = ival{0, y.lo - 1, true, true}
				} else if x.hasHi && x.hi <= 0 {
					iv = ival{-(y.lo - 1), 0, true, true}
				} else {
					iv = ival{-(y.lo - 1), y.lo - 1, true, true}
				}
			}
		case token.AND:
			if y.hasLo && y.lo >= 0 && y.hasHi {
				iv = ival{0, y.hi, true, true}
			} else if x.hasLo && x.lo >= 0 && x.hasHi {
				iv = ival{0, x.hi, true, true}
			}
		case token.SHR:
			if x.hasLo && x.lo >= 0 {
				iv = ival{lo: 0, hasLo: true}
			}
		}
	case *ssa.Phi:
		first := true
		induct := false
		for i, e := range t.Edges {
			pred := t.Block().Preds[i]
			// counter induction: an edge that carries this very variable plus a non-negative constant cannot lower
			// the lower bound the other edges establish (the upper bound is dropped)
			if bo, ok := e.(*ssa.BinOp); ok && bo.Op == token.ADD && bo.X == ssa.Value(t) {
				if k, ok := constIval(asConst(bo.Y)); ok && k.lo >= 0 {
					induct = true
					continue
				}
			}
			ei := intervalOf(e, edgeFacts(pred, t.Block()), depth+1)
			if first {
				iv, first = ei, false
				continue
			}
			if !ei.hasLo || (iv.hasLo && ei.lo < iv.lo) {
				iv.lo, iv.hasLo = ei.lo, ei.hasLo && iv.hasLo
			}
			if !ei.hasHi || (iv.hasHi && ei.hi > iv.hi) {
				iv.hi, iv.hasHi = ei.hi, ei.hasHi && iv.hasHi
			}
		}
		if induct {
			iv.hasHi = false
			if first {
				iv = ival{}
			}
		}
	}
	return refine(iv, v, facts)
}

func sizeOfBasic(b *types.Basic) int {
	switch b.Kind() {
	case types.Int8, types.Uint8:
		return 1
	case types.Int16, types.Uint16:
		return 2
	case types.Int32, types.Uint32:
		return 4
	}
	return 8
}

// provedNonNeg: v >= 0 at instruction at.
func provedNonNeg(v ssa.Value, at ssa.Instruction) (bool, ival) {
	iv := intervalOf(v, domFacts(at.Block()), 0)
	return iv.hasLo && iv.lo >= 0, iv
}

func asConst(v ssa.Value) *ssa.Const {
	k, _ := v.(*ssa.Const)
	return k
}
