package main

import (
	"encoding/json"
	"fmt"
	"os"

	"golang.org/x/tools/go/ssa"
)

// thoroughExtras: the deeper tier.
//  1. the whole property is decided a second time on the GOARCH=386 build (other int width, files
//     behind build constraints); an obligation whose verdict differs, or that exists only there,
//     is added to the result.
//  2. the sensitivity report produced by run.sh (each recorded seeded regression of this property
//     re-applied to a scratch copy of the current tree and checked) is attached to the evidence.
func thoroughExtras(c *Ctx, p *propDef) {
	w2, err := Load(c.W.Dir, []string{"GOARCH=386"}, nil)
	if err != nil {
		c.Undecided("R-CONFIG", "GOARCH=386", "the repository loads and type-checks for linux/386", "-", err.Error())
	} else {
		c2 := &Ctx{W: w2, Prop: c.Prop, Tier: c.Tier, FnsSeen: map[string]bool{}, extra: map[string]any{}}
		extraNonNil = nil
		nonNilSummary = map[*ssa.Function]int{}
		unsignedTerms = map[string]bool{}
		p.Run(c2)
		extraNonNil = nil
		nonNilSummary = map[*ssa.Function]int{}
		have := map[string]string{}
		for _, o := range c.Obls {
			have[o.Key()] = o.Verdict
		}
		same, diff := 0, 0
		for _, o := range c2.Obls {
			if v, ok := have[o.Key()]; ok && v == o.Verdict {
				same++
				continue
			}
			diff++
			o.Construct += " [GOARCH=386]"
			c.Obls = append(c.Obls, o)
		}
		c.configs = append(c.configs, "linux/386, no build tags")
		c.Infof("GOARCH=386: %d obligations, %d with the same verdict as on amd64, %d differing or new (added above)", len(c2.Obls), same, diff)
		c.Sites += c2.Sites
	}
	if f := os.Getenv("ZV_SENSITIVITY"); f != "" {
		if b, err := os.ReadFile(f); err == nil {
			var rep any
			if json.Unmarshal(b, &rep) == nil {
				c.extra["seeded_regressions_replayed"] = rep
				c.Infof("sensitivity: %s", summariseSensitivity(rep))
			}
		}
	}
}

func summariseSensitivity(rep any) string {
	l, ok := rep.([]any)
	if !ok {
		return "no report"
	}
	caught, skipped := 0, 0
	for _, e := range l {
		m, _ := e.(map[string]any)
		switch m["result"] {
		case "caught":
			caught++
		case "skipped":
			skipped++
		}
	}
	return fmt.Sprintf("%d recorded seeded regressions replayed on a scratch copy of the current tree: %d reported by the check, %d not applicable to the current tree, %d missed", len(l), caught, skipped, len(l)-caught-skipped)
}
