package main

import (
	"fmt"

	"golang.org/x/tools/go/ssa"
)

const (
	fnLRUPut = "(*z/tls.lruSessionCache).Put"
	fnLRUGet = "(*z/tls.lruSessionCache).Get"
	lstPush  = "(*container/list.List).PushFront"
	lstFront = "(*container/list.List).MoveToFront"
	lstRem   = "(*container/list.List).Remove"
	lstBack  = "(*container/list.List).Back"
	lstLen   = "(*container/list.List).Len"
)

func init() {
	register(&propDef{
		ID: "C35",
		Explain: "R-CUT/R-PRE/R-OWN on lruSessionCache: Lock (with deferred Unlock) dominates every access to m and q; a new element is pushed only behind q.Len() < capacity; " +
			"a nil Put on a present key removes the element from the list and the map on every path; a non-nil Put on a present key stores the session and moves the element to the front; " +
			"eviction reuses q.Back(), deletes its old key (read before it is overwritten) and re-registers it under the new key; every insertion or eviction is behind cs != nil; " +
			"Get reports true only on the map-hit edge and refreshes recency; only Put/Get/the constructor touch m and q.",
		NotCov: "The recency order itself is delegated to container/list; values stored are not compared.",
		Floor:  18,
		Run:    runC35,
	})
}

// mustPass: from the start (edge predicate, or function entry), no return
// is reachable without executing an instruction satisfying barrier.
func (c *Ctx) mustPass(rule string, fn *ssa.Function, label string, start FP, barrier func(ssa.Instruction) bool) {
	n := 0
	for _, b := range fn.Blocks {
		for _, in := range b.Instrs {
			if barrier(in) {
				n++
			}
		}
	}
	if n == 0 {
		c.Fail(rule, FuncName(fn), label, c.W.Pos(fn.Pos()), "anchor lost: the required action does not occur in the function")
		return
	}
	c.Cut(CutSpec{Rule: rule, Fn: fn, Label: label, Start: start, Target: isReturn, Barrier: barrier})
}

func isCallWith(names []string, pred func(args []ssa.Value) bool) func(ssa.Instruction) bool {
	return func(in ssa.Instruction) bool {
		cc := callCommon(in)
		if cc == nil || !nameIn(calleeName(cc), names) {
			return false
		}
		return pred == nil || pred(recvAndArgs(cc))
	}
}

func runC35(c *Ctx) {
	w := c.W
	c35Extras3(c)
	put, get := w.Fn(fnLRUPut), w.Fn(fnLRUGet)
	if put == nil || get == nil {
		c.Undecided("R-CUT", fnLRUPut, "anchor", "-", "Put/Get not found")
		return
	}
	isQ := func(v ssa.Value) bool { return Expr(v) == "c.q" }
	isM := func(v ssa.Value) bool { return Expr(v) == "c.m" }
	// ---- locking
	for _, fn := range []*ssa.Function{put, get} {
		name := FuncName(fn)
		var lock, unlock ssa.Instruction
		for _, in := range fn.Blocks[0].Instrs {
			if cc := callCommon(in); cc != nil {
				switch calleeName(cc) {
				case "(*sync.Mutex).Lock":
					if _, isCall := in.(*ssa.Call); isCall && Expr(cc.Args[0]) == "c.Mutex" && lock == nil {
						lock = in
					}
				case "(*sync.Mutex).Unlock":
					if _, isDefer := in.(*ssa.Defer); isDefer && Expr(cc.Args[0]) == "c.Mutex" && unlock == nil {
						unlock = in
					}
				}
			}
		}
		c.Check(lock != nil && unlock != nil && instrDominates(lock, unlock), "R-LOCK", name, "c.Lock() then defer c.Unlock() in the entry block", w.Pos(fn.Pos()), "")
		if lock == nil {
			continue
		}
		n, ok := 0, true
		for _, b := range fn.Blocks {
			for _, in := range b.Instrs {
				fa, isFA := in.(*ssa.FieldAddr)
				if !isFA {
					continue
				}
				f := fieldName(fa)
				if f == "lruSessionCache.m" || f == "lruSessionCache.q" || f == "lruSessionCache.capacity" {
					n++
					if !instrDominates(lock, in) {
						ok = false
					}
				}
			}
		}
		c.Sites += n
		c.Check(ok && n > 0, "R-LOCK", name, "every access to m, q, capacity is dominated by c.Lock()", w.Pos(fn.Pos()), fmt.Sprintf("%d accesses", n))
		// no explicit early Unlock
		nu := 0
		for _, in := range callsIn(fn, "(*sync.Mutex).Unlock") {
			if _, isDefer := in.(*ssa.Defer); !isDefer {
				nu++
			}
		}
		c.Check(nu == 0, "R-LOCK", name, "the mutex is released only by the deferred Unlock", w.Pos(fn.Pos()), fmt.Sprint(nu))
	}

	// ---- Put
	hit := func(v ssa.Value) bool {
		ex, ok := v.(*ssa.Extract)
		if !ok || ex.Index != 1 {
			return false
		}
		lk, ok := ex.Tuple.(*ssa.Lookup)
		return ok && lk.CommaOk && isM(lk.X) && Param("sessionKey")(lk.Index)
	}
	elemOfHit := func(v ssa.Value) bool {
		ex, ok := v.(*ssa.Extract)
		if !ok || ex.Index != 0 {
			return false
		}
		lk, ok := ex.Tuple.(*ssa.Lookup)
		return ok && lk.CommaOk && isM(lk.X) && Param("sessionKey")(lk.Index)
	}
	csNil, csNonNil := IsNil(Param("cs")), NonNil(Param("cs"))
	pname := fnLRUPut
	// insertion
	pushes := callsIn(put, lstPush)
	c.Check(len(pushes) == 1, "R-OWN", pname, "one PushFront site", w.Pos(put.Pos()), fmt.Sprint(len(pushes)))
	for _, p := range pushes {
		c.Sites++
		c.Cut(CutSpec{Fn: put, Label: "PushFront only behind q.Len() < capacity", Target: isInstr(p),
			Cut: Cmp(func(v ssa.Value) bool { cl := callOf(v); return ResultOf(-1, lstLen)(v) && isQ(cl.Call.Args[0]) }, "lt", func(v ssa.Value) bool { return Expr(v) == "c.capacity" })})
		c.Cut(CutSpec{Fn: put, Label: "PushFront only on the map-miss edge", Target: isInstr(p), Cut: IsFalse(hit)})
		c.Cut(CutSpec{Fn: put, Label: "a new entry is inserted only for a non-nil session", Target: isInstr(p), Cut: csNonNil})
		// the pushed entry carries (sessionKey, cs) and is registered under sessionKey
		cc := callCommon(p)
		okEntry := false
		if mi, isMI := cc.Args[1].(*ssa.MakeInterface); isMI {
			if al, isAl := mi.X.(*ssa.Alloc); isAl {
				var k, s ssa.Value
				for _, ref := range *al.Referrers() {
					if fa, isFA := ref.(*ssa.FieldAddr); isFA {
						for _, r2 := range *fa.Referrers() {
							if st, isSt := r2.(*ssa.Store); isSt {
								switch fieldName(fa) {
								case "lruSessionCacheEntry.sessionKey":
									k = st.Val
								case "lruSessionCacheEntry.state":
									s = st.Val
								}
							}
						}
					}
				}
				okEntry = k != nil && s != nil && Param("sessionKey")(k) && Param("cs")(s)
			}
		}
		c.Check(okEntry && isQ(cc.Args[0]), "R-PROV", pname, "pushed entry is {sessionKey, cs} on c.q", w.InstrPos(p), Expr(cc.Args[1]))
		pv := p.(ssa.Value)
		c.Cut(CutSpec{Rule: "R-PRE", Fn: put, Label: "the pushed element is registered in m[sessionKey]", StartAfter: p, Target: isReturn,
			Barrier: func(in ssa.Instruction) bool {
				mu, ok := in.(*ssa.MapUpdate)
				return ok && isM(mu.Map) && Param("sessionKey")(mu.Key) && mu.Value == pv
			}})
	}
	// nil Put on a present key
	c.Cut(CutSpec{Fn: put, Label: "hit+nil: anchor", Start: IsTrue(hit), Target: func(in ssa.Instruction, _ resolver) bool { return false }, MinTargets: -1})
	removes := func(in ssa.Instruction) bool {
		return isCallWith([]string{lstRem}, func(a []ssa.Value) bool { return isQ(a[0]) && elemOfHit(a[1]) })(in)
	}
	deletesKey := func(in ssa.Instruction) bool {
		cl := isBuiltinCall(in, "delete")
		return cl != nil && isM(cl.Call.Args[0]) && Param("sessionKey")(cl.Call.Args[1])
	}
	hitNil := func(f Fact) bool { return false }
	_ = hitNil
	// from the cs==nil edge (which lies inside the hit branch: checked by the cut below)
	c.mustPass("R-PRE", put, "nil Put on a present key removes the element from the list", csNil, func(in ssa.Instruction) bool {
		return removes(in) || missSide(in, hit)
	})
	c.mustPass("R-PRE", put, "nil Put on a present key deletes the map entry", csNil, func(in ssa.Instruction) bool {
		return deletesKey(in) || missSide(in, hit)
	})
	for _, b := range put.Blocks {
		for _, in := range b.Instrs {
			if removes(in) || deletesKey(in) {
				c.Sites++
				c.Cut(CutSpec{Fn: put, Label: "entry removed only on hit with a nil session [" + w.InstrPos(in) + "]", Target: isInstr(in), Cut: csNil})
				c.Cut(CutSpec{Fn: put, Label: "entry removed only on the map-hit edge [" + w.InstrPos(in) + "]", Target: isInstr(in), Cut: IsTrue(hit)})
			}
		}
	}
	// a nil Put has no other effect: on paths where cs == nil no store to an entry, no PushFront/MoveToFront, no map update
	c.Cut(CutSpec{Fn: put, Label: "a nil Put changes nothing but the removal", Start: csNil, MinTargets: 1,
		Target: func(in ssa.Instruction, _ resolver) bool {
			if _, ok := in.(*ssa.MapUpdate); ok {
				return true
			}
			if st, ok := in.(*ssa.Store); ok {
				if fa, ok := st.Addr.(*ssa.FieldAddr); ok && (fieldName(fa) == "lruSessionCacheEntry.state" || fieldName(fa) == "lruSessionCacheEntry.sessionKey") {
					return true
				}
			}
			return isCallWith([]string{lstPush, lstFront}, nil)(in)
		}})
	// non-nil Put on a present key
	storesState := func(in ssa.Instruction) bool {
		st, ok := in.(*ssa.Store)
		if !ok || !Param("cs")(st.Val) {
			return false
		}
		fa, ok := st.Addr.(*ssa.FieldAddr)
		if !ok || fieldName(fa) != "lruSessionCacheEntry.state" {
			return false
		}
		ta, ok := fa.X.(*ssa.TypeAssert)
		if !ok {
			return false
		}
		vfa := loadedField(ta.X)
		return vfa != nil && fieldName(vfa) == "Element.Value" && elemOfHit(vfa.X)
	}
	c.mustPass("R-PRE", put, "non-nil Put on a present key stores the session in that key's entry", IsTrue(hit), func(in ssa.Instruction) bool {
		return storesState(in) || removes(in)
	})
	c.mustPass("R-PRE", put, "non-nil Put on a present key moves the element to the front", IsTrue(hit), func(in ssa.Instruction) bool {
		return isCallWith([]string{lstFront}, func(a []ssa.Value) bool { return isQ(a[0]) && elemOfHit(a[1]) })(in) || removes(in)
	})
	// eviction
	backs := callsIn(put, lstBack)
	c.Check(len(backs) == 1, "R-OWN", pname, "one q.Back() site (eviction)", w.Pos(put.Pos()), fmt.Sprint(len(backs)))
	for _, bk := range backs {
		c.Sites++
		bv := bk.(ssa.Value)
		c.Cut(CutSpec{Fn: put, Label: "eviction only for a non-nil session", Target: isInstr(bk), Cut: csNonNil})
		c.Cut(CutSpec{Fn: put, Label: "eviction only on the map-miss edge", Target: isInstr(bk), Cut: IsFalse(hit)})
		c.Cut(CutSpec{Fn: put, Label: "eviction only when the list is full", Target: isInstr(bk),
			Cut: Cmp(func(v ssa.Value) bool { return ResultOf(-1, lstLen)(v) }, "ge", func(v ssa.Value) bool { return Expr(v) == "c.capacity" })})
		entryOf := func(v ssa.Value) bool { // the *lruSessionCacheEntry of q.Back()
			ta, ok := v.(*ssa.TypeAssert)
			if !ok {
				return false
			}
			vfa := loadedField(ta.X)
			return vfa != nil && fieldName(vfa) == "Element.Value" && vfa.X == bv
		}
		var keyStore, del ssa.Instruction
		for _, b := range put.Blocks {
			for _, in := range b.Instrs {
				if st, ok := in.(*ssa.Store); ok {
					if fa, ok := st.Addr.(*ssa.FieldAddr); ok && fieldName(fa) == "lruSessionCacheEntry.sessionKey" && entryOf(fa.X) && Param("sessionKey")(st.Val) {
						keyStore = in
					}
				}
				if cl := isBuiltinCall(in, "delete"); cl != nil && isM(cl.Call.Args[0]) {
					if fa := loadedField(cl.Call.Args[1]); fa != nil && fieldName(fa) == "lruSessionCacheEntry.sessionKey" && entryOf(fa.X) {
						del = in
					}
				}
			}
		}
		c.Check(del != nil && keyStore != nil, "R-PROV", pname, "eviction deletes m[old key of q.Back()] and renames the entry", w.InstrPos(bk), "")
		if del != nil && keyStore != nil {
			oldKeyLoad := del.(*ssa.Call).Call.Args[1].(ssa.Instruction)
			c.Check(instrDominates(oldKeyLoad, keyStore) && instrDominates(del, keyStore), "R-PRE", pname, "the evicted key is read and deleted before the entry is renamed", w.InstrPos(del), "")
			after := func(lbl string, barrier func(ssa.Instruction) bool) {
				c.Cut(CutSpec{Rule: "R-PRE", Fn: put, Label: lbl, StartAfter: bk, Target: isReturn, Barrier: barrier})
			}
			after("eviction deletes the old key on every path", func(in ssa.Instruction) bool { return in == del })
			after("eviction renames the entry on every path", func(in ssa.Instruction) bool { return in == keyStore })
			after("eviction stores the new session", func(in ssa.Instruction) bool {
				st, ok := in.(*ssa.Store)
				if !ok || !Param("cs")(st.Val) {
					return false
				}
				fa, ok := st.Addr.(*ssa.FieldAddr)
				return ok && fieldName(fa) == "lruSessionCacheEntry.state" && entryOf(fa.X)
			})
			after("eviction moves the reused element to the front", isCallWith([]string{lstFront}, func(a []ssa.Value) bool { return isQ(a[0]) && a[1] == bv }))
			after("eviction registers the element under the new key", func(in ssa.Instruction) bool {
				mu, ok := in.(*ssa.MapUpdate)
				return ok && isM(mu.Map) && Param("sessionKey")(mu.Key) && mu.Value == bv
			})
		}
	}

	// ---- Get
	gname := fnLRUGet
	c.Cut(CutSpec{Fn: get, Label: "Get reports true only on the map-hit edge", Target: TrueReturn(1, nil), Cut: IsTrue(hit)})
	c.mustPass("R-PRE", get, "a hit refreshes recency (MoveToFront of that element)", IsTrue(hit),
		isCallWith([]string{lstFront}, func(a []ssa.Value) bool { return isQ(a[0]) && elemOfHit(a[1]) }))
	okv := true
	det := ""
	for v := range returnClosure(get, 0) {
		if isNilConst(v) {
			continue
		}
		if _, isPhi := v.(*ssa.Phi); isPhi {
			continue
		}
		fa := loadedField(v)
		good := false
		if fa != nil && fieldName(fa) == "lruSessionCacheEntry.state" {
			if ta, ok := fa.X.(*ssa.TypeAssert); ok {
				if vfa := loadedField(ta.X); vfa != nil && fieldName(vfa) == "Element.Value" && elemOfHit(vfa.X) {
					good = true
				}
			}
		}
		if !good {
			okv = false
			det = Expr(v)
		}
	}
	c.Check(okv, "R-PROV", gname, "Get returns the state of the element found under sessionKey", w.Pos(get.Pos()), det)
	c.Cut(CutSpec{Fn: get, Label: "a miss returns nil", Start: IsFalse(hit), Target: NonNilReturn(0, nil), MinTargets: -1})

	// ---- R-OWN: who touches m and q
	allowed := map[string]bool{short(expand(fnLRUPut)): true, short(expand(fnLRUGet)): true, "tls.NewLRUClientSessionCache": true}
	nAcc := 0
	ok := true
	det = ""
	for fn := range w.AllFuncs() {
		if !inPkg(fn, "z/tls") || fn.Blocks == nil {
			continue
		}
		for _, b := range fn.Blocks {
			for _, in := range b.Instrs {
				if fa, isFA := in.(*ssa.FieldAddr); isFA {
					f := fieldName(fa)
					if f == "lruSessionCache.m" || f == "lruSessionCache.q" || f == "lruSessionCache.capacity" {
						nAcc++
						if !allowed[short(FuncName(fn))] {
							ok = false
							det = short(FuncName(fn)) + " at " + w.InstrPos(in)
						}
					}
				}
			}
		}
	}
	c.Check(ok && nAcc > 0, "R-OWN", "z/tls", "m, q and capacity are touched only by the constructor, Put and Get", "-", fmt.Sprintf("%d accesses %s", nAcc, det))
}

// missSide: an instruction that can only execute on the miss side of the
// lookup (used to end paths that are not about the hit branch).
func missSide(in ssa.Instruction, hit VP) bool {
	b := in.Block()
	if in != b.Instrs[0] {
		return false
	}
	return anyFact(domFacts(b), IsFalse(hit))
}
