package main

import (
	"fmt"
	"go/types"
	"strings"

	"golang.org/x/tools/go/ssa"
)

func init() {
	register(&propDef{
		ID: "C32",
		Explain: "Panic freedom of the peer-driven parsers of package tls that work on raw byte slices. R-BOUNDS (path-sensitive bounds prover: linear forms over canonical expressions; lower bounds on len(s) read from the branch facts on the path; re-slicings peeled to their base): in the client/server key-exchange processing of tls/key_agreement.go " +
			"(rsa/dhe/ecdhe processClientKeyExchange, processServerKeyExchange, signedKeyAgreement.verifyParameters) and in clientKeyExchangeMsg.MakeLog every index and every slice bound on a slice-typed operand is covered by a length test on every path, or by a statically known length. " +
			"R-ASSERT: every single-value type assertion in non-test code of the package is discharged: the asserted value comes from functions all of whose non-nil results are of the asserted dynamic type (err.(Alert) after halfConn.decrypt/changeCipherSpec). " +
			"R-GUARD: dheKeyAgreement.processServerKeyExchange succeeds only for 0 < Ys < p, which makes the later rand.Int(_, p) and Exp(_, _, p) well defined; rsaKeyAgreement.processClientKeyExchange succeeds only for len(ciphertext) >= 2 and generateClientKeyExchange builds len(encrypted)+2 octets, which is what clientKeyExchangeMsg.MakeLog's len-2 relies on. " +
			"The never-blocks clause is decided structurally by C34's lock pairing rule (same anchors).",
		NotCov: "index expressions in the record layer (lengths guaranteed by readFromUntil, not by a visible test), cryptobyte-based message parsers (bounds are internal to cryptobyte.String), explicit panics on internal invariants, blocking behaviour.",
		Floor:  60,
		Run:    runC32,
	})
}

func runC32(c *Ctx) {
	w := c.W
	pkg := "z/tls"
	if w.Pkg(pkg) == nil {
		c.Undecided("R-BOUNDS", pkg, "package", "-", "not loaded")
		return
	}
	c32DecryptClamp(c)
	// a truncated ticket must fall back to a full handshake, not panic: C31's minimum-length cut on decryptTicket
	c.borrow(runC31, func(o *Obligation) bool { return strings.Contains(o.Func, "decryptTicket") && o.Rule == "R-CUT" })
	// never blocks: the lock discipline of C34 around handshakeStatus
	c.borrow(runC34, func(o *Obligation) bool { return strings.Contains(o.Construct, "handshakeStatus") })
	c.DeadObligations(c.W.FuncsOfPkg("z/tls"), "package tls")
	// ---------------- bounds
	scope := []string{
		"(*" + pkg + ".rsaKeyAgreement).processClientKeyExchange",
		"(*" + pkg + ".ecdheKeyAgreement).processClientKeyExchange",
		"(*" + pkg + ".ecdheKeyAgreement).processServerKeyExchange",
		"(*" + pkg + ".dheKeyAgreement).processClientKeyExchange",
		"(*" + pkg + ".dheKeyAgreement).processServerKeyExchange",
		"(*" + pkg + ".signedKeyAgreement).verifyParameters",
		"(*" + pkg + ".clientKeyExchangeMsg).MakeLog",
	}
	total := 0
	for _, name := range scope {
		fn := w.Fn(name)
		if fn == nil {
			c.Undecided("R-BOUNDS", name, "anchor", "-", "function not found")
			continue
		}
		c.Saw(FuncName(fn))
		var lemma map[string]lin
		if strings.HasSuffix(name, "clientKeyExchangeMsg).MakeLog") {
			// backed by the R-GUARD obligations below (RSA ClientKeyExchange has its 2-octet length prefix)
			lemma = map[string]lin{"len(m.ciphertext)": linConst(2)}
		}
		total += c.BoundsObligations(fn, "R-BOUNDS", lemma)
	}
	c.Check(total >= 40, "R-BOUNDS", pkg, "index and slice sites enumerated", "-", fmt.Sprint(total))

	// ---------------- type assertions
	nta, local := 0, 0
	for _, fn := range w.FuncsOfPkg(pkg) {
		if strings.HasSuffix(w.RelFile(fn.Pos()), "_test.go") {
			continue
		}
		k := 0
		for _, b := range fn.Blocks {
			for _, in := range b.Instrs {
				ta, ok := in.(*ssa.TypeAssert)
				if !ok || ta.CommaOk {
					continue
				}
				// type switches compile to comma-ok asserts; a plain x.(T) remains
				nta++
				if !peerDriven(ta) {
					local++
					continue // local state (configuration, containers, pools): not driven by the peer
				}
				k++
				c.Sites++
				ok2, det := assertDischarged(w, ta)
				c.Check(ok2, "R-ASSERT", short(FuncName(fn)), fmt.Sprintf("single-value assertion #%d to %s cannot fail", k, typeStr(ta.AssertedType)), w.InstrPos(in), det)
			}
		}
	}
	c.Infof("R-ASSERT: %d single-value type assertions in package tls, %d on local state (out of scope)", nta, local)
	c.Check(nta-local >= 3, "R-ASSERT", pkg, "single-value assertions enumerated", "-", fmt.Sprint(nta))

	// ---------------- guards relied upon across functions
	if fn := w.Fn("(*" + pkg + ".dheKeyAgreement).processServerKeyExchange"); fn != nil {
		c.Cut(CutSpec{Rule: "R-GUARD", Fn: fn, Label: "accepts only Ys > 0", Target: SuccessReturn(0, nil), Cut: factExpr("gt", "(*math/big.Int).Sign(ka.yTheirs)", "0")})
		c.Cut(CutSpec{Rule: "R-GUARD", Fn: fn, Label: "accepts only Ys < p (hence p >= 2 for rand.Int and Exp)", Target: SuccessReturn(0, nil), Cut: factExpr("lt", "(*math/big.Int).Cmp(ka.yTheirs,ka.p)", "0")})
	}
	if fn := w.Fn("(*" + pkg + ".dheKeyAgreement).generateClientKeyExchange"); fn != nil {
		for _, in := range callsIn(fn, "crypto/rand.Int") {
			c.Cut(CutSpec{Rule: "R-GUARD", Fn: fn, Label: "rand.Int(_, p) only after the server parameters were processed (p, g, Ys present)", Target: isInstr(in), Cut: factExpr("nonnil", "ka.p", "")})
			c.Check(Expr(callCommon(in).Args[1]) == "ka.p", "R-GUARD", short(FuncName(fn)), "the bound of rand.Int is the checked prime", w.InstrPos(in), Expr(callCommon(in).Args[1]))
		}
	}
	if fn := w.Fn("(*" + pkg + ".rsaKeyAgreement).processClientKeyExchange"); fn != nil {
		gs := []lenGoal{{term: "len(ckx.ciphertext)", need: linConst(2)}}
		c.Cut(CutSpec{Rule: "R-GUARD", Fn: fn, Label: "accepts only len(ciphertext) >= 2 (relied upon by clientKeyExchangeMsg.MakeLog)", Target: SuccessReturn(1, nil), Cut: goalsCut(gs)})
	}
	if fn := w.Fn("(*" + pkg + ".rsaKeyAgreement).generateClientKeyExchange"); fn != nil {
		ok := false
		for _, wr := range w.FieldWrites()["clientKeyExchangeMsg.ciphertext"] {
			if wr.Fn == fn {
				if mk, isMk := wr.Val.(*ssa.MakeSlice); isMk {
					ok = linGeq(linOf(mk.Len), linConst(2))
				}
			}
		}
		c.Check(ok, "R-GUARD", short(FuncName(fn)), "builds a ciphertext of at least 2 octets (relied upon by clientKeyExchangeMsg.MakeLog)", w.Pos(fn.Pos()), "")
	}
	// the server logs the ClientKeyExchange only after it was processed successfully
	if fn := w.Fn("(*" + pkg + ".serverHandshakeState).doFullHandshake"); fn != nil {
		for _, in := range callsIn(fn, "(*"+pkg+".clientKeyExchangeMsg).MakeLog") {
			c.Cut(CutSpec{Rule: "R-GUARD", Fn: fn, Label: "the received ClientKeyExchange is logged only after processClientKeyExchange accepted it", Target: isInstr(in), Cut: func(f Fact) bool {
				return f.Op == "nil" && strings.Contains(Expr(f.X), ".processClientKeyExchange(") && strings.HasSuffix(Expr(f.X), "#1")
			}})
		}
	}
}

// assertDischarged: every source of the asserted value is a call whose non-nil results all have the asserted dynamic type.
func assertDischarged(w *World, ta *ssa.TypeAssert) (bool, string) {
	var srcs []string
	ok := true
	n := 0
	for v := range backClosure(ta.X, flowThrough) {
		cl, isCall := v.(*ssa.Call)
		if !isCall {
			switch v.(type) {
			case *ssa.Phi, *ssa.Extract, *ssa.TypeAssert, *ssa.ChangeInterface:
				continue
			}
			if isNilConst(v) {
				continue
			}
			if mi, isMI := v.(*ssa.MakeInterface); isMI {
				if types.Identical(mi.X.Type(), ta.AssertedType) {
					continue
				}
			}
			if _, isConv := v.(*ssa.Convert); isConv {
				continue
			}
			ok = false
			srcs = append(srcs, "unrecognised source "+Expr(v))
			continue
		}
		callee := cl.Call.StaticCallee()
		if callee == nil || len(callee.Blocks) == 0 {
			ok = false
			srcs = append(srcs, "dynamic or external call "+calleeName(&cl.Call))
			continue
		}
		n++
		idx := errResultIdx(callee)
		if idx < 0 {
			ok = false
			srcs = append(srcs, short(FuncName(callee))+" has no error result")
			continue
		}
		good := onlyReturnsType(callee, idx, ta.AssertedType, 0)
		srcs = append(srcs, fmt.Sprintf("%s returns only %s or nil: %v", short(FuncName(callee)), typeStr(ta.AssertedType), good))
		ok = ok && good
	}
	return ok && n > 0, strings.Join(srcs, "; ")
}

func onlyReturnsType(fn *ssa.Function, idx int, t types.Type, depth int) bool {
	if depth > 3 {
		return false
	}
	for v := range returnClosure(fn, idx) {
		switch x := v.(type) {
		case *ssa.Phi, *ssa.Extract:
			continue
		case *ssa.Const:
			if !x.IsNil() && !types.Identical(x.Type(), t) {
				return false
			}
		case *ssa.MakeInterface:
			if !types.Identical(x.X.Type(), t) {
				return false
			}
		case *ssa.Convert:
			if !types.Identical(x.Type(), t) {
				return false
			}
		case *ssa.Call:
			callee := x.Call.StaticCallee()
			if callee == nil || len(callee.Blocks) == 0 {
				return false
			}
			ci := errResultIdx(callee)
			if ci < 0 || !onlyReturnsType(callee, ci, t, depth+1) {
				return false
			}
		default:
			return false
		}
	}
	return true
}

// peerDriven: the asserted operand is an error value or derives from a message read from the peer.
func peerDriven(ta *ssa.TypeAssert) bool {
	if types.Identical(ta.X.Type(), types.Universe.Lookup("error").Type()) {
		return true
	}
	for v := range backClosure(ta.X, flowThrough) {
		if cl := callOf(v); cl != nil {
			n := calleeName(&cl.Call)
			if strings.HasSuffix(n, ".readHandshake") || strings.HasSuffix(n, ".readRecord") || strings.HasSuffix(n, ".unmarshal") {
				return true
			}
		}
	}
	return false
}
