package main

import (
	"fmt"
	"strings"

	"golang.org/x/tools/go/ssa"
)

const (
	fnVSC   = "(*z/tls.Conn).verifyServerCertificate"
	fnVWSD  = "(*z/x509.Certificate).ValidateWithStupidDetail"
	fnPCFC  = "(*z/tls.Conn).processCertsFromClient"
	fnVHS   = "z/tls.verifyHandshakeSignature"
	fnReqCC = "z/tls.requiresClientCert"
)

func init() {
	register(&propDef{
		ID: "C27",
		Explain: "R-CUT/R-PROV on the authentication decisions of both handshakes: verifyServerCertificate returns nil only past InsecureSkipVerify or the nil error of certs[0].ValidateWithStupidDetail(opts) with opts.Roots/CurrentTime/DNSName taken from " +
			"config.RootCAs/config.time()/config.ServerName and the remaining certificates as intermediates; ValidateWithStupidDetail's error is nil only past Verify==nil and, for a non-empty name, VerifyHostname(name)==nil; " +
			"processCertsFromClient returns nil for a non-empty chain under ClientAuth>=VerifyClientCertIfGiven only past certs[0].Verify(ClientCAs, client-auth EKU)==nil, and rejects an empty chain when a certificate is required; " +
			"ECDHE/DHE processServerKeyExchange return nil only past a nil verifyError produced by verifyHandshakeSignature/verifyParameters over the hello randoms and the server parameters under the certificate's key " +
			"(DHE additionally under InsecureSkipVerify); TLS 1.3 readServerCertificate and both servers' CertificateVerify handling return nil only past verifyHandshakeSignature==nil under peerCertificates[0]'s key; every caller propagates these errors.",
		NotCov: "End-to-end outcome per scenario (that a handshake as a whole completes or aborts); the Finished MAC checks (C25/C26); certificate chain semantics (C07).",
		Floor:  30,
		Run:    runC27,
	})
}

func runC27(c *Ctx) {
	w := c.W
	c27Extras(c)
	c27Extras3(c)
	c.DeadObligations(c.W.FuncsOfPkg("z/tls"), "package tls")
	c.alertSummary()
	// ---- A. verifyServerCertificate
	if fn := w.Fn(fnVSC); fn == nil {
		c.Undecided("R-CUT", fnVSC, "anchor", "-", "not found")
	} else {
		validated := func(v ssa.Value) bool {
			if !ResultOf(2, fnVWSD)(v) {
				return false
			}
			ia := loadedIndex(callOf(v).Call.Args[0])
			k, isC := int64(-1), false
			if ia != nil {
				k, isC = intConst(ia.Index)
			}
			return isC && k == 0
		}
		skip := IsTrue(exprIs("c.config.InsecureSkipVerify"))
		c.Cut(CutSpec{Fn: fn, Label: "nil only past InsecureSkipVerify or a nil error of certs[0].ValidateWithStupidDetail", Target: SuccessReturn(0, nil), Cut: AnyF(skip, IsNil(validated))})
		// options
		var opts *ssa.Alloc
		for _, in := range callsIn(fn, fnVWSD) {
			if ld, ok := callCommon(in).Args[1].(*ssa.UnOp); ok {
				opts, _ = ld.X.(*ssa.Alloc)
			}
		}
		if opts == nil {
			c.Fail("R-PROV", fnVSC, "verification options", w.Pos(fn.Pos()), "not a local VerifyOptions value")
		} else {
			got := map[string]string{}
			for k, v := range fieldInits(opts) {
				got[k] = Expr(v)
			}
			for _, p := range [][2]string{{"Roots", "c.config.RootCAs"}, {"CurrentTime", "(*tls.Config).time(c.config)"}, {"DNSName", "c.config.ServerName"}, {"Intermediates", "x509.NewCertPool()"}} {
				c.Sites++
				c.Check(got[p[0]] == p[1], "R-PROV", fnVSC, "opts."+p[0]+" = "+p[1], w.Pos(fn.Pos()), got[p[0]])
			}
			for k := range got {
				switch k {
				case "Roots", "CurrentTime", "DNSName", "Intermediates":
				default:
					c.Fail("R-PROV", fnVSC, "no other verification option is set", w.Pos(fn.Pos()), k+" = "+got[k])
				}
			}
		}
		// certificates parsed from the peer's list, in order
		c.Cut(CutSpec{Fn: fn, Label: "nil only if every presented certificate parsed", Target: SuccessReturn(0, nil), MinTargets: 1, Start: NonNil(ResultOf(1, fnParseCert))})
	}
	// ---- B. ValidateWithStupidDetail
	if fn := w.Fn(fnVWSD); fn == nil {
		c.Undecided("R-CUT", fnVWSD, "anchor", "-", "not found")
	} else {
		verified := func(v ssa.Value) bool {
			if !ResultOf(3, fnVerify)(v) {
				return false
			}
			return Param("c")(callOf(v).Call.Args[0])
		}
		c.Cut(CutSpec{Fn: fn, Label: "error nil only past c.Verify(opts) == nil", Target: SuccessReturn(2, nil), Cut: IsNil(verified)})
		nameOK := IsNil(func(v ssa.Value) bool {
			cl := callOf(v)
			return cl != nil && nameIn(calleeName(&cl.Call), []string{fnVerifyHost}) && Param("c")(cl.Call.Args[0]) && Expr(cl.Call.Args[1]) == "opts.DNSName"
		})
		c.Cut(CutSpec{Fn: fn, Label: "with a name, error nil only past VerifyHostname(name) == nil", Target: SuccessReturn(2, nil),
			Cut: AnyF(nameOK, Cmp(exprIs("opts.DNSName"), "eq", ConstStr("")))})
		// the name checked is the requested one, read before the options are altered
		for _, in := range callsIn(fn, fnVerifyHost) {
			c.Sites++
			a := callCommon(in).Args[1]
			okDom := true
			for _, wr := range c.writesIn("z/x509", "VerifyOptions.DNSName") {
				if wr.Fn == fn {
					if ld, ok := a.(*ssa.UnOp); ok && !instrDominates(ld, wr.In) {
						okDom = false
					}
				}
			}
			c.Check(Expr(a) == "opts.DNSName" && okDom, "R-PROV", fnVWSD, "the hostname verified is the caller's DNSName (read before the field is cleared)", w.InstrPos(in), Expr(a))
		}
		for _, in := range callsIn(fn, fnVerify) {
			cc := callCommon(in)
			c.Check(Param("c")(cc.Args[0]) && Expr(cc.Args[1]) == "opts", "R-PROV", fnVWSD, "Verify is run on c with the caller's options", w.InstrPos(in), Expr(cc.Args[1]))
		}
	}
	// ---- C. processCertsFromClient
	if fn := w.Fn(fnPCFC); fn == nil {
		c.Undecided("R-CUT", fnPCFC, "anchor", "-", "not found")
	} else {
		verified := IsNil(func(v ssa.Value) bool {
			if !ResultOf(3, fnVerify)(v) {
				return false
			}
			ia := loadedIndex(callOf(v).Call.Args[0])
			k, isC := int64(-1), false
			if ia != nil {
				k, isC = intConst(ia.Index)
			}
			return isC && k == 0
		})
		noVerify := Cmp(exprIs("c.config.ClientAuth"), "lt", w.IsConstNamed("z/tls", "VerifyClientCertIfGiven"))
		noCerts := Cmp(LenOf(func(v ssa.Value) bool { _, ok := v.(*ssa.MakeSlice); return ok }), "le eq", ConstInt(0))
		c.Cut(CutSpec{Fn: fn, Label: "nil only past certs[0].Verify == nil, unless verification is not configured or no certificate was sent", Target: SuccessReturn(0, nil), Cut: AnyF(verified, noVerify, noCerts)})
		c.Cut(CutSpec{Fn: fn, Label: "a required certificate that is missing rejects", Target: SuccessReturn(0, nil),
			Cut: AnyF(Cmp(LenOf(func(v ssa.Value) bool { _, ok := v.(*ssa.MakeSlice); return ok }), "ne gt", ConstInt(0)), IsFalse(ResultOf(-1, fnReqCC)))})
		for _, in := range callsIn(fn, fnReqCC) {
			c.Check(Expr(callCommon(in).Args[0]) == "c.config.ClientAuth", "R-PROV", fnPCFC, "requiresClientCert is asked about config.ClientAuth", w.InstrPos(in), "")
		}
		for _, in := range callsIn(fn, fnVerify) {
			c.Sites++
			ld, _ := callCommon(in).Args[1].(*ssa.UnOp)
			var opts *ssa.Alloc
			if ld != nil {
				opts, _ = ld.X.(*ssa.Alloc)
			}
			got := map[string]string{}
			inits := map[string]ssa.Value{}
			if opts != nil {
				inits = fieldInits(opts)
				for k, v := range inits {
					got[k] = Expr(v)
				}
			}
			c.Check(got["Roots"] == "c.config.ClientCAs" && got["CurrentTime"] == "(*tls.Config).time(c.config)", "R-PROV", fnPCFC, "client chains are verified against config.ClientCAs at config.time()", w.InstrPos(in), fmt.Sprint(got))
			okEKU := false
			if ku := inits["KeyUsages"]; ku != nil {
				if al := sliceLitOf(ku); al != nil {
					els := allocElems(al)
					okEKU = len(els) == 1 && w.IsConstNamed("z/x509", "ExtKeyUsageClientAuth")(els[0])
				}
			}
			c.Check(okEKU, "R-PROV", fnPCFC, "client chains must be valid for ExtKeyUsageClientAuth", w.InstrPos(in), "")
		}
	}
	// ---- D/E. ServerKeyExchange signatures
	type ska struct{ fn, verifier, label string; allowSkip bool }
	for _, k := range []ska{
		{"(*z/tls.ecdheKeyAgreement).processServerKeyExchange", "call:tls.verifyHandshakeSignature", "ECDHE", false},
		{"(*z/tls.dheKeyAgreement).processServerKeyExchange", "call:(tls.keyAgreementAuthentication).verifyParameters", "DHE", true},
	} {
		fn := w.Fn(k.fn)
		if fn == nil {
			c.Undecided("R-CUT", k.fn, "anchor", "-", "not found")
			continue
		}
		c.Sites++
		verr := func(v ssa.Value) bool {
			fa := loadedField(v)
			return fa != nil && strings.HasSuffix(fieldName(fa), "KeyAgreement.verifyError") && Deps(v)[k.verifier]
		}
		var cut FP = IsNil(verr)
		if k.allowSkip {
			cut = AnyF(cut, IsTrue(exprIs("config.InsecureSkipVerify")))
		}
		c.Cut(CutSpec{Fn: fn, Label: k.label + ": nil only past a nil verification error of the server's signature", Target: SuccessReturn(0, IsNil(verr)), Cut: cut})
		// what is verified
		for _, in := range callsIn(fn, fnVHS) {
			a := callCommon(in).Args
			d := Deps(a[3])
			ok := Expr(a[1]) == "cert.PublicKey" && hasAll(d, "field:clientHelloMsg.random", "field:serverHelloMsg.random", "call:tls.hashForServerKeyExchange") && hasAll(Deps(a[4]), "field:serverKeyExchangeMsg.key")
			c.Check(ok, "R-PROV", k.fn, "signature verified under cert.PublicKey over both randoms and the server parameters", w.InstrPos(in), depList(d))
		}
		for _, b := range fn.Blocks {
			for _, in := range b.Instrs {
				if cc := callCommon(in); cc != nil && cc.IsInvoke() && cc.Method.Name() == "verifyParameters" {
					a := cc.Args
					ok := Param("config")(a[0]) && Param("clientHello")(a[1]) && Param("serverHello")(a[2]) && Param("cert")(a[3]) && hasAll(Deps(a[4]), "field:serverKeyExchangeMsg.key") && hasAll(Deps(a[5]), "field:serverKeyExchangeMsg.key")
					c.Check(ok, "R-PROV", k.fn, "verifyParameters receives the hellos, the certificate, the server parameters and the signature", w.InstrPos(in), "")
				}
			}
		}
	}
	if fn := w.Fn("(*z/tls.signedKeyAgreement).verifyParameters"); fn != nil {
		c.Cut(CutSpec{Fn: fn, Label: "signed key agreement: nil only past a verified signature", Target: SuccessReturn(1, nil),
			Cut: AnyF(IsNil(ResultOf(-1, fnVHS)), IsNil(ResultOf(-1, "z/rsa.VerifyPKCS1v15", "crypto/rsa.VerifyPKCS1v15")), IsTrue(ResultOf(-1, "crypto/ecdsa.Verify", "z/dsa.Verify", "crypto/dsa.Verify")))})
	} else {
		c.Undecided("R-CUT", "(*z/tls.signedKeyAgreement).verifyParameters", "anchor", "-", "not found")
	}
	// ---- F/G. CertificateVerify and TLS 1.3 server certificate
	peerKey := func(v ssa.Value) bool { return Expr(v) == "hs.c.peerCertificates[0].PublicKey" }
	type cv struct{ fn, label string; extra FP; keyOK func(ssa.Value, *ssa.Function) bool }
	for _, k := range []cv{
		{"(*z/tls.clientHandshakeStateTLS13).readServerCertificate", "TLS 1.3 client", IsTrue(exprIs("hs.usingPSK")), nil},
		{"(*z/tls.serverHandshakeStateTLS13).readClientCertificate", "TLS 1.3 server", Cmp(LenOf(func(v ssa.Value) bool { return strings.Contains(Expr(v), "Certificate") || strings.Contains(Expr(v), "peerCertificates") }), "eq le", ConstInt(0)), nil},
		{"(*z/tls.serverHandshakeState).doFullHandshake", "TLS 1.2 server", Cmp(LenOf(exprIs("hs.c.peerCertificates")), "le eq", ConstInt(0)), nil},
	} {
		fn := w.Fn(k.fn)
		if fn == nil {
			c.Undecided("R-CUT", k.fn, "anchor", "-", "not found")
			continue
		}
		c.Sites++
		sigOK := IsNil(func(v ssa.Value) bool {
			if !ResultOf(-1, fnVHS)(v) {
				return false
			}
			a := callOf(v).Call.Args
			// key of the peer's leaf certificate; the signature is the CertificateVerify message's
			return (peerKey(a[1]) || hasAll(Deps(a[1]), "field:Conn.peerCertificates", "field:Certificate.PublicKey")) && hasAll(Deps(a[4]), "field:certificateVerifyMsg.signature")
		})
		noCV := k.extra
		if strings.Contains(k.fn, "readClientCertificate") {
			// no client certificate was requested: requestClientCert() is false, or (the same test written
			// out) ClientAuth < RequestClientCert or a PSK is in use
			noCV = AnyF(noCV, IsFalse(ResultOf(-1, "(*z/tls.serverHandshakeStateTLS13).requestClientCert")),
				IsTrue(func(v ssa.Value) bool { return strings.HasSuffix(Expr(v), "hs.usingPSK") }),
				func(f Fact) bool {
					return f.Op == "lt" && f.Y != nil && strings.HasSuffix(Expr(f.X), ".config.ClientAuth") && w.IsConstNamed("z/tls", "RequestClientCert")(f.Y)
				})
		}
		c.Cut(CutSpec{Fn: fn, Label: k.label + ": nil only past verifyHandshakeSignature == nil under the peer's leaf key (unless no certificate is in play)", Target: SuccessReturn(0, nil), Cut: AnyF(sigOK, noCV)})
	}
	// ---- H. propagation at call sites
	for _, callee := range []string{fnVSC, fnPCFC} {
		n := 0
		for _, fn := range w.FuncsOfPkg("z/tls") {
			for _, in := range callsIn(fn, callee) {
				cl, ok := in.(*ssa.Call)
				if !ok {
					continue
				}
				n++
				c.Sites++
				c.Cut(CutSpec{Fn: fn, Label: "the error of " + short(expand(callee)) + " aborts the handshake step [" + w.InstrPos(in) + "]", StartAfter: cl, Assume: []Fact{{Op: "nonnil", X: cl}}, Target: SuccessReturn(errResultIdx(fn), nil)})
			}
		}
		c.Check(n >= 2, "R-ERR", "z/tls", "call sites of "+short(expand(callee))+" enumerated", "-", fmt.Sprint(n))
	}
	// the client reaches verifyServerCertificate on the first handshake
	if fn := w.Fn("(*z/tls.clientHandshakeState).doFullHandshake"); fn != nil {
		c.Cut(CutSpec{Fn: fn, Label: "first handshake: nil only past verifyServerCertificate == nil", Target: SuccessReturn(0, nil),
			Cut: AnyF(IsNil(ResultOf(-1, fnVSC)), Cmp(exprIs("hs.c.handshakes"), "ne gt", ConstInt(0)))})
	} else {
		c.Undecided("R-CUT", "(*z/tls.clientHandshakeState).doFullHandshake", "anchor", "-", "not found")
	}
}
