package main

import (
	"fmt"
	"os"
)

func debugf(format string, a ...any) {
	if os.Getenv("ZV_DEBUG") != "" {
		fmt.Fprintf(os.Stderr, format+"\n", a...)
	}
}
