package main

import (
	"golang.org/x/tools/go/ssa"
)

// fieldInits returns, for a local struct variable, the values stored into
// its fields (last store wins textually), following the "complit" temporary
// that go/ssa builds for `v := T{...}` and copies into v.
func fieldInits(al *ssa.Alloc) map[string]ssa.Value {
	out := map[string]ssa.Value{}
	seen := map[*ssa.Alloc]bool{}
	var visit func(a *ssa.Alloc)
	visit = func(a *ssa.Alloc) {
		if a == nil || seen[a] {
			return
		}
		seen[a] = true
		for _, ref := range *a.Referrers() {
			switch x := ref.(type) {
			case *ssa.Store:
				if x.Addr == ssa.Value(a) {
					if ld, ok := x.Val.(*ssa.UnOp); ok {
						if src, ok := ld.X.(*ssa.Alloc); ok {
							visit(src)
						}
					}
				}
			}
		}
		for _, ref := range *a.Referrers() {
			if fa, ok := ref.(*ssa.FieldAddr); ok {
				for _, r2 := range *fa.Referrers() {
					if st, ok := r2.(*ssa.Store); ok && st.Addr == ssa.Value(fa) {
						out[fieldLeaf(fieldName(fa))] = st.Val
					}
				}
			}
		}
	}
	visit(al)
	return out
}

// extraNonNil lets a property declare calls whose error result is never nil
// (after proving the callee's summary as its own obligation).
var extraNonNil func(*ssa.Call) bool

var nonNilSummary = map[*ssa.Function]int{} // 0 unknown, 1 computing, 2 yes, 3 no

// alwaysNonNilError: a module function with a single error result all of
// whose returns yield a definitely non-nil value (error constructors such as
// unexpectedMessageError).
func alwaysNonNilError(fn *ssa.Function) bool {
	switch nonNilSummary[fn] {
	case 1, 3:
		return false
	case 2:
		return true
	}
	nonNilSummary[fn] = 1
	ok := fn.Blocks != nil && fn.Signature.Results().Len() == 1 && errResultIdx(fn) == 0
	n := 0
	if ok {
		for _, b := range fn.Blocks {
			if b == fn.Recover {
				continue
			}
			if rt, isRt := b.Instrs[len(b.Instrs)-1].(*ssa.Return); isRt {
				n++
				if !definitelyNonNil(unspill(rt, 0)) {
					ok = false
				}
			}
		}
	}
	if ok && n > 0 {
		nonNilSummary[fn] = 2
		return true
	}
	nonNilSummary[fn] = 3
	return false
}
