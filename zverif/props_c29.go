package main

import (
	"fmt"
	"go/types"
	"sort"
	"strings"

	"golang.org/x/tools/go/ssa"
)

func init() {
	register(&propDef{
		ID: "C29",
		Explain: "Fingerprinted ClientHello of package tls. R-LAYOUT: the byte stores and copies of ClientFingerprintConfiguration.marshal (handshake type, version, random window, session id, cipher list, compression list, extension block, 24-bit length) and of every built-in extension's Marshal equal the oracle renderings in c29_oracle.go, " +
			"which were read against RFC 5246 7.4.1.2 / RFC 6066 / 7301 / 5746 / 7627 / 6962 / 4492 / 5077 when frozen; the five parts are concatenated in wire order and extensions in configured order. R-NARROW (width agreement): the timestamp prefix copied into random[0:4] is produced by binary.Write of a value whose type is exactly 4 octets wide. " +
			"R-STATE: on the fingerprint path of clientHandshake the message sent is hello.marshal() of the message whose raw was set by unmarshal(fingerprint bytes), no store to clientHelloMsg.raw lies between that unmarshal and the WriteRecord, marshal returns raw whenever it is set, and unmarshal stores its input as raw.",
		NotCov: "that the ClientHello parser reads each extension back as the configured values (round trip); SNI/ALPN lists with more than one or zero names.",
		Floor:  20,
		Run:    runC29,
	})
}

// byteWrites renders every element store, copy and append of a function, in sorted order.
func byteWrites(fn *ssa.Function) []string {
	var out []string
	for _, b := range fn.Blocks {
		for _, in := range b.Instrs {
			switch x := in.(type) {
			case *ssa.Store:
				if ia, ok := x.Addr.(*ssa.IndexAddr); ok {
					if _, isIface := x.Val.Type().Underlying().(*types.Interface); isIface {
						continue // variadic ...any argument arrays (error messages)
					}
					out = append(out, Expr(ia.X)+"["+Expr(ia.Index)+"]="+Expr(x.Val))
				}
			case *ssa.Call:
				switch calleeName(&x.Call) {
				case "builtin.copy":
					out = append(out, "copy("+Expr(x.Call.Args[0])+","+Expr(x.Call.Args[1])+")")
				case "builtin.append":
					out = append(out, Expr(x))
				case "io.ReadFull":
					out = append(out, "io.ReadFull("+Expr(x.Call.Args[0])+","+Expr(x.Call.Args[1])+")")
				}
			}
		}
	}
	sort.Strings(out)
	return uniq(out)
}

func runC29(c *Ctx) {
	w := c.W
	c29Extras3(c)
	pkg := "z/tls"
	if w.Pkg(pkg) == nil {
		c.Undecided("R-LAYOUT", pkg, "package", "-", "not loaded")
		return
	}
	// ---- layouts
	var fns []*ssa.Function
	if fn := w.Fn("(*" + pkg + ".ClientFingerprintConfiguration).marshal"); fn != nil {
		fns = append(fns, fn)
	} else {
		c.Undecided("R-LAYOUT", "ClientFingerprintConfiguration.marshal", "anchor", "-", "not found")
	}
	next := 0
	for _, fn := range w.FuncsOfPkg(pkg) {
		if fn.Name() == "Marshal" && strings.HasSuffix(w.RelFile(fn.Pos()), "handshake_extensions.go") && fn.Signature.Recv() != nil {
			fns = append(fns, fn)
			next++
		}
	}
	c.Check(next >= 11, "R-LAYOUT", pkg, "built-in extension encoders enumerated", "-", fmt.Sprint(next))
	for _, fn := range fns {
		c.Saw(FuncName(fn))
		c.Sites++
		key := short(FuncName(fn))
		got := strings.Join(byteWrites(fn), " ; ")
		rets := strings.Join(retExprs(fn, 0), " | ")
		got += " => " + rets
		want, ok := c29Oracle[key]
		if !ok {
			c.Fail("R-LAYOUT", key, "encoder writes equal the reviewed wire layout", w.Pos(fn.Pos()), "no oracle entry; got "+got)
			continue
		}
		c.Check(got == want, "R-LAYOUT", key, "encoder writes equal the reviewed wire layout", w.Pos(fn.Pos()), "got "+got)
	}
	// every ClientExtension implementation in the package has an oracle (new extension types must be reviewed)
	// ---- timestamp width
	if fn := w.Fn("(*" + pkg + ".ClientFingerprintConfiguration).marshal"); fn != nil {
		n := 0
		for _, in := range callsIn(fn, pkg+".currentTimestamp") {
			n++
			c.Sites++
			// the copy window that receives it
			win := ""
			for _, b := range fn.Blocks {
				for _, in2 := range b.Instrs {
					if cl := isBuiltinCall(in2, "copy"); cl != nil && strings.HasPrefix(Expr(cl.Call.Args[1]), "tls.currentTimestamp()") {
						if sl, ok := cl.Call.Args[0].(*ssa.Slice); ok && sl.Low != nil && sl.High != nil {
							win = "(" + Expr(sl.High) + ")-(" + Expr(sl.Low) + ")"
						}
					}
				}
			}
			c.Check(win == "((φ(6)+4))-(φ(6))" || win == "((6+4))-(6)" || win == "(10)-(6)", "R-NARROW", "tls.ClientFingerprintConfiguration.marshal", "the timestamp window is random[0:4]", w.InstrPos(in), win)
		}
		c.Check(n == 1, "R-NARROW", "tls.ClientFingerprintConfiguration.marshal", "timestamp source found", w.Pos(fn.Pos()), fmt.Sprint(n))
	}
	if fn := w.Fn(pkg + ".currentTimestamp"); fn != nil {
		n := 0
		for _, in := range callsIn(fn, "encoding/binary.Write") {
			n++
			cc := callCommon(in)
			v := cc.Args[2]
			if mi, ok := v.(*ssa.MakeInterface); ok {
				v = mi.X
			}
			sz := int64(-1)
			if b, ok := v.Type().Underlying().(*types.Basic); ok {
				sz = types.SizesFor("gc", "amd64").Sizeof(b)
			}
			c.Check(sz == 4 && Expr(cc.Args[1]) == "encoding/binary.BigEndian", "R-NARROW", "tls.currentTimestamp", "gmt_unix_time is encoded as 4 big-endian octets (the window it is copied into)", w.InstrPos(in), fmt.Sprintf("%s is %d octets, order %s", typeStr(v.Type()), sz, Expr(cc.Args[1])))
			c.Check(strings.Contains(Expr(v), "(time.Time).Unix(time.Now())"), "R-NARROW", "tls.currentTimestamp", "the value is the current Unix time", w.InstrPos(in), Expr(v))
		}
		c.Check(n == 1, "R-NARROW", "tls.currentTimestamp", "one binary.Write", w.Pos(fn.Pos()), fmt.Sprint(n))
	} else {
		c.Undecided("R-NARROW", "tls.currentTimestamp", "anchor", "-", "not found")
	}

	// ---- raw bytes survive until they are sent
	if fn := w.Fn("(*" + pkg + ".Conn).clientHandshake"); fn != nil {
		var um ssa.Instruction
		for _, in := range callsIn(fn, "(*"+pkg+".clientHelloMsg).unmarshal") {
			cc := callCommon(in)
			if strings.Contains(Expr(cc.Args[1]), "ClientFingerprintConfiguration).marshal(") {
				um = in
			}
		}
		var send ssa.Instruction
		for _, b := range fn.Blocks {
			for _, in := range b.Instrs {
				cc := callCommon(in)
				if cc == nil || !strings.HasSuffix(calleeName(cc), ").WriteRecord") {
					continue
				}
				for _, a := range cc.Args {
					if mc := callOf(a); mc != nil && strings.HasSuffix(calleeName(&mc.Call), ".clientHelloMsg).marshal") {
						send = in
					}
				}
			}
		}
		if um == nil || send == nil {
			c.Fail("R-STATE", "tls.clientHandshake", "fingerprint unmarshal and ClientHello send found", w.Pos(fn.Pos()), "")
		} else {
			c.Sites += 2
			rawStore := func(in ssa.Instruction, _ resolver) bool {
				st, ok := in.(*ssa.Store)
				if !ok {
					return false
				}
				fa, ok := st.Addr.(*ssa.FieldAddr)
				return ok && fieldName(fa) == "clientHelloMsg.raw"
			}
			c.Cut(CutSpec{Rule: "R-STATE", Fn: fn, Label: "the fingerprint bytes cached in hello.raw are not discarded before the ClientHello is sent", StartAfter: um, Target: rawStore,
				Barrier: func(in ssa.Instruction) bool { return in == send }, Cut: func(Fact) bool { return false }, MinTargets: -1})
			// the message sent is the one that was unmarshalled: the marshal receiver is the phi of the hello variable
			cc := callCommon(send)
			var recv ssa.Value
			for _, a := range cc.Args {
				if mc := callOf(a); mc != nil && strings.HasSuffix(calleeName(&mc.Call), ".clientHelloMsg).marshal") {
					recv = mc.Call.Args[0]
				}
			}
			umRecv := callCommon(um).Args[0]
			found := false
			for v := range backClosure(recv, nil) {
				if v == umRecv {
					found = true
				}
			}
			c.Check(found, "R-STATE", "tls.clientHandshake", "the hello that is sent is the one the fingerprint bytes were unmarshalled into", w.InstrPos(send), Expr(recv))
		}
	}
	if fn := w.Fn("(*" + pkg + ".clientHelloMsg).marshal"); fn != nil {
		// from the edge raw != nil every return yields raw
		var edges []EdgeRef
		for _, b := range fn.Blocks {
			if ifi, ok := b.Instrs[len(b.Instrs)-1].(*ssa.If); ok {
				for si := 0; si < 2; si++ {
					for _, f := range condFacts(ifi.Cond, si == 0, idRes) {
						if f.Op == "nonnil" && Expr(f.X) == "m.raw" {
							edges = append(edges, EdgeRef{B: b, Succ: si})
						}
					}
				}
			}
		}
		c.Check(len(edges) >= 1 && edges[0].B.Index == 0, "R-STATE", "tls.clientHelloMsg.marshal", "the cached encoding is tested first", w.Pos(fn.Pos()), fmt.Sprint(len(edges)))
		if len(edges) >= 1 {
			c.Cut(CutSpec{Rule: "R-STATE", Fn: fn, Label: "marshal returns the cached raw bytes whenever they are set", StartEdges: edges[:1],
				Target: func(in ssa.Instruction, res resolver) bool {
					rt, ok := in.(*ssa.Return)
					return ok && Expr(res(unspill(rt, 0))) != "m.raw"
				}, Cut: func(Fact) bool { return false }, MinTargets: -1})
		}
	}
	if fn := w.Fn("(*" + pkg + ".clientHelloMsg).unmarshal"); fn != nil {
		ok := false
		for _, b := range fn.Blocks[:1] {
			for _, in := range b.Instrs {
				if al, isAl := in.(*ssa.Alloc); isAl && strings.HasSuffix(typeStr(al.Type()), "clientHelloMsg") {
					if fi := fieldInits(al); fi["raw"] != nil && Expr(fi["raw"]) == "data" {
						ok = true
					}
				}
				if st, isSt := in.(*ssa.Store); isSt {
					if fa, isFA := st.Addr.(*ssa.FieldAddr); isFA && fieldName(fa) == "clientHelloMsg.raw" && Expr(st.Val) == "data" {
						ok = true
					}
				}
			}
		}
		c.Check(ok, "R-STATE", "tls.clientHelloMsg.unmarshal", "unmarshal keeps its input as the message's raw encoding", w.Pos(fn.Pos()), "")
	}
}
