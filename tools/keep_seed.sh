#!/bin/bash
# Keep a confirmed seed under /verif/seeded/<id>/ and record what was run.
# usage: keep_seed.sh <id> "<detection result text>"
ID=$1; RES=$2; SRC=${SEED_SRC:-/tmp/seeded_out}/$ID; DST=/verif/seeded/$ID
mkdir -p $DST && cp $SRC/patch.diff $SRC/*.go $DST/ 2>/dev/null
python3 - "$SRC/meta.json" "$DST/meta.json" "$ID" "$RES" <<'PY'
import json,sys
src,dst,sid,res=sys.argv[1:5]
m=json.load(open(src))
out={"id":sid,"property":m["property"],"breaks":m.get("summary",""),"needs_to_manifest":m.get("needs",""),
 "demo_pkg_dir":m.get("demo_pkg_dir",""),"demo_cmd":m.get("demo_cmd",""),
 "author":"independent sub-agent given only the property text and a scratch worktree",
 "author_ran":m.get("ran",""),
 "confirmed_by_me":"tools/confirm_seed.sh in a scratch worktree of /repo HEAD: demo passes on the clean tree, fails with patch.diff applied; go build ./... ok; tools/baseline.sh reports 1304/1304 stable tests passing with the patch",
 "checker_result":res}
json.dump(out,open(dst,"w"),indent=1)
PY
echo kept $ID
