#!/bin/bash
# usage: keep_round2.sh <seed id> [property that should catch it]
# confirms detection on /repo (apply, run, revert) and keeps the seed from /tmp/seeded_out5
ID=$1; D=/tmp/seeded_out5/$ID
PROP=${2:-$(python3 -c "import json;print(json.load(open('$D/meta.json'))['property'])")}
OUT=$(/verif/tools/seedtest.sh $D $PROP)
if echo "$OUT" | head -1 | grep -q CAUGHT; then
  RULE=$(echo "$OUT" | grep -m1 "violated:" | sed 's/^ *violated: //' | cut -c1-200)
  SEED_SRC=/tmp/seeded_out5 /verif/tools/keep_seed.sh $ID "CAUGHT by $PROP: $RULE (round 5)"
else
  echo "$ID: NOT caught by $PROP"; echo "$OUT" | tail -2
fi
