#!/bin/bash
# Confirm a seeded change: demo passes clean, fails with patch; baseline passes with patch.
# usage: confirm_seed.sh <dir with patch.diff, demo, meta.json>   (uses a scratch worktree under /tmp/confirm)
set -u
D=$1; ID=$(basename "$D")
WT=/tmp/confirm/$ID
export GOFLAGS=-mod=mod GOPROXY=off
rm -rf "$WT"; git -C /repo worktree prune; git -C /repo worktree add --detach "$WT" HEAD >/dev/null 2>&1 || { echo "$ID: cannot create worktree"; exit 2; }
trap 'git -C /repo worktree remove --force "$WT" >/dev/null 2>&1' EXIT
PKG=$(python3 -c "import json;print(json.load(open('$D/meta.json'))['demo_pkg_dir'])")
DEMO=$(ls "$D"/*_test.go "$D"/*.go 2>/dev/null | head -1)
cp "$DEMO" "$WT/$PKG/"
RUN=$(grep -ho 'func Test[A-Za-z0-9_]*' "$DEMO" | sed 's/func //' | paste -sd'|')
cleanrc=1
(cd "$WT" && go test -vet=off -count=1 -run "^($RUN)\$" "./$PKG/" >/tmp/confirm/$ID.clean.log 2>&1) && cleanrc=0
git -C "$WT" apply "$D/patch.diff" || { echo "$ID: patch does not apply"; exit 2; }
(cd "$WT" && go build ./... >/tmp/confirm/$ID.build.log 2>&1) || { echo "$ID: does not build"; exit 2; }
patchrc=0
(cd "$WT" && go test -vet=off -count=1 -run "^($RUN)\$" "./$PKG/" >/tmp/confirm/$ID.patched.log 2>&1) || patchrc=1
rm -f "$WT/$PKG/$(basename "$DEMO")"
base=$(/verif/tools/baseline.sh "$WT" | head -1)
echo "$ID: demo_clean=$([ $cleanrc = 0 ] && echo PASS || echo FAIL) demo_patched=$([ $patchrc = 1 ] && echo FAIL || echo PASS) baseline_patched='$base'"
[ $cleanrc = 0 ] && [ $patchrc = 1 ] && [[ "$base" == *"passing: 1304"* ]]
