#!/bin/bash
# Re-applies every kept seed to a scratch copy of /repo's working tree and runs the property check
# recorded as catching it. Prints one line per seed. usage: sweep_seeds.sh [parallelism]
HERE=/verif; P=${1:-6}
one() {
  dir=$1; id=$(basename $dir)
  prop=$(python3 - "$dir/meta.json" <<'PY'
import json,sys,re
m=json.load(open(sys.argv[1]))
c=re.findall(r'(?i)caught by (C\d\d)', m.get('checker_result',''))
print(c[0] if c else m.get('property'))
PY
)
  S=$(mktemp -d /tmp/zv-sweep.XXXXXX); mkdir -p $S/tree $S/verif; cp $HERE/known_findings.json $S/verif/
  (cd /repo && tar --exclude=.git -cf - .) | (cd $S/tree && tar -xf -)
  if (cd $S/tree && git apply --unsafe-paths $dir/patch.diff >/dev/null 2>&1); then
    out=$($HERE/bin/zverif -verif $S/verif -repo $S/tree -property $prop -tier quick 2>&1); rc=$?
    if [ $rc = 1 ]; then echo "$id $prop caught"; else echo "$id $prop MISSED rc=$rc $(echo "$out" | tail -1 | cut -c1-120)"; fi
  else echo "$id $prop SKIPPED patch does not apply"; fi
  rm -rf $S
}
export -f one; export HERE
export PATH=/opt/veriftools/go1.26.8/bin:$PATH GOTOOLCHAIN=local GOPROXY=off GOSUMDB=off GOWORK=off
ls -d $HERE/seeded/*/ | sed 's:/$::' | xargs -P $P -I{} bash -c 'one {}'
