#!/bin/bash
# Run the pinned test suite on a tree (default /repo) and compare against the
# stable_pass list of /root/.vp/BASELINE.json. Exit 0 iff every stable test passes.
# usage: baseline.sh [dir] [extra go test flags...]
DIR=${1:-/repo}; shift
export GOFLAGS=-mod=mod GOPROXY=off
OUT=$(mktemp /tmp/baseline.XXXXXX.json)
(cd "$DIR" && go test -mod=mod -json -vet=off -count=1 -timeout 25m "$@" ./... > "$OUT" 2>"$OUT.err"); head -5 "$OUT.err"; rm -f "$OUT.err"
python3 - "$OUT" <<'PY'
import json,sys
base=json.load(open('/root/.vp/BASELINE.json'))
want=set(base['stable_pass'])
res={}
for l in open(sys.argv[1]):
    try: e=json.loads(l)
    except Exception: continue
    if e.get('Test') and e.get('Action') in ('pass','fail','skip'):
        res[e['Package']+'::'+e['Test']]=e['Action']
bad=[t for t in sorted(want) if res.get(t)!='pass']
print("stable tests: %d, passing: %d"%(len(want),len(want)-len(bad)))
for t in bad[:40]: print("NOT PASSING:",t,res.get(t))
sys.exit(1 if bad else 0)
PY
rc=$?; rm -f "$OUT"; exit $rc
