#!/bin/bash
# builds the checker to bin/zverif-dev (leaves bin/zverif alone while a sweep is using it)
export PATH=/opt/veriftools/go1.26.8/bin:$PATH GOTOOLCHAIN=local GOPROXY=off GOSUMDB=off GOWORK=off
cd /verif/zverif && GOFLAGS=-mod=vendor go build -o /verif/bin/zverif-dev . && echo built
