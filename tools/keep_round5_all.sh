#!/bin/bash
# tests every round-5 seed of /tmp/seeded_out5 against its property's check on a scratch copy and keeps it under seeded/
first="C02i C03i C08i C09i C10i C11i C12i C14i C17i C18i C20i C22i C26i C30i C35i"   # detected before any strengthening
one() { id=$1; D=/tmp/seeded_out5/$id
  OUT=$(/verif/tools/seedtest_scratch.sh $D)
  PROP=$(python3 -c "import json;print(json.load(open('$D/meta.json'))['property'])")
  if echo "$OUT" | head -1 | grep -q CAUGHT; then
    RULE=$(echo "$OUT" | grep -m1 "violated:" | sed 's/^ *violated: //' | cut -c1-200)
    if echo " $FIRST " | grep -q " $id "; then how="round 5, first pass"; else how="round 5, after strengthening (first pass: missed)"; fi
    SEED_SRC=/tmp/seeded_out5 /verif/tools/keep_seed.sh $id "CAUGHT by $PROP: $RULE ($how)"
  else
    SEED_SRC=/tmp/seeded_out5 /verif/tools/keep_seed.sh $id "MISSED by $PROP (not covered): see DESIGN 8.6"
  fi
}
export -f one; export FIRST="$first"
ls /tmp/seeded_out5 | xargs -P 6 -I{} bash -c 'one {}'
