#!/bin/bash
# Apply a seeded patch to /repo, run the property's quick check, revert. Prints CAUGHT/MISSED.
# usage: seedtest.sh <seed dir> [property override]
D=$1; ID=$(basename "$D")
PROP=${2:-$(python3 -c "import json;print(json.load(open('$D/meta.json'))['property'])")}
if [ -n "$(git -C /repo status --porcelain)" ]; then echo "/repo not clean"; exit 2; fi
trap 'git -C /repo checkout -- . ; git -C /repo clean -fdq' EXIT
git -C /repo apply "$D/patch.diff" || exit 2
OUT=$(/verif/run.sh $PROP quick 2>&1); rc=$?
if [ $rc = 1 ] && echo "$OUT" | grep -q "^VIOLATION property=$PROP"; then echo "$ID: CAUGHT by $PROP"; echo "$OUT" | grep -A2 '^VIOLATION' | head -12; else echo "$ID: MISSED by $PROP (rc=$rc)"; echo "$OUT" | tail -3; fi
