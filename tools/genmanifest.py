#!/usr/bin/env python3
"""Regenerate /verif/MANIFEST.json from the table below.
Only properties listed in CLAIMED get a check; every other property is listed
under not_applicable with its reason."""
import json, os, subprocess, sys

HERE = os.path.dirname(os.path.dirname(os.path.abspath(__file__)))

def claimed():
    """Ask the checker which properties it implements, with their texts."""
    env = dict(os.environ, PATH="/opt/veriftools/go1.26.8/bin:" + os.environ["PATH"])
    out = subprocess.run([os.path.join(HERE, "run.sh"), "-list"], capture_output=True, text=True, env=env, check=True).stdout
    d = {}
    for l in out.splitlines():
        if l.startswith("{"):
            p = json.loads(l)
            tech = p["technique"] or "edge-cut reachability over the SSA control-flow graph (R-CUT), def-use provenance (R-PROV), writer obligations (R-OWN), table agreement (R-TABLE)"
            d[p["id"]] = (tech, p["explain"], "Structural necessary conditions only, decided exactly on the SSA of the current tree. Not covered: " + p["not_covered"])
    return d

CLAIMED = claimed()

NOT_APPLICABLE = {
 "C18": "ASN.1 Marshal/Unmarshal round-trip equality over reflect-driven codecs is a value property; the only structural link between the two directions is one shared function (getUniversalType), so there is no sibling table to cross-check statically.",
}

PENDING_REASON = "static check not implemented yet in this revision of /verif (see DESIGN.md section 3 for the planned structural obligations); not claimed until the rule is armed and exact on the unchanged tree"

def main():
    props = [json.loads(l) for l in open(os.path.join(HERE, "properties.jsonl"))]
    checks, na = [], []
    for p in props:
        pid = p["id"]
        if pid in CLAIMED:
            tech, text, note = CLAIMED[pid]
            checks.append({
                "property_id": pid,
                "quick_cmd": "./run.sh %s quick" % pid,
                "thorough_cmd": "./run.sh %s thorough" % pid,
                "evidence_file": "evidence/%s.json" % pid,
                "replay_cmd_template": "./run.sh -replay {path}",
                "engine": "zverif",
                "level_claimed": {"category": "other", "text": text, "design_ref": "DESIGN.md section 8.3 (as built) and section 3 (plan), " + pid},
                "level_note": note,
                "technique": "static analysis: " + tech,
            })
        else:
            na.append({"property_id": pid, "reason": NOT_APPLICABLE.get(pid, PENDING_REASON)})
    m = {
        "version": 1,
        "setup_cmd": "cd /verif/zverif && PATH=/opt/veriftools/go1.26.8/bin:$PATH GOTOOLCHAIN=local GOFLAGS=-mod=vendor GOPROXY=off GOSUMDB=off GOWORK=off go build -o /verif/bin/zverif . && /verif/bin/zverif -verif /verif -selftest",
        "hooks": {
            "guard": "verif",
            "enable": "no hooks: the checker analyses /repo's source as is (go/packages + go/ssa); nothing in /repo is built with a tag or executed",
            "baseline_off_cmd": "cd /repo && go test -mod=mod -json -vet=off -count=1 -timeout 25m ./...",
            "source_commits": [],
            "add_only": True,
        },
        "engines": [{
            "name": "zverif",
            "path": "zverif/",
            "serves_properties": sorted(CLAIMED),
            "kind_free_text": "repository-specific static analyser over go/types + go/ssa + VTA call graph (x/tools v0.50.0, vendored); rules: edge-cut reachability, must-precede, writer obligations, provenance, table agreement, value-set; decides named structural obligations per property",
        }],
        "checks": checks,
        "not_applicable": na,
        "notes": "All checks are static: they load and type-check /repo's current working tree on every run (31 packages), build SSA, and decide obligations keyed by rule|function|construct. Known findings: known_findings.json. Seeded regressions used to test the checker: seeded/.",
    }
    json.dump(m, open(os.path.join(HERE, "MANIFEST.json"), "w"), indent=1)
    print("claimed:", len(checks), "not_applicable:", len(na))

if __name__ == "__main__":
    main()
