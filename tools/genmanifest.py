#!/usr/bin/env python3
"""Regenerate /verif/MANIFEST.json from the table below.
Only properties listed in CLAIMED get a check; every other property is listed
under not_applicable with its reason."""
import json, os, subprocess, sys

HERE = os.path.dirname(os.path.dirname(os.path.abspath(__file__)))

# property -> (technique, level text, level note)
CLAIMED = {
 "C07": ("edge-cut reachability on SSA CFG (R-CUT) + def-use provenance (R-PROV) + append-site classification (R-OWN)",
         "Every chain appended by buildChains/findVerifiedParents/FilterByDate and every nil-error exit of Verify/isValid is shown, on all CFG paths, to lie behind the specific validity, repetition, signature, EKU, date and hostname guards for the same certificate value.",
         "Structural necessary conditions only: the buildChains memoisation (cache keyed by intermediate index) and the arithmetic of the guards themselves are not decided; one named lemma cut (FilterByDate partition) is used in Verify."),
}

NOT_APPLICABLE = {
 "C18": "ASN.1 Marshal/Unmarshal round-trip equality over reflect-driven codecs is a value property; the only structural link between the two directions is one shared function (getUniversalType), so there is no sibling table to cross-check statically.",
}

PENDING_REASON = "static check not implemented yet in this revision of /verif (see DESIGN.md section 3 for the planned structural obligations); not claimed until the rule is armed and exact on the unchanged tree"

def main():
    props = [json.loads(l) for l in open(os.path.join(HERE, "properties.jsonl"))]
    checks, na = [], []
    for p in props:
        pid = p["id"]
        if pid in CLAIMED:
            tech, text, note = CLAIMED[pid]
            checks.append({
                "property_id": pid,
                "quick_cmd": "./run.sh %s quick" % pid,
                "thorough_cmd": "./run.sh %s thorough" % pid,
                "evidence_file": "evidence/%s.json" % pid,
                "replay_cmd_template": "./run.sh -replay {path}",
                "engine": "zverif",
                "level_claimed": {"category": "other", "text": text, "design_ref": "DESIGN.md section 3, " + pid},
                "level_note": note,
                "technique": "static analysis: " + tech,
            })
        else:
            na.append({"property_id": pid, "reason": NOT_APPLICABLE.get(pid, PENDING_REASON)})
    m = {
        "version": 1,
        "setup_cmd": "cd /verif/zverif && PATH=/opt/veriftools/go1.26.8/bin:$PATH GOTOOLCHAIN=local GOFLAGS=-mod=vendor GOPROXY=off GOSUMDB=off GOWORK=off go build -o /verif/bin/zverif . && /verif/bin/zverif -verif /verif -selftest",
        "hooks": {
            "guard": "verif",
            "enable": "no hooks: the checker analyses /repo's source as is (go/packages + go/ssa); nothing in /repo is built with a tag or executed",
            "baseline_off_cmd": "cd /repo && go test -mod=mod -json -vet=off -count=1 -timeout 25m ./...",
            "source_commits": [],
            "add_only": True,
        },
        "engines": [{
            "name": "zverif",
            "path": "zverif/",
            "serves_properties": sorted(CLAIMED),
            "kind_free_text": "repository-specific static analyser over go/types + go/ssa + VTA call graph (x/tools v0.50.0, vendored); rules: edge-cut reachability, must-precede, writer obligations, provenance, table agreement, value-set; decides named structural obligations per property",
        }],
        "checks": checks,
        "not_applicable": na,
        "notes": "All checks are static: they load and type-check /repo's current working tree on every run (31 packages), build SSA, and decide obligations keyed by rule|function|construct. Known findings: known_findings.json. Seeded regressions used to test the checker: seeded/.",
    }
    json.dump(m, open(os.path.join(HERE, "MANIFEST.json"), "w"), indent=1)
    print("claimed:", len(checks), "not_applicable:", len(na))

if __name__ == "__main__":
    main()
