#!/usr/bin/env python3
"""Regenerates section 8 ("As built") of /verif/DESIGN.md.
Hand-written parts live in tools/design8/*.md; 8.3 comes from `run.sh -list`, the findings list from
known_findings.json and the seed table from seeded/*/meta.json, so the document cannot drift from the code."""
import json, os, re, subprocess, glob
V = '/verif'
def part(n): return open(f'{V}/tools/design8/{n}.md').read().rstrip('\n') + '\n'
out = [part('head')]
# 8.3
out.append('### 8.3 What each check decides (generated from `run.sh -list`)\n')
for l in subprocess.run([f'{V}/run.sh', '-list'], capture_output=True, text=True).stdout.splitlines():
    d = json.loads(l)
    out.append(f"#### {d['id']}\n*Decided:* {d['explain']}\n\n*Not covered:* {d['not_covered']}\n\n*Floor:* {d['floor']} obligations.\n")
# 8.4
out.append(part('findings_intro'))
kf = json.load(open(f'{V}/known_findings.json'))['findings']
for f in kf:
    if f['status'] == 'fixed':
        m = re.match(r'fixed: property=(C\d\d) (\S+) (.*)', f['line'])
        out.append(f"* **fixed** {m.group(1)} — {m.group(2)} {m.group(3)}")
out.append('')
out.append(part('findings_open'))
out.append(part('alarms'))
# 8.6
out.append(part('seeds_intro'))
out.append('| seed | property | caught by | rule | change (abridged) |\n|---|---|---|---|---|')
def key(p):
    b = os.path.basename(os.path.dirname(p))
    return (b.startswith('fixrev'), b)
n = caught = 0
missed = []
for mp in sorted(glob.glob(f'{V}/seeded/*/meta.json'), key=key):
    m = json.load(open(mp)); sid = os.path.basename(os.path.dirname(mp))
    res = m.get('checker_result', '')
    by = re.findall(r'(?i)caught by (C\d\d)', res)
    rule = re.search(r'\b(R-[A-Z0-9]+)', res)
    n += 1
    if by: caught += 1
    else: missed.append(sid)
    txt = (m.get('breaks') or m.get('summary') or m.get('description') or '').replace('|', '/').replace('\n', ' ')
    out.append(f"| {sid} | {m.get('property','')} | {by[-1] if by else '**missed**'} | {rule.group(1) if rule else ''} | {txt[:150]} |")
out.append('')
out.append(f"Totals: {n} kept seeds, {caught} detected, {len(missed)} recorded as missed ({', '.join(missed) or 'none'}).\n")
out.append(part('benign'))
out.append(part('limits'))
doc = open(f'{V}/DESIGN.md').read()
i = doc.index('## 8. As built')
open(f'{V}/DESIGN.md', 'w').write(doc[:i] + '\n'.join(out))
print('section 8 regenerated:', n, 'seeds,', caught, 'caught')
