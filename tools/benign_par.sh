#!/bin/bash
# Runs tools/benign_try.sh over every refactoring of <dir> in parallel (5). usage: benign_par.sh <dir> <out>
D=$1; OUT=$2; : > $OUT
ls $D | grep -v EXPECTED | xargs -P 5 -I{} sh -c "FORCE=1 BENIGN_DIR=$D /verif/tools/benign_try.sh {} > /tmp/bp.{}.out 2>&1; cat /tmp/bp.{}.out >> $OUT; rm -f /tmp/bp.{}.out"
