#!/bin/bash
# try every unprocessed round-5 seed with complete outputs against its own property's check
for d in /tmp/seeded_out5/*; do id=$(basename $d); [ -d /verif/seeded/$id ] && continue; [ -f $d/meta.json ] && [ -s $d/patch.diff ] || continue
  grep -qx "$id" /tmp/r5_seen 2>/dev/null && continue
  /verif/tools/seedtest.sh $d 2>&1 | head -3 | cut -c1-280; echo $id >> /tmp/r5_seen
done
