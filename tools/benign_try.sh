#!/bin/bash
# Applies each behaviour-preserving refactoring under ${BENIGN_DIR:-/verif/benign} to a scratch copy of /repo and runs all quick
# checks; any VIOLATION is a false alarm of the machinery. usage: benign_try.sh [ids...]
HERE=/verif
export PATH=/opt/veriftools/go1.26.8/bin:$PATH GOTOOLCHAIN=local GOPROXY=off GOSUMDB=off GOWORK=off
ids="$@"; [ -z "$ids" ] && ids=$(ls ${BENIGN_DIR:-/verif/benign})
for id in $ids; do
  d=${BENIGN_DIR:-/verif/benign}/$id; [ -s $d/patch.diff ] || continue
  grep -q "^$id " /tmp/benign_seen 2>/dev/null && [ -z "$FORCE" ] && continue
  S=$(mktemp -d /tmp/zv-benign.XXXXXX); mkdir -p $S/tree $S/verif; cp $HERE/known_findings.json $S/verif/
  (cd /repo && tar --exclude=.git -cf - .) | (cd $S/tree && tar -xf -)
  if (cd $S/tree && git apply --unsafe-paths $d/patch.diff >/dev/null 2>&1); then
    out=$($HERE/bin/zverif -verif $S/verif -repo $S/tree -property all -tier quick 2>&1); rc=$?
    bad=$(echo "$out" | grep "^VIOLATION" | sed 's/.*property=\(C[0-9]*\).*/\1/' | sort -u | tr '\n' ' ')
    exp=$(grep "^$id " $HERE/benign/EXPECTED_ALARMS.txt 2>/dev/null | cut -d' ' -f2- )
    if [ -n "$bad" ] && [ -n "$exp" ]; then echo "$id rc=$rc alarms: $bad (expected: $exp)"; else echo "$id rc=$rc alarms: ${bad:-none}"; fi
    echo "$out" | grep -A1 "violated:\|undecided:" | cut -c1-330 | head -12
  else echo "$id patch does not apply"; fi
  echo "$id done" >> /tmp/benign_seen
  rm -rf $S
done
