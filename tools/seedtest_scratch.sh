#!/bin/bash
# Apply a seeded patch to a scratch copy of /repo's working tree and run a property's quick check there (never touches /repo).
# usage: seedtest_scratch.sh <seed dir> [property|all]   prints CAUGHT/MISSED like seedtest.sh
D=$1; ID=$(basename "$D")
PROP=${2:-$(python3 -c "import json;print(json.load(open('$D/meta.json'))['property'])")}
export PATH=/opt/veriftools/go1.26.8/bin:$PATH GOTOOLCHAIN=local GOPROXY=off GOSUMDB=off GOWORK=off
S=$(mktemp -d /tmp/zv-seed.XXXXXX); mkdir -p $S/tree $S/verif; cp /verif/known_findings.json $S/verif/
trap 'rm -rf $S' EXIT
(cd /repo && tar --exclude=.git -cf - .) | (cd $S/tree && tar -xf -)
(cd $S/tree && git apply --unsafe-paths $D/patch.diff) || { echo "$ID: patch does not apply"; exit 2; }
OUT=$(${ZV_BIN:-/verif/bin/zverif} -verif $S/verif -repo $S/tree -property $PROP -tier quick 2>&1); rc=$?
if [ $rc = 1 ] && echo "$OUT" | grep -q "^VIOLATION property="; then
  echo "$ID: CAUGHT by $(echo "$OUT" | grep "^VIOLATION" | sed 's/.*property=\(C[0-9]*\).*/\1/' | sort -u | tr '\n' ' ')"
  echo "$OUT" | grep -A1 "violated:" | cut -c1-300 | head -8
else echo "$ID: MISSED by $PROP (rc=$rc)"; echo "$OUT" | tail -2 | cut -c1-200; fi
