#!/bin/bash
# runs bin/zverif-dev with the checker environment: dev.sh [env VAR=..] args...
export PATH=/opt/veriftools/go1.26.8/bin:$PATH GOTOOLCHAIN=local GOPROXY=off GOSUMDB=off GOWORK=off
unset GOFLAGS
exec /verif/bin/zverif-dev -verif ${ZV_VERIF:-/verif} -repo ${ZV_REPO:-/repo} "$@"
